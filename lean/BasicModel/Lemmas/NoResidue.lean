import BasicModel.Lemmas.StructCompile
import BasicModel.Lemmas.PrintRun
import BasicModel.Lemmas.ReadRun
import BasicModel.Lemmas.VarPool
/-
  "A statement that completes leaves no residue" (C18), on top of the block calculus of
  `Lemmas/StructCompile.lean` (chain 1).

  * `assigned p` — the variables a structured statement assigns; `Within A σ σ'` — `σ'` differs from
    `σ` in the entries only (dimensions and DEFtypes untouched), every key of `σ'` is a key of `σ` or
    a name of `A`, distinct keys stay distinct; `exec_within`: the semantics of `p` stays within
    `assigned p`, for every fuel (= any number of passes of its loops); `within_length`: so the
    pool grows by at most the number of DISTINCT assigned names;
  * loops with an explicit pass count: `whileT_of_passes`, `forIter_of_passes`, and their machine
    forms `while_passes_no_residue`, `for_passes_no_residue` — `k` passes, `k` arbitrary;
  * the fragment beyond `SStmt`: GOSUB to a block ending in RETURN (`gosub_block_balanced`),
    ON … GOSUB, selected (`on_gosub_selected_balanced`) and not selected
    (`on_gosub_fallthrough_goes`), LET with a user-function call (`let_call_goes`), PRINT
    (`print_no_residue`), READ (`read_no_residue`);
  * FOR does not look for an older frame of its variable: `for_entry_pushes_frame` — entering a FOR
    pushes four values, always; `abandoned_for_rounds` — a FOR left by GOTO and entered again `k`
    times has pushed `4·k` values; `abandonedLoop_*` — the program `10 FOR I%=1 TO 2 / 20 GOTO 10`
    ends in OUT OF MEMORY "STACK OVERFLOW" after 16 383 completed rounds, and `execute` empties the
    stack.
-/
namespace Basic
namespace Lemmas.NoResidue
open Basic.Spec Basic.Lemmas.ExprCompile Basic.Lemmas.FnCall Basic.Lemmas.StructCompile Basic.Runtime
open Basic.Lemmas.VarPool

/-! ## the only pool a structured statement can grow is the variable store -/

/-- the variables a structured statement assigns: the targets of LET and the loop variables -/
def assigned : SStmt → List Str
  | .assign n _ => [n]
  | .seq p q => assigned p ++ assigned q
  | .ifThen _ p => assigned p
  | .ifThenElse _ p q => assigned p ++ assigned q
  | .while _ p => assigned p
  | .for n _ _ _ p => n :: assigned p

/-- `σ'` is `σ` with entries of the names `A` written, added or removed — nothing else -/
structure Within (A : List Str) (σ σ' : Var) : Prop where
  dims : σ'.dims = σ.dims
  types : σ'.types = σ.types
  keys : ∀ p ∈ σ'.vars, p.1 ∈ σ.vars.map (·.1) ∨ p.1 ∈ A
  nodup : AL.NoDup σ.vars → AL.NoDup σ'.vars
  noDefaults : NoDefaults σ → NoDefaults σ'

theorem Within.refl (A : List Str) (σ : Var) : Within A σ σ :=
  ⟨rfl, rfl, fun _ hp => .inl (List.mem_map_of_mem hp), id, id⟩

theorem Within.mono {A B : List Str} {σ σ' : Var} (h : Within A σ σ') (hs : ∀ x ∈ A, x ∈ B) : Within B σ σ' :=
  ⟨h.dims, h.types, fun p hp => (h.keys p hp).imp id (hs _), h.nodup, h.noDefaults⟩

theorem Within.trans {A : List Str} {σ σ1 σ2 : Var} (h1 : Within A σ σ1) (h2 : Within A σ1 σ2) : Within A σ σ2 := by
  refine ⟨h2.dims.trans h1.dims, h2.types.trans h1.types, ?_, fun h => h2.nodup (h1.nodup h),
    fun h => h2.noDefaults (h1.noDefaults h)⟩
  intro p hp
  rcases h2.keys p hp with h | h
  · obtain ⟨q, hq, hqe⟩ := List.mem_map.1 h
    rw [← hqe]
    exact h1.keys q hq
  · exact .inr h

/-- one `store` -/
theorem within_store {σ σ' : Var} {n : Str} {x : Val} (h : σ.store n x = .ok σ') : Within [n] σ σ' := by
  obtain ⟨_, t, y, _, _, rfl⟩ := Thm.C06.store_ok h
  refine ⟨Thm.C06.updateVal_dims σ n y, Thm.C06.updateVal_types σ n y, ?_, fun hd => Thm.C06.nodup_updateVal hd n y,
    fun hd => noDefaults_updateVal hd n y⟩
  intro p hp
  unfold Var.updateVal at hp
  split at hp
  · exact .inl (List.mem_map_of_mem (AL.mem_erase.1 hp).1)
  · rcases AL.mem_set.1 hp with rfl | ⟨hp, _⟩
    · exact .inr (List.mem_singleton.2 rfl)
    · exact .inl (List.mem_map_of_mem hp)

theorem within_assignT {n : Str} {e : Expr} {σ σ' : Var} (h : assignT n e σ = some (.ok σ')) : Within [n] σ σ' := by
  simp only [assignT, Option.some.injEq] at h
  cases hv : eval σ e with
  | error err => rw [hv] at h; cases h
  | ok v => rw [hv] at h; exact within_store h

theorem within_seqT {A : List Str} {f g : Trans} (hf : ∀ σ σ', f σ = some (.ok σ') → Within A σ σ')
    (hg : ∀ σ σ', g σ = some (.ok σ') → Within A σ σ') {σ σ' : Var} (h : seqT f g σ = some (.ok σ')) :
    Within A σ σ' := by
  simp only [seqT] at h
  cases hfσ : f σ with
  | none => rw [hfσ] at h; cases h
  | some r =>
    rw [hfσ] at h
    cases r with
    | error e => cases h
    | ok σ1 => exact (hf σ σ1 hfσ).trans (hg σ1 σ' h)

theorem within_iteT {A : List Str} {c : Expr} {f g : Trans} (hf : ∀ σ σ', f σ = some (.ok σ') → Within A σ σ')
    (hg : ∀ σ σ', g σ = some (.ok σ') → Within A σ σ') {σ σ' : Var} (h : iteT c f g σ = some (.ok σ')) :
    Within A σ σ' := by
  simp only [iteT] at h
  cases hc : holds σ c with
  | error e => rw [hc] at h; cases h
  | ok b =>
    rw [hc] at h
    cases b with
    | true => exact hf σ σ' h
    | false => exact hg σ σ' h

theorem within_skipT (A : List Str) {σ σ' : Var} (h : skipT σ = some (.ok σ')) : Within A σ σ' := by
  simp only [skipT, Option.some.injEq, Except.ok.injEq] at h
  subst h
  exact Within.refl A σ

theorem within_nextStep {neg : Val → Option Bool} {σ σ' : Var} {n : Str} {t st : Val} {b : Bool}
    (h : nextStep neg σ n t st = some (.ok (σ', b))) : Within [n] σ σ' := by
  rcases nextStep_cases neg σ n t st with ⟨e, _, hn⟩ | ⟨_, e, _, _, hn⟩ | ⟨_, _, e, _, _, _, hn⟩ |
    ⟨_, _, _, _, _, _, _, hn⟩ | ⟨_, _, _, _, e, _, _, _, _, _, hn⟩ | ⟨_, cur, σ2, _, done, _, _, hstore, _, _, hn⟩
  all_goals rw [hn] at h
  all_goals try (cases h; done)
  simp only [Option.some.injEq, Except.ok.injEq, Prod.mk.injEq] at h
  rw [← h.1]
  exact within_store hstore

theorem within_forIter {A : List Str} {neg : Val → Option Bool} {f : Trans} {n : Str} (hn : n ∈ A)
    (hf : ∀ σ σ', f σ = some (.ok σ') → Within A σ σ') (t st : Val) :
    ∀ (k : Nat) (σ σ' : Var), forIter neg f n t st k σ = some (.ok σ') → Within A σ σ' := by
  intro k
  induction k with
  | zero => intro σ σ' h; cases h
  | succ k ih =>
    intro σ σ' h
    simp only [forIter, forStepT] at h
    cases hfσ : f σ with
    | none => rw [hfσ] at h; cases h
    | some r =>
      rw [hfσ] at h
      cases r with
      | error e => cases h
      | ok σ1 =>
        dsimp only at h
        have w1 := hf σ σ1 hfσ
        cases hns : nextStep neg σ1 n t st with
        | none => rw [hns] at h; cases h
        | some rn =>
          rw [hns] at h
          cases rn with
          | error e => cases h
          | ok pr =>
            obtain ⟨σ2, again⟩ := pr
            have w2 : Within A σ1 σ2 :=
              (within_nextStep hns).mono (fun x hx => by rw [List.mem_singleton.1 hx]; exact hn)
            cases again with
            | true => exact (w1.trans w2).trans (ih σ2 σ' h)
            | false =>
              simp only [Option.some.injEq, Except.ok.injEq] at h
              subst h
              exact w1.trans w2

theorem within_forT {A : List Str} {neg : Val → Option Bool} {f : Trans} {n : Str} (hn : n ∈ A)
    (hf : ∀ σ σ', f σ = some (.ok σ') → Within A σ σ') (a b s : Expr) (k : Nat) {σ σ' : Var}
    (h : forT neg n a b s f k σ = some (.ok σ')) : Within A σ σ' := by
  simp only [forT] at h
  cases hi : forInit σ n a b s with
  | error e => rw [hi] at h; cases h
  | ok tr =>
    obtain ⟨σ1, t, st⟩ := tr
    rw [hi] at h
    have w1 : Within A σ σ1 := by
      unfold forInit at hi
      obtain ⟨x, _, hi⟩ := Thm.C06.bind_ok hi
      obtain ⟨σ1', hst, hi⟩ := Thm.C06.bind_ok hi
      obtain ⟨_, _, hi⟩ := Thm.C06.bind_ok hi
      obtain ⟨_, _, hi⟩ := Thm.C06.bind_ok hi
      cases hi
      exact (within_store hst).mono (fun y hy => by rw [List.mem_singleton.1 hy]; exact hn)
    exact w1.trans (within_forIter hn hf t st k σ1 σ' h)

/-- **a structured statement only touches the entries of the variables it assigns** — for every
    fuel, i.e. any number of passes of its loops -/
theorem exec_within (neg : Val → Option Bool) :
    ∀ (fuel : Nat) (p : SStmt) (σ σ' : Var), execWith neg fuel σ p = some (.ok σ') → Within (assigned p) σ σ' := by
  intro fuel
  induction fuel with
  | zero => intro p σ σ' h; cases h
  | succ fuel ih =>
    intro p σ σ' h
    cases p with
    | assign n e => exact within_assignT h
    | seq p q =>
      exact within_seqT
        (fun σ σ' h => (ih p σ σ' h).mono (fun x hx => List.mem_append_left _ hx))
        (fun σ σ' h => (ih q σ σ' h).mono (fun x hx => List.mem_append_right _ hx)) h
    | ifThen c p => exact within_iteT (ih p) (fun σ σ' h => within_skipT _ h) h
    | ifThenElse c p q =>
      exact within_iteT
        (fun σ σ' h => (ih p σ σ' h).mono (fun x hx => List.mem_append_left _ hx))
        (fun σ σ' h => (ih q σ σ' h).mono (fun x hx => List.mem_append_right _ hx)) h
    | «while» c p =>
      exact within_iteT (fun σ σ' h => within_seqT (ih p) (ih (.while c p)) h) (fun σ σ' h => within_skipT _ h) h
    | «for» n a b s p =>
      exact within_forT (A := n :: assigned p) List.mem_cons_self
        (fun σ σ' h => (ih p σ σ' h).mono (fun x hx => List.mem_cons_of_mem _ hx)) a b s fuel h

/-- pigeonhole: a list without duplicates whose members all occur in `m` is no longer than `m` -/
theorem nodup_length_le {l : List Str} (hl : l.Nodup) : ∀ (m : List Str), (∀ x ∈ l, x ∈ m) → l.length ≤ m.length := by
  induction l with
  | nil => intro m _; exact Nat.zero_le _
  | cons a l ih =>
    intro m hs
    obtain ⟨ha, hl'⟩ := List.nodup_cons.1 hl
    have ham : a ∈ m := hs a List.mem_cons_self
    have := ih hl' (m.erase a) (fun x hx => by
      have hne : x ≠ a := fun e => ha (e ▸ hx)
      exact (List.mem_erase_of_ne hne).2 (hs x (List.mem_cons_of_mem _ hx)))
    rw [List.length_erase_of_mem ham] at this
    have hpos : 0 < m.length := List.length_pos_of_mem ham
    simp only [List.length_cons]
    omega

/-- **the pool grows by at most the number of distinct names of `A`** -/
theorem within_length {A : List Str} {σ σ' : Var} (h : Within A σ σ') (hd : AL.NoDup σ.vars) :
    σ'.vars.length ≤ σ.vars.length + A.eraseDups.length := by
  have hn : (σ'.vars.map (·.1)).Nodup := h.nodup hd
  have := nodup_length_le hn (σ.vars.map (·.1) ++ A.eraseDups) (fun x hx => by
    obtain ⟨p, hp, rfl⟩ := List.mem_map.1 hx
    rcases h.keys p hp with h1 | h1
    · exact List.mem_append_left _ h1
    · exact List.mem_append_right _ (List.mem_eraseDups.2 h1))
  simpa using this

/-! ## loops with an explicit number of passes -/

/-- **WHILE, `k` passes**: a chain of stores `τ 0, …, τ k` in which the condition holds and the body
    leads from `τ i` to `τ (i+1)` for `i < k`, and the condition fails in `τ k`, is the run of the
    loop — `k` arbitrary -/
theorem whileT_of_passes (c : Expr) (fb : Trans) :
    ∀ (k : Nat) (τ : Nat → Var),
      (∀ i, i < k → holds (τ i) c = .ok true ∧ fb (τ i) = some (.ok (τ (i + 1)))) →
      holds (τ k) c = .ok false → whileT c fb (k + 1) (τ 0) = some (.ok (τ k)) := by
  intro k
  induction k with
  | zero =>
    intro τ _ hend
    simp only [whileT, whileStepT, iteT, hend, skipT]
  | succ k ih =>
    intro τ hpass hend
    obtain ⟨h0, h1⟩ := hpass 0 (Nat.succ_pos k)
    have := ih (fun i => τ (i + 1)) (fun i hi => hpass (i + 1) (Nat.succ_lt_succ hi)) hend
    rw [whileT]
    simp only [whileStepT, iteT, h0, seqT, h1]
    exact this

/-- **FOR, `k + 1` passes**: `τ i` the store at the start of pass `i`, `υ i` after the body; NEXT
    says "again" after the passes `0 … k-1` and "done" after pass `k`, leaving `σ'` -/
theorem forIter_of_passes (neg : Val → Option Bool) (fb : Trans) (name : Str) (toV stepV : Val) :
    ∀ (k : Nat) (τ υ : Nat → Var) (σ' : Var),
      (∀ i, i ≤ k → fb (τ i) = some (.ok (υ i))) →
      (∀ i, i < k → nextStep neg (υ i) name toV stepV = some (.ok (τ (i + 1), true))) →
      nextStep neg (υ k) name toV stepV = some (.ok (σ', false)) →
      forIter neg fb name toV stepV (k + 1) (τ 0) = some (.ok σ') := by
  intro k
  induction k with
  | zero =>
    intro τ υ σ' hb _ hend
    simp only [forIter, forStepT, hb 0 (Nat.le_refl 0), hend]
  | succ k ih =>
    intro τ υ σ' hb hn hend
    have := ih (fun i => τ (i + 1)) (fun i => υ (i + 1)) σ'
      (fun i hi => hb (i + 1) (Nat.succ_le_succ hi)) (fun i hi => hn (i + 1) (Nat.succ_lt_succ hi)) hend
    rw [forIter]
    simp only [forStepT, hb 0 (Nat.zero_le _), hn 0 (Nat.succ_pos k)]
    exact this

/-- **a WHILE loop of `k` passes leaves no residue** — for every `k`: the machine ends past the
    loop with the variables of the last pass and everything else, THE STACK INCLUDED, as it started -/
theorem while_passes_no_residue {env : Env} {hie : Bool} {c : Expr} (hp : Spec.Pure c) {body : Nat → List Opcode}
    {fb : Trans} (lb : Nat) (hlb : ∀ a, (body a).length = lb) (hb : Implements env hie body fb)
    (s : Runtime) (hpl : Placed hie (whileCode c lb body) s) (k : Nat) (τ : Nat → Var) (h0 : τ 0 = s.vars)
    (hpass : ∀ i, i < k → holds (τ i) c = .ok true ∧ fb (τ i) = some (.ok (τ (i + 1))))
    (hend : holds (τ k) c = .ok false) :
    Goes env hie s { s with pc := s.pc + ((flat c).length + 1 + lb + 1), vars := τ k } := by
  have h := implements_while hp lb hlb hb (k + 1) s hpl (.ok (τ k))
    (by rw [← h0]; exact whileT_of_passes c fb k τ hpass hend)
  rw [whileCode_length c lb body hlb] at h
  exact h

/-- **a FOR loop of `k + 1` passes leaves no residue** — for every `k` -/
theorem for_passes_no_residue {env : Env} {hie : Bool} {a b st : Expr} (hpa : Spec.Pure a) (hpb : Spec.Pure b)
    (hps : Spec.Pure st) {body : Nat → List Opcode} {fb : Trans} (lb : Nat) (hlb : ∀ x, (body x).length = lb)
    (hb : Implements env hie body fb) (name : Str)
    (s : Runtime) (hpl : Placed hie (forCode name a b st body) s) (k : Nat) (τ υ : Nat → Var) (σ' : Var)
    (toV stepV : Val) (hinit : forInit s.vars name a b st = .ok (τ 0, toV, stepV))
    (hbody : ∀ i, i ≤ k → fb (τ i) = some (.ok (υ i)))
    (hnext : ∀ i, i < k → nextStep stepNeg (υ i) name toV stepV = some (.ok (τ (i + 1), true)))
    (hend : nextStep stepNeg (υ k) name toV stepV = some (.ok (σ', false))) :
    Goes env hie s { s with pc := s.pc + (forInitLen a b st + lb + 1), vars := σ' } := by
  have hf : forT stepNeg name a b st fb (k + 1) s.vars = some (.ok σ') := by
    simp only [forT, hinit]
    exact forIter_of_passes stepNeg fb name toV stepV k τ υ σ' hbody hnext hend
  have h := implements_for hpa hpb hps lb hlb hb name (k + 1) s hpl (.ok σ') hf
  rw [forCode_length name a b st lb body hlb] at h
  exact h

/-! ## GOSUB … RETURN -/

/-- RETURN on `σ, ret a`: the frame is gone, control is at `a` -/
theorem return_plain_step (env : Env) (hie : Bool) (t : Runtime) (σ : Array Val) (a : Nat)
    (htr : t.tron = false) (hop : t.program.link.ops[t.pc]? = some .return) (hst : t.stack = σ.push (.ret a)) :
    ((step env hie).run).run t = (.ok .continue, { t with pc := a, stack := σ }) := by
  rw [run_step_return env hie t htr hop,
    run_doReturn { t with pc := t.pc + 1 } σ a [] (fun _ h => nomatch h) (by simpa using hst)]
  rfl

/-- the code of `GOSUB` to the address `sub`, placed at `a`: the return address (the address after
    the jump) as a literal, the jump -/
def gosubCode (sub : Nat) (a : Nat) : List Opcode := [.literal (.ret (a + 2)), .jump sub]

/-- a subroutine: a block, then RETURN -/
def subCode (body : Nat → List Opcode) (sub : Nat) : List Opcode := body sub ++ [.return]

/-- a block entered at `sub` with a return address on top of `stk`, followed by RETURN: control comes
    back to `R` with the stack `stk` -/
theorem sub_returns {env : Env} {hie : Bool} {body : Nat → List Opcode} {fb : Trans}
    (hb : Implements env hie body fb) (t : Runtime) (stk : Array Val) (R : Nat)
    (hst : t.stack = stk.push (.ret R))
    (hsub : CodeAt t.program.link.ops t.pc (subCode body t.pc)) (htr : t.tron = false)
    (hroom : t.stack.size + (body t.pc).length ≤ Gen.stackMaxLen)
    (hgate : hie = false ∨ t.entryAddress ≤ t.pc) (r : Res Var) (hr : fb t.vars = some r) :
    match r with
    | .ok σ' => Goes env hie t { t with pc := R, stack := stk, vars := σ' }
    | .error e => Fails env hie t e := by
  have hpl : Placed hie body t := ⟨hsub.left, htr, hroom, hgate⟩
  have e1 := hb t hpl r hr
  cases r with
  | error e => exact e1
  | ok σ' =>
    have e1' : Goes env hie t { t with pc := t.pc + (body t.pc).length, vars := σ' } := e1
    have hret := return_plain_step env hie { t with pc := t.pc + (body t.pc).length, vars := σ' } stk R htr
      hsub.right.head hst
    exact e1'.trans (Goes.step hret)

/-- **GOSUB to a subroutine whose body is a block followed by RETURN is stack-neutral**: the call
    pushes one return address, the block leaves the stack as it finds it, RETURN pops exactly that
    address; the machine continues after the GOSUB with the stack (and everything but the variables)
    as before.  An error of the block is the error of the run. -/
theorem gosub_block_balanced {env : Env} {hie : Bool} {body : Nat → List Opcode} {fb : Trans}
    (hb : Implements env hie body fb) (s : Runtime) (sub : Nat)
    (hcall : CodeAt s.program.link.ops s.pc (gosubCode sub s.pc))
    (hsub : CodeAt s.program.link.ops sub (subCode body sub)) (htr : s.tron = false)
    (hroom : s.stack.size + 1 + (body sub).length ≤ Gen.stackMaxLen)
    (hgate : hie = false ∨ s.entryAddress ≤ sub) (r : Res Var) (hr : fb s.vars = some r) :
    match r with
    | .ok σ' => Goes env hie s { s with pc := s.pc + 2, vars := σ' }
    | .error e => Fails env hie s e := by
  have h1 := step_literal_room env hie s (.ret (s.pc + 2)) htr hcall.head (by omega)
  have hj : s.program.link.ops[s.pc + 1]? = some (.jump sub) := by
    have := hcall 1 (by simp [gosubCode])
    simpa [gosubCode] using this
  have h2 := run_step_jump env hie { s with pc := s.pc + 1, stack := s.stack.push (.ret (s.pc + 2)) } sub htr hj
    (hgate.imp id id)
  have g2 : Goes env hie s { s with pc := sub, stack := s.stack.push (.ret (s.pc + 2)) } :=
    (Goes.step h1).trans (Goes.step h2)
  have h3 := sub_returns hb { s with pc := sub, stack := s.stack.push (.ret (s.pc + 2)) } s.stack (s.pc + 2) rfl
    hsub htr (by show (s.stack.push _).size + _ ≤ _; rw [Array.size_push]; omega) hgate r hr
  cases r with
  | error e => exact g2.fails h3
  | ok σ' => exact g2.trans h3

/-! ## ON … GOSUB -/

/-- the code of `ON sel GOSUB t₁,…,tₖ` placed at `a` (the linked form of `Thm.C18.genOn_gosub_shape`):
    return address (the address after the statement), `k`, the selector, `on`, the jump table, `return` -/
def onGosubCode (sel : Expr) (targets : List Nat) (a : Nat) : List Opcode :=
  [.literal (.ret (a + (2 + (flat sel).length + 1 + targets.length + 1))),
   .literal (.int (Int16.ofNat targets.length))] ++ flat sel ++ [.on] ++ targets.map Opcode.jump ++ [.return]

theorem onGosubCode_length (sel : Expr) (targets : List Nat) (a : Nat) :
    (onGosubCode sel targets a).length = 2 + (flat sel).length + 1 + targets.length + 1 := by
  simp only [onGosubCode, List.length_append, List.length_cons, List.length_nil, List.length_map]

/-- the statement up to and including `on`: the return address is on the stack, control is in the jump
    table (a target was selected) or on the `return` after it (none was) -/
theorem on_gosub_dispatch (env : Env) (hie : Bool) {sel : Expr} (hp : Spec.Pure sel) (targets : List Nat) (s : Runtime)
    (hcode : CodeAt s.program.link.ops s.pc (onGosubCode sel targets s.pc)) (htr : s.tron = false)
    (hroom : s.stack.size + 2 + (flat sel).length ≤ Gen.stackMaxLen) (hk : targets.length ≤ 32767)
    (selV : Val) (j : Int16) (hv : eval s.vars sel = .ok selV) (hj : selV.toI16 = .ok j) (hj0 : 0 ≤ j.toInt) :
    Goes env hie s
      { s with stack := s.stack.push (.ret (s.pc + (2 + (flat sel).length + 1 + targets.length + 1))),
               pc := if j.toInt = 0 ∨ j.toInt > targets.length then s.pc + (2 + (flat sel).length + 1) + targets.length
                     else s.pc + (2 + (flat sel).length + 1) + (j.toInt.toNat - 1) } := by
  unfold onGosubCode at hcode
  have hc1 := hcode.left.left.left.left
  have h1 := step_literal_room env hie s _ htr hc1.head (by omega)
  have hop2 : s.program.link.ops[s.pc + 1]? = some (.literal (.int (Int16.ofNat targets.length))) := by
    have := hc1 1 (by simp)
    simpa using this
  have h2 := step_literal_room env hie
    { s with pc := s.pc + 1, stack := s.stack.push (.ret (s.pc + (2 + (flat sel).length + 1 + targets.length + 1))) }
    _ htr hop2 (by show (s.stack.push _).size + 1 ≤ _; rw [Array.size_push]; omega)
  have hcs := hcode.left.left.left.right
  simp only [List.length_cons, List.length_nil] at hcs
  have g3 := expr_goes env hie hp
    { s with pc := s.pc + 1 + 1,
             stack := (s.stack.push (.ret (s.pc + (2 + (flat sel).length + 1 + targets.length + 1)))).push
               (.int (Int16.ofNat targets.length)) }
    (by show CodeAt _ (s.pc + 1 + 1) _; rw [Nat.add_assoc]; exact hcs) htr
    (by show ((s.stack.push _).push _).size + _ ≤ _; simp only [Array.size_push]; omega) hv
  have hon : s.program.link.ops[s.pc + 1 + 1 + (flat sel).length]? = some .on := by
    have := hcode.left.left.right.head
    simp only [List.length_append, List.length_cons, List.length_nil] at this
    rw [show s.pc + 1 + 1 + (flat sel).length = s.pc + (0 + 1 + 1 + (flat sel).length) by omega]
    exact this
  have h4 := run_step_on env hie
    { s with pc := s.pc + 1 + 1 + (flat sel).length,
             stack := ((s.stack.push (.ret (s.pc + (2 + (flat sel).length + 1 + targets.length + 1)))).push
               (.int (Int16.ofNat targets.length))).push selV } htr hon
  rw [run_doOn _ (s.stack.push (.ret (s.pc + (2 + (flat sel).length + 1 + targets.length + 1))))
    (.int (Int16.ofNat targets.length)) selV (Int16.ofNat targets.length) j rfl hj rfl] at h4
  rw [toInt_ofNat_len hk] at h4
  rw [if_neg (by omega)] at h4
  refine (((Goes.step h1).trans (Goes.step h2)).trans g3).trans ?_
  by_cases hsel : j.toInt = 0 ∨ j.toInt > (targets.length : Int)
  · rw [if_pos hsel] at h4 ⊢
    refine (Goes.step h4).congr ?_
    simp only [Int.toNat_natCast]
    congr 1
    omega
  · rw [if_neg hsel] at h4 ⊢
    refine (Goes.step h4).congr ?_
    dsimp only
    congr 1
    omega

/-- **ON … GOSUB that selects nothing is stack-neutral** (selector 0 or beyond the list): the `on`
    skips the table onto the `return`, which pops the return address pushed at the start; the machine
    continues after the statement with the stack as before -/
theorem on_gosub_fallthrough_goes (env : Env) (hie : Bool) {sel : Expr} (hp : Spec.Pure sel) (targets : List Nat)
    (s : Runtime) (hcode : CodeAt s.program.link.ops s.pc (onGosubCode sel targets s.pc)) (htr : s.tron = false)
    (hroom : s.stack.size + 2 + (flat sel).length ≤ Gen.stackMaxLen) (hk : targets.length ≤ 32767)
    (selV : Val) (j : Int16) (hv : eval s.vars sel = .ok selV) (hj : selV.toI16 = .ok j) (hj0 : 0 ≤ j.toInt)
    (hfall : j.toInt = 0 ∨ j.toInt > targets.length) :
    Goes env hie s { s with pc := s.pc + (onGosubCode sel targets s.pc).length } := by
  have g := on_gosub_dispatch env hie hp targets s hcode htr hroom hk selV j hv hj hj0
  rw [if_pos hfall] at g
  have hret : s.program.link.ops[s.pc + (2 + (flat sel).length + 1) + targets.length]? = some .return := by
    have := hcode.right.head
    simp only [List.length_append, List.length_cons, List.length_nil, List.length_map] at this
    rw [show s.pc + (2 + (flat sel).length + 1) + targets.length =
      s.pc + (0 + 1 + 1 + (flat sel).length + (0 + 1) + targets.length) by omega]
    exact this
  have h := return_plain_step env hie
    { s with stack := s.stack.push (.ret (s.pc + (2 + (flat sel).length + 1 + targets.length + 1))),
             pc := s.pc + (2 + (flat sel).length + 1) + targets.length }
    s.stack _ htr hret rfl
  rw [onGosubCode_length]
  exact g.trans (Goes.step h)

/-- **ON … GOSUB that selects its `j`-th target, a block followed by RETURN, is stack-neutral**: the
    subroutine's RETURN pops the return address pushed at the start of the statement -/
theorem on_gosub_selected_balanced {env : Env} {hie : Bool} {sel : Expr} (hp : Spec.Pure sel) (targets : List Nat)
    {body : Nat → List Opcode} {fb : Trans} (hb : Implements env hie body fb)
    (s : Runtime) (hcode : CodeAt s.program.link.ops s.pc (onGosubCode sel targets s.pc)) (htr : s.tron = false)
    (hroom : s.stack.size + 2 + (flat sel).length ≤ Gen.stackMaxLen) (hk : targets.length ≤ 32767)
    (selV : Val) (j : Int16) (hv : eval s.vars sel = .ok selV) (hj : selV.toI16 = .ok j)
    (hj1 : 1 ≤ j.toInt) (hjk : j.toInt ≤ targets.length) (sub : Nat)
    (htarget : targets[j.toInt.toNat - 1]? = some sub)
    (hsub : CodeAt s.program.link.ops sub (subCode body sub))
    (hroomB : s.stack.size + 1 + (body sub).length ≤ Gen.stackMaxLen)
    (hgate : hie = false ∨ s.entryAddress ≤ sub) (r : Res Var) (hr : fb s.vars = some r) :
    match r with
    | .ok σ' => Goes env hie s { s with pc := s.pc + (onGosubCode sel targets s.pc).length, vars := σ' }
    | .error e => Fails env hie s e := by
  have g := on_gosub_dispatch env hie hp targets s hcode htr hroom hk selV j hv hj (by omega)
  rw [if_neg (by omega)] at g
  have hlt : j.toInt.toNat - 1 < targets.length := by omega
  have hjump : s.program.link.ops[s.pc + (2 + (flat sel).length + 1) + (j.toInt.toNat - 1)]? = some (.jump sub) := by
    have hc := hcode.left.right
    simp only [List.length_append, List.length_cons, List.length_nil] at hc
    have := hc (j.toInt.toNat - 1) (by rw [List.length_map]; exact hlt)
    rw [List.getElem_map] at this
    have hs : targets[j.toInt.toNat - 1] = sub := by
      rw [List.getElem?_eq_getElem hlt] at htarget
      exact Option.some.inj htarget
    rw [hs] at this
    rw [show s.pc + (2 + (flat sel).length + 1) + (j.toInt.toNat - 1) =
      s.pc + (0 + 1 + 1 + (flat sel).length + (0 + 1)) + (j.toInt.toNat - 1) by omega]
    exact this
  have h2 := run_step_jump env hie
    { s with stack := s.stack.push (.ret (s.pc + (2 + (flat sel).length + 1 + targets.length + 1))),
             pc := s.pc + (2 + (flat sel).length + 1) + (j.toInt.toNat - 1) } sub htr hjump (hgate.imp id id)
  have g2 := g.trans (Goes.step h2)
  have h3 := sub_returns hb
    { s with stack := s.stack.push (.ret (s.pc + (2 + (flat sel).length + 1 + targets.length + 1))), pc := sub }
    s.stack _ rfl hsub htr (by show (s.stack.push _).size + _ ≤ _; rw [Array.size_push]; omega) hgate r hr
  rw [onGosubCode_length]
  cases r with
  | error e => exact g2.fails h3
  | ok σ' => exact g2.trans h3

/-! ## LET with a user-function call, PRINT, READ -/

/-- **`LET x = FNname(args)` is stack-neutral**: the call leaves the value on the stack as it was
    (`call_run_ok`: the return address and the arguments are gone), `pop x` stores it -/
theorem let_call_goes (env : Env) (hie : Bool) {s : Runtime} {name : Str} {params : List Str} {body : Expr}
    {args : List Expr} {entry : Nat} (hs : CallSite s name params body args entry)
    (harity : params.length = args.length) (x : Str)
    (hpop : s.program.link.ops[s.pc + (callCode name args).length]? = some (.pop x))
    {v : Val} {vars' vars'' : Var} (h : evalCall s.vars params body args = .ok (v, vars'))
    (hst : vars'.store x v = .ok vars'') :
    Goes env hie s { s with pc := s.pc + (callCode name args).length + 1, vars := vars'' } := by
  have h1 := call_run_ok env hie hs harity h
  have h2 := run_step_pop env hie
    { s with pc := s.pc + (callCode name args).length, stack := s.stack.push v, vars := vars' } x s.stack v
    hs.tron hpop rfl
  rw [hst] at h2
  exact Goes.trans ⟨_, h1⟩ (Goes.step h2)

/-- **a PRINT statement that completes leaves the stack and the variables as they were** (only `pc`
    and the print column move) -/
theorem print_no_residue (env : Env) (hie : Bool) (items : List PrItem) (hok : ∀ it ∈ items, it.Ok) (s : Runtime)
    (hcode : CodeAt s.program.link.ops s.pc (Lemmas.PrintRun.stmtCode items)) (htr : s.tron = false)
    (hroom : s.stack.size + (Lemmas.PrintRun.stmtCode items).length ≤ Gen.stackMaxLen)
    (herr : (printSpec s.vars s.printCol items).err = none) (acc : List Str) :
    (Lemmas.PrintRun.runCollect env hie (Lemmas.PrintRun.stmtCode items).length s acc).2.1.stack = s.stack ∧
    (Lemmas.PrintRun.runCollect env hie (Lemmas.PrintRun.stmtCode items).length s acc).2.1.vars = s.vars ∧
    (Lemmas.PrintRun.runCollect env hie (Lemmas.PrintRun.stmtCode items).length s acc).1 = .done := by
  have h := (Lemmas.PrintRun.print_run env hie items hok s hcode htr hroom).done herr acc
  rw [h]
  exact ⟨rfl, rfl, rfl⟩

/-- **READ leaves the stack as it found it**, whether the list completes or stops in an error (OUT OF
    DATA, a constant that cannot be stored) -/
theorem read_no_residue (env : Env) (hie : Bool) (names : List Str) (s : Runtime)
    (hcode : CodeAt s.program.link.ops s.pc (Lemmas.ReadRun.readCode names)) (htr : s.tron = false)
    (hroom : s.stack.size + 1 ≤ Gen.stackMaxLen) :
    (runOps env hie (Lemmas.ReadRun.readCode names) s).2.stack = s.stack := by
  rw [Lemmas.ReadRun.read_run env hie names s hcode htr hroom]
  unfold Lemmas.ReadRun.readResult
  split <;> rfl

/-! ## FOR never looks for an older frame of its variable

  `r#for` exists at compile time only: the code of FOR evaluates start, limit and step and pushes the
  four-value frame with plain `literal` instructions.  Nothing inspects the stack, so a loop left by GOTO
  and entered again leaves its old frame where it was and pushes a new one. -/

/-- the code FOR runs before the first pass (`forCode` without the body and the NEXT) -/
def forEntryCode (name : Str) (a b s : Expr) (start : Nat) : List Opcode :=
  flat a ++ ([Opcode.pop name] ++ (flat b ++ (flat s ++ ([Opcode.literal (.str name)] ++
    [Opcode.literal (.nxt (start + forInitLen a b s))]))))

theorem forEntryCode_length (name : Str) (a b s : Expr) (start : Nat) :
    (forEntryCode name a b s start).length = forInitLen a b s := by
  simp only [forEntryCode, forInitLen, List.length_append, List.length_singleton]
  omega

theorem forCode_eq_entry (name : Str) (a b s : Expr) (body : Nat → List Opcode) (start : Nat) :
    forCode name a b s body start =
      forEntryCode name a b s start ++ (body (start + forInitLen a b s) ++ [Opcode.next name]) := by
  simp only [forCode, forEntryCode, List.append_assoc]

/-- **entering a FOR pushes one frame — always**: whatever the stack holds (frames of the same
    variable included), after the entry code it holds four values more, the old ones untouched below -/
theorem for_entry_pushes_frame (env : Env) (hie : Bool) {a b st : Expr} (hpa : Spec.Pure a) (hpb : Spec.Pure b)
    (hps : Spec.Pure st) (name : Str) (s : Runtime)
    (hcode : CodeAt s.program.link.ops s.pc (forEntryCode name a b st s.pc)) (htr : s.tron = false)
    (hroom : s.stack.size + forInitLen a b st ≤ Gen.stackMaxLen)
    {σ1 : Var} {t sv : Val} (hi : forInit s.vars name a b st = .ok (σ1, t, sv)) :
    Goes env hie s
      { s with pc := s.pc + forInitLen a b st, vars := σ1,
               stack := s.stack ++ forFrame t sv name (s.pc + forInitLen a b st) } := by
  unfold forEntryCode at hcode
  have hla := flat_length_pos hpa
  unfold forInitLen at hroom
  unfold forInit at hi
  obtain ⟨x, hva, hi⟩ := Thm.C06.bind_ok hi
  obtain ⟨σ1', hst, hi⟩ := Thm.C06.bind_ok hi
  obtain ⟨t', hvb, hi⟩ := Thm.C06.bind_ok hi
  obtain ⟨sv', hvs, hi⟩ := Thm.C06.bind_ok hi
  simp only [pure, Except.pure, Except.ok.injEq, Prod.mk.injEq] at hi
  obtain ⟨rfl, rfl, rfl⟩ := hi
  have g1 := expr_goes env hie hpa s hcode.left htr (by omega) hva
  have hs1 := run_step_pop env hie { s with pc := s.pc + (flat a).length, stack := s.stack.push x } name s.stack x
    htr hcode.right.left.head rfl
  rw [hst] at hs1
  have g2 : Goes env hie s { s with pc := s.pc + (flat a).length + 1, vars := σ1' } := g1.trans (Goes.step hs1)
  have hcb := hcode.right.right
  simp only [List.length_singleton] at hcb
  have g3 := g2.trans (expr_goes env hie hpb { s with pc := s.pc + (flat a).length + 1, vars := σ1' } hcb.left htr
    (by show s.stack.size + _ ≤ _; omega) hvb)
  have g4 := g3.trans (expr_goes env hie hps
    { s with pc := s.pc + (flat a).length + 1 + (flat b).length, vars := σ1', stack := s.stack.push t' }
    hcb.right.left htr (by show (s.stack.push t').size + _ ≤ _; rw [Array.size_push]; omega) hvs)
  have hl1 := step_literal_room env hie
    { s with pc := s.pc + (flat a).length + 1 + (flat b).length + (flat st).length, vars := σ1',
             stack := (s.stack.push t').push sv' } (.str name) htr hcb.right.right.left.head
    (by show ((s.stack.push t').push sv').size + 1 ≤ _; simp only [Array.size_push]; omega)
  have hl2 := step_literal_room env hie
    { s with pc := s.pc + (flat a).length + 1 + (flat b).length + (flat st).length + 1, vars := σ1',
             stack := ((s.stack.push t').push sv').push (.str name) }
    (.nxt (s.pc + forInitLen a b st)) htr hcb.right.right.right.head
    (by show (((s.stack.push t').push sv').push (.str name)).size + 1 ≤ _; simp only [Array.size_push]; omega)
  have hpc : s.pc + (flat a).length + 1 + (flat b).length + (flat st).length + 1 + 1 =
      s.pc + forInitLen a b st := by unfold forInitLen; omega
  refine ((g4.trans (Goes.step hl1)).trans (Goes.step hl2)).congr ?_
  rw [hpc]
  congr 1

/-- the minimal loop that abandons its FOR: the entry code of `FOR name = a TO b STEP st`, then a jump
    back to it (`10 FOR … / 20 GOTO 10`) -/
def abandonCode (name : Str) (a b st : Expr) (start : Nat) : List Opcode :=
  forEntryCode name a b st start ++ [Opcode.jump start]

/-- **a FOR left by GOTO and entered again grows the stack by four values per round**: after `k`
    rounds the stack is the old one with `4·k` values on top — no frame is reused or dropped.
    (`τ i`: the variables at the start of round `i`.) -/
theorem abandoned_for_rounds (env : Env) (hie : Bool) {a b st : Expr} (hpa : Spec.Pure a) (hpb : Spec.Pure b)
    (hps : Spec.Pure st) (name : Str) :
    ∀ (k : Nat) (s : Runtime) (τ : Nat → Var),
      CodeAt s.program.link.ops s.pc (abandonCode name a b st s.pc) → s.tron = false →
      (hie = false ∨ s.entryAddress ≤ s.pc) →
      s.stack.size + 4 * k + forInitLen a b st ≤ Gen.stackMaxLen + 4 →
      τ 0 = s.vars →
      (∀ i, i < k → ∃ t sv, forInit (τ i) name a b st = .ok (τ (i + 1), t, sv)) →
      ∃ frames : Array Val, frames.size = 4 * k ∧
        Goes env hie s { s with vars := τ k, stack := s.stack ++ frames } := by
  intro k
  induction k with
  | zero =>
    intro s τ _ _ _ _ h0 _
    refine ⟨#[], rfl, ?_⟩
    rw [h0, Array.append_empty]
    exact Goes.refl env hie s
  | succ k ih =>
    intro s τ hcode htr hgate hroom h0 hinit
    obtain ⟨t, sv, hi⟩ := hinit 0 (Nat.succ_pos k)
    rw [h0] at hi
    have g1 := for_entry_pushes_frame env hie hpa hpb hps name s hcode.left htr (by omega) hi
    have hj : s.program.link.ops[s.pc + forInitLen a b st]? = some (.jump s.pc) := by
      have := hcode.right.head
      rw [forEntryCode_length] at this
      exact this
    have h2 := run_step_jump env hie
      { s with pc := s.pc + forInitLen a b st, vars := τ 1,
               stack := s.stack ++ forFrame t sv name (s.pc + forInitLen a b st) } s.pc htr hj (hgate.imp id id)
    have g2 : Goes env hie s
        { s with vars := τ 1, stack := s.stack ++ forFrame t sv name (s.pc + forInitLen a b st) } :=
      g1.trans (Goes.step h2)
    obtain ⟨frames, hsz, g3⟩ := ih
      { s with vars := τ 1, stack := s.stack ++ forFrame t sv name (s.pc + forInitLen a b st) }
      (fun i => τ (i + 1)) hcode htr hgate
      (by show (s.stack ++ forFrame t sv name _).size + _ + _ ≤ _
          simp only [Array.size_append, forFrame]
          show s.stack.size + 4 + 4 * k + _ ≤ _
          omega)
      rfl (fun i hi => hinit (i + 1) (Nat.succ_lt_succ hi))
    refine ⟨forFrame t sv name (s.pc + forInitLen a b st) ++ frames, ?_, ?_⟩
    · rw [Array.size_append, hsz]
      show 4 + 4 * k = _
      omega
    · refine (g2.trans g3).congr ?_
      show ({ s with vars := τ (k + 1), stack := s.stack ++ forFrame t sv name _ ++ frames } : Runtime) = _
      rw [Array.append_assoc]

/-! ### the program `10 FOR I%=1 TO 2` / `20 GOTO 10` -/

/-- the Integer literal `k` -/
def cI (k : Int16) : Expr := .integer (0, 0) k

/-- the code the compiler produces for the two lines (`enter`ed into the model interpreter and
    listed by `#eval`; the program segment continues with `end` and the direct line `RUN` =
    `clear, jump 0, end`): `1, pop I%, 2, 1, "I%", nxt→6, jump 0` -/
def abandonedOps : List Opcode := abandonCode "I%".toList (cI 1) (cI 2) (cI 1) 0

example : abandonedOps =
    [.literal (.int 1), .pop "I%".toList, .literal (.int 2), .literal (.int 1), .literal (.str "I%".toList),
     .literal (.nxt 6), .jump 0] := by decide

/-- `I% = 1`: the variables after the first round, and after every other -/
def abandonedVars (v : Var) : Var := v.updateVal "I%".toList (.int 1)

theorem abandoned_forInit (v : Var) (hlen : v.vars.length ≤ 65535) :
    forInit v "I%".toList (cI 1) (cI 2) (cI 1) = .ok (abandonedVars v, .int 2, .int 1) := by
  have hs : v.store "I%".toList (.int 1) = .ok (abandonedVars v) := by
    unfold Var.store
    rw [if_neg (by omega)]
    rfl
  simp only [forInit, cI, eval, bind, Except.bind, hs, pure, Except.pure]

/-- `I% = 1` and nothing else: the variables from the second round on, when the program was started by
    RUN (which clears the variables) -/
def abandonedV1 : Var := { vars := [("I%".toList, .int 1)] }

theorem abandonedVars_new : abandonedVars {} = abandonedV1 := rfl
theorem abandonedVars_v1 : abandonedVars abandonedV1 = abandonedV1 := rfl

/-- the last round: with 65 532 values on the stack the fourth push of the frame is the 65 536th value —
    OUT OF MEMORY "STACK OVERFLOW"; the state it leaves has a full stack -/
theorem abandoned_last_round (env : Env) (hie : Bool) (t : Runtime)
    (hcode : CodeAt t.program.link.ops t.pc abandonedOps) (hpc : t.pc = 0) (htr : t.tron = false)
    (hsz : t.stack.size = 65532) (hlen : t.vars.vars.length ≤ 65535) :
    runSteps env hie 6 t =
      (.error stackOverflow,
       { t with pc := 6, vars := abandonedVars t.vars,
                stack := (((t.stack.push (.int 2)).push (.int 1)).push (.str "I%".toList)).push (.nxt 6) }) := by
  have hop : ∀ k (hk : k < abandonedOps.length), t.program.link.ops[k]? = some abandonedOps[k] := by
    intro k hk
    have := hcode k hk
    rw [hpc, Nat.zero_add] at this
    exact this
  have hs : t.vars.store "I%".toList (.int 1) = .ok (abandonedVars t.vars) := by
    unfold Var.store
    rw [if_neg (by omega)]
    rfl
  have hop0 : t.program.link.ops[t.pc]? = some (.literal (.int 1)) := by rw [hpc]; exact hop 0 (by decide)
  have hop1 : t.program.link.ops[t.pc + 1]? = some (.pop "I%".toList) := by rw [hpc]; exact hop 1 (by decide)
  have hop2 : t.program.link.ops[t.pc + 1 + 1]? = some (.literal (.int 2)) := by rw [hpc]; exact hop 2 (by decide)
  have hop3 : t.program.link.ops[t.pc + 1 + 1 + 1]? = some (.literal (.int 1)) := by rw [hpc]; exact hop 3 (by decide)
  have hop4 : t.program.link.ops[t.pc + 1 + 1 + 1 + 1]? = some (.literal (.str "I%".toList)) := by
    rw [hpc]; exact hop 4 (by decide)
  have hop5 : t.program.link.ops[t.pc + 1 + 1 + 1 + 1 + 1]? = some (.literal (.nxt 6)) := by
    rw [hpc]; exact hop 5 (by decide)
  have h1 := step_literal_room env hie t (.int 1) htr hop0 (by rw [hsz]; decide)
  have h2 := run_step_pop env hie { t with pc := t.pc + 1, stack := t.stack.push (.int 1) } "I%".toList t.stack (.int 1)
    htr hop1 rfl
  rw [hs] at h2
  dsimp only at h2
  have h3 := step_literal_room env hie { t with pc := t.pc + 1 + 1, stack := t.stack, vars := abandonedVars t.vars }
    (.int 2) htr hop2 (by show t.stack.size + 1 ≤ _; rw [hsz]; decide)
  have h4 := step_literal_room env hie
    { t with pc := t.pc + 1 + 1 + 1, stack := t.stack.push (.int 2), vars := abandonedVars t.vars }
    (.int 1) htr hop3 (by show (t.stack.push _).size + 1 ≤ _; rw [Array.size_push, hsz]; decide)
  have h5 := step_literal_room env hie
    { t with pc := t.pc + 1 + 1 + 1 + 1, stack := (t.stack.push (.int 2)).push (.int 1), vars := abandonedVars t.vars }
    (.str "I%".toList) htr hop4
    (by show ((t.stack.push _).push _).size + 1 ≤ _; simp only [Array.size_push, hsz]; decide)
  have h6 := run_step_literal env hie
    { t with pc := t.pc + 1 + 1 + 1 + 1 + 1, stack := ((t.stack.push (.int 2)).push (.int 1)).push (.str "I%".toList),
             vars := abandonedVars t.vars }
    (.nxt 6) htr hop5
  rw [if_pos (by show (((t.stack.push _).push _).push _).size + 1 > _; simp only [Array.size_push, hsz]; decide)] at h6
  have r1 := (runSteps_one env hie _).trans h1
  rw [show (6 : Nat) = 1 + 5 from rfl, runSteps_ok_add r1]
  have r2 := (runSteps_one env hie _).trans h2
  rw [show (5 : Nat) = 1 + 4 from rfl, runSteps_ok_add r2]
  have r3 := (runSteps_one env hie _).trans h3
  rw [show (4 : Nat) = 1 + 3 from rfl, runSteps_ok_add r3]
  have r4 := (runSteps_one env hie _).trans h4
  rw [show (3 : Nat) = 1 + 2 from rfl, runSteps_ok_add r4]
  have r5 := (runSteps_one env hie _).trans h5
  rw [show (2 : Nat) = 1 + 1 from rfl, runSteps_ok_add r5]
  rw [runSteps_one, h6, hpc]

/-! ### `execute` after an error on a full stack -/

/-- **an error on a full stack clears the stack** (chain-1 form, in terms of `runSteps`): a running
    machine whose slice fails in a state with more than 65 503 values on the stack ends the call with
    the error recorded, the stack EMPTY and nothing to continue -/
theorem execute_error_full_clears (env : Env) (s s' : Runtime) (q : Nat) (e : Error)
    (hst : s.state = .running) (hde : s.listing.directErrors.isEmpty = true)
    (hrun : runSteps env (!s.listing.indirectErrors.isEmpty) q s = (.error e, s'))
    (hs' : s'.state = .running) (hfull : isFull s' = true) :
    execute env s q =
      ({ s' with cont := .stopped, state := .runtimeError (e.inLine (lineNumber s')), contPc := s'.pc,
                 stack := #[] }, .running) := by
  unfold execute
  simp only [hst, hde, Bool.not_true, Bool.false_eq_true, if_false]
  rw [Lemmas.PrintRun.executeLoop_run, hrun]
  simp only [Lemmas.PrintRun.loopResult, hs', reduceCtorEq, if_false]
  have : isFull { s' with cont := RState.running, state := .runtimeError (e.inLine (lineNumber s')), contPc := s'.pc } = true :=
    hfull
  rw [this, Bool.or_true, if_pos rfl]

/-- the next call reports the recorded error (print column 0) and stops -/
theorem execute_reports_error (env : Env) (s : Runtime) (q : Nat) (e : Error)
    (hs : s.state = .runtimeError e) (hc : s.printCol = 0) :
    execute env s q = ({ s with state := .stopped }, .errors [e]) := by
  unfold execute
  simp only [hs]
  rw [if_neg (by omega)]

/-- a direct line entered at the prompt is compiled and started -/
theorem enter_direct_line (env : Env) (s : Runtime) (line : Str) (hs : s.state = .stopped)
    (hlen : ¬ RStd.utf8Len line > Gen.maxLineLen) (hnum : (env.lex line).number = none)
    (htok : (env.lex line).tokens ≠ []) :
    enter env s line = enterDirect s (env.lex line) ∧
    (enter env s line).stack = s.stack ∧ (enter env s line).vars = s.vars ∧
    (enter env s line).state = .running ∧ (enter env s line).cont = s.cont := by
  have h2 : enter env s line = enterDirect s (env.lex line) := by
    unfold enter
    have hne : (env.lex line).tokens.isEmpty = false := by
      cases h : (env.lex line).tokens with
      | nil => exact absurd h htok
      | cons a b => rfl
    simp only [hs, hlen, if_false, hnum, Option.isNone_none, if_true, hne, Bool.false_eq_true]
  refine ⟨h2, ?_, ?_, ?_, ?_⟩
  all_goals (rw [h2]; unfold enterDirect; dsimp only; try (first | rfl | (split <;> rfl)))

/-! ### the abandoned loop, run -/

/-- the machine right after RUN's CLEAR, at the first instruction of `10 FOR I%=1 TO 2 / 20 GOTO 10` -/
structure AbandonedStart (s : Runtime) : Prop where
  code : CodeAt s.program.link.ops 0 abandonedOps
  pc : s.pc = 0
  tron : s.tron = false
  stack : s.stack = #[]
  vars : s.vars = {}

theorem abandoned_forInitLen : forInitLen (cI 1) (cI 2) (cI 1) = 6 := rfl

/-- **`k` rounds of the abandoned loop leave `4·k` values on the stack** (`1 ≤ k ≤ 16 383`) -/
theorem abandonedLoop_rounds (env : Env) (hie : Bool) (s : Runtime) (h : AbandonedStart s)
    (hgate : hie = false ∨ s.entryAddress ≤ s.pc) (k : Nat) (hk1 : 1 ≤ k) (hk : k ≤ 16383) :
    ∃ frames : Array Val, frames.size = 4 * k ∧
      Goes env hie s { s with vars := abandonedV1, stack := frames } := by
  have hcode : CodeAt s.program.link.ops s.pc (abandonCode "I%".toList (cI 1) (cI 2) (cI 1) s.pc) := by
    rw [h.pc]; exact h.code
  obtain ⟨frames, hsz, g⟩ := abandoned_for_rounds env hie (a := cI 1) (b := cI 2) (st := cI 1)
    (Pure.integer (0, 0) 1) (Pure.integer (0, 0) 2) (Pure.integer (0, 0) 1) "I%".toList k s (fun i => if i = 0 then {} else abandonedV1) hcode h.tron hgate
    (by rw [h.stack, abandoned_forInitLen]; simp only [Gen.stackMaxLen]; show 0 + 4 * k + 6 ≤ 65535 + 4; omega)
    (by simp only [if_true]; exact h.vars.symm)
    (fun i _ => by
      refine ⟨.int 2, .int 1, ?_⟩
      by_cases h0 : i = 0
      · subst h0
        simp only [if_true, Nat.zero_add, Nat.one_ne_zero, if_false]
        rw [abandoned_forInit {} (by decide), abandonedVars_new]
      · simp only [h0, if_false, Nat.add_eq_zero_iff, Nat.one_ne_zero, and_false]
        rw [abandoned_forInit abandonedV1 (by decide), abandonedVars_v1])
  refine ⟨frames, hsz, g.congr ?_⟩
  have hk0 : k ≠ 0 := by omega
  simp only [hk0, if_false, h.stack, Array.empty_append]

/-- **abandoned FOR loops end in OUT OF MEMORY**: the program fails with "STACK OVERFLOW" in its
    16 384th round, when the push of the frame's last value would be the 65 536th value; the state at
    the error has that full stack, `I% = 1`, and is otherwise the state the run started from -/
theorem abandonedLoop_overflows (env : Env) (hie : Bool) (s : Runtime) (h : AbandonedStart s)
    (hgate : hie = false ∨ s.entryAddress ≤ s.pc) :
    ∃ (n : Nat) (stk : Array Val), stk.size = 65536 ∧
      runSteps env hie n s = (.error stackOverflow, { s with pc := 6, vars := abandonedV1, stack := stk }) := by
  obtain ⟨frames, hsz, ⟨n, hn⟩⟩ := abandonedLoop_rounds env hie s h hgate 16383 (by decide) (by decide)
  have hl := abandoned_last_round env hie { s with vars := abandonedV1, stack := frames }
    (by show CodeAt s.program.link.ops s.pc _; rw [h.pc]; exact h.code) h.pc h.tron (by rw [hsz]) (by show abandonedV1.vars.length ≤ 65535; decide)
  refine ⟨n + 6, (((frames.push (.int 2)).push (.int 1)).push (.str "I%".toList)).push (.nxt 6), ?_, ?_⟩
  · simp only [Array.size_push, hsz]
  · rw [runSteps_ok_add hn, hl]
    rfl

/-- **… and the session goes on**: `execute` (with a quantum that reaches the failure) records OUT OF
    MEMORY and EMPTIES the stack — all 65 536 values are gone, nothing can be continued; the variables
    (`I% = 1`), the program and the listing are untouched -/
theorem abandonedLoop_execute (env : Env) (s : Runtime) (h : AbandonedStart s) (hst : s.state = .running)
    (hde : s.listing.directErrors.isEmpty = true) (hie : s.listing.indirectErrors.isEmpty = true) :
    ∃ n, ∀ q, n ≤ q →
      execute env s q =
        ({ s with pc := 6, vars := abandonedV1, stack := #[], cont := .stopped, contPc := 6,
                  state := .runtimeError (stackOverflow.inLine (s.program.link.lineNumberFor 5)) }, .running) := by
  obtain ⟨n, stk, hsz, hrun⟩ := abandonedLoop_overflows env (!s.listing.indirectErrors.isEmpty) s h
    (.inl (by rw [hie]; rfl))
  refine ⟨n, fun q hq => ?_⟩
  have hfull : isFull ({ s with pc := 6, vars := abandonedV1, stack := stk } : Runtime) = true := by
    unfold isFull
    exact decide_eq_true (by show stk.size > _; rw [hsz]; decide)
  rw [execute_error_full_clears env s _ q stackOverflow hst hde (runSteps_error_le hrun hq) hst hfull]
  rfl

/-! ## a loop around PRINT -/

section printLoop
open Basic.Lemmas.PrintRun

/-- `10 PRINT items : GOTO 10` -/
def printLoopCode (items : List PrItem) (start : Nat) : List Opcode := stmtCode items ++ [Opcode.jump start]

/-- the print column after `k` passes -/
def printLoopCol (vars : Var) (items : List PrItem) : Nat → Nat → Nat
  | 0, c => c
  | k+1, c => printLoopCol vars items k (printSpec vars c items).col

/-- the texts of `k` passes -/
def printLoopChunks (vars : Var) (items : List PrItem) : Nat → Nat → List Str
  | 0, _ => []
  | k+1, c => (printSpec vars c items).chunks ++ printLoopChunks vars items k (printSpec vars c items).col

/-- **a loop around a PRINT statement never grows anything**: after `k` passes — `k` arbitrary — the
    machine is the one it started as, except for the print column; the texts are those of `k`
    statements -/
theorem print_loop_no_residue (env : Env) (hie : Bool) (items : List PrItem) (hok : ∀ it ∈ items, it.Ok) :
    ∀ (k : Nat) (s : Runtime) (acc : List Str),
      CodeAt s.program.link.ops s.pc (printLoopCode items s.pc) → s.tron = false →
      s.stack.size + (stmtCode items).length ≤ Gen.stackMaxLen → (hie = false ∨ s.entryAddress ≤ s.pc) →
      (∀ c, (printSpec s.vars c items).err = none) →
      runCollect env hie (k * ((stmtCode items).length + 1)) s acc =
        (.done, { s with printCol := printLoopCol s.vars items k s.printCol },
         acc ++ printLoopChunks s.vars items k s.printCol) := by
  intro k
  induction k with
  | zero =>
    intro s acc _ _ _ _ _
    simp only [Nat.zero_mul, runCollect, printLoopCol, printLoopChunks, List.append_nil]
  | succ k ih =>
    intro s acc hcode htr hroom hgate herr
    have hp := print_run env hie items hok s hcode.left htr hroom
    have e : (k + 1) * ((stmtCode items).length + 1) =
        (stmtCode items).length + (k * ((stmtCode items).length + 1) + 1) := by
      rw [Nat.succ_mul]; omega
    rw [e, hp.1 (herr s.printCol)]
    have hj := run_step_jump env hie
      { s with pc := s.pc + (stmtCode items).length, printCol := (printSpec s.vars s.printCol items).col } s.pc htr
      hcode.right.head (hgate.imp id id)
    rw [runCollect_succ_continue hj]
    have := ih { s with printCol := (printSpec s.vars s.printCol items).col }
      (acc ++ (printSpec s.vars s.printCol items).chunks) hcode htr hroom hgate herr
    rw [show ({ s with pc := s.pc, printCol := (printSpec s.vars s.printCol items).col } : Runtime) =
      { s with printCol := (printSpec s.vars s.printCol items).col } from rfl] at *
    rw [this]
    simp only [printLoopCol, printLoopChunks, List.append_assoc]

end printLoop

end Lemmas.NoResidue
end Basic
