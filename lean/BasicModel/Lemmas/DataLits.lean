import BasicModel.Lemmas.DataOrder
/-
  A program that compiles without a report has constants as DATA items (C09; chain-neutral).

  `codegen` reports SYNTAX ERROR "EXPECTED LITERAL" (or the error of the negation) for every DATA
  item whose fragment is not `literal v` / `literal w; neg`; this file shows that, when nothing at
  all is reported, a fragment of one of these two shapes can only come from a literal / a negated
  literal — so the syntactic condition `stmtsLit` of `Lemmas/DataOrder.lean` follows from a clean
  compile, and the data-segment theorems need no hypothesis about the DATA items.
-/
namespace Basic
namespace DataOrder
open Link Codegen
variable {α β : Type}

/-! ### errors are only ever added -/

/-- `s'` has the errors of `s` and possibly more -/
def ErrExt (s s' : VState) : Prop := ∃ l, s'.errors = s.errors ++ l

theorem ErrExt.refl (s : VState) : ErrExt s s := ⟨[], (List.append_nil _).symm⟩

theorem ErrExt.trans {a b c : VState} (h1 : ErrExt a b) (h2 : ErrExt b c) : ErrExt a c := by
  obtain ⟨l1, e1⟩ := h1
  obtain ⟨l2, e2⟩ := h2
  exact ⟨l1 ++ l2, by rw [e2, e1, List.append_assoc]⟩

/-- a clean end means a clean middle -/
theorem ErrExt.clean {a b c : VState} (h1 : ErrExt a b) (h2 : ErrExt b c) (h : c.errors = a.errors) :
    b.errors = a.errors ∧ c.errors = b.errors := by
  obtain ⟨l1, e1⟩ := h1
  obtain ⟨l2, e2⟩ := h2
  rw [e2, e1] at h
  obtain ⟨x1, x2⟩ := errs_split h
  subst x1; subst x2
  rw [List.append_nil] at e1 e2
  exact ⟨e1, e2⟩

theorem visitVariable_errExt (v : Variable) (s : VState) : ErrExt s (visitVariable v s) := by
  unfold visitVariable
  rcases runFresh (genVariable v) s.g with ⟨r, link, g⟩
  cases r with
  | ok a => exact ErrExt.refl _
  | error e => exact ⟨[e], rfl⟩

theorem visitExpression_errExt (e : Expr) (s : VState) : ErrExt s (visitExpression e s) := by
  unfold visitExpression
  rcases runFresh (genExpression e) s.g with ⟨r, link, g⟩
  cases r with
  | ok a => exact ErrExt.refl _
  | error e => exact ⟨[e], rfl⟩

theorem visitStatement_errExt (st : Stmt) (s : VState) : ErrExt s (visitStatement st s) := by
  unfold visitStatement
  rcases runFresh (genStatement st) s.g with ⟨r, link, g⟩
  cases r with
  | ok a => exact ErrExt.refl _
  | error e => exact ⟨[e], rfl⟩

mutual
theorem acceptVar_errExt : ∀ (v : Variable) (s : VState), ErrExt s (acceptVar v s)
  | .unary c i, s => by rw [acceptVar]; exact visitVariable_errExt _ _
  | .array c i es, s => by rw [acceptVar]; exact (acceptExprs_errExt es s).trans (visitVariable_errExt _ _)
theorem acceptExpr_errExt : ∀ (e : Expr) (s : VState), ErrExt s (acceptExpr e s)
  | .var v, s => by rw [acceptExpr]; exact (acceptVar_errExt v s).trans (visitExpression_errExt _ _)
  | .neg c e, s => by rw [acceptExpr]; exact (acceptExpr_errExt e s).trans (visitExpression_errExt _ _)
  | .not c e, s => by rw [acceptExpr]; exact (acceptExpr_errExt e s).trans (visitExpression_errExt _ _)
  | .bin op c l r, s => by
    rw [acceptExpr]
    exact ((acceptExpr_errExt l s).trans (acceptExpr_errExt r _)).trans (visitExpression_errExt _ _)
  | .single c b, s => by rw [acceptExpr] <;> first | exact visitExpression_errExt _ _ | nofun
  | .double c b, s => by rw [acceptExpr] <;> first | exact visitExpression_errExt _ _ | nofun
  | .integer c b, s => by rw [acceptExpr] <;> first | exact visitExpression_errExt _ _ | nofun
  | .string c b, s => by rw [acceptExpr] <;> first | exact visitExpression_errExt _ _ | nofun
theorem acceptExprs_errExt : ∀ (es : List Expr) (s : VState), ErrExt s (acceptExprs es s)
  | [], s => by rw [acceptExprs]; exact ErrExt.refl s
  | e :: es, s => by rw [acceptExprs]; exact (acceptExpr_errExt e s).trans (acceptExprs_errExt es _)
end

theorem acceptVars_errExt (vs : List Variable) (s : VState) : ErrExt s (acceptVars vs s) := by
  unfold acceptVars
  induction vs generalizing s with
  | nil => exact ErrExt.refl s
  | cons v vs ih => rw [List.foldl_cons]; exact (acceptVar_errExt v s).trans (ih _)

/-! ### generator functions that touch only the fragment under construction -/

structure CurOnly (m : GM α) : Prop where
  run : ∀ g, (m.run.run g).2.var = g.var ∧ (m.run.run g).2.expr = g.expr ∧ (m.run.run g).2.stmt = g.stmt

theorem CurOnly.ret (a : α) : CurOnly (pure a : GM α) := ⟨fun _ => ⟨rfl, rfl, rfl⟩⟩
theorem CurOnly.thr (e : Error) : CurOnly (throw e : GM α) := ⟨fun _ => ⟨rfl, rfl, rfl⟩⟩
theorem CurOnly.lift (r : Except Error α) : CurOnly (liftE r : GM α) :=
  ⟨fun g => by rw [d_liftE]; exact ⟨rfl, rfl, rfl⟩⟩

theorem CurOnly.seq {m : GM α} {f : α → GM β} (hm : CurOnly m) (hf : ∀ a, CurOnly (f a)) : CurOnly (m >>= f) := by
  constructor
  intro g
  have h1 := hm.run g
  rw [d_bind]
  rcases h : m.run.run g with ⟨r, g'⟩
  rw [h] at h1
  cases r with
  | ok a =>
    have h2 := (hf a).run g'
    exact ⟨h2.1.trans h1.1, h2.2.1.trans h1.2.1, h2.2.2.trans h1.2.2⟩
  | error e => exact h1

theorem CurOnly.forLoop {γ : Type} (l : List γ) (init : β) (f : γ → β → GM (ForInStep β))
    (hf : ∀ a b, CurOnly (f a b)) : CurOnly (forIn l init f) := by
  induction l generalizing init with
  | nil => exact CurOnly.ret _
  | cons a as ih =>
    rw [List.forIn_cons]
    refine CurOnly.seq (hf a init) ?_
    intro r
    cases r with
    | done b => exact CurOnly.ret _
    | yield b => exact ih b

theorem co_lpush (op : Opcode) : CurOnly (lpush op) := ⟨fun g => by rw [d_lpush]; exact ⟨rfl, rfl, rfl⟩⟩
theorem co_lappend (f : Link) : CurOnly (lappend f) := ⟨fun g => by rw [d_lappend]; exact ⟨rfl, rfl, rfl⟩⟩
theorem co_lenVal (n : Nat) : CurOnly (lenVal n) := CurOnly.lift _

macro "co_step" : tactic =>
  `(tactic| first
    | with_reducible exact CurOnly.ret _
    | with_reducible exact CurOnly.thr _
    | with_reducible exact CurOnly.lift _
    | with_reducible exact co_lpush _
    | with_reducible exact co_lappend _
    | with_reducible exact co_lenVal _
    | (with_reducible refine CurOnly.forLoop _ _ _ ?_; intro _ _)
    | with_reducible apply CurOnly.seq
    | intro _
    | split)

macro "co" : tactic => `(tactic| (try dsimp only
                                  repeat' co_step))

theorem co_pushAsExpression (v : VarItem) : CurOnly (pushAsExpression v) := by unfold pushAsExpression; co

/-! ### the last instruction of a variable's or call's code -/

/-- not `neg`, not a `literal` -/
def goodOp : Opcode → Bool
  | .neg => false
  | .literal _ => false
  | _ => true

theorem builtin_goodOp {name : Str} {oc : Opcode} {lo hi : Nat} (h : Gen.opcodeAndArity name = some (oc, lo, hi)) :
    goodOp oc = true := by
  unfold Gen.opcodeAndArity at h
  cases hf : Gen.builtinTable.find? (fun r => r.1.toList == name) with
  | none => rw [hf] at h; cases h
  | some r =>
    rw [hf] at h
    simp only [Option.map_some, Option.some.injEq] at h
    have hm := List.mem_of_find?_eq_some hf
    have hall : Gen.builtinTable.all (fun r => goodOp r.2.1) = true := by decide
    have := List.all_eq_true.1 hall r hm
    rw [h] at this
    exact this

/-- the fragment ends with a good instruction -/
def EndsGood (l : Link) : Prop := ∃ (ops1 : Array Opcode) (o : Opcode), l.ops = ops1.push o ∧ goodOp o = true

theorem lpush_ok_ends {op : Opcode} {g g' : GState} {u : Unit} (h : (lpush op).run.run g = (.ok u, g'))
    (hop : goodOp op = true) : EndsGood g'.cur := by
  rw [d_lpush] at h
  obtain ⟨-, h2⟩ := Prod.mk.inj h
  subst h2
  exact ⟨g.cur.ops, op, rfl, hop⟩

theorem pure_ok_inv {a b : α} {g g' : GState} (h : (pure a : GM α).run.run g = (.ok b, g')) : a = b ∧ g = g' := by
  have := Prod.mk.inj h
  exact ⟨Except.ok.inj this.1, this.2⟩

/-- `… ; lpush op; pure b` ends with `op` -/
theorem tail_ends {op : Opcode} {b x : β} {g g' : GState} (hop : goodOp op = true)
    (h : (lpush op >>= fun _ => (pure b : GM β)).run.run g = (.ok x, g')) : EndsGood g'.cur := by
  obtain ⟨u, g1, h1, h2⟩ := bind_ok_inv h
  obtain ⟨-, e⟩ := pure_ok_inv h2
  rw [← e]
  exact lpush_ok_ends h1 hop

/-- **the code of a variable reference or call ends with a good instruction** (`push`, `pushArr`, `fn`
    or the opcode of a built-in) whenever the generator succeeds -/
theorem pushAsExpression_ends (v : VarItem) (g g' : GState) (c : Col)
    (h : (pushAsExpression v).run.run g = (.ok c, g')) : EndsGood g'.cur := by
  unfold pushAsExpression at h
  obtain ⟨u1, g1, -, h⟩ := bind_ok_inv h
  obtain ⟨handled, g2, h2, h⟩ := bind_ok_inv h
  cases handled with
  | true =>
    simp only [if_true] at h
    obtain ⟨-, e⟩ := pure_ok_inv h
    rw [← e]
    -- the inner block returned `true`
    split at h2
    · rename_i oc lo hi ho
      have hg := builtin_goodOp ho
      split at h2
      · exact tail_ends hg h2
      · split at h2
        · rename_i len _
          split at h2
          · dsimp only at h2
            split at h2
            · obtain ⟨lv, g3, -, h2⟩ := bind_ok_inv h2
              obtain ⟨u4, g4, -, h2⟩ := bind_ok_inv h2
              exact tail_ends hg h2
            · exact tail_ends hg h2
          · cases h2
        · obtain ⟨e1, -⟩ := pure_ok_inv h2
          cases e1
    · obtain ⟨e1, -⟩ := pure_ok_inv h2
      cases e1
  | false =>
    simp only [Bool.false_eq_true, if_false] at h
    split at h
    · exact tail_ends rfl h
    · split at h
      · obtain ⟨lv, g3, -, h⟩ := bind_ok_inv h
        obtain ⟨u4, g4, -, h⟩ := bind_ok_inv h
        exact tail_ends rfl h
      · obtain ⟨lv, g3, -, h⟩ := bind_ok_inv h
        obtain ⟨u4, g4, -, h⟩ := bind_ok_inv h
        exact tail_ends rfl h

/-! ### the shape of an expression's code -/

/-- what a successfully generated fragment of `e` looks like, as far as DATA cares: a literal is one
    `literal`; `-e` is the code of `e` followed by `neg`; everything else ends with an instruction that
    is neither `neg` nor a `literal` -/
def ExprShape : Expr → Array Opcode → Prop
  | .single _ b, ops => ops = #[.literal (.sng b)]
  | .double _ b, ops => ops = #[.literal (.dbl b)]
  | .integer _ n, ops => ops = #[.literal (.int n)]
  | .string _ x, ops => ops = #[.literal (.str x)]
  | .neg _ e, ops => ∃ ops1, ExprShape e ops1 ∧ ops = ops1.push .neg
  | .not _ _, ops => ∃ ops1 : Array Opcode, ops = ops1.push .not
  | .bin op _ _ _, ops => ∃ ops1 : Array Opcode, ops = ops1.push (Gen.opcodeOfBinOp op)
  | .var _, ops => ∃ (ops1 : Array Opcode) (o : Opcode), ops = ops1.push o ∧ goodOp o = true

theorem push_eq_one {γ : Type} {xs : Array γ} {x a : γ} (h : xs.push x = #[a]) : xs = #[] ∧ x = a := by
  have hs := congrArg Array.size h
  simp only [Array.size_push, List.size_toArray, List.length_cons, List.length_nil] at hs
  have hx : xs = #[] := Array.eq_empty_of_size_eq_zero (by omega)
  subst hx
  have h1 := congrArg Array.toList h
  simp at h1
  exact ⟨rfl, h1⟩

theorem push_eq_two {γ : Type} {xs : Array γ} {x a b : γ} (h : xs.push x = #[a, b]) : xs = #[a] ∧ x = b := by
  have hs := congrArg Array.size h
  simp only [Array.size_push, List.size_toArray, List.length_cons, List.length_nil] at hs
  have h1 := congrArg Array.toList h
  simp only [Array.toList_push] at h1
  have h2 : xs.toList ++ [x] = [a] ++ [b] := h1
  have hl : xs.toList.length = [a].length := by simp; omega
  obtain ⟨e1, e2⟩ := List.append_inj h2 hl
  refine ⟨?_, by simpa using e2⟩
  apply Array.ext'
  exact e1

theorem goodOp_binOp (op : BinOp) : goodOp (Gen.opcodeOfBinOp op) = true := by cases op <;> rfl

/-- a fragment that is exactly one `literal v` comes from the literal `v` -/
theorem shape_lit {e : Expr} {v : Val} (h : ExprShape e #[.literal v]) : litVal e = some v := by
  cases e with
  | single c b => simp only [ExprShape] at h; simp only [litVal]; injection h with h; simp at h; rw [h]
  | double c b => simp only [ExprShape] at h; simp only [litVal]; injection h with h; simp at h; rw [h]
  | integer c n => simp only [ExprShape] at h; simp only [litVal]; injection h with h; simp at h; rw [h]
  | string c x => simp only [ExprShape] at h; simp only [litVal]; injection h with h; simp at h; rw [h]
  | neg c e1 =>
    simp only [ExprShape] at h
    obtain ⟨ops1, -, e⟩ := h
    have := (push_eq_one e.symm).2
    cases this
  | not c e1 =>
    simp only [ExprShape] at h
    obtain ⟨ops1, e⟩ := h
    have := (push_eq_one e.symm).2
    cases this
  | bin op c l r =>
    simp only [ExprShape] at h
    obtain ⟨ops1, e⟩ := h
    have := (push_eq_one e.symm).2
    have hg := goodOp_binOp op
    rw [this] at hg
    cases hg
  | var x =>
    simp only [ExprShape] at h
    obtain ⟨ops1, o, e, hg⟩ := h
    have := (push_eq_one e.symm).2
    rw [this] at hg
    cases hg

/-- a fragment that is exactly `literal w; neg` comes from `-w` -/
theorem shape_neg {e : Expr} {w : Val} (h : ExprShape e #[.literal w, .neg]) :
    ∃ c e1, e = .neg c e1 ∧ litVal e1 = some w := by
  cases e with
  | single c b => simp only [ExprShape] at h; have := congrArg Array.size h; simp at this
  | double c b => simp only [ExprShape] at h; have := congrArg Array.size h; simp at this
  | integer c n => simp only [ExprShape] at h; have := congrArg Array.size h; simp at this
  | string c x => simp only [ExprShape] at h; have := congrArg Array.size h; simp at this
  | neg c e1 =>
    simp only [ExprShape] at h
    obtain ⟨ops1, h1, e⟩ := h
    have := (push_eq_two e.symm).1
    rw [this] at h1
    exact ⟨c, e1, rfl, shape_lit h1⟩
  | not c e1 =>
    simp only [ExprShape] at h
    obtain ⟨ops1, e⟩ := h
    have := (push_eq_two e.symm).2
    cases this
  | bin op c l r =>
    simp only [ExprShape] at h
    obtain ⟨ops1, e⟩ := h
    have := (push_eq_two e.symm).2
    have hg := goodOp_binOp op
    rw [this] at hg
    cases hg
  | var x =>
    simp only [ExprShape] at h
    obtain ⟨ops1, o, e, hg⟩ := h
    have := (push_eq_two e.symm).2
    rw [this] at hg
    cases hg

/-! ### generator runs that succeed -/

theorem lappend_ok_inv {f : Link} {g g' : GState} {u : Unit} (h : (lappend f).run.run g = (.ok u, g')) :
    g' = { g with cur := (g.cur.append f).1 } ∧ (g.cur.append f).2 = .ok () := by
  rw [d_lappend] at h
  obtain ⟨h1, h2⟩ := Prod.mk.inj h
  exact ⟨h2.symm, h1⟩

theorem lpush_ok_inv {op : Opcode} {g g' : GState} {u : Unit} (h : (lpush op).run.run g = (.ok u, g')) :
    g' = { g with cur := (g.cur.push op).1 } := by
  rw [d_lpush] at h
  exact (Prod.mk.inj h).2.symm

theorem popVar_push (g : GState) (pre : Array VarItem) (x : VarItem) (h : g.var = pre.push x) :
    popVar.run.run g = (.ok x, { g with var := pre }) := by
  simp only [popVar, d_bind, d_get, h, Array.back?_push, d_set, d_pure, Array.pop_push]

theorem unaryExpr_ok (op : Opcode) (c c' : Col) (g g' : GState) (pre : Array (Col × Link)) (f1 : Col × Link)
    (h0 : g.expr = pre.push f1) (hc : g.cur = {}) (h : (unaryExpr op c).run.run g = (.ok c', g')) :
    g'.cur.ops = f1.2.ops.push op ∧ g'.expr = pre ∧ g'.var = g.var := by
  unfold unaryExpr at h
  rw [d_bind_ok (popExpr_push g pre f1 h0)] at h
  dsimp only at h
  obtain ⟨u1, g1, h1, h⟩ := bind_ok_inv h
  obtain ⟨e1, a1⟩ := lappend_ok_inv h1
  obtain ⟨u2, g2, h2, h⟩ := bind_ok_inv h
  have e2 := lpush_ok_inv h2
  obtain ⟨-, e3⟩ := pure_ok_inv h
  subst e3; subst e2; subst e1
  refine ⟨?_, rfl, rfl⟩
  show ((g.cur.append f1.2).1.ops).push op = _
  rw [append_ops a1, hc]
  simp

theorem binaryExpr_ok (op : Opcode) (c' : Col) (g g' : GState) (pre : Array (Col × Link)) (fl fr : Col × Link)
    (h0 : g.expr = (pre.push fl).push fr) (h : (binaryExpr op).run.run g = (.ok c', g')) :
    (∃ ops1 : Array Opcode, g'.cur.ops = ops1.push op) ∧ g'.expr = pre ∧ g'.var = g.var := by
  unfold binaryExpr at h
  rw [d_bind_ok (popExpr_push g (pre.push fl) fr h0)] at h
  dsimp only at h
  rw [d_bind_ok (popExpr_push _ pre fl rfl)] at h
  dsimp only at h
  obtain ⟨u1, g1, h1, h⟩ := bind_ok_inv h
  obtain ⟨e1, -⟩ := lappend_ok_inv h1
  obtain ⟨u2, g2, h2, h⟩ := bind_ok_inv h
  obtain ⟨e2, -⟩ := lappend_ok_inv h2
  obtain ⟨u3, g3, h3, h⟩ := bind_ok_inv h
  have e3 := lpush_ok_inv h3
  obtain ⟨-, e4⟩ := pure_ok_inv h
  subst e4; subst e3; subst e2; subst e1
  exact ⟨⟨_, rfl⟩, rfl, rfl⟩

theorem visitVariable_eq (v : Variable) (s : VState) :
    visitVariable v s =
      match (genVariable v).run.run { s.g with cur := {} } with
      | (.ok r, g') => { s with g := { g' with cur := s.g.cur, var := g'.var.push ⟨r.1, r.2.1, g'.cur, r.2.2⟩ } }
      | (.error err, g') =>
        { g := { g' with cur := s.g.cur, var := g'.var.push ⟨(0, 0), [], g'.cur, none⟩ }, errors := s.errors ++ [err] } := by
  unfold visitVariable runFresh
  rcases (genVariable v).run.run { s.g with cur := {} } with ⟨r, g'⟩
  cases r with
  | ok a => obtain ⟨c, n, l⟩ := a; rfl
  | error e => rfl

theorem append_singleton_ne {l : List Error} {e : Error} : l ++ [e] ≠ l := by
  intro h
  have := congrArg List.length h
  simp at this

/-! ### clean visits of expressions: one fragment, of the expected shape -/

mutual
theorem acceptVar_clean : ∀ (v : Variable) (s : VState), (acceptVar v s).errors = s.errors →
    (∃ item, (acceptVar v s).g.var = s.g.var.push item) ∧ (acceptVar v s).g.expr = s.g.expr
  | .unary c i, s, _ => by
    rw [acceptVar, visitVariable_eq]
    simp only [genVariable]
    rw [d_pure]
    exact ⟨⟨_, rfl⟩, rfl⟩
  | .array c i es, s, hcl => by
    rw [acceptVar] at hcl ⊢
    obtain ⟨hc1, hc2⟩ := (acceptExprs_errExt es s).clean (visitVariable_errExt _ _) hcl
    obtain ⟨frs, hlen, hex, hvar, -⟩ := acceptExprs_clean es s hc1
    rw [visitVariable_eq] at hc2 ⊢
    rcases hr : (genVariable (.array c i es)).run.run { (acceptExprs es s).g with cur := {} } with ⟨r, g'⟩
    rw [hr] at hc2
    cases r with
    | error e => exact absurd hc2 append_singleton_ne
    | ok a =>
      dsimp only
      simp only [genVariable] at hr
      rw [← hlen] at hr
      rw [d_bind_ok (popNExpr_run ({ (acceptExprs es s).g with cur := {} } : GState) s.g.expr frs hex)] at hr
      obtain ⟨u, g1, h1, hr⟩ := bind_ok_inv hr
      have hco : CurOnly (forIn frs PUnit.unit fun (x : Col × Link) (_ : PUnit) => (do
          lappend x.snd
          pure (ForInStep.yield PUnit.unit) : GM (ForInStep PUnit))) := by co
      have hs := hco.run { (acceptExprs es s).g with cur := {}, expr := s.g.expr }
      rw [h1] at hs
      obtain ⟨-, e⟩ := pure_ok_inv hr
      subst e
      refine ⟨⟨⟨a.1, a.2.1, g1.cur, a.2.2⟩, ?_⟩, hs.2.1⟩
      show (g1.var.push _) = _
      rw [hs.1]
      show (acceptExprs es s).g.var.push _ = _
      rw [hvar]
theorem acceptExpr_clean : ∀ (e : Expr) (s : VState), (acceptExpr e s).errors = s.errors →
    ∃ fr, (acceptExpr e s).g.expr = s.g.expr.push fr ∧ (acceptExpr e s).g.var = s.g.var ∧ ExprShape e fr.2.ops
  | .single c b, s, _ => by
    obtain ⟨c', h⟩ := acceptExpr_lit (.single c b) _ rfl s
    rw [h]; exact ⟨_, rfl, rfl, by simp only [ExprShape]⟩
  | .double c b, s, _ => by
    obtain ⟨c', h⟩ := acceptExpr_lit (.double c b) _ rfl s
    rw [h]; exact ⟨_, rfl, rfl, by simp only [ExprShape]⟩
  | .integer c b, s, _ => by
    obtain ⟨c', h⟩ := acceptExpr_lit (.integer c b) _ rfl s
    rw [h]; exact ⟨_, rfl, rfl, by simp only [ExprShape]⟩
  | .string c b, s, _ => by
    obtain ⟨c', h⟩ := acceptExpr_lit (.string c b) _ rfl s
    rw [h]; exact ⟨_, rfl, rfl, by simp only [ExprShape]⟩
  | .neg c e1, s, hcl => by
    rw [acceptExpr] at hcl ⊢
    obtain ⟨hc1, hc2⟩ := (acceptExpr_errExt e1 s).clean (visitExpression_errExt _ _) hcl
    obtain ⟨f1, hex, hvar, hsh⟩ := acceptExpr_clean e1 s hc1
    rw [visitExpression_eq] at hc2 ⊢
    rcases hr : (genExpression (.neg c e1)).run.run { (acceptExpr e1 s).g with cur := {} } with ⟨r, g'⟩
    rw [hr] at hc2
    cases r with
    | error e => exact absurd hc2 append_singleton_ne
    | ok a =>
      dsimp only
      simp only [genExpression] at hr
      obtain ⟨h1, h2, h3⟩ := unaryExpr_ok _ c a ({ (acceptExpr e1 s).g with cur := {} } : GState) g' s.g.expr f1 hex rfl hr
      refine ⟨(a, g'.cur), ?_, ?_, ?_⟩
      · show g'.expr.push _ = _; rw [h2]
      · show g'.var = _; rw [h3]; exact hvar
      · simp only [ExprShape]
        exact ⟨f1.2.ops, hsh, h1⟩
  | .not c e1, s, hcl => by
    rw [acceptExpr] at hcl ⊢
    obtain ⟨hc1, hc2⟩ := (acceptExpr_errExt e1 s).clean (visitExpression_errExt _ _) hcl
    obtain ⟨f1, hex, hvar, -⟩ := acceptExpr_clean e1 s hc1
    rw [visitExpression_eq] at hc2 ⊢
    rcases hr : (genExpression (.not c e1)).run.run { (acceptExpr e1 s).g with cur := {} } with ⟨r, g'⟩
    rw [hr] at hc2
    cases r with
    | error e => exact absurd hc2 append_singleton_ne
    | ok a =>
      dsimp only
      simp only [genExpression] at hr
      obtain ⟨h1, h2, h3⟩ := unaryExpr_ok _ c a ({ (acceptExpr e1 s).g with cur := {} } : GState) g' s.g.expr f1 hex rfl hr
      refine ⟨(a, g'.cur), ?_, ?_, ?_⟩
      · show g'.expr.push _ = _; rw [h2]
      · show g'.var = _; rw [h3]; exact hvar
      · simp only [ExprShape]
        exact ⟨f1.2.ops, h1⟩
  | .bin op c l r, s, hcl => by
    rw [acceptExpr] at hcl ⊢
    obtain ⟨hc12, hc3⟩ := ((acceptExpr_errExt l s).trans (acceptExpr_errExt r _)).clean (visitExpression_errExt _ _) hcl
    obtain ⟨hc1, hc2⟩ := (acceptExpr_errExt l s).clean (acceptExpr_errExt r _) hc12
    obtain ⟨fl, hexl, hvarl, -⟩ := acceptExpr_clean l s hc1
    obtain ⟨fr, hexr, hvarr, -⟩ := acceptExpr_clean r _ hc2
    rw [visitExpression_eq] at hc3 ⊢
    rcases hr : (genExpression (.bin op c l r)).run.run { (acceptExpr r (acceptExpr l s)).g with cur := {} } with ⟨res, g'⟩
    rw [hr] at hc3
    cases res with
    | error e => exact absurd hc3 append_singleton_ne
    | ok a =>
      dsimp only
      simp only [genExpression] at hr
      obtain ⟨⟨ops1, h1⟩, h2, h3⟩ := binaryExpr_ok _ a ({ (acceptExpr r (acceptExpr l s)).g with cur := {} } : GState) g' s.g.expr fl fr (by
        show (acceptExpr r (acceptExpr l s)).g.expr = _
        rw [hexr, hexl]) hr
      refine ⟨(a, g'.cur), ?_, ?_, ?_⟩
      · show g'.expr.push _ = _; rw [h2]
      · show g'.var = _; rw [h3]; show (acceptExpr r (acceptExpr l s)).g.var = _; rw [hvarr, hvarl]
      · simp only [ExprShape]
        exact ⟨ops1, h1⟩
  | .var v, s, hcl => by
    rw [acceptExpr] at hcl ⊢
    obtain ⟨hc1, hc2⟩ := (acceptVar_errExt v s).clean (visitExpression_errExt _ _) hcl
    obtain ⟨⟨item, hvar⟩, hex⟩ := acceptVar_clean v s hc1
    rw [visitExpression_eq] at hc2 ⊢
    rcases hr : (genExpression (.var v)).run.run { (acceptVar v s).g with cur := {} } with ⟨res, g'⟩
    rw [hr] at hc2
    cases res with
    | error e => exact absurd hc2 append_singleton_ne
    | ok a =>
      dsimp only
      simp only [genExpression] at hr
      rw [d_bind_ok (popVar_push ({ (acceptVar v s).g with cur := {} } : GState) s.g.var item hvar)] at hr
      have hco := (co_pushAsExpression item).run { (acceptVar v s).g with cur := {}, var := s.g.var }
      have hend := pushAsExpression_ends item _ g' a hr
      rw [hr] at hco
      obtain ⟨ops1, o, e1, e2⟩ := hend
      refine ⟨(a, g'.cur), ?_, hco.1, ?_⟩
      · show g'.expr.push _ = _
        rw [hco.2.1]
        show (acceptVar v s).g.expr.push _ = _
        rw [hex]
      · simp only [ExprShape]
        exact ⟨ops1, o, e1, e2⟩
theorem acceptExprs_clean : ∀ (es : List Expr) (s : VState), (acceptExprs es s).errors = s.errors →
    ∃ frs : List (Col × Link), frs.length = es.length ∧ (acceptExprs es s).g.expr = s.g.expr ++ frs.toArray ∧
      (acceptExprs es s).g.var = s.g.var ∧ All2 (fun e fr => ExprShape e fr.2.ops) es frs
  | [], s, _ => by rw [acceptExprs]; exact ⟨[], rfl, by simp, rfl, .nil⟩
  | e :: es, s, hcl => by
    rw [acceptExprs] at hcl ⊢
    obtain ⟨hc1, hc2⟩ := (acceptExpr_errExt e s).clean (acceptExprs_errExt es _) hcl
    obtain ⟨fr, hex, hvar, hsh⟩ := acceptExpr_clean e s hc1
    obtain ⟨frs, hlen, hexs, hvars, hshs⟩ := acceptExprs_clean es _ hc2
    refine ⟨fr :: frs, by simp [hlen], ?_, by rw [hvars, hvar], .cons hsh hshs⟩
    rw [hexs, hex]
    simp
end

/-! ### statements -/

mutual
theorem acceptStmt_errExt : ∀ (st : Stmt) (s : VState), ErrExt s (acceptStmt st s)
  | .data c es, s => by rw [acceptStmt]; exact (acceptExprs_errExt es s).trans (visitStatement_errExt _ _)
  | .print c es, s => by rw [acceptStmt]; exact (acceptExprs_errExt es s).trans (visitStatement_errExt _ _)
  | .def c v ps e, s => by
    rw [acceptStmt]
    exact (((acceptVar_errExt v s).trans (acceptVars_errExt ps _)).trans (acceptExpr_errExt e _)).trans
      (visitStatement_errExt _ _)
  | .defdbl c a b, s => by
    rw [acceptStmt]; exact ((acceptVar_errExt a s).trans (acceptVar_errExt b _)).trans (visitStatement_errExt _ _)
  | .defint c a b, s => by
    rw [acceptStmt]; exact ((acceptVar_errExt a s).trans (acceptVar_errExt b _)).trans (visitStatement_errExt _ _)
  | .defsng c a b, s => by
    rw [acceptStmt]; exact ((acceptVar_errExt a s).trans (acceptVar_errExt b _)).trans (visitStatement_errExt _ _)
  | .defstr c a b, s => by
    rw [acceptStmt]; exact ((acceptVar_errExt a s).trans (acceptVar_errExt b _)).trans (visitStatement_errExt _ _)
  | .swap c a b, s => by
    rw [acceptStmt]; exact ((acceptVar_errExt a s).trans (acceptVar_errExt b _)).trans (visitStatement_errExt _ _)
  | .mid c v e1 e2 e3, s => by
    rw [acceptStmt]
    exact ((((acceptVar_errExt v s).trans (acceptExpr_errExt e1 _)).trans (acceptExpr_errExt e2 _)).trans
      (acceptExpr_errExt e3 _)).trans (visitStatement_errExt _ _)
  | .for c v e1 e2 e3, s => by
    rw [acceptStmt]
    exact ((((acceptVar_errExt v s).trans (acceptExpr_errExt e1 _)).trans (acceptExpr_errExt e2 _)).trans
      (acceptExpr_errExt e3 _)).trans (visitStatement_errExt _ _)
  | .gosub c e, s => by rw [acceptStmt]; exact (acceptExpr_errExt e s).trans (visitStatement_errExt _ _)
  | .goto c e, s => by rw [acceptStmt]; exact (acceptExpr_errExt e s).trans (visitStatement_errExt _ _)
  | .load c e, s => by rw [acceptStmt]; exact (acceptExpr_errExt e s).trans (visitStatement_errExt _ _)
  | .restore c e, s => by rw [acceptStmt]; exact (acceptExpr_errExt e s).trans (visitStatement_errExt _ _)
  | .run c e, s => by rw [acceptStmt]; exact (acceptExpr_errExt e s).trans (visitStatement_errExt _ _)
  | .save c e, s => by rw [acceptStmt]; exact (acceptExpr_errExt e s).trans (visitStatement_errExt _ _)
  | .while c e, s => by rw [acceptStmt]; exact (acceptExpr_errExt e s).trans (visitStatement_errExt _ _)
  | .if c p th el, s => by
    rw [acceptStmt]
    exact (((acceptExpr_errExt p s).trans (acceptStmts_errExt th _)).trans (acceptStmts_errExt el _)).trans
      (visitStatement_errExt _ _)
  | .let c v e, s => by
    rw [acceptStmt]; exact ((acceptVar_errExt v s).trans (acceptExpr_errExt e _)).trans (visitStatement_errExt _ _)
  | .delete c a b, s => by
    rw [acceptStmt]; exact ((acceptExpr_errExt a s).trans (acceptExpr_errExt b _)).trans (visitStatement_errExt _ _)
  | .list c a b, s => by
    rw [acceptStmt]; exact ((acceptExpr_errExt a s).trans (acceptExpr_errExt b _)).trans (visitStatement_errExt _ _)
  | .input c e1 e2 vs, s => by
    rw [acceptStmt]
    exact (((acceptExpr_errExt e1 s).trans (acceptExpr_errExt e2 _)).trans (acceptVars_errExt vs _)).trans
      (visitStatement_errExt _ _)
  | .onGoto c e ls, s => by
    rw [acceptStmt]; exact ((acceptExpr_errExt e s).trans (acceptExprs_errExt ls _)).trans (visitStatement_errExt _ _)
  | .onGosub c e ls, s => by
    rw [acceptStmt]; exact ((acceptExpr_errExt e s).trans (acceptExprs_errExt ls _)).trans (visitStatement_errExt _ _)
  | .renum c a b st, s => by
    rw [acceptStmt]
    exact (((acceptExpr_errExt a s).trans (acceptExpr_errExt b _)).trans (acceptExpr_errExt st _)).trans
      (visitStatement_errExt _ _)
  | .dim c vs, s => by rw [acceptStmt]; exact (acceptVars_errExt vs s).trans (visitStatement_errExt _ _)
  | .erase c vs, s => by rw [acceptStmt]; exact (acceptVars_errExt vs s).trans (visitStatement_errExt _ _)
  | .next c vs, s => by rw [acceptStmt]; exact (acceptVars_errExt vs s).trans (visitStatement_errExt _ _)
  | .read c vs, s => by rw [acceptStmt]; exact (acceptVars_errExt vs s).trans (visitStatement_errExt _ _)
  | .clear c, s => by rw [acceptStmt] <;> first | exact visitStatement_errExt _ _ | nofun
  | .cls c, s => by rw [acceptStmt] <;> first | exact visitStatement_errExt _ _ | nofun
  | .cont c, s => by rw [acceptStmt] <;> first | exact visitStatement_errExt _ _ | nofun
  | .end c, s => by rw [acceptStmt] <;> first | exact visitStatement_errExt _ _ | nofun
  | .new c, s => by rw [acceptStmt] <;> first | exact visitStatement_errExt _ _ | nofun
  | .return c, s => by rw [acceptStmt] <;> first | exact visitStatement_errExt _ _ | nofun
  | .stop c, s => by rw [acceptStmt] <;> first | exact visitStatement_errExt _ _ | nofun
  | .troff c, s => by rw [acceptStmt] <;> first | exact visitStatement_errExt _ _ | nofun
  | .tron c, s => by rw [acceptStmt] <;> first | exact visitStatement_errExt _ _ | nofun
  | .wend c, s => by rw [acceptStmt] <;> first | exact visitStatement_errExt _ _ | nofun
theorem acceptStmts_errExt : ∀ (sts : List Stmt) (s : VState), ErrExt s (acceptStmts sts s)
  | [], s => by rw [acceptStmts]; exact ErrExt.refl s
  | st :: sts, s => by rw [acceptStmts]; exact (acceptStmt_errExt st s).trans (acceptStmts_errExt sts _)
end

/-- a DATA item that `transformToData` accepts has one of the two shapes -/
theorem td_ok_shape (l : Link) (c : Col) (h : (transformToData l c).2 = .ok ()) :
    (∃ v, l.ops = #[.literal v]) ∨ (∃ w nv, l.ops = #[.literal w, .neg] ∧ Ops.negate w = .ok nv) := by
  unfold transformToData at h
  by_cases h1 : l.ops.size = 1
  · simp only [h1, if_true] at h
    have h0 : 0 < l.ops.size := by omega
    rw [Array.getElem?_eq_getElem h0] at h
    cases hop : l.ops[0] with
    | literal v =>
      left
      refine ⟨v, ?_⟩
      apply Array.ext
      · simp [h1]
      · intro i hi1 hi2
        have : i = 0 := by omega
        subst this
        simp [hop]
    | _ => rw [hop] at h; cases h
  · simp only [h1, if_false] at h
    by_cases h2 : l.ops.size = 2
    · simp only [h2, if_true] at h
      have h0 : 0 < l.ops.size := by omega
      have h1' : 1 < l.ops.size := by omega
      rw [Array.getElem?_eq_getElem h0, Array.getElem?_eq_getElem h1'] at h
      cases hop : l.ops[0] with
      | literal w =>
        cases hop1 : l.ops[1] with
        | neg =>
          rw [hop, hop1] at h
          dsimp only at h
          cases hn : Ops.negate w with
          | error e => rw [hn] at h; cases h
          | ok nv =>
            right
            refine ⟨w, nv, ?_, hn⟩
            apply Array.ext
            · simp [h2]
            · intro i hi1 hi2
              have : i = 0 ∨ i = 1 := by omega
              rcases this with e | e <;> subst e <;> simp [hop, hop1]
        | _ => rw [hop, hop1] at h; cases h
      | _ => rw [hop] at h; cases h
    · simp only [h2, if_false] at h
      cases h

/-- the loop of the DATA generator succeeded: every item was accepted -/
theorem data_loop_ok : ∀ (frs : List (Col × Link)) (g g' : GState) (u : PUnit),
    (forIn frs PUnit.unit fun (x : Col × Link) (_ : PUnit) => (do
        liftE (transformToData x.snd x.fst).snd
        lappend (transformToData x.snd x.fst).fst
        pure (ForInStep.yield PUnit.unit) : GM (ForInStep PUnit))).run.run g = (.ok u, g') →
    ∀ fr ∈ frs, (transformToData fr.2 fr.1).2 = .ok ()
  | [], _, _, _, _ => fun _ h => nomatch h
  | fr :: frs, g, g', u, hr => by
    rw [List.forIn_cons] at hr
    obtain ⟨st, g1, h1, hr⟩ := bind_ok_inv hr
    obtain ⟨u1, g2, h2, h1⟩ := bind_ok_inv h1
    rw [d_liftE] at h2
    have hok : (transformToData fr.2 fr.1).2 = .ok () := by
      have := (Prod.mk.inj h2).1
      rw [this]
    obtain ⟨u2, g3, -, h1⟩ := bind_ok_inv h1
    obtain ⟨e, -⟩ := pure_ok_inv h1
    subst e
    intro x hx
    rcases List.mem_cons.1 hx with rfl | hx
    · exact hok
    · exact data_loop_ok frs _ _ _ hr x hx

/-- **DATA, clean**: when visiting a DATA statement reports nothing, every item is a constant -/
theorem data_items_of_clean (c : Col) (es : List Expr) (s : VState)
    (hcl : (acceptStmt (.data c es) s).errors = s.errors) : (es.all fun e => (constOf e).isSome) = true := by
  rw [acceptStmt] at hcl
  obtain ⟨hc1, hc2⟩ := (acceptExprs_errExt es s).clean (visitStatement_errExt _ _) hcl
  obtain ⟨frs, hlen, hex, -, hsh⟩ := acceptExprs_clean es s hc1
  rw [visitStatement_eq] at hc2
  rcases hr : (genStatement (.data c es)).run.run { (acceptExprs es s).g with cur := {} } with ⟨r, g'⟩
  rw [hr] at hc2
  cases r with
  | error e => exact absurd hc2 append_singleton_ne
  | ok a =>
    simp only [genStatement] at hr
    rw [← hlen] at hr
    rw [d_bind_ok (popNExpr_run ({ (acceptExprs es s).g with cur := {} } : GState) s.g.expr frs hex)] at hr
    obtain ⟨u, g1, h1, -⟩ := bind_ok_inv hr
    have hall := data_loop_ok frs _ _ _ h1
    clear hr h1 hc2 hex hlen hcl hc1
    induction hsh with
    | nil => rfl
    | @cons e fr es frs h1 _ ih =>
      rw [List.all_cons, Bool.and_eq_true]
      refine ⟨?_, ih (fun x hx => hall x (List.mem_cons_of_mem _ hx))⟩
      rcases td_ok_shape fr.2 fr.1 (hall fr List.mem_cons_self) with ⟨v, hv⟩ | ⟨w, nv, hw, hn⟩
      · rw [hv] at h1
        have := shape_lit h1
        have hc : constOf e = some v := by
          cases e <;> first | exact this | (simp [litVal] at this)
        rw [hc]; rfl
      · rw [hw] at h1
        obtain ⟨c', e1, rfl, hl⟩ := shape_neg h1
        simp only [constOf, hl, hn]
        rfl

theorem stmtLit_plain (st : Stmt) (hp : Stmt.plain st = true) : stmtLit st = true := by
  cases st <;> first | (cases hp; done) | (rw [stmtLit] <;> nofun)

mutual
/-- **a statement visited without a report has constants as DATA items**, also inside IF branches -/
theorem stmtLit_of_clean : ∀ (st : Stmt) (s : VState), (acceptStmt st s).errors = s.errors → stmtLit st = true
  | .data c es, s, h => by rw [stmtLit]; exact data_items_of_clean c es s h
  | .«if» c p th el, s, h => by
    rw [acceptStmt] at h
    rw [stmtLit, Bool.and_eq_true]
    obtain ⟨h123, -⟩ := (((acceptExpr_errExt p s).trans (acceptStmts_errExt th _)).trans
      (acceptStmts_errExt el _)).clean (visitStatement_errExt _ _) h
    obtain ⟨h12, h3⟩ := ((acceptExpr_errExt p s).trans (acceptStmts_errExt th _)).clean (acceptStmts_errExt el _) h123
    obtain ⟨-, h2⟩ := (acceptExpr_errExt p s).clean (acceptStmts_errExt th _) h12
    exact ⟨stmtsLit_of_clean th _ h2, stmtsLit_of_clean el _ h3⟩
  | .print c es, _, _ => stmtLit_plain _ rfl
  | .«def» c v ps e, _, _ => stmtLit_plain _ rfl
  | .defdbl c a b, _, _ => stmtLit_plain _ rfl
  | .defint c a b, _, _ => stmtLit_plain _ rfl
  | .defsng c a b, _, _ => stmtLit_plain _ rfl
  | .defstr c a b, _, _ => stmtLit_plain _ rfl
  | .swap c a b, _, _ => stmtLit_plain _ rfl
  | .mid c v e1 e2 e3, _, _ => stmtLit_plain _ rfl
  | .«for» c v e1 e2 e3, _, _ => stmtLit_plain _ rfl
  | .gosub c e, _, _ => stmtLit_plain _ rfl
  | .goto c e, _, _ => stmtLit_plain _ rfl
  | .load c e, _, _ => stmtLit_plain _ rfl
  | .restore c e, _, _ => stmtLit_plain _ rfl
  | .run c e, _, _ => stmtLit_plain _ rfl
  | .save c e, _, _ => stmtLit_plain _ rfl
  | .«while» c e, _, _ => stmtLit_plain _ rfl
  | .«let» c v e, _, _ => stmtLit_plain _ rfl
  | .delete c a b, _, _ => stmtLit_plain _ rfl
  | .list c a b, _, _ => stmtLit_plain _ rfl
  | .input c e1 e2 vs, _, _ => stmtLit_plain _ rfl
  | .onGoto c e ls, _, _ => stmtLit_plain _ rfl
  | .onGosub c e ls, _, _ => stmtLit_plain _ rfl
  | .renum c a b st, _, _ => stmtLit_plain _ rfl
  | .dim c vs, _, _ => stmtLit_plain _ rfl
  | .erase c vs, _, _ => stmtLit_plain _ rfl
  | .next c vs, _, _ => stmtLit_plain _ rfl
  | .read c vs, _, _ => stmtLit_plain _ rfl
  | .clear c, _, _ => stmtLit_plain _ rfl
  | .cls c, _, _ => stmtLit_plain _ rfl
  | .cont c, _, _ => stmtLit_plain _ rfl
  | .«end» c, _, _ => stmtLit_plain _ rfl
  | .new c, _, _ => stmtLit_plain _ rfl
  | .«return» c, _, _ => stmtLit_plain _ rfl
  | .stop c, _, _ => stmtLit_plain _ rfl
  | .troff c, _, _ => stmtLit_plain _ rfl
  | .tron c, _, _ => stmtLit_plain _ rfl
  | .wend c, _, _ => stmtLit_plain _ rfl
theorem stmtsLit_of_clean : ∀ (sts : List Stmt) (s : VState), (acceptStmts sts s).errors = s.errors →
    stmtsLit sts = true
  | [], _, _ => by rw [stmtsLit]
  | st :: sts, s, h => by
    rw [acceptStmts] at h
    rw [stmtsLit, Bool.and_eq_true]
    obtain ⟨h1, h2⟩ := (acceptStmt_errExt st s).clean (acceptStmts_errExt sts _) h
    exact ⟨stmtLit_of_clean st s h1, stmtsLit_of_clean sts _ h2⟩
end

/-- **`codegen` reports nothing ⇒ the DATA items are constants** (otherwise: SYNTAX ERROR "EXPECTED
    LITERAL", or the error of the negation) -/
theorem codegen_clean_lits (link : Link) (ast : List Stmt) (h : (Codegen.codegen link ast).2 = []) :
    stmtsLit ast = true := by
  unfold Codegen.codegen at h
  dsimp only at h
  obtain ⟨h0, -, -⟩ := appendAll_clean _ _ _ h
  exact stmtsLit_of_clean ast {} h0

/-- one line's statements, with no hypothesis on the DATA items -/
theorem codegen_data_clean (link : Link) (ast : List Stmt) (h : (Codegen.codegen link ast).2 = []) :
    (Codegen.codegen link ast).1.data.toList = link.data.toList ++ stmtsData ast :=
  codegen_data link ast (codegen_clean_lits link ast h) h

/-! ### listings -/

/-- the line, if it parses, compiles without a report -/
def LineClean (p : Program) (line : Line) : Prop :=
  ∀ n ast, line.number = some n → Parse.parse line.number line.tokens = .ok ast →
    (Codegen.codegen (p.link.pushSymbol n) ast).2 = []

/-- every line of the listing, compiled in its turn, either does not parse or compiles without a report -/
def ListingClean : Program → List Line → Prop
  | _, [] => True
  | p, l :: ls => LineClean p l ∧ ListingClean (p.codegenLine l) ls

theorem listingOk_of_listingClean : ∀ (lines : List Line) (p : Program), ListingClean p lines → ListingOk p lines
  | [], _, _ => trivial
  | l :: ls, p, h =>
    ⟨fun n ast hn hp => ⟨codegen_clean_lits _ ast (h.1 n ast hn hp), h.1 n ast hn hp⟩,
     listingOk_of_listingClean ls _ h.2⟩

theorem listingClean_of_listingOk : ∀ (lines : List Line) (p : Program), ListingOk p lines → ListingClean p lines
  | [], _, _ => trivial
  | l :: ls, p, h => ⟨fun n ast hn hp => (h.1 n ast hn hp).2, listingClean_of_listingOk ls _ h.2⟩

/-- **the data segment of a compiled program**, for every listing of numbered lines each of which,
    compiled in its turn, either does not parse or compiles without a report -/
theorem compile_data_of_listingClean (lines : List Line) (hnum : Numbered lines) (h : ListingClean {} lines) :
    (Program.compile lines).link.data.toList = dataOf lines :=
  compile_data lines hnum (listingOk_of_listingClean lines {} h)

theorem codegenLines_errors_nil : ∀ (lines : List Line) (p : Program), Numbered lines →
    (p.codegenLines lines).errors = [] →
    p.errors = [] ∧ ListingClean p lines ∧ (∀ l ∈ lines, ∃ ast, Parse.parse l.number l.tokens = .ok ast)
  | [], p, _, h => ⟨h, trivial, fun _ hl => absurd hl List.not_mem_nil⟩
  | l :: ls, p, hnum, h => by
    obtain ⟨n, hn⟩ := hnum l List.mem_cons_self
    obtain ⟨⟨new, e1⟩, e2, -⟩ := codegenLine_errors p l n hn
    obtain ⟨i1, i2, i3⟩ := codegenLines_errors_nil ls (p.codegenLine l)
      (fun x hx => hnum x (List.mem_cons_of_mem _ hx)) h
    rw [e1] at i1
    have hp : p.errors = [] := (List.append_eq_nil_iff.1 i1).1
    have hnew : new = [] := (List.append_eq_nil_iff.1 i1).2
    obtain ⟨ast, ha, hc⟩ := e2 (by rw [e1, hnew, List.append_nil])
    refine ⟨hp, ⟨?_, i2⟩, ?_⟩
    · intro n' ast' hn' ha'
      rw [hn] at hn'
      cases hn'
      rw [ha] at ha'
      cases ha'
      exact hc
    · intro x hx
      rcases List.mem_cons.1 hx with rfl | hx
      · exact ⟨ast, ha⟩
      · exact i3 x hx

/-- a listing that compiles without errors: every line parses and compiles without a report -/
theorem listingClean_of_compile_clean (lines : List Line) (hnum : Numbered lines)
    (h : (Program.compile lines).indirectErrors = []) :
    ListingClean {} lines ∧ (∀ l ∈ lines, ∃ ast, Parse.parse l.number l.tokens = .ok ast) := by
  have hd : (({} : Program).codegenLines lines).directAddress = 0 := by
    have : ∀ (ls : List Line) (p : Program), Numbered ls → (p.codegenLines ls).directAddress = p.directAddress := by
      intro ls
      induction ls with
      | nil => intro p _; rfl
      | cons l ls ih =>
        intro p hn
        obtain ⟨n, hl⟩ := hn l List.mem_cons_self
        show ((p.codegenLine l).codegenLines ls).directAddress = _
        rw [ih _ (fun x hx => hn x (List.mem_cons_of_mem _ hx)), (codegenLine_errors p l n hl).2.2]
    exact this lines {} hnum
  have he := linkProg_indirect _ hd h
  exact (codegenLines_errors_nil lines {} hnum he).2

/-- **the data segment of a program that compiles without errors is `dataOf` of its listing** — no
    further hypothesis -/
theorem compile_data_of_clean (lines : List Line) (hnum : Numbered lines)
    (h : (Program.compile lines).indirectErrors = []) :
    (Program.compile lines).link.data.toList = dataOf lines :=
  compile_data_of_listingClean lines hnum (listingClean_of_compile_clean lines hnum h).1

end DataOrder
end Basic
