import BasicModel.Model.Codegen
import BasicModel.Lemmas.Link
/-
  Run lemmas for the generator monad `GM = ExceptT Error (StateM GState)` and the `l*` primitives.
-/
namespace Basic
namespace Codegen
open Link

theorem grun_pure {α} (a : α) (g : GState) : ((pure a : GM α).run).run g = (.ok a, g) := rfl

theorem grun_bind {α β} (m : GM α) (f : α → GM β) (g : GState) :
    ((m >>= f).run).run g =
      match (m.run).run g with
      | (.ok a, g1) => ((f a).run).run g1
      | (.error e, g1) => (.error e, g1) := by
  simp only [bind, ExceptT.bind, ExceptT.mk, ExceptT.run, StateT.bind, StateT.run, ExceptT.bindCont]
  cases h : m g with
  | mk r g1 => cases r <;> rfl

theorem grun_get (g : GState) : ((get : GM GState).run).run g = (.ok g, g) := rfl
theorem grun_set (g1 g : GState) : ((set g1 : GM PUnit).run).run g = (.ok ⟨⟩, g1) := rfl
theorem grun_modify (f : GState → GState) (g : GState) : ((modify f : GM PUnit).run).run g = (.ok ⟨⟩, f g) := rfl
theorem grun_throw {α} (e : Error) (g : GState) : ((throw e : GM α).run).run g = (.error e, g) := rfl
theorem grun_liftE {α} (r : Except Error α) (g : GState) : ((liftE r : GM α).run).run g = (r, g) := by
  cases r <;> rfl
theorem grun_ite {α} (c : Prop) [Decidable c] (m1 m2 : GM α) (g : GState) :
    ((if c then m1 else m2).run).run g = if c then (m1.run).run g else (m2.run).run g := by
  split <;> rfl

theorem grun_lpush (op : Opcode) (g : GState) :
    ((lpush op).run).run g =
      (if g.cur.ops.size + 1 > Gen.stackMaxLen then .error opsOverflow else .ok (),
       { g with cur := { g.cur with ops := g.cur.ops.push op } }) := by
  unfold lpush
  simp only [grun_bind, grun_get, Link.push, grun_set, grun_liftE, Array.size_push]

theorem grun_lpush_ok (op : Opcode) (g : GState) (h : g.cur.ops.size + 1 ≤ Gen.stackMaxLen) :
    ((lpush op).run).run g = (.ok (), { g with cur := { g.cur with ops := g.cur.ops.push op } }) := by
  rw [grun_lpush, if_neg (by omega)]

theorem grun_lappend (f : Link) (g : GState) :
    ((lappend f).run).run g = ((g.cur.append f).2, { g with cur := (g.cur.append f).1 }) := by
  unfold lappend
  simp only [grun_bind, grun_get, grun_set, grun_liftE]

theorem grun_lappend_ok (f : Link) (g : GState) (hd : g.cur.directSet = false)
    (ho : g.cur.ops.size + f.ops.size ≤ Gen.stackMaxLen) (hdd : g.cur.data.size + f.data.size ≤ Gen.stackMaxLen) :
    ((lappend f).run).run g = (.ok (), { g with cur := appended g.cur f }) := by
  rw [grun_lappend]
  rcases append_cases g.cur f with ⟨h, _, _⟩ | ⟨h, _⟩ | ⟨_, h, _⟩ | ⟨_, _, e⟩
  · rw [hd] at h; cases h
  · omega
  · omega
  · rw [e]

theorem grun_lnextSymbol (g : GState) :
    (lnextSymbol.run).run g =
      (.ok (g.cur.currentSymbol - 1), { g with cur := { g.cur with currentSymbol := g.cur.currentSymbol - 1 } }) := by
  unfold lnextSymbol
  simp only [grun_bind, grun_get, Link.nextSymbol, grun_set, grun_pure]

theorem grun_lpushSymbol (sym : Symbol) (g : GState) :
    ((lpushSymbol sym).run).run g = (.ok ⟨⟩, { g with cur := g.cur.pushSymbol sym }) := rfl

theorem grun_laddUnlinked (c : Col) (sym : Symbol) (g : GState) :
    ((laddUnlinked c sym).run).run g = (.ok ⟨⟩, { g with cur := g.cur.addUnlinked c sym }) := rfl

theorem grun_lenVal (n : Nat) (g : GState) (h : n ≤ 32767) :
    ((lenVal n).run).run g = (.ok (.int (Int16.ofNat n)), g) := by
  unfold lenVal
  rw [grun_liftE]
  simp [Val.ofUsize, h]

/-- pushing a list of ops one by one -/
theorem grun_forIn_lpush {α} (l : List α) (mk : α → Opcode) (g : GState)
    (h : g.cur.ops.size + l.length ≤ Gen.stackMaxLen) :
    ((forIn l PUnit.unit (fun a (_ : PUnit) => (do lpush (mk a); pure (ForInStep.yield PUnit.unit) : GM (ForInStep PUnit)))).run).run g =
      (.ok ⟨⟩, { g with cur := { g.cur with ops := g.cur.ops ++ (l.map mk).toArray } }) := by
  induction l generalizing g with
  | nil =>
    simp only [List.forIn_nil, grun_pure, List.map_nil]
    have : g.cur.ops ++ ([] : List Opcode).toArray = g.cur.ops := by simp
    rw [this]
  | cons hd tl ih =>
    rw [List.forIn_cons]
    simp only [List.length_cons] at h
    simp only [grun_bind, grun_lpush_ok (mk hd) g (by omega), grun_pure]
    have e : (g.cur.ops.push (mk hd)) ++ (tl.map mk).toArray = g.cur.ops ++ ((hd :: tl).map mk).toArray := by
      apply Array.ext'; simp
    rw [ih]
    · dsimp only
      rw [e]
    · simp only [Array.size_push]; omega

/-! ### compact form: the state is `withCur g l` with `l` built from `Link` operations -/

def withCur (g : GState) (l : Link) : GState := { g with cur := l }
@[simp] theorem withCur_cur (g : GState) (l : Link) : (withCur g l).cur = l := rfl
@[simp] theorem withCur_withCur (g : GState) (l l' : Link) : withCur (withCur g l) l' = withCur g l' := rfl
@[simp] theorem withCur_expr (g : GState) (l : Link) : (withCur g l).expr = g.expr := rfl
@[simp] theorem withCur_var (g : GState) (l : Link) : (withCur g l).var = g.var := rfl
@[simp] theorem withCur_stmt (g : GState) (l : Link) : (withCur g l).stmt = g.stmt := rfl

theorem lpush_run (op : Opcode) (g : GState) (h : g.cur.ops.size + 1 ≤ Gen.stackMaxLen) :
    ((lpush op).run).run g = (.ok (), withCur g (g.cur.push op).1) := by
  rw [grun_lpush_ok op g h]; rfl
theorem lnextSymbol_run (g : GState) :
    (lnextSymbol.run).run g = (.ok (g.cur.currentSymbol - 1), withCur g g.cur.nextSymbol.1) := by
  rw [grun_lnextSymbol]; rfl
theorem lpushSymbol_run (sym : Symbol) (g : GState) :
    ((lpushSymbol sym).run).run g = (.ok ⟨⟩, withCur g (g.cur.pushSymbol sym)) := rfl
theorem laddUnlinked_run (c : Col) (sym : Symbol) (g : GState) :
    ((laddUnlinked c sym).run).run g = (.ok ⟨⟩, withCur g (g.cur.addUnlinked c sym)) := rfl
theorem lappend_run (f : Link) (g : GState) (hd : g.cur.directSet = false)
    (ho : g.cur.ops.size + f.ops.size ≤ Gen.stackMaxLen) (hdd : g.cur.data.size + f.data.size ≤ Gen.stackMaxLen) :
    ((lappend f).run).run g = (.ok (), withCur g (appended g.cur f)) := by
  rw [grun_lappend_ok f g hd ho hdd]; rfl
theorem forIn_lpush_run {α} (l : List α) (mk : α → Opcode) (g : GState)
    (h : g.cur.ops.size + l.length ≤ Gen.stackMaxLen) :
    ((forIn l PUnit.unit (fun a (_ : PUnit) => (do lpush (mk a); pure (ForInStep.yield PUnit.unit) : GM (ForInStep PUnit)))).run).run g =
      (.ok ⟨⟩, withCur g (g.cur.pushOps (l.map mk).toArray)) := by
  rw [grun_forIn_lpush l mk g h]; rfl

end Codegen
end Basic
