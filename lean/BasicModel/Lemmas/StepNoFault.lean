import BasicModel.Lemmas.NoFaultOps
import BasicModel.Lemmas.Step
/-
  One instruction of the VM never *faults* (returns the error code that stands for a Rust panic):
  from ANY state, whatever its operands and whatever is on the stack (`execOp_nfm`).
  (Since fixes D21 and D22 `Model/Var.lean` contains no fault: `Var.tyOf` looks the DEFtype table
  up with a checked index, `Var.defTy` refuses a range whose ends are not letters.)

  `NFM m`: no run of `m`, from any state, ends in a fault.
-/
namespace Basic
namespace Runtime
variable {α β : Type}

/-! ### `NFM`: never a fault, from any state -/

structure NFM (m : RM α) : Prop where
  out : ∀ s e, (m.run.run s).1 = .error e → e.isFault = false

theorem NFM.ret (a : α) : NFM (pure a : RM α) := ⟨fun _ _ h => nomatch h⟩
theorem NFM.thr (e : Error) (h : e.isFault = false) : NFM (throw e : RM α) :=
  ⟨fun _ e' h' => by cases h'; exact h⟩
theorem NFM.rd : NFM (get : RM Runtime) := ⟨fun _ _ h => nomatch h⟩
theorem NFM.wr (t : Runtime) : NFM (set t : RM Unit) := ⟨fun _ _ h => nomatch h⟩
theorem NFM.mod (f : Runtime → Runtime) : NFM (modify f : RM Unit) := ⟨fun _ _ h => nomatch h⟩
theorem NFM.lift {r : Except Error α} (h : NFE r) : NFM (liftE r : RM α) := by
  constructor; intro s e he; rw [run_liftE] at he; exact h.out e he

theorem NFM.seq {m : RM α} {f : α → RM β} (hm : NFM m) (hf : ∀ a, NFM (f a)) : NFM (m >>= f) := by
  constructor
  intro s e he
  rw [run_bind] at he
  rcases h : m.run.run s with ⟨r, s'⟩
  rw [h] at he
  cases r with
  | ok a => exact (hf a).out s' e he
  | error e' =>
    cases he
    exact hm.out s e (by rw [h])

theorem NFM.forLoop {γ : Type} (l : List γ) (init : β) (f : γ → β → RM (ForInStep β))
    (hf : ∀ a b, NFM (f a b)) : NFM (forIn l init f) := by
  induction l generalizing init with
  | nil => exact NFM.ret _
  | cons a as ih =>
    rw [List.forIn_cons]
    refine NFM.seq (hf a init) ?_
    intro r
    cases r with
    | done b => exact NFM.ret _
    | yield b => exact ih b

/-- side conditions `NFE r` of `liftE r`; extended by `macro_rules` -/
syntax "nfe_side" : tactic
macro_rules | `(tactic| nfe_side) => `(tactic| assumption)
macro_rules | `(tactic| nfe_side) => `(tactic| apply_assumption)
macro_rules | `(tactic| nfe_side) => `(tactic| nfe_known)

/-- the lemmas proved so far; extended by `macro_rules` -/
syntax "nfm_known" : tactic
macro_rules | `(tactic| nfm_known) => `(tactic| assumption)

macro "nfm_step" : tactic =>
  `(tactic| first
    | with_reducible exact NFM.ret _
    | ((with_reducible refine NFM.thr _ ?_); first | rfl | decide)
    | ((with_reducible refine NFM.lift ?_); nfe_side)
    | with_reducible exact NFM.rd
    | with_reducible exact NFM.wr _
    | with_reducible exact NFM.mod _
    | nfm_known
    | ((with_reducible apply NFM.forLoop); intro _ _)
    | with_reducible apply NFM.seq
    | intro _
    | split)

macro "nfm" : tactic => `(tactic| (try dsimp only
                                   repeat' nfm_step))

theorem nfm_push (v : Val) : NFM (push v) := by
  constructor; intro s e he; rw [run_push] at he
  split at he
  · cases he; rfl
  · cases he
macro_rules | `(tactic| nfm_known) => `(tactic| with_reducible exact nfm_push _)

theorem nfm_pop : NFM pop := by
  constructor; intro s e he; rw [run_pop] at he
  split at he
  · cases he
  · cases he; rfl
macro_rules | `(tactic| nfm_known) => `(tactic| with_reducible exact nfm_pop)

theorem nfm_pop2 : NFM pop2 := by unfold pop2; nfm
macro_rules | `(tactic| nfm_known) => `(tactic| with_reducible exact nfm_pop2)
theorem nfm_popN (n : Nat) : NFM (popN n) := by unfold popN; nfm
macro_rules | `(tactic| nfm_known) => `(tactic| with_reducible exact nfm_popN _)
theorem nfm_popVec : NFM popVec := by unfold popVec; nfm
macro_rules | `(tactic| nfm_known) => `(tactic| with_reducible exact nfm_popVec)

theorem nfm_pop1Push (f : Val → Res Val) (hf : ∀ v, NFE (f v)) : NFM (pop1Push f) := by
  unfold pop1Push; nfm
theorem nfm_pop2Push (f : Val → Val → Res Val) (hf : ∀ a b, NFE (f a b)) : NFM (pop2Push f) := by
  unfold pop2Push; nfm

theorem nfm_doDef (name : Str) : NFM (doDef name) := by unfold doDef; nfm
theorem nfm_doFn (name : Str) : NFM (doFn name) := by unfold doFn; nfm
theorem nfm_doLetMid : NFM doLetMid := by unfold doLetMid; nfm
theorem nfm_doOn : NFM doOn := by unfold doOn; nfm
theorem nfm_doSwap : NFM doSwap := by unfold doSwap; nfm
theorem nfm_doCont : NFM doCont := by unfold doCont; nfm
theorem nfm_doInput (n : Str) : NFM (doInput n) := by unfold doInput; nfm
theorem nfm_doList : NFM doList := by unfold doList; nfm
theorem nfm_doPrint : NFM doPrint := by unfold doPrint; nfm
theorem nfm_fileOp (mk : Str → Event) (b : Bool) : NFM (fileOp mk b) := by unfold fileOp; nfm
theorem nfm_doDelete : NFM doDelete := by unfold doDelete; nfm

theorem nfe_readData (l : Link) : NFE l.readData.2 := by
  unfold Link.readData
  split
  · exact NFE.ok _
  · exact NFE.error _ rfl

theorem nfm_doRead : NFM doRead := by
  unfold doRead
  refine NFM.seq NFM.rd (fun s => ?_)
  have := nfe_readData s.program.link
  generalize s.program.link.readData = x at this
  obtain ⟨l, r⟩ := x
  nfm

theorem nfm_doReturn_loop : ∀ fuel rv first, NFM (doReturn.loop fuel rv first) := by
  intro fuel
  induction fuel with
  | zero => intro rv first; unfold doReturn.loop; nfm
  | succ k ih =>
    intro rv first
    unfold doReturn.loop; nfm
    all_goals exact ih _ _

theorem nfm_doReturn : NFM doReturn := by
  have := nfm_doReturn_loop
  unfold doReturn
  exact NFM.seq NFM.rd (fun s => this _ _ _)

theorem nfe_renumGo (a b c : Nat) : ∀ (l : List Nat) (x y : Nat), NFE (Listing.renumGo a b c l x y) := by
  intro l
  induction l with
  | nil => intro x y; unfold Listing.renumGo; exact NFE.ok _
  | cons ln r ih =>
    intro x y
    unfold Listing.renumGo
    nfe
    all_goals exact ih _ _

theorem nfe_renumPlan (keys : List Nat) (a b c : Nat) : NFE (Listing.renumPlan keys a b c) := by
  unfold Listing.renumPlan
  split
  · exact NFE.err _ (by decide)
  · exact nfe_renumGo _ _ _ _ _ _

theorem nfe_renum (f : List (Nat × Nat) → Line → Line) (l : Listing) (a b c : Nat) :
    NFE (l.renum f a b c) := by
  have := nfe_renumPlan (l.source.map (·.1)) a b c
  unfold Listing.renum; nfe

theorem nfm_doRenum (env : Env) : NFM (doRenum env) := by
  have := fun l a b c => nfe_renum env.lineRenum l a b c
  unfold doRenum; nfm

/-! ### NEXT -/

theorem nfe_less_ite (c : Prop) [Decidable c] (a b : Val) :
    NFE (if c then Ops.less a b else Ops.less b a) := by
  split
  · exact Ops.nfe_less _ _
  · exact Ops.nfe_less _ _

macro_rules | `(tactic| nfe_side) => `(tactic| exact Var.nfe_store _ _ _)
macro_rules | `(tactic| nfe_side) => `(tactic| exact Var.nfe_fetch _ _)
macro_rules | `(tactic| nfe_side) => `(tactic| exact Ops.nfe_sum _ _)
macro_rules | `(tactic| nfe_side) => `(tactic| exact nfe_less_ite _ _ _)

/-- `NEXT` never faults, whatever is on the stack (the variable named by the string under the
    `Next` entry is fetched and stored through the checked `tyOf`) -/
theorem nfm_doNext_loop (name : Str) : ∀ fuel, NFM (doNext.loop name fuel) := by
  intro fuel
  induction fuel with
  | zero => unfold doNext.loop; nfm
  | succ k ih =>
    unfold doNext.loop; nfm
    all_goals exact ih

theorem nfm_doNext (name : Str) : NFM (doNext name) := by
  have := nfm_doNext_loop name
  unfold doNext
  exact NFM.seq NFM.rd (fun s => this _)

/-! ### DEFINT / DEFSNG / DEFDBL / DEFSTR -/

theorem nfm_doDefType (f : Var → Val → Val → Res Var) (hf : ∀ v a b, NFE (f v a b)) : NFM (doDefType f) := by
  unfold doDefType; nfm

/-! ### every instruction -/

theorem nfe_of_storeArray {vs vs' : Var} {name : Str} {arr : List Val} {x : Val} {r : Res Unit}
    (heq : vs.storeArray name arr x = (vs', r)) : NFE r := by
  have := Var.nfe_storeArray vs name arr x
  rw [heq] at this; exact this

theorem nfe_of_fetchArray {vs vs' : Var} {name : Str} {arr : List Val} {r : Res Val}
    (heq : vs.fetchArray name arr = (vs', r)) : NFE r := by
  have := Var.nfe_fetchArray vs name arr
  rw [heq] at this; exact this

macro_rules | `(tactic| nfe_side) => `(tactic| exact nfe_of_storeArray (by assumption))
macro_rules | `(tactic| nfe_side) => `(tactic| exact nfe_of_fetchArray (by assumption))
macro_rules | `(tactic| nfe_side) => `(tactic| exact Var.nfe_storeArray _ _ _ _)
macro_rules | `(tactic| nfe_side) => `(tactic| exact Var.nfe_fetchArray _ _ _)
macro_rules | `(tactic| nfe_side) => `(tactic| exact Var.nfe_dimensionArray _ _ _)
macro_rules | `(tactic| nfe_side) => `(tactic| exact Var.nfe_eraseArray _ _)
macro_rules | `(tactic| nfe_side) => `(tactic| exact Func.nfe_instr _)
macro_rules | `(tactic| nfe_side) => `(tactic| exact Func.nfe_mid _)
macro_rules | `(tactic| nfe_side) => `(tactic| exact Func.nfe_pos _)
macro_rules | `(tactic| nfe_side) => `(tactic| exact Func.nfe_rnd _ _)
macro_rules | `(tactic| nfe_side) => `(tactic| exact Func.nfe_tab _ _)

/-- all operators and built-in functions of one argument -/
macro "nfe_fn1" : tactic => `(tactic| (intro _; first | exact Ops.nfe_negate _ | exact Ops.nfe_not _ | exact Func.nfe_abs _ | exact Func.nfe_asc _ | exact Func.nfe_atn _ | exact Func.nfe_cos _ | exact Func.nfe_exp _ | exact Func.nfe_log _ | exact Func.nfe_sin _ | exact Func.nfe_sqr _ | exact Func.nfe_tan _ | exact Func.nfe_cdbl _ | exact Func.nfe_csng _ | exact Func.nfe_chr _ | exact Func.nfe_cint _ | exact Func.nfe_fix _ | exact Func.nfe_int _ | exact Func.nfe_hex _ | exact Func.nfe_oct _ | exact Func.nfe_len _ | exact Func.nfe_sgn _ | exact Func.nfe_spc _ | exact Func.nfe_str _ | exact Func.nfe_val _))
/-- … of two arguments -/
macro "nfe_fn2" : tactic => `(tactic| (intro _ _; first | exact Ops.nfe_power _ _ | exact Ops.nfe_multiply _ _ | exact Ops.nfe_divide _ _ | exact Ops.nfe_subtract _ _ | exact Ops.nfe_sum _ _ | exact Ops.nfe_divint _ _ | exact Ops.nfe_remainder _ _ | exact Ops.nfe_equal _ _ | exact Ops.nfe_notEqual _ _ | exact Ops.nfe_less _ _ | exact Ops.nfe_greater _ _ | exact Ops.nfe_lessEqual _ _ | exact Ops.nfe_greaterEqual _ _ | exact Ops.nfe_and _ _ | exact Ops.nfe_or _ _ | exact Ops.nfe_xor _ _ | exact Ops.nfe_imp _ _ | exact Ops.nfe_eqv _ _ | exact Func.nfe_left _ _ | exact Func.nfe_right _ _ | exact Func.nfe_string _ _))

macro_rules | `(tactic| nfm_known) => `(tactic| ((with_reducible refine nfm_pop1Push _ ?_); nfe_fn1))
macro_rules | `(tactic| nfm_known) => `(tactic| ((with_reducible refine nfm_pop2Push _ ?_); nfe_fn2))
macro_rules | `(tactic| nfm_known) => `(tactic| with_reducible exact nfm_doDef _)
macro_rules | `(tactic| nfm_known) => `(tactic| with_reducible exact nfm_doFn _)
macro_rules | `(tactic| nfm_known) => `(tactic| with_reducible exact nfm_doLetMid)
macro_rules | `(tactic| nfm_known) => `(tactic| with_reducible exact nfm_doOn)
macro_rules | `(tactic| nfm_known) => `(tactic| with_reducible exact nfm_doSwap)
macro_rules | `(tactic| nfm_known) => `(tactic| with_reducible exact nfm_doCont)
macro_rules | `(tactic| nfm_known) => `(tactic| with_reducible exact nfm_doInput _)
macro_rules | `(tactic| nfm_known) => `(tactic| with_reducible exact nfm_doList)
macro_rules | `(tactic| nfm_known) => `(tactic| with_reducible exact nfm_doPrint)
macro_rules | `(tactic| nfm_known) => `(tactic| with_reducible exact nfm_fileOp _ _)
macro_rules | `(tactic| nfm_known) => `(tactic| with_reducible exact nfm_doDelete)
macro_rules | `(tactic| nfm_known) => `(tactic| with_reducible exact nfm_doRead)
macro_rules | `(tactic| nfm_known) => `(tactic| with_reducible exact nfm_doReturn)
macro_rules | `(tactic| nfm_known) => `(tactic| with_reducible exact nfm_doRenum _)
macro_rules | `(tactic| nfm_known) => `(tactic| with_reducible exact nfm_doNext _)
macro_rules | `(tactic| nfm_known) => `(tactic| ((with_reducible refine nfm_doDefType _ ?_); intro v a b; exact Var.nfe_defTy v _ a b))

set_option maxHeartbeats 1000000 in
/-- **no instruction ever faults**: from any state, with any operands, whatever is on the stack -/
theorem execOp_nfm (env : Env) (h : Bool) (op : Opcode) : NFM (execOp env h op) := by
  cases op <;> (simp only [execOp]; nfm)

theorem execOp_no_fault (env : Env) (h : Bool) (op : Opcode) (s : Runtime) (e : Error)
    (he : ((execOp env h op).run.run s).1 = .error e) : e.isFault = false :=
  (execOp_nfm env h op).out s e he

end Runtime
end Basic
