import BasicModel.Thm.C05
import BasicModel.Model.Parse
/-
  Literal typing (C02): the manual's rule for the type of a constant, written by hand over the
  SPELLING of the constant (`Spec.literalTy`), and the proof that `Lex.number` classifies every
  well-formed numeral (`Lex.Numeral`, the characterisation of `Thm/C05.numeral_roundtrip`) the way
  the rule says — except for ONE class of spellings where the code and the manual's first bullet
  disagree (an `E` exponent after more than 7 mantissa digits: `12345678E5` is a Double), which is
  stated as a theorem of its own (`numeral_kind_long_E`, a finding).

  `chapter_1.rs`:
     * If the number contains an exponent with the letter E, it is a Single.
     * If the number contains an exponent with the letter D, it is a Double.
     * If the number contains a decimal, it is a Single unless more than 7 digits.
     * If the number has more than 7 digits, it is a Double.
     * If the number fits into an Integer (-32767 to 32767), it is an Integer.
     * Anything that doesn't match the above is a Single.
  read top to bottom, the first bullet that applies decides (bullets 5 and 6 cannot be read any other
  way); a type suffix `! # %` decides before all of them ("If you don't decorate a literal …").
-/
set_option linter.unusedSimpArgs false
namespace Basic
namespace Spec

/-- the digits of the mantissa: decimal digits before an exponent letter -/
def mantissaDigits : Str → Nat
  | [] => 0
  | c :: cs => if c = 'E' ∨ c = 'D' then 0 else (if c.isDigit then 1 else 0) + mantissaDigits cs

/-- the number a string of decimal digits denotes -/
def decimalValue (s : Str) : Nat := s.foldl (fun acc c => 10 * acc + (c.toNat - '0'.toNat)) 0

/-- **the manual's typing rule for constants**, over the spelling (upper-case exponent letter, as
    listed): a string constant, a radix constant `&…` / `&H…` (Integer), a suffixed constant, and
    the six bullets of chapter 1 in their order -/
def literalTy (s : Str) : Option Ty :=
  match s with
  | [] => none
  | '"' :: _ => some .str
  | '&' :: _ => some .int
  | _ =>
    if s.getLast? = some '!' then some .sng
    else if s.getLast? = some '#' then some .dbl
    else if s.getLast? = some '%' then some .int
    else if 'E' ∈ s then some .sng
    else if 'D' ∈ s then some .dbl
    else if '.' ∈ s then (if mantissaDigits s > 7 then some .dbl else some .sng)
    else if mantissaDigits s > 7 then some .dbl
    else if decimalValue s ≤ 32767 then some .int
    else some .sng

/-- the rule AS BUILT (`lex.rs` `number()`): the same tests, but "more than 7 digits" is asked
    before "has an exponent with the letter E" -/
def literalTyAsBuilt (s : Str) : Option Ty :=
  match s with
  | [] => none
  | '"' :: _ => some .str
  | '&' :: _ => some .int
  | _ =>
    if s.getLast? = some '!' then some .sng
    else if s.getLast? = some '#' then some .dbl
    else if s.getLast? = some '%' then some .int
    else if mantissaDigits s > 7 then some .dbl
    else if 'E' ∈ s then some .sng
    else if 'D' ∈ s then some .dbl
    else if '.' ∈ s then some .sng
    else if decimalValue s ≤ 32767 then some .int
    else some .sng

/-- the spellings on which the manual's first bullet and the code disagree: no type suffix, an
    exponent with the letter E, more than 7 digits before it — e.g. `12345678E5` -/
def LongE (s : Str) : Prop :=
  s.getLast? ≠ some '!' ∧ s.getLast? ≠ some '#' ∧ s.getLast? ≠ some '%' ∧ 'E' ∈ s ∧ 7 < mantissaDigits s

instance (s : Str) : Decidable (LongE s) := by unfold LongE; infer_instance

/-- the two rules agree on every spelling outside `LongE` … -/
theorem literalTyAsBuilt_eq (s : Str) (h : ¬ LongE s) : literalTyAsBuilt s = literalTy s := by
  unfold literalTyAsBuilt literalTy
  split <;> try rfl
  simp only [LongE] at h
  by_cases h1 : s.getLast? = some '!' <;> simp only [h1, if_true, if_false]
  by_cases h2 : s.getLast? = some '#' <;> simp only [h2, if_true, if_false]
  by_cases h3 : s.getLast? = some '%' <;> simp only [h3, if_true, if_false]
  by_cases hE : 'E' ∈ s <;> by_cases hD : 'D' ∈ s <;> by_cases hdot : '.' ∈ s <;>
    by_cases h7 : mantissaDigits s > 7 <;> simp_all

/-- … and on `LongE` (which starts with a digit or a point) the code says Double, the manual Single -/
theorem literalTy_longE (c : Char) (cs : Str) (hq : c ≠ '"') (ha : c ≠ '&') (h : LongE (c :: cs)) :
    literalTyAsBuilt (c :: cs) = some .dbl ∧ literalTy (c :: cs) = some .sng := by
  obtain ⟨h1, h2, h3, hE, h7⟩ := h
  unfold literalTyAsBuilt literalTy
  constructor
  · split
    · rename_i heq; cases heq
    · rename_i heq; exact absurd (List.cons.inj heq).1 hq
    · rename_i heq; exact absurd (List.cons.inj heq).1 ha
    · simp [h1, h2, h3, h7]
  · split
    · rename_i heq; cases heq
    · rename_i heq; exact absurd (List.cons.inj heq).1 hq
    · rename_i heq; exact absurd (List.cons.inj heq).1 ha
    · simp [h1, h2, h3, hE]

/-- the type a literal TOKEN announces -/
def tokenTy : Literal → Ty
  | .single _ => .sng | .double _ => .dbl | .integer _ => .int
  | .hex _ => .int | .octal _ => .int | .string _ => .str

/-- the type of a literal NODE of the syntax tree -/
def nodeTy : Expr → Option Ty
  | .single _ _ => some .sng | .double _ _ => some .dbl | .integer _ _ => some .int
  | .string _ _ => some .str
  | _ => none

end Spec

namespace Lex
open Spec

/-! ### the spelling of a well-formed numeral, character by character -/

theorem isDigit_not_special {c : Char} (h : isDigit c = true) :
    c ≠ 'E' ∧ c ≠ 'D' ∧ c ≠ '.' ∧ c ≠ '!' ∧ c ≠ '#' ∧ c ≠ '%' ∧ c ≠ '"' ∧ c ≠ '&' ∧ c ≠ '+' ∧ c ≠ '-' := by
  refine ⟨?_, ?_, ?_, ?_, ?_, ?_, ?_, ?_, ?_, ?_⟩ <;> exact ne_of_isDigit c _ h (by decide)

theorem mantissaDigits_digits (ds rest : Str) (hd : AllDigits ds) :
    mantissaDigits (ds ++ rest) = ds.length + mantissaDigits rest := by
  induction ds with
  | nil => simp
  | cons c cs ih =>
    have hc := hd c (by simp)
    obtain ⟨h1, h2, -⟩ := isDigit_not_special hc
    have hc' : c.isDigit = true := hc
    simp only [List.cons_append, mantissaDigits, h1, h2, or_self, if_false, hc', if_true,
      ih (fun x hx => hd x (by simp [hx])), List.length_cons]
    omega

theorem mantissaDigits_frac (frac : Option (List Char)) (rest : Str)
    (hf : ∀ f, frac = some f → AllDigits f) :
    mantissaDigits (fracText frac ++ rest) = fracCount frac + mantissaDigits rest := by
  cases frac with
  | none => simp [fracText, fracCount]
  | some f =>
    have h1 : ¬ ('.' = 'E' ∨ '.' = 'D') := by decide
    have h2 : ('.' : Char).isDigit = false := by decide
    simp only [fracText, fracCount, List.cons_append, mantissaDigits, h1, if_false, h2,
      mantissaDigits_digits f rest (hf f rfl)]
    simp

theorem mantissaDigits_expo (x : Exponent) (hx : x.WF) (rest : Str) :
    mantissaDigits (x.text ++ rest) = 0 := by
  obtain ⟨hl, -⟩ := hx
  simp only [Exponent.text, List.cons_append, mantissaDigits, hl, if_true]

theorem mantissaDigits_sfx (sfx : Option Char) (hs : ∀ c, sfx = some c → isNumSuffix c = true) :
    mantissaDigits sfx.toList = 0 := by
  cases sfx with
  | none => rfl
  | some c =>
    have := (isNumSuffix_iff c).1 (hs c rfl)
    rcases this with rfl | rfl | rfl <;> decide

/-- the digit counter of the rule, on a well-formed numeral: the digits of the integer and of the
    fraction part (leading zeros included) -/
theorem mantissaDigits_text (nm : Numeral) (h : nm.WF) :
    mantissaDigits nm.text = nm.int.length + fracCount nm.frac := by
  obtain ⟨h1, h2, -, h4, h5⟩ := h
  simp only [Numeral.text, Numeral.body, Numeral.mantissa, List.append_assoc]
  rw [mantissaDigits_digits _ _ h1, mantissaDigits_frac _ _ h2]
  cases hx : nm.expo with
  | none => simp [expoText, mantissaDigits_sfx nm.sfx h5]
  | some x => simp [expoText, mantissaDigits_expo x (h4 x hx)]

/-- membership of a character in the spelling, part by part -/
theorem mem_text (nm : Numeral) (k : Char) :
    k ∈ nm.text ↔ k ∈ nm.int ∨ k ∈ fracText nm.frac ∨ k ∈ expoText nm.expo ∨ k ∈ nm.sfx.toList := by
  simp [Numeral.text, Numeral.body, Numeral.mantissa, or_assoc]

theorem not_mem_digits {ds : Str} (hd : AllDigits ds) {k : Char} (hk : isDigit k = false) : k ∉ ds := by
  intro hm; rw [hd k hm] at hk; cases hk

theorem mem_fracText (frac : Option (List Char)) (hf : ∀ f, frac = some f → AllDigits f) (k : Char)
    (hk : isDigit k = false) : k ∈ fracText frac ↔ (k = '.' ∧ frac.isSome) := by
  cases frac with
  | none => simp [fracText]
  | some f => simp [fracText, not_mem_digits (hf f rfl) hk]

theorem mem_expoText_letter (expo : Option Exponent) (hx : ∀ x, expo = some x → x.WF) (k : Char)
    (hk : k = 'E' ∨ k = 'D') : k ∈ expoText expo ↔ ∃ x, expo = some x ∧ x.letter = k := by
  have hkd : isDigit k = false := by rcases hk with rfl | rfl <;> decide
  cases expo with
  | none => simp [expoText]
  | some x =>
    obtain ⟨-, hs, hd, -⟩ := hx x rfl
    have h1 : k ∉ x.digits := not_mem_digits hd hkd
    have h2 : k ∉ x.sign := by
      rcases hs with h | h | h <;> rw [h] <;> rcases hk with rfl | rfl <;> decide
    simp [expoText, Exponent.text, h1, h2, eq_comm]

theorem not_mem_expoText_dot (expo : Option Exponent) (hx : ∀ x, expo = some x → x.WF) :
    '.' ∉ expoText expo := by
  cases expo with
  | none => simp [expoText]
  | some x =>
    obtain ⟨hl, hs, hd, -⟩ := hx x rfl
    have h1 : '.' ∉ x.digits := not_mem_digits hd (by decide)
    have h2 : '.' ∉ x.sign := by rcases hs with h | h | h <;> rw [h] <;> decide
    have h3 : '.' ≠ x.letter := by rcases hl with h | h <;> rw [h] <;> decide
    simp [expoText, Exponent.text, h1, h2, h3]

theorem not_mem_sfx (sfx : Option Char) (hs : ∀ c, sfx = some c → isNumSuffix c = true) (k : Char)
    (hk : k = 'E' ∨ k = 'D' ∨ k = '.') : k ∉ sfx.toList := by
  cases sfx with
  | none => simp
  | some c =>
    have := (isNumSuffix_iff c).1 (hs c rfl)
    rcases this with rfl | rfl | rfl <;> rcases hk with rfl | rfl | rfl <;> decide

/-- `E` occurs in the spelling exactly as the exponent letter -/
theorem mem_text_E (nm : Numeral) (h : nm.WF) :
    'E' ∈ nm.text ↔ ∃ x, nm.expo = some x ∧ x.letter = 'E' := by
  obtain ⟨h1, h2, -, h4, h5⟩ := h
  rw [mem_text, mem_fracText _ h2 _ (by decide), mem_expoText_letter _ h4 _ (.inl rfl)]
  have a := not_mem_digits h1 (k := 'E') (by decide)
  have b := not_mem_sfx nm.sfx h5 'E' (.inl rfl)
  simp [a, b]

theorem mem_text_D (nm : Numeral) (h : nm.WF) :
    'D' ∈ nm.text ↔ ∃ x, nm.expo = some x ∧ x.letter = 'D' := by
  obtain ⟨h1, h2, -, h4, h5⟩ := h
  rw [mem_text, mem_fracText _ h2 _ (by decide), mem_expoText_letter _ h4 _ (.inr rfl)]
  have a := not_mem_digits h1 (k := 'D') (by decide)
  have b := not_mem_sfx nm.sfx h5 'D' (.inr (.inl rfl))
  simp [a, b]

/-- `.` occurs in the spelling exactly when there is a fraction part -/
theorem mem_text_dot (nm : Numeral) (h : nm.WF) : '.' ∈ nm.text ↔ nm.frac.isSome = true := by
  obtain ⟨h1, h2, -, h4, h5⟩ := h
  rw [mem_text, mem_fracText _ h2 _ (by decide)]
  have a := not_mem_digits h1 (k := '.') (by decide)
  have b := not_mem_sfx nm.sfx h5 '.' (.inr (.inr rfl))
  have c := not_mem_expoText_dot nm.expo h4
  simp [a, b, c]

/-! ### the last character -/

/-- no character of the body is a type suffix -/
theorem body_not_suffix (nm : Numeral) (h : nm.WF) : ∀ k ∈ nm.body, isNumSuffix k = false := by
  obtain ⟨h1, h2, -, h4, -⟩ := h
  have hdig : ∀ ds : Str, AllDigits ds → ∀ k ∈ ds, isNumSuffix k = false := by
    intro ds hd k hk
    obtain ⟨-, -, -, a, b, c, -⟩ := isDigit_not_special (hd k hk)
    simp [isNumSuffix, a, b, c]
  intro k hk
  simp only [Numeral.body, Numeral.mantissa, List.mem_append] at hk
  rcases hk with (hk | hk) | hk
  · exact hdig _ h1 k hk
  · cases hf : nm.frac with
    | none => rw [hf] at hk; simp [fracText] at hk
    | some f =>
      rw [hf] at hk
      simp only [fracText, List.mem_cons] at hk
      rcases hk with rfl | hk
      · decide
      · exact hdig _ (h2 f hf) k hk
  · cases hx : nm.expo with
    | none => rw [hx] at hk; simp [expoText] at hk
    | some x =>
      rw [hx] at hk
      obtain ⟨hl, hs, hd, -⟩ := h4 x hx
      simp only [expoText, Exponent.text, List.mem_cons, List.mem_append] at hk
      rcases hk with rfl | hk | hk
      · rcases hl with h | h <;> rw [h] <;> decide
      · rcases hs with h | h | h <;> rw [h] at hk <;> simp at hk <;> subst hk <;> decide
      · exact hdig _ hd k hk

theorem body_ne_nil (nm : Numeral) (h : nm.WF) : nm.body ≠ [] := by
  obtain ⟨-, -, h3, -, -⟩ := h
  cases hf : nm.frac with
  | none => simp [Numeral.body, Numeral.mantissa, h3 hf]
  | some f => simp [Numeral.body, Numeral.mantissa, fracText, hf]

/-- the last character of the spelling is the suffix, or — without one — not a suffix character -/
theorem text_getLast (nm : Numeral) (h : nm.WF) :
    (∀ c, nm.sfx = some c → nm.text.getLast? = some c) ∧
    (nm.sfx = none → ∃ k, nm.text.getLast? = some k ∧ isNumSuffix k = false) := by
  constructor
  · intro c hc
    simp [Numeral.text, hc, List.getLast?_concat]
  · intro hn
    have hne := body_ne_nil nm h
    have hb := body_not_suffix nm h
    simp only [Numeral.text, hn, Option.toList_none, List.append_nil]
    cases hl : nm.body.getLast? with
    | none => exact absurd (List.getLast?_eq_none_iff.1 hl) hne
    | some k => exact ⟨k, rfl, hb k (List.mem_of_getLast? hl)⟩

/-! ### Integer constants -/

theorem decimalValue_eq (s : Str) : decimalValue s = Nat.ofDigitChars 10 s 0 := rfl

theorem ofDigitChars_ge (l : Str) (acc : Nat) : acc * 10 ^ l.length ≤ Nat.ofDigitChars 10 l acc := by
  induction l generalizing acc with
  | nil => simp [Nat.ofDigitChars]
  | cons c cs ih =>
    rw [Nat.ofDigitChars_cons, List.length_cons, Nat.pow_succ]
    have := ih (10 * acc + (c.toNat - '0'.toNat))
    have h2 : acc * (10 ^ cs.length * 10) ≤ (10 * acc + (c.toNat - '0'.toNat)) * 10 ^ cs.length := by
      rw [Nat.add_mul]
      have : acc * (10 ^ cs.length * 10) = 10 * acc * 10 ^ cs.length := by
        rw [Nat.mul_comm (10 ^ cs.length) 10, ← Nat.mul_assoc, Nat.mul_comm acc 10]
      omega
    omega

/-- a digit string of more than 6 digits without a leading zero denotes at least 1 000 000 -/
theorem ofDigitChars_big (l : Str) (hd : AllDigits l) (h0 : ∀ c ∈ l.head?, c ≠ '0') (hlen : 6 < l.length) :
    1000000 ≤ Nat.ofDigitChars 10 l 0 := by
  cases l with
  | nil => simp at hlen
  | cons c cs =>
    have hc := (isDigit_iff c).1 (hd c (by simp))
    have hc0 : c ≠ '0' := h0 c (by simp)
    have hpos : 1 ≤ c.toNat - '0'.toNat := by
      have : c.toNat ≠ 48 := fun e => hc0 ((char_eq_iff _ _).2 e)
      have : ('0' : Char).toNat = 48 := rfl
      omega
    rw [Nat.ofDigitChars_cons]
    have h1 := ofDigitChars_ge cs (10 * 0 + (c.toNat - '0'.toNat))
    have h2 : 10 ^ 6 ≤ 10 ^ cs.length := Nat.pow_le_pow_right (by decide) (by simp at hlen; omega)
    have h3 : 1 * 10 ^ cs.length ≤ (10 * 0 + (c.toNat - '0'.toNat)) * 10 ^ cs.length :=
      Nat.mul_le_mul_right _ (by omega)
    omega

theorem dropWhile_zero_head (l : Str) : ∀ c ∈ (l.dropWhile (· = '0')).head?, c ≠ '0' := by
  induction l with
  | nil => simp
  | cons a l ih =>
    by_cases h : a = '0'
    · simpa [List.dropWhile_cons, h] using ih
    · intro c hc
      simp [List.dropWhile_cons, h] at hc
      subst hc; exact h

/-- **`str::parse::<i16>` on a digit string** is its value when that is at most 32767 -/
theorem parseI16_digits (l : Str) (hne : l ≠ []) (hd : AllDigits l) :
    Fmt.parseI16 l = if decimalValue l ≤ 32767 then some (Int16.ofNat (decimalValue l)) else none := by
  cases l with
  | nil => contradiction
  | cons c cs =>
    obtain ⟨-, -, -, -, -, -, -, -, hplus, hminus⟩ := isDigit_not_special (hd c (by simp))
    have hall : (c :: cs).all Fmt.isDigit = true := by
      rw [List.all_eq_true]; intro x hx; rw [fmt_isDigit_eq]; exact hd x hx
    have hsub : AllDigits ((c :: cs).dropWhile (· = '0')) :=
      fun x hx => hd x ((List.dropWhile_sublist _).subset hx)
    unfold Fmt.parseI16
    split
    rename_i neg r heq
    have hnr : neg = false ∧ r = c :: cs := by
      split at heq
      · rename_i r' heq'; exact absurd (List.cons.inj heq').1 hminus
      · rename_i r' heq'; exact absurd (List.cons.inj heq').1 hplus
      · cases heq; exact ⟨rfl, rfl⟩
    obtain ⟨rfl, rfl⟩ := hnr
    simp only [hall, digitsToNat_eq, ofDigitChars_dropZeros, decimalValue_eq]
    by_cases h6 : ((c :: cs).dropWhile (· = '0')).length > 6
    · have hbig := ofDigitChars_big _ hsub (dropWhile_zero_head _) h6
      rw [ofDigitChars_dropZeros] at hbig
      have : ¬ Nat.ofDigitChars 10 (c :: cs) 0 ≤ 32767 := by omega
      simp [h6, this]
    · by_cases hv : Nat.ofDigitChars 10 (c :: cs) 0 ≤ 32767
      · have : RStd.inI16 (Nat.ofDigitChars 10 (c :: cs) 0 : Int) = true := by
          simp only [RStd.inI16, Bool.and_eq_true, decide_eq_true_eq]; omega
        simp [h6, hv, this]
        rfl
      · have : RStd.inI16 (Nat.ofDigitChars 10 (c :: cs) 0 : Int) = false := by
          simp only [RStd.inI16, Bool.and_eq_false_iff, decide_eq_false_iff_not]; omega
        simp [h6, hv, this]

/-! ### the token of a numeral has the type the rule says -/

theorem literalTyAsBuilt_numeric (c : Char) (cs : Str) (hq : c ≠ '"') (ha : c ≠ '&') :
    literalTyAsBuilt (c :: cs) =
      if (c :: cs).getLast? = some '!' then some .sng
      else if (c :: cs).getLast? = some '#' then some .dbl
      else if (c :: cs).getLast? = some '%' then some .int
      else if mantissaDigits (c :: cs) > 7 then some .dbl
      else if 'E' ∈ (c :: cs) then some .sng
      else if 'D' ∈ (c :: cs) then some .dbl
      else if '.' ∈ (c :: cs) then some .sng
      else if decimalValue (c :: cs) ≤ 32767 then some .int
      else some .sng := by
  unfold literalTyAsBuilt
  split
  · rename_i heq; cases heq
  · rename_i heq; exact absurd (List.cons.inj heq).1 hq
  · rename_i heq; exact absurd (List.cons.inj heq).1 ha
  · rfl

/-- the first character of a numeral is a digit or the point: not a quote, not `&` -/
theorem text_head_plain (nm : Numeral) (h : nm.WF) :
    ∃ c cs, nm.text = c :: cs ∧ c ≠ '"' ∧ c ≠ '&' := by
  obtain ⟨c, cs, e, hc⟩ := nm.text_head h
  refine ⟨c, cs, e, ?_, ?_⟩
  · rintro rfl; revert hc; decide
  · rintro rfl; revert hc; decide

/-- **the kind of the token is the type of the rule as built**, for every well-formed numeral; the
    token carries the spelling unchanged -/
theorem numeral_kind_asBuilt (nm : Numeral) (h : nm.WF) :
    ∃ l, nm.token = .literal l ∧ l.text = nm.text ∧ literalTyAsBuilt nm.text = some (tokenTy l) := by
  obtain ⟨c0, cs0, e0, hq, ha⟩ := text_head_plain nm h
  have hlast := text_getLast nm h
  have hmd := mantissaDigits_text nm h
  have hE := mem_text_E nm h
  have hD := mem_text_D nm h
  have hdot := mem_text_dot nm h
  rw [e0, literalTyAsBuilt_numeric c0 cs0 hq ha, ← e0]
  cases hs : nm.sfx with
  | some c =>
    have hl := hlast.1 c hs
    have hc := (isNumSuffix_iff c).1 (h.2.2.2.2 c hs)
    refine ⟨suffixLiteral c (nm.body ++ [c]), by simp [Numeral.token, numeralToken, hs], ?_, ?_⟩
    · rcases hc with rfl | rfl | rfl <;> simp [suffixLiteral, Literal.text, Numeral.text, hs]
    · rw [hl]
      rcases hc with rfl | rfl | rfl <;> simp [suffixLiteral, tokenTy]
  | none =>
    obtain ⟨k, hk, hks⟩ := hlast.2 hs
    have hk1 : k ≠ '!' := by rintro rfl; revert hks; decide
    have hk2 : k ≠ '#' := by rintro rfl; revert hks; decide
    have hk3 : k ≠ '%' := by rintro rfl; revert hks; decide
    have htext : nm.text = nm.body := by simp [Numeral.text, hs]
    have htok : nm.token = numberFinish nm.body nm.count nm.frac.isSome nm.expo.isSome := by
      simp [Numeral.token, numeralToken, hs]
    rw [hk]
    simp only [Option.some.injEq, hk1, hk2, hk3, if_false]
    rw [htok]
    simp only [hE, hD, hdot, hmd]
    rw [htext]
    obtain ⟨h1, h2, h3, h4, h5⟩ := h
    cases hx : nm.expo with
    | some x =>
      obtain ⟨hl, -⟩ := h4 x hx
      rcases hl with hl | hl
      · -- letter E
        have hne : x.letter ≠ 'D' := by rw [hl]; decide
        by_cases h7 : nm.int.length + fracCount nm.frac > 7
        · refine ⟨.double nm.body, ?_, rfl, ?_⟩
          · simp [numberFinish, Numeral.count, hx, expoCount, hne, h7]
          · simp [hl, h7, tokenTy]
        · refine ⟨.single nm.body, ?_, rfl, ?_⟩
          · simp [numberFinish, Numeral.count, hx, expoCount, hne, h7]
          · simp [hl, h7, tokenTy]
      · refine ⟨.double nm.body, ?_, rfl, ?_⟩
        · have : nm.int.length + fracCount nm.frac + 8 > 7 := by omega
          simp [numberFinish, Numeral.count, hx, expoCount, hl, this]
        · simp [hl, tokenTy]
    | none =>
      by_cases h7 : nm.int.length + fracCount nm.frac > 7
      · refine ⟨.double nm.body, ?_, rfl, ?_⟩
        · simp [numberFinish, Numeral.count, hx, expoCount, h7]
        · simp [h7, tokenTy]
      · cases hf : nm.frac with
        | some f =>
          refine ⟨.single nm.body, ?_, rfl, ?_⟩
          · rw [hf] at h7
            simp [numberFinish, Numeral.count, hx, hf, expoCount, h7]
          · rw [hf] at h7
            simp [h7, tokenTy]
        | none =>
          have hb : nm.body = nm.int := by simp [Numeral.body, Numeral.mantissa, hf, hx, fracText, expoText]
          have hp := parseI16_digits nm.int (h3 hf) h1
          rw [hf] at h7
          by_cases hv : decimalValue nm.int ≤ 32767
          · refine ⟨.integer nm.body, ?_, rfl, ?_⟩
            · simp [numberFinish, Numeral.count, hx, hf, expoCount, fracCount, hb, hp, hv] at h7 ⊢
              omega
            · simp [h7, hb, hv, tokenTy]
          · refine ⟨.single nm.body, ?_, rfl, ?_⟩
            · simp [numberFinish, Numeral.count, hx, hf, expoCount, fracCount, hb, hp, hv] at h7 ⊢
              omega
            · simp [h7, hb, hv, tokenTy]

/-- the three shapes of a numeral's token: it carries the whole spelling; an Integer token is either
    decorated with `%` or an undecorated digit string denoting at most 32767 -/
theorem numeral_token_shape (nm : Numeral) (h : nm.WF) :
    nm.token = .literal (.single nm.text) ∨ nm.token = .literal (.double nm.text) ∨
    (nm.token = .literal (.integer nm.text) ∧
      (nm.sfx = some '%' ∨
        (nm.sfx = none ∧ nm.frac = none ∧ nm.expo = none ∧ decimalValue nm.int ≤ 32767))) := by
  cases hs : nm.sfx with
  | some c =>
    have hc := (isNumSuffix_iff c).1 (h.2.2.2.2 c hs)
    rcases hc with rfl | rfl | rfl
    · exact .inl (by simp [Numeral.token, numeralToken, hs, suffixLiteral, Numeral.text])
    · exact .inr (.inl (by simp [Numeral.token, numeralToken, hs, suffixLiteral, Numeral.text]))
    · exact .inr (.inr ⟨by simp [Numeral.token, numeralToken, hs, suffixLiteral, Numeral.text], .inl rfl⟩)
  | none =>
    have htext : nm.text = nm.body := by simp [Numeral.text, hs]
    have htok : nm.token = numberFinish nm.body nm.count nm.frac.isSome nm.expo.isSome := by
      simp [Numeral.token, numeralToken, hs]
    rw [htok, htext]
    unfold numberFinish
    split
    · exact .inr (.inl rfl)
    · split
      · rename_i hcond
        simp only [Bool.and_eq_true, Bool.not_eq_true', Option.isSome_eq_false_iff, Option.isNone_iff_eq_none]
          at hcond
        obtain ⟨⟨hx, hf⟩, hp⟩ := hcond
        have hb : nm.body = nm.int := by simp [Numeral.body, Numeral.mantissa, hf, hx, fracText, expoText]
        rw [hb, parseI16_digits nm.int (h.2.2.1 hf) h.1] at hp
        have hv : decimalValue nm.int ≤ 32767 := by
          by_cases hv : decimalValue nm.int ≤ 32767
          · exact hv
          · simp [hv] at hp
        exact .inr (.inr ⟨rfl, .inr ⟨rfl, hf, hx, hv⟩⟩)
      · exact .inl rfl

end Lex
end Basic
