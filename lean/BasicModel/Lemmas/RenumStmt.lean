import BasicModel.Lemmas.RenumGen
/-
  RENUM and the compiler, part 3: the generator functions (`VarItem`, `Generator` of codegen.rs) on
  related inputs, and the visitor on related syntax trees.
-/
namespace Basic
namespace RenumRel
open Link Codegen

variable {φ : Nat → Nat} {α α' β β' : Type}

macro_rules | `(tactic| gr_known) => `(tactic| with_reducible exact gr_pushGoto _ _ (by assumption))
macro_rules | `(tactic| gr_known) => `(tactic| with_reducible exact gr_pushGosub _ _ (by assumption))
macro_rules | `(tactic| gr_known) => `(tactic| with_reducible exact gr_pushFor _ _)
macro_rules | `(tactic| gr_known) => `(tactic| with_reducible exact gr_pushRestore _ _ (by assumption))
macro_rules | `(tactic| gr_known) => `(tactic| with_reducible exact gr_pushRun _ _ (by assumption))
macro_rules | `(tactic| gr_known) => `(tactic| with_reducible exact gr_pushWend _ _)
macro_rules | `(tactic| gr_known) => `(tactic| with_reducible exact gr_pushWhile _ _ (by assumption))
macro_rules | `(tactic| gr_known) => `(tactic| with_reducible exact gr_pushDefFn _ _ _ _ (by assumption))

/-- results of `liftE` that are related -/
theorem GRs.lift₂ {R : α → α' → Prop} {r : Except Error α} {r' : Except Error α'}
    (h : match r, r' with
      | .ok a, .ok a' => R a a'
      | .error e, .error e' => ErrRel e e'
      | _, _ => False) : GRs φ (liftE r : GM α) (liftE r' : GM α') R := by
  constructor
  intro g g' hg
  rw [g_liftE, g_liftE]
  cases r <;> cases r' <;> first | exact h.elim | exact ⟨h, hg⟩

theorem errRel_syntaxAt (c c' : Col) (m : String) : ErrRel (syntaxAt c m) (syntaxAt c' m) := ⟨rfl, rfl⟩

/-! ### `VarItem` -/

theorem gr_testForBuiltIn (c c' : Col) (name : Str) (l l' : Link) (a : Option Nat) (strict : Bool) :
    GRs φ (liftE (testForBuiltIn ⟨c, name, l, a⟩ strict)) (liftE (testForBuiltIn ⟨c', name, l', a⟩ strict)) TT := by
  apply GRs.lift₂
  unfold testForBuiltIn
  dsimp only
  cases Gen.opcodeAndArity name with
  | none => trivial
  | some t =>
    rcases t with ⟨oc, lo, hi⟩
    dsimp only
    by_cases h1 : (decide (lo = 0) && decide (hi = 0) && a.isSome && !strict) = true
    · rw [if_pos h1, if_pos h1]; trivial
    · rw [if_neg h1, if_neg h1]
      by_cases h2 : (!(decide (lo = 0) && decide (hi = 0)) && a.isNone && !strict) = true
      · rw [if_pos h2, if_pos h2]; trivial
      · rw [if_neg h2, if_neg h2]; exact errRel_syntaxAt _ _ _
macro_rules | `(tactic| gr_known) => `(tactic| with_reducible exact gr_testForBuiltIn _ _ _ _ _ _ _)

macro_rules | `(tactic| gr_known) => `(tactic| with_reducible exact GRs.thr (errRel_syntaxAt _ _ _))

theorem gr_pushAsDim (c c' : Col) (name : Str) {l l' : Link} (hl : FragRel φ l l') (a : Option Nat) :
    GRs φ (pushAsDim ⟨c, name, l, a⟩) (pushAsDim ⟨c', name, l', a⟩) TT := by
  unfold pushAsDim
  cases a <;> gr

theorem gr_pushAsPopUnary (c c' : Col) (name : Str) (l l' : Link) (a : Option Nat) :
    GRs φ (pushAsPopUnary ⟨c, name, l, a⟩) (pushAsPopUnary ⟨c', name, l', a⟩) TT := by
  unfold pushAsPopUnary; gr

theorem gr_pushAsPop (c c' : Col) (name : Str) {l l' : Link} (hl : FragRel φ l l') (a : Option Nat) :
    GRs φ (pushAsPop ⟨c, name, l, a⟩) (pushAsPop ⟨c', name, l', a⟩) TT := by
  unfold pushAsPop
  cases a <;> gr

macro_rules | `(tactic| gr_known) => `(tactic| with_reducible exact GRs.ret rfl)
macro_rules | `(tactic| gr_known) => `(tactic| (with_reducible refine GRs.thr ?_; exact ⟨rfl, rfl⟩))

set_option maxHeartbeats 600000 in
theorem gr_pushAsExpression (c c' : Col) (name : Str) {l l' : Link} (hl : FragRel φ l l') (a : Option Nat) :
    GRs φ (pushAsExpression ⟨c, name, l, a⟩) (pushAsExpression ⟨c', name, l', a⟩) TT := by
  unfold pushAsExpression
  dsimp only
  refine GRs.seq_any (gr_lappend hl) ?_
  intro _ _
  refine GRs.seq (R := Eq) ?_ ?_
  · cases Gen.opcodeAndArity name with
    | none => gr
    | some t =>
      rcases t with ⟨oc, lo, hi⟩
      cases a <;> gr
  · rintro _ _ rfl
    cases a <;> gr

macro_rules | `(tactic| gr_known) => `(tactic| with_reducible exact gr_pushAsDim _ _ _ (by assumption) _)
macro_rules | `(tactic| gr_known) => `(tactic| with_reducible exact gr_pushAsPopUnary _ _ _ _ _ _)
macro_rules | `(tactic| gr_known) => `(tactic| with_reducible exact gr_pushAsPop _ _ _ (by assumption) _)
macro_rules | `(tactic| gr_known) => `(tactic| with_reducible exact gr_pushAsExpression _ _ _ (by assumption) _)

/-! ### short fragments are equal on both sides -/

theorem FragRel.ops_eq_of_short {l l' : Link} (h : FragRel φ l l') (hs : l.ops.size ≤ 2) : l'.ops = l.ops := by
  have := h.ops.eq_of_short (by simpa only [Array.length_toList] using hs)
  exact Array.toList_inj.1 this

theorem lineNumberOfLink_rel {l l' : Link} (h : FragRel φ l l') : lineNumberOfLink l' = lineNumberOfLink l := by
  unfold lineNumberOfLink
  rw [h.size]
  split
  · rw [h.ops_eq_of_short (by omega)]
  · rfl

theorem stringOfLink_rel {l l' : Link} (h : FragRel φ l l') : stringOfLink l' = stringOfLink l := by
  unfold stringOfLink
  rw [h.size]
  split
  · rw [h.ops_eq_of_short (by omega)]
  · rfl

/-! ### `Generator` -/

theorem gr_exprPopLineNumber : GRs φ exprPopLineNumber exprPopLineNumber (fun r r' => r'.2 = r.2) := by
  unfold exprPopLineNumber
  refine GRs.seq gr_popExpr ?_
  rintro ⟨c, ops⟩ ⟨c', ops'⟩ h
  dsimp only
  rw [lineNumberOfLink_rel h]
  cases lineNumberOfLink ops with
  | ok ln => exact GRs.ret rfl
  | error e => exact GRs.thr (ErrRel.inCol (ErrRel.refl e) _ _ _ _)

theorem gr_genVariable {v v' : Variable} (h : VarRel v v') :
    GRs φ (genVariable v) (genVariable v') (fun r r' => r'.2 = r.2) := by
  cases h with
  | unary c c' i => simp only [genVariable]; exact GRs.ret rfl
  | array c c' i hes =>
    simp only [genVariable, hes.length_eq]
    refine GRs.seq (gr_popNExpr _) ?_
    intro _ _ _
    refine GRs.seq_any ?_ ?_
    · gr
    · intro _ _; exact GRs.ret rfl

theorem gr_unaryExpr (op : Opcode) (c c' : Col) : GRs φ (unaryExpr op c) (unaryExpr op c') TT := by unfold unaryExpr; gr
theorem gr_binaryExpr (op : Opcode) : GRs φ (binaryExpr op) (binaryExpr op) TT := by unfold binaryExpr; gr
macro_rules | `(tactic| gr_known) => `(tactic| with_reducible exact gr_unaryExpr _ _ _)
macro_rules | `(tactic| gr_known) => `(tactic| with_reducible exact gr_binaryExpr _)

theorem gr_genExpression {e e' : Expr} (h : ExprRel e e') : GRs φ (genExpression e) (genExpression e') TT := by
  cases h <;> (simp only [genExpression]; gr)

theorem gr_defType (op : Opcode) (c c' : Col) : GRs φ (defType op c) (defType op c') TT := by unfold defType; gr
macro_rules | `(tactic| gr_known) => `(tactic| with_reducible exact gr_defType _ _ _)

end RenumRel
end Basic
