import BasicModel.Lemmas.LexList
import BasicModel.Lemmas.LexCaseLine
/-
  Trailing white space that is not a BASIC blank (a carriage return, a no-break space, …): it is
  lexed as one `Unknown` token, which `trim_end` removes again.
-/
set_option linter.unusedSimpArgs false
namespace Basic
namespace Lex

/-! ### trailing white space that is not a BASIC blank (carriage return, no-break space, …) -/

/-- Unicode white space other than blank and tab -/
def isOddWhite (c : Char) : Bool := isUniWhite c && !isWs c

theorem oddWhite_toNat (c : Char) (h : isOddWhite c = true) :
    (10 ≤ c.toNat ∧ c.toNat ≤ 13) ∨ c.toNat = 0x85 ∨ c.toNat = 0xA0 ∨ 0x1680 ≤ c.toNat := by
  simp only [isOddWhite, Bool.and_eq_true, Bool.not_eq_true'] at h
  obtain ⟨h1, h2⟩ := h
  have h2' : ¬ (c.toNat = 32 ∨ c.toNat = 9) := by
    intro hh; have := (isWs_iff c).2 hh; rw [h2] at this; exact absurd this (by simp)
  simp only [isUniWhite, Bool.or_eq_true, Bool.and_eq_true, decide_eq_true_eq] at h1
  omega

theorem oddWhite_classes (c : Char) (h : isOddWhite c = true) :
    isAlpha c = false ∧ isDigit c = false ∧ isWs c = false ∧ c ≠ '.' ∧ c ≠ '"' ∧ c ≠ '&' ∧
      matchMinutia [c] = none := by
  have hn := oddWhite_toNat c h
  refine ⟨?_, ?_, ?_, ?_, ?_, ?_, ?_⟩
  · rw [Bool.eq_false_iff, Ne, isAlpha_iff]; omega
  · rw [Bool.eq_false_iff, Ne, isDigit_iff]; omega
  · rw [Bool.eq_false_iff, Ne, isWs_iff]; omega
  · rw [Ne, char_eq_iff]; have : '.'.toNat = 46 := rfl; omega
  · rw [Ne, char_eq_iff]; have : '"'.toNat = 34 := rfl; omega
  · rw [Ne, char_eq_iff]; have : '&'.toNat = 38 := rfl; omega
  · unfold matchMinutia
    split <;> first
      | rfl
      | (rename_i heq; have hc := (List.cons.inj heq).1; subst hc; exact absurd h (by decide))

theorem matchMinutia_long (a b : Char) (l : List Char) : matchMinutia (a :: b :: l) = none := by
  unfold matchMinutia; split <;> simp_all

theorem minutiaLoop_white (w : List Char) (hw : ∀ c ∈ w, isOddWhite c = true) :
    ∀ s : Str, (s = [] → w ≠ []) → (∀ c, s = [c] → matchMinutia [c] = none) →
      minutiaLoop w s = (.unknown (s ++ w), []) := by
  induction w with
  | nil => intro s _ _; simp [minutiaLoop]
  | cons c w ih =>
    intro s _ hs1
    have hc := oddWhite_classes c (hw c (by simp))
    have hm : matchMinutia (s ++ [c]) = none := by
      cases s with
      | nil => exact hc.2.2.2.2.2.2
      | cons a s' =>
        cases s' with
        | nil => exact matchMinutia_long a c []
        | cons b s'' => exact matchMinutia_long a b _
    unfold minutiaLoop
    simp only [hm]
    cases w with
    | nil => simp
    | cons pk tl =>
      have hp := oddWhite_classes pk (hw pk (by simp))
      simp only [hp.1, hp.2.1, hp.2.2.1, Bool.or_false, Bool.false_eq_true, if_false]
      rw [ih (fun x hx => hw x (by simp [hx])) (s ++ [c]) (by simp)]
      · simp
      · intro x hx
        cases s with
        | nil => simp at hx; subst hx; exact hc.2.2.2.2.2.2
        | cons a s' => simp at hx

/-- a run of such characters is one `Unknown` token -/
theorem lexFrom_white (w : List Char) (hw : ∀ c ∈ w, isOddWhite c = true) (hne : w ≠ []) :
    lexFrom w false = [.unknown w] := by
  cases w with
  | nil => contradiction
  | cons c w =>
    have hc := oddWhite_classes c (hw c (by simp))
    have hm := minutiaLoop_white (c :: w) hw [] (fun _ => by simp) (by intro x hx; simp at hx)
    rw [lexFrom_cons]
    simp only [hc.1, hc.2.1, hc.2.2.1, hc.2.2.2.1, hc.2.2.2.2.1, hc.2.2.2.2.2.1, minutia, hm]
    simp

/-- `CanonRaw` without remarks and relative to a text that follows the printed list -/
def CanonRawT (tail : List Char) : List Token → Prop
  | [] => True
  | t :: rest =>
    t ≠ .word .rem1 ∧ t ≠ .word .rem2 ∧ Printable t ∧ Follows t (printTokens rest ++ tail) ∧
      CanonRawT tail rest

theorem lexFrom_printTokens_tail (tail : List Char) (ts : List Token) (h : CanonRawT tail ts) :
    lexFrom (printTokens ts ++ tail) false = ts.flatMap rawOf ++ lexFrom tail false := by
  induction ts with
  | nil => rfl
  | cons t rest ih =>
    obtain ⟨h1, h2, hp, hf, hc⟩ := h
    rw [printTokens_cons, List.flatMap_cons, List.append_assoc, lexFrom_token t _ hp hf h1 h2, ih hc,
      List.append_assoc]

theorem rawOf_not_unknown (t : Token) (h : Printable t) : ∀ x ∈ rawOf t, ∀ s, x ≠ .unknown s := by
  intro x hx s e
  subst e
  cases t with
  | unknown s' => exact h
  | operator o => cases o <;> simp [rawOf] at hx
  | _ => simp [rawOf] at hx

theorem raw_no_unknown (tail : List Char) (ts : List Token) (h : CanonRawT tail ts) :
    ∀ x ∈ ts.flatMap rawOf, ∀ s, x ≠ .unknown s := by
  induction ts with
  | nil => intro x hx; simp at hx
  | cons t rest ih =>
    intro x hx
    rw [List.flatMap_cons, List.mem_append] at hx
    rcases hx with hx | hx
    · exact rawOf_not_unknown t h.2.2.1 x hx
    · exact ih h.2.2.2.2 x hx

theorem trimEndStr_white (w : List Char) (hw : ∀ c ∈ w, isOddWhite c = true) : trimEndStr w = [] := by
  have : ∀ c ∈ w.reverse, isUniWhite c = true := by
    intro c hc
    have := hw c (List.mem_reverse.1 hc)
    simp only [isOddWhite, Bool.and_eq_true] at this; exact this.1
  have hd : ∀ l : List Char, (∀ c ∈ l, isUniWhite c = true) → l.dropWhile isUniWhite = [] := by
    intro l hl
    induction l with
    | nil => rfl
    | cons a l ih => simp [List.dropWhile_cons, hl a (by simp), ih (fun x hx => hl x (by simp [hx]))]
  simp [trimEndStr, hd _ this]

/-- `trim_end` removes a final white-space-only token without a trace -/
theorem trimEnd_trailing_white (l : List Token) (w : List Char) (hw : ∀ c ∈ w, isOddWhite c = true) :
    trimEnd (l ++ [.unknown w]) = trimEnd l := by
  simp [trimEnd, trimEndRev, trimEndStr_white w hw]

/-- a listed line followed by a carriage return (or any run of non-blank white space) lexes to
    the same line as without it -/
theorem lex_trailing_white (ts : List Token) (w : List Char) (hw : ∀ c ∈ w, isOddWhite c = true)
    (hne : w ≠ []) (h : CanonRawT w ts) (h' : CanonRawT [] ts)
    (c : Char) (cs : List Char) (e : printTokens ts = c :: cs) (hd : isDigit c = false) (hws : isWs c = false) :
    lex (printTokens ts ++ w) = lex (printTokens ts) := by
  have r1 := lexFrom_printTokens_tail w ts h
  have r2 := lexFrom_printTokens_tail [] ts h'
  rw [lexFrom_white w hw hne] at r1
  simp only [List.append_nil, lexFrom_nil] at r2
  rw [e] at r1 r2 ⊢
  rw [List.cons_append, lex_plain c _ hd hws, lex_plain c cs hd hws, ← List.cons_append, r1, r2]
  simp only [postPasses, trimEnd_trailing_white _ w hw]

end Lex
end Basic
