import BasicModel.Spec.Struct
import BasicModel.Lemmas.ExprCompile
import BasicModel.Lemmas.FnCall
/-
  Compiled structured statements do what `Spec/Struct.lean` says.

  * a BLOCK is code as a function of its own start address (`Nat → List Opcode`): the linked code
    holds absolute addresses, so the internal jump targets of a block are `start + offset`;
  * `Implements env hie code f` — wherever the block lies in the code segment of a machine `s`
    (`CodeAt … s.pc (code s.pc)`, trace off, room on the stack, jumps not gated), if the transformer
    `f` answers `.ok σ'` on `s.vars` the machine reaches, in some number of steps all answering
    `continue`, the state `s` with `pc` past the block and `vars := σ'` — EVERY other component,
    the stack included, as in `s`; if `f` answers `.error e` some step fails with exactly `e`;
  * the rules: `implements_assign`, `implements_seq`, `implements_ifThen`, `implements_ifThenElse`,
    `implements_whileStep` / `implements_while`, `implements_for`;
  * `compile` — the code of a structured statement; `exec_implemented` — the headline theorem.
-/
namespace Basic
namespace Lemmas.StructCompile
open Basic.Spec Basic.Lemmas.ExprCompile Basic.Lemmas.FnCall Basic.Runtime

/-! ## runs -/

/-- `s` reaches `s'` in some number of steps that all answer `continue` -/
def Goes (env : Env) (hie : Bool) (s s' : Runtime) : Prop :=
  ∃ n, runSteps env hie n s = (.ok .continue, s')

/-- from `s`, after some steps answering `continue`, a step fails with `e` -/
def Fails (env : Env) (hie : Bool) (s : Runtime) (e : Error) : Prop :=
  ∃ n s', runSteps env hie n s = (.error e, s')

theorem Goes.refl (env : Env) (hie : Bool) (s : Runtime) : Goes env hie s s := ⟨0, rfl⟩

theorem Goes.trans {env : Env} {hie : Bool} {s s1 s2 : Runtime} (h1 : Goes env hie s s1) (h2 : Goes env hie s1 s2) :
    Goes env hie s s2 := by
  obtain ⟨n1, h1⟩ := h1
  obtain ⟨n2, h2⟩ := h2
  exact ⟨n1 + n2, by rw [runSteps_ok_add h1, h2]⟩

theorem Goes.fails {env : Env} {hie : Bool} {s s1 : Runtime} {e : Error} (h1 : Goes env hie s s1)
    (h2 : Fails env hie s1 e) : Fails env hie s e := by
  obtain ⟨n1, h1⟩ := h1
  obtain ⟨n2, s', h2⟩ := h2
  exact ⟨n1 + n2, s', by rw [runSteps_ok_add h1, h2]⟩

theorem Goes.step {env : Env} {hie : Bool} {s s' : Runtime}
    (h : ((step env hie).run).run s = (.ok .continue, s')) : Goes env hie s s' :=
  ⟨1, by rw [runSteps_one, h]⟩

theorem Fails.step {env : Env} {hie : Bool} {s s' : Runtime} {e : Error}
    (h : ((step env hie).run).run s = (.error e, s')) : Fails env hie s e :=
  ⟨1, s', by rw [runSteps_one, h]⟩

/-- the outcome of a block of length `len` started in `s`, against the expected result -/
def Ends (env : Env) (hie : Bool) (len : Nat) (s : Runtime) : Res Var → Prop
  | .ok σ' => Goes env hie s { s with pc := s.pc + len, vars := σ' }
  | .error e => Fails env hie s e

/-- where a block may run: its code is in place, trace off, room on the stack (a crude bound: the
    length of the block), and its jumps are not gated (the program has no compile errors, or the block
    lies in the direct-mode code) -/
structure Placed (hie : Bool) (code : Nat → List Opcode) (s : Runtime) : Prop where
  hcode : CodeAt s.program.link.ops s.pc (code s.pc)
  htron : s.tron = false
  hroom : s.stack.size + (code s.pc).length ≤ Gen.stackMaxLen
  hgate : hie = false ∨ s.entryAddress ≤ s.pc

/-- a sub-block at offset `off`, entered with the store `σ` and the stack `stk` -/
theorem Placed.sub {hie : Bool} {s : Runtime} (c' : Nat → List Opcode) (off : Nat) (σ : Var) (stk : Array Val)
    (hcode : CodeAt s.program.link.ops (s.pc + off) (c' (s.pc + off))) (htr : s.tron = false)
    (hroom : stk.size + (c' (s.pc + off)).length ≤ Gen.stackMaxLen)
    (hgate : hie = false ∨ s.entryAddress ≤ s.pc) :
    Placed hie c' { s with pc := s.pc + off, vars := σ, stack := stk } :=
  ⟨hcode, htr, hroom, hgate.imp id (fun h => Nat.le_trans h (Nat.le_add_right _ _))⟩

/-- **the block calculus**: the block `code` implements the transformer `f` -/
def Implements (env : Env) (hie : Bool) (code : Nat → List Opcode) (f : Trans) : Prop :=
  ∀ (s : Runtime), Placed hie code s → ∀ r, f s.vars = some r → Ends env hie (code s.pc).length s r

/-! ## expressions -/

theorem expr_goes (env : Env) (hie : Bool) {e : Expr} (hp : Spec.Pure e) (s : Runtime)
    (hcode : CodeAt s.program.link.ops s.pc (flat e)) (htr : s.tron = false)
    (hroom : s.stack.size + (flat e).length ≤ Gen.stackMaxLen) {v : Val} (hv : eval s.vars e = .ok v) :
    Goes env hie s { s with pc := s.pc + (flat e).length, stack := s.stack.push v } := by
  have h := flat_computes env hie hp s hcode htr hroom
  rw [hv] at h
  exact ⟨_, h.2⟩

theorem expr_fails (env : Env) (hie : Bool) {e : Expr} (hp : Spec.Pure e) (s : Runtime)
    (hcode : CodeAt s.program.link.ops s.pc (flat e)) (htr : s.tron = false)
    (hroom : s.stack.size + (flat e).length ≤ Gen.stackMaxLen) {err : Error} (hv : eval s.vars e = .error err) :
    Fails env hie s err := by
  have h := flat_computes env hie hp s hcode htr hroom
  rw [hv] at h
  obtain ⟨k, stk, stk', _, _, h1, h2⟩ := h
  exact Goes.fails ⟨k, h1⟩ (Fails.step h2)

/-! ## LET -/

/-- **LET**: `flat e ++ [pop name]` implements "evaluate, then store" -/
theorem implements_assign (env : Env) (hie : Bool) (name : Str) {e : Expr} (hp : Spec.Pure e) :
    Implements env hie (fun _ => flat e ++ [Opcode.pop name]) (assignT name e) := by
  intro s hpl r hr
  obtain ⟨hcode, htr, hroom, _⟩ := hpl
  simp only [assignT, Option.some.injEq] at hr
  simp only [List.length_append, List.length_singleton] at hroom ⊢
  cases hv : eval s.vars e with
  | error err =>
    rw [hv] at hr
    subst hr
    exact expr_fails env hie hp s hcode.left htr (by omega) hv
  | ok v =>
    rw [hv] at hr
    have h1 := expr_goes env hie hp s hcode.left htr (by omega) hv
    have hs := run_step_pop env hie { s with pc := s.pc + (flat e).length, stack := s.stack.push v } name s.stack v
      htr hcode.right.head rfl
    change s.vars.store name v = r at hr
    cases hst : s.vars.store name v with
    | error err =>
      rw [hst] at hr hs
      subst hr
      exact h1.fails (Fails.step hs)
    | ok σ' =>
      rw [hst] at hr hs
      subst hr
      exact h1.trans (Goes.step hs)

/-! ## sequence -/

/-- **sequential composition** -/
theorem implements_seq {env : Env} {hie : Bool} {c1 c2 : Nat → List Opcode} {f1 f2 : Trans} (l1 : Nat)
    (hl1 : ∀ a, (c1 a).length = l1)
    (h1 : Implements env hie c1 f1) (h2 : Implements env hie c2 f2) :
    Implements env hie (fun a => c1 a ++ c2 (a + l1)) (seqT f1 f2) := by
  intro s hpl r hr
  obtain ⟨hcode, htr, hroom, hgate⟩ := hpl
  simp only [List.length_append, hl1] at hroom ⊢
  simp only [seqT] at hr
  have hp1 : Placed hie c1 s := ⟨hcode.left, htr, by rw [hl1]; omega, hgate⟩
  cases hf : f1 s.vars with
  | none => rw [hf] at hr; cases hr
  | some r1 =>
    have e1 := h1 s hp1 r1 hf
    rw [hl1] at e1
    cases r1 with
    | error err =>
      rw [hf] at hr
      simp only [Option.some.injEq] at hr
      subst hr
      exact e1
    | ok σ1 =>
      rw [hf] at hr
      have hc2 := hcode.right
      rw [hl1] at hc2
      have hp2 : Placed hie c2 { s with pc := s.pc + l1, vars := σ1 } :=
        Placed.sub c2 l1 σ1 s.stack hc2 htr (by omega) hgate
      have e2 := h2 _ hp2 r hr
      cases r with
      | error err => exact Goes.fails e1 e2
      | ok σ' =>
        have := Goes.trans e1 e2
        show Goes env hie s { s with pc := s.pc + (l1 + (c2 (s.pc + l1)).length), vars := σ' }
        rw [← Nat.add_assoc]
        exact this

/-! ## conditions -/

theorem zeroTest_of_truthy {v : Val} {b : Bool} (h : truthy v = .ok b) : zeroTest v = some (!b) := by
  cases v <;> simp only [truthy, Except.ok.injEq, reduceCtorEq] at h <;> subst h <;> simp [zeroTest]

theorem zeroTest_of_truthy_error {v : Val} {e : Error} (h : truthy v = .error e) :
    zeroTest v = none ∧ e = Error.mk' Code.typeMismatch := by
  cases v <;> simp only [truthy, Except.error.injEq, reduceCtorEq] at h <;> subst h <;> exact ⟨rfl, rfl⟩

theorem Goes.pc_eq {env : Env} {hie : Bool} {s s' : Runtime} {p q : Nat} {σ : Var}
    (h : Goes env hie s { s' with pc := p, vars := σ }) (hpq : p = q) :
    Goes env hie s { s' with pc := q, vars := σ } := hpq ▸ h

/-- the test `flat c ++ [ifNot tgt]`: control falls through when the condition is true, goes to `tgt`
    when it is false; the stack and everything else is as before; an error of the condition (of the
    expression, or TYPE MISMATCH for a string) is the error of the run -/
theorem cond_run (env : Env) (hie : Bool) {c : Expr} (hp : Spec.Pure c) (s : Runtime) (tgt : Nat)
    (hcode : CodeAt s.program.link.ops s.pc (flat c ++ [Opcode.ifNot tgt])) (htr : s.tron = false)
    (hroom : s.stack.size + (flat c).length ≤ Gen.stackMaxLen) :
    match holds s.vars c with
    | .error e => Fails env hie s e
    | .ok true => Goes env hie s { s with pc := s.pc + ((flat c).length + 1) }
    | .ok false => Goes env hie s { s with pc := tgt } := by
  unfold holds
  cases hv : eval s.vars c with
  | error err => exact expr_fails env hie hp s hcode.left htr hroom hv
  | ok v =>
    have h1 := expr_goes env hie hp s hcode.left htr hroom hv
    have hs := run_step_ifNot env hie { s with pc := s.pc + (flat c).length, stack := s.stack.push v } tgt s.stack v
      htr hcode.right.head rfl
    show match truthy v with
      | .error e => Fails env hie s e
      | .ok true => Goes env hie s { s with pc := s.pc + ((flat c).length + 1) }
      | .ok false => Goes env hie s { s with pc := tgt }
    cases ht : truthy v with
    | error e =>
      obtain ⟨hz, rfl⟩ := zeroTest_of_truthy_error ht
      rw [hz] at hs
      exact h1.fails (Fails.step hs)
    | ok b =>
      rw [zeroTest_of_truthy ht] at hs
      cases b with
      | true => exact h1.trans (Goes.step hs)
      | false => exact h1.trans (Goes.step hs)

/-! ## IF -/

/-- the code of `IF c THEN p` (`l1` = the length of the THEN block) -/
def ifThenCode (c : Expr) (l1 : Nat) (c1 : Nat → List Opcode) (a : Nat) : List Opcode :=
  flat c ++ [Opcode.ifNot (a + ((flat c).length + 1 + l1))] ++ c1 (a + ((flat c).length + 1))

/-- the code of `IF c THEN p ELSE q` -/
def ifElseCode (c : Expr) (l1 l2 : Nat) (c1 c2 : Nat → List Opcode) (a : Nat) : List Opcode :=
  flat c ++ [Opcode.ifNot (a + ((flat c).length + 1 + l1 + 1))] ++ c1 (a + ((flat c).length + 1)) ++
    [Opcode.jump (a + ((flat c).length + 1 + l1 + 1 + l2))] ++ c2 (a + ((flat c).length + 1 + l1 + 1))

theorem ifThenCode_length (c : Expr) (l1 : Nat) (c1 : Nat → List Opcode) (hl1 : ∀ a, (c1 a).length = l1) (a : Nat) :
    (ifThenCode c l1 c1 a).length = (flat c).length + 1 + l1 := by
  simp only [ifThenCode, List.length_append, List.length_singleton, hl1]

theorem ifElseCode_length (c : Expr) (l1 l2 : Nat) (c1 c2 : Nat → List Opcode) (hl1 : ∀ a, (c1 a).length = l1)
    (hl2 : ∀ a, (c2 a).length = l2) (a : Nat) :
    (ifElseCode c l1 l2 c1 c2 a).length = (flat c).length + 1 + l1 + 1 + l2 := by
  simp only [ifElseCode, List.length_append, List.length_singleton, hl1, hl2]

/-- **IF … THEN** -/
theorem implements_ifThen {env : Env} {hie : Bool} {c : Expr} (hp : Spec.Pure c) {c1 : Nat → List Opcode} {f1 : Trans}
    (l1 : Nat) (hl1 : ∀ a, (c1 a).length = l1) (h1 : Implements env hie c1 f1) :
    Implements env hie (ifThenCode c l1 c1) (iteT c f1 skipT) := by
  intro s hpl r hr
  obtain ⟨hcode, htr, hroom, hgate⟩ := hpl
  rw [ifThenCode_length c l1 c1 hl1] at hroom ⊢
  unfold ifThenCode at hcode
  have hc := cond_run env hie hp s _ hcode.left htr (by omega)
  simp only [iteT] at hr
  cases hcnd : holds s.vars c with
  | error e =>
    rw [hcnd] at hr hc
    simp only [Option.some.injEq] at hr
    subst hr
    exact hc
  | ok b =>
    rw [hcnd] at hr hc
    cases b with
    | false =>
      simp only [skipT, Option.some.injEq] at hr
      subst hr
      exact hc
    | true =>
      have hcb := hcode.right
      simp only [List.length_append, List.length_singleton] at hcb
      have hp1 : Placed hie c1 { s with pc := s.pc + ((flat c).length + 1) } :=
        Placed.sub c1 _ s.vars s.stack hcb htr (by rw [hl1]; omega) hgate
      have e1 := h1 _ hp1 r hr
      rw [hl1] at e1
      cases r with
      | error e => exact hc.fails e1
      | ok σ' => exact Goes.pc_eq (s' := s) (hc.trans e1) (by show s.pc + _ + l1 = _; omega)

/-- **IF … THEN … ELSE** -/
theorem implements_ifThenElse {env : Env} {hie : Bool} {c : Expr} (hp : Spec.Pure c) {c1 c2 : Nat → List Opcode}
    {f1 f2 : Trans} (l1 l2 : Nat) (hl1 : ∀ a, (c1 a).length = l1) (hl2 : ∀ a, (c2 a).length = l2)
    (h1 : Implements env hie c1 f1) (h2 : Implements env hie c2 f2) :
    Implements env hie (ifElseCode c l1 l2 c1 c2) (iteT c f1 f2) := by
  intro s hpl r hr
  obtain ⟨hcode, htr, hroom, hgate⟩ := hpl
  rw [ifElseCode_length c l1 l2 c1 c2 hl1 hl2] at hroom ⊢
  unfold ifElseCode at hcode
  have hc := cond_run env hie hp s _ hcode.left.left.left htr (by omega)
  simp only [iteT] at hr
  cases hcnd : holds s.vars c with
  | error e =>
    rw [hcnd] at hr hc
    simp only [Option.some.injEq] at hr
    subst hr
    exact hc
  | ok b =>
    rw [hcnd] at hr hc
    cases b with
    | false =>
      have hcb := hcode.right
      simp only [List.length_append, List.length_singleton, hl1] at hcb
      have hp2 : Placed hie c2 { s with pc := s.pc + ((flat c).length + 1 + l1 + 1) } :=
        Placed.sub c2 _ s.vars s.stack hcb htr (by rw [hl2]; omega) hgate
      have e2 := h2 _ hp2 r hr
      rw [hl2] at e2
      cases r with
      | error e => exact hc.fails e2
      | ok σ' => exact Goes.pc_eq (s' := s) (hc.trans e2) (by show s.pc + _ + l2 = _; omega)
    | true =>
      have hcb := hcode.left.left.right
      simp only [List.length_append, List.length_singleton] at hcb
      have hp1 : Placed hie c1 { s with pc := s.pc + ((flat c).length + 1) } :=
        Placed.sub c1 _ s.vars s.stack hcb htr (by rw [hl1]; omega) hgate
      have e1 := h1 _ hp1 r hr
      rw [hl1] at e1
      cases r with
      | error e => exact hc.fails e1
      | ok σ' =>
        have hj := hcode.left.right.head
        simp only [List.length_append, List.length_singleton, hl1] at hj
        have hs := run_step_jump env hie { s with pc := s.pc + ((flat c).length + 1) + l1, vars := σ' } _
          htr (by rw [← Nat.add_assoc] at hj; exact hj) (hgate.imp id (fun h => by show s.entryAddress ≤ _; omega))
        exact (hc.trans e1).trans (Goes.step hs)

/-! ## WHILE -/

/-- the code of `WHILE c : p : WEND` (`lb` = the length of the body): the exit of the test is the
    address after the WEND's jump, the WEND jumps to the start of the condition -/
def whileCode (c : Expr) (lb : Nat) (body : Nat → List Opcode) (a : Nat) : List Opcode :=
  flat c ++ [Opcode.ifNot (a + ((flat c).length + 1 + lb + 1))] ++ body (a + ((flat c).length + 1)) ++ [Opcode.jump a]

theorem whileCode_length (c : Expr) (lb : Nat) (body : Nat → List Opcode) (hlb : ∀ a, (body a).length = lb) (a : Nat) :
    (whileCode c lb body a).length = (flat c).length + 1 + lb + 1 := by
  simp only [whileCode, List.length_append, List.length_singleton, hlb]

/-- **WHILE, one unrolling**: if the loop's code implements `g` it implements "test; body; `g`" -/
theorem implements_whileStep {env : Env} {hie : Bool} {c : Expr} (hp : Spec.Pure c) {body : Nat → List Opcode}
    {fb g : Trans} (lb : Nat) (hlb : ∀ a, (body a).length = lb) (hb : Implements env hie body fb)
    (hg : Implements env hie (whileCode c lb body) g) :
    Implements env hie (whileCode c lb body) (whileStepT c fb g) := by
  intro s hpl r hr
  have hpl' := hpl
  obtain ⟨hcode, htr, hroom, hgate⟩ := hpl
  rw [whileCode_length c lb body hlb] at hroom ⊢
  unfold whileCode at hcode
  have hc := cond_run env hie hp s _ hcode.left.left htr (by omega)
  simp only [whileStepT, iteT] at hr
  cases hcnd : holds s.vars c with
  | error e =>
    rw [hcnd] at hr hc
    simp only [Option.some.injEq] at hr
    subst hr
    exact hc
  | ok b =>
    rw [hcnd] at hr hc
    cases b with
    | false =>
      simp only [skipT, Option.some.injEq] at hr
      subst hr
      exact hc
    | true =>
      simp only [seqT] at hr
      have hcb := hcode.left.right
      simp only [List.length_append, List.length_singleton] at hcb
      have hp1 : Placed hie body { s with pc := s.pc + ((flat c).length + 1) } :=
        Placed.sub body _ s.vars s.stack hcb htr (by rw [hlb]; omega) hgate
      cases hf : fb s.vars with
      | none => rw [hf] at hr; cases hr
      | some r1 =>
        have e1 := hb _ hp1 r1 hf
        rw [hlb] at e1
        rw [hf] at hr
        cases r1 with
        | error e =>
          simp only [Option.some.injEq] at hr
          subst hr
          exact hc.fails e1
        | ok σ1 =>
          have hj := hcode.right.head
          simp only [List.length_append, List.length_singleton, hlb] at hj
          have hs := run_step_jump env hie { s with pc := s.pc + ((flat c).length + 1) + lb, vars := σ1 } s.pc
            htr (by rw [← Nat.add_assoc] at hj; exact hj) (hgate.imp id id)
          have hback : Goes env hie s { s with vars := σ1 } := (hc.trans e1).trans (Goes.step hs)
          have hp3 : Placed hie (whileCode c lb body) { s with vars := σ1 } :=
            ⟨hpl'.hcode, htr, hpl'.hroom, hgate⟩
          have e3 := hg _ hp3 r hr
          rw [whileCode_length c lb body hlb] at e3
          cases r with
          | error e => exact hback.fails e3
          | ok σ' => exact hback.trans e3

/-- **WHILE**: the loop implements `whileT` for every bound on the number of tests -/
theorem implements_while {env : Env} {hie : Bool} {c : Expr} (hp : Spec.Pure c) {body : Nat → List Opcode}
    {fb : Trans} (lb : Nat) (hlb : ∀ a, (body a).length = lb) (hb : Implements env hie body fb) (n : Nat) :
    Implements env hie (whileCode c lb body) (whileT c fb n) := by
  induction n with
  | zero => intro s _ r hr; cases hr
  | succ n ih => exact implements_whileStep hp lb hlb hb ih

/-! ## FOR / NEXT -/

/-- the six ways through `Spec.nextStep` -/
theorem nextStep_cases (neg : Val → Option Bool) (σ : Var) (name : Str) (toV stepV : Val) :
    (∃ e, σ.fetch name = .error e ∧ nextStep neg σ name toV stepV = some (.error e)) ∨
    (∃ cur0 e, σ.fetch name = .ok cur0 ∧ Ops.sum cur0 stepV = .error e ∧
      nextStep neg σ name toV stepV = some (.error e)) ∨
    (∃ cur0 cur e, σ.fetch name = .ok cur0 ∧ Ops.sum cur0 stepV = .ok cur ∧ σ.store name cur = .error e ∧
      nextStep neg σ name toV stepV = some (.error e)) ∨
    (∃ cur0 cur σ', σ.fetch name = .ok cur0 ∧ Ops.sum cur0 stepV = .ok cur ∧ σ.store name cur = .ok σ' ∧
      neg stepV = none ∧ nextStep neg σ name toV stepV = none) ∨
    (∃ cur0 cur σ' b e, σ.fetch name = .ok cur0 ∧ Ops.sum cur0 stepV = .ok cur ∧ σ.store name cur = .ok σ' ∧
      neg stepV = some b ∧ (if b = true then Ops.less cur toV else Ops.less toV cur) = .error e ∧
      nextStep neg σ name toV stepV = some (.error e)) ∨
    (∃ cur0 cur σ' b done, σ.fetch name = .ok cur0 ∧ Ops.sum cur0 stepV = .ok cur ∧ σ.store name cur = .ok σ' ∧
      neg stepV = some b ∧ (if b = true then Ops.less cur toV else Ops.less toV cur) = .ok done ∧
      nextStep neg σ name toV stepV = some (.ok (σ', !(done == .int (-1))))) := by
  cases hfetch : σ.fetch name with
  | error e => exact .inl ⟨e, rfl, by unfold nextStep; simp only [hfetch, bind, Except.bind]⟩
  | ok cur0 =>
    cases hsum : Ops.sum cur0 stepV with
    | error e =>
      exact .inr (.inl ⟨cur0, e, rfl, hsum, by unfold nextStep; simp only [hfetch, bind, Except.bind, hsum]⟩)
    | ok cur =>
      cases hstore : σ.store name cur with
      | error e =>
        exact .inr (.inr (.inl ⟨cur0, cur, e, rfl, hsum, hstore,
          by unfold nextStep; simp only [hfetch, bind, Except.bind, hsum, hstore]⟩))
      | ok σ' =>
        cases hneg : neg stepV with
        | none =>
          exact .inr (.inr (.inr (.inl ⟨cur0, cur, σ', rfl, hsum, hstore, rfl,
            by unfold nextStep; simp only [hfetch, bind, Except.bind, hsum, hstore, hneg]⟩)))
        | some b =>
          cases hdone : (if b = true then Ops.less cur toV else Ops.less toV cur) with
          | error e =>
            exact .inr (.inr (.inr (.inr (.inl ⟨cur0, cur, σ', b, e, rfl, hsum, hstore, rfl, hdone,
              by unfold nextStep; simp only [hfetch, bind, Except.bind, hsum, hstore, hneg, hdone]⟩))))
          | ok done =>
            exact .inr (.inr (.inr (.inr (.inr ⟨cur0, cur, σ', b, done, rfl, hsum, hstore, rfl, hdone,
              by unfold nextStep; simp only [hfetch, bind, Except.bind, hsum, hstore, hneg, hdone]⟩))))

theorem exists_of_fst {α : Type} {r : Except Error α × Runtime} {e : Error} (h : r.1 = .error e) :
    ∃ s', r = (.error e, s') := ⟨r.2, by rw [← h]⟩

/-- **NEXT on a stack whose top is the frame of its loop** does what `Spec.nextStep` says (sign of the
    step as the machine computes it): go round again — control to the body, frame kept —, leave the
    loop — frame dropped, control falls through —, or the error; in the first two cases only `vars`
    (and `pc`, resp. `stack`) change -/
theorem doNext_frame (s : Runtime) (σ : Array Val) (toV stepV : Val) (vn name : Str) (addr : Nat)
    (hst : s.stack = σ ++ forFrame toV stepV vn addr) (hname : name = [] ∨ vn = name)
    (hb : s.stack.size ≤ Gen.stackMaxLen) :
    (∀ e, nextStep stepNeg s.vars vn toV stepV = some (.error e) →
      ∃ s', ((doNext name).run).run s = (.error e, s')) ∧
    (∀ vars', nextStep stepNeg s.vars vn toV stepV = some (.ok (vars', true)) →
      ((doNext name).run).run s = (.ok (), { s with vars := vars', pc := addr })) ∧
    (∀ vars', nextStep stepNeg s.vars vn toV stepV = some (.ok (vars', false)) →
      ((doNext name).run).run s = (.ok (), { s with vars := vars', stack := σ })) := by
  have hst' : s.stack = (((σ.push toV).push stepV).push (.str vn)).push (.nxt addr) := by
    rw [hst]; apply Array.ext'; simp [forFrame]
  have hcond : (!name.isEmpty && decide (vn ≠ name)) = false := by
    rcases hname with h | h
    · subst h; rfl
    · subst h; simp
  rcases nextStep_cases stepNeg s.vars vn toV stepV with ⟨e, hfetch, hn⟩ | ⟨cur0, e, hfetch, hsum, hn⟩ |
    ⟨cur0, cur, e, hfetch, hsum, hstore, hn⟩ | ⟨cur0, cur, σ', hfetch, hsum, hstore, hneg, hn⟩ |
    ⟨cur0, cur, σ', b, e, hfetch, hsum, hstore, hneg, hdone, hn⟩ |
    ⟨cur0, cur, σ', b, done, hfetch, hsum, hstore, hneg, hdone, hn⟩
  · rw [hn]
    refine ⟨?_, (by intro _ h; cases h), (by intro _ h; cases h)⟩
    intro e' he
    obtain rfl : e = e' := by injection he with he; injection he
    refine exists_of_fst ?_
    unfold doNext
    simp only [run_bind, run_get]
    unfold doNext.loop
    simp only [run_bind, run_get, run_pop, hst', Array.back?_push, Array.pop_push, run_pure, hcond,
      Bool.false_eq_true, if_false, run_liftE, hfetch]
  · rw [hn]
    refine ⟨?_, (by intro _ h; cases h), (by intro _ h; cases h)⟩
    intro e' he
    obtain rfl : e = e' := by injection he with he; injection he
    refine exists_of_fst ?_
    unfold doNext
    simp only [run_bind, run_get]
    unfold doNext.loop
    simp only [run_bind, run_get, run_pop, hst', Array.back?_push, Array.pop_push, run_pure, hcond,
      Bool.false_eq_true, if_false, run_liftE, hfetch, hsum]
  · rw [hn]
    refine ⟨?_, (by intro _ h; cases h), (by intro _ h; cases h)⟩
    intro e' he
    obtain rfl : e = e' := by injection he with he; injection he
    refine exists_of_fst ?_
    unfold doNext
    simp only [run_bind, run_get]
    unfold doNext.loop
    simp only [run_bind, run_get, run_pop, hst', Array.back?_push, Array.pop_push, run_pure, hcond,
      Bool.false_eq_true, if_false, run_liftE, hfetch, hsum, hstore]
  · rw [hn]
    refine ⟨?_, ?_, ?_⟩ <;> (intro _ h; cases h)
  · rw [hn]
    refine ⟨?_, (by intro _ h; cases h), (by intro _ h; cases h)⟩
    intro e' he
    obtain rfl : e = e' := by injection he with he; injection he
    refine exists_of_fst ?_
    unfold stepNeg at hneg
    cases hstep : stepV.toF64 with
    | error x => rw [hstep] at hneg; cases hneg
    | ok st =>
      rw [hstep] at hneg
      obtain rfl : decide (st < 0) = b := by injection hneg
      unfold doNext
      simp only [run_bind, run_get]
      unfold doNext.loop
      simp only [run_bind, run_get, run_pop, hst', Array.back?_push, Array.pop_push, run_pure, hcond,
        Bool.false_eq_true, if_false, run_liftE, hfetch, hsum, hstore, run_modify, hstep]
      by_cases h0 : st < 0
      · simp only [h0, decide_true, if_true] at hdone
        simp only [h0, if_true, hdone]
      · simp only [h0, decide_false, Bool.false_eq_true, if_false] at hdone
        simp only [h0, if_false, hdone]
  · rw [hn]
    unfold stepNeg at hneg
    cases hstep : stepV.toF64 with
    | error x => rw [hstep] at hneg; cases hneg
    | ok st =>
      rw [hstep] at hneg
      obtain rfl : decide (st < 0) = b := by injection hneg
      have hdone' : (if st < 0 then Ops.less cur toV else Ops.less toV cur) = .ok done := by
        simpa using hdone
      have key := run_doNext s σ toV stepV vn name addr cur0 cur σ' st done hst hname hfetch hsum hstore
        hstep hdone' hb
      refine ⟨?_, ?_, ?_⟩
      · intro _ h; cases h
      · intro vars' hv
        simp only [Option.some.injEq, Except.ok.injEq, Prod.mk.injEq] at hv
        obtain ⟨rfl, hd⟩ := hv
        have hd' : done ≠ .int (-1) := by simpa using hd
        rw [key, if_pos hd']
      · intro vars' hv
        simp only [Option.some.injEq, Except.ok.injEq, Prod.mk.injEq] at hv
        obtain ⟨rfl, hd⟩ := hv
        have hd' : ¬ (done ≠ .int (-1)) := by simpa using hd
        rw [key, if_neg hd']

theorem Goes.congr {env : Env} {hie : Bool} {s s1 s2 : Runtime} (h : Goes env hie s s1) (e : s1 = s2) :
    Goes env hie s s2 := e ▸ h

/-- the outcome of the passes of a FOR loop, started at the first op of the body with the frame on
    top of `base`: the loop is left with the frame dropped, past the NEXT -/
def LoopEnds (env : Env) (hie : Bool) (lb : Nat) (t : Runtime) (base : Array Val) : Res Var → Prop
  | .ok σ' => Goes env hie t { t with pc := t.pc + (lb + 1), stack := base, vars := σ' }
  | .error e => Fails env hie t e

/-- **the passes of a FOR loop**: body, NEXT, and round again while NEXT says so -/
theorem for_loop {env : Env} {hie : Bool} {body : Nat → List Opcode} {fb : Trans} (lb : Nat)
    (hlb : ∀ a, (body a).length = lb) (hb : Implements env hie body fb) (name : Str) (toV stepV : Val) (n : Nat) :
    ∀ (t : Runtime) (base : Array Val), t.stack = base ++ forFrame toV stepV name t.pc →
      CodeAt t.program.link.ops t.pc (body t.pc ++ [Opcode.next name]) → t.tron = false →
      t.stack.size + lb ≤ Gen.stackMaxLen → (hie = false ∨ t.entryAddress ≤ t.pc) →
      ∀ r, forIter stepNeg fb name toV stepV n t.vars = some r → LoopEnds env hie lb t base r := by
  induction n with
  | zero => intro t base _ _ _ _ _ r hr; cases hr
  | succ n ih =>
    intro t base hst hcode htr hroom hgate r hr
    simp only [forIter, forStepT] at hr
    have hpb : Placed hie body t := ⟨hcode.left, htr, by rw [hlb]; exact hroom, hgate⟩
    cases hf : fb t.vars with
    | none => rw [hf] at hr; cases hr
    | some r1 =>
      have e1 := hb t hpb r1 hf
      rw [hlb] at e1
      rw [hf] at hr
      cases r1 with
      | error e =>
        simp only [Option.some.injEq] at hr
        subst hr
        exact e1
      | ok σ1 =>
        have e1' : Goes env hie t { t with pc := t.pc + lb, vars := σ1 } := e1
        have hop := hcode.right.head
        rw [hlb] at hop
        have hs := run_step_next env hie { t with pc := t.pc + lb, vars := σ1 } name htr hop
        obtain ⟨hE, hT, hF⟩ := doNext_frame { t with pc := t.pc + lb + 1, vars := σ1 } base toV stepV name name t.pc
          hst (.inr rfl) (by show t.stack.size ≤ _; omega)
        dsimp only at hr
        cases hn : nextStep stepNeg σ1 name toV stepV with
        | none => rw [hn] at hr; cases hr
        | some rn =>
          rw [hn] at hr
          cases rn with
          | error e =>
            simp only [Option.some.injEq] at hr
            subst hr
            obtain ⟨s', hs'⟩ := hE e hn
            rw [hs'] at hs
            exact e1'.fails (Fails.step hs)
          | ok pr =>
            obtain ⟨σ2, again⟩ := pr
            cases again with
            | true =>
              have h2 := hT σ2 hn
              rw [h2] at hs
              have hback : Goes env hie t { t with vars := σ2 } := e1'.trans (Goes.step hs)
              have e3 := ih { t with vars := σ2 } base hst hcode htr hroom hgate r hr
              cases r with
              | error e => exact hback.fails e3
              | ok σ' => exact hback.trans e3
            | false =>
              simp only [Option.some.injEq] at hr
              subst hr
              have h2 := hF σ2 hn
              rw [h2] at hs
              exact (e1'.trans (Goes.step hs)).congr (by rw [Nat.add_assoc])

theorem step_literal_room (env : Env) (hie : Bool) (s : Runtime) (v : Val) (htr : s.tron = false)
    (hop : s.program.link.ops[s.pc]? = some (.literal v)) (hroom : s.stack.size + 1 ≤ Gen.stackMaxLen) :
    ((step env hie).run).run s = (.ok .continue, { s with pc := s.pc + 1, stack := s.stack.push v }) := by
  rw [run_step_literal env hie s v htr hop, if_neg (by omega)]

/-- the length of the code FOR runs before the first pass -/
def forInitLen (a b s : Expr) : Nat := (flat a).length + 1 + (flat b).length + (flat s).length + 2

/-- the code of `FOR name = a TO b STEP s : p : NEXT name` (`lb` = the length of the body): start
    value, assignment, limit, step, the name and the address of the body as a `nxt` frame; the body;
    NEXT -/
def forCode (name : Str) (a b s : Expr) (body : Nat → List Opcode) (start : Nat) : List Opcode :=
  flat a ++ ([Opcode.pop name] ++ (flat b ++ (flat s ++ ([Opcode.literal (.str name)] ++
    ([Opcode.literal (.nxt (start + forInitLen a b s))] ++ (body (start + forInitLen a b s) ++ [Opcode.next name]))))))

theorem forCode_length (name : Str) (a b s : Expr) (lb : Nat) (body : Nat → List Opcode)
    (hlb : ∀ x, (body x).length = lb) (start : Nat) :
    (forCode name a b s body start).length = forInitLen a b s + lb + 1 := by
  simp only [forCode, forInitLen, List.length_append, List.length_singleton, hlb]
  omega

/-- **FOR … NEXT** with pure start, limit and step -/
theorem implements_for {env : Env} {hie : Bool} {a b st : Expr} (hpa : Spec.Pure a) (hpb : Spec.Pure b)
    (hps : Spec.Pure st) {body : Nat → List Opcode} {fb : Trans} (lb : Nat) (hlb : ∀ x, (body x).length = lb)
    (hb : Implements env hie body fb) (name : Str) (n : Nat) :
    Implements env hie (forCode name a b st body) (forT stepNeg name a b st fb n) := by
  intro s hpl r hr
  obtain ⟨hcode, htr, hroom, hgate⟩ := hpl
  rw [forCode_length name a b st lb body hlb] at hroom ⊢
  unfold forCode at hcode
  unfold forInitLen at hroom
  simp only [forT] at hr
  -- the start value
  cases hva : eval s.vars a with
  | error e =>
    have hi : forInit s.vars name a b st = .error e := by simp only [forInit, hva, bind, Except.bind]
    rw [hi] at hr
    simp only [Option.some.injEq] at hr
    subst hr
    exact expr_fails env hie hpa s hcode.left htr (by omega) hva
  | ok x =>
    have g1 := expr_goes env hie hpa s hcode.left htr (by omega) hva
    have hs1 := run_step_pop env hie { s with pc := s.pc + (flat a).length, stack := s.stack.push x } name s.stack x
      htr hcode.right.left.head rfl
    cases hst : s.vars.store name x with
    | error e =>
      have hi : forInit s.vars name a b st = .error e := by simp only [forInit, hva, hst, bind, Except.bind]
      rw [hi] at hr
      simp only [Option.some.injEq] at hr
      subst hr
      rw [hst] at hs1
      exact g1.fails (Fails.step hs1)
    | ok σ1 =>
      rw [hst] at hs1
      have g2 : Goes env hie s { s with pc := s.pc + (flat a).length + 1, vars := σ1 } := g1.trans (Goes.step hs1)
      -- the limit
      have hcb := hcode.right.right
      simp only [List.length_singleton] at hcb
      cases hvb : eval σ1 b with
      | error e =>
        have hi : forInit s.vars name a b st = .error e := by simp only [forInit, hva, hst, hvb, bind, Except.bind]
        rw [hi] at hr
        simp only [Option.some.injEq] at hr
        subst hr
        exact g2.fails (expr_fails env hie hpb { s with pc := s.pc + (flat a).length + 1, vars := σ1 } hcb.left htr
          (by show s.stack.size + _ ≤ _; omega) hvb)
      | ok t =>
        have g3 := g2.trans (expr_goes env hie hpb { s with pc := s.pc + (flat a).length + 1, vars := σ1 } hcb.left htr
          (by show s.stack.size + _ ≤ _; omega) hvb)
        -- the step
        cases hvs : eval σ1 st with
        | error e =>
          have hi : forInit s.vars name a b st = .error e := by
            simp only [forInit, hva, hst, hvb, hvs, bind, Except.bind]
          rw [hi] at hr
          simp only [Option.some.injEq] at hr
          subst hr
          exact g3.fails (expr_fails env hie hps
            { s with pc := s.pc + (flat a).length + 1 + (flat b).length, vars := σ1, stack := s.stack.push t }
            hcb.right.left htr (by show (s.stack.push t).size + _ ≤ _; rw [Array.size_push]; omega) hvs)
        | ok sv =>
          have hi : forInit s.vars name a b st = .ok (σ1, t, sv) := by
            simp only [forInit, hva, hst, hvb, hvs, bind, Except.bind, pure, Except.pure]
          rw [hi] at hr
          dsimp only at hr
          have g4 := g3.trans (expr_goes env hie hps
            { s with pc := s.pc + (flat a).length + 1 + (flat b).length, vars := σ1, stack := s.stack.push t }
            hcb.right.left htr (by show (s.stack.push t).size + _ ≤ _; rw [Array.size_push]; omega) hvs)
          -- the frame
          have hl1 := step_literal_room env hie
            { s with pc := s.pc + (flat a).length + 1 + (flat b).length + (flat st).length, vars := σ1,
                     stack := (s.stack.push t).push sv } (.str name) htr hcb.right.right.left.head
            (by show ((s.stack.push t).push sv).size + 1 ≤ _; simp only [Array.size_push]; omega)
          have hl2 := step_literal_room env hie
            { s with pc := s.pc + (flat a).length + 1 + (flat b).length + (flat st).length + 1, vars := σ1,
                     stack := ((s.stack.push t).push sv).push (.str name) }
            (.nxt (s.pc + forInitLen a b st)) htr hcb.right.right.right.left.head
            (by show (((s.stack.push t).push sv).push (.str name)).size + 1 ≤ _; simp only [Array.size_push]; omega)
          have hpc : s.pc + (flat a).length + 1 + (flat b).length + (flat st).length + 1 + 1 =
              s.pc + forInitLen a b st := by unfold forInitLen; omega
          have g6 : Goes env hie s
              { s with pc := s.pc + forInitLen a b st, vars := σ1,
                       stack := s.stack ++ forFrame t sv name (s.pc + forInitLen a b st) } := by
            refine ((g4.trans (Goes.step hl1)).trans (Goes.step hl2)).congr ?_
            rw [hpc]
            congr 1
          -- the passes
          have hbody := hcb.right.right.right.right
          simp only [List.length_singleton] at hbody
          rw [hpc] at hbody
          have e7 := for_loop lb hlb hb name t sv n
            { s with pc := s.pc + forInitLen a b st, vars := σ1,
                     stack := s.stack ++ forFrame t sv name (s.pc + forInitLen a b st) } s.stack rfl hbody htr
            (by show (s.stack ++ forFrame t sv name _).size + lb ≤ _; simp only [Array.size_append, forFrame]
                show s.stack.size + 4 + lb ≤ _; omega)
            (hgate.imp id (fun h => Nat.le_trans h (Nat.le_add_right _ _))) r hr
          cases r with
          | error e => exact g6.fails e7
          | ok σ' => exact (g6.trans e7).congr (by simp only [Nat.add_assoc])

/-! ## the code of a structured statement -/

/-- the length of the code -/
def size : SStmt → Nat
  | .assign _ e => (flat e).length + 1
  | .seq p q => size p + size q
  | .ifThen c p => (flat c).length + 1 + size p
  | .ifThenElse c p q => (flat c).length + 1 + size p + 1 + size q
  | .while c p => (flat c).length + 1 + size p + 1
  | .for _ a b s p => forInitLen a b s + size p + 1

/-- **the code** of a structured statement placed at address `a` (the linked form: jump targets are
    absolute) -/
def compile : SStmt → Nat → List Opcode
  | .assign name e, _ => flat e ++ [Opcode.pop name]
  | .seq p q, a => compile p a ++ compile q (a + size p)
  | .ifThen c p, a => ifThenCode c (size p) (compile p) a
  | .ifThenElse c p q, a => ifElseCode c (size p) (size q) (compile p) (compile q) a
  | .while c p, a => whileCode c (size p) (compile p) a
  | .for name x y z p, a => forCode name x y z (compile p) a

theorem compile_length : ∀ (p : SStmt) (a : Nat), (compile p a).length = size p
  | .assign _ e, _ => by simp only [compile, size, List.length_append, List.length_singleton]
  | .seq p q, a => by
    simp only [compile, size, List.length_append, compile_length p, compile_length q]
  | .ifThen c p, a => by
    simp only [compile, size]
    exact ifThenCode_length c _ _ (compile_length p) a
  | .ifThenElse c p q, a => by
    simp only [compile, size]
    exact ifElseCode_length c _ _ _ _ (compile_length p) (compile_length q) a
  | .while c p, a => by
    simp only [compile, size]
    exact whileCode_length c _ _ (compile_length p) a
  | .for name x y z p, a => by
    simp only [compile, size]
    exact forCode_length name x y z _ _ (compile_length p) a

/-- **Compiled structured statements follow the semantics** (sign of a FOR step as the machine computes
    it): for every fuel, the code of `p` implements `exec fuel · p` -/
theorem exec_implemented (env : Env) (hie : Bool) :
    ∀ (fuel : Nat) (p : SStmt), p.Pure → Implements env hie (compile p) (fun σ => exec fuel σ p) := by
  intro fuel
  induction fuel with
  | zero => intro p _ s _ r hr; cases hr
  | succ fuel ih =>
    intro p hp
    cases p with
    | assign name e => exact implements_assign env hie name hp
    | seq p q =>
      have := implements_seq (size p) (compile_length p) (ih p hp.1) (ih q hp.2)
      exact this
    | ifThen c p => exact implements_ifThen hp.1 (size p) (compile_length p) (ih p hp.2)
    | ifThenElse c p q =>
      exact implements_ifThenElse hp.1 (size p) (size q) (compile_length p) (compile_length q) (ih p hp.2.1) (ih q hp.2.2)
    | «while» c p =>
      exact implements_whileStep hp.1 (size p) (compile_length p) (ih p hp.2) (ih (.while c p) hp)
    | «for» name a b st p =>
      exact implements_for hp.1 hp.2.1 hp.2.2.1 (size p) (compile_length p) (ih p hp.2.2.2) name fuel

/-! ## the sign oracle

  `Float` comparisons are opaque to the kernel, so `exec` (sign of the step by `Spec.stepNeg`) cannot be
  evaluated by `decide` on a FOR loop.  `execWith neg'` with an oracle `neg'` that answers on fewer
  values but never differently (`NegLe neg' stepNeg`) can, and its answers are answers of `exec`. -/

/-- `f'` answers whenever `f` does, and the same -/
def TransLe (f f' : Trans) : Prop := ∀ σ r, f σ = some r → f' σ = some r

theorem TransLe.refl (f : Trans) : TransLe f f := fun _ _ h => h

theorem seqT_mono {f f' g g' : Trans} (hf : TransLe f f') (hg : TransLe g g') : TransLe (seqT f g) (seqT f' g') := by
  intro σ r h
  simp only [seqT] at h ⊢
  cases hfσ : f σ with
  | none => rw [hfσ] at h; cases h
  | some r1 =>
    rw [hfσ] at h
    rw [hf σ r1 hfσ]
    cases r1 with
    | error e => exact h
    | ok σ' => exact hg σ' r h

theorem iteT_mono (c : Expr) {f f' g g' : Trans} (hf : TransLe f f') (hg : TransLe g g') :
    TransLe (iteT c f g) (iteT c f' g') := by
  intro σ r h
  simp only [iteT] at h ⊢
  cases hc : holds σ c with
  | error e => rw [hc] at h; exact h
  | ok b =>
    rw [hc] at h
    cases b with
    | true => exact hf σ r h
    | false => exact hg σ r h

theorem nextStep_mono {neg' neg : Val → Option Bool} (hn : NegLe neg' neg) (σ : Var) (name : Str) (toV stepV : Val)
    (r : Res (Var × Bool)) (h : nextStep neg' σ name toV stepV = some r) :
    nextStep neg σ name toV stepV = some r := by
  unfold nextStep at h ⊢
  cases h1 : (σ.fetch name >>= fun x => Ops.sum x stepV) with
  | error e => rw [h1] at h; exact h
  | ok cur =>
    rw [h1] at h
    dsimp only at h ⊢
    cases h2 : σ.store name cur with
    | error e => rw [h2] at h; exact h
    | ok σ' =>
      rw [h2] at h
      dsimp only at h ⊢
      cases h3 : neg' stepV with
      | none => rw [h3] at h; cases h
      | some b =>
        rw [h3] at h
        rw [hn stepV b h3]
        exact h

theorem forStepT_mono {neg' neg : Val → Option Bool} (hn : NegLe neg' neg) {f f' g g' : Trans}
    (hf : TransLe f f') (hg : TransLe g g') (name : Str) (toV stepV : Val) :
    TransLe (forStepT neg' f name toV stepV g) (forStepT neg f' name toV stepV g') := by
  intro σ r h
  simp only [forStepT] at h ⊢
  cases hfσ : f σ with
  | none => rw [hfσ] at h; cases h
  | some r1 =>
    rw [hfσ] at h
    rw [hf σ r1 hfσ]
    cases r1 with
    | error e => exact h
    | ok σ1 =>
      dsimp only at h ⊢
      cases hns : nextStep neg' σ1 name toV stepV with
      | none => rw [hns] at h; cases h
      | some rn =>
        rw [hns] at h
        rw [nextStep_mono hn σ1 name toV stepV rn hns]
        cases rn with
        | error e => exact h
        | ok pr =>
          obtain ⟨σ2, again⟩ := pr
          cases again with
          | true => exact hg σ2 r h
          | false => exact h

theorem forIter_mono {neg' neg : Val → Option Bool} (hn : NegLe neg' neg) {f f' : Trans} (hf : TransLe f f')
    (name : Str) (toV stepV : Val) (n : Nat) :
    TransLe (forIter neg' f name toV stepV n) (forIter neg f' name toV stepV n) := by
  induction n with
  | zero => intro σ r h; cases h
  | succ n ih => exact forStepT_mono hn hf ih name toV stepV

theorem forT_mono {neg' neg : Val → Option Bool} (hn : NegLe neg' neg) {f f' : Trans} (hf : TransLe f f')
    (name : Str) (a b s : Expr) (n : Nat) : TransLe (forT neg' name a b s f n) (forT neg name a b s f' n) := by
  intro σ r h
  simp only [forT] at h ⊢
  cases hi : forInit σ name a b s with
  | error e => rw [hi] at h; exact h
  | ok tr =>
    obtain ⟨σ1, t, st⟩ := tr
    rw [hi] at h
    exact forIter_mono hn hf name t st n σ1 r h

/-- an answer obtained with a weaker sign oracle is the answer with the stronger one -/
theorem execWith_mono {neg' neg : Val → Option Bool} (hn : NegLe neg' neg) :
    ∀ (fuel : Nat) (p : SStmt), TransLe (fun σ => execWith neg' fuel σ p) (fun σ => execWith neg fuel σ p) := by
  intro fuel
  induction fuel with
  | zero => intro p σ r h; cases h
  | succ fuel ih =>
    intro p
    cases p with
    | assign name e => exact TransLe.refl _
    | seq p q => exact seqT_mono (ih p) (ih q)
    | ifThen c p => exact iteT_mono c (ih p) (TransLe.refl _)
    | ifThenElse c p q => exact iteT_mono c (ih p) (ih q)
    | «while» c p => exact iteT_mono c (seqT_mono (ih p) (ih (.while c p))) (TransLe.refl _)
    | «for» name a b s p => exact forT_mono hn (ih p) name a b s fuel

/-- the oracle that knows the sign of one Integer step -/
def oneStep (k : Int16) (b : Bool) : Val → Option Bool := fun v => if v = .int k then some b else none

theorem negLe_oneStep {k : Int16} {b : Bool} (h : stepNeg (.int k) = some b) : NegLe (oneStep k b) stepNeg := by
  intro v b' hv
  unfold oneStep at hv
  split at hv
  · rename_i hv'
    subst hv'
    cases hv
    exact h
  · cases hv

/-! ## FOR with an Integer counter: the documented iteration -/

theorem tyOf_integer (σ : Var) {name : Str} (hty : Var.suffixTy name = some .integer) :
    σ.tyOf name = .ok (some .integer) := by
  unfold Var.tyOf
  rw [hty]

/-- an Integer variable (suffix `%`) reads as what was stored -/
theorem fetch_store_int {σ σ2 : Var} {name : Str} (hty : Var.suffixTy name = some .integer) (j : Int16)
    (h : σ.store name (.int j) = .ok σ2) : σ2.fetch name = .ok (.int j) := by
  unfold Var.store at h
  split at h
  · cases h
  · rw [tyOf_integer σ hty] at h
    have h' : σ.updateVal name (.int j) = σ2 := by
      simpa [bind, Except.bind, Var.insertTy, Var.insertInteger] using h
    subst h'
    by_cases hd : Var.isDefault (.int j) = true
    · have hg := Thm.C06.updateVal_get_self σ name (.int j)
      rw [if_pos hd] at hg
      have ht : (σ.updateVal name (.int j)).tyOf name = .ok (some .integer) := tyOf_integer _ hty
      rw [Thm.C06.fetch_default _ name .integer hg ht]
      have : j = 0 := by simpa [Var.isDefault] using hd
      subst this
      rfl
    · have hg := Thm.C06.updateVal_get_self σ name (.int j)
      rw [if_neg hd] at hg
      exact Thm.C06.fetch_present _ name _ hg

/-- what NEXT does to an Integer counter `i` with Integer limit and step -/
theorem nextStep_int (neg : Val → Option Bool) (σ1 : Var) (name : Str) (t k i : Int16)
    (hneg : neg (.int k) = some (decide (k < 0))) (hf : σ1.fetch name = .ok (.int i)) :
    nextStep neg σ1 name (.int t) (.int k) =
      match RStd.checkedAdd i k with
      | none => some (.error (Error.mk' Code.overflow))
      | some j =>
        match σ1.store name (.int j) with
        | .error e => some (.error e)
        | .ok σ2 => some (.ok (σ2, !(decide (if k < 0 then j < t else t < j)))) := by
  unfold nextStep
  rw [hf]
  have hs : (Except.ok (Val.int i) >>= fun x => Ops.sum x (.int k)) = Ops.ofChecked (RStd.checkedAdd i k) := rfl
  rw [hs]
  cases hc : RStd.checkedAdd i k with
  | none => rfl
  | some j =>
    simp only [Ops.ofChecked]
    rw [hneg]
    cases σ1.store name (.int j) with
    | error e => rfl
    | ok σ2 =>
      dsimp only
      by_cases hk : k < 0
      · simp only [hk, decide_true, if_true]
        show some (Except.ok (σ2, !(Ops.truth (decide (j < t)) == Val.int (-1)))) = _
        by_cases hjt : j < t <;> simp [Ops.truth, hjt]
      · simp only [hk, decide_false, Bool.false_eq_true, if_false]
        show some (Except.ok (σ2, !(Ops.truth (decide (t < j)) == Val.int (-1)))) = _
        by_cases hjt : t < j <;> simp [Ops.truth, hjt]

/-- **FOR, Integer reading.**  With an Integer loop variable (suffix `%`), Integer limit `t` and step `k`,
    a sign oracle that knows `k`, and a body that leaves the loop variable as it found it, the passes of
    the loop are the documented iteration `Spec.intFor` from the counter's current value `i` -/
theorem forIter_int (neg : Val → Option Bool) (f : Trans) (name : Str) (t k : Int16)
    (hneg : neg (.int k) = some (decide (k < 0))) (hty : Var.suffixTy name = some .integer)
    (hkeep : ∀ σ σ', f σ = some (.ok σ') → σ'.fetch name = σ.fetch name) :
    ∀ (n : Nat) (i : Int16) (σ : Var), σ.fetch name = .ok (.int i) →
      forIter neg f name (.int t) (.int k) n σ = intFor f name t k n i σ := by
  intro n
  induction n with
  | zero => intro i σ _; rfl
  | succ n ih =>
    intro i σ hi
    simp only [forIter, forStepT, intFor]
    cases hf : f σ with
    | none => rfl
    | some r1 =>
      cases r1 with
      | error e => rfl
      | ok σ1 =>
        dsimp only
        have h1 : σ1.fetch name = .ok (.int i) := by rw [hkeep σ σ1 hf, hi]
        rw [nextStep_int neg σ1 name t k i hneg h1]
        cases hc : RStd.checkedAdd i k with
        | none => rfl
        | some j =>
          dsimp only
          cases hst : σ1.store name (.int j) with
          | error e => rfl
          | ok σ2 =>
            dsimp only
            by_cases hd : (if k < 0 then j < t else t < j)
            · simp only [hd, decide_true, Bool.not_true, if_true]
            · simp only [hd, decide_false, Bool.not_false, if_false]
              exact ih j σ2 (fetch_store_int hty j hst)

end Lemmas.StructCompile
end Basic
