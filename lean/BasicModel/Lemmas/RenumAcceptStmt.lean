import BasicModel.Lemmas.RenumAccept
/-
  RENUM and the compiler, part 8: statements related by a renumbering generate related fragments.
-/
namespace Basic
namespace RenumRel
open Link Codegen

variable {φ : Nat → Nat}

theorem gr_gen_plain (op : Opcode) (c c' : Col) {st st' : Stmt}
    (h : genStatement st = (do lpush op; pure c)) (h' : genStatement st' = (do lpush op; pure c')) :
    GRs φ (genStatement st) (genStatement st') TT := by
  rw [h, h']; exact gr_gen_simple op c c'

mutual
theorem acceptStmt_rel : ∀ (st st' : Stmt), StmtRel φ st st' → ∀ (s s' : VState), VRel φ s s' →
    VRel φ (acceptStmt st s) (acceptStmt st' s')
  | .data c es, _, h, s, s', hs => by
    cases h with
    | data _ c' hes =>
      rw [acceptStmt, acceptStmt]
      exact visitStatement_rel' (gr_gen_data c c' hes) (acceptExprs_rel es _ hes s s' hs)
  | .print c es, _, h, s, s', hs => by
    cases h with
    | print _ c' hes =>
      rw [acceptStmt, acceptStmt]
      exact visitStatement_rel' (gr_gen_print c c' _ _ hes.length_eq) (acceptExprs_rel es _ hes s s' hs)
  | .def c v ps e, _, h, s, s', hs => by
    cases h with
    | «def» _ c' hv hps he =>
      rw [acceptStmt, acceptStmt]
      exact visitStatement_rel' (gr_gen_def c c' _ _ _ _ _ _ hps.length_eq)
        (acceptExpr_rel e _ he _ _ (acceptVars_rel hps (acceptVar_rel v _ hv s s' hs)))
  | .defdbl c a b, _, h, s, s', hs => by
    cases h with
    | defdbl _ c' ha hb =>
      rw [acceptStmt, acceptStmt]
      exact visitStatement_rel' (by simp only [genStatement]; exact gr_defType _ c c')
        (acceptVar_rel b _ hb _ _ (acceptVar_rel a _ ha s s' hs))
  | .defint c a b, _, h, s, s', hs => by
    cases h with
    | defint _ c' ha hb =>
      rw [acceptStmt, acceptStmt]
      exact visitStatement_rel' (by simp only [genStatement]; exact gr_defType _ c c')
        (acceptVar_rel b _ hb _ _ (acceptVar_rel a _ ha s s' hs))
  | .defsng c a b, _, h, s, s', hs => by
    cases h with
    | defsng _ c' ha hb =>
      rw [acceptStmt, acceptStmt]
      exact visitStatement_rel' (by simp only [genStatement]; exact gr_defType _ c c')
        (acceptVar_rel b _ hb _ _ (acceptVar_rel a _ ha s s' hs))
  | .defstr c a b, _, h, s, s', hs => by
    cases h with
    | defstr _ c' ha hb =>
      rw [acceptStmt, acceptStmt]
      exact visitStatement_rel' (by simp only [genStatement]; exact gr_defType _ c c')
        (acceptVar_rel b _ hb _ _ (acceptVar_rel a _ ha s s' hs))
  | .swap c a b, _, h, s, s', hs => by
    cases h with
    | swap _ c' ha hb =>
      rw [acceptStmt, acceptStmt]
      exact visitStatement_rel' (gr_gen_swap c c' _ _ _ _) (acceptVar_rel b _ hb _ _ (acceptVar_rel a _ ha s s' hs))
  | .mid c v e1 e2 e3, _, h, s, s', hs => by
    cases h with
    | mid _ c' hv h1 h2 h3 =>
      rw [acceptStmt, acceptStmt]
      exact visitStatement_rel' (gr_gen_mid c c' _ _ _ _ _ _ _ _)
        (acceptExpr_rel e3 _ h3 _ _ (acceptExpr_rel e2 _ h2 _ _ (acceptExpr_rel e1 _ h1 _ _ (acceptVar_rel v _ hv s s' hs))))
  | .for c v e1 e2 e3, _, h, s, s', hs => by
    cases h with
    | «for» _ c' hv h1 h2 h3 =>
      rw [acceptStmt, acceptStmt]
      exact visitStatement_rel' (gr_gen_for c c' _ _ _ _ _ _ _ _)
        (acceptExpr_rel e3 _ h3 _ _ (acceptExpr_rel e2 _ h2 _ _ (acceptExpr_rel e1 _ h1 _ _ (acceptVar_rel v _ hv s s' hs))))
  | .gosub c e, _, h, s, s', hs => by
    cases h with
    | gosub _ c' he =>
      rw [acceptStmt, acceptStmt]
      exact accept_operand1 he (fun _ _ hx => gr_gen_gosub 0 c c' _ _ hx) hs
  | .goto c e, _, h, s, s', hs => by
    cases h with
    | goto _ c' he =>
      rw [acceptStmt, acceptStmt]
      exact accept_operand1 he (fun _ _ hx => gr_gen_goto 0 c c' _ _ hx) hs
  | .load c e, _, h, s, s', hs => by
    cases h with
    | load _ c' he =>
      rw [acceptStmt, acceptStmt]
      exact visitStatement_rel' (gr_gen_load c c' _ _) (acceptExpr_rel e _ he s s' hs)
  | .restore c e, _, h, s, s', hs => by
    cases h with
    | restore _ c' he =>
      rw [acceptStmt, acceptStmt]
      exact accept_operand1 he (fun _ _ hx => gr_gen_restore 0 c c' _ _ hx) hs
  | .run c e, _, h, s, s', hs => by
    cases h with
    | run _ c' he =>
      rw [acceptStmt, acceptStmt]
      exact accept_operand1 he (fun _ _ hx => gr_gen_run 0 c c' _ _ hx) hs
  | .save c e, _, h, s, s', hs => by
    cases h with
    | save _ c' he =>
      rw [acceptStmt, acceptStmt]
      exact visitStatement_rel' (gr_gen_save c c' _ _) (acceptExpr_rel e _ he s s' hs)
  | .while c e, _, h, s, s', hs => by
    cases h with
    | «while» _ c' he =>
      rw [acceptStmt, acceptStmt]
      exact visitStatement_rel' (gr_gen_while c c' _ _) (acceptExpr_rel e _ he s s' hs)
  | .if c p th el, _, h, s, s', hs => by
    cases h with
    | «if» _ c' hp hth hel =>
      rw [acceptStmt, acceptStmt]
      exact visitStatement_rel' (gr_gen_if c c' _ _ _ _ _ _ hth.length_eq hel.length_eq)
        (acceptStmts_rel el _ hel _ _ (acceptStmts_rel th _ hth _ _ (acceptExpr_rel p _ hp s s' hs)))
  | .let c v e, _, h, s, s', hs => by
    cases h with
    | «let» _ c' hv he =>
      rw [acceptStmt, acceptStmt]
      exact visitStatement_rel' (gr_gen_let c c' _ _ _ _) (acceptExpr_rel e _ he _ _ (acceptVar_rel v _ hv s s' hs))
  | .delete c a b, _, h, s, s', hs => by
    cases h with
    | delete _ c' ha hb =>
      rw [acceptStmt, acceptStmt]
      exact accept_range ha hb
        (fun _ _ _ _ h1 h2 => by simp only [genStatement]; exact gr_rangeStmt .delete (.inr rfl) c c' h1 h2) hs
  | .list c a b, _, h, s, s', hs => by
    cases h with
    | list _ c' ha hb =>
      rw [acceptStmt, acceptStmt]
      exact accept_range ha hb
        (fun _ _ _ _ h1 h2 => by simp only [genStatement]; exact gr_rangeStmt .list (.inl rfl) c c' h1 h2) hs
  | .input c e1 e2 vs, _, h, s, s', hs => by
    cases h with
    | input _ c' h1 h2 hvs =>
      rw [acceptStmt, acceptStmt]
      exact visitStatement_rel' (gr_gen_input c c' _ _ _ _ _ _ hvs.length_eq)
        (acceptVars_rel hvs (acceptExpr_rel e2 _ h2 _ _ (acceptExpr_rel e1 _ h1 s s' hs)))
  | .onGoto c e ls, _, h, s, s', hs => by
    cases h with
    | onGoto _ c' he hls =>
      rw [acceptStmt, acceptStmt]
      refine accept_on hls (fun xs xs' hxs hl => ?_) (acceptExpr_rel e _ he s s' hs)
      simp only [genStatement, hls.length_eq]
      exact gr_genOn 0 c c' false hxs _ hl
  | .onGosub c e ls, _, h, s, s', hs => by
    cases h with
    | onGosub _ c' he hls =>
      rw [acceptStmt, acceptStmt]
      refine accept_on hls (fun xs xs' hxs hl => ?_) (acceptExpr_rel e _ he s s' hs)
      simp only [genStatement, hls.length_eq]
      exact gr_genOn 0 c c' true hxs _ hl
  | .renum c a b st, _, h, s, s', hs => by
    cases h with
    | renum _ c' ha hb hst =>
      rw [acceptStmt, acceptStmt]
      exact visitStatement_rel' (gr_gen_renum c c' _ _ _ _ _ _)
        (acceptExpr_rel st _ hst _ _ (acceptExpr_rel b _ hb _ _ (acceptExpr_rel a _ ha s s' hs)))
  | .dim c vs, _, h, s, s', hs => by
    cases h with
    | dim _ c' hvs =>
      rw [acceptStmt, acceptStmt]
      exact visitStatement_rel' (gr_gen_dim c c' _ _ hvs.length_eq) (acceptVars_rel hvs hs)
  | .erase c vs, _, h, s, s', hs => by
    cases h with
    | erase _ c' hvs =>
      rw [acceptStmt, acceptStmt]
      exact visitStatement_rel' (gr_gen_erase c c' _ _ hvs.length_eq) (acceptVars_rel hvs hs)
  | .next c vs, _, h, s, s', hs => by
    cases h with
    | next _ c' hvs =>
      rw [acceptStmt, acceptStmt]
      exact visitStatement_rel' (gr_gen_next c c' _ _ hvs.length_eq) (acceptVars_rel hvs hs)
  | .read c vs, _, h, s, s', hs => by
    cases h with
    | read _ c' hvs =>
      rw [acceptStmt, acceptStmt]
      exact visitStatement_rel' (gr_gen_read c c' _ _ hvs.length_eq) (acceptVars_rel hvs hs)
  | .clear c, _, h, s, s', hs => by
    cases h with
    | clear _ c' =>
      rw [acceptStmt, acceptStmt]
      · exact visitStatement_rel' (by simp only [genStatement]; exact gr_gen_simple _ c c') hs
      all_goals nofun
  | .cls c, _, h, s, s', hs => by
    cases h with
    | cls _ c' =>
      rw [acceptStmt, acceptStmt]
      · exact visitStatement_rel' (by simp only [genStatement]; exact gr_gen_simple _ c c') hs
      all_goals nofun
  | .cont c, _, h, s, s', hs => by
    cases h with
    | cont _ c' =>
      rw [acceptStmt, acceptStmt]
      · exact visitStatement_rel' (by simp only [genStatement]; exact gr_gen_simple _ c c') hs
      all_goals nofun
  | .end c, _, h, s, s', hs => by
    cases h with
    | «end» _ c' =>
      rw [acceptStmt, acceptStmt]
      · exact visitStatement_rel' (by simp only [genStatement]; exact gr_gen_simple _ c c') hs
      all_goals nofun
  | .new c, _, h, s, s', hs => by
    cases h with
    | new _ c' =>
      rw [acceptStmt, acceptStmt]
      · exact visitStatement_rel' (by simp only [genStatement]; exact gr_gen_simple _ c c') hs
      all_goals nofun
  | .return c, _, h, s, s', hs => by
    cases h with
    | «return» _ c' =>
      rw [acceptStmt, acceptStmt]
      · exact visitStatement_rel' (by simp only [genStatement]; exact gr_gen_simple _ c c') hs
      all_goals nofun
  | .stop c, _, h, s, s', hs => by
    cases h with
    | stop _ c' =>
      rw [acceptStmt, acceptStmt]
      · exact visitStatement_rel' (by simp only [genStatement]; exact gr_gen_simple _ c c') hs
      all_goals nofun
  | .troff c, _, h, s, s', hs => by
    cases h with
    | troff _ c' =>
      rw [acceptStmt, acceptStmt]
      · exact visitStatement_rel' (by simp only [genStatement]; exact gr_gen_simple _ c c') hs
      all_goals nofun
  | .tron c, _, h, s, s', hs => by
    cases h with
    | tron _ c' =>
      rw [acceptStmt, acceptStmt]
      · exact visitStatement_rel' (by simp only [genStatement]; exact gr_gen_simple _ c c') hs
      all_goals nofun
  | .wend c, _, h, s, s', hs => by
    cases h with
    | wend _ c' =>
      rw [acceptStmt, acceptStmt]
      · exact visitStatement_rel' (gr_gen_wend c c') hs
      all_goals nofun
theorem acceptStmts_rel : ∀ (sts sts' : List Stmt), StmtsRel φ sts sts' → ∀ (s s' : VState), VRel φ s s' →
    VRel φ (acceptStmts sts s) (acceptStmts sts' s')
  | [], _, h, s, s', hs => by
    cases h with
    | nil => rw [acceptStmts, acceptStmts]; exact hs
  | st :: sts, _, h, s, s', hs => by
    cases h with
    | cons hst hsts =>
      rw [acceptStmts, acceptStmts]
      exact acceptStmts_rel sts _ hsts _ _ (acceptStmt_rel st _ hst s s' hs)
end

/-- **fragments of related statement lists**: the statement stacks the generator hands to `codegen`
    are related fragment by fragment, the visiting errors are of the same kinds -/
theorem fragments_rel {ast ast' : List Stmt} (h : StmtsRel φ ast ast') :
    All₂ (EntryRel φ) (acceptStmts ast {}).g.stmt.toList (acceptStmts ast' {}).g.stmt.toList ∧
    All₂ ErrRel (acceptStmts ast {}).errors (acceptStmts ast' {}).errors :=
  let r := acceptStmts_rel ast ast' h {} {} VRel.empty
  ⟨r.g.stmt, r.errors⟩

end RenumRel
end Basic
