import BasicModel.Lemmas.Execute
/-
  A simulation relation for "the same program run from two states that differ only in what a
  running program cannot observe": `Sim col s t` (`s ≈ t`).

  Free (not related): `cont`, `contPc`; the code from `directAddress` on; the symbol table up to
  `lineNumberFor`; the compile-time fields of the program (`errors`, `lineNumber`, `currentSymbol`,
  `directSet`, `unlinked`, `whiles`); `tr` while tracing is off; and — unless `col` — `printCol`.

  `Rel col m m'`: run from `≈` states, `m` and `m'` return the same result (value or error) and end
  in `≈` states.  The calculus mirrors `Frame`: after `get` the right-hand state is the left-hand
  one with the free fields overwritten (`put`), so both sides of the walk are syntactically the
  same `do` block and `split` decomposes them together.

  Results: `execOp_rel` (every instruction except `Cont`, and — unless `col` — `Tab`/`Pos`),
  `step_sim`, `sliceRun_sim`, `finishLoop_sim`, `execute_sim`.
-/
namespace Basic
namespace Runtime
variable {α β : Type}
set_option linter.unusedSectionVars false

/-- `s ≈ t`: equal on everything a running program can observe below `directAddress`.
    Free: `cont`, `contPc`, the code from `directAddress` on, the symbol table up to
    `lineNumberFor`, the compile-time fields of the program, `tr` while tracing is off, and
    — unless `col` — the print column. -/
structure Sim (col : Bool) (s t : Runtime) : Prop where
  prompt : t.prompt = s.prompt
  listing : t.listing = s.listing
  dirty : t.dirty = s.dirty
  pc : t.pc = s.pc
  tron : t.tron = s.tron
  tr : s.tron = true → t.tr = s.tr
  entry : t.entryAddress = s.entryAddress
  stack : t.stack = s.stack
  vars : t.vars = s.vars
  state : t.state = s.state
  rand : t.rand = s.rand
  functions : t.functions = s.functions
  printCol : col = true → t.printCol = s.printCol
  indirectErrors : t.program.indirectErrors = s.program.indirectErrors
  directAddress : t.program.directAddress = s.program.directAddress
  data : t.program.link.data = s.program.link.data
  dataPos : t.program.link.dataPos = s.program.link.dataPos
  lnf : ∀ a, t.program.link.lineNumberFor a = s.program.link.lineNumberFor a
  ops : ∀ i, i < s.program.directAddress → t.program.link.ops[i]? = s.program.link.ops[i]?

/-- `s` with the free fields of `t` -/
def put (t s : Runtime) : Runtime :=
  { s with tr := t.tr, cont := t.cont, contPc := t.contPc, printCol := t.printCol,
           program := { s.program with
             errors := t.program.errors, lineNumber := t.program.lineNumber,
             link := { s.program.link with
               currentSymbol := t.program.link.currentSymbol, ops := t.program.link.ops,
               directSet := t.program.link.directSet, symbols := t.program.link.symbols,
               unlinked := t.program.link.unlinked, whiles := t.program.link.whiles } } }

theorem Sim.eq_put {col : Bool} {s t : Runtime} (h : Sim col s t) : t = put t s := by
  obtain ⟨h1, h2, h3, h4, h5, -, h7, h8, h9, h10, h11, h12, -, h14, h15, h16, h17, -, -⟩ := h
  obtain ⟨prompt, listing, dirty, program, pc, tr, tron, ea, stack, vars, state, cont, contPc, printCol,
    rand, functions⟩ := t
  obtain ⟨errors, ie, da, ln, link⟩ := program
  obtain ⟨cs, ops, data, dataPos, ds, symbols, unlinked, whiles⟩ := link
  dsimp only at h1 h2 h3 h4 h5 h7 h8 h9 h10 h11 h12 h14 h15 h16 h17
  subst h1 h2 h3 h4 h5 h7 h8 h9 h10 h11 h12 h14 h15 h16 h17
  rfl

theorem Sim.refl (col : Bool) (s : Runtime) : Sim col s s :=
  ⟨rfl, rfl, rfl, rfl, rfl, fun _ => rfl, rfl, rfl, rfl, rfl, rfl, rfl, fun _ => rfl, rfl, rfl, rfl, rfl,
   fun _ => rfl, fun _ _ => rfl⟩

/-- `m` and `m'` run from `≈` states return the same and end in `≈` states -/
structure Rel (col : Bool) (m m' : RM α) : Prop where
  run : ∀ s t, Sim col s t →
    (m'.run.run t).1 = (m.run.run s).1 ∧ Sim col (m.run.run s).2 (m'.run.run t).2

section
variable {col : Bool}

theorem Rel.ret (a : α) : Rel col (pure a : RM α) (pure a) := ⟨fun _ _ h => ⟨rfl, h⟩⟩
theorem Rel.thr (e : Error) : Rel col (throw e : RM α) (throw e) := ⟨fun _ _ h => ⟨rfl, h⟩⟩
theorem Rel.lift (r : Except Error α) : Rel col (liftE r : RM α) (liftE r) := by
  constructor; intro s t h; rw [run_liftE, run_liftE]; exact ⟨rfl, h⟩

theorem Rel.wr {a b : Runtime} (h : Sim col a b) : Rel col (set a : RM Unit) (set b) :=
  ⟨fun _ _ _ => ⟨rfl, h⟩⟩

theorem Rel.mod {g g' : Runtime → Runtime}
    (h : ∀ s t₀, Sim col s (put t₀ s) → Sim col (g s) (g' (put t₀ s))) :
    Rel col (modify g : RM Unit) (modify g') := by
  constructor
  intro s t hst
  refine ⟨rfl, ?_⟩
  show Sim col (g s) (g' t)
  have := h s t (hst.eq_put ▸ hst)
  rw [← hst.eq_put] at this
  exact this

theorem Rel.seq {m m' : RM α} {f f' : α → RM β}
    (hm : Rel col m m') (hf : ∀ a, Rel col (f a) (f' a)) : Rel col (m >>= f) (m' >>= f') := by
  constructor
  intro s t hst
  obtain ⟨h1, h2⟩ := hm.run s t hst
  rw [run_bind, run_bind]
  rcases hs : m.run.run s with ⟨r, s'⟩
  rcases ht : m'.run.run t with ⟨r', t'⟩
  rw [hs, ht] at h1 h2
  dsimp only at h1 h2
  subst h1
  cases r' with
  | ok a => exact (hf a).run s' t' h2
  | error e => exact ⟨rfl, h2⟩

/-- after `get` both sides continue with the state read; the right one is the left one up to
    the free fields -/
theorem Rel.rd_seq {f f' : Runtime → RM β}
    (hf : ∀ s t₀, Sim col s (put t₀ s) → Rel col (f s) (f' (put t₀ s))) :
    Rel col (get >>= f) (get >>= f') := by
  constructor
  intro s t hst
  rw [run_bind_ok (run_get s), run_bind_ok (run_get t)]
  have := hf s t (hst.eq_put ▸ hst)
  rw [← hst.eq_put] at this
  exact this.run s t hst

theorem Rel.forLoop {γ : Type} (l : List γ) (init : β) (f f' : γ → β → RM (ForInStep β))
    (hf : ∀ a b, Rel col (f a b) (f' a b)) : Rel col (forIn l init f) (forIn l init f') := by
  induction l generalizing init with
  | nil => exact Rel.ret _
  | cons a as ih =>
    rw [List.forIn_cons, List.forIn_cons]
    refine Rel.seq (hf a init) ?_
    intro r
    cases r with
    | done b => exact Rel.ret _
    | yield b => exact ih b

end

/- closes `Sim col a b` where `b` is `a`'s update applied to `put t₀ s`, from the hypothesis
   `hg : Sim col s (put t₀ s)` introduced last (the macros are unhygienic on purpose: the names
   `s`, `t₀`, `hg` of a later `get` shadow those of an earlier one, as in the source) -/
set_option hygiene false in
macro "sim_rel" : tactic =>
  `(tactic| (constructor <;> first
      | rfl
      | exact hg.tr
      | exact hg.printCol
      | exact hg.lnf
      | exact hg.ops
      | (intro _; exact hg.lnf _)
      | (intro h; exact absurd h Bool.false_ne_true)
      | (intro hc; have hp := hg.printCol hc; dsimp only [put] at hp ⊢; rw [hp])))

syntax "rel_known" : tactic
macro_rules | `(tactic| rel_known) => `(tactic| assumption)

set_option hygiene false in
macro "rel_step" : tactic =>
  `(tactic| first
    | with_reducible exact Rel.ret _
    | with_reducible exact Rel.thr _
    | with_reducible exact Rel.lift _
    | rel_known
    | ((with_reducible apply Rel.wr); sim_rel)
    | ((with_reducible apply Rel.mod); intro s t₀ hg; sim_rel)
    | ((with_reducible apply Rel.rd_seq); intro s t₀ hg; dsimp only [put])
    | ((with_reducible apply Rel.forLoop); intro _ _)
    | with_reducible apply Rel.seq
    | intro _
    | split)

macro "rel" : tactic =>
  `(tactic| (try dsimp only
             repeat' rel_step))

variable {col : Bool} {env : Env} {h : Bool}

theorem rel_push (v : Val) : Rel col (push v) (push v) := by
  unfold push; rel
macro_rules | `(tactic| rel_known) => `(tactic| with_reducible exact rel_push _)

theorem rel_pop : Rel col pop pop := by
  unfold pop; rel
macro_rules | `(tactic| rel_known) => `(tactic| with_reducible exact rel_pop)

theorem rel_pop2 : Rel col pop2 pop2 := by
  unfold pop2; rel
macro_rules | `(tactic| rel_known) => `(tactic| with_reducible exact rel_pop2)

theorem rel_popN (n : Nat) : Rel col (popN n) (popN n) := by
  unfold popN; rel
macro_rules | `(tactic| rel_known) => `(tactic| with_reducible exact rel_popN _)

theorem rel_popVec : Rel col popVec popVec := by
  unfold popVec; rel
macro_rules | `(tactic| rel_known) => `(tactic| with_reducible exact rel_popVec)

theorem rel_pop1Push (f : Val → Res Val) : Rel col (pop1Push f) (pop1Push f) := by
  unfold pop1Push; rel
macro_rules | `(tactic| rel_known) => `(tactic| with_reducible exact rel_pop1Push _)

theorem rel_pop2Push (f : Val → Val → Res Val) : Rel col (pop2Push f) (pop2Push f) := by
  unfold pop2Push; rel
macro_rules | `(tactic| rel_known) => `(tactic| with_reducible exact rel_pop2Push _)

theorem rel_doDef (name : Str) : Rel col (doDef name) (doDef name) := by
  unfold doDef; rel
macro_rules | `(tactic| rel_known) => `(tactic| with_reducible exact rel_doDef _)

theorem rel_doDefType (f : Var → Val → Val → Res Var) : Rel col (doDefType f) (doDefType f) := by
  unfold doDefType; rel
macro_rules | `(tactic| rel_known) => `(tactic| with_reducible exact rel_doDefType _)

theorem rel_doFn (name : Str) : Rel col (doFn name) (doFn name) := by
  unfold doFn; rel
macro_rules | `(tactic| rel_known) => `(tactic| with_reducible exact rel_doFn _)

theorem rel_doLetMid : Rel col doLetMid doLetMid := by
  unfold doLetMid; rel
macro_rules | `(tactic| rel_known) => `(tactic| with_reducible exact rel_doLetMid)

theorem rel_doOn : Rel col doOn doOn := by
  unfold doOn; rel
macro_rules | `(tactic| rel_known) => `(tactic| with_reducible exact rel_doOn)

theorem rel_doSwap : Rel col doSwap doSwap := by
  unfold doSwap; rel
macro_rules | `(tactic| rel_known) => `(tactic| with_reducible exact rel_doSwap)

theorem rel_doRead : Rel col doRead doRead := by
  unfold doRead
  dsimp only
  apply Rel.rd_seq; intro s t₀ hg
  dsimp only [put, Link.readData]
  cases s.program.link.data[s.program.link.dataPos]? <;> rel
macro_rules | `(tactic| rel_known) => `(tactic| with_reducible exact rel_doRead)

theorem rel_doNext_loop (name : Str) : ∀ fuel, Rel col (doNext.loop name fuel) (doNext.loop name fuel) := by
  intro fuel
  induction fuel with
  | zero => unfold doNext.loop; rel
  | succ k ih =>
    unfold doNext.loop; rel

theorem rel_doNext (name : Str) : Rel col (doNext name) (doNext name) := by
  have := rel_doNext_loop (col := col) name
  unfold doNext; rel
  exact this _
macro_rules | `(tactic| rel_known) => `(tactic| with_reducible exact rel_doNext _)

theorem rel_doReturn_loop : ∀ fuel rv first, Rel col (doReturn.loop fuel rv first) (doReturn.loop fuel rv first) := by
  intro fuel
  induction fuel with
  | zero => intro rv first; unfold doReturn.loop; rel
  | succ k ih =>
    intro rv first
    unfold doReturn.loop; rel
    all_goals exact ih _ _

theorem rel_doReturn : Rel col doReturn doReturn := by
  have := rel_doReturn_loop (col := col)
  unfold doReturn; rel
  exact this _ _ _
macro_rules | `(tactic| rel_known) => `(tactic| with_reducible exact rel_doReturn)

/-- `doEnd` touches `state`, `cont` and `contPc` only -/
theorem doEnd_eq (s : Runtime) :
    doEnd s = { s with state := .stopped, cont := (doEnd s).cont, contPc := (doEnd s).contPc } := by
  unfold doEnd
  dsimp only
  split <;> split <;> rfl

theorem sim_doEnd {s t : Runtime} (h : Sim col s t) : Sim col (doEnd s) (doEnd t) := by
  rw [doEnd_eq s, doEnd_eq t]
  constructor <;> first
    | exact h.prompt | exact h.listing | exact h.dirty | exact h.pc | exact h.tron | exact h.tr
    | exact h.entry | exact h.stack | exact h.vars | exact h.rand | exact h.functions
    | exact h.printCol | exact h.indirectErrors | exact h.directAddress | exact h.data | exact h.dataPos
    | exact h.lnf | exact h.ops | rfl

theorem rel_doEnd : Rel col (modify doEnd) (modify doEnd) := by
  constructor
  intro s t h
  exact ⟨rfl, sim_doEnd h⟩
macro_rules | `(tactic| rel_known) => `(tactic| with_reducible exact rel_doEnd)

theorem rel_doInput (n : Str) : Rel col (doInput n) (doInput n) := by unfold doInput; rel
macro_rules | `(tactic| rel_known) => `(tactic| with_reducible exact rel_doInput _)
theorem rel_doList : Rel col doList doList := by unfold doList; rel
macro_rules | `(tactic| rel_known) => `(tactic| with_reducible exact rel_doList)
theorem rel_fileOp (mk : Str → Event) (b : Bool) : Rel col (fileOp mk b) (fileOp mk b) := by
  unfold fileOp; rel
macro_rules | `(tactic| rel_known) => `(tactic| with_reducible exact rel_fileOp _ _)
theorem rel_doDelete : Rel col doDelete doDelete := by unfold doDelete; rel
macro_rules | `(tactic| rel_known) => `(tactic| with_reducible exact rel_doDelete)
theorem rel_doRenum (env : Env) : Rel col (doRenum env) (doRenum env) := by unfold doRenum; rel
macro_rules | `(tactic| rel_known) => `(tactic| with_reducible exact rel_doRenum _)

theorem rel_doPrint : Rel col doPrint doPrint := by unfold doPrint; rel
macro_rules | `(tactic| rel_known) => `(tactic| with_reducible exact rel_doPrint)

/-- the instructions `≈` is a simulation for: all but `Cont` (which reads the continuation) and,
    unless the print columns agree, `Tab` and `Pos` (which read the column) -/
def simOk (col : Bool) : Opcode → Bool
  | .cont => false
  | .tab | .pos => col
  | _ => true

theorem rel_pos : Rel true (execOp env h .pos) (execOp env h .pos) := by
  simp only [execOp]
  apply Rel.seq rel_popVec; intro _
  apply Rel.rd_seq; intro s t₀ hg
  have hp := hg.printCol rfl
  dsimp only [put] at hp ⊢
  rw [hp]
  rel

theorem rel_tab : Rel true (execOp env h .tab) (execOp env h .tab) := by
  simp only [execOp]
  apply Rel.seq rel_pop; intro _
  apply Rel.rd_seq; intro s t₀ hg
  have hp := hg.printCol rfl
  dsimp only [put] at hp ⊢
  rw [hp]
  rel

theorem execOp_rel (env : Env) (h : Bool) (op : Opcode) (hop : simOk col op = true) :
    Rel col (execOp env h op) (execOp env h op) := by
  cases op <;> first
    | (simp [simOk] at hop; done)
    | (simp only [execOp]; rel; done)
    | (simp only [simOk] at hop; subst hop; first | exact rel_pos | exact rel_tab)

/-! ### one step -/

/-- the instruction about to be fetched lies in the program proper and is one `≈` simulates -/
def InProg (col : Bool) (s : Runtime) : Prop :=
  s.pc < s.program.directAddress ∧ ∀ op, s.program.link.ops[s.pc]? = some op → simOk col op = true

theorem sim_with_tr {s t : Runtime} (hst : Sim col s t) (x : Option Nat) :
    Sim col { s with tr := x } { t with tr := x } :=
  ⟨hst.prompt, hst.listing, hst.dirty, hst.pc, hst.tron, fun _ => rfl, hst.entry, hst.stack, hst.vars,
   hst.state, hst.rand, hst.functions, hst.printCol, hst.indirectErrors, hst.directAddress, hst.data,
   hst.dataPos, hst.lnf, hst.ops⟩

theorem sim_with_pc {s t : Runtime} (hst : Sim col s t) :
    Sim col { s with pc := s.pc + 1 } { t with pc := t.pc + 1 } :=
  ⟨hst.prompt, hst.listing, hst.dirty, by show t.pc + 1 = s.pc + 1; rw [hst.pc], hst.tron, hst.tr,
   hst.entry, hst.stack, hst.vars, hst.state, hst.rand, hst.functions, hst.printCol, hst.indirectErrors,
   hst.directAddress, hst.data, hst.dataPos, hst.lnf, hst.ops⟩

theorem fetchExec_sim (env : Env) (h : Bool) {s t : Runtime} (hst : Sim col s t) (hin : InProg col s) :
    ((fetchExec env h).run.run t).1 = ((fetchExec env h).run.run s).1 ∧
    Sim col ((fetchExec env h).run.run s).2 ((fetchExec env h).run.run t).2 := by
  rw [run_fetchExec, run_fetchExec, hst.pc, hst.ops s.pc hin.1]
  cases hq : s.program.link.ops[s.pc]? with
  | none => exact ⟨rfl, hst⟩
  | some op =>
    dsimp only
    have := (execOp_rel env h op (hin.2 op hq)).run _ _ (sim_with_pc hst)
    rw [hst.pc] at this
    exact this

/-- the text TRON prints when a new line is reached -/
def traceText (n : Nat) : Str := '[' :: RStd.natDigits n ++ [']']

/-- `step` in closed form: the trace part prints `[n]`, or (possibly after updating `tr`) the
    instruction is fetched and executed -/
theorem step_run (env : Env) (h : Bool) (s : Runtime) :
    (step env h).run.run s =
      if s.tron = true ∧ s.program.link.lineNumberFor s.pc ≠ s.tr then
        match s.program.link.lineNumberFor s.pc with
        | some n =>
          (.ok (.event (.print (traceText n))),
           { s with tr := some n, printCol := s.printCol + (traceText n).length })
        | none => (fetchExec env h).run.run { s with tr := none }
      else (fetchExec env h).run.run s := by
  rw [step_eq, run_bind_ok (run_get s)]
  unfold traceOf
  by_cases h1 : s.tron = true
  · rw [if_pos h1]
    by_cases h2 : s.program.link.lineNumberFor s.pc ≠ s.tr
    · rw [if_pos h2, if_pos ⟨h1, h2⟩]
      cases s.program.link.lineNumberFor s.pc <;> rfl
    · rw [if_neg h2, if_neg (fun hh => h2 hh.2)]
      rfl
  · rw [if_neg h1, if_neg (fun hh => h1 hh.1)]
    rfl

/-- `step` from `≈` states, in the program proper: same result, `≈` states -/
theorem step_sim (env : Env) (h : Bool) {s t : Runtime} (hst : Sim col s t) (hin : InProg col s) :
    ((step env h).run.run t).1 = ((step env h).run.run s).1 ∧
    Sim col ((step env h).run.run s).2 ((step env h).run.run t).2 := by
  have hl : t.program.link.lineNumberFor t.pc = s.program.link.lineNumberFor s.pc := by
    rw [hst.lnf, hst.pc]
  rw [step_run env h s, step_run env h t]
  by_cases hc : s.tron = true ∧ s.program.link.lineNumberFor s.pc ≠ s.tr
  · have hc' : t.tron = true ∧ t.program.link.lineNumberFor t.pc ≠ t.tr := by
      rw [hl, hst.tron, hst.tr hc.1]; exact hc
    rw [if_pos hc, if_pos hc', hl]
    cases s.program.link.lineNumberFor s.pc with
    | none =>
      have hin' : InProg col { s with tr := none } := hin
      exact fetchExec_sim env h (sim_with_tr hst none) hin'
    | some n =>
      refine ⟨rfl, ?_⟩
      have := sim_with_tr hst (some n)
      exact ⟨this.prompt, this.listing, this.dirty, this.pc, this.tron, this.tr, this.entry, this.stack,
        this.vars, this.state, this.rand, this.functions,
        fun hc => by
          show t.printCol + _ = s.printCol + _
          rw [hst.printCol hc],
        this.indirectErrors, this.directAddress, this.data, this.dataPos, this.lnf, this.ops⟩
  · have hc' : ¬ (t.tron = true ∧ t.program.link.lineNumberFor t.pc ≠ t.tr) := by
      intro hh
      rw [hl, hst.tron] at hh
      exact hc ⟨hh.1, by rw [← hst.tr hh.1]; exact hh.2⟩
    rw [if_neg hc, if_neg hc']
    exact fetchExec_sim env h hst hin

/-! ### slices -/

/-- along the first `n` steps of the slice from `s`, as long as it goes on, the next instruction
    is in the program proper and simulated -/
def StaysInProg (col : Bool) (env : Env) (h : Bool) (n : Nat) (s : Runtime) : Prop :=
  ∀ k, k < n → (sliceRun env h k s).1 = .ok none → InProg col (sliceRun env h k s).2.1

theorem staysInProg_step {env : Env} {h : Bool} {n : Nat} {s s' : Runtime}
    (hs : StaysInProg col env h (n + 1) s) (hstep : (step env h).run.run s = (.ok .continue, s')) :
    StaysInProg col env h n s' := by
  intro k hk hr
  have := hs (k + 1) (by omega)
  rw [sliceRun_succ, hstep] at this
  exact this hr

/-- slices from `≈` states: same result (event, error or exhausted quantum), same number of
    instructions, `≈` states -/
theorem sliceRun_sim (env : Env) (h : Bool) (n : Nat) {s t : Runtime} (hst : Sim col s t)
    (hs : StaysInProg col env h n s) :
    (sliceRun env h n t).1 = (sliceRun env h n s).1 ∧
    (sliceRun env h n t).2.2 = (sliceRun env h n s).2.2 ∧
    Sim col (sliceRun env h n s).2.1 (sliceRun env h n t).2.1 := by
  induction n generalizing s t with
  | zero => exact ⟨rfl, rfl, hst⟩
  | succ k ih =>
    have hin : InProg col s := hs 0 (by omega) rfl
    obtain ⟨h1, h2⟩ := step_sim env h hst hin
    rw [sliceRun_succ, sliceRun_succ]
    rcases hs' : (step env h).run.run s with ⟨r, s'⟩
    rcases ht' : (step env h).run.run t with ⟨r', t'⟩
    rw [hs', ht'] at h1 h2
    dsimp only at h1 h2
    subst h1
    rcases r' with e | st
    · exact ⟨rfl, rfl, h2⟩
    · cases st with
      | «continue» =>
        have := ih h2 (staysInProg_step hs hs')
        exact ⟨this.1, by dsimp only; rw [this.2.1], this.2.2⟩
      | event e => exact ⟨rfl, rfl, h2⟩

/-! ### `execute` -/

/-- closes `Sim col a b` when `a`, `b` are `s`, `t` with the same fields replaced by the same
    values (or free fields replaced by anything) -/
macro "sim_from " h:ident : tactic =>
  `(tactic| (constructor <;> first
      | exact ($h).prompt | exact ($h).listing | exact ($h).dirty | exact ($h).pc | exact ($h).tron
      | exact ($h).tr | exact ($h).entry | exact ($h).stack | exact ($h).vars | exact ($h).state
      | exact ($h).rand | exact ($h).functions | exact ($h).printCol | exact ($h).indirectErrors
      | exact ($h).directAddress | exact ($h).data | exact ($h).dataPos | exact ($h).lnf | exact ($h).ops
      | rfl | (intro _; rfl)))

theorem hasIndirectErrors_sim {s t : Runtime} (hst : Sim col s t) :
    hasIndirectErrors t = hasIndirectErrors s := by
  unfold hasIndirectErrors; rw [hst.listing]

theorem lineNumber_sim {s t : Runtime} (hst : Sim col s t) : lineNumber t = lineNumber s := by
  unfold lineNumber; rw [hst.lnf, hst.pc]

theorem readyPrompt_sim {s t : Runtime} (hst : Sim col s t) :
    Sim col (readyPrompt s).1 (readyPrompt t).1 ∧
    ((readyPrompt t).2.isSome = (readyPrompt s).2.isSome) ∧
    (col = true → (readyPrompt t).2 = (readyPrompt s).2) := by
  unfold readyPrompt
  rw [hst.entry]
  by_cases he : s.entryAddress ≠ 0
  · rw [if_pos he, if_pos he]
    refine ⟨by sim_from hst, rfl, ?_⟩
    intro hc
    dsimp only
    rw [hst.printCol hc, hst.prompt]
  · rw [if_neg he, if_neg he]
    exact ⟨hst, rfl, fun _ => rfl⟩

/-- what `execute` does with the result of a slice, from `≈` states: `≈` states again; the
    same event, except that the READY prompt printed when the program ends starts with a line
    break iff the column is not 0 (so the events agree if the columns do) -/
theorem finishLoop_sim (r : Except Error Event) {s t : Runtime} (hst : Sim col s t) :
    Sim col (finishLoop r s).1 (finishLoop r t).1 ∧
    ((col = true ∨ r ≠ .ok .stopped) → (finishLoop r t).2 = (finishLoop r s).2) := by
  cases r with
  | error e =>
    refine ⟨?_, fun _ => ?_⟩
    · have hl : lineNumber t = lineNumber s := lineNumber_sim hst
      obtain ⟨t₀, rfl⟩ : ∃ t₀, t = put t₀ s := ⟨t, hst.eq_put⟩
      unfold finishLoop
      dsimp only
      rw [hl]
      repeat' split
      all_goals first
        | contradiction
        | sim_from hst
    · unfold finishLoop
      dsimp only
      repeat' split
      all_goals rfl
  | ok ev =>
    have hrp := readyPrompt_sim hst
    by_cases h1 : s.state = .stopped ∧ ev = .stopped
    · obtain ⟨h1, h2⟩ := h1
      subst h2
      have e1 : finishLoop (.ok .stopped) s =
          (match readyPrompt s with | (s', some e) => (s', e) | (s', none) => (s', .stopped)) := by
        unfold finishLoop; dsimp only; rw [h1]; rfl
      have e2 : finishLoop (.ok .stopped) t =
          (match readyPrompt t with | (s', some e) => (s', e) | (s', none) => (s', .stopped)) := by
        unfold finishLoop; dsimp only; rw [hst.state, h1]; rfl
      rw [e1, e2]
      rcases hs : readyPrompt s with ⟨s', o⟩
      rcases ht : readyPrompt t with ⟨t', o'⟩
      rw [hs, ht] at hrp
      dsimp only at hrp
      obtain ⟨hsim, hsome, heq⟩ := hrp
      cases o <;> cases o' <;> first
        | (simp at hsome; done)
        | (refine ⟨hsim, ?_⟩
           intro hc
           rcases hc with hc | hc
           · have := heq hc; first | rfl | (cases this; rfl)
           · exact absurd rfl hc)
    · have e1 : finishLoop (.ok ev) s = (s, ev) := by
        unfold finishLoop; dsimp only
        split
        · rename_i heq; exact absurd ⟨heq, rfl⟩ h1
        · rfl
      have e2 : finishLoop (.ok ev) t = (t, ev) := by
        unfold finishLoop; dsimp only
        split
        · rename_i heq; exact absurd ⟨by rw [← hst.state]; exact heq, rfl⟩ h1
        · rfl
      rw [e1, e2]
      exact ⟨hst, fun _ => rfl⟩

/-- one call of `execute` for a running program, from `≈` states -/
theorem execute_sim (env : Env) (n : Nat) {s t : Runtime} (hst : Sim col s t)
    (hs : s.state = .running) (hd : s.listing.directErrors = [])
    (hstay : StaysInProg col env (hasIndirectErrors s) n s) :
    Sim col (execute env s n).1 (execute env t n).1 ∧
    ((col = true ∨ (slice env n s).1 ≠ .ok (some .stopped)) →
      (execute env t n).2 = (execute env s n).2) := by
  rw [execute_running env s n hs hd,
    execute_running env t n (by rw [hst.state]; exact hs) (by rw [hst.listing]; exact hd),
    executeLoop_run, executeLoop_run]
  unfold slice
  rw [hasIndirectErrors_sim hst]
  obtain ⟨h1, -, h3⟩ := sliceRun_sim env (hasIndirectErrors s) n hst hstay
  dsimp only
  rw [h1]
  have := finishLoop_sim (toEvent (sliceRun env (hasIndirectErrors s) n s).1) h3
  refine ⟨this.1, ?_⟩
  intro hc
  apply this.2
  rcases hc with hc | hc
  · exact .inl hc
  · refine .inr ?_
    intro he
    apply hc
    generalize (sliceRun env (hasIndirectErrors s) n s).1 = x at he
    rcases x with e | o
    · cases he
    · cases o with
      | none => cases he
      | some ev => cases he; rfl

end Runtime
end Basic
