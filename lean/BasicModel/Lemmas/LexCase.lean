import BasicModel.Lemmas.LexScan
/-
  Case-folding lemmas behind Thm/C16: the loops of `alphabetic()` and `radix()` see their input only
  through `to_ascii_uppercase` and case-blind character classes.
-/
set_option linter.unusedSimpArgs false
namespace Basic
namespace Lex

theorem upper_eq_dollar (c : Char) : (upper c = '$') = (c = '$') :=
  propext (upper_eq_nonletter c '$' (by decide) (by decide))
theorem upper_eq_bang (c : Char) : (upper c = '!') = (c = '!') :=
  propext (upper_eq_nonletter c '!' (by decide) (by decide))
theorem upper_eq_hash (c : Char) : (upper c = '#') = (c = '#') :=
  propext (upper_eq_nonletter c '#' (by decide) (by decide))
theorem upper_eq_percent (c : Char) : (upper c = '%') = (c = '%') :=
  propext (upper_eq_nonletter c '%' (by decide) (by decide))

/-- the loop of `alphabetic()` sees its input only through `to_ascii_uppercase` and the
    case-blind classes: upper-casing the input changes nothing but the case of the remainder -/
theorem alphaLoop_upper (cs : List Char) : ∀ (s : Str) (d : Bool) (p : List Token),
    alphaLoop (cs.map upper) s d p = ((alphaLoop cs s d p).1, (alphaLoop cs s d p).2.map upper) := by
  induction cs with
  | nil => intros; rfl
  | cons c cs ih =>
    intro s d p
    rw [List.map_cons, alphaLoop_cons, alphaLoop_cons]
    simp only [upper_upper]
    split
    · rfl
    split
    · rfl
    split
    · rfl
    split
    · rfl
    cases cs with
    | nil => simp [alphaFinish]; split <;> rfl
    | cons pk tl =>
      simp only [List.map_cons, isAlpha_upper, isDigit_upper, upper_eq_dollar, upper_eq_bang,
        upper_eq_hash, upper_eq_percent]
      split
      · split
        · rfl
        · rw [← List.map_cons, ih]
      split
      · split
        · rfl
        · rw [← List.map_cons, ih]
      · simp only [alphaFinish]; split <;> rfl

theorem upper_eq_H (c : Char) : upper c = 'H' ↔ c = 'H' ∨ c = 'h' := by
  rw [char_eq_iff, char_eq_iff, char_eq_iff, upper_toNat]
  have : 'H'.toNat = 72 := rfl
  have : 'h'.toNat = 104 := rfl
  split <;> omega

theorem upper_ne_h (c : Char) : upper c ≠ 'h' := by
  rw [Ne, char_eq_iff, upper_toNat]
  have : 'h'.toNat = 104 := rfl
  split <;> omega

theorem radixDigits_upper (isHex : Bool) (cs : List Char) :
    radixDigits isHex (cs.map upper) =
      ((radixDigits isHex cs).1, (radixDigits isHex cs).2.map upper) := by
  induction cs with
  | nil => rfl
  | cons c cs ih =>
    rw [List.map_cons, radixDigits_cons, radixDigits_cons, upper_upper]
    split
    · simp [ih]
    · simp [upper_upper]

theorem foldED_foldED (c : Char) : foldED (foldED c) = foldED c := by
  unfold foldED
  by_cases h1 : c = 'e'
  · subst h1; decide
  · by_cases h2 : c = 'd'
    · subst h2; decide
    · simp [h1, h2]


end Lex
end Basic
