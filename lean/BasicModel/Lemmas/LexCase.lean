import BasicModel.Lemmas.LexScan
/-
  Case-folding lemmas behind Thm/C16: the loops of `alphabetic()` and `radix()` see their input only
  through `to_ascii_uppercase` and case-blind character classes.
-/
set_option linter.unusedSimpArgs false
namespace Basic
namespace Lex

theorem upper_eq_dollar (c : Char) : (upper c = '$') = (c = '$') :=
  propext (upper_eq_nonletter c '$' (by decide) (by decide))
theorem upper_eq_bang (c : Char) : (upper c = '!') = (c = '!') :=
  propext (upper_eq_nonletter c '!' (by decide) (by decide))
theorem upper_eq_hash (c : Char) : (upper c = '#') = (c = '#') :=
  propext (upper_eq_nonletter c '#' (by decide) (by decide))
theorem upper_eq_percent (c : Char) : (upper c = '%') = (c = '%') :=
  propext (upper_eq_nonletter c '%' (by decide) (by decide))

/-- the loop of `alphabetic()` sees its input only through `to_ascii_uppercase` and the
    case-blind classes: upper-casing the input changes nothing but the case of the remainder -/
theorem alphaLoop_upper (cs : List Char) : ∀ (s : Str) (d : Bool) (p : List Token),
    alphaLoop (cs.map upper) s d p = ((alphaLoop cs s d p).1, (alphaLoop cs s d p).2.map upper) := by
  induction cs with
  | nil => intros; rfl
  | cons c cs ih =>
    intro s d p
    rw [List.map_cons, alphaLoop_cons, alphaLoop_cons]
    simp only [upper_upper]
    split
    · rfl
    split
    · rfl
    split
    · rfl
    split
    · rfl
    cases cs with
    | nil => simp [alphaFinish]; split <;> rfl
    | cons pk tl =>
      simp only [List.map_cons, isAlpha_upper, isDigit_upper, upper_eq_dollar, upper_eq_bang,
        upper_eq_hash, upper_eq_percent]
      split
      · split
        · rfl
        · rw [← List.map_cons, ih]
      split
      · split
        · rfl
        · rw [← List.map_cons, ih]
      · simp only [alphaFinish]; split <;> rfl

theorem upper_eq_H (c : Char) : upper c = 'H' ↔ c = 'H' ∨ c = 'h' := by
  rw [char_eq_iff, char_eq_iff, char_eq_iff, upper_toNat]
  have : 'H'.toNat = 72 := rfl
  have : 'h'.toNat = 104 := rfl
  split <;> omega

theorem upper_ne_h (c : Char) : upper c ≠ 'h' := by
  rw [Ne, char_eq_iff, upper_toNat]
  have : 'h'.toNat = 104 := rfl
  split <;> omega

theorem radixDigits_upper (isHex : Bool) (cs : List Char) :
    radixDigits isHex (cs.map upper) =
      ((radixDigits isHex cs).1, (radixDigits isHex cs).2.map upper) := by
  induction cs with
  | nil => rfl
  | cons c cs ih =>
    rw [List.map_cons, radixDigits_cons, radixDigits_cons, upper_upper]
    split
    · simp [ih]
    · simp [upper_upper]

theorem foldED_foldED (c : Char) : foldED (foldED c) = foldED c := by
  unfold foldED
  by_cases h1 : c = 'e'
  · subst h1; decide
  · by_cases h2 : c = 'd'
    · subst h2; decide
    · simp [h1, h2]


/-- `radix()` under upper-casing of its input -/
theorem radix_upper_pair (cs : List Char) :
    (radix (cs.map upper)).1 = (radix cs).1 ∧ (radix (cs.map upper)).2 = (radix cs).2.map upper := by
  cases cs with
  | nil => exact ⟨rfl, rfl⟩
  | cons amp cs =>
    cases cs with
    | nil => exact ⟨rfl, rfl⟩
    | cons x r =>
      by_cases hx : x = 'H' ∨ x = 'h'
      · have hu : upper x = 'H' := (upper_eq_H x).2 hx
        have e1 : radix ((amp :: x :: r).map upper) =
            (.literal (.hex (radixDigits true (r.map upper)).1), (radixDigits true (r.map upper)).2) := by
          simp [radix, hu]
        have e2 : radix (amp :: x :: r) =
            (.literal (.hex (radixDigits true r).1), (radixDigits true r).2) := by
          rcases hx with h | h <;> subst h <;> simp [radix]
        rw [e1, e2, radixDigits_upper]
        exact ⟨rfl, rfl⟩
      · have hu : upper x ≠ 'H' := fun h => hx ((upper_eq_H x).1 h)
        have hu' := upper_ne_h x
        have hx1 : x ≠ 'H' := fun h => hx (Or.inl h)
        have hx2 : x ≠ 'h' := fun h => hx (Or.inr h)
        have e1 : radix ((amp :: x :: r).map upper) =
            (.literal (.octal (radixDigits false ((x :: r).map upper)).1),
              (radixDigits false ((x :: r).map upper)).2) := by
          simp only [radix, List.map_cons, List.tail_cons]
          split
          · rename_i heq; exact absurd (List.cons.inj heq).1 hu
          · rename_i heq; exact absurd (List.cons.inj heq).1 hu'
          · rfl
        have e2 : radix (amp :: x :: r) =
            (.literal (.octal (radixDigits false (x :: r)).1), (radixDigits false (x :: r)).2) := by
          simp only [radix, List.tail_cons]
          split
          · rename_i heq; exact absurd (List.cons.inj heq).1 hx1
          · rename_i heq; exact absurd (List.cons.inj heq).1 hx2
          · rfl
        rw [e1, e2, radixDigits_upper]
        exact ⟨rfl, rfl⟩

theorem radix_upper (cs : List Char) :
    radix (cs.map upper) = ((radix cs).1, (radix cs).2.map upper) :=
  Prod.ext (radix_upper_pair cs).1 (radix_upper_pair cs).2


theorem upper_eq_of_nonletter (c k : Char) (hk : ¬ (65 ≤ k.toNat ∧ k.toNat ≤ 90))
    (hk' : ¬ (97 ≤ k.toNat ∧ k.toNat ≤ 122)) : (upper c = k) = (c = k) :=
  propext (upper_eq_nonletter c k hk hk')

theorem upper_expLetter (c : Char) :
    (decide (upper c = 'E') || decide (upper c = 'e') || decide (upper c = 'D') || decide (upper c = 'd')) =
      (decide (c = 'E') || decide (c = 'e') || decide (c = 'D') || decide (c = 'd')) := by
  rw [Bool.eq_iff_iff]
  simp only [Bool.or_eq_true, decide_eq_true_eq, char_eq_iff, upper_toNat]
  have : 'E'.toNat = 69 := rfl
  have : 'e'.toNat = 101 := rfl
  have : 'D'.toNat = 68 := rfl
  have : 'd'.toNat = 100 := rfl
  split <;> omega

/-- characters whose folding by `number()` does not depend on their case: everything but the
    letters other than `e`, `d` -/
def NumHeadOk (c : Char) : Prop := foldED (upper c) = foldED c

instance (c : Char) : Decidable (NumHeadOk c) := by unfold NumHeadOk; infer_instance

theorem numHeadOk_of_not_lower (c : Char) (h : ¬ (97 ≤ c.toNat ∧ c.toNat ≤ 122)) : NumHeadOk c := by
  unfold NumHeadOk; rw [upper_of_not_lower c h]

theorem numHeadOk_e : NumHeadOk 'e' := by decide
theorem numHeadOk_d : NumHeadOk 'd' := by decide

theorem numHeadOk_of_isDigit (c : Char) (h : isDigit c = true) : NumHeadOk c := by
  rw [isDigit_iff] at h; exact numHeadOk_of_not_lower c (by omega)

/-- `number()` is blind to the case of its input: same token, same remainder up to case -/
theorem numberLoop_upper (cs : List Char) : ∀ (s : Str) (dg : Nat) (dec ex : Bool),
    (∀ c ∈ cs.head?, NumHeadOk c) →
    numberLoop (cs.map upper) s dg dec ex =
      ((numberLoop cs s dg dec ex).1, (numberLoop cs s dg dec ex).2.map upper) := by
  induction cs with
  | nil => intros; rfl
  | cons c cs ih =>
    intro s dg dec ex hc
    have hf : foldED (upper c) = foldED c := hc c (by simp)
    rw [List.map_cons, numberLoop_cons, numberLoop_cons, hf]
    split
    · rfl
    split
    · rfl
    split
    · rfl
    cases cs with
    | nil => rfl
    | cons pk tl =>
      have e1 : (upper pk = '+') = (pk = '+') := upper_eq_of_nonletter pk '+' (by decide) (by decide)
      have e2 : (upper pk = '-') = (pk = '-') := upper_eq_of_nonletter pk '-' (by decide) (by decide)
      have e3 : (upper pk = '.') = (pk = '.') := upper_eq_of_nonletter pk '.' (by decide) (by decide)
      have e4 : (upper pk = '!') = (pk = '!') := upper_eq_of_nonletter pk '!' (by decide) (by decide)
      have e5 : (upper pk = '#') = (pk = '#') := upper_eq_of_nonletter pk '#' (by decide) (by decide)
      have e6 : (upper pk = '%') = (pk = '%') := upper_eq_of_nonletter pk '%' (by decide) (by decide)
      have e7 := upper_expLetter pk
      simp only [List.map_cons, isDigit_upper, e1, e2, e3, e4, e5, e6, e7]
      have hpk : ∀ (hh : NumHeadOk pk) s' dg' dec' ex',
          numberLoop (upper pk :: tl.map upper) s' dg' dec' ex' =
            ((numberLoop (pk :: tl) s' dg' dec' ex').1, (numberLoop (pk :: tl) s' dg' dec' ex').2.map upper) := by
        intro hh s' dg' dec' ex'
        rw [← List.map_cons]; exact ih s' dg' dec' ex' (by intro x hx; simp at hx; subst hx; exact hh)
      split
      · rename_i hED
        split
        · rename_i hpm
          refine hpk ?_ _ _ _ _
          simp only [Bool.or_eq_true, decide_eq_true_eq] at hpm
          rcases hpm with h | h <;> subst h <;> decide
        split
        · -- push-back of the folded exponent letter
          have : upper (foldED c) = foldED c := by
            simp only [Bool.or_eq_true, decide_eq_true_eq] at hED
            rcases hED with h | h <;> rw [h] <;> decide
          simp [this]
        · rename_i hd
          refine hpk (numHeadOk_of_isDigit pk (by simpa using hd)) _ _ _ _
      split
      · rename_i hd
        exact hpk (numHeadOk_of_isDigit pk hd) _ _ _ _
      split
      · rename_i hdot
        refine hpk ?_ _ _ _ _
        simp only [Bool.and_eq_true, decide_eq_true_eq] at hdot
        rw [hdot.2]; decide
      split
      · rename_i hexp
        refine hpk ?_ _ _ _ _
        simp only [Bool.and_eq_true, Bool.or_eq_true, decide_eq_true_eq] at hexp
        rcases hexp.2 with ((h | h) | h) | h <;> subst h <;> decide
      split
      · rename_i hsfx
        refine hpk ?_ _ _ _ _
        simp only [Bool.or_eq_true, decide_eq_true_eq] at hsfx
        rcases hsfx with (h | h) | h <;> subst h <;> decide
      · rfl


theorem number_upper (c : Char) (cs : List Char) (h : (isDigit c || c = '.') = true) :
    number ((c :: cs).map upper) = ((number (c :: cs)).1, (number (c :: cs)).2.map upper) := by
  refine numberLoop_upper (c :: cs) [] 0 false false ?_
  intro x hx; simp at hx; subst hx
  simp only [Bool.or_eq_true, decide_eq_true_eq] at h
  rcases h with h | h
  · exact numHeadOk_of_isDigit _ h
  · subst h; decide

theorem isWs_comp_upper : (isWs ∘ upper) = isWs := by
  funext c; exact isWs_upper c

theorem whitespace_upper (cs : List Char) :
    whitespace (cs.map upper) = ((whitespace cs).1, (whitespace cs).2.map upper) := by
  cases cs with
  | nil => rfl
  | cons c cs =>
    simp only [List.map_cons, whitespace, List.takeWhile_map, List.dropWhile_map, isWs_comp_upper,
      List.length_map]

theorem stringBody_upper (cs : List Char) :
    stringBody (cs.map upper) = ((stringBody cs).1.map upper, (stringBody cs).2.map upper) := by
  induction cs with
  | nil => rfl
  | cons c cs ih =>
    have e : (upper c = '"') = (c = '"') := upper_eq_of_nonletter c '"' (by decide) (by decide)
    simp only [List.map_cons, stringBody, e]
    split
    · rfl
    · simp [ih]

theorem upper_of_not_isAlpha (c : Char) (h : isAlpha c = false) : upper c = c := by
  apply upper_of_not_lower
  intro hh
  have : isAlpha c = true := (isAlpha_iff c).2 (Or.inr hh)
  rw [h] at this; exact absurd this (by simp)

theorem minutiaLoop_upper (cs : List Char) : ∀ (s : Str), (∀ c ∈ cs.head?, isAlpha c = false) →
    minutiaLoop (cs.map upper) s = ((minutiaLoop cs s).1, (minutiaLoop cs s).2.map upper) := by
  induction cs with
  | nil => intros; rfl
  | cons c cs ih =>
    intro s hc
    have hu := upper_of_not_isAlpha c (hc c (by simp))
    rw [List.map_cons, hu]
    unfold minutiaLoop
    simp only
    split
    · rfl
    · cases cs with
      | nil => rfl
      | cons pk tl =>
        simp only [List.map_cons, isAlpha_upper, isDigit_upper, isWs_upper]
        split
        · rfl
        · rename_i hpk
          have ha : isAlpha pk = false := by
            simp only [Bool.or_eq_true, not_or, Bool.not_eq_true] at hpk; exact hpk.1.1
          rw [← List.map_cons]
          exact ih _ (by intro x hx; simp at hx; subst hx; exact ha)

/-- upper-case the payloads that the lexer copies verbatim (remark text, string literals) -/
def foldTok : Token → Token
  | .unknown s => .unknown (s.map upper)
  | .literal (.string s) => .literal (.string (s.map upper))
  | t => t

theorem map_upper_upper (l : List Char) : (l.map upper).map upper = l.map upper := by
  simp [List.map_map, Function.comp_def, upper_upper]

/-- the token iterator is blind to the case of ASCII letters, except inside the payloads -/
theorem lexFrom_upper (n : Nat) : ∀ (cs : List Char) (r : Bool), cs.length ≤ n →
    (lexFrom (cs.map upper) r).map foldTok = (lexFrom cs r).map foldTok := by
  induction n with
  | zero =>
    intro cs r h
    have : cs = [] := by cases cs <;> simp_all
    subst this; rfl
  | succ n ih =>
    intro cs r h
    cases cs with
    | nil => rfl
    | cons pk cs =>
      have hlen : cs.length ≤ n := by simpa using h
      rw [List.map_cons, lexFrom_cons, lexFrom_cons]
      have e1 : (upper pk = '.') = (pk = '.') := upper_eq_of_nonletter pk '.' (by decide) (by decide)
      have e2 : (upper pk = '"') = (pk = '"') := upper_eq_of_nonletter pk '"' (by decide) (by decide)
      have e3 : (upper pk = '&') = (pk = '&') := upper_eq_of_nonletter pk '&' (by decide) (by decide)
      simp only [isWs_upper, isDigit_upper, isAlpha_upper, e1, e2, e3]
      split
      · simp [foldTok, map_upper_upper, upper_upper]
      split
      · have := whitespace_upper (pk :: cs)
        rw [List.map_cons] at this
        rw [this]
        simp only [List.map_cons]
        rw [ih _ _ (by have := whitespace_shortens pk cs; simp only [List.length_cons] at this; omega)]
      split
      · rename_i hd
        have := number_upper pk cs hd
        rw [List.map_cons] at this
        rw [this]
        simp only [List.map_cons]
        rw [ih _ _ (by have := number_shortens pk cs hd; simp only [List.length_cons] at this; omega)]
      split
      · have := alphaLoop_upper (pk :: cs) [] false []
        rw [List.map_cons] at this
        simp only [alphabetic, this]
        split
        · rfl
        · simp only [List.map_cons, List.map_append]
          rw [ih _ _ (by have := alphabetic_shortens pk cs; simp only [List.length_cons, alphabetic] at this; omega)]
      split
      · have hs : string (upper pk :: cs.map upper) =
            (.literal (.string ((stringBody cs).1.map upper)), (stringBody cs).2.map upper) := by
          simp [string, stringBody_upper]
        have hs' : string (pk :: cs) = (.literal (.string (stringBody cs).1), (stringBody cs).2) := by
          simp [string]
        rw [hs, hs']
        simp only [List.map_cons, foldTok, map_upper_upper]
        rw [ih _ _ (by have := stringBody_length_le cs; omega)]
      split
      · have := radix_upper (pk :: cs)
        rw [List.map_cons] at this
        rw [this]
        simp only [List.map_cons]
        rw [ih _ _ (by have := radix_shortens pk cs; simp only [List.length_cons] at this; omega)]
      · rename_i ha _ _
        have := minutiaLoop_upper (pk :: cs) [] (by intro x hx; simp at hx; subst hx; simpa using ha)
        rw [List.map_cons] at this
        simp only [minutia, this]
        simp only [List.map_cons]
        rw [ih _ _ (by have := minutia_shortens pk cs; simp only [List.length_cons, minutia] at this; omega)]


end Lex
end Basic
