import BasicModel.Lemmas.GenInv
/-
  The data segment of a compiled program (C09), chain-neutral: this file imports only the model,
  `Lemmas/Link.lean` (which both lemma chains share) and the generator calculus `Lemmas/GenInv.lean`,
  so it can be used from `Thm/C09.lean` (chain 1) and from `Thm/C09Program.lean` (chain 2).

  * instance 1 of the calculus (`dfInv`): expression and variable fragments carry no data, and every
    statement other than DATA and IF leaves the data of the fragment under construction and the
    statement stack alone;
  * the DATA and IF generators, computed;
  * `dataOf` and `compile_data`.
-/
namespace Basic
namespace DataOrder
open Link Codegen
variable {α β : Type}

/-! ### instance 1: who touches the data of a fragment -/

/-- the data segment after `append`, whether or not it overflowed -/
theorem append_data_or (a b : Link) :
    (a.append b).1.data = a.data ∨ (a.append b).1.data = a.data ++ b.data := by
  rcases append_cases a b with ⟨_, _, e⟩ | ⟨_, e⟩ | ⟨_, _, e⟩ | ⟨_, _, e⟩
  · rw [e]; exact .inl rfl
  · rw [e]; exact .inl rfl
  · rw [e]; exact .inr rfl
  · rw [e]; exact .inr rfl

/-- "the fragment under construction has data `d0`, stack fragments have none, the statement stack is `st0`" -/
def kdInv (d0 : Array Val) (st0 : Array (Col × Link)) : Inv :=
  ⟨fun l => l.data = d0, fun l => l.data = #[], fun _ => True, fun st => st = st0⟩

theorem kdOk (d0 : Array Val) (st0 : Array (Col × Link)) : Ok (kdInv d0 st0) where
  push := fun _ _ h => h
  nextSymbol := fun _ h => h
  pushSymbol := fun _ _ h => h
  append := fun a b ha hb => by
    show (a.append b).1.data = d0
    rcases append_data_or a b with e | e
    · rw [e]; exact ha
    · rw [e, show b.data = #[] from hb, Array.append_empty]; exact ha

theorem kdMark (d0 : Array Val) (st0 : Array (Col × Link)) : MarkOk (kdInv d0 st0) :=
  ⟨fun _ _ _ _ h => h, fun _ _ _ _ h => h⟩

theorem kdRef (d0 : Array Val) (st0 : Array (Col × Link)) : RefOk (kdInv d0 st0) :=
  RefOk.of (kdOk d0 st0) (fun _ _ _ h => h)

/-- the variable and expression stacks carry no data -/
structure DStk (g : GState) : Prop where
  var : ∀ v ∈ g.var.toList, v.link.data = #[]
  expr : ∀ x ∈ g.expr.toList, x.2.data = #[]

theorem DStk.empty : DStk {} := ⟨fun _ h => (nomatch h), fun _ h => (nomatch h)⟩

/-- what a generator function proved in the calculus for every `kdInv` does to a state: the stacks
    stay data-free, the data of the fragment under construction and the statement stack are untouched -/
theorem kd_run {m : GM α} {Q : α → Prop} (hm : ∀ d0 st0, PH (kdInv d0 st0) m Q) (g : GState) (hg : DStk g) :
    DStk (m.run.run g).2 ∧ (m.run.run g).2.cur.data = g.cur.data ∧ (m.run.run g).2.stmt = g.stmt ∧
    ∀ a, (m.run.run g).1 = .ok a → Q a := by
  have h := (hm g.cur.data g.stmt).run g ⟨rfl, hg.var, hg.expr, fun _ _ => trivial, rfl⟩
  exact ⟨⟨h.1.var, h.1.expr⟩, h.1.cur, h.1.stk, h.2⟩

theorem kd_runFresh {m : GM α} {Q : α → Prop} (hm : ∀ d0 st0, PH (kdInv d0 st0) m Q) (g : GState) (hg : DStk g) :
    (runFresh m g).2.1.data = #[] ∧ DStk (runFresh m g).2.2 ∧ (runFresh m g).2.2.stmt = g.stmt := by
  have h := kd_run hm { g with cur := {} } ⟨hg.var, hg.expr⟩
  unfold runFresh
  exact ⟨h.2.1, ⟨h.1.var, h.1.expr⟩, h.2.2.1⟩

/-! ### the visitor: expressions and variables -/

/-- a visit that (from data-free stacks) leaves the statement stack alone, keeps the other stacks
    data-free and only adds errors -/
def Sub (s s' : VState) : Prop :=
  DStk s.g → DStk s'.g ∧ s'.g.stmt = s.g.stmt ∧ ∃ l, s'.errors = s.errors ++ l

theorem Sub.refl (s : VState) : Sub s s := fun h => ⟨h, rfl, [], (List.append_nil _).symm⟩

theorem Sub.trans {a b c : VState} (h1 : Sub a b) (h2 : Sub b c) : Sub a c := by
  intro ha
  obtain ⟨hb, e1, l1, x1⟩ := h1 ha
  obtain ⟨hc, e2, l2, x2⟩ := h2 hb
  exact ⟨hc, e2.trans e1, l1 ++ l2, by rw [x2, x1, List.append_assoc]⟩

theorem kd_genVariable (v : Variable) : ∀ d0 st0, PH (kdInv d0 st0) (genVariable v) T :=
  fun d0 st0 => ph_genVariable (kdOk d0 st0) v

theorem kd_genExpression (e : Expr) : ∀ d0 st0, PH (kdInv d0 st0) (genExpression e) T :=
  fun d0 st0 => ph_genExpression (kdOk d0 st0) e

theorem visitVariable_sub (v : Variable) (s : VState) : Sub s (visitVariable v s) := by
  intro hs
  have hr := kd_runFresh (kd_genVariable v) s.g hs
  unfold visitVariable
  generalize runFresh (genVariable v) s.g = x at hr
  rcases x with ⟨r, link, g⟩
  obtain ⟨h1, h2, h3⟩ := hr
  cases r with
  | ok a =>
    obtain ⟨c, name, len⟩ := a
    exact ⟨⟨fun y hy => (mem_push_toList hy).elim (h2.var y) (fun e => e ▸ h1), h2.expr⟩, h3, [],
      (List.append_nil _).symm⟩
  | error e =>
    exact ⟨⟨fun y hy => (mem_push_toList hy).elim (h2.var y) (fun e => e ▸ h1), h2.expr⟩, h3, [e], rfl⟩

theorem visitExpression_sub (e : Expr) (s : VState) : Sub s (visitExpression e s) := by
  intro hs
  have hr := kd_runFresh (kd_genExpression e) s.g hs
  unfold visitExpression
  generalize runFresh (genExpression e) s.g = x at hr
  rcases x with ⟨r, link, g⟩
  obtain ⟨h1, h2, h3⟩ := hr
  cases r with
  | ok c =>
    exact ⟨⟨h2.var, fun y hy => (mem_push_toList hy).elim (h2.expr y) (fun e => e ▸ h1)⟩, h3, [],
      (List.append_nil _).symm⟩
  | error err =>
    exact ⟨⟨h2.var, fun y hy => (mem_push_toList hy).elim (h2.expr y) (fun e => e ▸ h1)⟩, h3, [err], rfl⟩

mutual
theorem acceptVar_sub : ∀ (v : Variable) (s : VState), Sub s (acceptVar v s)
  | .unary c i, s => by rw [acceptVar]; exact visitVariable_sub _ _
  | .array c i es, s => by rw [acceptVar]; exact (acceptExprs_sub es s).trans (visitVariable_sub _ _)
theorem acceptExpr_sub : ∀ (e : Expr) (s : VState), Sub s (acceptExpr e s)
  | .var v, s => by rw [acceptExpr]; exact (acceptVar_sub v s).trans (visitExpression_sub _ _)
  | .neg c e, s => by rw [acceptExpr]; exact (acceptExpr_sub e s).trans (visitExpression_sub _ _)
  | .not c e, s => by rw [acceptExpr]; exact (acceptExpr_sub e s).trans (visitExpression_sub _ _)
  | .bin op c l r, s => by
    rw [acceptExpr]
    exact ((acceptExpr_sub l s).trans (acceptExpr_sub r _)).trans (visitExpression_sub _ _)
  | .single c b, s => by rw [acceptExpr] <;> first | exact visitExpression_sub _ _ | nofun
  | .double c b, s => by rw [acceptExpr] <;> first | exact visitExpression_sub _ _ | nofun
  | .integer c b, s => by rw [acceptExpr] <;> first | exact visitExpression_sub _ _ | nofun
  | .string c b, s => by rw [acceptExpr] <;> first | exact visitExpression_sub _ _ | nofun
theorem acceptExprs_sub : ∀ (es : List Expr) (s : VState), Sub s (acceptExprs es s)
  | [], s => by rw [acceptExprs]; exact Sub.refl s
  | e :: es, s => by rw [acceptExprs]; exact (acceptExpr_sub e s).trans (acceptExprs_sub es _)
end

theorem acceptVars_sub (vs : List Variable) (s : VState) : Sub s (acceptVars vs s) := by
  unfold acceptVars
  induction vs generalizing s with
  | nil => exact Sub.refl s
  | cons v vs ih => rw [List.foldl_cons]; exact (acceptVar_sub v s).trans (ih _)

/-! ### the constants of a program, syntactically -/

/-- the value of a literal -/
def litVal : Expr → Option Val
  | .single _ b => some (.sng b)
  | .double _ b => some (.dbl b)
  | .integer _ n => some (.int n)
  | .string _ s => some (.str s)
  | _ => none

/-- a DATA constant: a literal, or a numeric literal under one unary minus (negated as
    `transformToData` does, with `Ops.negate`) -/
def constOf : Expr → Option Val
  | .neg _ e =>
    match litVal e with
    | some v => (match Ops.negate v with | .ok nv => some nv | .error _ => none)
    | none => none
  | e => litVal e

/-- the constants of one DATA statement, left to right, up to the first item that is not a constant
    (codegen reports that item and stops the statement; the earlier constants stay) -/
def constsOf : List Expr → List Val
  | [] => []
  | e :: es => match constOf e with
    | some v => v :: constsOf es
    | none => []

mutual
/-- the constants of a statement: DATA, also inside the branches of IF (THEN branch first) -/
def stmtData : Stmt → List Val
  | .data _ es => constsOf es
  | .«if» _ _ th el => stmtsData th ++ stmtsData el
  | _ => []
def stmtsData : List Stmt → List Val
  | [] => []
  | st :: sts => stmtData st ++ stmtsData sts
end

mutual
/-- every DATA item is a constant -/
def stmtLit : Stmt → Bool
  | .data _ es => es.all fun e => (constOf e).isSome
  | .«if» _ _ th el => stmtsLit th && stmtsLit el
  | _ => true
def stmtsLit : List Stmt → Bool
  | [] => true
  | st :: sts => stmtLit st && stmtsLit sts
end

example : stmtsData [.data (0,0) [.integer (0,0) 1, .neg (0,0) (.integer (0,0) 2)], .end (0,0),
    .«if» (0,0) (.integer (0,0) 1) [.data (0,0) [.string (0,0) ['A']]] [.data (0,0) [.integer (0,0) 5]]] =
    [.int 1, .int (-2), .str ['A'], .int 5] := by decide

/-! ### the visitor: statements -/

/-- instance 2 (weak): the variable and expression stacks stay data-free through every generator
    function, DATA and IF included -/
def wkInv : Inv := ⟨fun _ => True, fun l => l.data = #[], fun _ => True, fun _ => True⟩

theorem wkOk : Ok wkInv :=
  ⟨fun _ _ _ => trivial, fun _ _ => trivial, fun _ _ _ => trivial, fun _ _ _ _ => trivial⟩

theorem wkRef : RefOk wkInv := RefOk.of wkOk (fun _ _ _ _ => trivial)

theorem wkMark : MarkOk wkInv := ⟨fun _ _ _ _ _ => trivial, fun _ _ _ _ _ => trivial⟩

theorem wk_genStatement (st : Stmt) : PH wkInv (genStatement st) T := by
  by_cases hp : Stmt.plain st = true
  · exact ph_genStatement_plain wkOk wkRef wkMark st hp
  · cases st with
    | data c es => exact ph_gs_data_any wkOk wkRef (fun _ _ _ => trivial) _ _
    | «if» c p th el => exact ph_gs_if wkOk wkRef (fun _ _ _ => trivial) (fun _ _ _ _ => trivial) _ _ _ _
    | _ => exact absurd rfl hp

theorem wk_run {m : GM α} {Q : α → Prop} (hm : PH wkInv m Q) (g : GState) (hg : DStk g) :
    DStk (m.run.run g).2 := by
  have h := (hm.run g ⟨trivial, hg.var, hg.expr, fun _ _ => trivial, trivial⟩).1
  exact ⟨h.var, h.expr⟩

theorem visitStatement_eq (st : Stmt) (s : VState) :
    visitStatement st s =
      match (genStatement st).run.run { s.g with cur := {} } with
      | (.ok c, g') => { s with g := { g' with cur := s.g.cur, stmt := g'.stmt.push (c, g'.cur) } }
      | (.error e, g') =>
        { g := { g' with cur := s.g.cur, stmt := g'.stmt.push ((0, 0), g'.cur) }, errors := s.errors ++ [e] } := by
  unfold visitStatement runFresh
  rcases (genStatement st).run.run { s.g with cur := {} } with ⟨r, g'⟩
  cases r <;> rfl

/-- the effect of visiting statements whose constants are `d`: the other stacks stay data-free, errors
    are only added, and when none is added exactly `n` fragments are pushed, carrying `d` -/
def StEff (n : Nat) (d : List Val) (s s' : VState) : Prop :=
  DStk s.g → DStk s'.g ∧ (∃ l, s'.errors = s.errors ++ l) ∧
    (s'.errors = s.errors → ∃ frs : List (Col × Link), frs.length = n ∧ s'.g.stmt = s.g.stmt ++ frs.toArray ∧
      (frs.map (·.2.data.toList)).flatten = d)

theorem StEff.nil (s : VState) : StEff 0 [] s s :=
  fun h => ⟨h, ⟨[], (List.append_nil _).symm⟩, fun _ => ⟨[], rfl, by simp, rfl⟩⟩

theorem errs_split {e0 l1 l2 : List Error} (h : (e0 ++ l1) ++ l2 = e0) : l1 = [] ∧ l2 = [] := by
  have := congrArg List.length h
  simp only [List.length_append] at this
  exact ⟨List.eq_nil_of_length_eq_zero (by omega), List.eq_nil_of_length_eq_zero (by omega)⟩

theorem StEff.trans {n1 n2 : Nat} {d1 d2 : List Val} {a b c : VState} (h1 : StEff n1 d1 a b) (h2 : StEff n2 d2 b c) :
    StEff (n1 + n2) (d1 ++ d2) a c := by
  intro ha
  obtain ⟨hb, ⟨l1, x1⟩, o1⟩ := h1 ha
  obtain ⟨hc, ⟨l2, x2⟩, o2⟩ := h2 hb
  refine ⟨hc, ⟨l1 ++ l2, by rw [x2, x1, List.append_assoc]⟩, ?_⟩
  intro hcl
  rw [x2, x1] at hcl
  obtain ⟨e1, e2⟩ := errs_split hcl
  subst e1; subst e2
  rw [List.append_nil] at x1 x2
  obtain ⟨f1, n1', s1, q1⟩ := o1 x1
  obtain ⟨f2, n2', s2, q2⟩ := o2 x2
  refine ⟨f1 ++ f2, by rw [List.length_append, n1', n2'], ?_, ?_⟩
  · rw [s2, s1, Array.append_assoc]; simp
  · rw [List.map_append, List.flatten_append, q1, q2]

theorem Sub.stEff {n : Nat} {d : List Val} {a b c : VState} (h1 : Sub a b) (h2 : StEff n d b c) : StEff n d a c := by
  intro ha
  obtain ⟨hb, e1, l1, x1⟩ := h1 ha
  obtain ⟨hc, ⟨l2, x2⟩, o2⟩ := h2 hb
  refine ⟨hc, ⟨l1 ++ l2, by rw [x2, x1, List.append_assoc]⟩, ?_⟩
  intro hcl
  rw [x2, x1] at hcl
  obtain ⟨e1', e2'⟩ := errs_split hcl
  subst e1'; subst e2'
  rw [List.append_nil] at x1 x2
  obtain ⟨f2, n2', s2, q2⟩ := o2 x2
  exact ⟨f2, n2', by rw [s2, e1], q2⟩

/-- a generator run seen through `visitStatement`: what it must satisfy for the visit to push one
    fragment with data `d` -/
theorem visitStatement_stEff (st : Stmt) (s : VState) (d : List Val)
    (h : DStk s.g → ∀ c g', (genStatement st).run.run { s.g with cur := {} } = (.ok c, g') →
      g'.stmt = s.g.stmt ∧ g'.cur.data.toList = d) :
    StEff 1 d s (visitStatement st s) := by
  intro hs
  have hd := wk_run (wk_genStatement st) { s.g with cur := {} } ⟨hs.var, hs.expr⟩
  have h' := h hs
  rw [visitStatement_eq]
  rcases hr : (genStatement st).run.run { s.g with cur := {} } with ⟨r, g'⟩
  rw [hr] at hd
  cases r with
  | ok c =>
    obtain ⟨h1, h2⟩ := h' c g' hr
    refine ⟨⟨hd.var, hd.expr⟩, ⟨[], (List.append_nil _).symm⟩, fun _ => ⟨[(c, g'.cur)], rfl, ?_, ?_⟩⟩
    · show g'.stmt.push (c, g'.cur) = s.g.stmt ++ [(c, g'.cur)].toArray
      rw [h1]; simp
    · simp [h2]
  | error e =>
    refine ⟨⟨hd.var, hd.expr⟩, ⟨[e], rfl⟩, fun hcl => ?_⟩
    have : (s.errors ++ [e]).length = s.errors.length := congrArg List.length hcl
    simp at this

theorem kd_genStatement_plain (st : Stmt) (hp : Stmt.plain st = true) :
    ∀ d0 st0, PH (kdInv d0 st0) (genStatement st) T :=
  fun d0 st0 => ph_genStatement_plain (kdOk d0 st0) (kdRef d0 st0) (kdMark d0 st0) st hp

/-- a statement other than DATA and IF pushes one fragment without data, whatever it reports -/
theorem visitStatement_plain (st : Stmt) (hp : Stmt.plain st = true) (s : VState) :
    StEff 1 [] s (visitStatement st s) := by
  apply visitStatement_stEff
  intro hs c g' hr
  have h := kd_run (kd_genStatement_plain st hp) { s.g with cur := {} } ⟨hs.var, hs.expr⟩
  rw [hr] at h
  exact ⟨h.2.2.1, by rw [h.2.1]⟩

/-! ### DATA: the items -/

theorem visitExpression_eq (e : Expr) (s : VState) :
    visitExpression e s =
      match (genExpression e).run.run { s.g with cur := {} } with
      | (.ok c, g') => { s with g := { g' with cur := s.g.cur, expr := g'.expr.push (c, g'.cur) } }
      | (.error err, g') =>
        { g := { g' with cur := s.g.cur, expr := g'.expr.push ((0, 0), g'.cur) }, errors := s.errors ++ [err] } := by
  unfold visitExpression runFresh
  rcases (genExpression e).run.run { s.g with cur := {} } with ⟨r, g'⟩
  cases r <;> rfl

theorem push_empty (op : Opcode) : (({} : Link).push op) = ({ ops := #[op] }, .ok ()) := by
  simp [Link.push]
  decide

theorem lit_run (c : Col) (v : Val) (g : GState) :
    (do lpush (.literal v); pure c : GM Col).run.run { g with cur := {} } =
      (.ok c, { g with cur := { ops := #[.literal v] } }) := by
  rw [d_bind, d_lpush]
  simp only [push_empty]
  rfl

/-- visiting a literal pushes the one-instruction fragment `literal v` and nothing else happens -/
theorem acceptExpr_lit : ∀ (e : Expr) (v : Val), litVal e = some v → ∀ s : VState,
    ∃ c, acceptExpr e s = { s with g := { s.g with expr := s.g.expr.push (c, { ops := #[.literal v] }) } } := by
  intro e v h s
  cases e with
  | single c b =>
    cases h
    exact ⟨c, by
      rw [acceptExpr] <;> first | (rw [visitExpression_eq]; simp only [genExpression]; rw [lit_run]) | nofun⟩
  | double c b =>
    cases h
    exact ⟨c, by
      rw [acceptExpr] <;> first | (rw [visitExpression_eq]; simp only [genExpression]; rw [lit_run]) | nofun⟩
  | integer c n =>
    cases h
    exact ⟨c, by
      rw [acceptExpr] <;> first | (rw [visitExpression_eq]; simp only [genExpression]; rw [lit_run]) | nofun⟩
  | string c x =>
    cases h
    exact ⟨c, by
      rw [acceptExpr] <;> first | (rw [visitExpression_eq]; simp only [genExpression]; rw [lit_run]) | nofun⟩
  | _ => cases h

theorem popExpr_push (g : GState) (pre : Array (Col × Link)) (x : Col × Link) (h : g.expr = pre.push x) :
    popExpr.run.run g = (.ok x, { g with expr := pre }) := by
  simp only [popExpr, d_bind, d_get, h, Array.back?_push, d_set, d_pure, Array.pop_push]

theorem empty_append_lit (v : Val) :
    ({} : Link).append { ops := #[.literal v] } = ({ ops := #[.literal v] }, .ok ()) := by
  rcases append_cases {} { ops := #[.literal v] } with ⟨h, -⟩ | ⟨h, -⟩ | ⟨-, h, -⟩ | ⟨-, -, e⟩
  · cases h
  · exact absurd h (by show ¬ (0 + 1 > Gen.stackMaxLen); decide)
  · exact absurd h (by show ¬ (0 + 0 > Gen.stackMaxLen); decide)
  · rw [e]
    simp [appended, appendSymbols, appendUnlinked, appendWhiles]

theorem neg_run (c c1 : Col) (v : Val) (g : GState) (pre : Array (Col × Link)) (hc : g.cur = {})
    (h : g.expr = pre.push (c1, { ops := #[.literal v] })) :
    (unaryExpr .neg c).run.run g =
      (.ok (c.1, c1.2), { g with cur := { ops := #[.literal v, .neg] }, expr := pre }) := by
  unfold unaryExpr
  rw [d_bind_ok (popExpr_push g pre _ h)]
  rw [show ({ g with expr := pre } : GState) = { g with expr := pre, cur := {} } by rw [← hc]]
  dsimp only
  rw [d_bind, d_lappend]
  simp only [empty_append_lit]
  rw [d_bind, d_lpush]
  have : (({ ops := #[.literal v] } : Link).push .neg) = ({ ops := #[.literal v, .neg] }, .ok ()) := by
    simp [Link.push]
    decide
  simp only [this]
  rfl

/-- visiting a DATA constant: one fragment, `literal v` or `literal w; neg` -/
def IsConstFrag (fr : Col × Link) (v : Val) : Prop :=
  fr.2 = { ops := #[.literal v] } ∨ ∃ w, fr.2 = { ops := #[.literal w, .neg] } ∧ Ops.negate w = .ok v

theorem acceptExpr_const (e : Expr) (v : Val) (h : constOf e = some v) (s : VState) :
    ∃ fr, IsConstFrag fr v ∧ acceptExpr e s = { s with g := { s.g with expr := s.g.expr.push fr } } := by
  cases e with
  | neg c e1 =>
    simp only [constOf] at h
    cases hl : litVal e1 with
    | none => rw [hl] at h; cases h
    | some w =>
      rw [hl] at h
      dsimp only at h
      cases hn : Ops.negate w with
      | error err => rw [hn] at h; cases h
      | ok nv =>
        rw [hn] at h
        cases h
        obtain ⟨c1, h1⟩ := acceptExpr_lit e1 w hl s
        refine ⟨((c.1, c1.2), { ops := #[.literal w, .neg] }), .inr ⟨w, rfl, hn⟩, ?_⟩
        rw [acceptExpr, h1, visitExpression_eq]
        simp only [genExpression, Gen.opcodeOfNegation]
        rw [neg_run c c1 w { var := s.g.var, expr := s.g.expr.push (c1, { ops := #[.literal w] }), stmt := s.g.stmt, cur := {} }
          s.g.expr rfl rfl]
  | single c b => obtain ⟨c1, h1⟩ := acceptExpr_lit (.single c b) v h s; exact ⟨_, .inl rfl, h1⟩
  | double c b => obtain ⟨c1, h1⟩ := acceptExpr_lit (.double c b) v h s; exact ⟨_, .inl rfl, h1⟩
  | integer c b => obtain ⟨c1, h1⟩ := acceptExpr_lit (.integer c b) v h s; exact ⟨_, .inl rfl, h1⟩
  | string c b => obtain ⟨c1, h1⟩ := acceptExpr_lit (.string c b) v h s; exact ⟨_, .inl rfl, h1⟩
  | var x => cases h
  | not c e1 => cases h
  | bin op c l r => cases h

/-- two lists related element by element -/
inductive All2 {γ δ : Type} (R : γ → δ → Prop) : List γ → List δ → Prop
  | nil : All2 R [] []
  | cons {a b as bs} : R a b → All2 R as bs → All2 R (a :: as) (b :: bs)

theorem All2.length {γ δ : Type} {R : γ → δ → Prop} {as : List γ} {bs : List δ} (h : All2 R as bs) :
    as.length = bs.length := by
  induction h with
  | nil => rfl
  | cons _ _ ih => simp [ih]

theorem consts_all2 : ∀ (es : List Expr), (es.all fun e => (constOf e).isSome) = true →
    All2 (fun e v => constOf e = some v) es (constsOf es)
  | [], _ => .nil
  | e :: es, h => by
    rw [List.all_cons, Bool.and_eq_true] at h
    cases hc : constOf e with
    | none => rw [hc] at h; cases h.1
    | some v =>
      simp only [constsOf, hc]
      exact .cons hc (consts_all2 es h.2)

theorem acceptExprs_consts : ∀ (es : List Expr) (vs : List Val), All2 (fun e v => constOf e = some v) es vs →
    ∀ s : VState, ∃ frs : List (Col × Link), All2 IsConstFrag frs vs ∧
      acceptExprs es s = { s with g := { s.g with expr := s.g.expr ++ frs.toArray } } := by
  intro es vs h
  induction h with
  | nil => intro s; exact ⟨[], .nil, by simp [acceptExprs]⟩
  | @cons e v es vs h1 _ ih =>
    intro s
    obtain ⟨fr, hfr, e1⟩ := acceptExpr_const e v h1 s
    obtain ⟨frs, hfrs, e2⟩ := ih { s with g := { s.g with expr := s.g.expr.push fr } }
    refine ⟨fr :: frs, .cons hfr hfrs, ?_⟩
    rw [acceptExprs, e1, e2]
    simp

theorem td_const (fr : Col × Link) (v : Val) (h : IsConstFrag fr v) :
    transformToData fr.2 fr.1 = ({ data := #[v] }, .ok ()) := by
  rcases h with h | ⟨w, h, hn⟩
  · rw [h]
    simp [transformToData, pushData]
    decide
  · rw [h]
    simp [transformToData, pushData, hn]
    decide

theorem popNExpr_run (g : GState) (pre : Array (Col × Link)) (frs : List (Col × Link)) (h : g.expr = pre ++ frs.toArray) :
    (popNExpr frs.length).run.run g = (.ok frs, { g with expr := pre }) := by
  unfold popNExpr
  have h1 : ¬ (frs.length > (pre ++ frs.toArray).size) := by simp
  simp only [d_bind, d_get, h, h1, if_false, d_set, d_pure]
  simp

/-- the loop of the DATA generator: when it succeeds, the constants are appended in order -/
theorem data_loop : ∀ (frs : List (Col × Link)) (vs : List Val), All2 IsConstFrag frs vs →
    ∀ (g g' : GState) (u : PUnit),
      (forIn frs PUnit.unit fun (x : Col × Link) (_ : PUnit) => (do
          liftE (transformToData x.snd x.fst).snd
          lappend (transformToData x.snd x.fst).fst
          pure (ForInStep.yield PUnit.unit) : GM (ForInStep PUnit))).run.run g = (.ok u, g') →
      g'.cur.data.toList = g.cur.data.toList ++ vs ∧ g'.stmt = g.stmt ∧ g'.var = g.var ∧ g'.expr = g.expr := by
  intro frs vs h
  induction h with
  | nil =>
    intro g g' u hr
    rw [List.forIn_nil] at hr
    cases hr
    exact ⟨by simp, rfl, rfl, rfl⟩
  | @cons fr v frs vs h1 _ ih =>
    intro g g' u hr
    rw [List.forIn_cons, d_bind] at hr
    simp only [td_const fr v h1, d_bind, d_liftE, d_lappend, d_pure] at hr
    cases ha : (g.cur.append { data := #[v] }).2 with
    | error e => rw [ha] at hr; cases hr
    | ok w =>
      rw [ha] at hr
      dsimp only at hr
      obtain ⟨i1, i2, i3, i4⟩ := ih _ _ _ hr
      refine ⟨?_, i2, i3, i4⟩
      rw [i1]
      show (g.cur.append { data := #[v] }).1.data.toList ++ vs = _
      rw [append_data ha]
      simp

/-- **DATA**: when nothing is reported, the statement fragment carries the constants left to right
    (and no code) -/
theorem acceptStmt_data (c : Col) (es : List Expr) (hl : (es.all fun e => (constOf e).isSome) = true) (s : VState) :
    StEff 1 (constsOf es) s (acceptStmt (.data c es) s) := by
  obtain ⟨frs, hfrs, e1⟩ := acceptExprs_consts es (constsOf es) (consts_all2 es hl) s
  have hlen : es.length = frs.length := (consts_all2 es hl).length.trans hfrs.length.symm
  rw [acceptStmt, e1]
  intro hs
  have hs' : DStk ({ s with g := { s.g with expr := s.g.expr ++ frs.toArray } } : VState).g := by
    refine ⟨hs.var, ?_⟩
    intro x hx
    simp only [Array.toList_append, List.mem_append] at hx
    rcases hx with hx | hx
    · exact hs.expr x hx
    · have : ∀ (frs : List (Col × Link)) (vs : List Val), All2 IsConstFrag frs vs → ∀ x ∈ frs, x.2.data = #[] := by
        intro frs vs h
        induction h with
        | nil => intro x hx; cases hx
        | cons h1 _ ih =>
          intro x hx
          rcases List.mem_cons.1 hx with rfl | hx
          · rcases h1 with h | ⟨w, h, -⟩ <;> rw [h]
          · exact ih x hx
      exact this frs _ hfrs x (by simpa using hx)
  refine visitStatement_stEff (.data c es) _ (constsOf es) ?_ hs'
  intro _ c' g' hr
  simp only [genStatement, hlen] at hr
  rw [d_bind_ok (popNExpr_run _ s.g.expr frs rfl)] at hr
  rw [d_bind] at hr
  split at hr
  · rename_i u g1 hloop
    obtain ⟨i1, i2, -, -⟩ := data_loop frs _ hfrs _ _ _ hloop
    cases hr
    exact ⟨i2, by rw [i1]; rfl⟩
  · cases hr

/-! ### IF: the branches -/

theorem bind_ok_inv {m : GM α} {f : α → GM β} {g g2 : GState} {b : β} (h : (m >>= f).run.run g = (.ok b, g2)) :
    ∃ a g1, m.run.run g = (.ok a, g1) ∧ (f a).run.run g1 = (.ok b, g2) := by
  rw [d_bind] at h
  rcases hm : m.run.run g with ⟨r, g1⟩
  rw [hm] at h
  cases r with
  | ok a => exact ⟨a, g1, rfl, h⟩
  | error e => cases h

theorem kd_step {m : GM α} {Q : α → Prop} (hm : ∀ d0 st0, PH (kdInv d0 st0) m Q) {g g1 : GState} {a : α}
    (hg : DStk g) (h : m.run.run g = (.ok a, g1)) :
    DStk g1 ∧ g1.cur.data = g.cur.data ∧ g1.stmt = g.stmt ∧ Q a := by
  have := kd_run hm g hg
  rw [h] at this
  exact ⟨this.1, this.2.1, this.2.2.1, this.2.2.2 a rfl⟩

theorem popNStmt_run (g : GState) (pre : Array (Col × Link)) (frs : List (Col × Link)) (h : g.stmt = pre ++ frs.toArray) :
    (popNStmt frs.length).run.run g = (.ok frs, { g with stmt := pre }) := by
  unfold popNStmt
  have h1 : ¬ (frs.length > (pre ++ frs.toArray).size) := by simp
  simp only [d_bind, d_get, h, h1, if_false, d_set, d_pure]
  simp

/-- appending statement fragments in a loop: when it succeeds, their data is appended in order -/
theorem stmt_loop : ∀ (frs : List (Col × Link)) (g g' : GState) (u : PUnit),
    (forIn frs PUnit.unit fun (x : Col × Link) (_ : PUnit) => (do
        lappend x.snd
        pure (ForInStep.yield PUnit.unit) : GM (ForInStep PUnit))).run.run g = (.ok u, g') →
    g'.cur.data.toList = g.cur.data.toList ++ (frs.map (·.2.data.toList)).flatten ∧
      g'.stmt = g.stmt ∧ g'.var = g.var ∧ g'.expr = g.expr
  | [], g, g', u, hr => by
    rw [List.forIn_nil] at hr
    cases hr
    exact ⟨by simp, rfl, rfl, rfl⟩
  | fr :: frs, g, g', u, hr => by
    rw [List.forIn_cons, d_bind] at hr
    simp only [d_bind, d_lappend, d_pure] at hr
    cases ha : (g.cur.append fr.2).2 with
    | error e => rw [ha] at hr; cases hr
    | ok w =>
      rw [ha] at hr
      dsimp only at hr
      obtain ⟨i1, i2, i3, i4⟩ := stmt_loop frs _ _ _ hr
      refine ⟨?_, i2, i3, i4⟩
      rw [i1]
      show (g.cur.append fr.2).1.data.toList ++ _ = _
      rw [append_data ha]
      simp

/-- **IF**: when the generator succeeds on a statement stack that ends with the fragments of the THEN
    branch followed by those of the ELSE branch, it removes them and the new fragment carries their
    data in that order -/
theorem if_gen (c : Col) (p : Expr) (th el : List Stmt) (g : GState) (pre : Array (Col × Link))
    (thf elf : List (Col × Link)) (hst : g.stmt = pre ++ thf.toArray ++ elf.toArray)
    (hth : thf.length = th.length) (hel : elf.length = el.length) (hg : DStk g) (a : Col) (g' : GState)
    (h : (genStatement (.«if» c p th el)).run.run g = (.ok a, g')) :
    g'.stmt = pre ∧
    g'.cur.data.toList = g.cur.data.toList ++ (thf.map (·.2.data.toList)).flatten ++ (elf.map (·.2.data.toList)).flatten := by
  simp only [genStatement] at h
  obtain ⟨x, g1, h1, h⟩ := bind_ok_inv h
  obtain ⟨k1d, k1c, k1s, k1q⟩ := kd_step (Q := fun x => x.2.data = #[]) (fun _ _ => ph_popExpr) hg h1
  obtain ⟨u2, g2, h2, h⟩ := bind_ok_inv h
  obtain ⟨k2d, k2c, k2s, -⟩ := kd_step (fun d0 st0 => ph_lappend (kdOk d0 st0) x.2 k1q) k1d h2
  obtain ⟨sym, g3, h3, h⟩ := bind_ok_inv h
  obtain ⟨k3d, k3c, k3s, -⟩ := kd_step (fun d0 st0 => ph_lnextSymbol (kdOk d0 st0)) k2d h3
  obtain ⟨u4, g4, h4, h⟩ := bind_ok_inv h
  obtain ⟨k4d, k4c, k4s, -⟩ := kd_step (fun d0 st0 => ph_pushIfnot (kdRef d0 st0) c sym) k3d h4
  have hs4 : g4.stmt = (pre ++ thf.toArray) ++ elf.toArray := by rw [k4s, k3s, k2s, k1s, hst]
  have hd4 : g4.cur.data = g.cur.data := by rw [k4c, k3c, k2c, k1c]
  rw [← hel, ← hth] at h
  rw [d_bind_ok (popNStmt_run g4 _ elf hs4), d_bind_ok (popNStmt_run _ pre thf rfl)] at h
  obtain ⟨u5, g5, h5, h⟩ := bind_ok_inv h
  obtain ⟨l1, l2, l3, l4⟩ := stmt_loop thf _ _ _ h5
  have k5d : DStk g5 := ⟨by rw [l3]; exact k4d.var, by rw [l4]; exact k4d.expr⟩
  by_cases hz : elf.length = 0
  · rw [if_pos hz] at h
    have he : elf = [] := List.eq_nil_of_length_eq_zero hz
    obtain ⟨u6, g6, h6, h⟩ := bind_ok_inv h
    obtain ⟨k6d, k6c, k6s, -⟩ := kd_step (fun d0 st0 => ph_lpushSymbol (kdOk d0 st0) sym) k5d h6
    cases h
    refine ⟨by rw [k6s, l2], ?_⟩
    rw [k6c, l1]
    show g4.cur.data.toList ++ _ = _
    rw [hd4, he]
    simp
  · rw [if_neg hz] at h
    obtain ⟨fin, g6, h6, h⟩ := bind_ok_inv h
    obtain ⟨k6d, k6c, k6s, -⟩ := kd_step (fun d0 st0 => ph_lnextSymbol (kdOk d0 st0)) k5d h6
    obtain ⟨u7, g7, h7, h⟩ := bind_ok_inv h
    obtain ⟨k7d, k7c, k7s, -⟩ := kd_step (fun d0 st0 => ph_pushJump (kdRef d0 st0) c fin) k6d h7
    obtain ⟨u8, g8, h8, h⟩ := bind_ok_inv h
    obtain ⟨k8d, k8c, k8s, -⟩ := kd_step (fun d0 st0 => ph_lpushSymbol (kdOk d0 st0) sym) k7d h8
    obtain ⟨u9, g9, h9, h⟩ := bind_ok_inv h
    obtain ⟨m1, m2, m3, m4⟩ := stmt_loop elf _ _ _ h9
    have k9d : DStk g9 := ⟨by rw [m3]; exact k8d.var, by rw [m4]; exact k8d.expr⟩
    obtain ⟨u10, g10, h10, h⟩ := bind_ok_inv h
    obtain ⟨k10d, k10c, k10s, -⟩ := kd_step (fun d0 st0 => ph_lpushSymbol (kdOk d0 st0) fin) k9d h10
    cases h
    refine ⟨by rw [k10s, m2, k8s, k7s, k6s, l2], ?_⟩
    rw [k10c, m1, k8c, k7c, k6c, l1]
    show (g4.cur.data.toList ++ _) ++ _ = _
    rw [hd4]

/-- the IF visit after its branches: the `n + m` fragments of the branches become one -/
theorem visit_if_eff (c : Col) (p : Expr) (th el : List Stmt) (s0 s3 : VState) (d : List Val)
    (h : StEff (th.length + el.length) d s0 s3) :
    StEff 1 d s0 (visitStatement (.«if» c p th el) s3) := by
  intro hs0
  obtain ⟨hd3, ⟨l, x⟩, o⟩ := h hs0
  have hd := wk_run (wk_genStatement (.«if» c p th el)) { s3.g with cur := {} } ⟨hd3.var, hd3.expr⟩
  rw [visitStatement_eq]
  rcases hr : (genStatement (.«if» c p th el)).run.run { s3.g with cur := {} } with ⟨r, g'⟩
  rw [hr] at hd
  cases r with
  | error e =>
    refine ⟨⟨hd.var, hd.expr⟩, ⟨l ++ [e], by show s3.errors ++ [e] = _; rw [x, List.append_assoc]⟩, fun hcl => ?_⟩
    have hcl' : s3.errors ++ [e] = s0.errors := hcl
    rw [x] at hcl'
    exact absurd (errs_split hcl').2 (by simp)
  | ok a =>
    refine ⟨⟨hd.var, hd.expr⟩, ⟨l, x⟩, fun hcl => ?_⟩
    obtain ⟨frs, hn, hst, hq⟩ := o hcl
    have h1 : (frs.take th.length).length = th.length := by rw [List.length_take]; omega
    have h2 : (frs.drop th.length).length = el.length := by rw [List.length_drop]; omega
    have hst' : ({ s3.g with cur := {} } : GState).stmt =
        s0.g.stmt ++ (frs.take th.length).toArray ++ (frs.drop th.length).toArray := by
      show s3.g.stmt = _
      rw [hst, Array.append_assoc]
      congr 1
      apply Array.ext'
      simp
    obtain ⟨i1, i2⟩ := if_gen c p th el _ s0.g.stmt _ _ hst' h1 h2 ⟨hd3.var, hd3.expr⟩ a g' hr
    refine ⟨[(a, g'.cur)], rfl, ?_, ?_⟩
    · show g'.stmt.push (a, g'.cur) = _
      rw [i1]; simp
    · simp only [List.map_cons, List.map_nil, List.flatten_cons, List.flatten_nil, List.append_nil]
      rw [i2, ← hq]
      show [] ++ _ ++ _ = _
      rw [List.nil_append, ← List.flatten_append, ← List.map_append, List.take_append_drop]

theorem stmtData_plain (st : Stmt) (hp : Stmt.plain st = true) : stmtData st = [] := by
  cases st <;> first | (cases hp; done) | (rw [stmtData] <;> nofun)

mutual
/-- **the statement visitor and the constants**: visiting a statement whose DATA items are all
    constants, without anything being reported, pushes one fragment carrying `stmtData st` -/
theorem acceptStmt_eff : ∀ (st : Stmt) (s : VState), stmtLit st = true → StEff 1 (stmtData st) s (acceptStmt st s)
  | .data c es, s, h => by
    rw [stmtLit] at h
    rw [stmtData]
    exact acceptStmt_data c es h s
  | .«if» c p th el, s, h => by
    rw [stmtLit, Bool.and_eq_true] at h
    rw [acceptStmt, stmtData]
    exact visit_if_eff c p th el _ _ _
      ((acceptExpr_sub p s).stEff ((acceptStmts_eff th _ h.1).trans (acceptStmts_eff el _ h.2)))
  | .print c es, s, _ => by
    rw [acceptStmt, stmtData_plain _ rfl]; exact (acceptExprs_sub es s).stEff (visitStatement_plain _ rfl _)
  | .def c v ps e, s, _ => by
    rw [acceptStmt, stmtData_plain _ rfl]
    exact (((acceptVar_sub v s).trans (acceptVars_sub ps _)).trans (acceptExpr_sub e _)).stEff
      (visitStatement_plain _ rfl _)
  | .defdbl c a b, s, _ => by
    rw [acceptStmt, stmtData_plain _ rfl]
    exact ((acceptVar_sub a s).trans (acceptVar_sub b _)).stEff (visitStatement_plain _ rfl _)
  | .defint c a b, s, _ => by
    rw [acceptStmt, stmtData_plain _ rfl]
    exact ((acceptVar_sub a s).trans (acceptVar_sub b _)).stEff (visitStatement_plain _ rfl _)
  | .defsng c a b, s, _ => by
    rw [acceptStmt, stmtData_plain _ rfl]
    exact ((acceptVar_sub a s).trans (acceptVar_sub b _)).stEff (visitStatement_plain _ rfl _)
  | .defstr c a b, s, _ => by
    rw [acceptStmt, stmtData_plain _ rfl]
    exact ((acceptVar_sub a s).trans (acceptVar_sub b _)).stEff (visitStatement_plain _ rfl _)
  | .swap c a b, s, _ => by
    rw [acceptStmt, stmtData_plain _ rfl]
    exact ((acceptVar_sub a s).trans (acceptVar_sub b _)).stEff (visitStatement_plain _ rfl _)
  | .mid c v e1 e2 e3, s, _ => by
    rw [acceptStmt, stmtData_plain _ rfl]
    exact ((((acceptVar_sub v s).trans (acceptExpr_sub e1 _)).trans (acceptExpr_sub e2 _)).trans
      (acceptExpr_sub e3 _)).stEff (visitStatement_plain _ rfl _)
  | .for c v e1 e2 e3, s, _ => by
    rw [acceptStmt, stmtData_plain _ rfl]
    exact ((((acceptVar_sub v s).trans (acceptExpr_sub e1 _)).trans (acceptExpr_sub e2 _)).trans
      (acceptExpr_sub e3 _)).stEff (visitStatement_plain _ rfl _)
  | .gosub c e, s, _ => by
    rw [acceptStmt, stmtData_plain _ rfl]; exact (acceptExpr_sub e s).stEff (visitStatement_plain _ rfl _)
  | .goto c e, s, _ => by
    rw [acceptStmt, stmtData_plain _ rfl]; exact (acceptExpr_sub e s).stEff (visitStatement_plain _ rfl _)
  | .load c e, s, _ => by
    rw [acceptStmt, stmtData_plain _ rfl]; exact (acceptExpr_sub e s).stEff (visitStatement_plain _ rfl _)
  | .restore c e, s, _ => by
    rw [acceptStmt, stmtData_plain _ rfl]; exact (acceptExpr_sub e s).stEff (visitStatement_plain _ rfl _)
  | .run c e, s, _ => by
    rw [acceptStmt, stmtData_plain _ rfl]; exact (acceptExpr_sub e s).stEff (visitStatement_plain _ rfl _)
  | .save c e, s, _ => by
    rw [acceptStmt, stmtData_plain _ rfl]; exact (acceptExpr_sub e s).stEff (visitStatement_plain _ rfl _)
  | .while c e, s, _ => by
    rw [acceptStmt, stmtData_plain _ rfl]; exact (acceptExpr_sub e s).stEff (visitStatement_plain _ rfl _)
  | .let c v e, s, _ => by
    rw [acceptStmt, stmtData_plain _ rfl]
    exact ((acceptVar_sub v s).trans (acceptExpr_sub e _)).stEff (visitStatement_plain _ rfl _)
  | .delete c a b, s, _ => by
    rw [acceptStmt, stmtData_plain _ rfl]
    exact ((acceptExpr_sub a s).trans (acceptExpr_sub b _)).stEff (visitStatement_plain _ rfl _)
  | .list c a b, s, _ => by
    rw [acceptStmt, stmtData_plain _ rfl]
    exact ((acceptExpr_sub a s).trans (acceptExpr_sub b _)).stEff (visitStatement_plain _ rfl _)
  | .input c e1 e2 vs, s, _ => by
    rw [acceptStmt, stmtData_plain _ rfl]
    exact (((acceptExpr_sub e1 s).trans (acceptExpr_sub e2 _)).trans (acceptVars_sub vs _)).stEff
      (visitStatement_plain _ rfl _)
  | .onGoto c e ls, s, _ => by
    rw [acceptStmt, stmtData_plain _ rfl]
    exact ((acceptExpr_sub e s).trans (acceptExprs_sub ls _)).stEff (visitStatement_plain _ rfl _)
  | .onGosub c e ls, s, _ => by
    rw [acceptStmt, stmtData_plain _ rfl]
    exact ((acceptExpr_sub e s).trans (acceptExprs_sub ls _)).stEff (visitStatement_plain _ rfl _)
  | .renum c a b st, s, _ => by
    rw [acceptStmt, stmtData_plain _ rfl]
    exact (((acceptExpr_sub a s).trans (acceptExpr_sub b _)).trans (acceptExpr_sub st _)).stEff
      (visitStatement_plain _ rfl _)
  | .dim c vs, s, _ => by
    rw [acceptStmt, stmtData_plain _ rfl]; exact (acceptVars_sub vs s).stEff (visitStatement_plain _ rfl _)
  | .erase c vs, s, _ => by
    rw [acceptStmt, stmtData_plain _ rfl]; exact (acceptVars_sub vs s).stEff (visitStatement_plain _ rfl _)
  | .next c vs, s, _ => by
    rw [acceptStmt, stmtData_plain _ rfl]; exact (acceptVars_sub vs s).stEff (visitStatement_plain _ rfl _)
  | .read c vs, s, _ => by
    rw [acceptStmt, stmtData_plain _ rfl]; exact (acceptVars_sub vs s).stEff (visitStatement_plain _ rfl _)
  | .clear c, s, _ => by
    rw [stmtData_plain _ rfl]; rw [acceptStmt] <;> first | exact visitStatement_plain _ rfl _ | nofun
  | .cls c, s, _ => by
    rw [stmtData_plain _ rfl]; rw [acceptStmt] <;> first | exact visitStatement_plain _ rfl _ | nofun
  | .cont c, s, _ => by
    rw [stmtData_plain _ rfl]; rw [acceptStmt] <;> first | exact visitStatement_plain _ rfl _ | nofun
  | .end c, s, _ => by
    rw [stmtData_plain _ rfl]; rw [acceptStmt] <;> first | exact visitStatement_plain _ rfl _ | nofun
  | .new c, s, _ => by
    rw [stmtData_plain _ rfl]; rw [acceptStmt] <;> first | exact visitStatement_plain _ rfl _ | nofun
  | .return c, s, _ => by
    rw [stmtData_plain _ rfl]; rw [acceptStmt] <;> first | exact visitStatement_plain _ rfl _ | nofun
  | .stop c, s, _ => by
    rw [stmtData_plain _ rfl]; rw [acceptStmt] <;> first | exact visitStatement_plain _ rfl _ | nofun
  | .troff c, s, _ => by
    rw [stmtData_plain _ rfl]; rw [acceptStmt] <;> first | exact visitStatement_plain _ rfl _ | nofun
  | .tron c, s, _ => by
    rw [stmtData_plain _ rfl]; rw [acceptStmt] <;> first | exact visitStatement_plain _ rfl _ | nofun
  | .wend c, s, _ => by
    rw [stmtData_plain _ rfl]; rw [acceptStmt] <;> first | exact visitStatement_plain _ rfl _ | nofun
theorem acceptStmts_eff : ∀ (sts : List Stmt) (s : VState), stmtsLit sts = true →
    StEff sts.length (stmtsData sts) s (acceptStmts sts s)
  | [], s, _ => by rw [acceptStmts, stmtsData]; exact StEff.nil s
  | st :: sts, s, h => by
    rw [stmtsLit, Bool.and_eq_true] at h
    rw [acceptStmts, stmtsData, List.length_cons, Nat.add_comm]
    exact (acceptStmt_eff st s h.1).trans (acceptStmts_eff sts _ h.2)
end

/-! ### linking leaves the data segment alone -/

theorem linkOne_data (l : Link) (a : Nat) (c : Col) (sym : Symbol) :
    (l.linkOne a c sym).1.data = l.data ∧ (l.linkOne a c sym).1.dataPos = l.dataPos := by
  unfold linkOne
  split
  · split <;> exact ⟨rfl, rfl⟩
  · split <;> exact ⟨rfl, rfl⟩

theorem linkStep_data (acc : Link × List Error) (p : Nat × (Col × Symbol)) :
    (linkStep acc p).1.data = acc.1.data ∧ (linkStep acc p).1.dataPos = acc.1.dataPos := by
  unfold linkStep
  have := linkOne_data acc.1 p.1 p.2.1 p.2.2
  split <;> (rename_i h; rw [h] at this; exact this)

theorem foldl_linkStep_data (ps : List (Nat × (Col × Symbol))) (acc : Link × List Error) :
    (ps.foldl linkStep acc).1.data = acc.1.data ∧ (ps.foldl linkStep acc).1.dataPos = acc.1.dataPos := by
  induction ps generalizing acc with
  | nil => exact ⟨rfl, rfl⟩
  | cons hd tl ih =>
    rw [List.foldl_cons]
    exact ⟨(ih _).1.trans (linkStep_data _ _).1, (ih _).2.trans (linkStep_data _ _).2⟩

theorem link_data (l : Link) : l.link.1.data = l.data ∧ l.link.1.dataPos = l.dataPos := by
  rw [link_eq]
  have := foldl_linkStep_data l.linkWhiles.1.unlinked ({ l.linkWhiles.1 with unlinked := [] }, l.linkWhiles.2)
  rw [linkWhiles_matches] at this ⊢
  exact this

theorem linkProg_data (p : Program) :
    p.linkProg.link.data = p.link.data ∧ p.linkProg.link.dataPos = p.link.dataPos := by
  unfold Program.linkProg
  dsimp only
  repeat' split
  all_goals simp [Link.setStartOfDirect, link_data, Link.push]

/-! ### `codegen`: the fragments of a line are appended in statement order -/

/-- when `appendAll` reports nothing, no error was pending, every append succeeded, and code and
    data are the concatenations in fragment order -/
theorem appendAll_clean : ∀ (frags : List (Col × Link)) (link : Link) (errs : List Error),
    (codegen.appendAll frags link errs).2 = [] →
    errs = [] ∧
    (codegen.appendAll frags link errs).1.data.toList = link.data.toList ++ (frags.map (·.2.data.toList)).flatten ∧
    (codegen.appendAll frags link errs).1.ops.toList = link.ops.toList ++ (frags.map (·.2.ops.toList)).flatten
  | [], link, errs, h => by
    simp only [codegen.appendAll] at h ⊢
    exact ⟨h, by simp, by simp⟩
  | (c, f) :: rest, link, errs, h => by
    simp only [codegen.appendAll] at h ⊢
    cases hr : link.append f with
    | mk l' r =>
      rw [hr] at h
      cases r with
      | error e =>
        simp only at h
        exact absurd (congrArg List.length h) (by simp)
      | ok u =>
        simp only at h ⊢
        obtain ⟨i0, i1, i2⟩ := appendAll_clean rest l' errs h
        have hok : (link.append f).2 = .ok () := by rw [hr]
        have h1 := append_data hok
        have h2 := append_ops hok
        rw [hr] at h1 h2
        simp only at h1 h2
        refine ⟨i0, ?_, ?_⟩
        · rw [i1, h1]; simp
        · rw [i2, h2]; simp

/-- **one line's statements**: when `codegen` reports nothing (and the DATA items are constants), the
    data segment grows by the constants of the statements, in statement order, DATA inside IF
    branches included -/
theorem codegen_data (link : Link) (ast : List Stmt) (hl : stmtsLit ast = true)
    (h : (Codegen.codegen link ast).2 = []) :
    (Codegen.codegen link ast).1.data.toList = link.data.toList ++ stmtsData ast := by
  unfold Codegen.codegen at h ⊢
  dsimp only at h ⊢
  obtain ⟨h0, h1, -⟩ := appendAll_clean _ _ _ h
  rw [h1]
  obtain ⟨-, -, o⟩ := acceptStmts_eff ast {} hl DStk.empty
  obtain ⟨frs, -, hst, hq⟩ := o h0
  have : (acceptStmts ast {}).g.stmt.toList = frs := by
    rw [hst]; simp
  rw [this, hq]

/-! ### the data segment of a program -/

/-- the constants of a numbered line: those of its statements if it parses, none if it does not -/
def lineData (line : Line) : List Val :=
  match Parse.parse line.number line.tokens with
  | .ok ast => stmtsData ast
  | .error _ => []

/-- **the data sequence of a listing**: the constants of every DATA statement, in line order, left
    to right within a line -/
def dataOf (lines : List Line) : List Val := lines.flatMap lineData

/-- the line, if it parses, has constants as DATA items and compiles without a report -/
def LineOk (p : Program) (line : Line) : Prop :=
  ∀ n ast, line.number = some n → Parse.parse line.number line.tokens = .ok ast →
    stmtsLit ast = true ∧ (Codegen.codegen (p.link.pushSymbol n) ast).2 = []

/-- every line of the listing, compiled in its turn, is `LineOk` -/
def ListingOk : Program → List Line → Prop
  | _, [] => True
  | p, l :: ls => LineOk p l ∧ ListingOk (p.codegenLine l) ls

/-- **a line that does not parse contributes nothing** (only its symbol and the error) -/
theorem codegenLine_parse_error (p : Program) (line : Line) (n : Nat) (hn : line.number = some n) (e : Error)
    (hp : Parse.parse line.number line.tokens = .error e) :
    (p.codegenLine line).link.data = p.link.data ∧ (p.codegenLine line).link.ops = p.link.ops ∧
    (p.codegenLine line).errors = p.errors ++ [e] := by
  unfold Program.codegenLine
  simp only [hn, Option.isNone_some, Bool.false_eq_true, if_false]
  rw [← hn, hp]
  exact ⟨rfl, rfl, rfl⟩

theorem codegenLine_data (p : Program) (line : Line) (n : Nat) (hn : line.number = some n) (hok : LineOk p line) :
    (p.codegenLine line).link.data.toList = p.link.data.toList ++ lineData line := by
  unfold lineData
  cases hp : Parse.parse line.number line.tokens with
  | error e =>
    rw [(codegenLine_parse_error p line n hn e hp).1]
    simp
  | ok ast =>
    obtain ⟨h1, h2⟩ := hok n ast hn hp
    have := codegen_data (p.link.pushSymbol n) ast h1 h2
    unfold Program.codegenLine
    simp only [hn, Option.isNone_some, Bool.false_eq_true, if_false]
    rw [← hn, hp]
    exact this

/-- numbered lines -/
def Numbered (ls : List Line) : Prop := ∀ l ∈ ls, ∃ n : Nat, l.number = some n

theorem codegenLines_data : ∀ (lines : List Line) (p : Program), Numbered lines → ListingOk p lines →
    (p.codegenLines lines).link.data.toList = p.link.data.toList ++ dataOf lines
  | [], p, _, _ => by simp [Program.codegenLines, dataOf]
  | l :: ls, p, hnum, hok => by
    obtain ⟨n, hn⟩ := hnum l List.mem_cons_self
    show ((p.codegenLine l).codegenLines ls).link.data.toList = _
    rw [codegenLines_data ls _ (fun x hx => hnum x (List.mem_cons_of_mem _ hx)) hok.2, codegenLine_data p l n hn hok.1]
    simp [dataOf]

/-- **the data segment of a compiled program** is the data sequence of its listing -/
theorem compile_data (lines : List Line) (hnum : Numbered lines) (hok : ListingOk {} lines) :
    (Program.compile lines).link.data.toList = dataOf lines := by
  unfold Program.compile
  rw [(linkProg_data _).1, codegenLines_data lines {} hnum hok]
  rfl

/-! ### listings that compile without errors -/

/-- every DATA item of every line that parses is a constant (a syntactic, decidable condition) -/
def DataLits (lines : List Line) : Prop :=
  ∀ l ∈ lines, ∀ ast, Parse.parse l.number l.tokens = .ok ast → stmtsLit ast = true

/-- compiling a numbered line only adds errors; it adds none exactly when the line parses and
    `codegen` reports nothing -/
theorem codegenLine_errors (p : Program) (line : Line) (n : Nat) (hn : line.number = some n) :
    (∃ new, (p.codegenLine line).errors = p.errors ++ new) ∧
    ((p.codegenLine line).errors = p.errors →
      ∃ ast, Parse.parse line.number line.tokens = .ok ast ∧ (Codegen.codegen (p.link.pushSymbol n) ast).2 = []) ∧
    (p.codegenLine line).directAddress = p.directAddress := by
  cases hp : Parse.parse line.number line.tokens with
  | error e =>
    have h := (codegenLine_parse_error p line n hn e hp).2.2
    refine ⟨⟨[e], h⟩, fun hc => ?_, ?_⟩
    · rw [h] at hc
      exact absurd (congrArg List.length hc) (by simp)
    · unfold Program.codegenLine
      simp only [hn, Option.isNone_some, Bool.false_eq_true, if_false]
      rw [← hn, hp]
  | ok ast =>
    have h : (p.codegenLine line).errors =
        p.errors ++ (Codegen.codegen (p.link.pushSymbol n) ast).2.map (·.inLine (some n)) ∧
        (p.codegenLine line).directAddress = p.directAddress := by
      unfold Program.codegenLine
      simp only [hn, Option.isNone_some, Bool.false_eq_true, if_false]
      rw [← hn, hp]
      exact ⟨by simp only [hn], rfl⟩
    refine ⟨⟨_, h.1⟩, fun hc => ⟨ast, rfl, ?_⟩, h.2⟩
    rw [h.1] at hc
    have := congrArg List.length hc
    simp only [List.length_append, List.length_map] at this
    exact List.eq_nil_of_length_eq_zero (by omega)

theorem codegenLines_clean : ∀ (lines : List Line) (p : Program), Numbered lines → DataLits lines →
    (p.codegenLines lines).errors = [] →
    p.errors = [] ∧ ListingOk p lines ∧ (∀ l ∈ lines, ∃ ast, Parse.parse l.number l.tokens = .ok ast) ∧
    (p.codegenLines lines).directAddress = p.directAddress
  | [], p, _, _, h => ⟨h, trivial, fun _ hl => absurd hl List.not_mem_nil, rfl⟩
  | l :: ls, p, hnum, hlit, h => by
    obtain ⟨n, hn⟩ := hnum l List.mem_cons_self
    obtain ⟨⟨new, e1⟩, e2, e3⟩ := codegenLine_errors p l n hn
    obtain ⟨i1, i2, i3, i4⟩ := codegenLines_clean ls (p.codegenLine l)
      (fun x hx => hnum x (List.mem_cons_of_mem _ hx)) (fun x hx => hlit x (List.mem_cons_of_mem _ hx)) h
    rw [e1] at i1
    have hp : p.errors = [] := (List.append_eq_nil_iff.1 i1).1
    have hnew : new = [] := (List.append_eq_nil_iff.1 i1).2
    obtain ⟨ast, ha, hc⟩ := e2 (by rw [e1, hnew, List.append_nil])
    refine ⟨hp, ⟨?_, i2⟩, ?_, ?_⟩
    · intro n' ast' hn' ha'
      rw [hn] at hn'
      cases hn'
      rw [ha] at ha'
      cases ha'
      exact ⟨hlit l List.mem_cons_self ast ha, hc⟩
    · intro x hx
      rcases List.mem_cons.1 hx with rfl | hx
      · exact ⟨ast, ha⟩
      · exact i3 x hx
    · show ((p.codegenLine l).codegenLines ls).directAddress = _
      rw [i4, e3]

theorem linkProg_indirect (p : Program) (hd : p.directAddress = 0) (h : p.linkProg.indirectErrors = []) :
    p.errors = [] := by
  unfold Program.linkProg at h
  dsimp only at h
  repeat' split at h
  all_goals simp_all

/-- a listing that compiles without errors: every line parses, and every line is `LineOk` -/
theorem listingOk_of_clean (lines : List Line) (hnum : Numbered lines) (hlit : DataLits lines)
    (h : (Program.compile lines).indirectErrors = []) :
    ListingOk {} lines ∧ (∀ l ∈ lines, ∃ ast, Parse.parse l.number l.tokens = .ok ast) ∧
    (({} : Program).codegenLines lines).errors = [] := by
  have hd : (({} : Program).codegenLines lines).directAddress = 0 := by
    have : ∀ (ls : List Line) (p : Program), Numbered ls → (p.codegenLines ls).directAddress = p.directAddress := by
      intro ls
      induction ls with
      | nil => intro p _; rfl
      | cons l ls ih =>
        intro p hn
        obtain ⟨n, hl⟩ := hn l List.mem_cons_self
        show ((p.codegenLine l).codegenLines ls).directAddress = _
        rw [ih _ (fun x hx => hn x (List.mem_cons_of_mem _ hx)), (codegenLine_errors p l n hl).2.2]
    exact this lines {} hnum
  have he := linkProg_indirect _ hd h
  obtain ⟨-, h2, h3, -⟩ := codegenLines_clean lines {} hnum hlit he
  exact ⟨h2, h3, he⟩

/-- **the data segment of a program that compiles without errors** -/
theorem compile_data_clean (lines : List Line) (hnum : Numbered lines) (hlit : DataLits lines)
    (h : (Program.compile lines).indirectErrors = []) :
    (Program.compile lines).link.data.toList = dataOf lines :=
  compile_data lines hnum (listingOk_of_clean lines hnum hlit h).1

/-! ### the data sequence does not depend on where the DATA lines sit -/

/-- the constants of a token list (the line number plays no role: `parse` uses it only to label errors) -/
def tokData (ts : List Token) : List Val :=
  match Parse.parseTokens ts with
  | .ok ast => stmtsData ast
  | .error _ => []

theorem lineData_eq_tokData (line : Line) : lineData line = tokData line.tokens := by
  unfold lineData tokData Parse.parse
  cases Parse.parseTokens line.tokens <;> rfl

/-- a line that carries at least one constant -/
def carriesData (line : Line) : Bool := !(lineData line).isEmpty

/-- `dataOf` sees only the lines that carry constants … -/
theorem dataOf_filter (lines : List Line) : dataOf lines = dataOf (lines.filter carriesData) := by
  unfold dataOf
  induction lines with
  | nil => rfl
  | cons l ls ih =>
    by_cases h : carriesData l = true
    · rw [List.filter_cons_of_pos h, List.flatMap_cons, List.flatMap_cons, ih]
    · rw [List.filter_cons_of_neg h, List.flatMap_cons, ih]
      have : lineData l = [] := by
        unfold carriesData at h
        cases hl : lineData l with
        | nil => rfl
        | cons a b => rw [hl] at h; exact absurd rfl h
      rw [this, List.nil_append]

/-- … and of those only the token lists, in listing order: line numbers, and the code lines in between,
    play no role -/
theorem dataOf_eq_tokens (lines : List Line) : dataOf lines = ((lines.filter carriesData).map (·.tokens)).flatMap tokData := by
  rw [dataOf_filter]
  unfold dataOf
  induction lines.filter carriesData with
  | nil => rfl
  | cons l ls ih => rw [List.flatMap_cons, List.map_cons, List.flatMap_cons, ih, lineData_eq_tokData]

/-- **position independence**: two listings whose DATA-carrying lines have the same texts in the same
    relative order (wherever they sit among the other lines, whatever their numbers) have the same
    data sequence -/
theorem dataOf_position_independent (ls ls' : List Line)
    (h : (ls.filter carriesData).map (·.tokens) = (ls'.filter carriesData).map (·.tokens)) :
    dataOf ls = dataOf ls' := by
  rw [dataOf_eq_tokens, dataOf_eq_tokens, h]

/-- … hence the same compiled data segment -/
theorem compile_data_position_independent (ls ls' : List Line) (hn : Numbered ls) (hn' : Numbered ls')
    (hok : ListingOk {} ls) (hok' : ListingOk {} ls')
    (h : (ls.filter carriesData).map (·.tokens) = (ls'.filter carriesData).map (·.tokens)) :
    (Program.compile ls).link.data = (Program.compile ls').link.data := by
  apply Array.ext'
  rw [compile_data ls hn hok, compile_data ls' hn' hok', dataOf_position_independent ls ls' h]

/-! ### RESTORE: the fragment -/

/-- the line a RESTORE operand names (`none`: plain RESTORE — the parser supplies −1 — or not a line number) -/
def restoreTarget (bits : UInt32) : Option Nat :=
  match (Val.sng bits).toLineNumber with
  | .ok ln => ln
  | .error _ => none

/-- the fragment of `RESTORE [n]`: one instruction `restore 0`; with an operand, a pending reference
    to the line's symbol, to be patched by the linker with the line's **data** address -/
def restoreFrag (sub : Col) : Option Nat → Link
  | some n => { ops := #[.restore 0], unlinked := [(0, (sub, (n : Int)))] }
  | none => { ops := #[.restore 0] }

theorem acceptExpr_single (c2 : Col) (bits : UInt32) (s : VState) :
    acceptExpr (.single c2 bits) s =
      { s with g := { s.g with expr := s.g.expr.push (c2, { ops := #[.literal (.sng bits)] }) } } := by
  rw [acceptExpr] <;> first | (rw [visitExpression_eq]; simp only [genExpression]; rw [lit_run]) | nofun

theorem pushRestore_run (sub : Col) (ln : Option Nat) (g : GState) (hc : g.cur = {}) :
    (pushRestore sub ln).run.run g = (.ok (), { g with cur := restoreFrag sub ln }) := by
  unfold pushRestore
  cases ln with
  | none =>
    simp only [Option.isSome_none, Bool.false_eq_true, if_false]
    rw [d_lpush, hc, push_empty]
    rfl
  | some n =>
    simp only [Option.isSome_some, if_true, symbolForLineNumber]
    rw [d_bind_ok (d_liftE _ _), d_bind_ok (show (laddUnlinked sub (n : Int)).run.run g = (.ok (), _) from d_modify _ _), d_lpush]
    have : ((({} : Link).addUnlinked sub (n : Int)).push (.restore 0)) =
        (({ ops := #[.restore 0], unlinked := [(0, (sub, (n : Int)))] } : Link), .ok ()) := by
      simp [Link.push, Link.addUnlinked, unlInsert]
      decide
    show ((Link.push (Link.addUnlinked g.cur sub (n : Int)) (.restore 0)).2, _) = _
    rw [hc, this]
    rfl

/-- **`RESTORE [n]` compiles to one `restore 0`** (nothing reported, no data), with the reference to
    line `n` pending when an operand is given -/
theorem acceptStmt_restore (c c2 : Col) (bits : UInt32) (s : VState) :
    acceptStmt (.restore c (.single c2 bits)) s =
      { s with g := { s.g with stmt := s.g.stmt.push (c, restoreFrag c2 (restoreTarget bits)) } } := by
  rw [acceptStmt, acceptExpr_single, visitStatement_eq]
  simp only [genStatement]
  rw [d_bind_ok (popExpr_push _ s.g.expr (c2, { ops := #[.literal (.sng bits)] }) rfl)]
  dsimp only
  have hl : lineNumberOfLink ({ ops := #[.literal (.sng bits)] } : Link) = (Val.sng bits).toLineNumber := rfl
  rw [hl]
  rw [d_bind_ok (pushRestore_run c2 _ _ rfl)]
  rfl

/-! ### checkers for concrete listings -/

def numberedB (ls : List Line) : Bool := ls.all fun l => l.number.isSome

theorem numbered_of_check (ls : List Line) (h : numberedB ls = true) : Numbered ls := by
  intro l hl
  have := List.all_eq_true.1 h l hl
  cases hn : l.number with
  | none => rw [hn] at this; cases this
  | some n => exact ⟨n, rfl⟩

def dataLitsB (ls : List Line) : Bool :=
  ls.all fun l => match Parse.parse l.number l.tokens with
    | .ok ast => stmtsLit ast
    | .error _ => true

theorem dataLits_of_check (ls : List Line) (h : dataLitsB ls = true) : DataLits ls := by
  intro l hl ast hp
  have := List.all_eq_true.1 h l hl
  rw [hp] at this
  exact this

/-! ### concrete listings whose parses are known (the kernel does not evaluate the parser) -/

/-- `codegenLine` of a numbered line, given its parse -/
def genWith (p : Program) (n : Nat) (ast : List Stmt) : Program :=
  { p with lineNumber := some n, link := (Codegen.codegen (p.link.pushSymbol n) ast).1,
           errors := p.errors ++ (Codegen.codegen (p.link.pushSymbol n) ast).2.map (·.inLine (some n)) }

theorem codegenLine_of_ast (p : Program) (line : Line) (n : Nat) (ast : List Stmt) (hn : line.number = some n)
    (hp : Parse.parse line.number line.tokens = .ok ast) : p.codegenLine line = genWith p n ast := by
  unfold Program.codegenLine genWith
  simp only [hn, Option.isNone_some, Bool.false_eq_true, if_false]
  rw [← hn, hp]

/-- the listing's parses -/
def Parses (ls : List Line) (asts : List (List Stmt)) : Prop :=
  All2 (fun l ast => Parse.parse l.number l.tokens = .ok ast) ls asts

/-- `ListingOk`, decided on the parses -/
def checkOk : Program → List Line → List (List Stmt) → Bool
  | _, [], [] => true
  | p, l :: ls, ast :: asts =>
    match l.number with
    | some n => stmtsLit ast && (Codegen.codegen (p.link.pushSymbol n) ast).2.isEmpty && checkOk (genWith p n ast) ls asts
    | none => false
  | _, _, _ => false

theorem listingOk_of_check : ∀ (ls : List Line) (asts : List (List Stmt)) (p : Program), Parses ls asts →
    checkOk p ls asts = true → ListingOk p ls
  | [], _, _, _, _ => trivial
  | l :: ls, [], _, h, _ => by cases h
  | l :: ls, ast :: asts, p, h, hc => by
    cases h with
    | cons h1 h2 =>
      unfold checkOk at hc
      cases hn : l.number with
      | none => rw [hn] at hc; cases hc
      | some n =>
        rw [hn] at hc
        simp only [Bool.and_eq_true, List.isEmpty_iff] at hc
        refine ⟨?_, ?_⟩
        · intro n' ast' hn' ha'
          rw [hn] at hn'
          cases hn'
          rw [h1] at ha'
          cases ha'
          exact ⟨hc.1.1, hc.1.2⟩
        · rw [codegenLine_of_ast p l n ast hn h1]
          exact listingOk_of_check ls asts _ h2 hc.2

theorem dataOf_of_parses : ∀ (ls : List Line) (asts : List (List Stmt)), Parses ls asts →
    dataOf ls = asts.flatMap stmtsData
  | [], [], _ => rfl
  | l :: ls, ast :: asts, h => by
    cases h with
    | cons h1 h2 =>
      have ih := dataOf_of_parses ls asts h2
      unfold dataOf at ih ⊢
      rw [List.flatMap_cons, List.flatMap_cons, ih]
      unfold lineData
      rw [h1]

/-! ### non-vacuity -/

/-- `10 READ A` / `20 DATA 7,-8` / `30 PRINT A` / `40 DATA "X"` -/
def exRead : Line := ⟨some 10, [.word .read, .whitespace 1, .ident (.plain ['A'])]⟩
def exData1 : Line := ⟨some 20, [.word .data, .whitespace 1, .literal (.integer ['7']), .comma, .operator .minus,
  .literal (.integer ['8'])]⟩
def exPrint : Line := ⟨some 30, [.word .print, .whitespace 1, .ident (.plain ['A'])]⟩
def exData2 : Line := ⟨some 40, [.word .data, .whitespace 1, .literal (.string ['X'])]⟩

end DataOrder
end Basic
