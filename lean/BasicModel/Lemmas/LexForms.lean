import BasicModel.Lemmas.LexLine
/-
  Canonical numerals and names: the printed forms for which the scanners are proved to be the
  inverse of `Display` (used by Thm/C05 and Thm/C16).
-/
set_option linter.unusedSimpArgs false
namespace Basic
namespace Lex

/-! ### canonical numerals -/

abbrev AllDigits (ds : List Char) : Prop := ∀ c ∈ ds, isDigit c = true

/-- exponent part of a printed numeral: `E` or `D`, optional sign, digits -/
structure Exponent where
  letter : Char
  sign : List Char
  digits : List Char

def Exponent.WF (x : Exponent) : Prop :=
  (x.letter = 'E' ∨ x.letter = 'D') ∧ (x.sign = [] ∨ x.sign = ['+'] ∨ x.sign = ['-']) ∧
    AllDigits x.digits ∧ x.digits ≠ []

instance (x : Exponent) : Decidable x.WF := by unfold Exponent.WF; infer_instance

def Exponent.text (x : Exponent) : Str := x.letter :: (x.sign ++ x.digits)

/-- the numerals the theorems speak about: `d+`, `d*.d*`, either with an exponent `E|D [+-] d+`,
    optionally followed by a type suffix `! # %` -/
structure Numeral where
  int : List Char
  frac : Option (List Char)
  expo : Option Exponent
  sfx : Option Char

def Numeral.WF (nm : Numeral) : Prop :=
  AllDigits nm.int ∧ (∀ f, nm.frac = some f → AllDigits f) ∧ (nm.frac = none → nm.int ≠ []) ∧
    (∀ x, nm.expo = some x → x.WF) ∧ (∀ c, nm.sfx = some c → isNumSuffix c = true)

def fracText : Option (List Char) → Str
  | some f => '.' :: f
  | none => []
def fracCount : Option (List Char) → Nat
  | some f => f.length
  | none => 0
def expoText : Option Exponent → Str
  | some x => x.text
  | none => []
def expoCount : Option Exponent → Nat
  | some x => if x.letter = 'D' then 8 else 0
  | none => 0

def Numeral.mantissa (nm : Numeral) : Str := nm.int ++ fracText nm.frac
def Numeral.body (nm : Numeral) : Str := nm.mantissa ++ expoText nm.expo
def Numeral.text (nm : Numeral) : Str := nm.body ++ nm.sfx.toList

/-- the digit counter of `number()` at the end of the numeral -/
def Numeral.count (nm : Numeral) : Nat := nm.int.length + fracCount nm.frac + expoCount nm.expo

/-- the token a finished numeral becomes -/
def numeralToken (sfx : Option Char) (s : Str) (dg : Nat) (dec ex : Bool) : Token :=
  match sfx with
  | some c => .literal (suffixLiteral c (s ++ [c]))
  | none => numberFinish s dg dec ex

/-- the token `number()` makes of the numeral -/
def Numeral.token (nm : Numeral) : Token :=
  numeralToken nm.sfx nm.body nm.count nm.frac.isSome nm.expo.isSome

theorem numberLoop_mantissa (nm : Numeral) (h : nm.WF) (tail : List Char) :
    numberLoop (nm.mantissa ++ tail) [] 0 false false =
      numberAfter tail nm.mantissa (nm.int.length + fracCount nm.frac) nm.frac.isSome false := by
  obtain ⟨int, frac, expo, sfx⟩ := nm
  obtain ⟨h1, h2, h3, -, -⟩ := h
  cases frac with
  | none =>
    have := numberLoop_digits int h1 (h3 rfl) tail [] 0 false false
    simpa [Numeral.mantissa, fracText, fracCount] using this
  | some f =>
    have := numberLoop_decimal int f h1 (h2 f rfl) tail
    simpa [Numeral.mantissa, fracText, fracCount] using this

theorem numberAfter_sfx (sfx : Option Char) (hs : ∀ c, sfx = some c → isNumSuffix c = true)
    (rest : List Char) (hb : sfx = none → NumBoundary rest) (s : Str) (dg : Nat) (dec ex : Bool) :
    numberAfter (sfx.toList ++ rest) s dg dec ex = (numeralToken sfx s dg dec ex, rest) := by
  cases sfx with
  | none => simpa [numeralToken] using numberAfter_boundary rest (hb rfl) s dg dec ex
  | some c => simpa [numeralToken] using numberAfter_suffix c (hs c rfl) rest s dg dec ex

/-- after the mantissa: optional exponent, then suffix or boundary -/
theorem numberAfter_tail (expo : Option Exponent) (sfx : Option Char)
    (hx : ∀ x, expo = some x → x.WF) (hs : ∀ c, sfx = some c → isNumSuffix c = true)
    (rest : List Char) (hb : sfx = none → NumBoundary rest) (s : Str) (dg : Nat) (dec : Bool) :
    numberAfter (expoText expo ++ (sfx.toList ++ rest)) s dg dec false =
      (numeralToken sfx (s ++ expoText expo) (dg + expoCount expo) dec expo.isSome, rest) := by
  cases expo with
  | none => simpa [expoText, expoCount] using numberAfter_sfx sfx hs rest hb s dg dec false
  | some x =>
    obtain ⟨hl, hsg, hd, hne⟩ := hx x rfl
    have hf : foldED x.letter = x.letter := by rcases hl with h | h <;> rw [h] <;> rfl
    have := numberAfter_exponent x.letter (by rcases hl with h | h <;> simp [h]) x.sign hsg x.digits hd hne
      (sfx.toList ++ rest) s dg dec
    simp only [expoText, Exponent.text, List.cons_append, List.append_assoc]
    rw [this, numberAfter_sfx sfx hs rest hb, hf]
    simp only [expoCount, Option.isSome_some]
    congr 2
    · simp
    · split <;> rfl

/-- `number()` reads a canonical numeral back from its text -/
theorem number_numeral (nm : Numeral) (h : nm.WF) (rest : List Char)
    (hb : nm.sfx = none → NumBoundary rest) : number (nm.text ++ rest) = (nm.token, rest) := by
  have hm := numberLoop_mantissa nm h
  obtain ⟨h1, h2, h3, h4, h5⟩ := h
  unfold number
  simp only [Numeral.text, Numeral.body, List.append_assoc]
  rw [hm, numberAfter_tail nm.expo nm.sfx h4 h5 rest hb]
  simp only [Numeral.token, Numeral.body, Numeral.count]

/-! ### canonical names -/

/-- a variable name as typed: letters (any case), digits, optional type suffix -/
structure Name where
  letters : List Char
  digits : List Char
  sfx : Option Char

/-- the name as the lexer stores it (without the suffix) -/
def Name.base (nm : Name) : Str := nm.letters.map upper ++ nm.digits

def Name.WF (nm : Name) : Prop :=
  (∀ c ∈ nm.letters, isAlpha c = true) ∧ nm.letters ≠ [] ∧ (∀ c ∈ nm.digits, isDigit c = true) ∧
    (∀ c, nm.sfx = some c → isSuffixChar c = true) ∧ NoKeyword nm.base

/-- the source text -/
def Name.text (nm : Name) : Str := nm.letters ++ (nm.digits ++ nm.sfx.toList)

def Name.token (nm : Name) : Token :=
  match nm.sfx with
  | none => .ident (.plain nm.base)
  | some c => .ident (suffixIdent c (nm.base ++ [c]))

/-- `alphabetic()` reads a name without embedded reserved words as one identifier, in any case -/
theorem alphabetic_name (nm : Name) (h : nm.WF) (rest : List Char)
    (hb : nm.sfx = none → AlphaBoundary rest) :
    alphabetic (nm.text ++ rest) = ([nm.token], rest) := by
  obtain ⟨letters, digits, sfx⟩ := nm
  obtain ⟨hl, hne, hd, hs, hk⟩ := h
  simp only [Name.base] at hk
  simp only [alphabetic, Name.text, Name.token, Name.base, List.append_assoc]
  dsimp only at hl hne hd hs hb
  have hkl' : NoKeyword (letters.map upper) := NoKeyword.prefix _ _ hk
  have hkl : NoKeyword ([] ++ letters.map upper) := by simpa using hkl'
  cases sfx with
  | none =>
    simp only [Option.toList_none, List.nil_append]
    cases digits with
    | nil =>
      rw [List.nil_append, alphaLoop_letters letters hl hne rest (hb rfl)]
      simp [alphaFinish, scanAlphabetic_noKeyword [] _ hkl', hne]
    | cons k ds =>
      rw [List.cons_append, alphaLoop_letters_then letters hl hne k _ (by simp [hd k (by simp)]) [] [] hkl,
        ← List.cons_append, alphaLoop_digits_boundary (k :: ds) hd (by simp) rest (hb rfl) _ _ _
          (by simpa using hk)]
      simp
  | some c =>
    have hc := hs c rfl
    simp only [Option.toList_some, List.cons_append, List.nil_append]
    have hnext : ∃ k tl, digits ++ c :: rest = k :: tl ∧ (isDigit k || isSuffixChar k) = true := by
      cases digits with
      | nil => exact ⟨c, rest, rfl, by simp [hc]⟩
      | cons k ds => exact ⟨k, ds ++ c :: rest, rfl, by simp [hd k (by simp)]⟩
    obtain ⟨k, tl, e, hk'⟩ := hnext
    rw [e, alphaLoop_letters_then letters hl hne k tl hk' [] [] hkl, ← e,
      alphaLoop_digits_suffix digits hd c hc rest _ _ _ (by simpa using hk)]
    simp

theorem Name.token_text (nm : Name) (h : nm.WF) : nm.token.text = nm.base ++ nm.sfx.toList := by
  obtain ⟨letters, digits, sfx⟩ := nm
  cases sfx with
  | none => simp [Name.token, Token.text, TIdent.name]
  | some c =>
    simp only [Name.token, Token.text, suffixIdent]
    split
    · simp [TIdent.name]
    split
    · simp [TIdent.name]
    split <;> simp [TIdent.name]

end Lex
end Basic
