import BasicModel.Lemmas.LexAllDirect2
/-
  C05 for ALL strings, part 14: the theorems about `lex` and `relist`.
-/
set_option linter.unusedSimpArgs false
set_option linter.unusedVariables false
namespace Basic
namespace Lex

theorem splitLineNumber_none (s : Str) (h : (splitLineNumber s).1 = none) : splitLineNumber s = (none, s) := by
  simp only [splitLineNumber] at h ⊢
  split
  · rename_i num hp
    rw [hp] at h
    simp only at h ⊢
    split
    · rename_i hle; rw [if_pos hle] at h; split at h <;> cases h
    · rfl
  · rfl

theorem splitLineNumber_le (s : Str) (n : Nat) (h : (splitLineNumber s).1 = some n) : n ≤ 65529 := by
  simp only [splitLineNumber] at h
  split at h
  · split at h
    · rename_i num _ hle
      split at h <;> (simp at h; subst h; exact hle)
    · simp at h
  · simp at h

/-- the token list of every line: a `Chain` -/
theorem lex_chain (s : Str) : Chain (lex s).2 := chain_postPasses _ (rawTokens_chain _)

theorem lex_wordClash (s : Str) : wordClash (lex s).2 = false := wordClash_postPasses _

theorem lex_endOk (s : Str) : endOk (lex s).2 = true := endOk_postPasses _

/-- THE FIXED-POINT THEOREM FOR ALL STRINGS (under the three exclusions) -/
theorem lex_relist_all (s : Str) (h1 : tripleClash (lex s).2 = false) (h2 : doubleClash (lex s).2 = false)
    (h3 : remClash (lex s).2 = false) : lex (relist s) = lex s := by
  unfold relist
  cases hn : (lex s).1 with
  | none =>
    have hs : (splitLineNumber s).1 = none := hn
    have hsp := splitLineNumber_none s hs
    have e : (lex s).2 = postPasses (lexFrom s false) := by simp only [lex, hsp, rawTokens_eq]
    have e0 : lex s = (none, postPasses (lexFrom s false)) := by simp only [lex, hsp, rawTokens_eq]
    rw [e] at h1 h2 h3 ⊢
    rw [e0]
    exact lex_print_chain_direct s hs h1 h2 h3
  | some n =>
    have hle : n ≤ 65529 := splitLineNumber_le s n hn
    have := lex_print_chain_numbered n hle (lex s).2 (lex_chain s) h1 h2 (lex_wordClash s) (lex_endOk s) h3
    rw [this, ← hn]

theorem relist_idempotent_all (s : Str) (h1 : tripleClash (lex s).2 = false)
    (h2 : doubleClash (lex s).2 = false) (h3 : remClash (lex s).2 = false) :
    relist (relist s) = relist s := by
  unfold relist
  rw [show lex (printLine (lex s).1 (lex s).2) = lex s from lex_relist_all s h1 h2 h3]

end Lex
end Basic
