import BasicModel.Lemmas.LexAllInv
/-
  C05 for ALL strings, part 7: the four post-passes keep the `Chain` invariant; after them no two
  word-like tokens are adjacent and the line does not end in a blank run or in white space.
-/
set_option linter.unusedSimpArgs false
set_option linter.unusedVariables false
namespace Basic
namespace Lex

theorem snoc_induction {α} {P : List α → Prop} (h0 : P []) (h1 : ∀ l x, P l → P (l ++ [x])) :
    ∀ l, P l := by
  have : ∀ n (l : List α), l.length = n → P l := by
    intro n
    induction n with
    | zero => intro l hl; have : l = [] := by cases l <;> simp_all
              subst this; exact h0
    | succ n ih =>
      intro l hl
      rcases List.eq_nil_or_concat l with e | ⟨init, t, e⟩
      · subst e; exact h0
      · have e' : l = init ++ [t] := by simpa using e
        subst e'
        exact h1 init t (ih init (by simp at hl; omega))
  intro l; exact this l.length l rfl

/-! ### basic facts about `Chain` -/

theorem chain_tail (x : Token) (y : List Token) (h : Chain (x :: y)) (h1 : x ≠ .word .rem1)
    (h2 : x ≠ .word .rem2) : Chain y := by
  cases y with
  | nil => trivial
  | cons b rest =>
    rcases h with ⟨hr, -⟩ | ⟨-, -, -, h⟩
    · rcases hr with e | e
      · exact absurd e h1
      · exact absurd e h2
    · rcases h with e | h
      · exact absurd e h1
      · exact h

theorem chain_head_tok (x : Token) (y : List Token) (h : Chain (x :: y)) : Tok x := by
  cases y with
  | nil => exact h
  | cons b rest =>
    rcases h with ⟨hr, -⟩ | ⟨-, h, -, -⟩
    · rcases hr with e | e <;> (subst e; trivial)
    · exact h

theorem chain_dropLast (l : List Token) (x : Token) (h : Chain (l ++ [x])) : Chain l := by
  induction l with
  | nil => trivial
  | cons a l ih =>
    cases l with
    | nil => exact chain_head_tok a [x] h
    | cons b l' =>
      rcases h with ⟨-, hr, -⟩ | ⟨h1, h2, h3, h4⟩
      · simp at hr
      · refine Or.inr ⟨h1, h2, h3, ?_⟩
        rcases h4 with e | h4
        · exact Or.inl e
        · exact Or.inr (ih h4)

/-! ### `trim_end` -/

theorem trimEndStr_prefix (s : Str) : ∃ w, s = trimEndStr s ++ w := by
  unfold trimEndStr
  refine ⟨(s.reverse.takeWhile isUniWhite).reverse, ?_⟩
  have := List.takeWhile_append_dropWhile (p := isUniWhite) (l := s.reverse)
  have h2 := congrArg List.reverse this
  rw [List.reverse_append, List.reverse_reverse] at h2
  exact h2.symm

theorem minU_prefix (u p w : Str) (h : MinU u) (e : u = p ++ w) (hp : p ≠ []) : MinU p := by
  obtain ⟨c, r, rfl, h1, h2, h3⟩ := h
  cases p with
  | nil => contradiction
  | cons c' p' =>
    simp only [List.cons_append, List.cons.injEq] at e
    obtain ⟨rfl, rfl⟩ := e
    exact ⟨c, p', rfl, h1, h2, fun x hx => h3 x (by simp [hx])⟩

theorem head_prefix (u p w : Str) (e : u = p ++ w) (hp : p ≠ []) : p.head? = u.head? := by
  cases p with
  | nil => contradiction
  | cons c p' => rw [e]; rfl

theorem chain_trim_last (l : List Token) (s : Str) (h : Chain (l ++ [.unknown s]))
    (hne : trimEndStr s ≠ []) : Chain (l ++ [.unknown (trimEndStr s)]) := by
  obtain ⟨w, hw⟩ := trimEndStr_prefix s
  have hhead := head_prefix s _ w hw hne
  have hfc : fc (.unknown (trimEndStr s)) = fc (.unknown s) := by simp [fc, Token.text, hhead]
  induction l with
  | nil => exact minU_prefix s _ w h hw hne
  | cons a l ih =>
    cases l with
    | nil =>
      rcases h with ⟨h1, h2, u, h3, h4, h5⟩ | ⟨h1, h2, h3, h4⟩
      · cases h3
        exact Or.inl ⟨h1, h2, _, rfl, hne, by rw [hhead]; exact h5⟩
      · refine Or.inr ⟨h1, h2, ?_, ?_⟩
        · unfold Adj at h3 ⊢
          rw [hfc]; exact h3
        · rcases h4 with e | h4
          · exact Or.inl e
          · exact Or.inr (minU_prefix s _ w h4 hw hne)
    | cons b l' =>
      rcases h with ⟨-, hr, -⟩ | ⟨h1, h2, h3, h4⟩
      · simp at hr
      · refine Or.inr ⟨h1, h2, h3, ?_⟩
        rcases h4 with e | h4
        · exact Or.inl e
        · exact Or.inr (ih h4)

theorem trimEnd_snoc (l : List Token) (x : Token) :
    trimEnd (l ++ [x]) =
      match x with
      | .whitespace _ => trimEnd l
      | .unknown s => if (trimEndStr s).isEmpty then trimEnd l else l ++ [.unknown (trimEndStr s)]
      | t => l ++ [t] := by
  unfold trimEnd
  rw [List.reverse_append]
  simp only [List.reverse_cons, List.reverse_nil, List.nil_append, List.cons_append]
  cases x with
  | whitespace n => simp [trimEndRev]
  | unknown s =>
    simp only [trimEndRev]
    split <;> simp
  | _ => simp [trimEndRev]

theorem chain_trimEnd (l : List Token) (h : Chain l) : Chain (trimEnd l) := by
  revert h
  refine snoc_induction (P := fun l => Chain l → Chain (trimEnd l)) (fun h => h) ?_ l
  intro l x ih h
  · rw [trimEnd_snoc]
    have hl := chain_dropLast l x h
    cases x with
    | whitespace n => exact ih hl
    | unknown s =>
      simp only
      split
      · exact ih hl
      · rename_i hne
        exact chain_trim_last l s h (by simpa using hne)
    | _ => exact h

/-- what `trim_end` leaves at the end of the line -/
def LastOK : Token → Prop
  | .whitespace _ => False
  | .unknown s => trimEndStr s = s ∧ s ≠ []
  | _ => True

theorem trimEndStr_idem (s : Str) : trimEndStr (trimEndStr s) = trimEndStr s := by
  have hd : ∀ l : List Char, (l.dropWhile isUniWhite).dropWhile isUniWhite = l.dropWhile isUniWhite := by
    intro l
    induction l with
    | nil => rfl
    | cons a l ih =>
      by_cases ha : isUniWhite a = true
      · simp only [List.dropWhile_cons, ha, if_true]; exact ih
      · simp [List.dropWhile_cons, ha]
  simp [trimEndStr, hd]

theorem trimEnd_lastOK (l : List Token) : ∀ t, (trimEnd l).getLast? = some t → LastOK t := by
  refine snoc_induction (P := fun l => ∀ t, (trimEnd l).getLast? = some t → LastOK t)
    (by intro t h; simp [trimEnd, trimEndRev] at h) ?_ l
  intro l x ih
  · intro t h
    rw [trimEnd_snoc] at h
    cases x with
    | whitespace n => exact ih t h
    | unknown s =>
      simp only at h
      split at h
      · exact ih t h
      · rename_i hne
        simp at h; subst h
        exact ⟨trimEndStr_idem s, by simpa using hne⟩
    | _ => simp at h; subst h; trivial

theorem endOk_of_lastOK (l : List Token) (h : ∀ t, l.getLast? = some t → LastOK t) : endOk l = true := by
  unfold endOk
  cases hl : l.getLast? with
  | none => rfl
  | some t =>
    have := h t hl
    cases t with
    | whitespace n => exact absurd this id
    | unknown s =>
      obtain ⟨h1, h2⟩ := this
      simp [h1, h2]
    | _ => rfl

end Lex
end Basic
