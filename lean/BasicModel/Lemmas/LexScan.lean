import BasicModel.Lemmas.LexFuel
/-
  Scanner lemmas (DESIGN App. B): one per arm of `BasicLexer::next`, of the shape
  "the scanner, started on the printed text of a token followed by a boundary, returns that token
  and the rest".  Used by Thm/C05 (round trips) and Thm/C16 (case folding).
-/
set_option linter.unusedSimpArgs false
namespace Basic
namespace Lex

/-! ### string literals -/

theorem stringBody_closed (s rest : List Char) (h : '"' ∉ s) :
    stringBody (s ++ '"' :: rest) = (s, rest) := by
  induction s with
  | nil => simp [stringBody]
  | cons c s ih =>
    have hc : c ≠ '"' := fun e => h (by simp [e])
    have hs : '"' ∉ s := fun e => h (by simp [e])
    simp [stringBody, hc, ih hs]

theorem stringBody_open (s : List Char) (h : '"' ∉ s) : stringBody s = (s, []) := by
  induction s with
  | nil => simp [stringBody]
  | cons c s ih =>
    have hc : c ≠ '"' := fun e => h (by simp [e])
    have hs : '"' ∉ s := fun e => h (by simp [e])
    simp [stringBody, hc, ih hs]

/-- a closed string literal is scanned back from its printed form, whatever follows -/
theorem string_text (s rest : List Char) (h : '"' ∉ s) :
    string ((Literal.string s).text ++ rest) = (.literal (.string s), rest) := by
  simp [string, Literal.text, stringBody_closed s rest h]

/-! ### one-character tokens -/

theorem minutia_one (c : Char) (rest : List Char) (t : Token) (h : matchMinutia [c] = some t) :
    minutia (c :: rest) = (t, rest) := by
  simp [minutia, minutiaLoop, h]

/-! ### blanks -/

theorem whitespace_run (n : Nat) (rest : List Char) (h : ∀ c ∈ rest.head?, isWs c = false) :
    whitespace (List.replicate (n + 1) ' ' ++ rest) = (.whitespace (n + 1), rest) := by
  have hd : List.dropWhile isWs rest = rest := by
    cases rest with
    | nil => rfl
    | cons c r => simp [List.dropWhile_cons, h c (by simp)]
  have ht : List.takeWhile isWs rest = [] := by
    cases rest with
    | nil => rfl
    | cons c r => simp [List.takeWhile_cons, h c (by simp)]
  have hall : ∀ c ∈ List.replicate n ' ', isWs c = true := by
    intro c hc; rw [List.eq_of_mem_replicate hc]; rfl
  simp only [List.replicate_succ, List.cons_append, whitespace]
  rw [List.takeWhile_append_of_pos hall, List.dropWhile_append_of_pos hall, hd, ht]
  simp; omega

/-! ### radix literals -/

/-- digit of the radix as it is stored in the literal (upper case) -/
def isRadixDigit (isHex : Bool) (c : Char) : Bool :=
  ('0' ≤ c && c ≤ '7') || (isHex && (('8' ≤ c && c ≤ '9') || ('A' ≤ c && c ≤ 'F')))

theorem isRadixDigit_notLower (h : Bool) (c : Char) (hc : isRadixDigit h c = true) : upper c = c := by
  apply upper_of_not_lower
  simp [isRadixDigit, Char.le_def, UInt32.le_iff_toNat_le] at hc
  omega

/-- what may follow a radix literal: nothing, or a character that is not a digit of the radix in
    either case (and is not changed by the upper-casing push-back) -/
def RadixBoundary (isHex : Bool) (rest : List Char) : Prop :=
  ∀ c ∈ rest.head?, isRadixDigit isHex (upper c) = false ∧ upper c = c

instance (isHex : Bool) (rest : List Char) : Decidable (RadixBoundary isHex rest) := by
  unfold RadixBoundary; infer_instance

theorem radixDigits_cons (isHex : Bool) (c : Char) (rest : List Char) :
    radixDigits isHex (c :: rest) =
      if isRadixDigit isHex (upper c) then
        (upper c :: (radixDigits isHex rest).1, (radixDigits isHex rest).2)
      else ([], upper c :: rest) := rfl

theorem radixDigits_run (isHex : Bool) (ds rest : List Char)
    (hds : ∀ c ∈ ds, isRadixDigit isHex c = true) (hb : RadixBoundary isHex rest) :
    radixDigits isHex (ds ++ rest) = (ds, rest) := by
  induction ds with
  | nil =>
    cases rest with
    | nil => rfl
    | cons c r =>
      obtain ⟨h1, h2⟩ := hb c (by simp)
      rw [h2] at h1
      simp [radixDigits_cons, h1, h2]
  | cons d ds ih =>
    have hd := hds d (by simp)
    have hu := isRadixDigit_notLower isHex d hd
    simp only [List.cons_append, radixDigits_cons, hu, hd, if_true,
      ih (fun c hc => hds c (by simp [hc]))]

theorem radix_hex_text (ds rest : List Char) (hds : ∀ c ∈ ds, isRadixDigit true c = true)
    (hb : RadixBoundary true rest) :
    radix ((Literal.hex ds).text ++ rest) = (.literal (.hex ds), rest) := by
  simp [radix, Literal.text, radixDigits_run true ds rest hds hb]

theorem radix_octal_text (ds rest : List Char) (hds : ∀ c ∈ ds, isRadixDigit false c = true)
    (hb : RadixBoundary false rest) (hH : ∀ c ∈ (ds ++ rest).head?, c ≠ 'H' ∧ c ≠ 'h') :
    radix ((Literal.octal ds).text ++ rest) = (.literal (.octal ds), rest) := by
  simp only [radix, Literal.text, List.cons_append, List.tail_cons]
  split
  · rename_i r heq; exact absurd rfl (hH 'H' (by simp [heq])).1
  · rename_i r heq; exact absurd rfl (hH 'h' (by simp [heq])).2
  · simp [radixDigits_run false ds rest hds hb]

/-! ### `scan_alphabetic` -/

/-- no reserved word occurs inside `s` -/
def NoKeyword (s : Str) : Prop := bestMatch s keywords none = none

instance (s : Str) : Decidable (NoKeyword s) := by unfold NoKeyword; infer_instance

theorem bestMatch_some (s : Str) (kws : List (Str × Token)) (b : Nat × Nat × Token) :
    bestMatch s kws (some b) ≠ none := by
  induction kws generalizing b with
  | nil => simp [bestMatch]
  | cons kw kws ih =>
    obtain ⟨ts, tk⟩ := kw
    obtain ⟨bi, bl, bt⟩ := b
    unfold bestMatch
    split
    · exact ih _
    · dsimp only; split <;> exact ih _

theorem bestMatch_none_iff (s : Str) (kws : List (Str × Token)) :
    bestMatch s kws none = none ↔ ∀ kw ∈ kws, findSub kw.1 s = none := by
  induction kws with
  | nil => simp [bestMatch]
  | cons kw kws ih =>
    obtain ⟨ts, tk⟩ := kw
    unfold bestMatch
    split
    · rename_i h; simp [ih, h]
    · rename_i idx h
      simp only [List.mem_cons, forall_eq_or_imp, h]
      constructor
      · intro hb; exact absurd hb (bestMatch_some _ _ _)
      · intro hb; exact absurd hb.1 (by simp)

theorem isPrefix_append (pat a b : Str) (h : isPrefix pat a = true) : isPrefix pat (a ++ b) = true := by
  induction pat generalizing a with
  | nil => simp [isPrefix]
  | cons p ps ih =>
    cases a with
    | nil => simp [isPrefix] at h
    | cons c cs =>
      simp only [isPrefix, Bool.and_eq_true, decide_eq_true_eq] at h
      simp [isPrefix, h.1, ih cs h.2]

theorem findSub_nil_pat (b : Str) : findSub [] b = some 0 := by
  cases b <;> simp [findSub, isPrefix]

theorem findSub_prefix_none (pat a b : Str) (h : findSub pat (a ++ b) = none) :
    findSub pat a = none := by
  induction a with
  | nil =>
    cases pat with
    | nil => simp [findSub_nil_pat] at h
    | cons p ps => simp [findSub]
  | cons c cs ih =>
    simp only [List.cons_append, findSub] at h
    split at h
    · simp at h
    · rename_i hp
      split at h
      · simp at h
      · rename_i hf
        have hp' : isPrefix pat (c :: cs) = false := by
          cases hq : isPrefix pat (c :: cs) with
          | false => rfl
          | true => exact absurd (isPrefix_append pat (c :: cs) b hq) (by simpa using hp)
        simp [findSub, hp', ih hf]

theorem NoKeyword.prefix (a b : Str) (h : NoKeyword (a ++ b)) : NoKeyword a := by
  unfold NoKeyword at *
  rw [bestMatch_none_iff] at *
  intro kw hkw
  exact findSub_prefix_none _ _ _ (h kw hkw)

theorem scanAlphabetic_noKeyword (p : List Token) (s : Str) (h : NoKeyword s) :
    scanAlphabetic p s = (p, s) := by
  unfold NoKeyword at h
  simp [scanAlphabetic, scanAlphaLoop, h]


/-- the common exit of `alphabetic()`: crunch the text, keep a non-empty remainder as identifier -/
def alphaFinish (p : List Token) (s : Str) (rest : List Char) : List Token × List Char :=
  if (scanAlphabetic p s).2.isEmpty then ((scanAlphabetic p s).1, rest)
  else ((scanAlphabetic p s).1 ++ [.ident (.plain (scanAlphabetic p s).2)], rest)

def isSuffixChar (c : Char) : Bool := c = '$' || c = '!' || c = '#' || c = '%'

theorem alphaLoop_cons (ch0 : Char) (rest : List Char) (s : Str) (digit : Bool) (pending : List Token) :
    alphaLoop (ch0 :: rest) s digit pending =
      if upper ch0 = '$' then (pending ++ [.ident (.string (s ++ [upper ch0]))], rest)
      else if upper ch0 = '!' then (pending ++ [.ident (.single (s ++ [upper ch0]))], rest)
      else if upper ch0 = '#' then (pending ++ [.ident (.double (s ++ [upper ch0]))], rest)
      else if upper ch0 = '%' then (pending ++ [.ident (.integer (s ++ [upper ch0]))], rest)
      else match rest with
        | [] => alphaFinish pending (s ++ [upper ch0]) rest
        | pk :: _ =>
          if isAlpha pk then
            if (digit || isDigit (upper ch0)) then (pending ++ [.ident (.plain (s ++ [upper ch0]))], rest)
            else alphaLoop rest (s ++ [upper ch0]) (digit || isDigit (upper ch0)) pending
          else if isDigit pk || pk = '$' || pk = '!' || pk = '#' || pk = '%' then
            if (scanAlphabetic pending (s ++ [upper ch0])).2.isEmpty then
              ((scanAlphabetic pending (s ++ [upper ch0])).1, rest)
            else alphaLoop rest (scanAlphabetic pending (s ++ [upper ch0])).2 (digit || isDigit (upper ch0))
              (scanAlphabetic pending (s ++ [upper ch0])).1
          else alphaFinish pending (s ++ [upper ch0]) rest := by
  cases rest <;> rfl

/-- what may follow a word or an undecorated name: nothing, or a character that is neither a letter,
    a digit nor a type suffix -/
def AlphaBoundary (rest : List Char) : Prop :=
  ∀ c ∈ rest.head?, isAlpha c = false ∧ isDigit c = false ∧ isSuffixChar c = false

instance (rest : List Char) : Decidable (AlphaBoundary rest) := by
  unfold AlphaBoundary; infer_instance

theorem upper_not_suffix_of_isAlpha (c : Char) (h : isAlpha c = true) :
    upper c ≠ '$' ∧ upper c ≠ '!' ∧ upper c ≠ '#' ∧ upper c ≠ '%' := by
  have h' : isAlpha (upper c) = true := by rw [isAlpha_upper]; exact h
  exact ⟨ne_of_isAlpha _ _ h' (by decide), ne_of_isAlpha _ _ h' (by decide),
    ne_of_isAlpha _ _ h' (by decide), ne_of_isAlpha _ _ h' (by decide)⟩

/-- a run of letters (any case) up to a boundary: the upper-cased text goes to `scan_alphabetic` -/
theorem alphaLoop_letters (ls : List Char) (hls : ∀ c ∈ ls, isAlpha c = true) (hne : ls ≠ [])
    (rest : List Char) (hb : AlphaBoundary rest) (s : Str) (p : List Token) :
    alphaLoop (ls ++ rest) s false p = alphaFinish p (s ++ ls.map upper) rest := by
  induction ls generalizing s with
  | nil => contradiction
  | cons c ls ih =>
    have hc := hls c (by simp)
    obtain ⟨n1, n2, n3, n4⟩ := upper_not_suffix_of_isAlpha c hc
    have hd : isDigit (upper c) = false := by
      rw [isDigit_upper]; exact not_isDigit_of_isAlpha c hc
    rw [List.cons_append, alphaLoop_cons]
    simp only [n1, n2, n3, n4, if_false, hd, Bool.or_false, Bool.false_eq_true]
    cases ls with
    | nil =>
      cases rest with
      | nil => simp
      | cons pk tl =>
        obtain ⟨b1, b2, b3⟩ := hb pk (by simp)
        simp only [isSuffixChar, Bool.or_eq_false_iff, decide_eq_false_iff_not] at b3
        simp [b1, b2, b3]
    | cons c' ls' =>
      have hc' := hls c' (by simp)
      simp only [List.cons_append, hc', if_true]
      have := ih (fun x hx => hls x (by simp [hx])) (by simp) (s ++ [upper c])
      simp only [List.cons_append] at this
      rw [this]
      simp


/-- the identifier kind selected by a type suffix -/
def suffixIdent (c : Char) (s : Str) : TIdent :=
  if c = '$' then .string s else if c = '!' then .single s else if c = '#' then .double s else .integer s

theorem isSuffixChar_iff (c : Char) : isSuffixChar c = true ↔ c = '$' ∨ c = '!' ∨ c = '#' ∨ c = '%' := by
  simp [isSuffixChar, or_assoc]

theorem upper_suffix (c : Char) (h : isSuffixChar c = true) : upper c = c := by
  rw [isSuffixChar_iff] at h
  rcases h with h | h | h | h <;> subst h <;> decide

theorem alphaLoop_suffix (sfx : Char) (h : isSuffixChar sfx = true) (rest : List Char) (s : Str)
    (d : Bool) (p : List Token) :
    alphaLoop (sfx :: rest) s d p = (p ++ [.ident (suffixIdent sfx (s ++ [sfx]))], rest) := by
  rw [isSuffixChar_iff] at h
  rcases h with h | h | h | h <;> subst h <;> simp [alphaLoop_cons, suffixIdent, upper, Char.toUpper] <;> decide

theorem not_suffix_of_isDigit (k : Char) (hk : isDigit k = true) :
    k ≠ '$' ∧ k ≠ '!' ∧ k ≠ '#' ∧ k ≠ '%' :=
  ⟨ne_of_isDigit _ _ hk (by decide), ne_of_isDigit _ _ hk (by decide),
    ne_of_isDigit _ _ hk (by decide), ne_of_isDigit _ _ hk (by decide)⟩

/-- digits after a name, up to a type suffix -/
theorem alphaLoop_digits_suffix (ds : List Char) (hds : ∀ c ∈ ds, isDigit c = true)
    (sfx : Char) (hsfx : isSuffixChar sfx = true) (rest : List Char) (s : Str) (d : Bool)
    (p : List Token) (hk : NoKeyword (s ++ ds)) :
    alphaLoop (ds ++ sfx :: rest) s d p = (p ++ [.ident (suffixIdent sfx (s ++ ds ++ [sfx]))], rest) := by
  induction ds generalizing s d with
  | nil => simpa using alphaLoop_suffix sfx hsfx rest s d p
  | cons k ds ih =>
    have hkd := hds k (by simp)
    obtain ⟨n1, n2, n3, n4⟩ := not_suffix_of_isDigit k hkd
    have hu := upper_of_isDigit k hkd
    have hnk : NoKeyword (s ++ [k]) := by
      apply NoKeyword.prefix (s ++ [k]) ds; simpa using hk
    rw [List.cons_append, alphaLoop_cons]
    simp only [hu, n1, n2, n3, n4, if_false]
    -- the next character is a digit or the suffix
    have hnext : ∃ pk tl, ds ++ sfx :: rest = pk :: tl ∧ isAlpha pk = false ∧
        (isDigit pk || pk = '$' || pk = '!' || pk = '#' || pk = '%') = true := by
      cases ds with
      | nil =>
        refine ⟨sfx, rest, rfl, ?_, ?_⟩
        · rw [isSuffixChar_iff] at hsfx
          rcases hsfx with h | h | h | h <;> subst h <;> decide
        · rw [isSuffixChar_iff] at hsfx
          rcases hsfx with h | h | h | h <;> subst h <;> decide
      | cons k' ds' =>
        have := hds k' (by simp)
        exact ⟨k', ds' ++ sfx :: rest, rfl, not_isAlpha_of_isDigit k' this, by simp [this]⟩
    obtain ⟨pk, tl, e, ha, hc⟩ := hnext
    rw [e]
    simp only [ha, Bool.false_eq_true, if_false, hc, if_true, scanAlphabetic_noKeyword p _ hnk]
    have hne : (s ++ [k]).isEmpty = false := by simp
    simp only [hne, Bool.false_eq_true, if_false]
    rw [← e, ih (fun c hc => hds c (by simp [hc])) (s ++ [k]) _ (by simpa using hk)]
    simp

/-- digits after a name, up to a boundary -/
theorem alphaLoop_digits_boundary (ds : List Char) (hds : ∀ c ∈ ds, isDigit c = true) (hne : ds ≠ [])
    (rest : List Char) (hb : AlphaBoundary rest) (s : Str) (d : Bool)
    (p : List Token) (hk : NoKeyword (s ++ ds)) :
    alphaLoop (ds ++ rest) s d p = (p ++ [.ident (.plain (s ++ ds))], rest) := by
  induction ds generalizing s d with
  | nil => contradiction
  | cons k ds ih =>
    have hkd := hds k (by simp)
    obtain ⟨n1, n2, n3, n4⟩ := not_suffix_of_isDigit k hkd
    have hu := upper_of_isDigit k hkd
    have hnk : NoKeyword (s ++ [k]) := by
      apply NoKeyword.prefix (s ++ [k]) ds; simpa using hk
    have hne' : (s ++ [k]).isEmpty = false := by simp
    rw [List.cons_append, alphaLoop_cons]
    simp only [hu, n1, n2, n3, n4, if_false]
    cases ds with
    | nil =>
      have hfin : alphaFinish p (s ++ [k]) rest = (p ++ [.ident (.plain (s ++ [k]))], rest) := by
        simp [alphaFinish, scanAlphabetic_noKeyword p _ hnk]
      cases rest with
      | nil => simpa using hfin
      | cons pk tl =>
        obtain ⟨b1, b2, b3⟩ := hb pk (by simp)
        simp only [isSuffixChar, Bool.or_eq_false_iff, decide_eq_false_iff_not] at b3
        simp [b1, b2, b3, hfin]
    | cons k' ds' =>
      have hk' := hds k' (by simp)
      simp only [List.cons_append, not_isAlpha_of_isDigit k' hk', Bool.false_eq_true, if_false, hk',
        Bool.true_or, if_true, scanAlphabetic_noKeyword p _ hnk, hne']
      have := ih (fun c hc => hds c (by simp [hc])) (by simp) (s ++ [k]) (d || isDigit k)
        (by simpa using hk)
      simp only [List.cons_append] at this
      rw [this]; simp

/-- letters (any case) followed by a digit or a type suffix: the scan of the letters finds nothing
    and the loop goes on with the upper-cased text -/
theorem alphaLoop_letters_then (ls : List Char) (hls : ∀ c ∈ ls, isAlpha c = true) (hne : ls ≠ [])
    (k : Char) (tl : List Char) (hk : (isDigit k || isSuffixChar k) = true) (s : Str) (p : List Token)
    (hnk : NoKeyword (s ++ ls.map upper)) :
    alphaLoop (ls ++ k :: tl) s false p = alphaLoop (k :: tl) (s ++ ls.map upper) false p := by
  induction ls generalizing s with
  | nil => contradiction
  | cons c ls ih =>
    have hc := hls c (by simp)
    obtain ⟨n1, n2, n3, n4⟩ := upper_not_suffix_of_isAlpha c hc
    have hd : isDigit (upper c) = false := by
      rw [isDigit_upper]; exact not_isDigit_of_isAlpha c hc
    rw [List.cons_append, alphaLoop_cons]
    simp only [n1, n2, n3, n4, if_false, hd, Bool.or_false, Bool.false_eq_true]
    cases ls with
    | nil =>
      have hka : isAlpha k = false := by
        simp only [Bool.or_eq_true] at hk
        rcases hk with hk | hk
        · exact not_isAlpha_of_isDigit k hk
        · rw [isSuffixChar_iff] at hk
          rcases hk with h | h | h | h <;> subst h <;> decide
      have hkc : (isDigit k || k = '$' || k = '!' || k = '#' || k = '%') = true := by
        simpa [isSuffixChar, Bool.or_assoc] using hk
      have hnk' : NoKeyword (s ++ [upper c]) := by simpa using hnk
      simp only [List.nil_append, hka, Bool.false_eq_true, if_false, hkc, if_true,
        scanAlphabetic_noKeyword p _ hnk']
      simp
    | cons c' ls' =>
      have hc' := hls c' (by simp)
      simp only [List.cons_append, hc', if_true]
      have := ih (fun x hx => hls x (by simp [hx])) (by simp) (s ++ [upper c]) (by simpa using hnk)
      simp only [List.cons_append] at this
      rw [this]
      simp

/-- the case folding `number()` applies to the character it consumes -/
def foldED (c : Char) : Char := if c = 'e' then 'E' else if c = 'd' then 'D' else c

/-- the digit counter after consuming `ch` -/
def numDigits (ex : Bool) (ch : Char) (dg : Nat) : Nat :=
  if ch = 'D' then (if !ex && isDigit ch then dg + 1 else dg) + 8
  else (if !ex && isDigit ch then dg + 1 else dg)

/-- `number()` keeps scanning when it peeks this character (the consumed one not being E/D) -/
def numCont (ex dec : Bool) (pk : Char) : Bool :=
  isDigit pk || (!ex && !dec && pk = '.') || (!ex && (pk = 'E' || pk = 'e' || pk = 'D' || pk = 'd'))
    || (pk = '!' || pk = '#' || pk = '%')

theorem numberLoop_cons (ch0 : Char) (rest : List Char) (s : Str) (dg : Nat) (dec ex : Bool) :
    numberLoop (ch0 :: rest) s dg dec ex =
      if foldED ch0 = '!' then (.literal (.single (s ++ [foldED ch0])), rest)
      else if foldED ch0 = '#' then (.literal (.double (s ++ [foldED ch0])), rest)
      else if foldED ch0 = '%' then (.literal (.integer (s ++ [foldED ch0])), rest)
      else match rest with
        | [] => (numberFinish (s ++ [foldED ch0]) (numDigits ex (foldED ch0) dg) (dec || foldED ch0 = '.') ex, [])
        | pk :: _ =>
          if foldED ch0 = 'E' || foldED ch0 = 'D' then
            if pk = '+' || pk = '-' then
              numberLoop rest (s ++ [foldED ch0]) (numDigits ex (foldED ch0) dg) (dec || foldED ch0 = '.') true
            else if !isDigit pk then
              (numberFinish (s ++ [foldED ch0]).dropLast
                (if foldED ch0 = 'D' then numDigits ex (foldED ch0) dg - 8 else numDigits ex (foldED ch0) dg)
                (dec || foldED ch0 = '.') false, foldED ch0 :: rest)
            else numberLoop rest (s ++ [foldED ch0]) (numDigits ex (foldED ch0) dg) (dec || foldED ch0 = '.') true
          else if isDigit pk then
            numberLoop rest (s ++ [foldED ch0]) (numDigits ex (foldED ch0) dg) (dec || foldED ch0 = '.') ex
          else if !ex && !(dec || foldED ch0 = '.') && pk = '.' then
            numberLoop rest (s ++ [foldED ch0]) (numDigits ex (foldED ch0) dg) (dec || foldED ch0 = '.') ex
          else if !ex && (pk = 'E' || pk = 'e' || pk = 'D' || pk = 'd') then
            numberLoop rest (s ++ [foldED ch0]) (numDigits ex (foldED ch0) dg) (dec || foldED ch0 = '.') ex
          else if pk = '!' || pk = '#' || pk = '%' then
            numberLoop rest (s ++ [foldED ch0]) (numDigits ex (foldED ch0) dg) (dec || foldED ch0 = '.') ex
          else (numberFinish (s ++ [foldED ch0]) (numDigits ex (foldED ch0) dg) (dec || foldED ch0 = '.') ex, rest) := by
  cases rest <;> rfl


theorem ite_cascade {α} (a b c d : Bool) (x y : α) :
    (if a then x else if b then x else if c then x else if d then x else y) =
      if (a || b || c || d) then x else y := by
  cases a <;> cases b <;> cases c <;> cases d <;> rfl

/-- the state of `number()` after a character that is not an exponent letter: stop, or go on -/
def numberAfter (rest : List Char) (s : Str) (dg : Nat) (dec ex : Bool) : Token × List Char :=
  match rest with
  | [] => (numberFinish s dg dec ex, [])
  | pk :: _ => if numCont ex dec pk then numberLoop rest s dg dec ex else (numberFinish s dg dec ex, rest)

/-- consuming a character that is neither an exponent letter nor a type suffix -/
theorem numberLoop_plain (c : Char) (h : c ≠ 'e' ∧ c ≠ 'd' ∧ c ≠ 'E' ∧ c ≠ 'D' ∧ c ≠ '!' ∧ c ≠ '#' ∧ c ≠ '%')
    (rest : List Char) (s : Str) (dg : Nat) (dec ex : Bool) :
    numberLoop (c :: rest) s dg dec ex =
      numberAfter rest (s ++ [c]) (if !ex && isDigit c then dg + 1 else dg) (dec || c = '.') ex := by
  obtain ⟨h1, h2, h3, h4, h5, h6, h7⟩ := h
  have hf : foldED c = c := by simp [foldED, h1, h2]
  rw [numberLoop_cons]
  simp only [hf, h3, h4, h5, h6, h7, if_false, numDigits, decide_false, Bool.or_false, Bool.false_eq_true]
  cases rest with
  | nil => rfl
  | cons pk tl =>
    simp only [numberAfter, numCont]
    exact ite_cascade _ _ _ _ _ _

theorem plain_of_isDigit (k : Char) (hk : isDigit k = true) :
    k ≠ 'e' ∧ k ≠ 'd' ∧ k ≠ 'E' ∧ k ≠ 'D' ∧ k ≠ '!' ∧ k ≠ '#' ∧ k ≠ '%' :=
  ⟨ne_of_isDigit _ _ hk (by decide), ne_of_isDigit _ _ hk (by decide), ne_of_isDigit _ _ hk (by decide),
    ne_of_isDigit _ _ hk (by decide), ne_of_isDigit _ _ hk (by decide), ne_of_isDigit _ _ hk (by decide),
    ne_of_isDigit _ _ hk (by decide)⟩

theorem numCont_of_isDigit (ex dec : Bool) (k : Char) (hk : isDigit k = true) : numCont ex dec k = true := by
  simp [numCont, hk]

theorem numberAfter_cont (k : Char) (tl : List Char) (s : Str) (dg : Nat) (dec ex : Bool)
    (h : numCont ex dec k = true) :
    numberAfter (k :: tl) s dg dec ex = numberLoop (k :: tl) s dg dec ex := by
  simp [numberAfter, h]

/-- a run of digits -/
theorem numberLoop_digits (ds : List Char) (hds : ∀ c ∈ ds, isDigit c = true) (hne : ds ≠ [])
    (rest : List Char) (s : Str) (dg : Nat) (dec ex : Bool) :
    numberLoop (ds ++ rest) s dg dec ex =
      numberAfter rest (s ++ ds) (if ex then dg else dg + ds.length) dec ex := by
  induction ds generalizing s dg with
  | nil => contradiction
  | cons k ds ih =>
    have hk := hds k (by simp)
    have hdot : k ≠ '.' := ne_of_isDigit _ _ hk (by decide)
    rw [List.cons_append, numberLoop_plain k (plain_of_isDigit k hk)]
    simp only [hk, hdot, decide_false, Bool.or_false, Bool.and_true]
    cases ds with
    | nil => cases ex <;> simp
    | cons k' ds' =>
      have hk' := hds k' (by simp)
      rw [List.cons_append, numberAfter_cont _ _ _ _ _ _ (numCont_of_isDigit _ _ k' hk')]
      have := ih (fun c hc => hds c (by simp [hc])) (by simp) (s ++ [k])
        (if (!ex) = true then dg + 1 else dg)
      simp only [List.cons_append] at this
      rw [this]
      cases ex <;> simp <;> congr 1 <;> omega

/-- what may follow a numeral: nothing, or a character on which `number()` stops in every state -/
def NumBoundary (rest : List Char) : Prop := ∀ c ∈ rest.head?, numCont false false c = false

instance (rest : List Char) : Decidable (NumBoundary rest) := by
  unfold NumBoundary; infer_instance

theorem numCont_mono (ex dec : Bool) (c : Char) (h : numCont false false c = false) :
    numCont ex dec c = false := by
  simp only [numCont, Bool.or_eq_false_iff, Bool.and_eq_false_iff, Bool.not_false, Bool.true_and,
    decide_eq_false_iff_not] at h ⊢
  obtain ⟨⟨⟨h1, h2⟩, ⟨⟨h3, h4⟩, h5⟩, h6⟩, h7⟩ := h
  simp [h1, h2, h3, h4, h5, h6, h7]

theorem numberAfter_boundary (rest : List Char) (hb : NumBoundary rest) (s : Str) (dg : Nat)
    (dec ex : Bool) : numberAfter rest s dg dec ex = (numberFinish s dg dec ex, rest) := by
  cases rest with
  | nil => rfl
  | cons c tl => simp [numberAfter, numCont_mono ex dec c (hb c (by simp))]

/-- the literal kind selected by a numeric type suffix -/
def suffixLiteral (c : Char) (s : Str) : Literal :=
  if c = '!' then .single s else if c = '#' then .double s else .integer s

def isNumSuffix (c : Char) : Bool := c = '!' || c = '#' || c = '%'

theorem isNumSuffix_iff (c : Char) : isNumSuffix c = true ↔ c = '!' ∨ c = '#' ∨ c = '%' := by
  simp [isNumSuffix, or_assoc]

/-- a type suffix ends the numeral, whatever follows -/
theorem numberAfter_suffix (sfx : Char) (h : isNumSuffix sfx = true) (rest : List Char) (s : Str)
    (dg : Nat) (dec ex : Bool) :
    numberAfter (sfx :: rest) s dg dec ex = (.literal (suffixLiteral sfx (s ++ [sfx])), rest) := by
  rw [isNumSuffix_iff] at h
  rcases h with h | h | h <;> subst h <;>
    simp [numberAfter, numCont, numberLoop_cons, foldED, suffixLiteral]

/-- a period in the mantissa -/
theorem numberLoop_dot (rest : List Char) (s : Str) (dg : Nat) (dec ex : Bool) :
    numberLoop ('.' :: rest) s dg dec ex = numberAfter rest (s ++ ['.']) dg true ex := by
  rw [numberLoop_plain '.' (by decide)]
  simp [isDigit]

/-- the digits of an optional run -/
theorem numberAfter_digits (ds : List Char) (hds : ∀ c ∈ ds, isDigit c = true)
    (rest : List Char) (s : Str) (dg : Nat) (dec ex : Bool) :
    numberAfter (ds ++ rest) s dg dec ex =
      numberAfter rest (s ++ ds) (if ex then dg else dg + ds.length) dec ex := by
  cases ds with
  | nil => cases ex <;> simp
  | cons k ds' =>
    rw [List.cons_append, numberAfter_cont _ _ _ _ _ _ (numCont_of_isDigit _ _ k (hds k (by simp))),
      ← List.cons_append, numberLoop_digits (k :: ds') hds (by simp)]

/-- mantissa `digits . digits` (either run may be empty) -/
theorem numberLoop_decimal (ds1 ds2 : List Char) (h1 : ∀ c ∈ ds1, isDigit c = true)
    (h2 : ∀ c ∈ ds2, isDigit c = true) (rest : List Char) :
    numberLoop (ds1 ++ '.' :: (ds2 ++ rest)) [] 0 false false =
      numberAfter rest (ds1 ++ '.' :: ds2) (ds1.length + ds2.length) true false := by
  have key : ∀ s dg, numberLoop ('.' :: (ds2 ++ rest)) s dg false false =
      numberAfter rest (s ++ '.' :: ds2) (dg + ds2.length) true false := by
    intro s dg
    rw [numberLoop_dot, numberAfter_digits ds2 h2]
    simp
  cases ds1 with
  | nil => simpa using key [] 0
  | cons k ds1' =>
    rw [numberLoop_digits (k :: ds1') h1 (by simp),
      numberAfter_cont '.' _ _ _ _ _ (by simp [numCont]), key]
    simp

/-- exponent part: letter (either case), optional sign, at least one digit -/
theorem numberAfter_exponent (e : Char) (he : e = 'E' ∨ e = 'D' ∨ e = 'e' ∨ e = 'd')
    (sign : List Char) (hsign : sign = [] ∨ sign = ['+'] ∨ sign = ['-'])
    (ds : List Char) (hds : ∀ c ∈ ds, isDigit c = true) (hne : ds ≠ [])
    (rest : List Char) (s : Str) (dg : Nat) (dec : Bool) :
    numberAfter (e :: (sign ++ (ds ++ rest))) s dg dec false =
      numberAfter rest (s ++ foldED e :: sign ++ ds) (if foldED e = 'D' then dg + 8 else dg) dec true := by
  obtain ⟨k, ds', rfl⟩ : ∃ k ds', ds = k :: ds' := by
    cases ds with
    | nil => contradiction
    | cons k ds' => exact ⟨k, ds', rfl⟩
  have hk := hds k (by simp)
  have hcont : numCont false dec e = true := by
    rcases he with h | h | h | h <;> subst h <;> simp [numCont]
  have hE : foldED e = 'E' ∨ foldED e = 'D' := by
    rcases he with h | h | h | h <;> subst h <;> simp [foldED]
  have hns : foldED e ≠ '!' ∧ foldED e ≠ '#' ∧ foldED e ≠ '%' ∧ foldED e ≠ '.' := by
    rcases hE with h | h <;> rw [h] <;> decide
  have hnd : isDigit (foldED e) = false := by
    rcases hE with h | h <;> rw [h] <;> rfl
  have hED : (decide (foldED e = 'E') || decide (foldED e = 'D')) = true := by
    rcases hE with h | h <;> simp [h]
  have hdg : numDigits false (foldED e) dg = if foldED e = 'D' then dg + 8 else dg := by
    simp [numDigits, hnd]
  obtain ⟨n1, n2, n3, n4⟩ := hns
  rw [numberAfter_cont _ _ _ _ _ _ hcont, numberLoop_cons]
  simp only [n1, n2, n3, n4, if_false, hED, if_true, hdg, decide_false, Bool.or_false]
  have hpm : k ≠ '+' ∧ k ≠ '-' := ⟨ne_of_isDigit _ _ hk (by decide), ne_of_isDigit _ _ hk (by decide)⟩
  have hsgn : ∀ (sg : Char), sg = '+' ∨ sg = '-' → ∀ s' dg',
      numberLoop (sg :: k :: (ds' ++ rest)) s' dg' dec true =
        numberAfter rest (s' ++ sg :: k :: ds') dg' dec true := by
    intro sg hsg s' dg'
    rw [numberLoop_plain sg (by rcases hsg with h | h <;> subst h <;> decide)]
    have : isDigit sg = false ∧ sg ≠ '.' := by rcases hsg with h | h <;> subst h <;> decide
    simp only [this.1, this.2, Bool.and_false, Bool.false_eq_true, if_false, decide_false, Bool.or_false]
    rw [numberAfter_cont _ _ _ _ _ _ (numCont_of_isDigit _ _ k hk), ← List.cons_append,
      numberLoop_digits (k :: ds') hds (by simp)]
    simp
  simp only [List.cons_append]
  rcases hsign with h | h | h <;> subst h
  · simp only [List.nil_append, List.cons_append, hpm.1, hpm.2, decide_false, Bool.or_false,
      Bool.false_eq_true, if_false, hk, Bool.not_true]
    rw [← List.cons_append, numberLoop_digits (k :: ds') hds (by simp)]
    simp
  · simp only [List.cons_append, List.nil_append, decide_true, Bool.true_or, if_true]
    rw [hsgn '+' (Or.inl rfl)]
    simp
  · simp only [List.cons_append, List.nil_append, decide_true, Bool.or_true, if_true]
    rw [hsgn '-' (Or.inr rfl)]
    simp

end Lex
end Basic
