import BasicModel.Model.Parse
import BasicModel.Model.Listing
import BasicModel.Model.Codegen
/-
  Helper lemmas for C19 (diagnostics point into the listed line): list slicing, `printTokens`
  over concatenation, the strong characterisation of `Parse.nextLoop` on remark-free token lists
  and look-ups in the association list of pending references.
-/
namespace Basic
namespace Lemmas.C19

/-! ### slicing -/

/-- the slice `[i, i + w)` of `pre ++ mid ++ post` where `i = |pre|`, `w = |mid|` is `mid` -/
theorem slice_mid {α} (pre mid post : List α) :
    ((pre ++ mid ++ post).drop pre.length).take mid.length = mid := by
  rw [List.append_assoc, List.drop_left' rfl, List.take_left' rfl]

theorem slice_mid' {α} (pre mid post : List α) (i w : Nat) (hi : i = pre.length) (hw : w = mid.length) :
    ((pre ++ mid ++ post).drop i).take w = mid := by
  subst hi; subst hw; exact slice_mid pre mid post

theorem drop_prefix_add {α} (pre l : List α) (k : Nat) :
    (pre ++ l).drop (k + pre.length) = l.drop k := by
  rw [Nat.add_comm, ← List.drop_drop, List.drop_left' rfl]

/-! ### `printTokens` -/

theorem printTokens_nil : printTokens [] = [] := rfl

theorem printTokens_cons (t : Token) (ts : List Token) :
    printTokens (t :: ts) = t.text ++ printTokens ts := by
  simp [printTokens]

theorem printTokens_append (a b : List Token) :
    printTokens (a ++ b) = printTokens a ++ printTokens b := by
  simp [printTokens]

theorem printTokens_snoc (a : List Token) (t : Token) :
    printTokens (a ++ [t]) = printTokens a ++ t.text := by
  simp [printTokens]

theorem printTokens_length_cons (t : Token) (ts : List Token) :
    (printTokens (t :: ts)).length = t.text.length + (printTokens ts).length := by
  rw [printTokens_cons, List.length_append]

theorem printTokens_length_append (a b : List Token) :
    (printTokens (a ++ b)).length = (printTokens a).length + (printTokens b).length := by
  rw [printTokens_append, List.length_append]

/-! ### whitespace runs and remark words -/

/-- every element is a `.whitespace _` token -/
def AllWs (ws : List Token) : Prop := ∀ t ∈ ws, ∃ n, t = Token.whitespace n

/-- no REM / `'` word anywhere -/
def NoRem (ts : List Token) : Prop := ∀ t ∈ ts, Parse.isRem t = false

theorem AllWs.nil : AllWs [] := by intro t h; cases h

theorem AllWs.cons {n : Nat} {ws : List Token} (h : AllWs ws) : AllWs (Token.whitespace n :: ws) := by
  intro t ht
  cases ht with
  | head => exact ⟨n, rfl⟩
  | tail _ h' => exact h t h'

theorem NoRem.tail {t : Token} {ts : List Token} (h : NoRem (t :: ts)) : NoRem ts :=
  fun x hx => h x (List.mem_cons_of_mem _ hx)

theorem NoRem.head {t : Token} {ts : List Token} (h : NoRem (t :: ts)) : Parse.isRem t = false :=
  h t List.mem_cons_self

theorem NoRem.of_append_right {a b : List Token} (h : NoRem (a ++ b)) : NoRem b :=
  fun x hx => h x (List.mem_append_right _ hx)

theorem isRem_whitespace (n : Nat) : Parse.isRem (.whitespace n) = false := rfl

/-! ### `nextLoop` -/

/-- the step of `nextLoop` on a whitespace token (remark flag clear) -/
theorem nextLoop_ws (n : Nat) (ts : List Token) (cs ce : Nat) :
    Parse.nextLoop (.whitespace n :: ts) false cs ce
      = Parse.nextLoop ts false ce (ce + (Token.whitespace n).text.length) := by
  simp [Parse.nextLoop, Parse.isRem]

/-- the step of `nextLoop` on a token that is neither whitespace nor a remark word -/
theorem nextLoop_tok (t : Token) (ts : List Token) (cs ce : Nat)
    (hr : Parse.isRem t = false) (hw : ∀ n, t ≠ .whitespace n) :
    Parse.nextLoop (t :: ts) false cs ce = (some t, ts, false, ce, ce + t.text.length) := by
  cases t with
  | whitespace n => exact absurd rfl (hw n)
  | _ => simp [Parse.nextLoop, hr]

/-- once the remark flag is set nothing more is delivered and the column does not advance -/
theorem nextLoop_rem (ts : List Token) (cs ce : Nat) :
    Parse.nextLoop ts true cs ce = (none, [], true, ce, ce) := by
  induction ts generalizing cs with
  | nil => simp [Parse.nextLoop]
  | cons t ts ih => simp [Parse.nextLoop, ih]

/-- a remark word sets the flag: the rest of the line is skipped -/
theorem nextLoop_rem_head (t : Token) (ts : List Token) (r : Bool) (cs ce : Nat)
    (h : Parse.isRem t = true) :
    Parse.nextLoop (t :: ts) r cs ce = (none, [], true, ce, ce) := by
  simp [Parse.nextLoop, h, nextLoop_rem]

/-- strong form: on a remark-free list `nextLoop` skips a run of whitespace and delivers the first
    other token with the column range `[offset, offset + width)`, or runs off the end -/
theorem nextLoop_spec (ts : List Token) (h : NoRem ts) (cs ce : Nat) :
    (∃ t ws rest, ts = ws ++ t :: rest ∧ AllWs ws ∧ (∀ n, t ≠ .whitespace n) ∧
        Parse.nextLoop ts false cs ce
          = (some t, rest, false, ce + (printTokens ws).length,
             ce + (printTokens ws).length + t.text.length)) ∨
    (AllWs ts ∧
        Parse.nextLoop ts false cs ce
          = (none, [], false, ce + (printTokens ts).length, ce + (printTokens ts).length)) := by
  induction ts generalizing cs ce with
  | nil =>
    right
    exact ⟨AllWs.nil, by simp [Parse.nextLoop, printTokens]⟩
  | cons t ts ih =>
    by_cases hw : ∃ n, t = .whitespace n
    · obtain ⟨n, rfl⟩ := hw
      rw [nextLoop_ws]
      rcases ih h.tail ce (ce + (Token.whitespace n).text.length) with
        ⟨t', ws, rest, hts, hws, hnw, heq⟩ | ⟨hws, heq⟩
      · left
        refine ⟨t', .whitespace n :: ws, rest, by rw [hts]; rfl, hws.cons, hnw, ?_⟩
        rw [heq, printTokens_length_cons]
        simp only [Nat.add_assoc]
      · right
        refine ⟨hws.cons, ?_⟩
        rw [heq, printTokens_length_cons]
        simp only [Nat.add_assoc]
    · left
      have hnw : ∀ n, t ≠ .whitespace n := fun n hn => hw ⟨n, hn⟩
      refine ⟨t, [], ts, rfl, AllWs.nil, hnw, ?_⟩
      rw [nextLoop_tok t ts cs ce h.head hnw]
      simp [printTokens]

/-! ### association lists of pending references -/

theorem lookup_unlInsert (k : Nat) (v : Col × Symbol) (m : List (Nat × (Col × Symbol))) :
    (Link.unlInsert k v m).lookup k = some v := by
  simp [Link.unlInsert]

theorem natDigits_length (n : Nat) : (RStd.natDigits n).length = (toString n).length := by
  unfold RStd.natDigits
  exact String.length_toList


/-! ### running codegen helpers (`GM = ExceptT Error (StateM GState)`) -/

theorem liftE_run {α} (r : Except Error α) (g : Codegen.GState) :
    (Codegen.liftE r).run.run g = (r, g) := by
  cases r <;> rfl

theorem laddUnlinked_run (c : Col) (sym : Symbol) (g : Codegen.GState) :
    (Codegen.laddUnlinked c sym).run.run g = (.ok (), { g with cur := g.cur.addUnlinked c sym }) := rfl

/-- `lpush` keeps the pushed link whether or not the push overflows -/
theorem lpush_run (op : Opcode) (g : Codegen.GState) :
    (Codegen.lpush op).run.run g = ((g.cur.push op).2, { g with cur := (g.cur.push op).1 }) := by
  show (Codegen.liftE (g.cur.push op).2).run.run { g with cur := (g.cur.push op).1 } = _
  rw [liftE_run]

theorem gm_bind_run {α β} (x : Codegen.GM α) (f : α → Codegen.GM β) (g : Codegen.GState) :
    (x >>= f).run.run g =
      (match x.run.run g with
       | (.ok a, g1) => (f a).run.run g1
       | (.error e, g1) => (.error e, g1)) := by
  simp only [ExceptT.run_bind, StateT.run_bind]
  rcases x.run.run g with ⟨r, g1⟩
  cases r <;> rfl

theorem push_ok (l : Link) (op : Opcode) (h : l.ops.size + 1 ≤ Gen.stackMaxLen) :
    (l.push op).2 = .ok () := by
  have : ¬ (l.ops.size + 1 > Gen.stackMaxLen) := by omega
  simp [Link.push, this]

theorem push_ops (l : Link) (op : Opcode) : (l.push op).1 = { l with ops := l.ops.push op } := rfl

end Lemmas.C19
end Basic
