import BasicModel.Lemmas.NoFaultInv
import BasicModel.Lemmas.CodegenErrors
/-
  `Fine env`: what every instruction, every slice and every API call preserves — the listing stays
  fine and no fault is recorded in `state` / `cont` — and the session invariant `NInv`.
-/
namespace Basic
open Lemmas.ParseNames Program Listing

namespace Runtime
variable {α β : Type}

/-- the compile-time diagnostics kept with the listing are not faults -/
def LErrOk (l : Listing) : Prop := ErrsOk l.directErrors ∧ ErrsOk l.indirectErrors

structure Fine (env : Env) (s t : Runtime) : Prop where
  lst : EnvOk env → ListingOk s.listing → ListingOk t.listing
  lerr : LErrOk s.listing → LErrOk t.listing
  st : NoFaultSt s → NoFaultSt t

instance (env : Env) : FrameRel (Fine env) where
  refl _ := ⟨fun _ h => h, id, id⟩
  trans h1 h2 := ⟨fun he h => h2.lst he (h1.lst he h), fun h => h2.lerr (h1.lerr h), fun h => h2.st (h1.st h)⟩

instance (env : Env) : QuietImplies (Fine env) where
  imp {s t} h := ⟨fun _ hl => h.listing ▸ hl, fun hl => h.listing ▸ hl,
    fun ⟨h1, h2⟩ => ⟨h.state ▸ h1, h.cont.elim (fun e => e ▸ h2) (fun e => by rw [e]; trivial)⟩⟩

/-- closes `Fine env s t` when `t` is `s` with fields replaced: the listing untouched, `state` and
    `cont` replaced by each other or by non-error states -/
macro "fine" : tactic =>
  `(tactic| (constructor
             · exact fun _ h => h
             · exact fun h => h
             · (intro h; constructor <;> first | exact h.1 | exact h.2 | exact trivial)))

theorem fine_doEnd (env : Env) (s : Runtime) : Fine env s (doEnd s) := by
  unfold doEnd; dsimp only
  split <;> split <;> fine

theorem fine_doClear (env env' : Env) (s : Runtime) : Fine env s (doClear env' s) := by
  unfold doClear; fine

theorem fine_doNew (env env' : Env) (s : Runtime) : Fine env s (doNew env' s) := by
  unfold doNew doClear
  constructor
  · exact fun _ _ => Listing.ListingOk.clear s.listing
  · exact fun _ => ⟨ErrsOk.nil, ErrsOk.nil⟩
  · intro h; exact ⟨trivial, trivial⟩

macro_rules | `(tactic| frame_rel) => `(tactic| fine)
macro_rules | `(tactic| frame_rel) => `(tactic| exact fine_doEnd _ _)
macro_rules | `(tactic| frame_rel) => `(tactic| exact fine_doClear _ _ _)
macro_rules | `(tactic| frame_rel) => `(tactic| exact fine_doNew _ _ _)

theorem fine_doCont (env : Env) : Frame (Fine env) doCont := by unfold doCont; frame
theorem fine_doInput (env : Env) (n : Str) : Frame (Fine env) (doInput n) := by unfold doInput; frame
theorem fine_doList (env : Env) : Frame (Fine env) doList := by unfold doList; frame
theorem fine_doPrint (env : Env) : Frame (Fine env) doPrint := by unfold doPrint; frame
theorem fine_fileOp (env : Env) (mk : Str → Event) (b : Bool) : Frame (Fine env) (fileOp mk b) := by
  unfold fileOp; frame

theorem fine_delete (env : Env) (s : Runtime) (lo hi : Option Nat) :
    Fine env s { s with listing := (s.listing.removeRange lo hi).1, dirty := true, state := .stopped,
                        cont := .stopped, stack := #[], functions := [] } :=
  ⟨fun _ h => Listing.ListingOk.removeRange h lo hi,
   fun h => by unfold Listing.removeRange; split <;> exact h,
   fun _ => ⟨trivial, trivial⟩⟩

theorem fine_doDelete (env : Env) : Frame (Fine env) doDelete := by
  unfold doDelete
  frame
  exact FrameFrom.wr (fine_delete env _ _ _)

theorem fine_renum (env : Env) (s : Runtime) (l : Listing) (a b c : Nat)
    (he : s.listing.renum env.lineRenum a b c = .ok l) :
    Fine env s { s with listing := l, dirty := true, cont := .stopped, stack := #[], functions := [],
                        state := .stopped } :=
  ⟨fun henv h => Listing.ListingOk.renum h env.lineRenum henv.renum a b c he,
   fun h => by
     unfold Listing.renum at he
     cases hp : renumPlan (s.listing.source.map (·.1)) a b c with
     | error e => rw [hp] at he; cases he
     | ok ch => rw [hp] at he; cases he; exact h,
   fun _ => ⟨trivial, trivial⟩⟩

/-- `liftE r >>= f`: the continuation knows that `r` succeeded -/
theorem FrameFrom.lift_seq {R : Runtime → Runtime → Prop} [FrameRel R] {s₀ : Runtime}
    {r : Except Error α} {f : α → RM β} (hf : ∀ a, r = .ok a → FrameFrom R s₀ (f a)) :
    FrameFrom R s₀ (liftE r >>= f) := by
  constructor
  intro s hs
  rw [run_bind, run_liftE]
  cases r with
  | ok a => exact (hf a rfl).run s hs
  | error e => exact hs

theorem fine_doRenum (env : Env) : Frame (Fine env) (doRenum env) := by
  unfold doRenum
  try dsimp only
  apply Frame.of_from; intro _
  repeat' (first
    | ((with_reducible apply FrameFrom.lift_seq); intro _ _)
    | exact FrameFrom.wr (fine_renum env _ _ _ _ _ (by assumption))
    | frame_step)

macro_rules | `(tactic| frame_known) => `(tactic| with_reducible exact FrameFrom.of_frame (fine_doCont _))
macro_rules | `(tactic| frame_known) => `(tactic| with_reducible exact FrameFrom.of_frame (fine_doInput _ _))
macro_rules | `(tactic| frame_known) => `(tactic| with_reducible exact FrameFrom.of_frame (fine_doList _))
macro_rules | `(tactic| frame_known) => `(tactic| with_reducible exact FrameFrom.of_frame (fine_doPrint _))
macro_rules | `(tactic| frame_known) => `(tactic| with_reducible exact FrameFrom.of_frame (fine_fileOp _ _ _))
macro_rules | `(tactic| frame_known) => `(tactic| with_reducible exact FrameFrom.of_frame (fine_doDelete _))
macro_rules | `(tactic| frame_known) => `(tactic| with_reducible exact FrameFrom.of_frame (fine_doRenum _))

theorem execOp_fine (env : Env) (h : Bool) (op : Opcode) : Frame (Fine env) (execOp env h op) := by
  by_cases hev : isEventOp op = false
  · exact Frame.of_quiet (execOp_quiet env h op hev)
  · cases op <;> first
      | (simp [isEventOp] at hev; done)
      | (simp only [execOp]; frame)

theorem step_fine (env : Env) (h : Bool) (s : Runtime) : Fine env s ((step env h).run.run s).2 :=
  step_frame env h s fun op _ => execOp_fine env h op

theorem sliceRun_fine (env : Env) (h : Bool) (n : Nat) (s : Runtime) : Fine env s (sliceRun env h n s).2.1 := by
  induction n generalizing s with
  | zero => exact FrameRel.refl s
  | succ k ih =>
    have hw := step_fine env h s
    rw [sliceRun_succ]
    rcases hs : (step env h).run.run s with ⟨r, s'⟩
    rw [hs] at hw
    rcases r with e | st
    · exact hw
    · cases st with
      | «continue» => exact FrameRel.trans hw (ih s')
      | event e => exact hw

theorem executeLoop_fine (env : Env) (n : Nat) (s : Runtime) :
    Fine env s ((executeLoop env n).run.run s).2 := by
  rw [executeLoop_run]; exact sliceRun_fine env _ n s

/-! ### the session invariant -/

/-- the session invariant -/
structure NInv (s : Runtime) : Prop where
  prog : ProgOk s.program
  perr : PErrOk s.program
  lst : ListingOk s.listing
  lerr : LErrOk s.listing
  st : NoFaultSt s

theorem ninv_init : NInv ({} : Runtime) :=
  ⟨ProgOk.empty, PErrOk.empty, Listing.ListingOk.empty, ⟨ErrsOk.nil, ErrsOk.nil⟩, ⟨trivial, trivial⟩⟩

theorem pErrOk_of_keep {s t : Runtime} (hk : Keep s t) (h : PErrOk s.program) : PErrOk t.program := by
  obtain ⟨d, hd⟩ := hk.prog
  rw [hd]; exact h

theorem progOk_of_keep {s t : Runtime} (hk : Keep s t) (h : ProgOk s.program) : ProgOk t.program := by
  obtain ⟨d, hd⟩ := hk.prog
  rw [hd]; exact h

theorem ninv_of {env : Env} (henv : EnvOk env) {s t : Runtime} (hk : Keep s t) (hf : Fine env s t) (hi : NInv s) :
    NInv t :=
  ⟨progOk_of_keep hk hi.prog, pErrOk_of_keep hk hi.perr, hf.lst henv hi.lst, hf.lerr hi.lerr,
   hf.st hi.st⟩

theorem nfm_executeInput : NFM executeInput := by unfold executeInput; nfm

theorem readyPrompt_fine (env : Env) (s : Runtime) : Fine env s (readyPrompt s).1 := by
  unfold readyPrompt; split
  · fine
  · exact FrameRel.refl s

theorem executePre_fine (env : Env) (s : Runtime) : Fine env s (executePre s).1 := by
  unfold executePre
  split
  · fine
  · have := readyPrompt_fine env s
    split <;> rename_i heq <;> rw [heq] at this <;> exact this
  · exact ⟨fun _ h => h, fun h => h, fun h => ⟨rfl, h.2⟩⟩
  · split <;> fine
  · have hq : Fine env s (executeInput.run.run s).2 := QuietImplies.imp (frame_executeInput.run s)
    have hn := nfm_executeInput.out s
    generalize executeInput.run.run s = x at hq hn ⊢
    rcases x with ⟨r, s'⟩
    cases r with
    | ok e => exact hq
    | error e =>
      refine FrameRel.trans hq ⟨fun _ h => h, fun h => h, fun h => ⟨?_, h.2⟩⟩
      exact hn e rfl
  · fine
  · split
    · fine
    · exact FrameRel.refl s
  · split
    · fine
    · exact FrameRel.refl s
  · exact FrameRel.refl s
  · exact FrameRel.refl s

/-- `finishLoop` records the error of the slice: fine when that error is not a fault -/
theorem finishLoop_fine (env : Env) (r : Except Error Event) (s : Runtime)
    (hr : ∀ e, r = .error e → e.isFault = false) : Fine env s (finishLoop r s).1 := by
  unfold finishLoop
  split
  · split
    · have := readyPrompt_fine env s
      split <;> rename_i heq <;> rw [heq] at this <;> exact this
    · exact FrameRel.refl s
  · rename_i error
    have herr : error.isFault = false := hr error rfl
    split
    · fine
    · dsimp only
      split
      · exact ⟨fun _ h => h, fun h => h, fun h => ⟨herr, trivial⟩⟩
      · exact ⟨fun _ h => h, fun h => h, fun h => ⟨herr, h.1⟩⟩

theorem executeRest_fine (env : Env) (s : Runtime) (n : Nat) : Fine env s (executeRest env s n).1 := by
  unfold executeRest
  split
  · split <;> fine
  · exact FrameRel.trans (executeLoop_fine env n s) (finishLoop_fine env _ _ (executeLoop_no_fault env n s))

theorem executeRest_ninv (env : Env) (henv : EnvOk env) (s : Runtime) (n : Nat) (hi : NInv s) :
    NInv (executeRest env s n).1 :=
  ninv_of henv (executeRest_keep env s n) (executeRest_fine env s n) hi

/-- **`execute` keeps the invariant** -/
theorem execute_ninv (env : Env) (henv : EnvOk env) (s : Runtime) (n : Nat) (hi : NInv s) :
    NInv (execute env s n).1 := by
  rw [execute_eq]
  have hp : NInv (executePre s).1 := ninv_of henv (executePre_keep s) (executePre_fine env s) hi
  generalize executePre s = x at hp ⊢
  rcases x with ⟨s', o⟩
  cases o with
  | some e => exact hp
  | none => exact executeRest_ninv env henv s' n hp

/-! ### the `errors` events -/

def isErrorsEv : Event → Bool
  | .errors _ => true
  | _ => false

def isErrorsStep : Step → Bool
  | .event e => isErrorsEv e
  | .continue => false

/-- only a branch into a program with compile errors and RENUM report an `errors` event -/
def errEventOp : Opcode → Bool
  | .jump _ | .renum => true
  | _ => false

theorem rets_doDelete' : Rets doDelete (isErrorsEv · = false) := by unfold doDelete; rets
theorem rets_doPrint' : Rets doPrint (isErrorsEv · = false) := by unfold doPrint; rets
theorem rets_fileOp_load' : Rets (fileOp .load true) (isErrorsEv · = false) := by unfold fileOp; rets
theorem rets_fileOp_run' : Rets (fileOp .run false) (isErrorsEv · = false) := by unfold fileOp; rets
theorem rets_fileOp_save' : Rets (fileOp .save true) (isErrorsEv · = false) := by unfold fileOp; rets

theorem execOp_no_errors (env : Env) (h : Bool) (op : Opcode) (hop : errEventOp op = false) :
    Rets (execOp env h op) (isErrorsStep · = false) := by
  by_cases hev : isEventOp op = false
  · exact ⟨fun s a s' hr => by rw [(execOp_continue env h op hev).run s a s' hr]; rfl⟩
  · have inj : ∀ e, isErrorsEv e = false → isErrorsStep (Step.event e) = false := fun e he => he
    cases op <;> first
      | (simp [isEventOp] at hev; done)
      | (simp [errEventOp] at hop; done)
      | (simp only [execOp]; rets; done)
      | (simp only [execOp]; exact Rets.event rets_doDelete' inj)
      | (simp only [execOp]; exact Rets.event rets_doPrint' inj)
      | (simp only [execOp]; exact Rets.event rets_fileOp_load' inj)
      | (simp only [execOp]; exact Rets.event rets_fileOp_run' inj)
      | (simp only [execOp]; exact Rets.event rets_fileOp_save' inj)

theorem doRenum_errors (env : Env) (s t : Runtime) (es : List Error)
    (h : (doRenum env).run.run s = (.ok (.errors es), t)) : es = s.listing.indirectErrors := by
  unfold doRenum at h
  rw [run_bind_ok (run_get s)] at h
  by_cases hc : s.pc < s.entryAddress
  · simp only [hc, if_true] at h
    rw [run_bind_error (run_throw _ s)] at h
    cases h
  · simp only [hc, if_false] at h
    by_cases h2 : (!s.listing.indirectErrors.isEmpty) = true
    · rw [if_pos h2] at h
      cases h; rfl
    · rw [if_neg h2] at h
      have hr : Rets (do
          let step ← liftE (← pop).toU16
          let oldStart ← liftE (← pop).toU16
          let newStart ← liftE (← pop).toU16
          let s ← get
          let l ← liftE (s.listing.renum env.lineRenum newStart oldStart step)
          set { s with listing := l, dirty := true, cont := .stopped, stack := #[], functions := [], state := .stopped }
          modify doEnd
          pure Event.stopped : RM Event) (isErrorsEv · = false) := by rets
      have := hr.run s _ t h
      cases this

/-- an `errors` event of an instruction is the list of compile errors kept with the listing -/
theorem execOp_errors_event (env : Env) (h : Bool) (op : Opcode) (s t : Runtime) (es : List Error)
    (hr : (execOp env h op).run.run s = (.ok (.event (.errors es)), t)) : es = s.listing.indirectErrors := by
  by_cases hop : errEventOp op = false
  · have := (execOp_no_errors env h op hop).run s _ t hr
    cases this
  · cases op <;> first
      | (simp [errEventOp] at hop; done)
      | skip
    · rename_i a
      rw [execOp_jump_run] at hr
      split at hr
      · cases hr; rfl
      · cases hr
    · simp only [execOp] at hr
      rw [run_bind] at hr
      rcases hd : (doRenum env).run.run s with ⟨r, t'⟩
      rw [hd] at hr
      cases r with
      | error e => cases hr
      | ok ev =>
        have hr' : ((Except.ok (Step.event ev) : Except Error Step), t') = (.ok (.event (.errors es)), t) := hr
        cases hr'
        exact doRenum_errors env s t es hd

theorem step_errors_event (env : Env) (h : Bool) (s t : Runtime) (es : List Error)
    (hr : (step env h).run.run s = (.ok (.event (.errors es)), t)) : es = s.listing.indirectErrors := by
  rcases step_cases env h s with ⟨text, tr, col, hc⟩ | ⟨tr, hc⟩
  · rw [hc] at hr; cases hr
  · rw [hc, run_fetchExec] at hr
    have hr' : (match s.program.link.ops[s.pc]? with
      | none => ((.error ((Error.mk' Code.internalError).withMsg "INVALID PC ADDRESS"), { s with tr := tr }) :
          Except Error Step × Runtime)
      | some op => (execOp env h op).run.run { s with tr := tr, pc := s.pc + 1 }) =
        (.ok (.event (.errors es)), t) := hr
    cases hq : s.program.link.ops[s.pc]? with
    | none => rw [hq] at hr'; cases hr'
    | some op =>
      rw [hq] at hr'
      exact execOp_errors_event env h op { s with tr := tr, pc := s.pc + 1 } t es hr'

def EventOk : Event → Prop
  | .errors es => ErrsOk es
  | _ => True

theorem sliceRun_event_ok (env : Env) (h : Bool) (n : Nat) (s : Runtime) (hl : LErrOk s.listing) (ev : Event)
    (he : (sliceRun env h n s).1 = .ok (some ev)) : EventOk ev := by
  induction n generalizing s with
  | zero => cases he
  | succ k ih =>
    rw [sliceRun_succ] at he
    have hf := step_fine env h s
    have hev := step_errors_event env h s
    rcases hr : (step env h).run.run s with ⟨r, s'⟩
    rw [hr] at he hf hev
    rcases r with e' | st
    · cases he
    · cases st with
      | «continue» => exact ih s' (hf.lerr hl) he
      | event ev' =>
        have : ev' = ev := by
          have he' : (Except.ok (some ev') : Except Error (Option Event)) = .ok (some ev) := he
          cases he'; rfl
        subst this
        cases ev' with
        | errors es => rw [hev s' es rfl]; exact hl.2
        | _ => trivial

theorem executeLoop_event_ok (env : Env) (n : Nat) (s : Runtime) (hl : LErrOk s.listing) (ev : Event)
    (he : ((executeLoop env n).run.run s).1 = .ok ev) : EventOk ev := by
  rw [executeLoop_run] at he
  unfold slice at he
  cases hr : (sliceRun env (hasIndirectErrors s) n s).1 with
  | error e' => rw [hr] at he; cases he
  | ok o =>
    rw [hr] at he
    cases o with
    | none => cases he; trivial
    | some ev' =>
      have : ev' = ev := by
        have he' : (Except.ok ev' : Except Error Event) = .ok ev := he
        cases he'; rfl
      subst this
      exact sliceRun_event_ok env _ n s hl ev' hr

theorem readyPrompt_event_ok (s : Runtime) (ev : Event) (h : (readyPrompt s).2 = some ev) : EventOk ev := by
  unfold readyPrompt at h
  split at h
  · cases h; trivial
  · cases h

theorem nfm_rets_executeInput : Rets executeInput (isErrorsEv · = false) := by unfold executeInput; rets

theorem executePre_event_ok (s : Runtime) (hi : NInv s) (ev : Event) (h : (executePre s).2 = some ev) :
    EventOk ev := by
  unfold executePre at h
  split at h
  · cases h; trivial
  · have := readyPrompt_event_ok s
    split at h <;> rename_i heq <;> rw [heq] at this
    · cases h; exact this _ rfl
    · cases h; trivial
  · cases h
  · split at h
    · cases h; trivial
    · cases h
  · have hq := nfm_rets_executeInput.run s
    generalize executeInput.run.run s = x at hq h
    rcases x with ⟨r, s'⟩
    cases r with
    | ok e0 =>
      have := hq e0 s' rfl
      cases h
      cases ev <;> first | trivial | (cases this)
    | error e0 => cases h
  · cases h; exact ErrsOk.single rfl
  · split at h
    · cases h; exact hi.lerr.1
    · cases h
  · split at h
    · cases h; exact hi.lerr.1
    · cases h
  · cases h
  · cases h

theorem finishLoop_event_ok (r : Except Error Event) (s : Runtime) (hr : ∀ ev, r = .ok ev → EventOk ev) :
    EventOk (finishLoop r s).2 := by
  unfold finishLoop
  split
  · split
    · have := readyPrompt_event_ok s
      split <;> rename_i heq <;> rw [heq] at this
      · exact this _ rfl
      · trivial
    · exact hr _ rfl
  · split
    · trivial
    · trivial

theorem executeRest_event_ok (env : Env) (s : Runtime) (n : Nat) (hi : NInv s) :
    EventOk (executeRest env s n).2 := by
  unfold executeRest
  split
  · rename_i err hs
    split
    · trivial
    · have := hi.st.1
      rw [hs] at this
      exact ErrsOk.single this
  · exact finishLoop_event_ok _ _ (fun ev hev => executeLoop_event_ok env n s hi.lerr ev hev)

/-- **no `errors` event of `execute` contains a fault** (given the invariant; the slice itself
    needs no hypothesis here: a fault raised in it would be recorded, not reported, by this call) -/
theorem execute_event_ok (env : Env) (henv : EnvOk env) (s : Runtime) (n : Nat) (hi : NInv s) :
    EventOk (execute env s n).2 := by
  rw [execute_eq]
  have hp : NInv (executePre s).1 := ninv_of henv (executePre_keep s) (executePre_fine env s) hi
  have he := executePre_event_ok s hi
  generalize executePre s = x at hp he ⊢
  rcases x with ⟨s', o⟩
  cases o with
  | some e => exact he e rfl
  | none => exact executeRest_event_ok env s' n hp

/-! ### `enter`, `interrupt`, `set_listing` -/

theorem ninv_interrupt (s : Runtime) (hi : NInv s) : NInv (interrupt s) := by
  unfold interrupt
  dsimp only
  split
  · exact ⟨hi.prog, hi.perr, hi.lst, hi.lerr, ⟨trivial, trivial⟩⟩
  · exact ⟨hi.prog, hi.perr, hi.lst, hi.lerr, ⟨trivial, hi.st.1⟩⟩

theorem ninv_enterDirect (s : Runtime) (line : Line) (hl : LineOk line) (hi : NInv s) :
    NInv (enterDirect s line) := by
  unfold enterDirect
  dsimp only
  have hp : ProgOk (if s.dirty = true then
        { s with program := (s.program.clear).codegenLines s.listing.lines, dirty := false } else s).program ∧
      PErrOk (if s.dirty = true then
        { s with program := (s.program.clear).codegenLines s.listing.lines, dirty := false } else s).program ∧
      (if s.dirty = true then
        { s with program := (s.program.clear).codegenLines s.listing.lines, dirty := false } else s).listing
        = s.listing ∧
      (if s.dirty = true then
        { s with program := (s.program.clear).codegenLines s.listing.lines, dirty := false } else s).cont
        = s.cont := by
    split
    · exact ⟨(ProgOk.clear _).codegenLines (Listing.listingOk_lines hi.lst), (PErrOk.clear _).codegenLines _, rfl, rfl⟩
    · exact ⟨hi.prog, hi.perr, rfl, rfl⟩
  generalize (if s.dirty = true then
        { s with program := (s.program.clear).codegenLines s.listing.lines, dirty := false } else s) = s1 at hp
  obtain ⟨h1, h2, h3, h4⟩ := hp
  have hq : ProgOk ((s1.program.codegenLine line).linkProg) := (h1.codegenLine hl).linkProg
  have hq2 : PErrOk ((s1.program.codegenLine line).linkProg) := (h2.codegenLine line).linkProg
  refine ⟨hq, hq2, ?_, ⟨hq2.1, hq2.2⟩, ⟨trivial, ?_⟩⟩
  · show ListingOk { s1.listing with indirectErrors := _, directErrors := _ }
    rw [h3]; exact hi.lst
  · show RStateOk s1.cont
    rw [h4]; exact hi.st.2

theorem ninv_enterIndirect (s : Runtime) (line : Line) (hl : LineOk line) (hi : NInv s) :
    NInv (enterIndirect s line) := by
  unfold enterIndirect
  dsimp only
  split
  · split
    · refine ⟨hi.prog, hi.perr, Listing.ListingOk.remove hi.lst line.number, ?_, ⟨hi.st.1, trivial⟩⟩
      show LErrOk (s.listing.remove line.number).1
      unfold Listing.remove; split <;> exact hi.lerr
    · exact ⟨hi.prog, hi.perr, hi.lst, hi.lerr, ⟨hi.st.1, trivial⟩⟩
  · refine ⟨hi.prog, hi.perr, Listing.ListingOk.insert hi.lst hl, ?_, ⟨hi.st.1, trivial⟩⟩
    show LErrOk (s.listing.insert line)
    unfold Listing.insert; split <;> exact hi.lerr

theorem nfm_replyPush (fs : List Str) : NFM (replyPush fs) := by unfold replyPush; nfm

theorem fine_replyPush (env : Env) (fs : List Str) : Frame (Fine env) (replyPush fs) := by
  unfold replyPush; frame

theorem doInputReply_spec (env : Env) (s : Runtime) (str : Str) :
    Fine env s (doInputReply s str).1 ∧ ∀ e, (doInputReply s str).2 = .error e → e.isFault = false := by
  unfold doInputReply
  split
  · dsimp only
    split
    · exact ⟨by fine, fun e he => nomatch he⟩
    · rename_i fs _
      have h1 := (fine_replyPush env fs).run s
      have h2 := (nfm_replyPush fs).out s
      show Fine env s (match (replyPush fs).run.run s with | (r, s') => (s', r)).1 ∧
        ∀ e, (match (replyPush fs).run.run s with | (r, s') => (s', r)).2 = .error e → e.isFault = false
      generalize (replyPush fs).run.run s = x at h1 h2
      rcases x with ⟨r, s'⟩
      exact ⟨h1, fun e he => h2 e he⟩
  · exact ⟨FrameRel.refl s, fun e he => by cases he; rfl⟩

theorem ninv_enter (env : Env) (henv : EnvOk env) (s : Runtime) (str : Str) (hi : NInv s) :
    NInv (enter env s str) := by
  unfold enter
  split
  · -- a reply to INPUT
    dsimp only
    split
    · exact ⟨hi.prog, hi.perr, hi.lst, hi.lerr, ⟨trivial, hi.st.2⟩⟩
    · have hk := doInputReply_keep s str
      obtain ⟨hf, he⟩ := doInputReply_spec env s str
      generalize doInputReply s str = x at hk hf he
      rcases x with ⟨s', r⟩
      have hi' : NInv s' := ninv_of henv hk hf hi
      cases r with
      | ok u => exact ⟨hi'.prog, hi'.perr, hi'.lst, hi'.lerr, hi'.st⟩
      | error e =>
        exact ⟨hi'.prog, hi'.perr, hi'.lst, hi'.lerr, ⟨he e rfl, trivial⟩⟩
  · -- a key for INKEY$
    dsimp only
    have hk := (keep_push (Val.str (if RStd.utf8Len str > Gen.maxLineLen then [] else str))).run s
    have hq : Fine env s ((push (Val.str (if RStd.utf8Len str > Gen.maxLineLen then [] else str))).run.run s).2 :=
      QuietImplies.imp ((frame_push _).run s)
    generalize (push (Val.str (if RStd.utf8Len str > Gen.maxLineLen then [] else str))).run.run s = x at hk hq ⊢
    rcases x with ⟨r, s'⟩
    have hi' : NInv s' := ninv_of henv hk hq hi
    cases r with
    | ok u => exact ⟨hi'.prog, hi'.perr, hi'.lst, hi'.lerr, ⟨trivial, hi'.st.2⟩⟩
    | error e => exact ⟨hi'.prog, hi'.perr, hi'.lst, hi'.lerr, ⟨trivial, trivial⟩⟩
  · split
    · exact ⟨hi.prog, hi.perr, hi.lst, hi.lerr, ⟨rfl, hi.st.2⟩⟩
    · dsimp only
      split
      · split
        · exact hi
        · exact ninv_enterDirect s _ (henv.lex str) hi
      · split
        · exact ⟨hi.prog, hi.perr, hi.lst, hi.lerr, ⟨rfl, hi.st.2⟩⟩
        · exact ninv_enterIndirect s _ (henv.lex str) hi

theorem ninv_setListing (env : Env) (henv : EnvOk env) (s : Runtime) (l : Listing) (run : Bool)
    (hl : ListingOk l) (hle : LErrOk l) (hi : NInv s) : NInv (setListing env s l run) := by
  unfold setListing
  dsimp only
  have h0 : NInv { doNew env s with listing := l } :=
    ⟨hi.prog, hi.perr, hl, hle, ⟨trivial, trivial⟩⟩
  split
  · exact ninv_enter env henv _ _ h0
  · exact h0

end Runtime
end Basic
