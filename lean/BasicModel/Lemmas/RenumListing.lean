import BasicModel.Thm.C15
import BasicModel.Lemmas.Renum
/-
  RENUM at the level of the whole listing (`Listing.renum` with `Lex.lineRenum` = `Line::renum`).

  For a well-formed store all of whose lines parse:
  * `renum_source`: the new store is the old one mapped line by line — key `k` becomes
    `renumMap ch k`, the line becomes `Lex.lineRenum ch line` — same length, same order;
  * `renumMap_strictMono`, `renumMap_kept`, `renumMap_new`, `renumMap_le`, `renumMap_not_key`: the
    renumbering function of a successful plan;
  * `wf_renum_full`: the store invariant is kept;
  * `renum_tokens`: tokens change only at line-number operands that name a renumbered line;
  * `renum_refs_consistent`: an operand naming an existing line names the same line afterwards;
  * `renum_error_iff`, `renumPlan_ok_iff`, …: RENUM fails exactly when the plan fails, and when that is.

  Without "all lines parse" the structure fails (a line that does not parse keeps its old number,
  `Lex.lineRenum` (sic)): see the examples at the end of `Thm/C14.lean`.
-/
namespace Basic
namespace Listing
open SortedList Thm.C15

/-- the renumbering function of a plan: a key of `changes` goes to its new number, anything else
    stays -/
def renumMap (changes : List (Nat × Nat)) (n : Nat) : Nat := (changes.lookup n).getD n

/-- every stored line parses -/
def AllParse (l : Listing) : Prop :=
  ∀ p ∈ l.source, ∃ ast, Parse.parse p.2.number p.2.tokens = .ok ast

/-- the line numbers of a well-formed store are strictly ascending … -/
theorem keys_pairwise {l : Listing} (hl : WF l) : (l.source.map (·.1)).Pairwise (· < ·) := by
  rw [List.pairwise_map]
  exact hl.sorted

/-- … and are line numbers -/
theorem keys_bounded {l : Listing} (hl : WF l) : ∀ k ∈ l.source.map (·.1), k ≤ maxLineNumber := by
  intro k hk
  obtain ⟨p, hp, rfl⟩ := List.mem_map.1 hk
  exact hl.bounded p hp

/-! ### lookup in an association list with distinct keys -/

theorem lookup_none_of_not_key {ch : List (Nat × Nat)} {k : Nat} (h : k ∉ ch.map (·.1)) :
    ch.lookup k = none := by
  rw [List.lookup_eq_none_iff]
  intro p hp
  have : k ≠ p.1 := fun e => h (List.mem_map.2 ⟨p, hp, e.symm⟩)
  simpa using this

theorem key_of_lookup_some {ch : List (Nat × Nat)} {k v : Nat} (h : ch.lookup k = some v) :
    (k, v) ∈ ch := by
  induction ch with
  | nil => cases h
  | cons x r ih =>
    obtain ⟨a, b⟩ := x
    rw [List.lookup_cons] at h
    by_cases hk : k = a
    · subst hk
      simp only [beq_self_eq_true, Option.some.injEq] at h
      subst h
      exact List.mem_cons_self
    · have : (k == a) = false := by simpa using hk
      rw [this] at h
      exact List.mem_cons_of_mem _ (ih h)

theorem lookup_some_of_mem {ch : List (Nat × Nat)} (hd : (ch.map (·.1)).Pairwise (· < ·))
    {k v : Nat} (h : (k, v) ∈ ch) : ch.lookup k = some v := by
  induction ch with
  | nil => cases h
  | cons x r ih =>
    obtain ⟨a, b⟩ := x
    rw [List.map_cons, List.pairwise_cons] at hd
    rw [List.lookup_cons]
    rcases List.mem_cons.1 h with e | hr
    · cases e
      simp
    · have hlt : a < k := hd.1 k (List.mem_map.2 ⟨(k, v), hr, rfl⟩)
      have : (k == a) = false := by
        have : k ≠ a := by omega
        simpa using this
      rw [this]
      exact ih hd.2 hr

/-! ### the renumbering function of a successful plan -/

section Plan
variable {ks : List Nat} {a b c : Nat} {ch : List (Nat × Nat)}

theorem plan_keys_pairwise (hs : ks.Pairwise (· < ·)) (h : renumPlan ks a b c = .ok ch) :
    (ch.map (·.1)).Pairwise (· < ·) := by
  rw [(renumPlan_ok ks a b c ch h).2.1]
  exact List.Pairwise.sublist List.filter_sublist hs

/-- the plan as a list of pairs: the `i`-th renumbered line gets `a + c * i` -/
theorem plan_getElem (h : renumPlan ks a b c = .ok ch) (i : Nat)
    (hi : i < (ks.filter (fun k => decide (k ≥ b))).length) :
    ((ks.filter (fun k => decide (k ≥ b)))[i], a + c * i) ∈ ch := by
  obtain ⟨_, h1, h2, _, _⟩ := renumPlan_ok ks a b c ch h
  have hlen : ch.length = (ks.filter (fun k => decide (k ≥ b))).length := by
    rw [← h1, List.length_map]
  have hi' : i < ch.length := by omega
  have e1 : ch[i].1 = (ks.filter (fun k => decide (k ≥ b)))[i] := by
    have : (ch.map (·.1))[i]'(by rw [List.length_map]; exact hi') = ch[i].1 := List.getElem_map _
    rw [← this]
    simp only [h1]
  have e2 : ch[i].2 = a + c * i := by
    have : (ch.map (·.2))[i]'(by rw [List.length_map]; exact hi') = ch[i].2 := List.getElem_map _
    rw [← this]
    simp only [h2, List.getElem_map, List.getElem_range]
  have : ch[i] = ((ks.filter (fun k => decide (k ≥ b)))[i], a + c * i) := by
    rw [← e1, ← e2]
  rw [← this]
  exact List.getElem_mem hi'

/-- a number that is not a key of the plan is not changed -/
theorem renumMap_of_not_plan_key {k : Nat} (h : k ∉ ch.map (·.1)) : renumMap ch k = k := by
  unfold renumMap
  rw [lookup_none_of_not_key h]
  rfl

/-- numbers below the old start are kept (whether they name a line or not) -/
theorem renumMap_kept (h : renumPlan ks a b c = .ok ch) {k : Nat} (hk : k < b) :
    renumMap ch k = k := by
  apply renumMap_of_not_plan_key
  rw [(renumPlan_ok ks a b c ch h).2.1, List.mem_filter]
  intro hh
  have := hh.2
  simp only [decide_eq_true_eq] at this
  omega

/-- a number that names no line is not changed -/
theorem renumMap_not_key (h : renumPlan ks a b c = .ok ch) {k : Nat} (hk : k ∉ ks) :
    renumMap ch k = k := by
  apply renumMap_of_not_plan_key
  rw [(renumPlan_ok ks a b c ch h).2.1, List.mem_filter]
  exact fun hh => hk hh.1

/-- the lines numbered `≥ b` get `a, a + c, a + 2c, …` in order -/
theorem renumMap_new (hs : ks.Pairwise (· < ·)) (h : renumPlan ks a b c = .ok ch) (i : Nat)
    (hi : i < (ks.filter (fun k => decide (k ≥ b))).length) :
    renumMap ch ((ks.filter (fun k => decide (k ≥ b)))[i]) = a + c * i := by
  unfold renumMap
  rw [lookup_some_of_mem (plan_keys_pairwise hs h) (plan_getElem h i hi)]
  rfl

/-- `lookup` of the plan, exactly -/
theorem plan_lookup (hs : ks.Pairwise (· < ·)) (h : renumPlan ks a b c = .ok ch) (n : Nat) :
    ch.lookup n = if n ∈ ks ∧ b ≤ n then some (renumMap ch n) else none := by
  by_cases hn : n ∈ ks ∧ b ≤ n
  · rw [if_pos hn]
    have hm : n ∈ ks.filter (fun k => decide (k ≥ b)) := by
      rw [List.mem_filter]
      exact ⟨hn.1, by simpa using hn.2⟩
    obtain ⟨i, hi, e⟩ := List.getElem_of_mem hm
    have h1 := lookup_some_of_mem (plan_keys_pairwise hs h) (plan_getElem h i hi)
    rw [e] at h1
    unfold renumMap
    rw [h1]
    rfl
  · rw [if_neg hn]
    apply lookup_none_of_not_key
    rw [(renumPlan_ok ks a b c ch h).2.1, List.mem_filter]
    intro hh
    exact hn ⟨hh.1, by simpa using hh.2⟩

/-- the renumbering function is strictly monotone on the line numbers of the program -/
theorem renumMap_strictMono (hs : ks.Pairwise (· < ·)) (hb : ∀ k ∈ ks, k ≤ maxLineNumber)
    (h : renumPlan ks a b c = .ok ch) :
    ∀ i j, i ∈ ks → j ∈ ks → i < j → renumMap ch i < renumMap ch j := by
  intro i j hi hj hij
  obtain ⟨hc, h1, h2, _, _⟩ := renumPlan_ok ks a b c ch h
  by_cases hjb : j < b
  · rw [renumMap_kept h hjb, renumMap_kept h (by omega : i < b)]
    exact hij
  · have hjm : j ∈ ks.filter (fun k => decide (k ≥ b)) := by
      rw [List.mem_filter]
      exact ⟨hj, by simpa using (by omega : b ≤ j)⟩
    obtain ⟨q, hq, eq⟩ := List.getElem_of_mem hjm
    have hjv := renumMap_new hs h q hq
    rw [eq] at hjv
    by_cases hib : i < b
    · rw [renumMap_kept h hib, hjv]
      have hne : ch ≠ [] := by
        intro e
        have := plan_getElem h q hq
        rw [e] at this
        cases this
      have := renumPlan_kept_below ks a b c ch h hne hs hb i hi hib _ (plan_getElem h q hq)
      exact this
    · have him : i ∈ ks.filter (fun k => decide (k ≥ b)) := by
        rw [List.mem_filter]
        exact ⟨hi, by simpa using (by omega : b ≤ i)⟩
      obtain ⟨p, hp, ep⟩ := List.getElem_of_mem him
      have hiv := renumMap_new hs h p hp
      rw [ep] at hiv
      rw [hiv, hjv]
      have hfs : (ks.filter (fun k => decide (k ≥ b))).Pairwise (· < ·) :=
        List.Pairwise.sublist List.filter_sublist hs
      have hpq : p < q := by
        rcases Nat.lt_trichotomy p q with hlt | heq | hgt
        · exact hlt
        · subst heq
          rw [ep] at eq
          omega
        · have := List.pairwise_iff_getElem.1 hfs q p hq hp hgt
          rw [ep, eq] at this
          omega
      have := Nat.mul_lt_mul_of_pos_left hpq hc
      omega

/-- every line number of the renumbered program is a line number -/
theorem renumMap_le (hs : ks.Pairwise (· < ·)) (hb : ∀ k ∈ ks, k ≤ maxLineNumber)
    (h : renumPlan ks a b c = .ok ch) : ∀ k ∈ ks, renumMap ch k ≤ maxLineNumber := by
  intro k hk
  by_cases hkb : k < b
  · rw [renumMap_kept h hkb]
    exact hb k hk
  · have hl := plan_lookup hs h k
    rw [if_pos ⟨hk, by omega⟩] at hl
    exact (renumPlan_ok ks a b c ch h).2.2.2.2 _ (key_of_lookup_some hl)

theorem renumMap_injOn (hs : ks.Pairwise (· < ·)) (hb : ∀ k ∈ ks, k ≤ maxLineNumber)
    (h : renumPlan ks a b c = .ok ch) :
    ∀ i ∈ ks, ∀ j ∈ ks, renumMap ch i = renumMap ch j → i = j := by
  intro i hi j hj e
  rcases Nat.lt_trichotomy i j with hlt | heq | hgt
  · have := renumMap_strictMono hs hb h i j hi hj hlt
    omega
  · exact heq
  · have := renumMap_strictMono hs hb h j i hj hi hgt
    omega

/-- what `RenumVisitor` does to an operand `(col, n)`: replaced by the new number when `n` names a
    renumbered line, left alone otherwise -/
theorem rewrite_plan (hs : ks.Pairwise (· < ·)) (h : renumPlan ks a b c = .ok ch) (r : Col × Nat) :
    Lex.rewrite ch r = if r.2 ∈ ks ∧ b ≤ r.2 then some (r.1, renumMap ch r.2) else none := by
  unfold Lex.rewrite
  rw [plan_lookup hs h]
  split <;> rfl

end Plan

/-! ### `rebuild` of lines that come in ascending order of their numbers -/

/-- inserting a key larger than all present ones appends -/
theorem insertSorted_append (n : Nat) (x : Line) :
    ∀ (s : List (Nat × Line)), (∀ p ∈ s, p.1 < n) → insertSorted n x s = s ++ [(n, x)]
  | [], _ => rfl
  | (k, y) :: r, h => by
    have hk : k < n := h (k, y) List.mem_cons_self
    unfold insertSorted
    rw [if_neg (by omega), if_neg (by omega),
      insertSorted_append n x r (fun p hp => h p (List.mem_cons_of_mem _ hp))]
    rfl

theorem rebuild_go_ascending : ∀ (ps acc : List (Nat × Line)), Sorted (acc ++ ps) →
    (∀ p ∈ ps, p.2.number = some p.1) →
    (ps.map (·.2)).foldl (fun acc line => match line.number with
      | some n => insertSorted n line acc
      | none => acc) acc = acc ++ ps
  | [], acc, _, _ => by simp
  | p :: ps, acc, hs, hc => by
    rw [List.map_cons, List.foldl_cons, hc p List.mem_cons_self]
    simp only
    have hlt : ∀ q ∈ acc, q.1 < p.1 := by
      intro q hq
      exact (List.pairwise_append.1 hs).2.2 q hq p List.mem_cons_self
    rw [insertSorted_append p.1 p.2 acc hlt]
    have e : acc ++ [(p.1, p.2)] ++ ps = acc ++ p :: ps := by simp
    rw [rebuild_go_ascending ps (acc ++ [(p.1, p.2)]) (by rw [e]; exact hs)
      (fun q hq => hc q (List.mem_cons_of_mem _ hq)), e]

/-- re-inserting, in order, lines whose numbers are strictly ascending gives back those lines in
    that order, each under its own number -/
theorem rebuild_ascending (ps : List (Nat × Line)) (hs : Sorted ps)
    (hc : ∀ p ∈ ps, p.2.number = some p.1) : rebuild (ps.map (·.2)) = ps := by
  have := rebuild_go_ascending ps [] (by simpa using hs) hc
  rw [List.nil_append] at this
  exact this

/-! ### the structure of the renumbered store -/

/-- the per-line function maps the line's own number through the plan (for lines that parse):
    what `Thm.C14.lineRenum_number` says of `Lex.lineRenum` -/
def NumberMapped (f : List (Nat × Nat) → Line → Line) : Prop :=
  ∀ (ch : List (Nat × Nat)) (line : Line) (ast : List Stmt),
    Parse.parse line.number line.tokens = .ok ast →
    (f ch line).number = line.number.map (renumMap ch)

theorem lineRenum_numberMapped : NumberMapped Lex.lineRenum := by
  intro ch line ast h
  unfold Lex.lineRenum
  simp only [h]
  have : (match line.number with
      | some n => (ch.lookup n).or (some n)
      | none => none) = line.number.map (renumMap ch) := by
    cases line.number with
    | none => rfl
    | some n => simp only [Option.map_some, renumMap]; cases ch.lookup n <;> simp
  split <;> exact this

/-- the renumbered store, for any per-line function that maps the line's own number -/
theorem renum_source_of {f : List (Nat × Nat) → Line → Line} (hf : NumberMapped f)
    {l l' : Listing} {a b c : Nat} (hl : WF l) (hp : AllParse l) (h : l.renum f a b c = .ok l') :
    ∃ ch, renumPlan (l.source.map (·.1)) a b c = .ok ch ∧
      l'.source = l.source.map (fun p => (renumMap ch p.1, f ch p.2)) ∧
      l'.indirectErrors = l.indirectErrors ∧ l'.directErrors = l.directErrors ∧
      l'.rooted = !l.source.isEmpty := by
  unfold Listing.renum at h
  cases hpl : renumPlan (l.source.map (·.1)) a b c with
  | error e => rw [hpl] at h; cases h
  | ok ch =>
    rw [hpl] at h
    simp only [bind, Except.bind, Except.ok.injEq] at h
    subst h
    refine ⟨ch, rfl, ?_, rfl, rfl, rfl⟩
    show rebuild (l.lines.map (f ch)) = _
    have hks := keys_pairwise hl
    have hkb := keys_bounded hl
    have e : l.lines.map (f ch) =
        (l.source.map (fun p => (renumMap ch p.1, f ch p.2))).map (·.2) := by
      unfold lines
      rw [List.map_map, List.map_map]
      rfl
    rw [e]
    apply rebuild_ascending
    · unfold Sorted
      rw [List.pairwise_map]
      apply List.Pairwise.imp_of_mem _ hl.sorted
      intro x y hx hy hxy
      exact renumMap_strictMono hks hkb hpl x.1 y.1 (List.mem_map.2 ⟨x, hx, rfl⟩)
        (List.mem_map.2 ⟨y, hy, rfl⟩) hxy
    · intro q hq
      obtain ⟨p, hpm, rfl⟩ := List.mem_map.1 hq
      obtain ⟨ast, hast⟩ := hp p hpm
      show (f ch p.2).number = some (renumMap ch p.1)
      rw [hf ch p.2 ast hast, hl.coherent p hpm]
      rfl

/-- RENUM maps the store line by line: the line numbered `k` is stored under `renumMap ch k` and
    becomes `Lex.lineRenum ch line`; nothing is added, dropped or reordered; the recorded compile
    errors are kept as they are (they are recomputed by the caller) -/
theorem renum_source {l l' : Listing} {a b c : Nat} (hl : WF l) (hp : AllParse l)
    (h : l.renum Lex.lineRenum a b c = .ok l') :
    ∃ ch, renumPlan (l.source.map (·.1)) a b c = .ok ch ∧
      l'.source = l.source.map (fun p => (renumMap ch p.1, Lex.lineRenum ch p.2)) ∧
      l'.indirectErrors = l.indirectErrors ∧ l'.directErrors = l.directErrors ∧
      l'.rooted = !l.source.isEmpty :=
  renum_source_of lineRenum_numberMapped hl hp h

theorem renum_lines {l l' : Listing} {a b c : Nat} (hl : WF l) (hp : AllParse l)
    (h : l.renum Lex.lineRenum a b c = .ok l') :
    ∃ ch, renumPlan (l.source.map (·.1)) a b c = .ok ch ∧
      l'.lines = l.lines.map (Lex.lineRenum ch) := by
  obtain ⟨ch, h1, h2, _⟩ := renum_source hl hp h
  refine ⟨ch, h1, ?_⟩
  unfold lines
  rw [h2, List.map_map, List.map_map]
  rfl

theorem renum_keys {l l' : Listing} {a b c : Nat} (hl : WF l) (hp : AllParse l)
    (h : l.renum Lex.lineRenum a b c = .ok l') :
    ∃ ch, renumPlan (l.source.map (·.1)) a b c = .ok ch ∧
      l'.source.map (·.1) = (l.source.map (·.1)).map (renumMap ch) := by
  obtain ⟨ch, h1, h2, _⟩ := renum_source hl hp h
  refine ⟨ch, h1, ?_⟩
  rw [h2, List.map_map, List.map_map]
  rfl

theorem renum_length {l l' : Listing} {a b c : Nat} (hl : WF l) (hp : AllParse l)
    (h : l.renum Lex.lineRenum a b c = .ok l') : l'.source.length = l.source.length := by
  obtain ⟨ch, _, h2, _⟩ := renum_source hl hp h
  rw [h2, List.length_map]

/-- the `i`-th line of the new store is the rewritten `i`-th line of the old one -/
theorem renum_getElem? {l l' : Listing} {a b c : Nat} (hl : WF l) (hp : AllParse l)
    (h : l.renum Lex.lineRenum a b c = .ok l') :
    ∃ ch, renumPlan (l.source.map (·.1)) a b c = .ok ch ∧
      ∀ i : Nat, l'.source[i]? = (l.source[i]?).map (fun p : Nat × Line => (renumMap ch p.1, Lex.lineRenum ch p.2)) := by
  obtain ⟨ch, h1, h2, _⟩ := renum_source hl hp h
  refine ⟨ch, h1, fun i => ?_⟩
  rw [h2, List.getElem?_map]

/-- RENUM with the real `Line::renum` keeps the store invariant -/
theorem wf_renum_full {l l' : Listing} {a b c : Nat} (hl : WF l) (hp : AllParse l)
    (h : l.renum Lex.lineRenum a b c = .ok l') : WF l' := by
  obtain ⟨s1, s2⟩ := renum_sorted _ l l' a b c h
  refine ⟨s1, ?_, s2⟩
  obtain ⟨ch, h1, h2, _⟩ := renum_source hl hp h
  intro q hq
  rw [h2] at hq
  obtain ⟨p, hpm, rfl⟩ := List.mem_map.1 hq
  exact renumMap_le (keys_pairwise hl) (keys_bounded hl) h1 p.1 (List.mem_map.2 ⟨p, hpm, rfl⟩)

/-- the line a number refers to: line `n` of the old program is line `renumMap ch n` of the new one,
    rewritten -/
theorem renum_get? {l l' : Listing} {a b c : Nat} (hl : WF l) (hp : AllParse l)
    (h : l.renum Lex.lineRenum a b c = .ok l') :
    ∃ ch, renumPlan (l.source.map (·.1)) a b c = .ok ch ∧
      ∀ n x, l.get? n = some x → l'.get? (renumMap ch n) = some (Lex.lineRenum ch x) := by
  obtain ⟨ch, h1, h2, _⟩ := renum_source hl hp h
  refine ⟨ch, h1, ?_⟩
  intro n x hx
  have hs' : Sorted l'.source := (renum_sorted _ l l' a b c h).1
  have hm : (n, x) ∈ l.source := (mem_iff_look hl.sorted n x).2 hx
  apply (mem_iff_look hs' _ _).1
  rw [h2]
  exact List.mem_map.2 ⟨(n, x), hm, rfl⟩

/-! ### tokens change only at line-number operands that name a renumbered line -/

/-- what RENUM does to the operand `(col, n)` of a statement: it is replaced by the new number when
    `n` names a line of the program numbered `≥ b`, and left alone otherwise -/
def operandRewrite (ks : List Nat) (b : Nat) (ch : List (Nat × Nat)) (r : Col × Nat) :
    Option (Col × Nat) :=
  if r.2 ∈ ks ∧ b ≤ r.2 then some (r.1, renumMap ch r.2) else none

/-- the replacements made in a line with the AST `ast`: its operands that name a renumbered line,
    in visiting order, with the new numbers -/
def renumReps (ks : List Nat) (b : Nat) (ch : List (Nat × Nat)) (ast : List Stmt) :
    List (Col × Nat) :=
  (Lex.operandsStmts ast).filterMap (operandRewrite ks b ch)

theorem rewrite_eq_operandRewrite {ks : List Nat} {a b c : Nat} {ch : List (Nat × Nat)}
    (hs : ks.Pairwise (· < ·)) (h : renumPlan ks a b c = .ok ch) :
    Lex.rewrite ch = operandRewrite ks b ch := by
  funext r
  exact rewrite_plan hs h r

theorem renumReps_eq_nil_iff (ks : List Nat) (b : Nat) (ch : List (Nat × Nat)) (ast : List Stmt) :
    renumReps ks b ch ast = [] ↔ ∀ r ∈ Lex.operandsStmts ast, ¬ (r.2 ∈ ks ∧ b ≤ r.2) := by
  unfold renumReps
  rw [List.filterMap_eq_nil_iff]
  constructor
  · intro h r hr hk
    have := h r hr
    unfold operandRewrite at this
    rw [if_pos hk] at this
    cases this
  · intro h r hr
    unfold operandRewrite
    rw [if_neg (h r hr)]

/-- one line under a successful plan for the line numbers `ks`: if no operand names a renumbered
    line the tokens are unchanged; otherwise they are the lexing of the listed text in which
    exactly those operands have been replaced by the digits of the new numbers -/
theorem lineRenum_tokens_plan {ks : List Nat} {a b c : Nat} {ch : List (Nat × Nat)}
    (hs : ks.Pairwise (· < ·)) (h : renumPlan ks a b c = .ok ch) (line : Line) (ast : List Stmt)
    (hast : Parse.parse line.number line.tokens = .ok ast) :
    (Lex.lineRenum ch line).tokens =
      if renumReps ks b ch ast = [] then line.tokens
      else (Lex.lex (Lex.applyReplacements (renumReps ks b ch ast) (printTokens line.tokens))).2 := by
  have hv : Lex.visitStmts ch ast = renumReps ks b ch ast := by
    rw [Lex.visitStmts_eq, rewrite_eq_operandRewrite hs h]
    rfl
  unfold Lex.lineRenum
  simp only [hast, hv]
  cases hr : renumReps ks b ch ast with
  | nil => simp
  | cons x xs => simp

/-- a line without line-number operands: only its own number changes -/
theorem lineRenum_no_operands (ch : List (Nat × Nat)) (line : Line) (ast : List Stmt)
    (h : Parse.parse line.number line.tokens = .ok ast) (hno : Lex.operandsStmts ast = []) :
    Lex.lineRenum ch line = ⟨line.number.map (renumMap ch), line.tokens⟩ := by
  have h1 := lineRenum_numberMapped ch line ast h
  have hv : Lex.visitStmts ch ast = [] := by rw [Lex.visitStmts_eq, hno]; rfl
  have h2 : (Lex.lineRenum ch line).tokens = line.tokens := by
    unfold Lex.lineRenum
    simp only [h, hv, List.isEmpty_nil, if_true]
  cases hx : Lex.lineRenum ch line with
  | mk n t =>
    rw [hx] at h1 h2
    simp only at h1 h2
    rw [h1, h2]

/-- RENUM changes the tokens of a line only at its line-number operands that name a renumbered line
    (a line of the program numbered `≥ b`) -/
theorem renum_tokens {l l' : Listing} {a b c : Nat} (hl : WF l) (hp : AllParse l)
    (h : l.renum Lex.lineRenum a b c = .ok l') :
    ∃ ch, renumPlan (l.source.map (·.1)) a b c = .ok ch ∧
      l'.lines = l.lines.map (Lex.lineRenum ch) ∧
      ∀ p ∈ l.source, ∀ ast, Parse.parse p.2.number p.2.tokens = .ok ast →
        ((∀ r ∈ Lex.operandsStmts ast, ¬ (r.2 ∈ l.source.map (·.1) ∧ b ≤ r.2)) →
          (Lex.lineRenum ch p.2).tokens = p.2.tokens) ∧
        ((∃ r ∈ Lex.operandsStmts ast, r.2 ∈ l.source.map (·.1) ∧ b ≤ r.2) →
          (Lex.lineRenum ch p.2).tokens =
            (Lex.lex (Lex.applyReplacements (renumReps (l.source.map (·.1)) b ch ast)
              (printTokens p.2.tokens))).2) := by
  obtain ⟨ch, h1, h2⟩ := renum_lines hl hp h
  refine ⟨ch, h1, h2, ?_⟩
  intro p _ ast hast
  have ht := lineRenum_tokens_plan (keys_pairwise hl) h1 p.2 ast hast
  constructor
  · intro hno
    rw [ht, if_pos ((renumReps_eq_nil_iff _ _ _ _).2 hno)]
  · intro ⟨r, hr, hk⟩
    rw [ht, if_neg (fun hnil => (renumReps_eq_nil_iff _ _ _ _).1 hnil r hr hk)]

/-! ### references stay consistent -/

theorem idxOf_map_of_injOn (g : Nat → Nat) : ∀ (ks : List Nat) (n : Nat), n ∈ ks →
    (∀ x ∈ ks, ∀ y ∈ ks, g x = g y → x = y) → (ks.map g).idxOf (g n) = ks.idxOf n
  | [], _, h, _ => by cases h
  | k :: r, n, h, hinj => by
    rw [List.map_cons, List.idxOf_cons, List.idxOf_cons]
    by_cases hkn : k = n
    · subst hkn
      simp
    · have hg : g k ≠ g n := fun e => hkn (hinj k List.mem_cons_self n h e)
      have h1 : (k == n) = false := by simpa using hkn
      have h2 : (g k == g n) = false := by simpa using hg
      rw [h1, h2]
      simp only [cond_false]
      have hn : n ∈ r := by
        rcases List.mem_cons.1 h with e | hr
        · exact absurd e.symm hkn
        · exact hr
      rw [idxOf_map_of_injOn g r n hn
        (fun x hx y hy => hinj x (List.mem_cons_of_mem _ hx) y (List.mem_cons_of_mem _ hy))]

/-- a line number that names a line of the old program names, after `renumMap`, the line at the
    same position of the new program -/
theorem renum_position {l l' : Listing} {a b c : Nat} (hl : WF l) (hp : AllParse l)
    (h : l.renum Lex.lineRenum a b c = .ok l') :
    ∃ ch, renumPlan (l.source.map (·.1)) a b c = .ok ch ∧
      ∀ n ∈ l.source.map (·.1),
        renumMap ch n ∈ l'.source.map (·.1) ∧
        (l'.source.map (·.1)).idxOf (renumMap ch n) = (l.source.map (·.1)).idxOf n ∧
        ∀ i : Nat, (l.source.map (·.1))[i]? = some n →
          (l'.source.map (·.1))[i]? = some (renumMap ch n) := by
  obtain ⟨ch, h1, h2⟩ := renum_keys hl hp h
  refine ⟨ch, h1, ?_⟩
  intro n hn
  rw [h2]
  refine ⟨List.mem_map.2 ⟨n, hn, rfl⟩, ?_, ?_⟩
  · exact idxOf_map_of_injOn _ _ n hn (renumMap_injOn (keys_pairwise hl) (keys_bounded hl) h1)
  · intro i hi
    rw [List.getElem?_map, hi]
    rfl

/-- references are consistent: a line-number operand `(col, n)` of a line of the program that names
    an existing line names, once rewritten, the line at the same position of the renumbered program
    (which by `renum_source` is the rewritten old line `n`); the operand is rewritten to
    `renumMap ch n` exactly when `n ≥ b`, and otherwise is left alone and `renumMap ch n = n`.
    An operand that names no line (dangling) is never rewritten. -/
theorem renum_refs_consistent {l l' : Listing} {a b c : Nat} (hl : WF l) (hp : AllParse l)
    (h : l.renum Lex.lineRenum a b c = .ok l') :
    ∃ ch, renumPlan (l.source.map (·.1)) a b c = .ok ch ∧
      ∀ p ∈ l.source, ∀ ast, Parse.parse p.2.number p.2.tokens = .ok ast →
        ∀ r ∈ Lex.operandsStmts ast,
          (r.2 ∈ l.source.map (·.1) →
            renumMap ch r.2 ∈ l'.source.map (·.1) ∧
            (l'.source.map (·.1)).idxOf (renumMap ch r.2) = (l.source.map (·.1)).idxOf r.2 ∧
            (∀ x, l.get? r.2 = some x → l'.get? (renumMap ch r.2) = some (Lex.lineRenum ch x)) ∧
            (b ≤ r.2 → Lex.rewrite ch r = some (r.1, renumMap ch r.2)) ∧
            (r.2 < b → Lex.rewrite ch r = none ∧ renumMap ch r.2 = r.2)) ∧
          (r.2 ∉ l.source.map (·.1) → Lex.rewrite ch r = none ∧ renumMap ch r.2 = r.2) := by
  obtain ⟨ch, h1, hpos⟩ := renum_position hl hp h
  obtain ⟨ch', h1', hget⟩ := renum_get? hl hp h
  have : ch' = ch := by
    rw [h1] at h1'
    cases h1'
    rfl
  subst this
  refine ⟨ch', h1, ?_⟩
  intro p _ ast _ r _
  have hrw := rewrite_plan (keys_pairwise hl) h1 r
  constructor
  · intro hk
    obtain ⟨i1, i2, _⟩ := hpos r.2 hk
    refine ⟨i1, i2, fun x hx => hget r.2 x hx, ?_, ?_⟩
    · intro hb
      rw [hrw, if_pos ⟨hk, hb⟩]
    · intro hb
      refine ⟨?_, renumMap_kept h1 hb⟩
      rw [hrw, if_neg (fun hh => by omega)]
  · intro hk
    refine ⟨?_, renumMap_not_key h1 hk⟩
    rw [hrw, if_neg (fun hh => hk hh.1)]

/-! ### failure: no new listing; RENUM fails exactly when the plan fails -/

theorem renum_error_eq (f : List (Nat × Nat) → Line → Line) (l : Listing) (a b c : Nat) (e : Error) :
    l.renum f a b c = .error e ↔ renumPlan (l.source.map (·.1)) a b c = .error e := by
  unfold Listing.renum
  cases renumPlan (l.source.map (·.1)) a b c with
  | error e' => simp [bind, Except.bind]
  | ok ch => simp [bind, Except.bind]

theorem renum_error_iff (f : List (Nat × Nat) → Line → Line) (l : Listing) (a b c : Nat) :
    (∃ e, l.renum f a b c = .error e) ↔ (∃ e, renumPlan (l.source.map (·.1)) a b c = .error e) := by
  constructor
  · intro ⟨e, h⟩; exact ⟨e, (renum_error_eq f l a b c e).1 h⟩
  · intro ⟨e, h⟩; exact ⟨e, (renum_error_eq f l a b c e).2 h⟩

theorem renum_ok_iff (f : List (Nat × Nat) → Line → Line) (l : Listing) (a b c : Nat) :
    (∃ l', l.renum f a b c = .ok l') ↔ (∃ ch, renumPlan (l.source.map (·.1)) a b c = .ok ch) := by
  unfold Listing.renum
  cases renumPlan (l.source.map (·.1)) a b c with
  | error e' => simp [bind, Except.bind]
  | ok ch => simp [bind, Except.bind]

/-- a step of 0 is refused, whatever the program -/
theorem renum_step_zero (f : List (Nat × Nat) → Line → Line) (l : Listing) (a b : Nat) :
    l.renum f a b 0 = err Code.illegalFunctionCall := by
  unfold Listing.renum
  rw [renumPlan_step_zero]
  rfl

/-! ### when the plan fails (for strictly ascending line numbers `≤ 65529`) -/

/-- every new number fits: the `i`-th renumbered line gets `n + c * i`, which must be a line number,
    and the loop's `new_num += step` must not overflow `u16` -/
def NumbersFit (n c m : Nat) : Prop :=
  ∀ i, i < m → n + c * i ≤ maxLineNumber ∧ n + c * i + c ≤ 65535

theorem numbersFit_succ (n c m : Nat) :
    NumbersFit n c (m + 1) ↔ (n ≤ maxLineNumber ∧ n + c ≤ 65535) ∧ NumbersFit (n + c) c m := by
  unfold NumbersFit
  constructor
  · intro h
    refine ⟨by simpa using h 0 (by omega), ?_⟩
    intro i hi
    have := h (i + 1) (by omega)
    rw [Nat.mul_succ] at this
    omega
  · intro ⟨h0, h⟩ i hi
    cases i with
    | zero => simpa using h0
    | succ j =>
      have := h j (by omega)
      rw [Nat.mul_succ]
      omega

/-- only the last new number matters -/
theorem numbersFit_iff_last (n c m : Nat) :
    NumbersFit n c m ↔ m = 0 ∨ (n + c * (m - 1) ≤ maxLineNumber ∧ n + c * m ≤ 65535) := by
  unfold NumbersFit
  constructor
  · intro h
    cases m with
    | zero => exact Or.inl rfl
    | succ k =>
      right
      have := h k (by omega)
      rw [Nat.mul_succ]
      simp only [Nat.add_sub_cancel]
      omega
  · rintro (h | h)
    · intro i hi; omega
    · intro i hi
      have h1 : c * i ≤ c * (m - 1) := Nat.mul_le_mul_left c (by omega)
      have h2 : c * (m - 1) + c = c * m := by
        have : m = (m - 1) + 1 := by omega
        rw [this, Nat.mul_succ]
        simp
      omega

/-- the lines kept (numbered below `b`) lie below the first new number `a`, as does `oldEnd` if it
    already holds a line number -/
def NoCollision (a b : Nat) (ks : List Nat) (oldEnd : Nat) : Prop :=
  (oldEnd ≤ maxLineNumber → oldEnd < a) ∧ ∀ k ∈ ks, k < b → k < a

/-- loop invariant of `renumGo` over ascending keys: `oldEnd` is still the initial mark, or it is a
    line number below all remaining keys -/
def EndInv (oldEnd : Nat) (ks : List Nat) : Prop :=
  oldEnd = endMark ∨ (oldEnd ≤ maxLineNumber ∧ ∀ k ∈ ks, oldEnd < k)

theorem endInv_tail {oldEnd ln : Nat} {r : List Nat} (h : EndInv oldEnd (ln :: r)) : EndInv oldEnd r := by
  rcases h with h | ⟨h1, h2⟩
  · exact Or.inl h
  · exact Or.inr ⟨h1, fun k hk => h2 k (List.mem_cons_of_mem _ hk)⟩

theorem renumGo_cons_ge {a b c ln : Nat} (r : List Nat) (oldEnd newNum : Nat) (hge : ln ≥ b) :
    renumGo a b c (ln :: r) oldEnd newNum =
      if oldEnd ≤ maxLineNumber ∧ oldEnd ≥ a then err Code.illegalFunctionCall
      else if newNum > maxLineNumber then err Code.overflow
      else if newNum + c > 65535 then err Code.overflow
      else (renumGo a b c r oldEnd (newNum + c)).map (fun rest => (ln, newNum) :: rest) := by
  rw [renumGo, if_pos hge]
  split
  · rfl
  · split
    · rfl
    · split
      · rfl
      · cases renumGo a b c r oldEnd (newNum + c) <;> rfl

theorem renumGo_cons_lt {a b c ln : Nat} (r : List Nat) (oldEnd newNum : Nat) (hlt : ¬ ln ≥ b) :
    renumGo a b c (ln :: r) oldEnd newNum = renumGo a b c r ln newNum := by
  rw [renumGo, if_neg hlt]

/-- exactly when the loop of `renum` succeeds -/
theorem renumGo_ok_iff (a b c : Nat) : ∀ (ks : List Nat) (oldEnd newNum : Nat),
    ks.Pairwise (· < ·) → (∀ k ∈ ks, k ≤ maxLineNumber) → EndInv oldEnd ks →
    ((∃ ch, renumGo a b c ks oldEnd newNum = .ok ch) ↔
      (ks.filter (fun k => decide (k ≥ b)) = [] ∨
        (NoCollision a b ks oldEnd ∧
          NumbersFit newNum c (ks.filter (fun k => decide (k ≥ b))).length)))
  | [], _, _, _, _, _ => by
    simp [renumGo]
  | ln :: r, oldEnd, newNum, hs, hb, hinv => by
    obtain ⟨hs1, hs2⟩ := List.pairwise_cons.1 hs
    have hbr : ∀ k ∈ r, k ≤ maxLineNumber := fun k hk => hb k (List.mem_cons_of_mem _ hk)
    by_cases hge : ln ≥ b
    · have ih := renumGo_ok_iff a b c r oldEnd (newNum + c) hs2 hbr (endInv_tail hinv)
      have hrest : ∀ k ∈ r, ¬ k < b := fun k hk => by have := hs1 k hk; omega
      have hfc : (ln :: r).filter (fun k => decide (k ≥ b)) = ln :: r.filter (fun k => decide (k ≥ b)) :=
        List.filter_cons_of_pos (by simpa using hge)
      rw [renumGo_cons_ge r oldEnd newNum hge, hfc]
      simp only [List.length_cons, numbersFit_succ, reduceCtorEq, false_or]
      constructor
      · intro ⟨ch, h⟩
        split at h
        · cases h
        · rename_i hchk
          split at h
          · cases h
          · split at h
            · cases h
            · cases hr : renumGo a b c r oldEnd (newNum + c) with
              | error e => rw [hr] at h; cases h
              | ok rest =>
                refine ⟨⟨fun hle => by omega, ?_⟩, by omega, ?_⟩
                · intro k hk hkb
                  rcases List.mem_cons.1 hk with rfl | hk
                  · omega
                  · exact absurd hkb (hrest k hk)
                · rcases ih.1 ⟨rest, hr⟩ with h0 | h1
                  · rw [h0]
                    intro i hi
                    simp at hi
                  · exact h1.2
      · intro ⟨⟨hc1, _⟩, hfit0, hfit⟩
        have hok : ∃ rest, renumGo a b c r oldEnd (newNum + c) = .ok rest :=
          ih.2 (Or.inr ⟨⟨hc1, fun k hk hkb => absurd hkb (hrest k hk)⟩, hfit⟩)
        obtain ⟨rest, hr⟩ := hok
        rw [if_neg (by omega), if_neg (by omega), if_neg (by omega), hr]
        exact ⟨_, rfl⟩
    · have hlb : ln ≤ maxLineNumber := hb ln List.mem_cons_self
      have ih := renumGo_ok_iff a b c r ln newNum hs2 hbr (Or.inr ⟨hlb, hs1⟩)
      rw [renumGo_cons_lt r oldEnd newNum hge, List.filter_cons_of_neg (by simpa using hge), ih]
      constructor
      · rintro (h0 | ⟨⟨hc1, hc2⟩, hfit⟩)
        · exact Or.inl h0
        · refine Or.inr ⟨⟨?_, ?_⟩, hfit⟩
          · intro hle
            rcases hinv with h1 | ⟨_, h2⟩
            · simp only [endMark, maxLineNumber] at h1 hle; omega
            · have := h2 ln List.mem_cons_self
              have := hc1 hlb
              omega
          · intro k hk hkb
            rcases List.mem_cons.1 hk with rfl | hk
            · exact hc1 hlb
            · exact hc2 k hk hkb
      · rintro (h0 | ⟨⟨_, hc2⟩, hfit⟩)
        · exact Or.inl h0
        · exact Or.inr ⟨⟨fun _ => hc2 ln List.mem_cons_self (by omega),
            fun k hk hkb => hc2 k (List.mem_cons_of_mem _ hk) hkb⟩, hfit⟩

/-- the loop fails with `err` 5 (Illegal function call) or 6 (Overflow) only -/
theorem renumGo_error_cases (a b c : Nat) : ∀ (ks : List Nat) (oldEnd newNum : Nat) (e : Error),
    renumGo a b c ks oldEnd newNum = .error e →
    e = Error.mk' Code.illegalFunctionCall ∨ e = Error.mk' Code.overflow
  | [], _, _, _, h => by simp [renumGo] at h
  | ln :: r, oldEnd, newNum, e, h => by
    by_cases hge : ln ≥ b
    · rw [renumGo_cons_ge r oldEnd newNum hge] at h
      split at h
      · cases h; exact Or.inl rfl
      · split at h
        · cases h; exact Or.inr rfl
        · split at h
          · cases h; exact Or.inr rfl
          · cases hr : renumGo a b c r oldEnd (newNum + c) with
            | error e' =>
              rw [hr] at h
              cases h
              exact renumGo_error_cases a b c r oldEnd (newNum + c) e hr
            | ok rest => rw [hr] at h; cases h
    · rw [renumGo_cons_lt r oldEnd newNum hge] at h
      exact renumGo_error_cases a b c r ln newNum e h

/-- exactly when the loop reports a collision (new numbers would start at or below a kept line) -/
theorem renumGo_collision_iff (a b c : Nat) : ∀ (ks : List Nat) (oldEnd newNum : Nat),
    ks.Pairwise (· < ·) → (∀ k ∈ ks, k ≤ maxLineNumber) → EndInv oldEnd ks →
    (renumGo a b c ks oldEnd newNum = err Code.illegalFunctionCall ↔
      (ks.filter (fun k => decide (k ≥ b)) ≠ [] ∧ ¬ NoCollision a b ks oldEnd))
  | [], _, _, _, _, _ => by
    simp [renumGo, err]
  | ln :: r, oldEnd, newNum, hs, hb, hinv => by
    obtain ⟨hs1, hs2⟩ := List.pairwise_cons.1 hs
    have hbr : ∀ k ∈ r, k ≤ maxLineNumber := fun k hk => hb k (List.mem_cons_of_mem _ hk)
    by_cases hge : ln ≥ b
    · have ih := renumGo_collision_iff a b c r oldEnd (newNum + c) hs2 hbr (endInv_tail hinv)
      have hrest : ∀ k ∈ r, ¬ k < b := fun k hk => by have := hs1 k hk; omega
      have hfc : (ln :: r).filter (fun k => decide (k ≥ b)) = ln :: r.filter (fun k => decide (k ≥ b)) :=
        List.filter_cons_of_pos (by simpa using hge)
      rw [renumGo_cons_ge r oldEnd newNum hge, hfc]
      simp only [ne_eq, reduceCtorEq, not_false_eq_true, true_and]
      have hvac : ∀ k ∈ ln :: r, k < b → k < a := by
        intro k hk hkb
        rcases List.mem_cons.1 hk with rfl | hk
        · omega
        · exact absurd hkb (hrest k hk)
      by_cases hchk : oldEnd ≤ maxLineNumber ∧ oldEnd ≥ a
      · rw [if_pos hchk]
        simp only [true_iff]
        intro hc
        have := hc.1 hchk.1
        omega
      · rw [if_neg hchk]
        have hnc : NoCollision a b (ln :: r) oldEnd := ⟨fun hle => by omega, hvac⟩
        simp only [hnc, not_true_eq_false, iff_false]
        split
        · simp [err, Error.mk', Code.overflow, Code.illegalFunctionCall]
        · split
          · simp [err, Error.mk', Code.overflow, Code.illegalFunctionCall]
          · cases hr : renumGo a b c r oldEnd (newNum + c) with
            | ok rest => simp [Except.map, err]
            | error e =>
              intro h
              have he : renumGo a b c r oldEnd (newNum + c) = err Code.illegalFunctionCall := by
                rw [hr]
                simp only [Except.map] at h
                exact h
              have := (ih.1 he).2
              exact this ⟨hnc.1, fun k hk hkb => absurd hkb (hrest k hk)⟩
    · have hlb : ln ≤ maxLineNumber := hb ln List.mem_cons_self
      have ih := renumGo_collision_iff a b c r ln newNum hs2 hbr (Or.inr ⟨hlb, hs1⟩)
      rw [renumGo_cons_lt r oldEnd newNum hge, List.filter_cons_of_neg (by simpa using hge), ih]
      have hiff : NoCollision a b r ln ↔ NoCollision a b (ln :: r) oldEnd := by
        constructor
        · intro ⟨hc1, hc2⟩
          refine ⟨?_, ?_⟩
          · intro hle
            rcases hinv with h1 | ⟨_, h2⟩
            · simp only [endMark, maxLineNumber] at h1 hle; omega
            · have := h2 ln List.mem_cons_self
              have := hc1 hlb
              omega
          · intro k hk hkb
            rcases List.mem_cons.1 hk with rfl | hk
            · exact hc1 hlb
            · exact hc2 k hk hkb
        · intro ⟨_, hc2⟩
          exact ⟨fun _ => hc2 ln List.mem_cons_self (by omega),
            fun k hk hkb => hc2 k (List.mem_cons_of_mem _ hk) hkb⟩
      rw [hiff]

theorem endInv_start (ks : List Nat) : EndInv endMark ks := Or.inl rfl

theorem noCollision_start (a b : Nat) (ks : List Nat) :
    NoCollision a b ks endMark ↔ ∀ k ∈ ks, k < b → k < a := by
  unfold NoCollision
  constructor
  · exact fun h => h.2
  · intro h
    refine ⟨fun hle => ?_, h⟩
    simp only [endMark, maxLineNumber] at hle
    omega

theorem not_kept_below_iff (a b : Nat) (ks : List Nat) :
    (¬ ∀ k ∈ ks, k < b → k < a) ↔ ∃ k ∈ ks, k < b ∧ a ≤ k := by
  constructor
  · intro h
    apply Classical.byContradiction
    intro hn
    apply h
    intro k hk hkb
    apply Classical.byContradiction
    intro hka
    exact hn ⟨k, hk, hkb, by omega⟩
  · intro ⟨k, hk, hkb, hka⟩ h
    have := h k hk hkb
    omega

theorem not_numbersFit_iff (n c m : Nat) :
    ¬ NumbersFit n c m ↔ ∃ i, i < m ∧ (n + c * i > maxLineNumber ∨ n + c * i + c > 65535) := by
  unfold NumbersFit
  constructor
  · intro h
    apply Classical.byContradiction
    intro hn
    apply h
    intro i hi
    apply Classical.byContradiction
    intro hc
    exact hn ⟨i, hi, by omega⟩
  · intro ⟨i, hi, hc⟩ h
    have := h i hi
    omega

/-- RENUM's plan succeeds exactly when the step is not 0 and — if there is a line to renumber at
    all — the kept lines (numbered below `b`) all lie below the first new number `a` and every new
    number `a + c * i` fits (`≤ 65529`, and `+ c` does not overflow `u16`) -/
theorem renumPlan_ok_iff {ks : List Nat} (hs : ks.Pairwise (· < ·))
    (hb : ∀ k ∈ ks, k ≤ maxLineNumber) (a b c : Nat) :
    (∃ ch, renumPlan ks a b c = .ok ch) ↔
      c ≠ 0 ∧ (ks.filter (fun k => decide (k ≥ b)) = [] ∨
        ((∀ k ∈ ks, k < b → k < a) ∧
          NumbersFit a c (ks.filter (fun k => decide (k ≥ b))).length)) := by
  unfold renumPlan
  by_cases hc : c = 0
  · simp [hc, err]
  · rw [if_neg hc, renumGo_ok_iff a b c ks endMark a hs hb (endInv_start ks), noCollision_start]
    simp [hc]

/-- the plan fails with "Illegal function call" exactly for a step of 0 or when a kept line lies at
    or above the first new number (the renumbered lines would collide with / overtake it) -/
theorem renumPlan_collision_iff {ks : List Nat} (hs : ks.Pairwise (· < ·))
    (hb : ∀ k ∈ ks, k ≤ maxLineNumber) (a b c : Nat) :
    renumPlan ks a b c = err Code.illegalFunctionCall ↔
      c = 0 ∨ (ks.filter (fun k => decide (k ≥ b)) ≠ [] ∧ ∃ k ∈ ks, k < b ∧ a ≤ k) := by
  unfold renumPlan
  by_cases hc : c = 0
  · simp [hc]
  · rw [if_neg hc, renumGo_collision_iff a b c ks endMark a hs hb (endInv_start ks),
      noCollision_start, not_kept_below_iff]
    simp [hc]

theorem renumPlan_error_cases (ks : List Nat) (a b c : Nat) (e : Error)
    (h : renumPlan ks a b c = .error e) :
    e = Error.mk' Code.illegalFunctionCall ∨ e = Error.mk' Code.overflow := by
  unfold renumPlan at h
  split at h
  · cases h; exact Or.inl rfl
  · exact renumGo_error_cases a b c ks endMark a e h

/-- the plan fails with "Overflow" exactly when the step is not 0, there is a line to renumber, no
    kept line is in the way, and some new number does not fit -/
theorem renumPlan_overflow_iff {ks : List Nat} (hs : ks.Pairwise (· < ·))
    (hb : ∀ k ∈ ks, k ≤ maxLineNumber) (a b c : Nat) :
    renumPlan ks a b c = err Code.overflow ↔
      c ≠ 0 ∧ ks.filter (fun k => decide (k ≥ b)) ≠ [] ∧ (∀ k ∈ ks, k < b → k < a) ∧
        ∃ i, i < (ks.filter (fun k => decide (k ≥ b))).length ∧
          (a + c * i > maxLineNumber ∨ a + c * i + c > 65535) := by
  have hok := renumPlan_ok_iff hs hb a b c
  have hcol := renumPlan_collision_iff hs hb a b c
  have hne : (err Code.overflow : Res (List (Nat × Nat))) ≠ err Code.illegalFunctionCall := by
    simp [err, Error.mk', Code.overflow, Code.illegalFunctionCall]
  rw [← not_numbersFit_iff]
  constructor
  · intro h
    have h1 : ¬ ∃ ch, renumPlan ks a b c = .ok ch := by
      intro ⟨ch, hch⟩
      rw [h] at hch
      cases hch
    have h2 : ¬ renumPlan ks a b c = err Code.illegalFunctionCall := by
      rw [h]; exact hne
    rw [hok] at h1
    rw [hcol, not_or] at h2
    have hc : c ≠ 0 := h2.1
    have hf : ks.filter (fun k => decide (k ≥ b)) ≠ [] := fun e => h1 ⟨hc, Or.inl e⟩
    have hk : ∀ k ∈ ks, k < b → k < a := by
      apply Classical.byContradiction
      intro hn
      exact h2.2 ⟨hf, (not_kept_below_iff a b ks).1 hn⟩
    exact ⟨hc, hf, hk, fun hfit => h1 ⟨hc, Or.inr ⟨hk, hfit⟩⟩⟩
  · intro ⟨hc, hf, hk, hfit⟩
    cases hr : renumPlan ks a b c with
    | ok ch =>
      exfalso
      rcases (hok.1 ⟨ch, hr⟩).2 with h0 | h1
      · exact hf h0
      · exact hfit h1.2
    | error e =>
      rcases renumPlan_error_cases ks a b c e hr with rfl | rfl
      · exfalso
        rcases hcol.1 hr with h0 | ⟨_, k, hk1, hk2, hk3⟩
        · exact hc h0
        · have := hk k hk1 hk2
          omega
      · rfl

/-- when RENUM's plan fails -/
theorem renumPlan_error_iff {ks : List Nat} (hs : ks.Pairwise (· < ·))
    (hb : ∀ k ∈ ks, k ≤ maxLineNumber) (a b c : Nat) :
    (∃ e, renumPlan ks a b c = .error e) ↔
      c = 0 ∨ (ks.filter (fun k => decide (k ≥ b)) ≠ [] ∧
        ((∃ k ∈ ks, k < b ∧ a ≤ k) ∨
          ∃ i, i < (ks.filter (fun k => decide (k ≥ b))).length ∧
            (a + c * i > maxLineNumber ∨ a + c * i + c > 65535))) := by
  constructor
  · intro ⟨e, he⟩
    rcases renumPlan_error_cases ks a b c e he with rfl | rfl
    · rcases (renumPlan_collision_iff hs hb a b c).1 he with h | h
      · exact Or.inl h
      · exact Or.inr ⟨h.1, Or.inl h.2⟩
    · obtain ⟨_, h1, _, h3⟩ := (renumPlan_overflow_iff hs hb a b c).1 he
      exact Or.inr ⟨h1, Or.inr h3⟩
  · intro h
    cases hr : renumPlan ks a b c with
    | error e => exact ⟨e, rfl⟩
    | ok ch =>
      exfalso
      obtain ⟨hc, h2⟩ := (renumPlan_ok_iff hs hb a b c).1 ⟨ch, hr⟩
      rcases h with h | ⟨hf, h⟩
      · exact hc h
      · rcases h2 with h2 | ⟨hk, hfit⟩
        · exact hf h2
        · rcases h with ⟨k, hk1, hk2, hk3⟩ | h
          · have := hk k hk1 hk2
            omega
          · exact (not_numbersFit_iff _ _ _).2 h hfit

/-- RENUM on a well-formed store fails exactly when the step is 0, or there is a line numbered
    `≥ b` and either some line below `b` is numbered `≥ a`, or a new number does not fit;
    the store is then not replaced (there is no new listing) -/
theorem renum_fails_iff (f : List (Nat × Nat) → Line → Line) {l : Listing} (hl : WF l) (a b c : Nat) :
    (∃ e, l.renum f a b c = .error e) ↔
      c = 0 ∨ ((l.source.map (·.1)).filter (fun k => decide (k ≥ b)) ≠ [] ∧
        ((∃ k ∈ l.source.map (·.1), k < b ∧ a ≤ k) ∨
          ∃ i, i < ((l.source.map (·.1)).filter (fun k => decide (k ≥ b))).length ∧
            (a + c * i > maxLineNumber ∨ a + c * i + c > 65535))) := by
  rw [renum_error_iff, renumPlan_error_iff (keys_pairwise hl) (keys_bounded hl)]

/-- the three ways to fail, with their error codes -/
theorem renum_collision (f : List (Nat × Nat) → Line → Line) {l : Listing} (hl : WF l) {a b c k j : Nat}
    (hk : k ∈ l.source.map (·.1)) (hkb : k < b) (hka : a ≤ k)
    (hj : j ∈ l.source.map (·.1)) (hjb : b ≤ j) :
    l.renum f a b c = err Code.illegalFunctionCall := by
  have hne : (l.source.map (·.1)).filter (fun k => decide (k ≥ b)) ≠ [] := by
    intro e
    have : j ∈ (l.source.map (·.1)).filter (fun k => decide (k ≥ b)) :=
      List.mem_filter.2 ⟨hj, by simpa using hjb⟩
    rw [e] at this
    cases this
  exact (renum_error_eq f l a b c _).2
    ((renumPlan_collision_iff (keys_pairwise hl) (keys_bounded hl) a b c).2
      (Or.inr ⟨hne, k, hk, hkb, hka⟩))

theorem renum_overflow (f : List (Nat × Nat) → Line → Line) {l : Listing} (hl : WF l) {a b c i : Nat}
    (hc : c ≠ 0) (hkept : ∀ k ∈ l.source.map (·.1), k < b → k < a)
    (hi : i < ((l.source.map (·.1)).filter (fun k => decide (k ≥ b))).length)
    (hbig : a + c * i > maxLineNumber ∨ a + c * i + c > 65535) :
    l.renum f a b c = err Code.overflow := by
  have hne : (l.source.map (·.1)).filter (fun k => decide (k ≥ b)) ≠ [] := by
    intro e
    rw [e] at hi
    simp at hi
  exact (renum_error_eq f l a b c _).2
    ((renumPlan_overflow_iff (keys_pairwise hl) (keys_bounded hl) a b c).2
      ⟨hc, hne, hkept, i, hi, hbig⟩)

end Listing
end Basic
