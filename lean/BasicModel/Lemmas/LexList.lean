import BasicModel.Lemmas.LexCanon
import BasicModel.Lemmas.LexNumber
/-
  Whole lines: the iterator inverts the printer on canonical token lists.
-/
set_option linter.unusedSimpArgs false
namespace Basic
namespace Lex

/-- token lists whose printed text is lexed back token by token: every token printable, every
    token followed by text it cannot absorb; a remark marker may only be followed by the remark
    text (one `Unknown`), which after `REM` must not start with a letter, digit or type suffix -/
def CanonRaw : List Token → Prop
  | [] => True
  | t :: rest =>
    if t = .word .rem1 then rest = [] ∨ ∃ s, rest = [.unknown s] ∧ s ≠ [] ∧ AlphaBoundary s
    else if t = .word .rem2 then rest = [] ∨ ∃ s, rest = [.unknown s] ∧ s ≠ []
    else Printable t ∧ Follows t (printTokens rest) ∧ CanonRaw rest

theorem printTokens_cons (t : Token) (ts : List Token) : printTokens (t :: ts) = t.text ++ printTokens ts := by
  simp [printTokens]

theorem rawOf_rem (w : Word) : rawOf (.word w) = [.word w] := rfl

/-- the iterator inverts the printer on `CanonRaw` lists (comparison operators come back as their
    two halves; the post-passes put them together again) -/
theorem lexFrom_printTokens (ts : List Token) (h : CanonRaw ts) :
    lexFrom (printTokens ts) false = ts.flatMap rawOf := by
  induction ts with
  | nil => rfl
  | cons t rest ih =>
    rw [printTokens_cons, List.flatMap_cons]
    unfold CanonRaw at h
    by_cases h1 : t = .word .rem1
    · subst h1
      simp only [if_true] at h
      have hk : ∀ r, AlphaBoundary r →
          lexFrom ((Token.word Word.rem1).text ++ r) false = .word .rem1 :: lexFrom r true :=
        fun r hb => lexFrom_keyword ("REM".toList, .word .rem1) (by decide) r hb
      rcases h with h | ⟨s, h, hs, hb⟩
      · subst h
        rw [show printTokens [] = [] from rfl, hk [] (by intro c hc; simp at hc)]
        rfl
      · subst h
        rw [show printTokens [.unknown s] = s by simp [printTokens, Token.text], hk s hb,
          lexFrom_remark s hs]
        rfl
    · by_cases h2 : t = .word .rem2
      · subst h2
        simp only [h1, if_false, if_true] at h
        have hk : ∀ r, lexFrom ((Token.word Word.rem2).text ++ r) false = .word .rem2 :: lexFrom r true :=
          fun r => lexFrom_minutia '\'' r _ rfl
        rcases h with h | ⟨s, h, hs⟩
        · subst h; rw [show printTokens [] = [] from rfl, hk]; rfl
        · subst h
          rw [show printTokens [.unknown s] = s by simp [printTokens, Token.text], hk, lexFrom_remark s hs]
          rfl
      · simp only [h1, h2, if_false] at h
        obtain ⟨hp, hf, hc⟩ := h
        rw [lexFrom_token t _ hp hf h1 h2, ih hc]

/-- the text of a direct line starts with a character that is neither a digit nor a blank -/
def StartsPlain (cs : List Char) : Prop := ∀ c ∈ cs.head?, isDigit c = false ∧ isWs c = false

instance (cs : List Char) : Decidable (StartsPlain cs) := by
  unfold StartsPlain; infer_instance

/-- canonical token lists: lexed back token by token, and left alone by the four post-passes -/
def Canon (ts : List Token) : Prop := CanonRaw ts ∧ postPasses (ts.flatMap rawOf) = ts

theorem lex_print_direct (ts : List Token) (h : Canon ts) (h0 : StartsPlain (printTokens ts)) :
    lex (printLine none ts) = (none, ts) := by
  obtain ⟨hr, hp⟩ := h
  simp only [printLine]
  cases hh : printTokens ts with
  | nil =>
    have := lexFrom_printTokens ts hr
    rw [hh] at this
    simp only [lex, splitLineNumber_nil, rawTokens_eq, this, hp]
  | cons c cs =>
    obtain ⟨hd, hw⟩ := h0 c (by simp [hh])
    rw [lex_plain c cs hd hw, ← hh, lexFrom_printTokens ts hr, hp]

theorem lex_print_numbered (n : Nat) (hn : n ≤ 65529) (ts : List Token) (h : Canon ts) :
    lex (printLine (some n) ts) = (some n, ts) := by
  obtain ⟨hr, hp⟩ := h
  simp only [printLine, lex, splitLineNumber_listed n hn, rawTokens_eq, lexFrom_printTokens ts hr, hp]

end Lex
end Basic
