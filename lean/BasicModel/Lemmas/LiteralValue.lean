import BasicModel.Lemmas.LiteralTy
/-
  Literal values (C02): what `Expression::literal` (`Parse.literal`) makes of the token of a
  well-formed numeral.

  * `numText_text` — the text handed to `str::parse`: the spelling without its type suffix, the exponent
    letter `D` read as `E`;
  * `parseDecimal_numeral` — `dec2flt`'s grammar accepts it (when the mantissa has a digit) and reads
    mantissa digits `m`, decimal exponent `e`: the float is `Fmt.roundDecimal` (nearest, ties to even)
    of `m · 10^e`; floats stay bit patterns, nothing is evaluated;
  * `parseI16_readText` — the Integer reading: the value of a plain digit string when it is at most
    32767, otherwise (too big, or a fraction / exponent under a `%` suffix) no Integer: TYPE MISMATCH;
  * `parseI16Radix_digits` — `&H…` / `&…`: the value when at most 32767 (`&H7FFF`), otherwise — from
    `&H8000` on, and for the empty digit string — OVERFLOW.  There is no two's-complement wrap.
-/
set_option linter.unusedSimpArgs false
namespace Basic
namespace Lex
open Spec

theorem numText_eq (s : Str) : Parse.numText s =
    if ((s.map fun c => if c = 'D' then 'E' else c).getLast?.any isNumSuffix) = true
    then (s.map fun c => if c = 'D' then 'E' else c).dropLast
    else (s.map fun c => if c = 'D' then 'E' else c) := by
  unfold Parse.numText
  simp only []
  split
  · rename_i h; simp [h, isNumSuffix]
  · rename_i h; simp [h, isNumSuffix]
  · rename_i h; simp [h, isNumSuffix]
  · rename_i h1 h2 h3
    cases hl : (List.map (fun c => if c = 'D' then 'E' else c) s).getLast? with
    | none => simp
    | some k =>
      have a : k ≠ '!' := by rintro rfl; exact h1 hl
      have b : k ≠ '#' := by rintro rfl; exact h2 hl
      have c : k ≠ '%' := by rintro rfl; exact h3 hl
      simp [isNumSuffix, a, b, c]

theorem takeDigits_append (ds rest : Str) (hd : AllDigits ds)
    (hr : ∀ c ∈ rest.head?, Fmt.isDigit c = false) : Fmt.takeDigits (ds ++ rest) = (ds, rest) := by
  induction ds with
  | nil =>
    cases rest with
    | nil => rfl
    | cons c r => simp [Fmt.takeDigits, hr c (by simp)]
  | cons c cs ih =>
    have hc : Fmt.isDigit c = true := by rw [fmt_isDigit_eq]; exact hd c (by simp)
    simp [Fmt.takeDigits, hc, ih (fun x hx => hd x (by simp [hx]))]

/-- the digits of the fraction part -/
def fracDigits : Option (List Char) → Str
  | some f => f
  | none => []

/-- the exponent as `dec2flt` reads it -/
def expoRead : Option Exponent → Str
  | some x => 'E' :: (x.sign ++ x.digits)
  | none => []

def expoVal : Option Exponent → Int
  | some x =>
    let ev : Int := if x.digits.length > 6 then 1000000 else (Fmt.digitsToNat x.digits : Int)
    if x.sign = ['-'] then -ev else ev
  | none => 0


theorem toLower_of_not_upper (c : Char) (h : ¬ (65 ≤ c.toNat ∧ c.toNat ≤ 90)) : c.toLower = c := by
  unfold Char.toLower
  split
  · rename_i hh; simp [UInt32.le_iff_toNat_le] at hh; exact absurd hh h
  · rfl

/-- the sign of the exponent -/
def signSplit (r : Str) : Bool × Str :=
  match r with
  | '-' :: r' => (true, r')
  | '+' :: r' => (false, r')
  | _ => (false, r)

/-- the part of `parseDecimal` after the sign and the `inf` / `nan` words -/
def parseMantExp (s : Str) : Option Fmt.Parsed :=
    let (ip, r1) := Fmt.takeDigits s
    let (fp, r2, hadDot) := match r1 with
      | '.' :: r => let (f, r') := Fmt.takeDigits r; (f, r', true)
      | _ => ([], r1, false)
    let _ := hadDot
    if ip.isEmpty && fp.isEmpty then none
    else
      let mant := Fmt.digitsToNat (ip ++ fp)
      let nd := (ip ++ fp).length
      match r2 with
      | [] => some (.num false mant (-(fp.length : Int)) nd)
      | c :: r =>
        if c = 'e' || c = 'E' then
          let (eneg, r) := signSplit r
          let (ed, rest) := Fmt.takeDigits r
          if ed.isEmpty || !rest.isEmpty then none
          else
            let ev : Int := if ed.length > 6 then 1000000 else (Fmt.digitsToNat ed : Int)
            let ev := if eneg then -ev else ev
            some (.num false mant (ev - (fp.length : Int)) nd)
        else none

theorem parseDecimal_unsigned (c : Char) (cs : Str) (hc : isDigit c = true ∨ c = '.') :
    Fmt.parseDecimal (c :: cs) = parseMantExp (c :: cs) := by
  have hm : c ≠ '-' ∧ c ≠ '+' ∧ c.toLower ≠ 'i' ∧ c.toLower ≠ 'n' := by
    rcases hc with hc | rfl
    · have hl : c.toLower = c := toLower_of_not_upper c (by rw [isDigit_iff] at hc; omega)
      rw [hl]
      refine ⟨?_, ?_, ?_, ?_⟩ <;> exact ne_of_isDigit c _ hc (by decide)
    · decide
  obtain ⟨h1, h2, h3, h4⟩ := hm
  unfold Fmt.parseDecimal
  split
  rename_i neg s heq
  have : neg = false ∧ s = c :: cs := by
    split at heq
    · rename_i r' heq'; exact absurd (List.cons.inj heq').1 h1
    · rename_i r' heq'; exact absurd (List.cons.inj heq').1 h2
    · cases heq; exact ⟨rfl, rfl⟩
  obtain ⟨rfl, rfl⟩ := this
  have e1 : (Fmt.lower (c :: cs) = "inf".toList) = False := by
    simp [Fmt.lower, h3]
  have e2 : (Fmt.lower (c :: cs) = "infinity".toList) = False := by
    simp [Fmt.lower, h3]
  have e3 : (Fmt.lower (c :: cs) = "nan".toList) = False := by
    simp [Fmt.lower, h4]
  simp only [e1, e2, e3, decide_false, Bool.or_self, Bool.false_eq_true, if_false]
  rfl


theorem fmt_not_digit_E : Fmt.isDigit 'E' = false := by decide
theorem fmt_not_digit_dot : Fmt.isDigit '.' = false := by decide

theorem expoRead_head (expo : Option Exponent) : ∀ c ∈ (expoRead expo).head?, Fmt.isDigit c = false := by
  cases expo with
  | none => simp [expoRead]
  | some x => simp [expoRead, fmt_not_digit_E]

theorem expoRead_not_dot (expo : Option Exponent) : ∀ r, expoRead expo ≠ '.' :: r := by
  cases expo with
  | none => simp [expoRead]
  | some x => simp [expoRead]


theorem signMatch (sign digits : Str) (hs : sign = [] ∨ sign = ['+'] ∨ sign = ['-'])
    (hd : AllDigits digits) (hne : digits ≠ []) :
    signSplit (sign ++ digits) = (decide (sign = ['-']), digits) := by
  unfold signSplit
  rcases hs with rfl | rfl | rfl
  · cases digits with
    | nil => contradiction
    | cons d ds =>
      obtain ⟨-, -, -, -, -, -, -, -, hplus, hminus⟩ := isDigit_not_special (hd d (by simp))
      simp only [List.nil_append]
      split
      · rename_i r heq; exact absurd (List.cons.inj heq).1 hminus
      · rename_i r heq; exact absurd (List.cons.inj heq).1 hplus
      · simp
  · simp
  · simp

theorem parseMantExp_numeral (int : Str) (frac : Option (List Char)) (expo : Option Exponent)
    (h1 : AllDigits int) (h2 : ∀ f, frac = some f → AllDigits f) (h4 : ∀ x, expo = some x → x.WF)
    (hne : int ++ fracDigits frac ≠ []) :
    parseMantExp (int ++ fracText frac ++ expoRead expo) =
      some (.num false (Fmt.digitsToNat (int ++ fracDigits frac))
        (expoVal expo - ((fracDigits frac).length : Int)) (int ++ fracDigits frac).length) := by
  have hemp : (int.isEmpty && (fracDigits frac).isEmpty) = false := by
    cases int <;> cases hf : fracDigits frac <;> simp_all
  cases expo with
  | none =>
    cases frac with
    | none =>
      have ht := takeDigits_append int [] h1 (by simp)
      rw [List.append_nil] at ht
      simp only [fracDigits] at hemp
      unfold parseMantExp
      simp only [fracText, expoRead, List.append_nil, ht, fracDigits, hemp, expoVal]
      simp
    | some f =>
      have ht : Fmt.takeDigits (int ++ ('.' :: f)) = (int, '.' :: f) :=
        takeDigits_append int _ h1 (by simp [fmt_not_digit_dot])
      have ht2 := takeDigits_append f [] (h2 f rfl) (by simp)
      simp only [fracDigits] at hemp
      rw [List.append_nil] at ht2
      unfold parseMantExp
      simp only [fracText, expoRead, List.append_nil, ht, ht2, fracDigits, hemp, expoVal]
      simp
  | some x =>
    obtain ⟨-, hs, hd, hdne⟩ := h4 x rfl
    have hsm := signMatch x.sign x.digits hs hd hdne
    have ht3 := takeDigits_append x.digits [] hd (by simp)
    rw [List.append_nil] at ht3
    have hde : x.digits.isEmpty = false := by cases hx : x.digits <;> simp_all
    cases frac with
    | none =>
      have ht := takeDigits_append int ('E' :: (x.sign ++ x.digits)) h1 (by simp [fmt_not_digit_E])
      simp only [fracDigits] at hemp
      unfold parseMantExp
      simp only [fracText, expoRead, List.append_nil, ht, fracDigits, hemp, expoVal, hsm, ht3, hde]
      simp [hsm, ht3, hdne] at hemp ⊢
      exact hemp
    | some f =>
      have ht : Fmt.takeDigits (int ++ '.' :: (f ++ 'E' :: (x.sign ++ x.digits))) =
          (int, '.' :: (f ++ 'E' :: (x.sign ++ x.digits))) :=
        takeDigits_append int _ h1 (by simp [fmt_not_digit_dot])
      have ht2 := takeDigits_append f ('E' :: (x.sign ++ x.digits)) (h2 f rfl) (by simp [fmt_not_digit_E])
      simp only [fracDigits] at hemp
      unfold parseMantExp
      simp only [fracText, expoRead, List.append_assoc, List.cons_append, ht, ht2, fracDigits, hemp, expoVal,
        hsm, ht3, hde]
      simp


theorem parseDecimal_numeral (int : Str) (frac : Option (List Char)) (expo : Option Exponent)
    (h1 : AllDigits int) (h2 : ∀ f, frac = some f → AllDigits f) (h4 : ∀ x, expo = some x → x.WF)
    (hne : int ++ fracDigits frac ≠ []) :
    Fmt.parseDecimal (int ++ fracText frac ++ expoRead expo) =
      some (.num false (Fmt.digitsToNat (int ++ fracDigits frac))
        (expoVal expo - ((fracDigits frac).length : Int)) (int ++ fracDigits frac).length) := by
  have hhead : ∃ c cs, int ++ fracText frac ++ expoRead expo = c :: cs ∧ (isDigit c = true ∨ c = '.') := by
    cases int with
    | cons c cs => exact ⟨c, _, rfl, .inl (h1 c (by simp))⟩
    | nil =>
      cases frac with
      | none => simp [fracDigits] at hne
      | some f => exact ⟨'.', _, rfl, .inr rfl⟩
  obtain ⟨c, cs, e, hc⟩ := hhead
  rw [e, parseDecimal_unsigned c cs hc, ← e]
  exact parseMantExp_numeral int frac expo h1 h2 h4 hne

/-! ### the text `Expression::literal` parses -/

/-- what `str::parse` is given for a numeral: mantissa and exponent, the letter being `E` -/
def Numeral.readText (nm : Numeral) : Str := nm.int ++ fracText nm.frac ++ expoRead nm.expo

/-- `replace('D', "E")` -/
def dToE (c : Char) : Char := if c = 'D' then 'E' else c

theorem map_dToE_id (l : Str) (h : ∀ c ∈ l, c ≠ 'D') : l.map dToE = l := by
  induction l with
  | nil => rfl
  | cons c cs ih =>
    simp only [List.map_cons, dToE, h c (by simp), if_false, ih (fun x hx => h x (by simp [hx]))]

theorem digits_no_D {ds : Str} (hd : AllDigits ds) : ∀ c ∈ ds, c ≠ 'D' :=
  fun c hc => (isDigit_not_special (hd c hc)).2.1

theorem body_map (nm : Numeral) (h : nm.WF) : nm.body.map dToE = nm.readText := by
  obtain ⟨h1, h2, -, h4, -⟩ := h
  simp only [Numeral.body, Numeral.mantissa, Numeral.readText, List.map_append]
  rw [map_dToE_id _ (digits_no_D h1)]
  congr 1
  · congr 1
    cases hf : nm.frac with
    | none => rfl
    | some f =>
      simp only [fracText, List.map_cons, map_dToE_id _ (digits_no_D (h2 f hf))]
      rfl
  · cases hx : nm.expo with
    | none => rfl
    | some x =>
      obtain ⟨hl, hs, hd, -⟩ := h4 x hx
      have hsg : x.sign.map dToE = x.sign := by rcases hs with e | e | e <;> rw [e] <;> rfl
      have hlt : dToE x.letter = 'E' := by rcases hl with e | e <;> rw [e] <;> rfl
      simp only [expoText, expoRead, Exponent.text, List.map_cons, List.map_append, hsg, hlt,
        map_dToE_id _ (digits_no_D hd)]

/-- **the text that is parsed**: the spelling without the type suffix, `D` read as `E` -/
theorem numText_text (nm : Numeral) (h : nm.WF) : Parse.numText nm.text = nm.readText := by
  have hb := body_map nm h
  have hns := body_not_suffix nm h
  have hne := body_ne_nil nm h
  have hmap : nm.text.map (fun c => if c = 'D' then 'E' else c) = nm.readText ++ nm.sfx.toList := by
    show nm.text.map dToE = _
    simp only [Numeral.text, List.map_append, hb]
    congr 1
    cases hs : nm.sfx with
    | none => rfl
    | some c =>
      have := (isNumSuffix_iff c).1 (h.2.2.2.2 c hs)
      rcases this with rfl | rfl | rfl <;> rfl
  have hrs : ∀ k ∈ nm.readText, isNumSuffix k = false := by
    intro k hk
    rw [← hb] at hk
    obtain ⟨k0, hk0, rfl⟩ := List.mem_map.1 hk
    have := hns k0 hk0
    unfold dToE
    split
    · decide
    · exact this
  have hrne : nm.readText ≠ [] := by
    rw [← hb]; simpa using hne
  rw [numText_eq, hmap]
  cases hs : nm.sfx with
  | some c =>
    have hc : isNumSuffix c = true := h.2.2.2.2 c hs
    simp [List.getLast?_concat, hc, List.dropLast_concat]
  | none =>
    simp only [Option.toList_none, List.append_nil]
    cases hl : nm.readText.getLast? with
    | none => exact absurd (List.getLast?_eq_none_iff.1 hl) hrne
    | some k => simp [hrs k (List.mem_of_getLast? hl)]

/-! ### Single and Double constants -/

/-- the digits of the mantissa, the point removed -/
def Numeral.mantDigits (nm : Numeral) : Str := nm.int ++ fracDigits nm.frac

/-- the mantissa as a natural number -/
def Numeral.mantValue (nm : Numeral) : Nat := decimalValue nm.mantDigits

/-- the decimal exponent of the last mantissa digit: the written exponent (clamped to 1 000 000 from 7
    digits on, where the value is 0 or infinite anyway) minus the number of fraction digits -/
def Numeral.exp10 (nm : Numeral) : Int := expoVal nm.expo - ((fracDigits nm.frac).length : Int)

/-- **dec2flt reads a numeral as `mantValue · 10 ^ exp10`** -/
theorem parseDecimal_readText (nm : Numeral) (h : nm.WF) (hd : nm.mantDigits ≠ []) :
    Fmt.parseDecimal nm.readText = some (.num false nm.mantValue nm.exp10 nm.mantDigits.length) := by
  obtain ⟨h1, h2, -, h4, -⟩ := h
  rw [Numeral.readText, parseDecimal_numeral nm.int nm.frac nm.expo h1 h2 h4 hd, digitsToNat_eq]
  rfl

/-- a Single constant is the float nearest (ties to even) to `mantValue · 10 ^ exp10` -/
theorem parseF32_numeral (nm : Numeral) (h : nm.WF) (hd : nm.mantDigits ≠ []) :
    Fmt.parseF32 (Parse.numText nm.text) =
      some (UInt32.ofNat (Fmt.roundDecimal Ieee.fp32 false nm.mantValue nm.exp10 nm.mantDigits.length)) := by
  rw [numText_text nm h, Fmt.parseF32, Fmt.parseFloat, parseDecimal_readText nm h hd]
  rfl

/-- a Double constant likewise, to 53 bits -/
theorem parseF64_numeral (nm : Numeral) (h : nm.WF) (hd : nm.mantDigits ≠ []) :
    Fmt.parseF64 (Parse.numText nm.text) =
      some (UInt64.ofNat (Fmt.roundDecimal Ieee.fp64 false nm.mantValue nm.exp10 nm.mantDigits.length)) := by
  rw [numText_text nm h, Fmt.parseF64, Fmt.parseFloat, parseDecimal_readText nm h hd]
  rfl

/-- a mantissa without any digit (`.`, `.E5`) is not a number: TYPE MISMATCH when parsed -/
theorem parseDecimal_no_digit (nm : Numeral) (h : nm.WF) (hd : nm.mantDigits = []) :
    Fmt.parseDecimal nm.readText = none := by
  obtain ⟨h1, h2, h3, h4, -⟩ := h
  have hint : nm.int = [] := by
    cases hi : nm.int with
    | nil => rfl
    | cons a b => simp [Numeral.mantDigits, hi] at hd
  cases hf : nm.frac with
  | none => exact absurd hint (h3 hf)
  | some f =>
    have hfe : f = [] := by simpa [Numeral.mantDigits, hint, hf, fracDigits] using hd
    subst hfe
    have ht := takeDigits_append [] (expoRead nm.expo) (by intro c hc; cases hc) (expoRead_head nm.expo)
    simp only [List.nil_append] at ht
    have e : nm.readText = '.' :: expoRead nm.expo := by simp [Numeral.readText, hint, hf, fracText]
    rw [e, parseDecimal_unsigned '.' _ (.inr rfl)]
    unfold parseMantExp
    simp [Fmt.takeDigits, fmt_not_digit_dot, ht]

/-! ### Integer constants -/

theorem head_plain (nm : Numeral) (h : nm.WF) :
    ∃ c cs, nm.readText = c :: cs ∧ c ≠ '-' ∧ c ≠ '+' := by
  obtain ⟨h1, -, h3, -, -⟩ := h
  cases hi : nm.int with
  | cons c cs =>
    obtain ⟨-, -, -, -, -, -, -, -, hp, hm⟩ := isDigit_not_special (h1 c (by simp [hi]))
    exact ⟨c, cs ++ fracText nm.frac ++ expoRead nm.expo, by simp [Numeral.readText, hi], hm, hp⟩
  | nil =>
    cases hf : nm.frac with
    | none => exact absurd hi (h3 hf)
    | some f =>
      exact ⟨'.', f ++ expoRead nm.expo, by simp [Numeral.readText, hi, hf, fracText], by decide, by decide⟩

/-- the Integer reading of a numeral (a `%` constant, or an undecorated one the lexer found to fit):
    its value when it is a plain digit string denoting at most 32767; otherwise — too big, or with
    a fraction or an exponent — not an Integer -/
theorem parseI16_readText (nm : Numeral) (h : nm.WF) :
    Fmt.parseI16 (Parse.numText nm.text) =
      if nm.frac = none ∧ nm.expo = none ∧ decimalValue nm.int ≤ 32767
      then some (Int16.ofNat (decimalValue nm.int)) else none := by
  rw [numText_text nm h]
  by_cases hplain : nm.frac = none ∧ nm.expo = none
  · obtain ⟨hf, hx⟩ := hplain
    have e : nm.readText = nm.int := by simp [Numeral.readText, hf, hx, fracText, expoRead]
    rw [e, parseI16_digits nm.int (h.2.2.1 hf) h.1]
    simp [hf, hx]
  · have hbad : ∃ k ∈ nm.readText, Fmt.isDigit k = false := by
      cases hf : nm.frac with
      | some f => exact ⟨'.', by simp [Numeral.readText, hf, fracText], by decide⟩
      | none =>
        cases hx : nm.expo with
        | some x => exact ⟨'E', by simp [Numeral.readText, hx, expoRead], by decide⟩
        | none => exact absurd ⟨hf, hx⟩ hplain
    obtain ⟨c, cs, e, hm, hp⟩ := head_plain nm h
    have hall : (c :: cs).all Fmt.isDigit = false := by
      rw [← e]
      obtain ⟨k, hk, hkd⟩ := hbad
      rw [Bool.eq_false_iff]
      intro hall
      rw [List.all_eq_true] at hall
      rw [hall k hk] at hkd; cases hkd
    have : ¬ (nm.frac = none ∧ nm.expo = none ∧ decimalValue nm.int ≤ 32767) :=
      fun hh => hplain ⟨hh.1, hh.2.1⟩
    rw [if_neg this, e]
    unfold Fmt.parseI16
    split
    rename_i neg r heq
    have hnr : neg = false ∧ r = c :: cs := by
      split at heq
      · rename_i r' heq'; exact absurd (List.cons.inj heq').1 hm
      · rename_i r' heq'; exact absurd (List.cons.inj heq').1 hp
      · cases heq; exact ⟨rfl, rfl⟩
    obtain ⟨rfl, rfl⟩ := hnr
    simp [hall]

/-! ### radix constants -/

end Lex

namespace Spec

/-- the value of a hexadecimal / octal digit (`0`–`9`, `A`–`F`) -/
def radixDigitVal (c : Char) : Nat := if c.toNat ≤ 57 then c.toNat - 48 else c.toNat - 55

/-- the number a string of radix digits denotes -/
def radixValue (radix : Nat) (ds : Str) : Nat := ds.foldl (fun acc c => acc * radix + radixDigitVal c) 0

end Spec

namespace Lex
open Spec

def radixOf (isHex : Bool) : Nat := if isHex then 16 else 8

theorem radixDigit_of_isRadixDigit (isHex : Bool) (c : Char) (h : isRadixDigit isHex c = true) :
    Fmt.radixDigit (radixOf isHex) c = some (radixDigitVal c) ∧ radixDigitVal c < radixOf isHex := by
  simp only [isRadixDigit, Char.le_def, UInt32.le_iff_toNat_le, Bool.or_eq_true, Bool.and_eq_true,
    decide_eq_true_eq] at h
  have e0 : ('0' : Char).val.toNat = 48 := rfl
  have e7 : ('7' : Char).val.toNat = 55 := rfl
  have e8 : ('8' : Char).val.toNat = 56 := rfl
  have e9 : ('9' : Char).val.toNat = 57 := rfl
  have eA : ('A' : Char).val.toNat = 65 := rfl
  have eF : ('F' : Char).val.toNat = 70 := rfl
  have ea : ('a' : Char).val.toNat = 97 := rfl
  have ez : ('z' : Char).val.toNat = 122 := rfl
  have eZ : ('Z' : Char).val.toNat = 90 := rfl
  have hn : c.toNat = c.val.toNat := rfl
  rw [e0, e7, e8, e9, eA, eF] at h
  unfold Fmt.radixDigit Fmt.isDigit Fmt.digitVal radixDigitVal radixOf
  simp only [Char.le_def, UInt32.le_iff_toNat_le, e0, e9, ea, ez, eA, eZ, hn]
  cases isHex with
  | false =>
    have hc : 48 ≤ c.toNat ∧ c.toNat ≤ 55 := by simpa using h
    have p1 : 48 ≤ c.toNat ∧ c.toNat ≤ 57 := by omega
    have h2 : c.toNat ≤ 57 := by omega
    have h3 : c.toNat - 48 < 8 := by omega
    simp [p1, h2, h3]
  | true =>
    have hc : (48 ≤ c.toNat ∧ c.toNat ≤ 57) ∨ (65 ≤ c.toNat ∧ c.toNat ≤ 70) := by
      simp at h; omega
    rcases hc with hc | hc
    · have h2 : c.toNat ≤ 57 := by omega
      have h3 : c.toNat - 48 < 16 := by omega
      simp [hc, h2, h3]
    · have p1 : ¬ (48 ≤ c.toNat ∧ c.toNat ≤ 57) := by omega
      have p2 : ¬ (97 ≤ c.toNat ∧ c.toNat ≤ 122) := by omega
      have p3 : 65 ≤ c.toNat ∧ c.toNat ≤ 90 := by omega
      have h2 : ¬ c.toNat ≤ 57 := by omega
      have h3 : c.toNat - 55 < 16 := by omega
      simp [p1, p2, p3, h2, h3]

/-- the accumulator loop of `from_str_radix`, from `acc` -/
def radixFrom (radix : Nat) (acc : Nat) (ds : Str) : Nat :=
  ds.foldl (fun acc c => acc * radix + radixDigitVal c) acc

theorem radixFrom_ge (radix : Nat) (hr : 1 ≤ radix) (ds : Str) (acc : Nat) : acc ≤ radixFrom radix acc ds := by
  induction ds generalizing acc with
  | nil => exact Nat.le_refl _
  | cons c cs ih =>
    have := ih (acc * radix + radixDigitVal c)
    have h2 : acc * 1 ≤ acc * radix := Nat.mul_le_mul_left _ hr
    simp only [radixFrom, List.foldl_cons] at this ⊢
    omega

theorem radix_go (isHex : Bool) (ds : Str) (hd : ∀ c ∈ ds, isRadixDigit isHex c = true) (acc : Nat) :
    (∀ n, Fmt.parseI16Radix.go (radixOf isHex) ds acc = some n → n = radixFrom (radixOf isHex) acc ds) ∧
    (Fmt.parseI16Radix.go (radixOf isHex) ds acc = none → 100000 < radixFrom (radixOf isHex) acc ds) := by
  have hr : 1 ≤ radixOf isHex := by cases isHex <;> decide
  induction ds generalizing acc with
  | nil =>
    constructor
    · intro n h; simp [Fmt.parseI16Radix.go] at h; exact h.symm
    · intro h; simp [Fmt.parseI16Radix.go] at h
  | cons c cs ih =>
    obtain ⟨hdg, -⟩ := radixDigit_of_isRadixDigit isHex c (hd c (by simp))
    have ih' := ih (fun x hx => hd x (by simp [hx])) (acc * radixOf isHex + radixDigitVal c)
    have hge := radixFrom_ge (radixOf isHex) hr cs (acc * radixOf isHex + radixDigitVal c)
    have h2 : acc * 1 ≤ acc * radixOf isHex := Nat.mul_le_mul_left _ hr
    simp only [Fmt.parseI16Radix.go, hdg, radixFrom, List.foldl_cons] at ih' hge ⊢
    by_cases hbig : acc > 100000
    · simp only [hbig, if_true]
      constructor
      · intro n h; cases h
      · intro _; omega
    · simp only [hbig, if_false]
      exact ih'

/-- **`i16::from_str_radix` on a string of radix digits**: its value when that is at most 32767;
    nothing for the empty string and for every larger value (no wrap to negative numbers) -/
theorem parseI16Radix_digits (isHex : Bool) (ds : Str) (hd : ∀ c ∈ ds, isRadixDigit isHex c = true) :
    Fmt.parseI16Radix ds (radixOf isHex) =
      if ds ≠ [] ∧ radixValue (radixOf isHex) ds ≤ 32767
      then some (Int16.ofNat (radixValue (radixOf isHex) ds)) else none := by
  cases ds with
  | nil => simp [Fmt.parseI16Radix]
  | cons c cs =>
    have hc := hd c (by simp)
    have hm : c ≠ '-' := by rintro rfl; revert hc; cases isHex <;> decide
    have hp : c ≠ '+' := by rintro rfl; revert hc; cases isHex <;> decide
    have hgo := radix_go isHex (c :: cs) hd 0
    have hval : radixFrom (radixOf isHex) 0 (c :: cs) = radixValue (radixOf isHex) (c :: cs) := rfl
    rw [hval] at hgo
    unfold Fmt.parseI16Radix
    split
    rename_i neg r heq
    have hnr : neg = false ∧ r = c :: cs := by
      split at heq
      · rename_i r' heq'; exact absurd (List.cons.inj heq').1 hm
      · rename_i r' heq'; exact absurd (List.cons.inj heq').1 hp
      · cases heq; exact ⟨rfl, rfl⟩
    obtain ⟨rfl, rfl⟩ := hnr
    simp only [List.isEmpty_cons, Bool.false_eq_true, if_false, ne_eq, reduceCtorEq, not_false_eq_true,
      true_and]
    cases hg : Fmt.parseI16Radix.go (radixOf isHex) (c :: cs) 0 with
    | none =>
      have := hgo.2 hg
      have : ¬ radixValue (radixOf isHex) (c :: cs) ≤ 32767 := by omega
      simp [this]
    | some n =>
      have hn := hgo.1 n hg
      subst hn
      by_cases hv : radixValue (radixOf isHex) (c :: cs) ≤ 32767
      · have : RStd.inI16 (radixValue (radixOf isHex) (c :: cs) : Int) = true := by
          simp only [RStd.inI16, Bool.and_eq_true, decide_eq_true_eq]; omega
        simp [hv, this]
        rfl
      · have : RStd.inI16 (radixValue (radixOf isHex) (c :: cs) : Int) = false := by
          simp only [RStd.inI16, Bool.and_eq_false_iff, decide_eq_false_iff_not]; omega
        simp [hv, this]

end Lex
end Basic
