import BasicModel.Lemmas.LiteralTy
import BasicModel.Lemmas.LexLine
import BasicModel.Lemmas.SpellingScan
/-
  A number glued to a following word (`200ELSE`, `100EQV`, `5DIV`): helper lemmas for
  `Thm/C16Glued.lean`.

  `number()` treats an `E`/`D` (either case) after the mantissa as the start of an exponent exactly
  when the character AFTER it is `+`, `-` or a digit (`startsExponent`); otherwise the letter is
  un-read (upper-cased) and the numeral ends in front of it.

  * `digitsToken` — the token of a plain digit string: Double beyond 7 digits, else Integer when the
    value is at most 32767, else Single;
  * `number_digits_boundary`, `number_glued` — the scanner on `ds ++ rest`;
  * `lexFrom_foldED` — the un-read, upper-cased letter starts the same tokens as the original one;
  * `sig_postPasses_blank_after` — a blank run behind an inert, solid token (a numeral) is
    invisible in the significant tokens of the line.
-/
set_option linter.unusedSimpArgs false
namespace Basic
namespace Lex
open Spec

/-- an exponent letter, either case -/
def isExpLetter (c : Char) : Bool := c = 'E' || c = 'e' || c = 'D' || c = 'd'

/-- the character after an exponent letter that makes `number()` take the letter as the start of an
    exponent part: a sign or a digit -/
def startsExponent (pk : Char) : Bool := pk = '+' || pk = '-' || isDigit pk

/-- the token `number()` makes of a plain digit string -/
def digitsToken (ds : Str) : Token :=
  if ds.length > 7 then .literal (.double ds)
  else if decimalValue ds ≤ 32767 then .literal (.integer ds)
  else .literal (.single ds)

theorem numberFinish_digits (ds : Str) (hne : ds ≠ []) (hd : AllDigits ds) :
    numberFinish ds ds.length false false = digitsToken ds := by
  unfold numberFinish digitsToken
  rw [parseI16_digits ds hne hd]
  by_cases h7 : ds.length > 7
  · simp [h7]
  · by_cases hv : decimalValue ds ≤ 32767 <;> simp [h7, hv]

/-- digits in front of a character at which `number()` stops in every state (a blank, an operator, a
    letter other than E/D, the end of the text …) -/
theorem number_digits_boundary (ds : Str) (hne : ds ≠ []) (hd : AllDigits ds) (rest : List Char)
    (hb : NumBoundary rest) : number (ds ++ rest) = (digitsToken ds, rest) := by
  unfold number
  rw [numberLoop_digits ds hd hne, numberAfter_boundary rest hb]
  simp [numberFinish_digits ds hne hd]

theorem foldED_expLetter (e : Char) (he : isExpLetter e = true) : foldED e = 'E' ∨ foldED e = 'D' := by
  simp only [isExpLetter, Bool.or_eq_true, decide_eq_true_eq] at he
  rcases he with ((rfl | rfl) | rfl) | rfl <;> decide

/-- **digits, an exponent letter, and then neither a sign nor a digit**: the numeral is the digit
    string; the letter is handed back (upper-cased) -/
theorem number_glued (ds : Str) (hne : ds ≠ []) (hd : AllDigits ds) (e pk : Char) (tl : List Char)
    (he : isExpLetter e = true) (hpk : startsExponent pk = false) :
    number (ds ++ e :: pk :: tl) = (digitsToken ds, foldED e :: pk :: tl) := by
  have hcont : numCont false false e = true := by
    simp only [isExpLetter, Bool.or_eq_true, decide_eq_true_eq] at he
    rcases he with ((rfl | rfl) | rfl) | rfl <;> decide
  have hE := foldED_expLetter e he
  simp only [startsExponent, Bool.or_eq_false_iff, decide_eq_false_iff_not] at hpk
  obtain ⟨⟨hp, hm⟩, hdg⟩ := hpk
  unfold number
  rw [numberLoop_digits ds hd hne, numberAfter_cont _ _ _ _ _ _ hcont, numberLoop_cons]
  rcases hE with h | h
  · have : numDigits false 'E' ds.length = ds.length := by simp [numDigits, isDigit]
    simp [h, hp, hm, hdg, this, numberFinish_digits ds hne hd]
  · have : numDigits false 'D' ds.length - 8 = ds.length := by simp [numDigits, isDigit]
    simp [h, hp, hm, hdg, this, numberFinish_digits ds hne hd]

/-- the un-read exponent letter (upper-cased by `number()`) starts the same tokens as the letter
    that was typed: `alphabetic()` upper-cases what it consumes -/
theorem lexFrom_foldED (e : Char) (he : isExpLetter e = true) (r : List Char) :
    lexFrom (foldED e :: r) false = lexFrom (e :: r) false := by
  simp only [isExpLetter, Bool.or_eq_true, decide_eq_true_eq] at he
  rcases he with ((rfl | rfl) | rfl) | rfl
  · rfl
  · have h : alphabetic ('E' :: r) = alphabetic ('e' :: r) := by
      unfold alphabetic; rw [alphaLoop_cons, alphaLoop_cons]; rfl
    rw [show foldED 'e' = 'E' from by decide, lexFrom_cons, lexFrom_cons, h]
    rfl
  · rfl
  · have h : alphabetic ('D' :: r) = alphabetic ('d' :: r) := by
      unfold alphabetic; rw [alphaLoop_cons, alphaLoop_cons]; rfl
    rw [show foldED 'd' = 'D' from by decide, lexFrom_cons, lexFrom_cons, h]
    rfl

theorem isDigit_of_expLetter (e : Char) (he : isExpLetter e = true) :
    isDigit e = false ∧ isWs e = false ∧ e ≠ '.' := by
  simp only [isExpLetter, Bool.or_eq_true, decide_eq_true_eq] at he
  rcases he with ((rfl | rfl) | rfl) | rfl <;> decide

theorem digits_head (ds : Str) (hne : ds ≠ []) (hd : AllDigits ds) :
    ∃ d ds', ds = d :: ds' ∧ (isDigit d || d = '.') = true := by
  cases ds with
  | nil => contradiction
  | cons d ds' => exact ⟨d, ds', rfl, by simp [hd d (by simp)]⟩

/-- the raw tokens of `ds E…` (glued) -/
theorem lexFrom_glued (ds : Str) (hne : ds ≠ []) (hd : AllDigits ds) (e pk : Char) (tl : List Char)
    (he : isExpLetter e = true) (hpk : startsExponent pk = false) :
    lexFrom (ds ++ e :: pk :: tl) false = digitsToken ds :: lexFrom (e :: pk :: tl) false := by
  obtain ⟨d, ds', rfl, hd0⟩ := digits_head ds hne hd
  have hn := number_glued (d :: ds') hne hd e pk tl he hpk
  rw [List.cons_append] at hn ⊢
  rw [lexFrom_number d _ hd0, hn, lexFrom_foldED e he]

/-- the raw tokens of `ds <blanks> E…` (spaced) -/
theorem lexFrom_spaced (ds : Str) (hne : ds ≠ []) (hd : AllDigits ds) (sep : List Char)
    (hsep : ∀ c ∈ sep, isWs c = true) (hsne : sep ≠ []) (e : Char) (tl : List Char)
    (he : isExpLetter e = true) :
    lexFrom (ds ++ (sep ++ e :: tl)) false =
      digitsToken ds :: .whitespace sep.length :: lexFrom (e :: tl) false := by
  obtain ⟨d, ds', rfl, hd0⟩ := digits_head ds hne hd
  obtain ⟨w, sep', rfl⟩ : ∃ w sep', sep = w :: sep' := by
    cases sep with
    | nil => contradiction
    | cons w sep' => exact ⟨w, sep', rfl⟩
  have hw := hsep w (by simp)
  have hb : NumBoundary ((w :: sep') ++ e :: tl) := by
    intro c hc
    simp at hc; subst hc
    simp only [isWs, Bool.or_eq_true, decide_eq_true_eq] at hw
    rcases hw with rfl | rfl <;> decide
  have hn := number_digits_boundary (d :: ds') hne hd _ hb
  obtain ⟨-, hew, -⟩ := isDigit_of_expLetter e he
  have htw : List.takeWhile isWs (sep' ++ e :: tl) = sep' := by
    rw [List.takeWhile_append_of_pos (fun c hc => hsep c (by simp [hc]))]
    simp [List.takeWhile_cons, hew]
  rw [List.cons_append] at hn ⊢
  rw [lexFrom_number d _ hd0, hn, List.cons_append, lexFrom_ws w _ hw]
  simp only [whitespace, htw, dropWhile_isWs_append sep' (e :: tl) (fun c hc => hsep c (by simp [hc])),
    List.dropWhile_cons, hew, List.length_cons]
  simp [Nat.add_comm]

/-! ### the post-passes -/

/-- a blank run behind a token that takes no part in the collapse passes and is not trimmed away is
    invisible in the significant tokens -/
theorem sig_postPasses_blank_after (A : List Token) (t : Token) (n : Nat) (V : List Token)
    (hi : isInert t = true) (hs : isSolid t = true) :
    sig (postPasses (A ++ t :: .whitespace n :: V)) = sig (postPasses (A ++ t :: V)) := by
  rw [sig_postPasses, sig_postPasses, trimEnd_append_solid A t _ hs, trimEnd_append_solid A t _ hs,
    G_split_inert A t _ hi, G_split_inert A t _ hi]
  simp only [sig_append]
  have hb : isBlank t = false := by
    simp only [isInert, Bool.and_eq_true, Bool.not_eq_true'] at hi; exact hi.1.1.1
  rw [sig_cons_solid t _ hb, sig_cons_solid t _ hb, sig_G_trimEnd_blank]

theorem digitsToken_inert (ds : Str) : isInert (digitsToken ds) = true ∧ isSolid (digitsToken ds) = true := by
  unfold digitsToken
  split
  · exact ⟨rfl, rfl⟩
  · split <;> exact ⟨rfl, rfl⟩

end Lex
end Basic
