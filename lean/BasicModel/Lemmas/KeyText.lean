import BasicModel.Model.Var
import Std.Data.String.ToNat
/-
  Facts about the text of array keys (`name,i1,i2,name`): decimal rendering is injective and
  comma-free, and a comma-free prefix before a comma is determined by the whole text.
-/
namespace Basic
namespace KeyText
open RStd

theorem natDigits_eq (n : Nat) : natDigits n = Nat.toDigits 10 n := by
  simp [natDigits]

theorem natDigits_inj {a b : Nat} (h : natDigits a = natDigits b) : a = b := by
  unfold natDigits at h
  have h' : toString a = toString b := String.toList_inj.1 h
  simpa using h'

theorem natDigits_ne_nil (n : Nat) : natDigits n ≠ [] := by
  rw [natDigits_eq]; exact Nat.toDigits_ne_nil

theorem isDigit_of_mem_natDigits {n : Nat} {c : Char} (h : c ∈ natDigits n) : c.isDigit = true := by
  rw [natDigits_eq] at h
  exact Nat.isDigit_of_mem_toDigits (by decide) (by decide) h

theorem comma_not_mem_natDigits (n : Nat) : ',' ∉ natDigits n := by
  intro h
  have := isDigit_of_mem_natDigits h
  revert this; decide

theorem minus_not_mem_natDigits (n : Nat) : '-' ∉ natDigits n := by
  intro h
  have := isDigit_of_mem_natDigits h
  revert this; decide

theorem comma_not_mem_showInt (z : Int) : ',' ∉ showInt z := by
  unfold showInt
  split
  · intro h
    rcases List.mem_cons.1 h with h | h
    · revert h; decide
    · exact comma_not_mem_natDigits _ h
  · exact comma_not_mem_natDigits _

theorem showInt_ne_nil (z : Int) : showInt z ≠ [] := by
  unfold showInt
  split
  · simp
  · exact natDigits_ne_nil _

theorem showInt_inj {a b : Int} (h : showInt a = showInt b) : a = b := by
  unfold showInt at h
  by_cases ha : a < 0 <;> by_cases hb : b < 0
  · simp only [ha, hb, if_true, List.cons.injEq, true_and] at h
    have := natDigits_inj h
    omega
  · simp only [ha, hb, if_true, if_false] at h
    exfalso
    apply minus_not_mem_natDigits b.natAbs
    rw [← h]; exact List.mem_cons_self
  · simp only [ha, hb, if_true, if_false] at h
    exfalso
    apply minus_not_mem_natDigits a.natAbs
    rw [h]; exact List.mem_cons_self
  · simp only [ha, hb, if_false] at h
    have := natDigits_inj h
    omega

/-- a comma-free prefix in front of a comma is determined by the whole text -/
theorem split_comma : ∀ {a a' r r' : Str}, ',' ∉ a → ',' ∉ a' →
    a ++ ',' :: r = a' ++ ',' :: r' → a = a' ∧ r = r'
  | [], [], _, _, _, _, h => by
    simp only [List.nil_append, List.cons.injEq, true_and] at h
    exact ⟨rfl, h⟩
  | [], c :: a', _, _, _, h2, h => by
    simp only [List.nil_append, List.cons_append, List.cons.injEq] at h
    exact absurd (h.1 ▸ List.mem_cons_self) h2
  | c :: a, [], _, _, h1, _, h => by
    simp only [List.nil_append, List.cons_append, List.cons.injEq] at h
    exact absurd (h.1 ▸ List.mem_cons_self) h1
  | c :: a, c' :: a', r, r', h1, h2, h => by
    simp only [List.cons_append, List.cons.injEq] at h
    have := split_comma (a := a) (a' := a') (fun m => h1 (List.mem_cons_of_mem _ m))
      (fun m => h2 (List.mem_cons_of_mem _ m)) h.2
    exact ⟨by rw [h.1, this.1], this.2⟩

/-- the subscript part of an array key followed by the closing `,name` -/
def enc (idx : List Int16) (name : Str) : Str :=
  idx.flatMap (fun b => ',' :: showInt b.toInt) ++ ',' :: name

theorem arrayKey_eq (name : Str) (idx : List Int16) : Var.arrayKey name idx = name ++ enc idx name := by
  simp [Var.arrayKey, enc]

theorem enc_nil (name : Str) : enc [] name = ',' :: name := rfl

theorem enc_cons (b : Int16) (r : List Int16) (name : Str) :
    enc (b :: r) name = ',' :: (showInt b.toInt ++ enc r name) := by
  simp [enc]

theorem enc_head (idx : List Int16) (name : Str) : ∃ t, enc idx name = ',' :: t := by
  cases idx with
  | nil => exact ⟨name, rfl⟩
  | cons b r => exact ⟨_, enc_cons b r name⟩

theorem comma_mem_enc (idx : List Int16) (name : Str) : ',' ∈ enc idx name := by
  obtain ⟨t, ht⟩ := enc_head idx name
  rw [ht]; exact List.mem_cons_self

theorem int16_toInt_inj {a b : Int16} (h : a.toInt = b.toInt) : a = b := by
  have ha := Int16.ofInt_toInt a
  have hb := Int16.ofInt_toInt b
  rw [← ha, ← hb, h]

theorem enc_inj {name : Str} (hn : ',' ∉ name) :
    ∀ {is is' : List Int16}, enc is name = enc is' name → is = is'
  | [], [], _ => rfl
  | [], b :: r, h => by
    rw [enc_nil, enc_cons] at h
    simp only [List.cons.injEq, true_and] at h
    exfalso
    apply hn
    rw [h]
    exact List.mem_append_right _ (comma_mem_enc r name)
  | b :: r, [], h => by
    rw [enc_nil, enc_cons] at h
    simp only [List.cons.injEq, true_and] at h
    exfalso
    apply hn
    rw [← h]
    exact List.mem_append_right _ (comma_mem_enc r name)
  | a :: r, b :: r', h => by
    rw [enc_cons, enc_cons] at h
    simp only [List.cons.injEq, true_and] at h
    obtain ⟨t, ht⟩ := enc_head r name
    obtain ⟨t', ht'⟩ := enc_head r' name
    rw [ht, ht'] at h
    have hs := split_comma (comma_not_mem_showInt _) (comma_not_mem_showInt _) h
    have hab : a = b := int16_toInt_inj (showInt_inj hs.1)
    have hr : enc r name = enc r' name := by rw [ht, ht', hs.2]
    rw [hab, enc_inj hn hr]

end KeyText
end Basic
