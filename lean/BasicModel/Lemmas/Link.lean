import BasicModel.Model.Link
import BasicModel.Spec.Bracket
/-
  Helper lemmas about `Link` (src/mach/link.rs): the sorted symbol table, the pending-reference
  map, `append` (re-basing of a fragment), `lineNumberFor`, `linkOne` and the WHILE/WEND matcher.
  Used by Thm/C20, C09, C18, C01.
-/
namespace Basic
namespace Link

/-! ### association-list basics -/

/-- the symbol table is strictly ascending by key (the `BTreeMap` order) -/
def SymSorted (m : List (Symbol × (Nat × Nat))) : Prop := m.Pairwise (fun p q => p.1 < q.1)

theorem lookup_cons_eq {β} (k : Int) (v : β) (m : List (Int × β)) (x : Int) :
    List.lookup x ((k, v) :: m) = if x = k then some v else List.lookup x m := by
  rw [List.lookup_cons]
  by_cases h : x = k
  · simp [h]
  · have : (x == k) = false := by simp [h]
    simp [this, h]

theorem lookup_cons_eq_nat {β} (k : Nat) (v : β) (m : List (Nat × β)) (x : Nat) :
    List.lookup x ((k, v) :: m) = if x = k then some v else List.lookup x m := by
  rw [List.lookup_cons]
  by_cases h : x = k
  · simp [h]
  · have : (x == k) = false := by simp [h]
    simp [this, h]

/-- membership after a sorted insert -/
theorem mem_symInsert {k : Symbol} {v : Nat × Nat} {m : List (Symbol × (Nat × Nat))} {p : Symbol × (Nat × Nat)}
    (h : p ∈ symInsert k v m) : p = (k, v) ∨ p ∈ m := by
  induction m with
  | nil => simp [symInsert] at h; exact .inl h
  | cons hd tl ih =>
    obtain ⟨k', v'⟩ := hd
    simp only [symInsert] at h
    split at h
    · simp only [List.mem_cons] at h ⊢
      rcases h with h | h | h
      · exact .inl h
      · exact .inr (.inl h)
      · exact .inr (.inr h)
    · split at h
      · simp only [List.mem_cons] at h ⊢
        rcases h with h | h
        · exact .inl h
        · exact .inr (.inr h)
      · simp only [List.mem_cons] at h ⊢
        rcases h with h | h
        · exact .inr (.inl h)
        · rcases ih h with h | h
          · exact .inl h
          · exact .inr (.inr h)

theorem mem_symInsert_self (k : Symbol) (v : Nat × Nat) (m : List (Symbol × (Nat × Nat))) :
    (k, v) ∈ symInsert k v m := by
  induction m with
  | nil => simp [symInsert]
  | cons hd tl ih =>
    obtain ⟨k', v'⟩ := hd
    simp only [symInsert]
    split
    · simp
    · split
      · simp
      · simp [ih]

theorem mem_symInsert_of_mem {k : Symbol} {v : Nat × Nat} {m : List (Symbol × (Nat × Nat))}
    {p : Symbol × (Nat × Nat)} (h : p ∈ m) (hk : p.1 ≠ k) : p ∈ symInsert k v m := by
  induction m with
  | nil => cases h
  | cons hd tl ih =>
    obtain ⟨k', v'⟩ := hd
    simp only [symInsert]
    split
    · exact List.mem_cons_of_mem _ h
    · split
      · rename_i h2
        simp only [List.mem_cons] at h ⊢
        rcases h with h | h
        · subst h; exact absurd h2.symm hk
        · exact .inr h
      · simp only [List.mem_cons] at h ⊢
        rcases h with h | h
        · exact .inl h
        · exact .inr (ih h)

/-- `symInsert_lookup`: lookup after a sorted insert (holds for any list) -/
theorem symInsert_lookup (k : Symbol) (v : Nat × Nat) (m : List (Symbol × (Nat × Nat))) (x : Symbol) :
    (symInsert k v m).lookup x = if x = k then some v else m.lookup x := by
  induction m with
  | nil => simp [symInsert, lookup_cons_eq]
  | cons hd tl ih =>
    obtain ⟨k', v'⟩ := hd
    simp only [symInsert]
    split
    · rw [lookup_cons_eq]
    · split
      · rename_i h2
        subst h2
        simp only [lookup_cons_eq]
        split <;> rfl
      · rename_i h1 h2
        simp only [lookup_cons_eq, ih]
        by_cases hx : x = k
        · subst hx; simp [h2]
        · simp [hx]

/-- `symInsert_sorted`: a sorted insert keeps the table strictly ascending -/
theorem symInsert_sorted (k : Symbol) (v : Nat × Nat) {m : List (Symbol × (Nat × Nat))}
    (h : SymSorted m) : SymSorted (symInsert k v m) := by
  induction m with
  | nil => simp [symInsert, SymSorted]
  | cons hd tl ih =>
    obtain ⟨k', v'⟩ := hd
    simp only [SymSorted, List.pairwise_cons] at h
    obtain ⟨h1, h2⟩ := h
    simp only [symInsert]
    split
    · rename_i hlt
      simp only [SymSorted, List.pairwise_cons, List.mem_cons]
      refine ⟨?_, h1, h2⟩
      rintro p (hp | hp)
      · subst hp; exact hlt
      · exact Int.lt_trans hlt (h1 p hp)
    · split
      · rename_i h3
        subst h3
        simp only [SymSorted, List.pairwise_cons]
        exact ⟨h1, h2⟩
      · rename_i h3 h4
        simp only [SymSorted, List.pairwise_cons]
        refine ⟨?_, ih h2⟩
        intro p hp
        rcases mem_symInsert hp with hp | hp
        · subst hp
          show k' < k
          simp only [Symbol] at *; omega
        · exact h1 p hp

/-- in a sorted table, `lookup` is membership -/
theorem lookup_eq_some_iff_mem {m : List (Symbol × (Nat × Nat))} (h : SymSorted m) (k : Symbol) (v : Nat × Nat) :
    m.lookup k = some v ↔ (k, v) ∈ m := by
  induction m with
  | nil => simp
  | cons hd tl ih =>
    obtain ⟨k', v'⟩ := hd
    simp only [SymSorted, List.pairwise_cons] at h
    rw [lookup_cons_eq]
    by_cases hk : k = k'
    · subst hk
      simp only [if_true, List.mem_cons, Prod.mk.injEq, true_and, Option.some.injEq]
      constructor
      · intro e; exact .inl e.symm
      · rintro (e | e)
        · exact e.symm
        · have := h.1 _ e; simp at this
    · simp only [hk, if_false, List.mem_cons, Prod.mk.injEq, false_and, false_or]
      exact ih h.2

theorem lookup_isSome_of_mem {β} {m : List (Int × β)} {k : Int} {v : β} (h : (k, v) ∈ m) :
    (m.lookup k).isSome := by
  induction m with
  | nil => cases h
  | cons hd tl ih =>
    obtain ⟨k', v'⟩ := hd
    rw [lookup_cons_eq]
    by_cases hk : k = k'
    · simp [hk]
    · simp only [hk, if_false]
      simp only [List.mem_cons, Prod.mk.injEq, hk, false_and, false_or] at h
      exact ih h

theorem mem_of_lookup {β} {m : List (Int × β)} {k : Int} {v : β} (h : m.lookup k = some v) : (k, v) ∈ m := by
  induction m with
  | nil => cases h
  | cons hd tl ih =>
    obtain ⟨k', v'⟩ := hd
    rw [lookup_cons_eq] at h
    by_cases hk : k = k'
    · simp only [hk, if_true, Option.some.injEq] at h
      subst h; subst hk; exact List.mem_cons_self
    · simp only [hk, if_false] at h
      exact List.mem_cons_of_mem _ (ih h)

/-- `HashMap::insert`: lookup after insert -/
theorem unlInsert_lookup (k : Nat) (v : Col × Symbol) (m : List (Nat × (Col × Symbol))) (x : Nat) :
    (unlInsert k v m).lookup x = if x = k then some v else m.lookup x := by
  unfold unlInsert
  rw [lookup_cons_eq_nat]
  by_cases hx : x = k
  · simp [hx]
  · simp only [hx, if_false]
    induction m with
    | nil => rfl
    | cons hd tl ih =>
      obtain ⟨k', v'⟩ := hd
      simp only [List.filter_cons]
      by_cases hk : k' = k
      · subst hk
        simp only [ne_eq, not_true_eq_false, decide_false, Bool.false_eq_true, if_false]
        rw [ih, lookup_cons_eq_nat, if_neg hx]
      · simp only [ne_eq, hk, not_false_eq_true, decide_true, if_true]
        rw [lookup_cons_eq_nat, lookup_cons_eq_nat, ih]

theorem mem_unlInsert {k : Nat} {v : Col × Symbol} {m : List (Nat × (Col × Symbol))} {p : Nat × (Col × Symbol)}
    (h : p ∈ unlInsert k v m) : p = (k, v) ∨ (p ∈ m ∧ p.1 ≠ k) := by
  unfold unlInsert at h
  simp only [List.mem_cons, List.mem_filter, ne_eq, decide_not, Bool.not_eq_eq_eq_not, Bool.not_true,
    decide_eq_false_iff_not] at h
  exact h

/-! ### `append` -/

/-- re-basing of a symbol of the appended fragment: local (negative) labels are shifted below the
    receiver's labels, line numbers are kept -/
def rebase (so : Int) (s : Symbol) : Symbol := if s < 0 then s + so else s

def appendSymbols (a b : Link) : List (Symbol × (Nat × Nat)) :=
  b.symbols.foldl (fun m p => symInsert (rebase a.currentSymbol p.1) (p.2.1 + a.ops.size, p.2.2 + a.data.size) m)
    a.symbols

def appendUnlinked (a b : Link) : List (Nat × (Col × Symbol)) :=
  b.unlinked.foldr (fun p m => unlInsert (p.1 + a.ops.size) (p.2.1, rebase a.currentSymbol p.2.2) m) a.unlinked

def appendWhiles (a b : Link) : List (Bool × Col × Nat × Symbol) :=
  a.whiles ++ b.whiles.map (fun p => (p.1, p.2.1, p.2.2.1 + a.ops.size, p.2.2.2 + a.currentSymbol))

/-- what `a.append b` is when nothing overflows -/
def appended (a b : Link) : Link :=
  { a with symbols := appendSymbols a b, unlinked := appendUnlinked a b, whiles := appendWhiles a b,
           currentSymbol := a.currentSymbol + b.currentSymbol,
           ops := a.ops ++ b.ops, data := a.data ++ b.data }

/-- the three ways `append` can fail, and what it returns when it does not -/
theorem append_cases (a b : Link) :
    (a.directSet = true ∧ b.data.isEmpty = false ∧ a.append b = (a, .error (Error.mk' Code.illegalDirect))) ∨
    (a.ops.size + b.ops.size > Gen.stackMaxLen ∧
      a.append b = ({ appended a b with data := a.data }, .error opsOverflow)) ∨
    (a.ops.size + b.ops.size ≤ Gen.stackMaxLen ∧ a.data.size + b.data.size > Gen.stackMaxLen ∧
      a.append b = (appended a b, .error dataOverflow)) ∨
    (a.ops.size + b.ops.size ≤ Gen.stackMaxLen ∧ a.data.size + b.data.size ≤ Gen.stackMaxLen ∧
      a.append b = (appended a b, .ok ())) := by
  have hs : (b.symbols.foldl (fun m (x : Symbol × (Nat × Nat)) =>
        match x with
        | (s, (oa, da)) => symInsert (if s < 0 then s + a.currentSymbol else s) (oa + a.ops.size, da + a.data.size) m)
        a.symbols) = appendSymbols a b := by
    unfold appendSymbols rebase
    congr 1
  have hu : (b.unlinked.foldr (fun (x : Nat × (Col × Symbol)) m =>
        match x with
        | (ad, (c, s)) => unlInsert (ad + a.ops.size) (c, if s < 0 then s + a.currentSymbol else s) m)
        a.unlinked) = appendUnlinked a b := by
    unfold appendUnlinked rebase
    congr 1
  have hw : a.whiles ++ b.whiles.map (fun (x : Bool × Col × Nat × Symbol) =>
        match x with
        | (k, c, ad, s) => (k, c, ad + a.ops.size, s + a.currentSymbol)) = appendWhiles a b := by
    unfold appendWhiles
    congr 1
  unfold append
  by_cases hd : (a.directSet && !b.data.isEmpty) = true
  · left
    simp only [hd, if_true]
    simp only [Bool.and_eq_true, Bool.not_eq_eq_eq_not, Bool.not_true] at hd
    exact ⟨hd.1, hd.2, trivial⟩
  · right
    simp only [hd]
    simp only [hs, hu, hw, Array.size_append]
    by_cases ho : a.ops.size + b.ops.size > Gen.stackMaxLen
    · left
      refine ⟨ho, ?_⟩
      simp only [ho, if_true, appended]
      trivial
    · right
      simp only [ho, if_false]
      by_cases hdd : a.data.size + b.data.size > Gen.stackMaxLen
      · left
        refine ⟨Nat.le_of_not_gt ho, hdd, ?_⟩
        simp only [hdd, if_true, appended]
        trivial
      · right
        refine ⟨Nat.le_of_not_gt ho, Nat.le_of_not_gt hdd, ?_⟩
        simp only [hdd, if_false, appended]
        trivial

theorem append_ok {a b : Link} (h : (a.append b).2 = .ok ()) : (a.append b).1 = appended a b := by
  rcases append_cases a b with ⟨_, _, e⟩ | ⟨_, e⟩ | ⟨_, _, e⟩ | ⟨_, _, e⟩
  · rw [e] at h; cases h
  · rw [e] at h; cases h
  · rw [e] at h; cases h
  · rw [e]

theorem append_ok_bounds {a b : Link} (h : (a.append b).2 = .ok ()) :
    a.ops.size + b.ops.size ≤ Gen.stackMaxLen ∧ a.data.size + b.data.size ≤ Gen.stackMaxLen := by
  rcases append_cases a b with ⟨_, _, e⟩ | ⟨_, e⟩ | ⟨_, _, e⟩ | ⟨h1, h2, e⟩
  · rw [e] at h; cases h
  · rw [e] at h; cases h
  · rw [e] at h; cases h
  · exact ⟨h1, h2⟩

theorem append_ops {a b : Link} (h : (a.append b).2 = .ok ()) : (a.append b).1.ops = a.ops ++ b.ops := by
  rw [append_ok h]; rfl
theorem append_data {a b : Link} (h : (a.append b).2 = .ok ()) : (a.append b).1.data = a.data ++ b.data := by
  rw [append_ok h]; rfl
theorem append_currentSymbol {a b : Link} (h : (a.append b).2 = .ok ()) :
    (a.append b).1.currentSymbol = a.currentSymbol + b.currentSymbol := by
  rw [append_ok h]; rfl
theorem append_symbols {a b : Link} (h : (a.append b).2 = .ok ()) : (a.append b).1.symbols = appendSymbols a b := by
  rw [append_ok h]; rfl
theorem append_unlinked {a b : Link} (h : (a.append b).2 = .ok ()) : (a.append b).1.unlinked = appendUnlinked a b := by
  rw [append_ok h]; rfl
theorem append_whiles {a b : Link} (h : (a.append b).2 = .ok ()) : (a.append b).1.whiles = appendWhiles a b := by
  rw [append_ok h]; rfl
theorem append_dataPos {a b : Link} (h : (a.append b).2 = .ok ()) : (a.append b).1.dataPos = a.dataPos := by
  rw [append_ok h]; rfl
theorem append_directSet {a b : Link} (h : (a.append b).2 = .ok ()) : (a.append b).1.directSet = a.directSet := by
  rw [append_ok h]; rfl

/-! ### symbol table of an appended link -/

/-- general form: the last entry of `b` whose re-based key is `x` wins, else `a`'s entry -/
theorem foldl_symInsert_lookup (f : Symbol → Symbol) (g : Nat × Nat → Nat × Nat)
    (l : List (Symbol × (Nat × Nat))) (init : List (Symbol × (Nat × Nat))) (x : Symbol) :
    (l.foldl (fun m p => symInsert (f p.1) (g p.2) m) init).lookup x =
      match l.reverse.find? (fun p => f p.1 = x) with
      | some p => some (g p.2)
      | none => init.lookup x := by
  induction l generalizing init with
  | nil => rfl
  | cons hd tl ih =>
    simp only [List.foldl_cons, List.reverse_cons, List.find?_append, ih]
    cases hf : tl.reverse.find? (fun p => decide (f p.1 = x)) with
    | some p => simp
    | none =>
      simp only [Option.none_or, List.find?_cons, List.find?_nil, symInsert_lookup]
      by_cases hx : f hd.1 = x
      · simp [hx]
      · have : ¬ x = f hd.1 := fun e => hx e.symm
        simp [hx, this]

/-- membership in the merged table -/
theorem mem_appendSymbols {a b : Link} {p : Symbol × (Nat × Nat)} (h : p ∈ appendSymbols a b) :
    p ∈ a.symbols ∨ ∃ q ∈ b.symbols, p = (rebase a.currentSymbol q.1, (q.2.1 + a.ops.size, q.2.2 + a.data.size)) := by
  unfold appendSymbols at h
  generalize a.symbols = init at h ⊢
  generalize b.symbols = bs at h ⊢
  induction bs generalizing init with
  | nil => exact .inl h
  | cons hd tl ih =>
    simp only [List.foldl_cons] at h
    rcases ih _ h with h | ⟨q, hq, e⟩
    · rcases mem_symInsert h with h | h
      · exact .inr ⟨hd, List.mem_cons_self, h⟩
      · exact .inl h
    · exact .inr ⟨q, List.mem_cons_of_mem _ hq, e⟩

theorem appendSymbols_sorted {a b : Link} (h : SymSorted a.symbols) : SymSorted (appendSymbols a b) := by
  unfold appendSymbols
  generalize a.symbols = init at h ⊢
  induction b.symbols generalizing init with
  | nil => exact h
  | cons hd tl ih => exact ih _ (symInsert_sorted _ _ h)

/-- in a list with distinct keys the last match is the first match -/
theorem find?_reverse_key {l : List (Symbol × (Nat × Nat))} (h : SymSorted l) (x : Symbol) :
    l.reverse.find? (fun p => p.1 = x) = (l.lookup x).map (fun v => (x, v)) := by
  induction l with
  | nil => rfl
  | cons hd tl ih =>
    obtain ⟨k, v⟩ := hd
    simp only [SymSorted, List.pairwise_cons] at h
    simp only [List.reverse_cons, List.find?_append, ih h.2, lookup_cons_eq]
    by_cases hx : x = k
    · subst hx
      have : tl.lookup x = none := by
        cases hl : tl.lookup x with
        | none => rfl
        | some v' =>
          have := h.1 _ (mem_of_lookup hl)
          simp at this
      simp [this]
    · have : ¬ k = x := fun e => hx e.symm
      simp only [hx, if_false, List.find?_cons, this, decide_false, List.find?_nil]
      cases tl.lookup x <;> rfl

/-- a line number (non-negative symbol): `b`'s entry re-based by the sizes of `a`, else `a`'s entry -/
theorem appendSymbols_lookup_line {a b : Link} (hb : SymSorted b.symbols) (ha : a.currentSymbol ≤ 0)
    (x : Symbol) (hx : 0 ≤ x) :
    (appendSymbols a b).lookup x =
      match b.symbols.lookup x with
      | some (o, d) => some (o + a.ops.size, d + a.data.size)
      | none => a.symbols.lookup x := by
  unfold appendSymbols
  rw [foldl_symInsert_lookup (rebase a.currentSymbol) (fun v => (v.1 + a.ops.size, v.2 + a.data.size))]
  have hp : (fun (p : Symbol × (Nat × Nat)) => decide (rebase a.currentSymbol p.1 = x)) = (fun p => decide (p.1 = x)) := by
    funext p
    congr 1
    unfold rebase
    simp only [Symbol] at *
    split
    · apply propext; constructor <;> intro <;> omega
    · rfl
  rw [hp, find?_reverse_key hb]
  cases b.symbols.lookup x with
  | none => rfl
  | some v => rfl

/-- a local label `s` of `b` is found at `s + a.currentSymbol`, with re-based addresses -/
theorem appendSymbols_lookup_local_right {a b : Link} (hb : SymSorted b.symbols) (ha : a.currentSymbol ≤ 0)
    (x : Symbol) (hx : x < 0)
    (hin : (b.symbols.lookup x).isSome) :
    (appendSymbols a b).lookup (x + a.currentSymbol) =
      (b.symbols.lookup x).map (fun v => (v.1 + a.ops.size, v.2 + a.data.size)) := by
  unfold appendSymbols
  rw [foldl_symInsert_lookup (rebase a.currentSymbol) (fun v => (v.1 + a.ops.size, v.2 + a.data.size))]
  have hp : (fun (p : Symbol × (Nat × Nat)) => decide (rebase a.currentSymbol p.1 = x + a.currentSymbol))
      = (fun p => decide (p.1 = x)) := by
    funext p
    congr 1
    unfold rebase
    simp only [Symbol] at *
    split
    · apply propext; constructor <;> intro <;> omega
    · apply propext; constructor <;> intro <;> omega
  rw [hp, find?_reverse_key hb]
  cases hl : b.symbols.lookup x with
  | none => rw [hl] at hin; cases hin
  | some v => rfl

/-- a label that `b` does not define after re-basing is looked up in `a` -/
theorem appendSymbols_lookup_left {a b : Link} (x : Symbol)
    (hno : ∀ q ∈ b.symbols, rebase a.currentSymbol q.1 ≠ x) :
    (appendSymbols a b).lookup x = a.symbols.lookup x := by
  unfold appendSymbols
  rw [foldl_symInsert_lookup (rebase a.currentSymbol) (fun v => (v.1 + a.ops.size, v.2 + a.data.size))]
  have : b.symbols.reverse.find? (fun p => decide (rebase a.currentSymbol p.1 = x)) = none := by
    rw [List.find?_eq_none]
    intro q hq
    simp only [decide_eq_true_eq]
    exact hno q (List.mem_reverse.1 hq)
  rw [this]

/-! ### pending references of an appended link -/

theorem foldr_unlInsert_lookup (f : Nat → Nat) (g : Col × Symbol → Col × Symbol)
    (l : List (Nat × (Col × Symbol))) (init : List (Nat × (Col × Symbol))) (x : Nat) :
    (l.foldr (fun p m => unlInsert (f p.1) (g p.2) m) init).lookup x =
      match l.find? (fun p => f p.1 = x) with
      | some p => some (g p.2)
      | none => init.lookup x := by
  induction l with
  | nil => rfl
  | cons hd tl ih =>
    simp only [List.foldr_cons, unlInsert_lookup, List.find?_cons, ih]
    by_cases hx : f hd.1 = x
    · simp [hx]
    · have : ¬ x = f hd.1 := fun e => hx e.symm
      simp [hx, this]

theorem find?_key_nat {β} (l : List (Nat × β)) (x : Nat) :
    l.find? (fun p => p.1 = x) = (l.lookup x).map (fun v => (x, v)) := by
  induction l with
  | nil => rfl
  | cons hd tl ih =>
    obtain ⟨k, v⟩ := hd
    simp only [List.find?_cons, lookup_cons_eq_nat, ih]
    by_cases hx : k = x
    · subst hx; simp
    · have : ¬ x = k := fun e => hx e.symm
      simp [hx, this]

/-- a pending reference of `b` at address `y` is found at `y + |a.ops|`, its symbol re-based;
    addresses `b` does not mention keep `a`'s entry -/
theorem appendUnlinked_lookup_right (a b : Link) (y : Nat) :
    (appendUnlinked a b).lookup (y + a.ops.size) =
      match b.unlinked.lookup y with
      | some (c, s) => some (c, rebase a.currentSymbol s)
      | none => a.unlinked.lookup (y + a.ops.size) := by
  unfold appendUnlinked
  rw [foldr_unlInsert_lookup (· + a.ops.size) (fun v => (v.1, rebase a.currentSymbol v.2))]
  have hp : (fun (p : Nat × (Col × Symbol)) => decide (p.1 + a.ops.size = y + a.ops.size)) = (fun p => decide (p.1 = y)) := by
    funext p
    congr 1
    apply propext; constructor <;> intro <;> omega
  rw [hp, find?_key_nat]
  cases b.unlinked.lookup y with
  | none => rfl
  | some v => rfl

/-- addresses below `|a.ops|` keep `a`'s pending reference -/
theorem appendUnlinked_lookup_left (a b : Link) (x : Nat) (hx : x < a.ops.size) :
    (appendUnlinked a b).lookup x = a.unlinked.lookup x := by
  unfold appendUnlinked
  rw [foldr_unlInsert_lookup (· + a.ops.size) (fun v => (v.1, rebase a.currentSymbol v.2))]
  have : b.unlinked.find? (fun p => decide (p.1 + a.ops.size = x)) = none := by
    rw [List.find?_eq_none]
    intro q _
    simp only [decide_eq_true_eq]
    omega
  rw [this]

theorem mem_appendUnlinked {a b : Link} {p : Nat × (Col × Symbol)} (h : p ∈ appendUnlinked a b) :
    p ∈ a.unlinked ∨ ∃ q ∈ b.unlinked, p = (q.1 + a.ops.size, (q.2.1, rebase a.currentSymbol q.2.2)) := by
  unfold appendUnlinked at h
  generalize b.unlinked = bs at h ⊢
  induction bs with
  | nil => exact .inl h
  | cons hd tl ih =>
    simp only [List.foldr_cons] at h
    rcases mem_unlInsert h with h | ⟨h, _⟩
    · exact .inr ⟨hd, List.mem_cons_self, h⟩
    · rcases ih h with h | ⟨q, hq, e⟩
      · exact .inl h
      · exact .inr ⟨q, List.mem_cons_of_mem _ hq, e⟩

theorem mem_appendWhiles {a b : Link} {p : Bool × Col × Nat × Symbol} (h : p ∈ appendWhiles a b) :
    p ∈ a.whiles ∨ ∃ q ∈ b.whiles, p = (q.1, q.2.1, q.2.2.1 + a.ops.size, q.2.2.2 + a.currentSymbol) := by
  unfold appendWhiles at h
  simp only [List.mem_append, List.mem_map] at h
  rcases h with h | ⟨q, hq, e⟩
  · exact .inl h
  · exact .inr ⟨q, hq, e.symm⟩

/-! ### associativity on code and data, neutral element -/

theorem append_assoc_ops_data {a b c : Link}
    (h1 : (a.append b).2 = .ok ()) (h2 : ((a.append b).1.append c).2 = .ok ())
    (h3 : (b.append c).2 = .ok ()) (h4 : (a.append (b.append c).1).2 = .ok ()) :
    ((a.append b).1.append c).1.ops = (a.append (b.append c).1).1.ops ∧
    ((a.append b).1.append c).1.data = (a.append (b.append c).1).1.data := by
  rw [append_ops h2, append_ops h1, append_ops h4, append_ops h3,
      append_data h2, append_data h1, append_data h4, append_data h3]
  exact ⟨Array.append_assoc .., Array.append_assoc ..⟩

/-- appending the empty fragment changes nothing (whatever the outcome) -/
theorem append_empty (a : Link) : (a.append {}).1 = a := by
  rcases append_cases a {} with ⟨_, _, e⟩ | ⟨_, e⟩ | ⟨_, _, e⟩ | ⟨_, _, e⟩ <;> rw [e] <;>
    simp [appended, appendSymbols, appendUnlinked, appendWhiles]

theorem append_empty_ok (a : Link) (ho : a.ops.size ≤ Gen.stackMaxLen) (hd : a.data.size ≤ Gen.stackMaxLen) :
    a.append {} = (a, .ok ()) := by
  have h1 := append_empty a
  rcases append_cases a {} with ⟨_, h, _⟩ | ⟨h, _⟩ | ⟨_, h, _⟩ | ⟨_, _, e⟩
  · simp at h
  · simp at h; omega
  · simp at h; omega
  · rw [e] at h1 ⊢; simp only at h1; rw [h1]

/-- appending to the empty link: code and data are those of the fragment -/
theorem empty_append_ops_data {b : Link} (h : (({} : Link).append b).2 = .ok ()) :
    (({} : Link).append b).1.ops = b.ops ∧ (({} : Link).append b).1.data = b.data := by
  rw [append_ops h, append_data h]; simp

/-- append fragments one after the other, stopping at the first failure (the loop of `codegen`) -/
def appendMany (a : Link) : List Link → Link × Except Error Unit
  | [] => (a, .ok ())
  | f :: fs =>
    match a.append f with
    | (a', .ok ()) => appendMany a' fs
    | (a', .error e) => (a', .error e)

/-- code and data after appending a sequence of fragments: the concatenation in append order -/
theorem appendMany_ops_data (a : Link) (fs : List Link) (h : (appendMany a fs).2 = .ok ()) :
    (appendMany a fs).1.ops.toList = a.ops.toList ++ (fs.map (·.ops.toList)).flatten ∧
    (appendMany a fs).1.data.toList = a.data.toList ++ (fs.map (·.data.toList)).flatten := by
  induction fs generalizing a with
  | nil => simp [appendMany]
  | cons f fs ih =>
    simp only [appendMany] at h ⊢
    cases hr : a.append f with
    | mk a' r =>
      cases r with
      | error e => rw [hr] at h; simp only at h; cases h
      | ok u =>
        rw [hr] at h
        simp only at h ⊢
        have hok : (a.append f).2 = .ok () := by rw [hr]
        have h1 := append_ops hok
        have h2 := append_data hok
        rw [hr] at h1 h2
        simp only at h1 h2
        obtain ⟨i1, i2⟩ := ih a' h
        rw [i1, i2, h1, h2]
        simp [List.append_assoc]

/-! ### local labels -/

/-- every local (negative) label mentioned by the link was handed out by `nextSymbol`:
    it lies in `currentSymbol ≤ s < 0` -/
structure LocalOk (l : Link) : Prop where
  cur : l.currentSymbol ≤ 0
  symbols : ∀ p ∈ l.symbols, p.1 < 0 → l.currentSymbol ≤ p.1
  unlinked : ∀ p ∈ l.unlinked, p.2.2 < 0 → l.currentSymbol ≤ p.2.2
  whiles : ∀ p ∈ l.whiles, l.currentSymbol ≤ p.2.2.2 ∧ p.2.2.2 < 0

theorem LocalOk.empty : LocalOk {} :=
  ⟨Int.le_refl 0, fun _ h => (nomatch h), fun _ h => (nomatch h), fun _ h => (nomatch h)⟩

theorem LocalOk.push {l : Link} (h : LocalOk l) (op : Opcode) : LocalOk (l.push op).1 :=
  ⟨h.cur, h.symbols, h.unlinked, h.whiles⟩

theorem LocalOk.pushData {l : Link} (h : LocalOk l) (v : Val) : LocalOk (l.pushData v).1 :=
  ⟨h.cur, h.symbols, h.unlinked, h.whiles⟩

/-- `nextSymbol` hands out a fresh label inside the (enlarged) range -/
theorem LocalOk.nextSymbol {l : Link} (h : LocalOk l) :
    LocalOk l.nextSymbol.1 ∧ l.nextSymbol.2 = l.nextSymbol.1.currentSymbol ∧ l.nextSymbol.2 < 0 ∧
    l.nextSymbol.2 < l.currentSymbol := by
  have hc := h.cur
  refine ⟨⟨?_, ?_, ?_, ?_⟩, rfl, ?_, ?_⟩
  · show l.currentSymbol - 1 ≤ 0
    simp only [Symbol] at *; omega
  · intro p hp hn
    have := h.symbols p hp hn
    show l.currentSymbol - 1 ≤ p.1
    simp only [Symbol] at *; omega
  · intro p hp hn
    have := h.unlinked p hp hn
    show l.currentSymbol - 1 ≤ p.2.2
    simp only [Symbol] at *; omega
  · intro p hp
    have := h.whiles p hp
    show l.currentSymbol - 1 ≤ p.2.2.2 ∧ _
    simp only [Symbol] at *; omega
  · show l.currentSymbol - 1 < 0
    simp only [Symbol] at *; omega
  · show l.currentSymbol - 1 < l.currentSymbol
    simp only [Symbol] at *; omega

/-- the label just handed out is fresh: nothing in the link mentions it yet -/
theorem nextSymbol_fresh {l : Link} (h : LocalOk l) :
    (∀ p ∈ l.symbols, p.1 ≠ l.nextSymbol.2) ∧ (∀ p ∈ l.unlinked, p.2.2 ≠ l.nextSymbol.2) ∧
    (∀ p ∈ l.whiles, p.2.2.2 ≠ l.nextSymbol.2) := by
  have hc := h.cur
  refine ⟨?_, ?_, ?_⟩
  · intro p hp e
    have e' : p.1 = l.currentSymbol - 1 := e
    have := h.symbols p hp (by simp only [Symbol] at *; omega)
    simp only [Symbol] at *; omega
  · intro p hp e
    have e' : p.2.2 = l.currentSymbol - 1 := e
    have := h.unlinked p hp (by simp only [Symbol] at *; omega)
    simp only [Symbol] at *; omega
  · intro p hp e
    have e' : p.2.2.2 = l.currentSymbol - 1 := e
    have := h.whiles p hp
    simp only [Symbol] at *; omega

theorem LocalOk.pushSymbol {l : Link} (h : LocalOk l) (sym : Symbol) (hs : 0 ≤ sym ∨ l.currentSymbol ≤ sym) :
    LocalOk (l.pushSymbol sym) := by
  refine ⟨h.cur, ?_, h.unlinked, h.whiles⟩
  intro p hp hn
  rcases mem_symInsert hp with e | hp
  · subst e
    show l.currentSymbol ≤ sym
    have hn' : sym < 0 := hn
    rcases hs with hs | hs
    · simp only [Symbol] at *; omega
    · exact hs
  · exact h.symbols p hp hn

theorem LocalOk.addUnlinked {l : Link} (h : LocalOk l) (c : Col) (sym : Symbol)
    (hs : 0 ≤ sym ∨ l.currentSymbol ≤ sym) : LocalOk (l.addUnlinked c sym) := by
  refine ⟨h.cur, h.symbols, ?_, h.whiles⟩
  intro p hp hn
  rcases mem_unlInsert hp with e | ⟨hp, _⟩
  · subst e
    show l.currentSymbol ≤ sym
    have hn' : sym < 0 := hn
    rcases hs with hs | hs
    · simp only [Symbol] at *; omega
    · exact hs
  · exact h.unlinked p hp hn

theorem rebase_neg {so : Int} {s : Symbol} (h : rebase so s < 0) : s < 0 := by
  unfold rebase at h
  split at h
  · assumption
  · exact h

/-- `append` keeps the invariant: the labels of `b` land strictly below those of `a` -/
theorem LocalOk.appended {a b : Link} (ha : LocalOk a) (hb : LocalOk b) : LocalOk (appended a b) := by
  have hca := ha.cur
  have hcb := hb.cur
  refine ⟨?_, ?_, ?_, ?_⟩
  · show a.currentSymbol + b.currentSymbol ≤ 0
    simp only [Symbol] at *; omega
  · intro p hp hn
    show a.currentSymbol + b.currentSymbol ≤ p.1
    rcases mem_appendSymbols hp with hp | ⟨q, hq, e⟩
    · have := ha.symbols p hp hn
      simp only [Symbol] at *; omega
    · subst e
      have hq0 : q.1 < 0 := rebase_neg hn
      have := hb.symbols q hq hq0
      show _ ≤ rebase a.currentSymbol q.1
      unfold rebase
      simp only [Symbol] at *
      rw [if_pos hq0]; omega
  · intro p hp hn
    show a.currentSymbol + b.currentSymbol ≤ p.2.2
    rcases mem_appendUnlinked hp with hp | ⟨q, hq, e⟩
    · have := ha.unlinked p hp hn
      simp only [Symbol] at *; omega
    · subst e
      have hq0 : q.2.2 < 0 := rebase_neg hn
      have := hb.unlinked q hq hq0
      show _ ≤ rebase a.currentSymbol q.2.2
      unfold rebase
      simp only [Symbol] at *
      rw [if_pos hq0]; omega
  · intro p hp
    show a.currentSymbol + b.currentSymbol ≤ p.2.2.2 ∧ p.2.2.2 < 0
    rcases mem_appendWhiles hp with hp | ⟨q, hq, e⟩
    · have := ha.whiles p hp
      simp only [Symbol] at *; omega
    · subst e
      have := hb.whiles q hq
      show _ ≤ q.2.2.2 + a.currentSymbol ∧ q.2.2.2 + a.currentSymbol < 0
      simp only [Symbol] at *; omega

theorem LocalOk.append {a b : Link} (ha : LocalOk a) (hb : LocalOk b) (h : (a.append b).2 = .ok ()) :
    LocalOk (a.append b).1 := by
  rw [append_ok h]; exact LocalOk.appended ha hb

/-- `local_symbols_disjoint`: after `append`, a re-based local label of `b` lies strictly below
    `a.currentSymbol`, every local label of `a` lies at or above it — they never collide -/
theorem local_symbols_disjoint {a b : Link} (ha : LocalOk a) (hb : LocalOk b) :
    (∀ p ∈ a.symbols, p.1 < 0 → ∀ q ∈ b.symbols, q.1 < 0 → p.1 ≠ rebase a.currentSymbol q.1) ∧
    (∀ p ∈ a.unlinked, p.2.2 < 0 → ∀ q ∈ b.symbols, q.1 < 0 → p.2.2 ≠ rebase a.currentSymbol q.1) ∧
    (∀ p ∈ a.symbols, p.1 < 0 → ∀ q ∈ b.unlinked, q.2.2 < 0 → p.1 ≠ rebase a.currentSymbol q.2.2) ∧
    (∀ p ∈ a.whiles, ∀ q ∈ b.symbols, q.1 < 0 → p.2.2.2 ≠ rebase a.currentSymbol q.1) ∧
    (∀ p ∈ a.symbols, p.1 < 0 → ∀ q ∈ b.whiles, p.1 ≠ q.2.2.2 + a.currentSymbol) := by
  refine ⟨?_, ?_, ?_, ?_, ?_⟩
  · intro p hp hn q _ hq0
    have := ha.symbols p hp hn
    unfold rebase; simp only [Symbol] at *; rw [if_pos hq0]; omega
  · intro p hp hn q _ hq0
    have := ha.unlinked p hp hn
    unfold rebase; simp only [Symbol] at *; rw [if_pos hq0]; omega
  · intro p hp hn q _ hq0
    have := ha.symbols p hp hn
    unfold rebase; simp only [Symbol] at *; rw [if_pos hq0]; omega
  · intro p hp q _ hq0
    have := ha.whiles p hp
    unfold rebase; simp only [Symbol] at *; rw [if_pos hq0]; omega
  · intro p hp hn q hq
    have := ha.symbols p hp hn
    have := hb.whiles q hq
    simp only [Symbol] at *; omega

/-- consequence for lookups: a local label of `a` still resolves to `a`'s own entry after `append` -/
theorem appendSymbols_lookup_local_left {a b : Link} (ha : LocalOk a) (hb : LocalOk b)
    (x : Symbol) (hx : x < 0) (hxa : a.currentSymbol ≤ x) :
    (appendSymbols a b).lookup x = a.symbols.lookup x := by
  apply appendSymbols_lookup_left
  intro q hq e
  unfold rebase at e
  have hca := ha.cur
  split at e
  · rename_i hq0
    have := hb.symbols q hq hq0
    have := hb.cur
    simp only [Symbol] at *; omega
  · simp only [Symbol] at *; omega

/-! ### `lineNumberFor` -/

/-- in a list descending by key, `find?` returns the entry with the greatest key among those satisfying `P` -/
theorem find?_desc_max {P : Symbol × (Nat × Nat) → Bool} {l : List (Symbol × (Nat × Nat))}
    (hl : l.Pairwise (fun p q => q.1 < p.1)) {x : Symbol × (Nat × Nat)} (h : l.find? P = some x) :
    ∀ y ∈ l, P y = true → y.1 ≤ x.1 := by
  induction l with
  | nil => cases h
  | cons hd tl ih =>
    simp only [List.pairwise_cons] at hl
    simp only [List.find?_cons] at h
    intro y hy hP
    cases hhd : P hd with
    | true =>
      rw [hhd] at h
      injection h with h; subst h
      rcases List.mem_cons.1 hy with e | hy
      · subst e; exact Int.le_refl _
      · exact Int.le_of_lt (hl.1 y hy)
    | false =>
      rw [hhd] at h
      rcases List.mem_cons.1 hy with e | hy
      · subst e; rw [hhd] at hP; cases hP
      · exact ih hl.2 h y hy hP

theorem lineNumberFor_cands_desc {l : Link} (hs : SymSorted l.symbols) :
    ((l.symbols.filter (fun p => p.1 ≥ 0)).reverse).Pairwise (fun p q => q.1 < p.1) := by
  rw [List.pairwise_reverse]
  exact List.Pairwise.filter _ hs

/-- `lineNumberFor` characterisation: with a sorted table, `lineNumberFor a = some n` exactly when `n` is
    the greatest non-negative symbol (line number) whose code address is `≤ a` — the line the
    address belongs to when line addresses are non-decreasing (see `lineNumberFor_monotone`) -/
theorem lineNumberFor_eq_some_iff {l : Link} (hs : SymSorted l.symbols) (a n : Nat) (hn : n ≤ Gen.maxLineNumber) :
    l.lineNumberFor a = some n ↔
      (∃ o d, ((n : Int), (o, d)) ∈ l.symbols ∧ o ≤ a) ∧
      (∀ p ∈ l.symbols, 0 ≤ p.1 → p.2.1 ≤ a → p.1 ≤ (n : Int)) := by
  have hdesc := lineNumberFor_cands_desc hs
  unfold lineNumberFor
  simp only
  constructor
  · intro h
    cases hf : ((l.symbols.filter (fun p => p.1 ≥ 0)).reverse).find? (fun p => decide (a ≥ p.2.1)) with
    | none => rw [hf] at h; cases h
    | some x =>
      rw [hf] at h
      obtain ⟨k, o, d⟩ := x
      simp only at h
      split at h
      · rename_i hk
        injection h with h
        have hmem := List.mem_of_find?_eq_some hf
        have hP := List.find?_some hf
        simp only [List.mem_reverse, List.mem_filter, ge_iff_le, decide_eq_true_eq] at hmem hP
        have hkn : k = (n : Int) := by simp only [Symbol] at *; omega
        subst hkn
        refine ⟨⟨o, d, hmem.1, hP⟩, ?_⟩
        intro p hp h0 hpa
        have := find?_desc_max hdesc hf p
          (by simp only [List.mem_reverse, List.mem_filter, ge_iff_le, decide_eq_true_eq]; exact ⟨hp, h0⟩)
          (by simp only [ge_iff_le, decide_eq_true_eq]; exact hpa)
        exact this
      · cases h
  · rintro ⟨⟨o, d, hmem, hoa⟩, hmax⟩
    cases hf : ((l.symbols.filter (fun p => p.1 ≥ 0)).reverse).find? (fun p => decide (a ≥ p.2.1)) with
    | none =>
      rw [List.find?_eq_none] at hf
      have := hf ((n : Int), (o, d))
        (by simp only [List.mem_reverse, List.mem_filter, ge_iff_le, decide_eq_true_eq]
            exact ⟨hmem, Int.natCast_nonneg n⟩)
      simp only [ge_iff_le, decide_eq_true_eq] at this
      exact absurd hoa this
    | some x =>
      obtain ⟨k, o', d'⟩ := x
      have hmem' := List.mem_of_find?_eq_some hf
      have hP := List.find?_some hf
      simp only [List.mem_reverse, List.mem_filter, ge_iff_le, decide_eq_true_eq] at hmem' hP
      have h1 : k ≤ (n : Int) := hmax _ hmem'.1 hmem'.2 hP
      have h2 : (n : Int) ≤ k := find?_desc_max hdesc hf ((n : Int), (o, d))
        (by simp only [List.mem_reverse, List.mem_filter, ge_iff_le, decide_eq_true_eq]
            exact ⟨hmem, Int.natCast_nonneg n⟩)
        (by simp only [ge_iff_le, decide_eq_true_eq]; exact hoa)
      have hkn : k = (n : Int) := by simp only [Symbol] at *; omega
      subst hkn
      simp only
      rw [if_pos (by exact_mod_cast hn)]
      simp

/-- with non-decreasing line addresses, the lines at or before `lineNumberFor a` are exactly those
    whose address is `≤ a` -/
theorem lineNumberFor_monotone {l : Link} (hs : SymSorted l.symbols) (a n : Nat) (hn : n ≤ Gen.maxLineNumber)
    (hmono : ∀ p ∈ l.symbols, ∀ q ∈ l.symbols, 0 ≤ p.1 → p.1 ≤ q.1 → p.2.1 ≤ q.2.1)
    (h : l.lineNumberFor a = some n) :
    ∀ p ∈ l.symbols, 0 ≤ p.1 → (p.2.1 ≤ a ↔ p.1 ≤ (n : Int)) := by
  obtain ⟨⟨o, d, hmem, hoa⟩, hmax⟩ := (lineNumberFor_eq_some_iff hs a n hn).1 h
  intro p hp h0
  constructor
  · exact hmax p hp h0
  · intro hle
    have := hmono p hp _ hmem h0 hle
    simp only at this
    omega

/-- no line starts at or before `a`: no line number -/
theorem lineNumberFor_eq_none_of_no_line {l : Link} (a : Nat)
    (h : ∀ p ∈ l.symbols, 0 ≤ p.1 → a < p.2.1) : l.lineNumberFor a = none := by
  unfold lineNumberFor
  simp only
  have : ((l.symbols.filter (fun p => p.1 ≥ 0)).reverse).find? (fun p => decide (a ≥ p.2.1)) = none := by
    rw [List.find?_eq_none]
    intro x hx
    simp only [List.mem_reverse, List.mem_filter, ge_iff_le, decide_eq_true_eq] at hx
    have := h x hx.1 hx.2
    simp only [ge_iff_le, decide_eq_true_eq]
    omega
  rw [this]

/-! ### `linkOne` -/

/-- the ops that carry a link-time operand, with the operand replaced -/
def patched (op : Opcode) (o d : Nat) : Option Opcode :=
  match op with
  | .ifNot _ => some (.ifNot o)
  | .jump _ => some (.jump o)
  | .literal (.ret _) => some (.literal (.ret o))
  | .literal (.nxt _) => some (.literal (.nxt o))
  | .restore _ => some (.restore d)
  | _ => none

/-- `linkOne_resolves`: a defined symbol is patched into the referring op — the operand is the
    table entry of the symbol and nothing else; no error -/
theorem linkOne_resolves {l : Link} {a : Nat} {c : Col} {sym : Symbol} {o d : Nat} {op op' : Opcode}
    (hsym : l.symbols.lookup sym = some (o, d)) (hop : l.ops[a]? = some op) (hp : patched op o d = some op') :
    l.linkOne a c sym = ({ l with ops := l.ops.setIfInBounds a op' }, none) := by
  unfold linkOne
  simp only [hsym, hop]
  cases op with
  | ifNot x => simp only [patched] at hp; injection hp with hp; subst hp; rfl
  | jump x => simp only [patched] at hp; injection hp with hp; subst hp; rfl
  | restore x => simp only [patched] at hp; injection hp with hp; subst hp; rfl
  | literal v =>
    cases v with
    | ret x => simp only [patched] at hp; injection hp with hp; subst hp; rfl
    | nxt x => simp only [patched] at hp; injection hp with hp; subst hp; rfl
    | _ => simp [patched] at hp
  | _ => simp [patched] at hp

/-- the op read back after `linkOne` -/
theorem linkOne_resolves_get {l : Link} {a : Nat} {c : Col} {sym : Symbol} {o d : Nat} {op op' : Opcode}
    (hsym : l.symbols.lookup sym = some (o, d)) (hop : l.ops[a]? = some op) (hp : patched op o d = some op') :
    (l.linkOne a c sym).1.ops[a]? = some op' ∧ (l.linkOne a c sym).2 = none ∧
    (∀ j, j ≠ a → (l.linkOne a c sym).1.ops[j]? = l.ops[j]?) ∧
    (l.linkOne a c sym).1.ops.size = l.ops.size := by
  rw [linkOne_resolves hsym hop hp]
  have hlt : a < l.ops.size := by
    rcases Nat.lt_or_ge a l.ops.size with h | h
    · exact h
    · rw [Array.getElem?_eq_none h] at hop; cases hop
  refine ⟨?_, rfl, ?_, ?_⟩
  · simp [hlt]
  · intro j hj
    simp only [Array.getElem?_setIfInBounds]
    rw [if_neg (fun e => hj e.symm)]
  · simp

/-- an undefined line number: UNDEFINED LINE with the column of the reference and the line it occurs in;
    the code is unchanged -/
theorem linkOne_undefined {l : Link} {a : Nat} {c : Col} {sym : Symbol}
    (hsym : l.symbols.lookup sym = none) (h0 : 0 ≤ sym) :
    l.linkOne a c sym = (l, some (mkErr Code.undefinedLine (l.lineNumberFor a) c)) := by
  unfold linkOne
  simp only [hsym]
  rw [if_pos h0]

theorem mkErr_fields (code : Nat) (line : Option Nat) (c : Col) :
    (mkErr code line c).code = code ∧ (mkErr code line c).line = line ∧
    (mkErr code line c).colStart = c.1 ∧ (mkErr code line c).colEnd = c.2 := ⟨rfl, rfl, rfl, rfl⟩

/-! ### `linkWhiles` -/

/-- a WHILE/WEND mark as recorded by codegen: column, code address, label -/
abbrev Mark := Col × Nat × Symbol

/-- the two pending references recorded for a matched pair: the WHILE's `ifNot` (at `w.address`) exits to
    the WEND's label, the WEND's `jump` (at `e.address`) goes back to the WHILE's label -/
def pairRefs (u : List (Nat × (Col × Symbol))) (pr : Mark × Mark) : List (Nat × (Col × Symbol)) :=
  unlInsert pr.2.2.1 (pr.2.1, pr.1.2.2) (unlInsert pr.1.2.1 (pr.1.1, pr.2.2.2) u)

/-- `linkWhiles.go` is bracket matching -/
theorem linkWhiles_go_matches (l : Link) (ws : List (Bool × Mark)) (stack : List Mark)
    (unl : List (Nat × (Col × Symbol))) (errs : List Error) :
    linkWhiles.go l ws stack unl errs =
      ((Spec.bracketAux ws stack).1.foldl pairRefs unl,
       errs ++ (Spec.bracketAux ws stack).2.1.map (fun e => mkErr Code.wendWithoutWhile (l.lineNumberFor e.2.1) e.1),
       (Spec.bracketAux ws stack).2.2) := by
  induction ws generalizing stack unl errs with
  | nil => simp [linkWhiles.go, Spec.bracketAux]
  | cons hd tl ih =>
    obtain ⟨k, c, a, s⟩ := hd
    cases k with
    | true =>
      simp only [linkWhiles.go, Spec.bracketAux]
      exact ih _ _ _
    | false =>
      cases stack with
      | nil =>
        simp only [linkWhiles.go, Spec.bracketAux]
        rw [ih]
        simp [List.append_assoc]
      | cons w st =>
        obtain ⟨wc, wa, ws'⟩ := w
        simp only [linkWhiles.go, Spec.bracketAux]
        rw [ih]
        simp [pairRefs]

/-- `linkWhiles_matches`: WHILE and WEND marks are paired as brackets in code order; every pair
    yields its two references, every unmatched WEND a WEND WITHOUT WHILE, every unmatched WHILE a
    WHILE WITHOUT WEND (after the former), each at its own column and line -/
theorem linkWhiles_matches (l : Link) :
    l.linkWhiles =
      ({ l with whiles := [], unlinked := (Spec.bracketMatch l.whiles).1.foldl pairRefs l.unlinked },
       (Spec.bracketMatch l.whiles).2.1.map (fun e => mkErr Code.wendWithoutWhile (l.lineNumberFor e.2.1) e.1) ++
       (Spec.bracketMatch l.whiles).2.2.map (fun w => mkErr Code.whileWithoutWend (l.lineNumberFor w.2.1) w.1)) := by
  unfold linkWhiles
  simp only [linkWhiles_go_matches, Spec.bracketMatch, List.nil_append]

/-! ### `link`: every pending reference -/

/-- one iteration of the loop of `Link::link` -/
def linkStep (acc : Link × List Error) (p : Nat × (Col × Symbol)) : Link × List Error :=
  match linkOne acc.1 p.1 p.2.1 p.2.2 with
  | (l, some e) => (l, acc.2 ++ [e])
  | (l, none) => (l, acc.2)

theorem link_eq (l : Link) :
    l.link =
      let r := l.linkWhiles.1.unlinked.foldl linkStep ({ l.linkWhiles.1 with unlinked := [] }, l.linkWhiles.2)
      ({ r.1 with symbols := r.1.symbols.filter (fun p => p.1 ≥ 0), currentSymbol := 0 }, r.2) := by
  rfl

theorem linkOne_symbols (l : Link) (a : Nat) (c : Col) (sym : Symbol) :
    (l.linkOne a c sym).1.symbols = l.symbols := by
  unfold linkOne
  split
  · split <;> rfl
  · split <;> rfl

theorem linkOne_ops_other (l : Link) (a : Nat) (c : Col) (sym : Symbol) (j : Nat) (hj : j ≠ a) :
    (l.linkOne a c sym).1.ops[j]? = l.ops[j]? := by
  have hset : ∀ op, (l.ops.setIfInBounds a op)[j]? = l.ops[j]? := by
    intro op
    rw [Array.getElem?_setIfInBounds, if_neg (fun e => hj e.symm)]
  unfold linkOne
  split
  · split <;> rfl
  · split <;> first | rfl | exact hset _

theorem linkOne_lineNumberFor (l : Link) (a : Nat) (c : Col) (sym : Symbol) (x : Nat) :
    (l.linkOne a c sym).1.lineNumberFor x = l.lineNumberFor x := by
  unfold lineNumberFor
  rw [linkOne_symbols]

theorem linkStep_symbols (acc : Link × List Error) (p : Nat × (Col × Symbol)) :
    (linkStep acc p).1.symbols = acc.1.symbols := by
  unfold linkStep
  have := linkOne_symbols acc.1 p.1 p.2.1 p.2.2
  split <;> (rename_i h; rw [h] at this; exact this)

theorem linkStep_ops_other (acc : Link × List Error) (p : Nat × (Col × Symbol)) (j : Nat) (hj : j ≠ p.1) :
    (linkStep acc p).1.ops[j]? = acc.1.ops[j]? := by
  unfold linkStep
  have := linkOne_ops_other acc.1 p.1 p.2.1 p.2.2 j hj
  split <;> (rename_i h; rw [h] at this; exact this)

theorem linkStep_errs_mono (acc : Link × List Error) (p : Nat × (Col × Symbol)) (e : Error) (he : e ∈ acc.2) :
    e ∈ (linkStep acc p).2 := by
  unfold linkStep
  split
  · exact List.mem_append_left _ he
  · exact he

theorem foldl_linkStep_symbols (ps : List (Nat × (Col × Symbol))) (acc : Link × List Error) :
    (ps.foldl linkStep acc).1.symbols = acc.1.symbols := by
  induction ps generalizing acc with
  | nil => rfl
  | cons hd tl ih => rw [List.foldl_cons, ih, linkStep_symbols]

theorem foldl_linkStep_ops_other (ps : List (Nat × (Col × Symbol))) (acc : Link × List Error) (j : Nat)
    (hj : ∀ p ∈ ps, p.1 ≠ j) : (ps.foldl linkStep acc).1.ops[j]? = acc.1.ops[j]? := by
  induction ps generalizing acc with
  | nil => rfl
  | cons hd tl ih =>
    rw [List.foldl_cons, ih _ (fun p hp => hj p (List.mem_cons_of_mem _ hp)),
      linkStep_ops_other _ _ _ (fun e => hj hd List.mem_cons_self e.symm)]

theorem foldl_linkStep_errs_mono (ps : List (Nat × (Col × Symbol))) (acc : Link × List Error) (e : Error)
    (he : e ∈ acc.2) : e ∈ (ps.foldl linkStep acc).2 := by
  induction ps generalizing acc with
  | nil => exact he
  | cons hd tl ih => rw [List.foldl_cons]; exact ih _ (linkStep_errs_mono _ _ _ he)

/-- the loop resolves *every* pending reference (addresses distinct, as in a map): a reference to a
    defined symbol ends up patched with that symbol's entry … -/
theorem foldl_linkStep_resolves (ps : List (Nat × (Col × Symbol))) (hd : ps.Pairwise (fun p q => p.1 ≠ q.1))
    (acc : Link × List Error) (a : Nat) (c : Col) (sym : Symbol) (hmem : (a, (c, sym)) ∈ ps)
    {o d : Nat} {op op' : Opcode} (hsym : acc.1.symbols.lookup sym = some (o, d))
    (hop : acc.1.ops[a]? = some op) (hp : patched op o d = some op') :
    (ps.foldl linkStep acc).1.ops[a]? = some op' := by
  induction ps generalizing acc with
  | nil => cases hmem
  | cons p tl ih =>
    rw [List.pairwise_cons] at hd
    rw [List.foldl_cons]
    rcases List.mem_cons.1 hmem with e | hin
    · subst e
      rw [foldl_linkStep_ops_other tl _ a (fun q hq => (hd.1 q hq).symm)]
      unfold linkStep
      simp only [linkOne_resolves hsym hop hp]
      have hlt : a < acc.1.ops.size := by
        rcases Nat.lt_or_ge a acc.1.ops.size with h | h
        · exact h
        · rw [Array.getElem?_eq_none h] at hop; cases hop
      simp [hlt]
    · have hne : a ≠ p.1 := fun e => hd.1 _ hin e.symm
      apply ih hd.2 _ hin
      · rw [linkStep_symbols]; exact hsym
      · rw [linkStep_ops_other _ _ _ hne]; exact hop

/-- … and a reference to a line that does not exist is reported: UNDEFINED LINE with its column and the
    line it occurs in -/
theorem foldl_linkStep_reports (ps : List (Nat × (Col × Symbol)))
    (acc : Link × List Error) (a : Nat) (c : Col) (sym : Symbol) (hmem : (a, (c, sym)) ∈ ps)
    (hsym : acc.1.symbols.lookup sym = none) (h0 : 0 ≤ sym) :
    mkErr Code.undefinedLine (acc.1.lineNumberFor a) c ∈ (ps.foldl linkStep acc).2 := by
  induction ps generalizing acc with
  | nil => cases hmem
  | cons p tl ih =>
    rw [List.foldl_cons]
    rcases List.mem_cons.1 hmem with e | hin
    · subst e
      apply foldl_linkStep_errs_mono
      unfold linkStep
      simp only [linkOne_undefined hsym h0]
      simp
    · have := ih (linkStep acc p) hin (by rw [linkStep_symbols]; exact hsym)
      have hl : (linkStep acc p).1.lineNumberFor a = acc.1.lineNumberFor a := by
        unfold lineNumberFor; rw [linkStep_symbols]
      rw [hl] at this
      exact this

/-- the pending references form a map: addresses are distinct -/
def KeysDistinct (m : List (Nat × (Col × Symbol))) : Prop := m.Pairwise (fun p q => p.1 ≠ q.1)

theorem unlInsert_distinct (k : Nat) (v : Col × Symbol) {m : List (Nat × (Col × Symbol))} (h : KeysDistinct m) :
    KeysDistinct (unlInsert k v m) := by
  unfold unlInsert KeysDistinct
  rw [List.pairwise_cons]
  refine ⟨?_, List.Pairwise.filter _ h⟩
  intro q hq
  simp only [List.mem_filter, ne_eq, decide_not, Bool.not_eq_eq_eq_not, Bool.not_true, decide_eq_false_iff_not] at hq
  exact fun e => hq.2 e.symm

theorem addUnlinked_distinct {l : Link} (c : Col) (s : Symbol) (h : KeysDistinct l.unlinked) :
    KeysDistinct (l.addUnlinked c s).unlinked := unlInsert_distinct _ _ h

theorem appendUnlinked_distinct {a b : Link} (h : KeysDistinct a.unlinked) : KeysDistinct (appendUnlinked a b) := by
  unfold appendUnlinked
  induction b.unlinked with
  | nil => exact h
  | cons hd tl ih => exact unlInsert_distinct _ _ ih

theorem linkWhiles_distinct {l : Link} (h : KeysDistinct l.unlinked) : KeysDistinct l.linkWhiles.1.unlinked := by
  rw [linkWhiles_matches]
  show KeysDistinct ((Spec.bracketMatch l.whiles).1.foldl pairRefs l.unlinked)
  generalize (Spec.bracketMatch l.whiles).1 = prs
  generalize l.unlinked = u at h
  induction prs generalizing u with
  | nil => exact h
  | cons hd tl ih => exact ih _ (unlInsert_distinct _ _ (unlInsert_distinct _ _ h))

/-- `link_resolves`: after `link`, every pending reference (including the ones WHILE/WEND pairing
    adds) to a defined symbol carries that symbol's address, whatever its own position -/
theorem link_resolves (l : Link) (hd : KeysDistinct l.unlinked) (a : Nat) (c : Col) (sym : Symbol)
    (hmem : (a, (c, sym)) ∈ l.linkWhiles.1.unlinked)
    {o d : Nat} {op op' : Opcode} (hsym : l.symbols.lookup sym = some (o, d))
    (hop : l.ops[a]? = some op) (hp : patched op o d = some op') :
    l.link.1.ops[a]? = some op' := by
  rw [link_eq]
  show (l.linkWhiles.1.unlinked.foldl linkStep ({ l.linkWhiles.1 with unlinked := [] }, l.linkWhiles.2)).1.ops[a]? = _
  apply foldl_linkStep_resolves _ (linkWhiles_distinct hd) _ a c sym hmem
  · rw [linkWhiles_matches]; exact hsym
  · rw [linkWhiles_matches]; exact hop
  · exact hp

/-- … and every reference to a missing line is among the reported errors -/
theorem link_reports_undefined (l : Link) (a : Nat) (c : Col) (sym : Symbol)
    (hmem : (a, (c, sym)) ∈ l.linkWhiles.1.unlinked)
    (hsym : l.symbols.lookup sym = none) (h0 : 0 ≤ sym) :
    mkErr Code.undefinedLine (l.lineNumberFor a) c ∈ l.link.2 := by
  rw [link_eq]
  show _ ∈ (l.linkWhiles.1.unlinked.foldl linkStep ({ l.linkWhiles.1 with unlinked := [] }, l.linkWhiles.2)).2
  have := foldl_linkStep_reports l.linkWhiles.1.unlinked ({ l.linkWhiles.1 with unlinked := [] }, l.linkWhiles.2)
    a c sym hmem (by rw [linkWhiles_matches]; exact hsym) h0
  have hl : ({ l.linkWhiles.1 with unlinked := [] } : Link).lineNumberFor a = l.lineNumberFor a := by
    rw [linkWhiles_matches]; rfl
  simp only at this
  rw [hl] at this
  exact this

/-- after `link` only line numbers remain in the table and no reference is pending -/
theorem link_cleans (l : Link) :
    (∀ p ∈ l.link.1.symbols, 0 ≤ p.1) ∧ l.link.1.currentSymbol = 0 ∧ l.link.1.ops.size = l.ops.size := by
  rw [link_eq]
  refine ⟨?_, rfl, ?_⟩
  · intro p hp
    simp only [List.mem_filter, ge_iff_le, decide_eq_true_eq] at hp
    exact hp.2
  · show (l.linkWhiles.1.unlinked.foldl linkStep ({ l.linkWhiles.1 with unlinked := [] }, l.linkWhiles.2)).1.ops.size = _
    have hsz : ∀ (ps : List (Nat × (Col × Symbol))) (acc : Link × List Error),
        (ps.foldl linkStep acc).1.ops.size = acc.1.ops.size := by
      intro ps
      induction ps with
      | nil => intro acc; rfl
      | cons hd tl ih =>
        intro acc
        rw [List.foldl_cons, ih]
        unfold linkStep
        have h1 : (acc.1.linkOne hd.1 hd.2.1 hd.2.2).1.ops.size = acc.1.ops.size := by
          unfold linkOne
          split
          · split <;> rfl
          · split <;> simp
        split <;> (rename_i h; rw [h] at h1; exact h1)
    rw [hsz, linkWhiles_matches]

/-! ### field projections of the link operations (simp set for codegen proofs) -/

/-- append raw ops (a run of `push`es) -/
def pushOps (l : Link) (ops : Array Opcode) : Link := { l with ops := l.ops ++ ops }

section fields
variable (l : Link) (op : Opcode) (c : Col) (s : Symbol) (f : Link) (os : Array Opcode)
@[simp] theorem push_ops : (l.push op).1.ops = l.ops.push op := rfl
@[simp] theorem push_data : (l.push op).1.data = l.data := rfl
@[simp] theorem push_symbols : (l.push op).1.symbols = l.symbols := rfl
@[simp] theorem push_unlinked : (l.push op).1.unlinked = l.unlinked := rfl
@[simp] theorem push_currentSymbol : (l.push op).1.currentSymbol = l.currentSymbol := rfl
@[simp] theorem push_directSet : (l.push op).1.directSet = l.directSet := rfl
@[simp] theorem nextSymbol_ops : l.nextSymbol.1.ops = l.ops := rfl
@[simp] theorem nextSymbol_data : l.nextSymbol.1.data = l.data := rfl
@[simp] theorem nextSymbol_symbols : l.nextSymbol.1.symbols = l.symbols := rfl
@[simp] theorem nextSymbol_unlinked : l.nextSymbol.1.unlinked = l.unlinked := rfl
@[simp] theorem nextSymbol_currentSymbol : l.nextSymbol.1.currentSymbol = l.currentSymbol - 1 := rfl
@[simp] theorem nextSymbol_snd : l.nextSymbol.2 = l.currentSymbol - 1 := rfl
@[simp] theorem nextSymbol_directSet : l.nextSymbol.1.directSet = l.directSet := rfl
@[simp] theorem addUnlinked_ops : (l.addUnlinked c s).ops = l.ops := rfl
@[simp] theorem addUnlinked_data : (l.addUnlinked c s).data = l.data := rfl
@[simp] theorem addUnlinked_symbols : (l.addUnlinked c s).symbols = l.symbols := rfl
@[simp] theorem addUnlinked_unlinked : (l.addUnlinked c s).unlinked = unlInsert l.ops.size (c, s) l.unlinked := rfl
@[simp] theorem addUnlinked_currentSymbol : (l.addUnlinked c s).currentSymbol = l.currentSymbol := rfl
@[simp] theorem addUnlinked_directSet : (l.addUnlinked c s).directSet = l.directSet := rfl
@[simp] theorem pushSymbol_ops : (l.pushSymbol s).ops = l.ops := rfl
@[simp] theorem pushSymbol_data : (l.pushSymbol s).data = l.data := rfl
@[simp] theorem pushSymbol_symbols : (l.pushSymbol s).symbols = symInsert s (l.ops.size, l.data.size) l.symbols := rfl
@[simp] theorem pushSymbol_unlinked : (l.pushSymbol s).unlinked = l.unlinked := rfl
@[simp] theorem pushSymbol_currentSymbol : (l.pushSymbol s).currentSymbol = l.currentSymbol := rfl
@[simp] theorem pushSymbol_directSet : (l.pushSymbol s).directSet = l.directSet := rfl
@[simp] theorem appended_ops : (appended l f).ops = l.ops ++ f.ops := rfl
@[simp] theorem appended_data : (appended l f).data = l.data ++ f.data := rfl
@[simp] theorem appended_symbols : (appended l f).symbols = appendSymbols l f := rfl
@[simp] theorem appended_unlinked : (appended l f).unlinked = appendUnlinked l f := rfl
@[simp] theorem appended_currentSymbol : (appended l f).currentSymbol = l.currentSymbol + f.currentSymbol := rfl
@[simp] theorem appended_directSet : (appended l f).directSet = l.directSet := rfl
@[simp] theorem pushOps_ops : (l.pushOps os).ops = l.ops ++ os := rfl
@[simp] theorem pushOps_data : (l.pushOps os).data = l.data := rfl
@[simp] theorem pushOps_symbols : (l.pushOps os).symbols = l.symbols := rfl
@[simp] theorem pushOps_unlinked : (l.pushOps os).unlinked = l.unlinked := rfl
@[simp] theorem pushOps_currentSymbol : (l.pushOps os).currentSymbol = l.currentSymbol := rfl
@[simp] theorem pushOps_directSet : (l.pushOps os).directSet = l.directSet := rfl
end fields
end Link
end Basic
