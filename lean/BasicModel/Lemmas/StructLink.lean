import BasicModel.Lemmas.StructCodegen
/-
  Linking the fragments of a structured statement: after `Link.link`, the code the generator emitted
  for a structured statement `p` at address `a` IS `compile p a` (`Lemmas/StructCompile.lean`), the
  absolute-address code the run theorems are about.

  Scope (stated in `struct_linked`): the statement's fragments are appended to a CLEAN link `l0` — no
  pending references, no WHILE marks, no local labels (an empty program with its line label, or a
  linked program: the situation of a one-line program and of a direct-mode line) — and only raw ops
  (the `end` of `linkProg` / of a direct line) follow.
-/
namespace Basic
namespace Lemmas.StructLink
open Basic.Spec Basic.Lemmas.ExprCompile Basic.Lemmas.FnCall Basic.Lemmas.StructCompile Basic.Lemmas.StructCodegen
open Basic.Link

/-! ## bracket matching: balanced segments -/

section brackets
open Basic.Spec (bracketAux bracketMatch bracketAux_append bracketAux_nested)
variable {α : Type}

/-- a segment of marks in which every WHILE has its WEND and vice versa -/
def Balanced (ws : List (Bool × α)) : Prop := ∃ prs, bracketMatch ws = (prs, [], [])

theorem balanced_nil : Balanced ([] : List (Bool × α)) := ⟨[], rfl⟩

theorem balanced_append {xs ys : List (Bool × α)} (hx : Balanced xs) (hy : Balanced ys) : Balanced (xs ++ ys) := by
  obtain ⟨p, hp⟩ := hx
  obtain ⟨q, hq⟩ := hy
  have := bracketAux_append xs ys [] [] p [] hp
  simp only [List.append_nil] at this
  refine ⟨p ++ q, ?_⟩
  unfold bracketMatch at hq ⊢
  rw [this, hq]

theorem balanced_wrap (w e : α) {mid : List (Bool × α)} (h : Balanced mid) :
    Balanced ((true, w) :: (mid ++ [(false, e)])) := by
  obtain ⟨p, hp⟩ := h
  have := bracketAux_nested w e mid [] [] p hp
  refine ⟨p ++ [(w, e)], ?_⟩
  unfold bracketMatch
  have e1 : (true, w) :: (mid ++ [(false, e)]) = (true, w) :: mid ++ [(false, e)] := rfl
  rw [e1, this]
  simp [bracketAux]

/-- bracket matching does not look at the payload -/
theorem bracketAux_map {β : Type} (g : α → β) (ws : List (Bool × α)) (st : List α) :
    bracketAux (ws.map fun m => (m.1, g m.2)) (st.map g) =
      ((bracketAux ws st).1.map (fun pr => (g pr.1, g pr.2)), (bracketAux ws st).2.1.map g,
       (bracketAux ws st).2.2.map g) := by
  induction ws generalizing st with
  | nil => simp [bracketAux]
  | cons hd tl ih =>
    obtain ⟨k, x⟩ := hd
    cases k with
    | true =>
      simp only [List.map_cons, bracketAux]
      exact ih (x :: st)
    | false =>
      cases st with
      | nil =>
        simp only [List.map_cons, List.map_nil, bracketAux]
        have := ih []
        simp only [List.map_nil] at this
        rw [this]
      | cons w st' =>
        simp only [List.map_cons, bracketAux]
        rw [ih st']

theorem balanced_map {β : Type} (g : α → β) {ws : List (Bool × α)} (h : Balanced ws) :
    Balanced (ws.map fun m => (m.1, g m.2)) := by
  obtain ⟨p, hp⟩ := h
  have := bracketAux_map g ws []
  unfold bracketMatch at hp
  rw [hp] at this
  exact ⟨_, this⟩

/-- a WHILE … WEND around a balanced segment is a matched pair, whatever surrounds it -/
theorem pair_mem (w e : α) {mid : List (Bool × α)} (h : Balanced mid) (pre post : List (Bool × α)) :
    ∀ st, (w, e) ∈ (bracketAux (pre ++ (true, w) :: (mid ++ (false, e) :: post)) st).1 := by
  obtain ⟨p, hp⟩ := h
  induction pre with
  | nil =>
    intro st
    have := bracketAux_nested w e mid post st p hp
    simp only [List.nil_append]
    have e1 : (true, w) :: (mid ++ (false, e) :: post) = (true, w) :: mid ++ (false, e) :: post := rfl
    rw [e1, this]
    simp
  | cons hd tl ih =>
    intro st
    obtain ⟨k, x⟩ := hd
    cases k with
    | true => simp only [List.cons_append, bracketAux]; exact ih _
    | false =>
      cases st with
      | nil => simp only [List.cons_append, bracketAux]; exact ih _
      | cons w' st' =>
        simp only [List.cons_append, bracketAux]
        exact List.mem_cons_of_mem _ (ih _)

/-- the components of the matched pairs, flattened -/
def pairElems (prs : List (α × α)) : List α := prs.flatMap fun pr => [pr.1, pr.2]

/-- every component of a matched pair is one of the marks (or was open before) -/
theorem pairElems_sub (ws : List (Bool × α)) : ∀ (st : List α) (x : α), x ∈ pairElems (bracketAux ws st).1 →
    x ∈ st ∨ x ∈ ws.map (·.2) := by
  induction ws with
  | nil => intro st x hx; simp [bracketAux, pairElems] at hx
  | cons hd tl ih =>
    intro st x hx
    obtain ⟨k, y⟩ := hd
    cases k with
    | true =>
      simp only [bracketAux] at hx
      rcases ih _ x hx with h | h
      · rcases List.mem_cons.1 h with rfl | h
        · exact .inr (by simp)
        · exact .inl h
      · exact .inr (by simp [h])
    | false =>
      cases st with
      | nil =>
        simp only [bracketAux] at hx
        rcases ih _ x hx with h | h
        · cases h
        · exact .inr (by simp [h])
      | cons w st' =>
        simp only [bracketAux, pairElems, List.flatMap_cons, List.cons_append, List.nil_append, List.mem_cons] at hx
        rcases hx with rfl | rfl | hx
        · exact .inl (by simp)
        · exact .inr (by simp)
        · rcases ih _ x hx with h | h
          · exact .inl (List.mem_cons_of_mem _ h)
          · exact .inr (by simp [h])

/-- distinct marks give distinct pair components (`g` = the address of a mark) -/
theorem pairElems_nodup {β : Type} (g : α → β) (ws : List (Bool × α)) : ∀ (st : List α),
    (st.map g ++ ws.map (fun m => g m.2)).Nodup → ((pairElems (bracketAux ws st).1).map g).Nodup := by
  induction ws with
  | nil => intro st _; simp [bracketAux, pairElems]
  | cons hd tl ih =>
    intro st h
    obtain ⟨k, y⟩ := hd
    cases k with
    | true =>
      simp only [bracketAux]
      apply ih
      simp only [List.map_cons] at h ⊢
      exact (List.perm_middle.nodup_iff).1 h
    | false =>
      cases st with
      | nil =>
        simp only [bracketAux]
        apply ih
        simp only [List.map_nil, List.nil_append, List.map_cons, List.nodup_cons] at h ⊢
        exact h.2
      | cons w st' =>
        simp only [bracketAux, pairElems, List.flatMap_cons, List.cons_append, List.nil_append, List.map_cons]
        simp only [List.map_cons, List.cons_append, List.nodup_cons, List.mem_append, List.mem_cons, List.mem_map,
          not_or] at h
        obtain ⟨⟨hw1, hw2, hw3⟩, hrest⟩ := h
        have hrest' : (st'.map g ++ tl.map (fun m => g m.2)).Nodup := by
          have := hrest
          rw [List.nodup_append] at this ⊢
          refine ⟨this.1, (List.nodup_cons.1 this.2.1).2, ?_⟩
          intro a ha b hb
          exact this.2.2 a ha b (List.mem_cons_of_mem _ hb)
        have hy : g y ∉ st'.map g ++ tl.map (fun m => g m.2) := by
          rw [List.nodup_append] at hrest
          intro hmem
          rcases List.mem_append.1 hmem with hm | hm
          · exact hrest.2.2 _ hm _ List.mem_cons_self rfl
          · exact (List.nodup_cons.1 hrest.2.1).1 hm
        have hsub : ∀ b ∈ (pairElems (bracketAux tl st').1).map g, b ∈ st'.map g ++ tl.map (fun m => g m.2) := by
          intro b hb
          obtain ⟨x, hx, rfl⟩ := List.mem_map.1 hb
          rcases pairElems_sub tl st' x hx with h | h
          · exact List.mem_append_left _ (List.mem_map_of_mem h)
          · obtain ⟨m, hm, rfl⟩ := List.mem_map.1 h
            exact List.mem_append_right _ (List.mem_map.2 ⟨m, hm, rfl⟩)
        refine List.nodup_cons.2 ⟨?_, List.nodup_cons.2 ⟨?_, ih st' hrest'⟩⟩
        · intro hmem
          rcases List.mem_cons.1 hmem with e | hmem
          · exact hw2 e
          · rcases List.mem_append.1 (hsub _ hmem) with hm | hm
            · obtain ⟨x, hx, e⟩ := List.mem_map.1 hm
              exact hw1 ⟨x, hx, e⟩
            · obtain ⟨m, hm', e⟩ := List.mem_map.1 hm
              exact hw3 ⟨m, hm', e⟩
        · intro hmem
          exact hy (hsub _ hmem)

end brackets

/-! ## the pending references after WHILE / WEND pairing -/

/-- the addresses of the WHILE / WEND marks -/
def markAddrs (f : Link) : List Nat := f.whiles.map fun m => m.2.2.1

/-- what `link` resolves: the pending references, plus two for every matched WHILE / WEND pair -/
def pend (f : Link) : List (Nat × (Col × Symbol)) := f.linkWhiles.1.unlinked

theorem pend_eq (f : Link) : pend f = (Spec.bracketMatch f.whiles).1.foldl pairRefs f.unlinked := by
  unfold pend
  rw [linkWhiles_matches]

/-- the addresses mentioned by a list of pairs -/
def pairAddrs (prs : List (Mark × Mark)) : List Nat := (pairElems prs).map fun m => m.2.1

theorem pairRefs_lookup (u : List (Nat × (Col × Symbol))) (pr : Mark × Mark) (x : Nat) :
    (pairRefs u pr).lookup x =
      if x = pr.2.2.1 then some (pr.2.1, pr.1.2.2) else if x = pr.1.2.1 then some (pr.1.1, pr.2.2.2) else u.lookup x := by
  unfold pairRefs
  rw [unlInsert_lookup, unlInsert_lookup]

theorem foldl_pairRefs_other (prs : List (Mark × Mark)) : ∀ (u : List (Nat × (Col × Symbol))) (x : Nat),
    x ∉ pairAddrs prs → (prs.foldl pairRefs u).lookup x = u.lookup x := by
  induction prs with
  | nil => intro u x _; rfl
  | cons pr tl ih =>
    intro u x hx
    simp only [pairAddrs, pairElems, List.flatMap_cons, List.cons_append, List.nil_append, List.map_cons, List.mem_cons,
      not_or] at hx
    rw [List.foldl_cons, ih _ x hx.2.2, pairRefs_lookup, if_neg hx.2.1, if_neg hx.1]

theorem foldl_pairRefs_pair (prs : List (Mark × Mark)) : ∀ (u : List (Nat × (Col × Symbol))),
    (pairAddrs prs).Nodup → ∀ w e, (w, e) ∈ prs →
      (prs.foldl pairRefs u).lookup w.2.1 = some (w.1, e.2.2) ∧ (prs.foldl pairRefs u).lookup e.2.1 = some (e.1, w.2.2) := by
  induction prs with
  | nil => intro u _ w e h; cases h
  | cons pr tl ih =>
    intro u hnd w e hmem
    simp only [pairAddrs, pairElems, List.flatMap_cons, List.cons_append, List.nil_append, List.map_cons,
      List.nodup_cons, List.mem_cons, not_or] at hnd
    obtain ⟨⟨h12, h1t⟩, h2t, htl⟩ := hnd
    rw [List.foldl_cons]
    rcases List.mem_cons.1 hmem with e1 | hin
    · subst e1
      rw [foldl_pairRefs_other tl _ _ h1t, foldl_pairRefs_other tl _ _ h2t, pairRefs_lookup, pairRefs_lookup]
      simp only [h12, if_false, if_true]
      exact ⟨trivial, trivial⟩
    · exact ih _ htl w e hin

theorem mem_of_lookup_nat {β : Type} {m : List (Nat × β)} {k : Nat} {v : β} (h : m.lookup k = some v) : (k, v) ∈ m := by
  obtain ⟨l1, l2, rfl, _⟩ := List.lookup_eq_some_iff.1 h
  simp

/-- the addresses of matched pairs are addresses of marks -/
theorem pairAddrs_sub (f : Link) (x : Nat) (h : x ∈ pairAddrs (Spec.bracketMatch f.whiles).1) : x ∈ markAddrs f := by
  unfold pairAddrs at h
  obtain ⟨m, hm, rfl⟩ := List.mem_map.1 h
  rcases pairElems_sub f.whiles [] m hm with h | h
  · cases h
  · obtain ⟨q, hq, rfl⟩ := List.mem_map.1 h
    exact List.mem_map.2 ⟨q, hq, rfl⟩

/-- an address that is not a mark keeps its pending reference (or its absence) -/
theorem pend_lookup_other (f : Link) (x : Nat) (hx : x ∉ markAddrs f) : (pend f).lookup x = f.unlinked.lookup x := by
  rw [pend_eq]
  exact foldl_pairRefs_other _ _ _ (fun h => hx (pairAddrs_sub f x h))

/-- a WHILE mark and a WEND mark around a balanced segment of marks: after pairing, the WHILE's op
    refers to the WEND's label and the WEND's op to the WHILE's label -/
theorem pend_lookup_pair (f : Link) (hmd : (markAddrs f).Nodup) (w e : Mark) (pre mid post : List (Bool × Mark))
    (hw : f.whiles = pre ++ (true, w) :: (mid ++ (false, e) :: post)) (hb : Balanced mid) :
    (pend f).lookup w.2.1 = some (w.1, e.2.2) ∧ (pend f).lookup e.2.1 = some (e.1, w.2.2) := by
  rw [pend_eq]
  apply foldl_pairRefs_pair
  · have := pairElems_nodup (fun m : Mark => m.2.1) f.whiles [] (by simpa [markAddrs] using hmd)
    exact this
  · unfold Spec.bracketMatch
    rw [hw]
    exact pair_mem w e hb pre post []

/-! ## what `link` does to an address, from its pending reference -/

theorem link_ops_linkWhiles (f : Link) : f.linkWhiles.1.ops = f.ops := by
  rw [linkWhiles_matches]

theorem link_symbols_linkWhiles (f : Link) : f.linkWhiles.1.symbols = f.symbols := by
  rw [linkWhiles_matches]

/-- no pending reference: the op is not touched -/
theorem link_ops_none (f : Link) (x : Nat) (h : (pend f).lookup x = none) : f.link.1.ops[x]? = f.ops[x]? := by
  rw [link_eq]
  show (f.linkWhiles.1.unlinked.foldl linkStep ({ f.linkWhiles.1 with unlinked := [] }, f.linkWhiles.2)).1.ops[x]? = _
  rw [foldl_linkStep_ops_other]
  · show f.linkWhiles.1.ops[x]? = _
    rw [link_ops_linkWhiles]
  · intro p hp e
    have := List.lookup_eq_none_iff.1 h p hp
    simp [e] at this

/-- a pending reference to a defined label: the op carries the label's address -/
theorem link_ops_some (f : Link) (hkd : KeysDistinct f.unlinked) (x : Nat) (c : Col) (s : Symbol) (o d : Nat)
    (op op' : Opcode) (h : (pend f).lookup x = some (c, s)) (hsym : f.symbols.lookup s = some (o, d))
    (hop : f.ops[x]? = some op) (hp : patched op o d = some op') : f.link.1.ops[x]? = some op' :=
  link_resolves f hkd x c s (mem_of_lookup_nat h) hsym hop hp

/-! ## what the generator leaves in a link for a structured statement -/

/-- plain code at `a`: the ops are there, none has a pending reference, none is a WHILE / WEND mark -/
def PlainAt (f : Link) (a : Nat) (ops : List Opcode) : Prop :=
  ∀ k (h : k < ops.length), f.ops[a + k]? = some ops[k] ∧ f.unlinked.lookup (a + k) = none ∧ a + k ∉ markAddrs f

/-- the op at `x` has a pending reference to a local label that is defined at address `y` -/
def RefAt (f : Link) (x : Nat) (op : Opcode) (y : Nat) : Prop :=
  f.ops[x]? = some op ∧ x ∉ markAddrs f ∧
    ∃ c s d, s < 0 ∧ f.unlinked.lookup x = some (c, s) ∧ f.symbols.lookup s = some (y, d)

/-- a WHILE mark at `wa` (label defined at `a`) and a WEND mark at `ea` (label defined at `e`) around a
    balanced segment of marks -/
def LoopAt (f : Link) (wa ea a e : Nat) : Prop :=
  f.ops[wa]? = some (Opcode.ifNot 0) ∧ f.ops[ea]? = some (Opcode.jump 0) ∧
  ∃ (w m : Mark) (d1 d2 : Nat) (pre mid post : List (Bool × Mark)), w.2.1 = wa ∧ m.2.1 = ea ∧ w.2.2 < 0 ∧ m.2.2 < 0 ∧
    f.whiles = pre ++ (true, w) :: (mid ++ (false, m) :: post) ∧ Balanced mid ∧
    f.symbols.lookup w.2.2 = some (a, d1) ∧ f.symbols.lookup m.2.2 = some (e, d2)

/-- the statement `p` has been emitted at address `a` of the link `f` (before linking) -/
def Emitted (f : Link) : Nat → SStmt → Prop
  | a, .assign n e => PlainAt f a (flat e ++ [Opcode.pop n])
  | a, .seq p q => Emitted f a p ∧ Emitted f (a + size p) q
  | a, .ifThen c p =>
    PlainAt f a (flat c) ∧ RefAt f (a + (flat c).length) (Opcode.ifNot 0) (a + ((flat c).length + 1 + size p)) ∧
    Emitted f (a + ((flat c).length + 1)) p
  | a, .ifThenElse c p q =>
    PlainAt f a (flat c) ∧ RefAt f (a + (flat c).length) (Opcode.ifNot 0) (a + ((flat c).length + 1 + size p + 1)) ∧
    Emitted f (a + ((flat c).length + 1)) p ∧
    RefAt f (a + ((flat c).length + 1 + size p)) (Opcode.jump 0) (a + ((flat c).length + 1 + size p + 1 + size q)) ∧
    Emitted f (a + ((flat c).length + 1 + size p + 1)) q
  | a, .while c p =>
    PlainAt f a (flat c) ∧
    LoopAt f (a + (flat c).length) (a + ((flat c).length + 1 + size p)) a (a + ((flat c).length + 1 + size p + 1)) ∧
    Emitted f (a + ((flat c).length + 1)) p
  | a, .for n x y z p =>
    PlainAt f a (flat x ++ ([Opcode.pop n] ++ (flat y ++ (flat z ++ [Opcode.literal (.str n)])))) ∧
    RefAt f (a + ((flat x).length + 1 + (flat y).length + (flat z).length + 1)) (Opcode.literal (.nxt 0))
      (a + forInitLen x y z) ∧
    Emitted f (a + forInitLen x y z) p ∧ PlainAt f (a + (forInitLen x y z + size p)) [Opcode.next n]

/-! ## from the emitted form to the linked code -/

theorem CodeAt.append' {code : Array Opcode} {pc : Nat} {a b : List Opcode} (ha : CodeAt code pc a)
    (hb : CodeAt code (pc + a.length) b) : CodeAt code pc (a ++ b) := by
  intro k hk
  by_cases h : k < a.length
  · rw [ha k h, List.getElem_append_left h]
  · have hk' : k - a.length < b.length := by rw [List.length_append] at hk; omega
    have := hb (k - a.length) hk'
    rw [List.getElem_append_right (by omega)]
    rw [← this]
    congr 1
    omega

theorem CodeAt.single {code : Array Opcode} {pc : Nat} {op : Opcode} (h : code[pc]? = some op) : CodeAt code pc [op] := by
  intro k hk
  simp only [List.length_singleton] at hk
  obtain rfl : k = 0 := by omega
  simpa using h

theorem plain_codeAt {f : Link} {a : Nat} {ops : List Opcode} (h : PlainAt f a ops) : CodeAt f.link.1.ops a ops := by
  intro k hk
  obtain ⟨h1, h2, h3⟩ := h k hk
  rw [link_ops_none f _ (by rw [pend_lookup_other f _ h3]; exact h2)]
  exact h1

theorem ref_link {f : Link} (hkd : KeysDistinct f.unlinked) {x : Nat} {op op' : Opcode} {y : Nat} (h : RefAt f x op y)
    (hp : ∀ d, patched op y d = some op') : f.link.1.ops[x]? = some op' := by
  obtain ⟨h1, h2, c, s, d, _, h3, h4⟩ := h
  exact link_ops_some f hkd x c s y d op op' (by rw [pend_lookup_other f _ h2]; exact h3) h4 h1 (hp d)

theorem loop_link {f : Link} (hkd : KeysDistinct f.unlinked) (hmd : (markAddrs f).Nodup) {wa ea a e : Nat}
    (h : LoopAt f wa ea a e) :
    f.link.1.ops[wa]? = some (Opcode.ifNot e) ∧ f.link.1.ops[ea]? = some (Opcode.jump a) := by
  obtain ⟨h1, h2, w, m, d1, d2, pre, mid, post, rfl, rfl, _, _, hw, hb, hs1, hs2⟩ := h
  obtain ⟨p1, p2⟩ := pend_lookup_pair f hmd w m pre mid post hw hb
  exact ⟨link_ops_some f hkd _ _ _ e d2 _ _ p1 hs2 h1 rfl, link_ops_some f hkd _ _ _ a d1 _ _ p2 hs1 h2 rfl⟩

/-- **linking**: the emitted form becomes the absolute-address code of `Lemmas/StructCompile.lean` -/
theorem emitted_codeAt (f : Link) (hkd : KeysDistinct f.unlinked) (hmd : (markAddrs f).Nodup) :
    ∀ (p : SStmt) (a : Nat), Emitted f a p → CodeAt f.link.1.ops a (compile p a)
  | .assign n e, a, h => plain_codeAt h
  | .seq p q, a, h => by
    simp only [compile]
    refine CodeAt.append' (emitted_codeAt f hkd hmd p a h.1) ?_
    rw [compile_length]
    exact emitted_codeAt f hkd hmd q _ h.2
  | .ifThen c p, a, h => by
    obtain ⟨h1, h2, h3⟩ := h
    simp only [compile, ifThenCode]
    refine CodeAt.append' (CodeAt.append' (plain_codeAt h1) (CodeAt.single (ref_link hkd h2 (fun _ => rfl)))) ?_
    simp only [List.length_append, List.length_singleton]
    exact emitted_codeAt f hkd hmd p _ h3
  | .ifThenElse c p q, a, h => by
    obtain ⟨h1, h2, h3, h4, h5⟩ := h
    simp only [compile, ifElseCode]
    refine CodeAt.append' (CodeAt.append' (CodeAt.append' (CodeAt.append' (plain_codeAt h1)
      (CodeAt.single (ref_link hkd h2 (fun _ => rfl)))) ?_) (CodeAt.single ?_)) ?_
    · simp only [List.length_append, List.length_singleton]
      exact emitted_codeAt f hkd hmd p _ h3
    · simp only [List.length_append, List.length_singleton, compile_length]
      exact ref_link hkd h4 (fun _ => rfl)
    · simp only [List.length_append, List.length_singleton, compile_length]
      exact emitted_codeAt f hkd hmd q _ h5
  | .while c p, a, h => by
    obtain ⟨h1, h2, h3⟩ := h
    obtain ⟨l1, l2⟩ := loop_link hkd hmd h2
    simp only [compile, whileCode]
    refine CodeAt.append' (CodeAt.append' (CodeAt.append' (plain_codeAt h1) (CodeAt.single l1)) ?_) (CodeAt.single ?_)
    · simp only [List.length_append, List.length_singleton]
      exact emitted_codeAt f hkd hmd p _ h3
    · simp only [List.length_append, List.length_singleton, compile_length]
      exact l2
  | .for n x y z p, a, h => by
    obtain ⟨h1, h2, h3, h4⟩ := h
    have e1 : compile (.for n x y z p) a =
        (flat x ++ ([Opcode.pop n] ++ (flat y ++ (flat z ++ [Opcode.literal (.str n)])))) ++
          ([Opcode.literal (.nxt (a + forInitLen x y z))] ++ (compile p (a + forInitLen x y z) ++ [Opcode.next n])) := by
      simp only [compile, forCode, List.append_assoc]
    rw [e1]
    refine CodeAt.append' (plain_codeAt h1) (CodeAt.append' (CodeAt.single ?_) (CodeAt.append' ?_ ?_))
    · simp only [List.length_append, List.length_singleton]
      have := ref_link hkd h2 (op' := Opcode.literal (.nxt (a + forInitLen x y z))) (fun _ => rfl)
      have e2 : a + ((flat x).length + (1 + ((flat y).length + ((flat z).length + 1)))) =
          a + ((flat x).length + 1 + (flat y).length + (flat z).length + 1) := by omega
      rw [e2]
      exact this
    · simp only [List.length_append, List.length_singleton]
      have e2 : a + ((flat x).length + (1 + ((flat y).length + ((flat z).length + 1)))) + 1 = a + forInitLen x y z := by
        unfold forInitLen; omega
      rw [e2]
      exact emitted_codeAt f hkd hmd p _ h3
    · simp only [List.length_append, List.length_singleton, compile_length]
      have e2 : a + ((flat x).length + (1 + ((flat y).length + ((flat z).length + 1)))) + 1 + size p =
          a + (forInitLen x y z + size p) := by unfold forInitLen; omega
      rw [e2]
      exact plain_codeAt h4

/-! ## well-formed links, extensions -/

/-- the invariants of a link under construction that the transports need -/
structure Good (f : Link) : Prop where
  loc : LocalOk f
  sorted : SymSorted f.symbols
  keys : ∀ p ∈ f.unlinked, p.1 < f.ops.size
  marks : ∀ m ∈ f.whiles, m.2.2.1 < f.ops.size
  kd : KeysDistinct f.unlinked
  md : (markAddrs f).Nodup

/-- a fragment: only local labels -/
def NegSyms (g : Link) : Prop := ∀ q ∈ g.symbols, q.1 < 0

/-- `f'` is `f` with more code after it: what `f` says about its own addresses and labels stays true -/
structure Ext (f f' : Link) : Prop where
  ops : ∀ x, x < f.ops.size → f'.ops[x]? = f.ops[x]?
  size : f.ops.size ≤ f'.ops.size
  cs : f'.currentSymbol ≤ f.currentSymbol
  syms : ∀ s v, f.symbols.lookup s = some v → f'.symbols.lookup s = some v
  unl : ∀ x, x < f.ops.size → f'.unlinked.lookup x = f.unlinked.lookup x
  whiles : ∃ new, f'.whiles = f.whiles ++ new ∧ ∀ m ∈ new, f.ops.size ≤ m.2.2.1

/-- the labels `f'` defines beyond those of `f` lie below `f`'s label counter -/
def Fresh (f f' : Link) : Prop := ∀ q ∈ f'.symbols, q ∈ f.symbols ∨ q.1 < f.currentSymbol

theorem Ext.refl (f : Link) : Ext f f :=
  ⟨fun _ _ => rfl, Nat.le_refl _, Int.le_refl _, fun _ _ h => h, fun _ _ => rfl, ⟨[], by simp, fun _ h => nomatch h⟩⟩

theorem Ext.trans {f f' f'' : Link} (h1 : Ext f f') (h2 : Ext f' f'') : Ext f f'' := by
  refine ⟨?_, Nat.le_trans h1.size h2.size, Int.le_trans h2.cs h1.cs, fun s v h => h2.syms s v (h1.syms s v h), ?_, ?_⟩
  · intro x hx
    rw [h2.ops x (Nat.lt_of_lt_of_le hx h1.size), h1.ops x hx]
  · intro x hx
    rw [h2.unl x (Nat.lt_of_lt_of_le hx h1.size), h1.unl x hx]
  · obtain ⟨n1, e1, b1⟩ := h1.whiles
    obtain ⟨n2, e2, b2⟩ := h2.whiles
    refine ⟨n1 ++ n2, by rw [e2, e1, List.append_assoc], ?_⟩
    intro m hm
    rcases List.mem_append.1 hm with h | h
    · exact b1 m h
    · exact Nat.le_trans h1.size (b2 m h)

theorem Fresh.refl (f : Link) : Fresh f f := fun _ h => .inl h

theorem Fresh.trans {f f' f'' : Link} (h1 : Fresh f f') (h2 : Fresh f' f'') (hcs : f'.currentSymbol ≤ f.currentSymbol) :
    Fresh f f'' := by
  intro q hq
  rcases h2 q hq with h | h
  · exact h1 q h
  · exact .inr (Int.lt_of_lt_of_le h hcs)

theorem lt_size_of_getElem? {f : Link} {x : Nat} {op : Opcode} (h : f.ops[x]? = some op) : x < f.ops.size := by
  rcases Nat.lt_or_ge x f.ops.size with h' | h'
  · exact h'
  · rw [Array.getElem?_eq_none h'] at h; cases h

theorem Ext.not_mark {f f' : Link} (h : Ext f f') {x : Nat} (hx : x < f.ops.size) (hm : x ∉ markAddrs f) :
    x ∉ markAddrs f' := by
  obtain ⟨new, e, b⟩ := h.whiles
  unfold markAddrs at hm ⊢
  rw [e, List.map_append, List.mem_append]
  rintro (h1 | h1)
  · exact hm h1
  · obtain ⟨m, hm', rfl⟩ := List.mem_map.1 h1
    have := b m hm'
    omega

theorem PlainAt.ext {f f' : Link} (he : Ext f f') {a : Nat} {ops : List Opcode} (h : PlainAt f a ops) :
    PlainAt f' a ops := by
  intro k hk
  obtain ⟨h1, h2, h3⟩ := h k hk
  have hlt := lt_size_of_getElem? h1
  exact ⟨by rw [he.ops _ hlt]; exact h1, by rw [he.unl _ hlt]; exact h2, he.not_mark hlt h3⟩

theorem RefAt.ext {f f' : Link} (he : Ext f f') {x : Nat} {op : Opcode} {y : Nat} (h : RefAt f x op y) :
    RefAt f' x op y := by
  obtain ⟨h1, h2, c, s, d, hs, h3, h4⟩ := h
  have hlt := lt_size_of_getElem? h1
  exact ⟨by rw [he.ops _ hlt]; exact h1, he.not_mark hlt h2, c, s, d, hs, by rw [he.unl _ hlt]; exact h3, he.syms _ _ h4⟩

theorem LoopAt.ext {f f' : Link} (he : Ext f f') {wa ea a e : Nat} (h : LoopAt f wa ea a e) : LoopAt f' wa ea a e := by
  obtain ⟨h1, h2, w, m, d1, d2, pre, mid, post, hw, hm, hws, hms, hwh, hb, hs1, hs2⟩ := h
  obtain ⟨new, en, _⟩ := he.whiles
  refine ⟨by rw [he.ops _ (lt_size_of_getElem? h1)]; exact h1, by rw [he.ops _ (lt_size_of_getElem? h2)]; exact h2,
    w, m, d1, d2, pre, mid, post ++ new, hw, hm, hws, hms, ?_, hb, he.syms _ _ hs1, he.syms _ _ hs2⟩
  rw [en, hwh]
  simp

theorem Emitted.ext {f f' : Link} (he : Ext f f') : ∀ (p : SStmt) (a : Nat), Emitted f a p → Emitted f' a p
  | .assign _ _, _, h => PlainAt.ext he h
  | .seq p q, a, h => ⟨Emitted.ext he p a h.1, Emitted.ext he q _ h.2⟩
  | .ifThen _ p, _, h => ⟨PlainAt.ext he h.1, RefAt.ext he h.2.1, Emitted.ext he p _ h.2.2⟩
  | .ifThenElse _ p q, _, h =>
    ⟨PlainAt.ext he h.1, RefAt.ext he h.2.1, Emitted.ext he p _ h.2.2.1, RefAt.ext he h.2.2.2.1,
      Emitted.ext he q _ h.2.2.2.2⟩
  | .while _ p, _, h => ⟨PlainAt.ext he h.1, LoopAt.ext he h.2.1, Emitted.ext he p _ h.2.2⟩
  | .for _ _ _ _ p, _, h => ⟨PlainAt.ext he h.1, RefAt.ext he h.2.1, Emitted.ext he p _ h.2.2.1, PlainAt.ext he h.2.2.2⟩

/-! ## appending a fragment -/

/-- how `append` moves a mark of the appended fragment -/
def shiftMark (f : Link) (m : Mark) : Mark := (m.1, m.2.1 + f.ops.size, m.2.2 + f.currentSymbol)

theorem appended_whiles (f g : Link) :
    (appended f g).whiles = f.whiles ++ g.whiles.map fun m => (m.1, shiftMark f m.2) := rfl

theorem markAddrs_appended (f g : Link) :
    markAddrs (appended f g) = markAddrs f ++ (markAddrs g).map (· + f.ops.size) := by
  unfold markAddrs
  rw [appended_whiles, List.map_append, List.map_map, List.map_map]
  rfl

theorem good_appended {f g : Link} (hf : Good f) (hg : Good g) : Good (appended f g) := by
  refine ⟨LocalOk.appended hf.loc hg.loc, appendSymbols_sorted hf.sorted, ?_, ?_, appendUnlinked_distinct hf.kd, ?_⟩
  · intro p hp
    show p.1 < (f.ops ++ g.ops).size
    rw [Array.size_append]
    rcases mem_appendUnlinked hp with h | ⟨q, hq, rfl⟩
    · have := hf.keys p h; omega
    · have := hg.keys q hq; show q.1 + f.ops.size < _; omega
  · intro m hm
    show m.2.2.1 < (f.ops ++ g.ops).size
    rw [Array.size_append]
    rcases mem_appendWhiles hm with h | ⟨q, hq, rfl⟩
    · have := hf.marks m h; omega
    · have := hg.marks q hq; show q.2.2.1 + f.ops.size < _; omega
  · rw [markAddrs_appended, List.nodup_append]
    refine ⟨hf.md, ?_, ?_⟩
    · exact List.Pairwise.map _ (fun a b (h : a ≠ b) => by show a + f.ops.size ≠ b + f.ops.size; omega) hg.md
    · intro a ha b hb e
      obtain ⟨m, hm, rfl⟩ := List.mem_map.1 ha
      obtain ⟨c, _, rfl⟩ := List.mem_map.1 hb
      have := hf.marks m hm
      omega

theorem fresh_appended {f g : Link} (hn : NegSyms g) : Fresh f (appended f g) := by
  intro q hq
  rcases mem_appendSymbols hq with h | ⟨r, hr, rfl⟩
  · exact .inl h
  · right
    have := hn r hr
    show rebase f.currentSymbol r.1 < f.currentSymbol
    unfold rebase
    rw [if_pos this]
    simp only [Symbol] at *
    omega

theorem ext_appended {f g : Link} (hf : Good f) (hg : Good g) (hn : NegSyms g) : Ext f (appended f g) := by
  refine ⟨?_, ?_, ?_, ?_, ?_, ⟨_, appended_whiles f g, ?_⟩⟩
  · intro x hx
    show (f.ops ++ g.ops)[x]? = _
    rw [Array.getElem?_append_left hx]
  · show f.ops.size ≤ (f.ops ++ g.ops).size
    rw [Array.size_append]; omega
  · show f.currentSymbol + g.currentSymbol ≤ f.currentSymbol
    have := hg.loc.cur
    simp only [Symbol] at *
    omega
  · intro s v h
    show (appendSymbols f g).lookup s = some v
    rw [appendSymbols_lookup_left s, h]
    intro q hq e
    have hq0 := hn q hq
    have hmem := mem_of_lookup h
    unfold rebase at e
    rw [if_pos hq0] at e
    by_cases hs : s < 0
    · have := hf.loc.symbols (s, v) hmem hs
      simp only [Symbol] at *
      omega
    · have := hf.loc.cur
      simp only [Symbol] at *
      omega
  · intro x hx
    exact appendUnlinked_lookup_left f g x hx
  · intro m hm
    obtain ⟨q, _, rfl⟩ := List.mem_map.1 hm
    show f.ops.size ≤ q.2.2.1 + f.ops.size
    omega

theorem negSyms_of_fresh {f f' : Link} (h : Fresh f f') (hf : NegSyms f) (hc : f.currentSymbol ≤ 0) : NegSyms f' := by
  intro q hq
  rcases h q hq with h | h
  · exact hf q h
  · exact Int.lt_of_lt_of_le h hc

theorem appended_ops_right (f g : Link) (x : Nat) : (appended f g).ops[x + f.ops.size]? = g.ops[x]? := by
  show (f.ops ++ g.ops)[x + f.ops.size]? = _
  rw [Array.getElem?_append_right (by omega)]
  congr 1
  omega

theorem lookup_none_of_keys {m : List (Nat × (Col × Symbol))} {n x : Nat} (h : ∀ p ∈ m, p.1 < n) (hx : n ≤ x) :
    m.lookup x = none := by
  rw [List.lookup_eq_none_iff]
  intro p hp
  have := h p hp
  simp
  omega

theorem appended_unl_right {f : Link} (hf : Good f) (g : Link) (x : Nat) :
    (appended f g).unlinked.lookup (x + f.ops.size) =
      (g.unlinked.lookup x).map fun v => (v.1, rebase f.currentSymbol v.2) := by
  show (appendUnlinked f g).lookup (x + f.ops.size) = _
  rw [appendUnlinked_lookup_right]
  cases g.unlinked.lookup x with
  | some v => rfl
  | none => exact lookup_none_of_keys hf.keys (by omega)

theorem appended_sym_right {f g : Link} (hf : Good f) (hg : Good g) {s : Symbol} {y d : Nat} (hs : s < 0)
    (h : g.symbols.lookup s = some (y, d)) :
    (appended f g).symbols.lookup (s + f.currentSymbol) = some (y + f.ops.size, d + f.data.size) := by
  show (appendSymbols f g).lookup (s + f.currentSymbol) = _
  rw [appendSymbols_lookup_local_right hg.sorted hf.loc.cur s hs (by rw [h]; rfl), h]
  rfl

theorem not_mark_right {f : Link} (hf : Good f) {g : Link} {x : Nat} (h : x ∉ markAddrs g) :
    x + f.ops.size ∉ markAddrs (appended f g) := by
  rw [markAddrs_appended, List.mem_append]
  rintro (h1 | h1)
  · unfold markAddrs at h1
    obtain ⟨m, hm, e⟩ := List.mem_map.1 h1
    have := hf.marks m hm
    omega
  · obtain ⟨y, hy, e⟩ := List.mem_map.1 h1
    have : y = x := by omega
    subst this
    exact h hy

theorem PlainAt.right {f : Link} (hf : Good f) {g : Link} {k : Nat} {ops : List Opcode} (h : PlainAt g k ops) :
    PlainAt (appended f g) (k + f.ops.size) ops := by
  intro j hj
  obtain ⟨h1, h2, h3⟩ := h j hj
  have e : k + f.ops.size + j = (k + j) + f.ops.size := by omega
  rw [e]
  refine ⟨by rw [appended_ops_right]; exact h1, ?_, not_mark_right hf h3⟩
  rw [appended_unl_right hf, h2]
  rfl

theorem RefAt.right {f g : Link} (hf : Good f) (hg : Good g) {x : Nat} {op : Opcode} {y : Nat} (h : RefAt g x op y) :
    RefAt (appended f g) (x + f.ops.size) op (y + f.ops.size) := by
  obtain ⟨h1, h2, c, s, d, hs, h3, h4⟩ := h
  refine ⟨by rw [appended_ops_right]; exact h1, not_mark_right hf h2, c, s + f.currentSymbol, d + f.data.size, ?_, ?_,
    appended_sym_right hf hg hs h4⟩
  · have := hf.loc.cur
    simp only [Symbol] at *
    omega
  · rw [appended_unl_right hf, h3]
    show some (c, rebase f.currentSymbol s) = _
    unfold rebase
    rw [if_pos hs]

theorem LoopAt.right {f g : Link} (hf : Good f) (hg : Good g) {wa ea a e : Nat} (h : LoopAt g wa ea a e) :
    LoopAt (appended f g) (wa + f.ops.size) (ea + f.ops.size) (a + f.ops.size) (e + f.ops.size) := by
  obtain ⟨h1, h2, w, m, d1, d2, pre, mid, post, hw, hm, hws, hms, hwh, hb, hs1, hs2⟩ := h
  have hc := hf.loc.cur
  refine ⟨by rw [appended_ops_right]; exact h1, by rw [appended_ops_right]; exact h2,
    shiftMark f w, shiftMark f m, d1 + f.data.size, d2 + f.data.size,
    f.whiles ++ pre.map (fun m => (m.1, shiftMark f m.2)), mid.map (fun m => (m.1, shiftMark f m.2)),
    post.map (fun m => (m.1, shiftMark f m.2)), ?_, ?_, ?_, ?_, ?_, balanced_map (shiftMark f) hb,
    appended_sym_right hf hg hws hs1, appended_sym_right hf hg hms hs2⟩
  · show w.2.1 + f.ops.size = _; rw [hw]
  · show m.2.1 + f.ops.size = _; rw [hm]
  · show w.2.2 + f.currentSymbol < 0; simp only [Symbol] at *; omega
  · show m.2.2 + f.currentSymbol < 0; simp only [Symbol] at *; omega
  · rw [appended_whiles, hwh]
    simp

theorem Emitted.right {f g : Link} (hf : Good f) (hg : Good g) : ∀ (p : SStmt) (k : Nat), Emitted g k p →
    Emitted (appended f g) (k + f.ops.size) p
  | .assign _ _, _, h => PlainAt.right hf h
  | .seq p q, k, h => by
    refine ⟨Emitted.right hf hg p k h.1, ?_⟩
    have := Emitted.right hf hg q _ h.2
    rw [Nat.add_right_comm] at this
    exact this
  | .ifThen c p, k, h => by
    obtain ⟨h1, h2, h3⟩ := h
    refine ⟨PlainAt.right hf h1, ?_, ?_⟩
    · have := RefAt.right hf hg h2
      simp only [Nat.add_right_comm k _ f.ops.size] at this
      exact this
    · have := Emitted.right hf hg p _ h3
      rw [Nat.add_right_comm] at this
      exact this
  | .ifThenElse c p q, k, h => by
    obtain ⟨h1, h2, h3, h4, h5⟩ := h
    refine ⟨PlainAt.right hf h1, ?_, ?_, ?_, ?_⟩
    · have := RefAt.right hf hg h2
      simp only [Nat.add_right_comm k _ f.ops.size] at this
      exact this
    · have := Emitted.right hf hg p _ h3
      rw [Nat.add_right_comm] at this
      exact this
    · have := RefAt.right hf hg h4
      simp only [Nat.add_right_comm k _ f.ops.size] at this
      exact this
    · have := Emitted.right hf hg q _ h5
      rw [Nat.add_right_comm] at this
      exact this
  | .while c p, k, h => by
    obtain ⟨h1, h2, h3⟩ := h
    refine ⟨PlainAt.right hf h1, ?_, ?_⟩
    · have := LoopAt.right hf hg h2
      simp only [Nat.add_right_comm k _ f.ops.size] at this
      exact this
    · have := Emitted.right hf hg p _ h3
      rw [Nat.add_right_comm] at this
      exact this
  | .for n x y z p, k, h => by
    obtain ⟨h1, h2, h3, h4⟩ := h
    refine ⟨PlainAt.right hf h1, ?_, ?_, ?_⟩
    · have := RefAt.right hf hg h2
      simp only [Nat.add_right_comm k _ f.ops.size] at this
      exact this
    · have := Emitted.right hf hg p _ h3
      rw [Nat.add_right_comm] at this
      exact this
    · have := PlainAt.right hf h4
      rw [Nat.add_right_comm] at this
      exact this

/-! ## the single steps of the generator: a label counter, a reference, a label -/

theorem good_nextSymbol {f : Link} (hf : Good f) : Good f.nextSymbol.1 :=
  ⟨hf.loc.nextSymbol.1, hf.sorted, hf.keys, hf.marks, hf.kd, hf.md⟩

theorem ext_nextSymbol {f : Link} (hf : Good f) : Ext f f.nextSymbol.1 := by
  refine ⟨fun _ _ => rfl, Nat.le_refl _, ?_, fun _ _ h => h, fun _ _ => rfl, ⟨[], by simp [Link.nextSymbol], fun _ h => nomatch h⟩⟩
  show f.currentSymbol - 1 ≤ f.currentSymbol
  have := hf.loc.cur
  simp only [Symbol] at *
  omega

/-- `addUnlinked` then `push`: an op with a pending reference -/
def withRef (f : Link) (c : Col) (sym : Symbol) (op : Opcode) : Link := ((f.addUnlinked c sym).push op).1

theorem good_withRef {f : Link} (hf : Good f) (c : Col) (sym : Symbol) (op : Opcode)
    (hs : 0 ≤ sym ∨ f.currentSymbol ≤ sym) : Good (withRef f c sym op) := by
  refine ⟨(hf.loc.addUnlinked c sym hs).push op, hf.sorted, ?_, ?_, addUnlinked_distinct c sym hf.kd, hf.md⟩
  · intro p hp
    show p.1 < (f.ops.push op).size
    rw [Array.size_push]
    rcases mem_unlInsert hp with rfl | ⟨h, _⟩
    · exact Nat.lt_succ_self _
    · have := hf.keys p h; omega
  · intro m hm
    show m.2.2.1 < (f.ops.push op).size
    rw [Array.size_push]
    have := hf.marks m hm; omega

theorem ext_withRef {f : Link} (c : Col) (sym : Symbol) (op : Opcode) : Ext f (withRef f c sym op) := by
  refine ⟨?_, ?_, Int.le_refl _, fun _ _ h => h, ?_, ⟨[], by simp [withRef, Link.push, Link.addUnlinked], fun _ h => nomatch h⟩⟩
  · intro x hx
    show (f.ops.push op)[x]? = _
    rw [Array.getElem?_push_lt hx]
    simp [hx]
  · show f.ops.size ≤ (f.ops.push op).size
    rw [Array.size_push]; omega
  · intro x hx
    show (unlInsert f.ops.size (c, sym) f.unlinked).lookup x = _
    rw [unlInsert_lookup, if_neg (by omega)]

theorem withRef_facts (f : Link) (c : Col) (sym : Symbol) (op : Opcode) :
    (withRef f c sym op).ops[f.ops.size]? = some op ∧
    (withRef f c sym op).unlinked.lookup f.ops.size = some (c, sym) ∧
    (withRef f c sym op).ops.size = f.ops.size + 1 ∧ (withRef f c sym op).whiles = f.whiles ∧
    (withRef f c sym op).symbols = f.symbols ∧ (withRef f c sym op).currentSymbol = f.currentSymbol ∧
    (withRef f c sym op).data = f.data := by
  refine ⟨?_, ?_, ?_, rfl, rfl, rfl, rfl⟩
  · show (f.ops.push op)[f.ops.size]? = _
    simp
  · show (unlInsert f.ops.size (c, sym) f.unlinked).lookup f.ops.size = _
    rw [unlInsert_lookup, if_pos rfl]
  · show (f.ops.push op).size = _
    rw [Array.size_push]

theorem good_pushSymbol {f : Link} (hf : Good f) (sym : Symbol) (hs : 0 ≤ sym ∨ f.currentSymbol ≤ sym) :
    Good (f.pushSymbol sym) :=
  ⟨hf.loc.pushSymbol sym hs, symInsert_sorted _ _ hf.sorted, hf.keys, hf.marks, hf.kd, hf.md⟩

theorem ext_pushSymbol {f : Link} (sym : Symbol) (hno : f.symbols.lookup sym = none) : Ext f (f.pushSymbol sym) := by
  refine ⟨fun _ _ => rfl, Nat.le_refl _, Int.le_refl _, ?_, fun _ _ => rfl, ⟨[], by simp [Link.pushSymbol], fun _ h => nomatch h⟩⟩
  intro s v h
  show (symInsert sym (f.ops.size, f.data.size) f.symbols).lookup s = some v
  rw [symInsert_lookup, if_neg, h]
  intro e
  subst e
  rw [hno] at h
  cases h

theorem pushSymbol_lookup (f : Link) (sym : Symbol) :
    (f.pushSymbol sym).symbols.lookup sym = some (f.ops.size, f.data.size) := by
  show (symInsert sym (f.ops.size, f.data.size) f.symbols).lookup sym = _
  rw [symInsert_lookup, if_pos rfl]

theorem negSyms_pushSymbol {f : Link} (hf : NegSyms f) (sym : Symbol) (hs : sym < 0) : NegSyms (f.pushSymbol sym) := by
  intro q hq
  rcases mem_symInsert hq with rfl | h
  · exact hs
  · exact hf q h

theorem lookup_none_of_not_key {m : List (Symbol × (Nat × Nat))} {s : Symbol} (h : ∀ q ∈ m, q.1 ≠ s) :
    m.lookup s = none := by
  rw [List.lookup_eq_none_iff]
  intro q hq
  have := h q hq
  simpa using fun e : s = q.1 => this e.symm

/-! ## the fragments of the single statements -/

theorem good_plain (xs : Array Opcode) : Good (plain xs) where
  loc := ⟨Int.le_refl 0, (fun _ h => nomatch h), (fun _ h => nomatch h), (fun _ h => nomatch h)⟩
  sorted := List.Pairwise.nil
  keys := fun _ h => nomatch h
  marks := fun _ h => nomatch h
  kd := List.Pairwise.nil
  md := List.Pairwise.nil

theorem negSyms_plain (xs : Array Opcode) : NegSyms (plain xs) := fun _ h => nomatch h

theorem plainAt_plain (l : List Opcode) : PlainAt (plain l.toArray) 0 l := by
  intro k hk
  refine ⟨?_, rfl, (fun h => nomatch h)⟩
  show l.toArray[0 + k]? = _
  simp [hk]

theorem good_whileFrag (c : Col) (xs : List Opcode) : Good (whileFrag c xs) where
  loc := by
    refine ⟨by show (-1 : Int) ≤ 0; decide, ?_, (fun _ h => nomatch h), ?_⟩
    · intro p hp _
      simp only [whileFrag, List.mem_singleton] at hp
      subst hp
      show (-1 : Int) ≤ -1
      decide
    · intro p hp
      simp only [whileFrag, List.mem_singleton] at hp
      subst hp
      show (-1 : Int) ≤ -1 ∧ (-1 : Int) < 0
      decide
  sorted := by simp [whileFrag, SymSorted]
  keys := fun _ h => nomatch h
  marks := by
    intro m hm
    simp only [whileFrag, List.mem_singleton] at hm
    subst hm
    simp [whileFrag]
  kd := List.Pairwise.nil
  md := by simp [markAddrs, whileFrag]

theorem negSyms_whileFrag (c : Col) (xs : List Opcode) : NegSyms (whileFrag c xs) := by
  intro q hq
  simp only [whileFrag, List.mem_singleton] at hq
  subst hq
  show (-1 : Int) < 0
  decide

theorem good_wendFrag (c : Col) : Good (wendFrag c) where
  loc := by
    refine ⟨by show (-1 : Int) ≤ 0; decide, ?_, (fun _ h => nomatch h), ?_⟩
    · intro p hp _
      simp only [wendFrag, List.mem_singleton] at hp
      subst hp
      show (-1 : Int) ≤ -1
      decide
    · intro p hp
      simp only [wendFrag, List.mem_singleton] at hp
      subst hp
      show (-1 : Int) ≤ -1 ∧ (-1 : Int) < 0
      decide
  sorted := by simp [wendFrag, SymSorted]
  keys := fun _ h => nomatch h
  marks := by
    intro m hm
    simp only [wendFrag, List.mem_singleton] at hm
    subst hm
    simp [wendFrag]
  kd := List.Pairwise.nil
  md := by simp [markAddrs, wendFrag]

theorem negSyms_wendFrag (c : Col) : NegSyms (wendFrag c) := by
  intro q hq
  simp only [wendFrag, List.mem_singleton] at hq
  subst hq
  show (-1 : Int) < 0
  decide

theorem good_forFrag (col : Col) (name : Str) (xa xb xs : List Opcode) : Good (forFrag col name xa xb xs) where
  loc := by
    refine ⟨by show (-1 : Int) ≤ 0; decide, ?_, ?_, (fun _ h => nomatch h)⟩
    · intro p hp _
      simp only [forFrag, List.mem_singleton] at hp
      subst hp
      show (-1 : Int) ≤ -1
      decide
    · intro p hp _
      simp only [forFrag, List.mem_singleton] at hp
      subst hp
      show (-1 : Int) ≤ -1
      decide
  sorted := by simp [forFrag, SymSorted]
  keys := by
    intro p hp
    simp only [forFrag, List.mem_singleton] at hp
    subst hp
    simp [forFrag]
    omega
  marks := fun _ h => nomatch h
  kd := by simp [forFrag, KeysDistinct]
  md := List.Pairwise.nil

theorem negSyms_forFrag (col : Col) (name : Str) (xa xb xs : List Opcode) : NegSyms (forFrag col name xa xb xs) := by
  intro q hq
  simp only [forFrag, List.mem_singleton] at hq
  subst hq
  show (-1 : Int) < 0
  decide

theorem good_ifHead (c : Col) (xs : List Opcode) : Good (ifHead c xs) where
  loc := by
    refine ⟨by show (-1 : Int) ≤ 0; decide, (fun _ h => nomatch h), ?_, (fun _ h => nomatch h)⟩
    intro p hp _
    simp only [ifHead, List.mem_singleton] at hp
    subst hp
    show (-1 : Int) ≤ -1
    decide
  sorted := List.Pairwise.nil
  keys := by
    intro p hp
    simp only [ifHead, List.mem_singleton] at hp
    subst hp
    simp [ifHead]
  marks := fun _ h => nomatch h
  kd := by simp [ifHead, KeysDistinct]
  md := List.Pairwise.nil

/-! ## emitting a structured statement -/

/-- appending the fragments of `p` to `f` gave `f'`: everything the transports and `link` need -/
structure Done (f f' : Link) (p : SStmt) : Prop where
  good : Good f'
  ext : Ext f f'
  fresh : Fresh f f'
  marks : ∃ new, f'.whiles = f.whiles ++ new ∧ Balanced new
  size : f'.ops.size = f.ops.size + size p
  emitted : Emitted f' f.ops.size p

/-- a statement that is ONE fragment (LET, IF) -/
theorem done_frag {f g : Link} {p : SStmt} (hf : Good f) (hg : Good g) (hn : NegSyms g) (hb : Balanced g.whiles)
    (he : Emitted g 0 p) (hs : g.ops.size = size p) : Done f (appended f g) p where
  good := good_appended hf hg
  ext := ext_appended hf hg hn
  fresh := fresh_appended hn
  marks := ⟨_, appended_whiles f g, balanced_map (shiftMark f) hb⟩
  size := by show (f.ops ++ g.ops).size = _; rw [Array.size_append, hs]
  emitted := by
    have := Emitted.right hf hg p 0 he
    rw [Nat.zero_add] at this
    exact this

theorem Done.seq {f f' f'' : Link} {p q : SStmt} (h1 : Done f f' p) (h2 : Done f' f'' q) : Done f f'' (.seq p q) where
  good := h2.good
  ext := h1.ext.trans h2.ext
  fresh := h1.fresh.trans h2.fresh h1.ext.cs
  marks := by
    obtain ⟨n1, e1, b1⟩ := h1.marks
    obtain ⟨n2, e2, b2⟩ := h2.marks
    exact ⟨n1 ++ n2, by rw [e2, e1, List.append_assoc], balanced_append b1 b2⟩
  size := by rw [h2.size, h1.size]; show _ = _ + (StructCompile.size p + StructCompile.size q); omega
  emitted := by
    refine ⟨Emitted.ext h2.ext p _ h1.emitted, ?_⟩
    have := h2.emitted
    rw [h1.size] at this
    exact this

theorem plainAt_whileFrag (c : Col) (xs : List Opcode) : PlainAt (whileFrag c xs) 0 xs := by
  intro k hk
  refine ⟨?_, rfl, ?_⟩
  · show (xs ++ [Opcode.ifNot 0]).toArray[0 + k]? = _
    simp [hk, List.getElem?_append_left]
  · simp only [markAddrs, whileFrag, List.map_cons, List.map_nil, List.mem_singleton]
    omega

theorem whileFrag_op (c : Col) (xs : List Opcode) : (whileFrag c xs).ops[xs.length]? = some (Opcode.ifNot 0) := by
  show (xs ++ [Opcode.ifNot 0]).toArray[xs.length]? = _
  simp

theorem whileFrag_size (c : Col) (xs : List Opcode) : (whileFrag c xs).ops.size = xs.length + 1 := by
  simp [whileFrag]

/-- **WHILE … WEND**: the WHILE fragment, the body's fragments, the WEND fragment -/
theorem done_while {f : Link} (hf : Good f) (c cw : Col) (cnd : Expr) (pe : SStmt) (A2 : Link)
    (hD : Done (appended f (whileFrag c (flat cnd))) A2 pe) :
    Done f (appended A2 (wendFrag cw)) (.while cnd pe) := by
  have hW := good_whileFrag c (flat cnd)
  have hE := good_wendFrag cw
  have hA1 := good_appended hf hW
  have e1 := ext_appended hf hW (negSyms_whileFrag c (flat cnd))
  have e3 := ext_appended hD.good hE (negSyms_wendFrag cw)
  have hsz1 : (appended f (whileFrag c (flat cnd))).ops.size = f.ops.size + ((flat cnd).length + 1) := by
    show (f.ops ++ (whileFrag c (flat cnd)).ops).size = _
    rw [Array.size_append, whileFrag_size]
  have hsz2 : A2.ops.size = f.ops.size + ((flat cnd).length + 1 + size pe) := by rw [hD.size, hsz1]; omega
  obtain ⟨mid, emid, bmid⟩ := hD.marks
  have hcf := hf.loc.cur
  have hc2 := hD.good.loc.cur
  refine ⟨good_appended hD.good hE, e1.trans (hD.ext.trans e3), ?_, ?_, ?_, ?_, ?_, ?_⟩
  · exact (fresh_appended (negSyms_whileFrag c (flat cnd))).trans
      (hD.fresh.trans (fresh_appended (negSyms_wendFrag cw)) hD.ext.cs) e1.cs
  · refine ⟨(true, shiftMark f (c, (flat cnd).length, -1)) :: (mid ++ [(false, shiftMark A2 (cw, 0, -1))]), ?_,
      balanced_wrap _ _ bmid⟩
    rw [appended_whiles, emid, appended_whiles]
    simp [whileFrag, wendFrag]
  · show (A2.ops ++ (wendFrag cw).ops).size = _
    rw [Array.size_append, hsz2]
    simp only [size, wendFrag]
    simp
    omega
  · -- the condition
    have := PlainAt.right hf (plainAt_whileFrag c (flat cnd))
    rw [Nat.zero_add] at this
    exact PlainAt.ext (hD.ext.trans e3) this
  · -- the marks
    have hop1 : (appended f (whileFrag c (flat cnd))).ops[(flat cnd).length + f.ops.size]? = some (Opcode.ifNot 0) := by
      rw [appended_ops_right]; exact whileFrag_op c (flat cnd)
    have hop2 : (appended A2 (wendFrag cw)).ops[0 + A2.ops.size]? = some (Opcode.jump 0) := by
      rw [appended_ops_right]; rfl
    have hs1 := appended_sym_right hf hW (s := -1) (y := 0) (d := 0) (by decide) rfl
    have hs2 := appended_sym_right hD.good hE (s := -1) (y := 1) (d := 0) (by decide) rfl
    refine ⟨?_, ?_, shiftMark f (c, (flat cnd).length, -1), shiftMark A2 (cw, 0, -1), 0 + f.data.size, 0 + A2.data.size,
      f.whiles, mid, [], ?_, ?_, ?_, ?_, ?_, bmid, ?_, ?_⟩
    · have := (hD.ext.trans e3).ops _ (lt_size_of_getElem? hop1)
      rw [Nat.add_comm, this]
      exact hop1
    · rw [Nat.zero_add, hsz2] at hop2
      exact hop2
    · show (flat cnd).length + f.ops.size = _; omega
    · show 0 + A2.ops.size = _; rw [hsz2]; omega
    · show (-1 : Int) + f.currentSymbol < 0; simp only [Symbol] at *; omega
    · show (-1 : Int) + A2.currentSymbol < 0; simp only [Symbol] at *; omega
    · rw [appended_whiles, emid, appended_whiles]
      simp [whileFrag, wendFrag]
    · have := (hD.ext.trans e3).syms _ _ hs1
      rw [Nat.zero_add] at this
      exact this
    · have e : f.ops.size + ((flat cnd).length + 1 + size pe + 1) = 1 + A2.ops.size := by rw [hsz2]; omega
      rw [e]
      exact hs2
  · -- the body
    have := Emitted.ext e3 pe _ hD.emitted
    rw [hsz1] at this
    exact this

theorem forFrag_ops (col : Col) (name : Str) (xa xb xs : List Opcode) :
    (forFrag col name xa xb xs).ops =
      ((xa ++ ([Opcode.pop name] ++ (xb ++ (xs ++ [Opcode.literal (.str name)])))) ++ [Opcode.literal (.nxt 0)]).toArray := by
  simp [forFrag, List.append_assoc]

theorem forFrag_size (col : Col) (name : Str) (xa xb xs : List Opcode) :
    (forFrag col name xa xb xs).ops.size = xa.length + 1 + xb.length + xs.length + 2 := by
  simp [forFrag]
  omega

theorem plainAt_forFrag (col : Col) (name : Str) (xa xb xs : List Opcode) :
    PlainAt (forFrag col name xa xb xs) 0 (xa ++ ([Opcode.pop name] ++ (xb ++ (xs ++ [Opcode.literal (.str name)])))) := by
  intro k hk
  refine ⟨?_, ?_, (fun h => nomatch h)⟩
  · rw [forFrag_ops]
    simp only [Nat.zero_add, List.getElem?_toArray]
    rw [List.getElem?_append_left hk, List.getElem?_eq_getElem hk]
  · show List.lookup (0 + k) [(xa.length + 1 + xb.length + xs.length + 1, (col, (-1 : Int)))] = none
    simp only [List.length_append, List.length_singleton] at hk
    rw [lookup_cons_eq_nat, if_neg (by omega)]
    rfl

theorem refAt_forFrag (col : Col) (name : Str) (xa xb xs : List Opcode) :
    RefAt (forFrag col name xa xb xs) (xa.length + 1 + xb.length + xs.length + 1) (Opcode.literal (.nxt 0))
      (xa.length + 1 + xb.length + xs.length + 2) := by
  refine ⟨?_, (fun h => nomatch h), col, -1, 0, by decide, ?_, rfl⟩
  · rw [forFrag_ops]
    simp only [List.getElem?_toArray]
    rw [List.getElem?_append_right (by simp only [List.length_append, List.length_singleton]; omega)]
    simp only [List.length_append, List.length_singleton]
    have : xa.length + 1 + xb.length + xs.length + 1 - (xa.length + (1 + (xb.length + (xs.length + 1)))) = 0 := by omega
    rw [this]
    rfl
  · show List.lookup _ [(xa.length + 1 + xb.length + xs.length + 1, (col, (-1 : Int)))] = _
    rw [lookup_cons_eq_nat, if_pos rfl]

/-- **FOR … NEXT**: the FOR fragment, the body's fragments, the NEXT fragment -/
theorem done_for {f : Link} (hf : Good f) (col : Col) (name : Str) (x y z : Expr) (pe : SStmt) (A2 : Link)
    (hD : Done (appended f (forFrag col name (flat x) (flat y) (flat z))) A2 pe) :
    Done f (appended A2 (plain #[Opcode.next name])) (.for name x y z pe) := by
  have hF := good_forFrag col name (flat x) (flat y) (flat z)
  have hN := good_plain #[Opcode.next name]
  have e1 := ext_appended hf hF (negSyms_forFrag col name (flat x) (flat y) (flat z))
  have e3 := ext_appended hD.good hN (negSyms_plain _)
  have hsz1 : (appended f (forFrag col name (flat x) (flat y) (flat z))).ops.size = f.ops.size + forInitLen x y z := by
    show (f.ops ++ (forFrag col name (flat x) (flat y) (flat z)).ops).size = _
    rw [Array.size_append, forFrag_size]
    rfl
  have hsz2 : A2.ops.size = f.ops.size + (forInitLen x y z + size pe) := by rw [hD.size, hsz1]; omega
  obtain ⟨mid, emid, bmid⟩ := hD.marks
  refine ⟨good_appended hD.good hN, e1.trans (hD.ext.trans e3), ?_, ?_, ?_, ?_, ?_, ?_, ?_⟩
  · exact (fresh_appended (negSyms_forFrag col name (flat x) (flat y) (flat z))).trans
      (hD.fresh.trans (fresh_appended (negSyms_plain _)) hD.ext.cs) e1.cs
  · refine ⟨mid, ?_, bmid⟩
    rw [appended_whiles, emid, appended_whiles]
    simp [forFrag, plain]
  · show (A2.ops ++ (plain #[Opcode.next name]).ops).size = _
    rw [Array.size_append, hsz2]
    simp only [size, plain]
    simp
    omega
  · have := PlainAt.right hf (plainAt_forFrag col name (flat x) (flat y) (flat z))
    rw [Nat.zero_add] at this
    exact PlainAt.ext (hD.ext.trans e3) this
  · have := RefAt.right hf hF (refAt_forFrag col name (flat x) (flat y) (flat z))
    have := RefAt.ext (hD.ext.trans e3) this
    have e : (flat x).length + 1 + (flat y).length + (flat z).length + 2 + f.ops.size = f.ops.size + forInitLen x y z := by
      unfold forInitLen; omega
    rw [e, Nat.add_comm _ f.ops.size] at this
    exact this
  · have := Emitted.ext e3 pe _ hD.emitted
    rw [hsz1] at this
    exact this
  · have := PlainAt.right hD.good (plainAt_plain [Opcode.next name])
    rw [Nat.zero_add, hsz2] at this
    exact this

/-! ## IF: a fragment of its own, built from the fragments of its parts -/

theorem plainAt_ifHead (c : Col) (xs : List Opcode) : PlainAt (ifHead c xs) 0 xs := by
  intro k hk
  refine ⟨?_, ?_, (fun h => nomatch h)⟩
  · show (xs ++ [Opcode.ifNot 0]).toArray[0 + k]? = _
    simp [hk, List.getElem?_append_left]
  · show List.lookup (0 + k) [(xs.length, (c, (-1 : Int)))] = none
    rw [lookup_cons_eq_nat, if_neg (by omega)]
    rfl

theorem ifHead_op (c : Col) (xs : List Opcode) : (ifHead c xs).ops[xs.length]? = some (Opcode.ifNot 0) := by
  show (xs ++ [Opcode.ifNot 0]).toArray[xs.length]? = _
  simp

theorem ifHead_size (c : Col) (xs : List Opcode) : (ifHead c xs).ops.size = xs.length + 1 := by
  simp [ifHead]

theorem ifHead_unl (c : Col) (xs : List Opcode) : (ifHead c xs).unlinked.lookup xs.length = some (c, -1) := by
  show List.lookup xs.length [(xs.length, (c, (-1 : Int)))] = _
  rw [lookup_cons_eq_nat, if_pos rfl]

/-- what is known of the THEN part once its fragments have been appended to the head -/
theorem ifHead_done {c : Col} {xs : List Opcode} {pe : SStmt} {G1 : Link} (hD : Done (ifHead c xs) G1 pe) :
    NegSyms G1 ∧ G1.symbols.lookup (-1) = none ∧ G1.currentSymbol ≤ -1 ∧ G1.ops.size = xs.length + 1 + size pe ∧
    Balanced G1.whiles ∧ PlainAt G1 0 xs ∧ G1.ops[xs.length]? = some (Opcode.ifNot 0) ∧
    xs.length ∉ markAddrs G1 ∧ G1.unlinked.lookup xs.length = some (c, -1) ∧ Emitted G1 (xs.length + 1) pe := by
  have hlt : xs.length < (ifHead c xs).ops.size := by rw [ifHead_size]; omega
  have hneg : NegSyms G1 := negSyms_of_fresh hD.fresh (fun _ h => nomatch h) (by show (-1 : Int) ≤ 0; decide)
  refine ⟨hneg, ?_, hD.ext.cs, by rw [hD.size, ifHead_size], ?_, PlainAt.ext hD.ext (plainAt_ifHead c xs), ?_, ?_, ?_, ?_⟩
  · apply lookup_none_of_not_key
    intro q hq e
    rcases hD.fresh q hq with h | h
    · cases h
    · have h' : q.1 < (-1 : Int) := h
      rw [e] at h'
      exact absurd h' (by decide)
  · obtain ⟨new, e, b⟩ := hD.marks
    rw [e]
    exact b
  · rw [hD.ext.ops _ hlt]; exact ifHead_op c xs
  · exact hD.ext.not_mark hlt (fun h => nomatch h)
  · rw [hD.ext.unl _ hlt]; exact ifHead_unl c xs
  · have := hD.emitted
    rw [ifHead_size] at this
    exact this

/-- **IF … THEN** as a fragment -/
theorem frag_ifThen (c : Col) (cnd : Expr) (pe : SStmt) (G1 : Link) (hD : Done (ifHead c (flat cnd)) G1 pe) :
    Good (G1.pushSymbol (-1)) ∧ NegSyms (G1.pushSymbol (-1)) ∧ Balanced (G1.pushSymbol (-1)).whiles ∧
    Emitted (G1.pushSymbol (-1)) 0 (.ifThen cnd pe) ∧ (G1.pushSymbol (-1)).ops.size = size (.ifThen cnd pe) := by
  obtain ⟨hneg, hno, hcs, hsz, hbal, hpl, hop, hnm, hunl, hem⟩ := ifHead_done hD
  have e2 := ext_pushSymbol (f := G1) (-1) hno
  refine ⟨good_pushSymbol hD.good (-1) (.inr hcs), negSyms_pushSymbol hneg (-1) (by decide), hbal, ?_, hsz⟩
  refine ⟨PlainAt.ext e2 hpl, ?_, ?_⟩
  · rw [Nat.zero_add, Nat.zero_add]
    have hlt := lt_size_of_getElem? hop
    refine ⟨by rw [e2.ops _ hlt]; exact hop, e2.not_mark hlt hnm, c, -1, G1.data.size, by decide,
      by rw [e2.unl _ hlt]; exact hunl, ?_⟩
    rw [← hsz]
    exact pushSymbol_lookup G1 (-1)
  · rw [Nat.zero_add]
    exact Emitted.ext e2 pe _ hem

/-- **IF … THEN … ELSE** as a fragment -/
theorem frag_ifThenElse (c : Col) (cnd : Expr) (pe qe : SStmt) (G1 G3 : Link) (hD1 : Done (ifHead c (flat cnd)) G1 pe)
    (hD2 : Done ((withRef G1.nextSymbol.1 c G1.nextSymbol.2 (Opcode.jump 0)).pushSymbol (-1)) G3 qe) :
    Good (G3.pushSymbol G1.nextSymbol.2) ∧ NegSyms (G3.pushSymbol G1.nextSymbol.2) ∧
    Balanced (G3.pushSymbol G1.nextSymbol.2).whiles ∧
    Emitted (G3.pushSymbol G1.nextSymbol.2) 0 (.ifThenElse cnd pe qe) ∧
    (G3.pushSymbol G1.nextSymbol.2).ops.size = size (.ifThenElse cnd pe qe) := by
  obtain ⟨hneg1, hno1, hcs1, hsz1, hbal1, hpl, hop, hnm, hunl, hem⟩ := ifHead_done hD1
  -- the label counter, the jump, the ELSE label
  have hfin : G1.nextSymbol.2 = G1.currentSymbol - 1 := rfl
  have hfin2 : G1.nextSymbol.2 ≤ -2 := by rw [hfin]; simp only [Symbol] at *; omega
  have hGa := good_nextSymbol hD1.good
  have eA := ext_nextSymbol hD1.good
  have hGc := good_withRef hGa c G1.nextSymbol.2 (Opcode.jump 0) (.inr (Int.le_refl _))
  have eC := ext_withRef (f := G1.nextSymbol.1) c G1.nextSymbol.2 (Opcode.jump 0)
  obtain ⟨cop, cunl, csz, cwh, csym, ccs, _⟩ := withRef_facts G1.nextSymbol.1 c G1.nextSymbol.2 (Opcode.jump 0)
  have hszA : G1.nextSymbol.1.ops.size = G1.ops.size := rfl
  rw [hszA] at cop cunl csz
  have hnoC : (withRef G1.nextSymbol.1 c G1.nextSymbol.2 (Opcode.jump 0)).symbols.lookup (-1) = none := by
    rw [csym]; exact hno1
  have hG2 := good_pushSymbol hGc (-1) (.inr (by rw [ccs]; show G1.currentSymbol - 1 ≤ -1; simp only [Symbol] at *; omega))
  have e2 := ext_pushSymbol (f := withRef G1.nextSymbol.1 c G1.nextSymbol.2 (Opcode.jump 0)) (-1) hnoC
  have hneg2 : NegSyms ((withRef G1.nextSymbol.1 c G1.nextSymbol.2 (Opcode.jump 0)).pushSymbol (-1)) :=
    negSyms_pushSymbol (by intro q hq; rw [csym] at hq; exact hneg1 q hq) (-1) (by decide)
  have hcs2 : ((withRef G1.nextSymbol.1 c G1.nextSymbol.2 (Opcode.jump 0)).pushSymbol (-1)).currentSymbol = G1.nextSymbol.2 := ccs
  have hsz2 : ((withRef G1.nextSymbol.1 c G1.nextSymbol.2 (Opcode.jump 0)).pushSymbol (-1)).ops.size = G1.ops.size + 1 := csz
  have hl2 := pushSymbol_lookup (withRef G1.nextSymbol.1 c G1.nextSymbol.2 (Opcode.jump 0)) (-1)
  -- the ELSE part
  have hneg3 : NegSyms G3 := negSyms_of_fresh hD2.fresh hneg2 (by rw [hcs2]; exact Int.le_trans hfin2 (by decide))
  have hno3 : G3.symbols.lookup G1.nextSymbol.2 = none := by
    apply lookup_none_of_not_key
    intro q hq e
    rcases hD2.fresh q hq with h | h
    · rcases mem_symInsert h with rfl | h
      · have : (-1 : Int) = G1.nextSymbol.2 := e
        rw [← this] at hfin2
        exact absurd hfin2 (by decide)
      · rw [csym] at h
        have h1 := hD1.good.loc.symbols q h (hneg1 q h)
        rw [e, hfin] at h1
        simp only [Symbol] at *
        omega
    · rw [hcs2, e] at h
      exact absurd h (Int.lt_irrefl _)
  have hcs3 : G3.currentSymbol ≤ G1.nextSymbol.2 := by have := hD2.ext.cs; rw [hcs2] at this; exact this
  have e4 := ext_pushSymbol (f := G3) G1.nextSymbol.2 hno3
  have hsz3 : G3.ops.size = G1.ops.size + 1 + size qe := by rw [hD2.size, hsz2]
  have e1G : Ext G1 (G3.pushSymbol G1.nextSymbol.2) := eA.trans (eC.trans (e2.trans (hD2.ext.trans e4)))
  have ecG : Ext (withRef G1.nextSymbol.1 c G1.nextSymbol.2 (Opcode.jump 0)) (G3.pushSymbol G1.nextSymbol.2) :=
    e2.trans (hD2.ext.trans e4)
  refine ⟨good_pushSymbol hD2.good _ (.inr hcs3), negSyms_pushSymbol hneg3 _ (Int.lt_of_le_of_lt hfin2 (by decide)), ?_, ?_, ?_⟩
  · obtain ⟨new, en, bn⟩ := hD2.marks
    show Balanced G3.whiles
    rw [en]
    exact balanced_append (by show Balanced (withRef G1.nextSymbol.1 c G1.nextSymbol.2 (Opcode.jump 0)).whiles; rw [cwh]; exact hbal1) bn
  · refine ⟨PlainAt.ext e1G hpl, ?_, ?_, ?_, ?_⟩
    · rw [Nat.zero_add, Nat.zero_add]
      have hlt := lt_size_of_getElem? hop
      refine ⟨by rw [e1G.ops _ hlt]; exact hop, e1G.not_mark hlt hnm, c, -1,
        (withRef G1.nextSymbol.1 c G1.nextSymbol.2 (Opcode.jump 0)).data.size, by decide,
        by rw [e1G.unl _ hlt]; exact hunl, ?_⟩
      have := (hD2.ext.trans e4).syms _ _ hl2
      rw [csz, hsz1] at this
      exact this
    · rw [Nat.zero_add]
      exact Emitted.ext e1G pe _ hem
    · rw [Nat.zero_add, Nat.zero_add]
      rw [hsz1] at cop cunl
      have hlt := lt_size_of_getElem? cop
      refine ⟨by rw [ecG.ops _ hlt]; exact cop, ecG.not_mark hlt ?_, c, G1.nextSymbol.2, G3.data.size, Int.lt_of_le_of_lt hfin2 (by decide),
        by rw [ecG.unl _ hlt]; exact cunl, ?_⟩
      · intro hm
        unfold markAddrs at hm
        rw [cwh] at hm
        obtain ⟨m, hm', e⟩ := List.mem_map.1 hm
        have := hD1.good.marks m hm'
        rw [hsz1] at this
        omega
      · have := pushSymbol_lookup G3 G1.nextSymbol.2
        rw [hsz3, hsz1] at this
        exact this
    · rw [Nat.zero_add]
      have := Emitted.ext e4 qe _ hD2.emitted
      rw [hsz2, hsz1] at this
      exact this
  · show G3.ops.size = _
    rw [hsz3, hsz1]
    rfl

/-- **the fragments of a structured statement, appended to a well-formed link** -/
theorem emit_done : ∀ (p : AStmt) (fs : List Link), FragShape p fs → ∀ (f : Link), Good f →
    Done f (appendAllL f fs) p.erase
  | .assign c cv i e, fs, h, f, hf => by
    simp only [FragShape] at h
    subst h
    rw [appendAllL_cons, appendAllL_nil]
    exact done_frag hf (good_plain _) (negSyms_plain _) balanced_nil (plainAt_plain _)
      (by simp [plain, size, AStmt.erase])
  | .seq p q, fs, h, f, hf => by
    obtain ⟨f1, f2, rfl, h1, h2⟩ := h
    rw [appendAllL_append]
    have d1 := emit_done p f1 h1 f hf
    exact d1.seq (emit_done q f2 h2 _ d1.good)
  | .ifThen c cnd p, fs, h, f, hf => by
    obtain ⟨ft, rfl, h1⟩ := h
    rw [appendAllL_cons, appendAllL_nil]
    have d1 := emit_done p ft h1 (ifHead c (flat cnd)) (good_ifHead _ _)
    obtain ⟨g1, g2, g3, g4, g5⟩ := frag_ifThen c cnd p.erase _ d1
    have e : ifFrag c (flat cnd) ft [] = (appendAllL (ifHead c (flat cnd)) ft).pushSymbol (-1) := by simp [ifFrag]
    rw [e]
    exact done_frag hf g1 g2 g3 g4 g5
  | .ifThenElse c cnd p q, fs, h, f, hf => by
    obtain ⟨ft, fe, rfl, h1, h2⟩ := h
    rw [appendAllL_cons, appendAllL_nil]
    have d1 := emit_done p ft h1 (ifHead c (flat cnd)) (good_ifHead _ _)
    have hG2 : Good ((withRef (appendAllL (ifHead c (flat cnd)) ft).nextSymbol.1 c
        (appendAllL (ifHead c (flat cnd)) ft).nextSymbol.2 (Opcode.jump 0)).pushSymbol (-1)) := by
      have hcs := d1.ext.cs
      refine good_pushSymbol (good_withRef (good_nextSymbol d1.good) c _ _ (.inr (Int.le_refl _))) (-1) (.inr ?_)
      show (appendAllL (ifHead c (flat cnd)) ft).currentSymbol - 1 ≤ -1
      have hcs' : (appendAllL (ifHead c (flat cnd)) ft).currentSymbol ≤ (-1 : Int) := hcs
      simp only [Symbol] at *
      omega
    have d2 := emit_done q fe h2 _ hG2
    obtain ⟨g1, g2, g3, g4, g5⟩ := frag_ifThenElse c cnd p.erase q.erase _ _ d1 d2
    have e : ifFrag c (flat cnd) ft fe =
        (appendAllL ((withRef (appendAllL (ifHead c (flat cnd)) ft).nextSymbol.1 c
          (appendAllL (ifHead c (flat cnd)) ft).nextSymbol.2 (Opcode.jump 0)).pushSymbol (-1)) fe).pushSymbol
          (appendAllL (ifHead c (flat cnd)) ft).nextSymbol.2 := by
      simp only [ifFrag, FragShape.ne_nil h2, if_false]
      rfl
    rw [e]
    exact done_frag hf g1 g2 g3 g4 g5
  | .while c cw cnd p, fs, h, f, hf => by
    obtain ⟨fb, rfl, h1⟩ := h
    rw [appendAllL_cons, appendAllL_append, appendAllL_cons, appendAllL_nil]
    exact done_while hf c cw cnd _ _ (emit_done p fb h1 _ (good_appended hf (good_whileFrag c (flat cnd))))
  | .for _ _ _ _ i a b s p, fs, h, f, hf => by
    obtain ⟨col, fb, rfl, h1⟩ := h
    rw [appendAllL_cons, appendAllL_append, appendAllL_cons, appendAllL_nil]
    exact done_for hf col i.name a b s _ _ (emit_done p fb h1 _ (good_appended hf (good_forFrag col i.name _ _ _)))

/-! ## the theorems -/

/-- a link without pending references, WHILE marks or local labels: the empty program with the label
    of its first line, or any linked program -/
structure Clean (l : Link) : Prop where
  cs : l.currentSymbol = 0
  syms : ∀ q ∈ l.symbols, 0 ≤ q.1
  sorted : SymSorted l.symbols
  unl : l.unlinked = []
  whiles : l.whiles = []

theorem Clean.good {l : Link} (h : Clean l) : Good l where
  loc := by
    refine ⟨by rw [h.cs]; exact Int.le_refl 0, ?_, ?_, ?_⟩
    · intro p hp hn
      have := h.syms p hp
      simp only [Symbol] at *
      omega
    · intro p hp
      rw [h.unl] at hp
      cases hp
    · intro p hp
      rw [h.whiles] at hp
      cases hp
  sorted := h.sorted
  keys := by intro p hp; rw [h.unl] at hp; cases hp
  marks := by intro m hm; rw [h.whiles] at hm; cases hm
  kd := by rw [h.unl]; exact List.Pairwise.nil
  md := by unfold markAddrs; rw [h.whiles]; exact List.Pairwise.nil

/-- **Linked code of a structured statement.**  Let the fragments of `p` (`FragShape`) be appended to a
    clean link `l0`, and any raw ops `post` after them.  After `link`, the code at `l0.ops.size` is
    `compile p a` — the absolute-address code the run theorems are about —, and `post` follows it
    unchanged. -/
theorem struct_linked (p : AStmt) (fs : List Link) (h : FragShape p fs) (l0 : Link) (hc : Clean l0) (post : Array Opcode) :
    CodeAt ((appendAllL l0 fs).pushOps post).link.1.ops l0.ops.size (compile p.erase l0.ops.size) ∧
    ∀ k, ((appendAllL l0 fs).pushOps post).link.1.ops[l0.ops.size + size p.erase + k]? = post[k]? := by
  have d := emit_done p fs h l0 hc.good
  have hext : Ext (appendAllL l0 fs) ((appendAllL l0 fs).pushOps post) := by
    refine ⟨?_, ?_, Int.le_refl _, fun _ _ h => h, fun _ _ => rfl, ⟨[], by simp [pushOps], fun _ h => nomatch h⟩⟩
    · intro x hx
      show ((appendAllL l0 fs).ops ++ post)[x]? = _
      rw [Array.getElem?_append_left hx]
    · show _ ≤ ((appendAllL l0 fs).ops ++ post).size
      rw [Array.size_append]; omega
  constructor
  · exact emitted_codeAt ((appendAllL l0 fs).pushOps post) d.good.kd d.good.md p.erase _ (Emitted.ext hext _ _ d.emitted)
  · intro k
    rw [link_ops_none]
    · show ((appendAllL l0 fs).ops ++ post)[_]? = _
      rw [Array.getElem?_append_right (by rw [d.size]; omega)]
      congr 1
      rw [d.size]; omega
    · rw [pend_lookup_other]
      · exact lookup_none_of_keys d.good.keys (by rw [d.size]; omega)
      · intro hm
        obtain ⟨m, hm', e⟩ := List.mem_map.1 hm
        have := d.good.marks m hm'
        rw [d.size] at this
        omega

/-! ### the generator -/

theorem appendAll_ok : ∀ (frs : List (Col × Link)) (l : Link) (errs : List Error), (∀ x ∈ frs, x.2.data = #[]) →
    l.ops.size + opsTotal (frs.map (·.2)) ≤ Gen.stackMaxLen → l.data.size ≤ Gen.stackMaxLen →
    Codegen.codegen.appendAll frs l errs = (appendAllL l (frs.map (·.2)), errs)
  | [], l, errs, _, _, _ => by simp [Codegen.codegen.appendAll, appendAllL_nil]
  | x :: frs, l, errs, hd, hs, hdd => by
    obtain ⟨c, g⟩ := x
    simp only [List.map_cons, opsTotal] at hs
    have hg : g.data = #[] := hd (c, g) List.mem_cons_self
    have happ : l.append g = (appended l g, .ok ()) := by
      rcases append_cases l g with ⟨_, h, _⟩ | ⟨h, _⟩ | ⟨_, h, _⟩ | ⟨_, _, e⟩
      · rw [hg] at h; simp at h
      · omega
      · rw [hg] at h; simp at h; omega
      · exact e
    simp only [Codegen.codegen.appendAll, happ, List.map_cons, appendAllL_cons]
    exact appendAll_ok frs (appended l g) errs (fun y hy => hd y (List.mem_cons_of_mem _ hy))
      (by show (l.ops ++ g.ops).size + _ ≤ _; rw [Array.size_append]; omega)
      (by show (l.data ++ g.data).size ≤ _; rw [hg]; simpa using hdd)

/-- **`Codegen.codegen` on a structured statement**: its fragments are appended to the program's link;
    nothing is reported -/
theorem codegen_struct (p : AStmt) (hp : p.erase.Pure) (hn : p.Named) (l0 : Link)
    (hsz : l0.ops.size + size p.erase ≤ Gen.stackMaxLen) (hdd : l0.data.size ≤ Gen.stackMaxLen) :
    ∃ fs, FragShape p fs ∧ Codegen.codegen l0 p.stmts = (appendAllL l0 fs, []) := by
  obtain ⟨frs, hf, he⟩ := acceptStmts_shape p hp hn (by omega) #[] #[] #[] {} []
  refine ⟨frs.map (·.2), hf, ?_⟩
  unfold Codegen.codegen
  have e0 : ({} : Codegen.VState) = ⟨⟨#[], #[], #[], {}⟩, []⟩ := rfl
  rw [e0, he]
  dsimp only
  have e1 : (#[] ++ frs.toArray : Array (Col × Link)).toList = frs := by simp
  rw [e1]
  exact appendAll_ok frs l0 [] (fun x hx => FragShape.data hf x.2 (List.mem_map_of_mem hx))
    (by rw [FragShape.opsTotal hf]; exact hsz) hdd

/-! ### a whole program of one line -/

/-- `linkProg`, stage 1: make sure the code ends with `end` -/
def pushEndP (p : Program) : Program :=
  let (l, r) := p.link.push .end
  match r with
  | .ok () => { p with link := l }
  | .error e => { p with link := l, errors := p.errors ++ [e] }

def ensureEnd (p : Program) : Program :=
  match p.link.ops.back? with
    | some .end => if p.link.hasLineAtEnd then pushEndP p else p
    | _ => pushEndP p

/-- stage 2: resolve the pending references -/
def resolve (p : Program) : Program :=
  let (l, linkErrs) := p.link.link
  let p := { p with link := l }
  if p.errors.isEmpty then { p with errors := linkErrs } else p

/-- stage 3: the first link after the indirect lines fixes the start of direct code -/
def markDirect (p : Program) : Program :=
  if p.directAddress = 0 then
    { p with indirectErrors := p.errors, errors := [], directAddress := p.link.ops.size,
             link := p.link.setStartOfDirect p.link.ops.size }
  else p

theorem linkProg_eq (p : Program) : p.linkProg = markDirect (resolve (ensureEnd p)) := rfl

theorem pushEndP_link (p : Program) : (pushEndP p).link = p.link.pushOps #[Opcode.end] := by
  unfold pushEndP
  have : (p.link.push Opcode.end).1 = p.link.pushOps #[Opcode.end] := by
    show ({ p.link with ops := p.link.ops.push Opcode.end } : Link) = { p.link with ops := p.link.ops ++ #[Opcode.end] }
    congr 1
  rw [← this]
  dsimp only
  split <;> rfl

theorem ensureEnd_link (p : Program) : ∃ post : Array Opcode, (ensureEnd p).link = p.link.pushOps post := by
  unfold ensureEnd
  split
  · split
    · exact ⟨_, pushEndP_link p⟩
    · refine ⟨#[], ?_⟩
      show p.link = { p.link with ops := p.link.ops ++ #[] }
      simp only [Array.append_empty]
  · exact ⟨_, pushEndP_link p⟩

theorem resolve_link (p : Program) : (resolve p).link = p.link.link.1 := by
  unfold resolve
  dsimp only
  split <;> rfl

theorem markDirect_ops (p : Program) : (markDirect p).link.ops = p.link.ops := by
  unfold markDirect
  split <;> rfl

/-- whatever `linkProg` does besides linking, the code is the linked code, with at most one `end` added -/
theorem linkProg_ops (p : Program) :
    ∃ post : Array Opcode, p.linkProg.link.ops = ((p.link.pushOps post).link).1.ops := by
  obtain ⟨post, h⟩ := ensureEnd_link p
  exact ⟨post, by rw [linkProg_eq, markDirect_ops, resolve_link, h]⟩

theorem clean_line_label (n : Nat) : Clean (({} : Link).pushSymbol (n : Int)) where
  cs := rfl
  syms := by
    intro q hq
    simp only [Link.pushSymbol, symInsert, List.mem_singleton] at hq
    subst hq
    exact Int.natCast_nonneg n
  sorted := by simp [Link.pushSymbol, symInsert, SymSorted]
  unl := rfl
  whiles := rfl

/-- **A program of one line.**  If the line `n <tokens>` parses to the statement list of a structured
    statement `p` (pure expressions, names that are no zero-argument built-ins, code that fits), the
    compiled and linked program has `compile p 0` — the code of the run theorems — at address 0. -/
theorem compile_one_line (n : Nat) (toks : List Token) (p : AStmt) (hparse : Parse.parse (some n) toks = .ok p.stmts)
    (hp : p.erase.Pure) (hn : p.Named) (hsz : size p.erase ≤ Gen.stackMaxLen) :
    CodeAt (Program.compile [⟨some n, toks⟩]).link.ops 0 (compile p.erase 0) := by
  obtain ⟨fs, hf, hcg⟩ := codegen_struct p hp hn (({} : Link).pushSymbol (n : Int)) (by simpa using hsz) (by show (0 : Nat) ≤ Gen.stackMaxLen; decide)
  have hline : (({} : Program).codegenLines [⟨some n, toks⟩]).link = appendAllL (({} : Link).pushSymbol (n : Int)) fs := by
    unfold Program.codegenLines
    simp only [List.foldl_cons, List.foldl_nil]
    unfold Program.codegenLine
    simp only [Option.isNone_some, Bool.false_eq_true, if_false, hparse]
    show (Codegen.codegen (({} : Link).pushSymbol (n : Int)) p.stmts).1 = _
    rw [hcg]
  obtain ⟨post, hpost⟩ := linkProg_ops (({} : Program).codegenLines [⟨some n, toks⟩])
  unfold Program.compile
  rw [hpost, hline]
  exact (struct_linked p fs hf _ (clean_line_label n) post).1

end Lemmas.StructLink

end Basic
