import BasicModel.Lemmas.LexAllPass2
/-
  C05 for ALL strings, part 10: after the post-passes no two word-like tokens are adjacent
  (`wordClash_postPasses`) and the line ends well (`endOk_postPasses`), whatever the input.
-/
set_option linter.unusedSimpArgs false
set_option linter.unusedVariables false
namespace Basic
namespace Lex

theorem wordClash_sepRec (l : List Token) : wordClash (sepRec l) = false := by
  induction l with
  | nil => rfl
  | cons a tl ih =>
    cases tl with
    | nil => rfl
    | cons b rest =>
      rw [sepRec_cons2]
      obtain ⟨tl', e⟩ := sepRec_head b rest
      rw [e] at ih ⊢
      split
      · simp only [wordClash, Token.isWord, Bool.and_false, Bool.false_and, Bool.false_or]
        exact ih
      · rename_i h
        simp only [wordClash, Bool.or_eq_false_iff]
        exact ⟨by simpa using h, ih⟩

/-- no two word-like tokens are adjacent in a lexed line -/
theorem wordClash_postPasses (l : List Token) : wordClash (postPasses l) = false := by
  unfold postPasses; rw [separateWords_eq]; exact wordClash_sepRec _

/-! ### the end of the line -/

theorem getLast?_drop {α} (l : List α) (k : Nat) (h : l.drop k ≠ []) : (l.drop k).getLast? = l.getLast? := by
  induction k generalizing l with
  | zero => rfl
  | succ k ih =>
    cases l with
    | nil => simp at h
    | cons a l' =>
      simp only [List.drop_succ_cons] at h ⊢
      rw [ih l' h]
      cases l' with
      | nil => simp at h
      | cons b l'' => rw [List.getLast?_cons_cons]

theorem getLast?_cons_of_ne {α} (a : α) (l : List α) (h : l ≠ []) : (a :: l).getLast? = l.getLast? := by
  cases l with
  | nil => contradiction
  | cons b l' => rw [List.getLast?_cons_cons]

theorem tplRec_ne (l : List Token) (h : l ≠ []) : tplRec l ≠ [] := by
  cases l with
  | nil => contradiction
  | cons a tl =>
    cases tl with
    | nil => simp [tplRec]
    | cons b tl2 =>
      cases tl2 with
      | nil => simp [tplRec]
      | cons c rest => rw [tplRec_cons3]; split <;> simp

/-- tokens the collapsing passes build -/
def Made (t : Token) : Prop := isCmp t = true ∨ t = .word .goto ∨ t = .word .gosub

theorem Made.lastOK {t : Token} (h : Made t) : LastOK t := by
  rcases h with h | h | h
  · cases t <;> first | trivial | exact absurd h (by simp [isCmp])
  · subst h; trivial
  · subst h; trivial

theorem tplRec_last (n : Nat) : ∀ (l : List Token), l.length ≤ n → ∀ t, (tplRec l).getLast? = some t →
    l.getLast? = some t ∨ Made t := by
  induction n with
  | zero =>
    intro l hl t h
    have : l = [] := by cases l <;> simp_all
    subst this; simp [tplRec] at h
  | succ n ih =>
    intro l hl t h
    cases l with
    | nil => simp [tplRec] at h
    | cons a tl =>
      cases tl with
      | nil => exact Or.inl h
      | cons b tl2 =>
        cases tl2 with
        | nil => exact Or.inl h
        | cons c rest =>
          simp only [List.length_cons] at hl
          rw [tplRec_cons3] at h
          have hX := tplRec_ne (b :: c :: rest) (by simp)
          have hl3 : (a :: b :: c :: rest).getLast? = (b :: c :: rest).getLast? := by
            rw [List.getLast?_cons_cons]
          cases hm : tripleMatch a b c with
          | none =>
            rw [hm] at h; simp only at h
            rw [getLast?_cons_of_ne _ _ hX] at h
            rw [hl3]
            exact ih _ (by simp only [List.length_cons]; omega) t h
          | some T =>
            rw [hm] at h; simp only at h
            by_cases hd : (tplRec (b :: c :: rest)).drop 2 = []
            · rw [hd] at h; simp at h; subst h
              right
              obtain ⟨-, hcase⟩ := tripleMatch_some a b c _ hm
              rcases hcase with ⟨-, -, hT⟩ | ⟨-, (⟨-, e⟩ | ⟨-, e⟩)⟩
              · exact Or.inl hT
              · exact Or.inr (Or.inl e)
              · exact Or.inr (Or.inr e)
            · rw [getLast?_cons_of_ne _ _ hd, getLast?_drop _ _ hd] at h
              rw [hl3]
              exact ih _ (by simp only [List.length_cons]; omega) t h

theorem dblRec_ne (l : List Token) (h : l ≠ []) : dblRec l ≠ [] := by
  cases l with
  | nil => contradiction
  | cons a tl =>
    cases tl with
    | nil => simp [dblRec]
    | cons b rest => rw [dblRec_cons2]; split <;> simp

theorem dblRec_last (n : Nat) : ∀ (l : List Token), l.length ≤ n → ∀ t, (dblRec l).getLast? = some t →
    l.getLast? = some t ∨ Made t := by
  induction n with
  | zero =>
    intro l hl t h
    have : l = [] := by cases l <;> simp_all
    subst this; simp [dblRec] at h
  | succ n ih =>
    intro l hl t h
    cases l with
    | nil => simp [dblRec] at h
    | cons a tl =>
      cases tl with
      | nil => exact Or.inl h
      | cons b rest =>
        simp only [List.length_cons] at hl
        rw [dblRec_cons2] at h
        cases hm : doubleMatch a b with
        | none =>
          rw [hm] at h; simp only at h
          rw [getLast?_cons_of_ne _ _ (dblRec_ne _ (by simp))] at h
          rw [List.getLast?_cons_cons]
          exact ih _ (by simp only [List.length_cons]; omega) t h
        | some T =>
          rw [hm] at h; simp only at h
          cases rest with
          | nil =>
            simp [dblRec] at h; subst h
            right
            obtain ⟨-, -, hT⟩ := doubleMatch_some a b _ hm
            exact Or.inl hT
          | cons c rest' =>
            rw [getLast?_cons_of_ne _ _ (dblRec_ne _ (by simp))] at h
            rw [List.getLast?_cons_cons, List.getLast?_cons_cons]
            exact ih _ (by simp only [List.length_cons] at hl ⊢; omega) t h

theorem sepRec_last (l : List Token) : (sepRec l).getLast? = l.getLast? := by
  induction l with
  | nil => rfl
  | cons a tl ih =>
    cases tl with
    | nil => rfl
    | cons b rest =>
      rw [sepRec_cons2]
      obtain ⟨tl', e⟩ := sepRec_head b rest
      rw [List.getLast?_cons_cons, ← ih, e]
      split
      · rw [List.getLast?_cons_cons, List.getLast?_cons_cons]
      · rw [List.getLast?_cons_cons]

/-- the last token after the passes is the last token after `trim_end`, or one the collapsing passes built -/
theorem postPasses_last (l : List Token) (t : Token) (ht : (postPasses l).getLast? = some t) :
    (trimEnd l).getLast? = some t ∨ Made t := by
  unfold postPasses at ht
  rw [separateWords_eq, sepRec_last, collapseDoubles_eq] at ht
  rcases dblRec_last _ _ (Nat.le_refl _) t ht with h | h
  · rw [collapseTriples_eq_la] at h
    exact tplRec_last _ _ (Nat.le_refl _) t h
  · exact Or.inr h

/-- a lexed line never ends in a blank run, nor in an `Unknown` token with trailing white space -/
theorem endOk_postPasses (l : List Token) : endOk (postPasses l) = true := by
  apply endOk_of_lastOK
  intro t ht
  rcases postPasses_last l t ht with h | h
  · exact trimEnd_lastOK l t h
  · exact h.lastOK

end Lex
end Basic
