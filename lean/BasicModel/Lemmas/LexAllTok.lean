import BasicModel.Lemmas.LexAllNum
/-
  C05 for ALL strings, part 2: the per-token predicate `Tok` (what the scanners can produce), the
  follower condition `Bnd` (what the next printed character may be) and the boundary lemma
  `tok_rescan`: a `Tok` token followed by a `Bnd` character is lexed back as itself.
-/
set_option linter.unusedSimpArgs false
set_option linter.unusedVariables false
namespace Basic
namespace Lex

/-- letter, digit or blank: the characters `minutia()` stops at -/
def isADW (c : Char) : Bool := isAlpha c || isDigit c || isWs c

/-- the characters that reach `minutia()` -/
def isMinStart (c : Char) : Bool :=
  !isWs c && !isDigit c && !(c = '.') && !isAlpha c && !(c = '"') && !(c = '&')

/-- text of an `Unknown` token outside remarks: starts with a character no scanner claims and
    `match_minutia` does not know, and holds no letter, digit or blank after it -/
def MinU (u : Str) : Prop :=
  ∃ c r, u = c :: r ∧ isMinStart c = true ∧ matchMinutia [c] = none ∧ ∀ x ∈ r, isADW x = false

/-- the follower condition on a character -/
def BndC : Token → Char → Prop
  | .unknown _, c => isADW c = true
  | .whitespace _, c => isWs c = false
  | .literal (.hex _), c => isRadixDigit true (upper c) = false ∧ upper c = c
  | .literal (.octal ds), c => isRadixDigit false (upper c) = false ∧ upper c = c ∧ (ds = [] → c ≠ 'H' ∧ c ≠ 'h')
  | .literal (.single s), c => NumBnd s (some c)
  | .literal (.double s), c => NumBnd s (some c)
  | .literal (.integer s), c => NumBnd s (some c)
  | .literal (.string _), _ => True
  | .word .rem2, _ => True
  | .word _, c => isAlpha c = false
  | .operator o, c => o.isWord = true → isAlpha c = false
  | .ident (.plain _), c => isAlpha c = false ∧ isDigit c = false ∧ isSuffixChar c = false
  | .ident _, _ => True
  | _, _ => True

/-- what may follow a token in the printed text (nothing, or a character the token's scanner stops at) -/
def Bnd (t : Token) : Option Char → Prop
  | none => True
  | some c => BndC t c

/-- a numeral token that `number()` scans back from its own text -/
def NumRe (t : Token) (s : Str) : Prop :=
  ∃ c cs, s = c :: cs ∧ (isDigit c || c = '.') = true ∧
    ∀ rest, NumBnd s rest.head? → number (s ++ rest) = (t, rest)

/-- tokens the scanners can produce (the remark markers and the remark text are treated apart) -/
def Tok : Token → Prop
  | .unknown u => MinU u
  | .whitespace n => 0 < n
  | .literal (.string s) => '"' ∉ s
  | .literal (.hex ds) => ∀ c ∈ ds, isRadixDigit true c = true
  | .literal (.octal ds) => ∀ c ∈ ds, isRadixDigit false c = true
  | .literal (.single s) => NumRe (.literal (.single s)) s
  | .literal (.double s) => NumRe (.literal (.double s)) s
  | .literal (.integer s) => NumRe (.literal (.integer s)) s
  | .ident i => Printable (.ident i)
  | _ => True

/-! ### `minutia()` on an unknown run -/

theorem matchMinutia_snoc (s : Str) (hs : s ≠ []) (c : Char) : matchMinutia (s ++ [c]) = none := by
  cases s with
  | nil => contradiction
  | cons a s' =>
    cases s' with
    | nil => exact matchMinutia_long a c []
    | cons b s'' => exact matchMinutia_long a b _

theorem minutiaLoop_run (r : List Char) : ∀ (s : Str) (rest : List Char), s ≠ [] →
    (∀ x ∈ r, isADW x = false) → (∀ c ∈ rest.head?, isADW c = true) →
    (r = [] → rest = []) →
    minutiaLoop (r ++ rest) s = (.unknown (s ++ r), rest) := by
  induction r with
  | nil =>
    intro s rest hs _ _ hr
    rw [hr rfl]; simp [minutiaLoop]
  | cons x r ih =>
    intro s rest hs hr hrest _
    have hx := hr x (by simp)
    rw [List.cons_append]
    unfold minutiaLoop
    simp only [matchMinutia_snoc s hs x]
    cases r with
    | nil =>
      cases rest with
      | nil => simp
      | cons k tl =>
        have hk := hrest k (by simp)
        simp only [isADW, Bool.or_eq_true] at hk
        have : (isAlpha k || isDigit k || isWs k) = true := by simpa [Bool.or_eq_true] using hk
        simp [this]
    | cons y r' =>
      have hy := hr y (by simp)
      simp only [isADW] at hy
      simp only [List.cons_append, hy, Bool.false_eq_true, if_false]
      have := ih (s ++ [x]) rest (by simp) (fun z hz => hr z (by simp [hz])) hrest (by simp)
      simp only [List.cons_append] at this
      rw [this]; simp

/-- an `Unknown` run followed by a letter, digit, blank or nothing is one `Unknown` token again -/
theorem minutia_unknown (u : Str) (h : MinU u) (rest : List Char) (hb : ∀ c ∈ rest.head?, isADW c = true) :
    minutia (u ++ rest) = (.unknown u, rest) := by
  obtain ⟨c, r, rfl, hc, hm, hr⟩ := h
  rw [List.cons_append, minutia]
  unfold minutiaLoop
  simp only [List.nil_append, hm]
  cases r with
  | nil =>
    cases rest with
    | nil => simp
    | cons k tl =>
      have hk := hb k (by simp)
      simp only [isADW] at hk
      simp [hk]
  | cons y r' =>
    have hy := hr y (by simp)
    simp only [isADW] at hy
    simp only [List.cons_append, hy, Bool.false_eq_true, if_false]
    have := minutiaLoop_run (y :: r') [c] rest (by simp) hr hb (by simp)
    simp only [List.cons_append] at this
    rw [this]; simp

theorem lexFrom_unknown (u : Str) (h : MinU u) (rest : List Char) (hb : ∀ c ∈ rest.head?, isADW c = true) :
    lexFrom (u ++ rest) false = .unknown u :: lexFrom rest false := by
  have hm := minutia_unknown u h rest hb
  obtain ⟨c, r, rfl, hc, -, -⟩ := h
  simp only [isMinStart, Bool.and_eq_true, Bool.not_eq_true', decide_eq_false_iff_not] at hc
  obtain ⟨⟨⟨⟨⟨h1, h2⟩, h3⟩, h4⟩, h5⟩, h6⟩ := hc
  rw [List.cons_append] at hm ⊢
  rw [lexFrom_cons]
  have hne : (Token.unknown (c :: r) == Token.word Word.rem2) = false := by simp
  simp [h1, h2, h3, h4, h5, h6, hm, hne]

/-! ### reserved words followed by a digit or a type suffix -/

theorem alphaLoop_letters_then' (ls : List Char) (hls : ∀ c ∈ ls, isAlpha c = true) (hne : ls ≠ [])
    (k : Char) (tl : List Char) (hk : (isDigit k || isSuffixChar k) = true) (s : Str) (p : List Token) :
    alphaLoop (ls ++ k :: tl) s false p =
      if (scanAlphabetic p (s ++ ls.map upper)).2.isEmpty then ((scanAlphabetic p (s ++ ls.map upper)).1, k :: tl)
      else alphaLoop (k :: tl) (scanAlphabetic p (s ++ ls.map upper)).2 false
        (scanAlphabetic p (s ++ ls.map upper)).1 := by
  induction ls generalizing s with
  | nil => contradiction
  | cons c ls ih =>
    have hc := hls c (by simp)
    obtain ⟨n1, n2, n3, n4⟩ := upper_not_suffix_of_isAlpha c hc
    have hd : isDigit (upper c) = false := by
      rw [isDigit_upper]; exact not_isDigit_of_isAlpha c hc
    rw [List.cons_append, alphaLoop_cons]
    simp only [n1, n2, n3, n4, if_false, hd, Bool.or_false, Bool.false_eq_true]
    cases ls with
    | nil =>
      have hka : isAlpha k = false := by
        simp only [Bool.or_eq_true] at hk
        rcases hk with hk | hk
        · exact not_isAlpha_of_isDigit k hk
        · rw [isSuffixChar_iff] at hk
          rcases hk with h | h | h | h <;> subst h <;> decide
      have hkc : (isDigit k || k = '$' || k = '!' || k = '#' || k = '%') = true := by
        simpa [isSuffixChar, Bool.or_assoc] using hk
      simp only [List.nil_append, hka, Bool.false_eq_true, if_false, hkc, if_true, List.map_cons, List.map_nil]
    | cons c' ls' =>
      have hc' := hls c' (by simp)
      simp only [List.cons_append, hc', if_true]
      have := ih (fun x hx => hls x (by simp [hx])) (by simp) (s ++ [upper c])
      simp only [List.cons_append] at this
      rw [this]
      simp

/-- a reserved word followed by anything but a letter is that word -/
theorem alphabetic_keyword_na (p : Str × Token) (hp : p ∈ keywords) (rest : List Char)
    (hb : ∀ c ∈ rest.head?, isAlpha c = false) : alphabetic (p.1 ++ rest) = ([p.2], rest) := by
  by_cases hab : AlphaBoundary rest
  · exact alphabetic_keyword p hp rest hab
  · obtain ⟨h1, h2, h3⟩ := keywords_alpha p hp
    cases rest with
    | nil => exact absurd (by intro c hc; simp at hc) hab
    | cons k tl =>
      have hka := hb k (by simp)
      have hk : (isDigit k || isSuffixChar k) = true := by
        cases hd : isDigit k with
        | true => rfl
        | false =>
          cases hs : isSuffixChar k with
          | true => rfl
          | false =>
            exfalso; apply hab
            intro c hc; simp at hc; subst hc; exact ⟨hka, hd, hs⟩
      rw [alphabetic, alphaLoop_letters_then' p.1 h2 h3 k tl hk, List.nil_append, h1, keywords_scan p hp]
      simp

theorem lexFrom_keyword_na (p : Str × Token) (hp : p ∈ keywords) (rest : List Char)
    (hb : ∀ c ∈ rest.head?, isAlpha c = false) :
    lexFrom (p.1 ++ rest) false = p.2 :: lexFrom rest (p.2 == .word .rem1) := by
  have ha := alphabetic_keyword_na p hp rest hb
  obtain ⟨-, h2, h3⟩ := keywords_alpha p hp
  obtain ⟨c, cs, e⟩ : ∃ c cs, p.1 = c :: cs := by
    cases hh : p.1 with
    | nil => exact absurd hh h3
    | cons c cs => exact ⟨c, cs, rfl⟩
  rw [e, List.cons_append] at ha ⊢
  rw [lexFrom_alpha c _ (h2 c (by simp [e])) _ _ _ ha]
  simp

/-! ### the boundary lemma for everything the scanners produce -/

theorem bnd_some (t : Token) (rest : List Char) (h : Bnd t rest.head?) : ∀ c ∈ rest.head?, BndC t c := by
  intro c hc
  cases rest with
  | nil => simp at hc
  | cons k tl => simp at hc; subst hc; exact h

theorem Name.token_plain_sfx (nm : Name) (s : Str) (h : nm.token = .ident (.plain s)) : nm.sfx = none := by
  cases hs : nm.sfx with
  | none => rfl
  | some c =>
    simp only [Name.token, hs, suffixIdent] at h
    split at h
    · cases h
    split at h
    · cases h
    split at h <;> cases h

theorem tok_rescan (t : Token) (ht : Tok t) (h1 : t ≠ .word .rem1) (h2 : t ≠ .word .rem2) (rest : List Char)
    (hb : Bnd t rest.head?) : lexFrom (t.text ++ rest) false = rawOf t ++ lexFrom rest false := by
  have hbc := bnd_some t rest hb
  cases t with
  | unknown u => exact lexFrom_unknown u ht rest hbc
  | whitespace n => exact lexFrom_token _ rest ht hbc h1 h2
  | literal l =>
    cases l with
    | string s => exact lexFrom_token _ rest ht trivial h1 h2
    | hex ds => exact lexFrom_token _ rest ht hbc h1 h2
    | octal ds =>
      refine lexFrom_token _ rest ht ⟨fun c hc => ⟨(hbc c hc).1, (hbc c hc).2.1⟩, ?_⟩ h1 h2
      intro c hc
      cases ds with
      | nil => exact (hbc c (by simpa using hc)).2.2 rfl
      | cons d ds' =>
        simp at hc
        have hd : isRadixDigit false d = true := ht d (by simp)
        rw [← hc]
        constructor <;> (intro e; rw [e] at hd; revert hd; decide)
    | single s =>
      obtain ⟨c, cs, rfl, hc, hre⟩ := ht
      have := hre rest (by cases rest <;> first | trivial | exact hb)
      simp only [Token.text, Literal.text, List.cons_append] at this ⊢
      rw [lexFrom_number c _ hc, this]; rfl
    | double s =>
      obtain ⟨c, cs, rfl, hc, hre⟩ := ht
      have := hre rest (by cases rest <;> first | trivial | exact hb)
      simp only [Token.text, Literal.text, List.cons_append] at this ⊢
      rw [lexFrom_number c _ hc, this]; rfl
    | integer s =>
      obtain ⟨c, cs, rfl, hc, hre⟩ := ht
      have := hre rest (by cases rest <;> first | trivial | exact hb)
      simp only [Token.text, Literal.text, List.cons_append] at this ⊢
      rw [lexFrom_number c _ hc, this]; rfl
  | word w =>
    have hw : w ≠ .rem2 := fun e => h2 (by rw [e])
    have hw1 : w ≠ .rem1 := fun e => h1 (by rw [e])
    have hna : ∀ c ∈ rest.head?, isAlpha c = false := by
      intro c hc
      have := hbc c hc
      cases w <;> first | exact this | exact absurd rfl hw
    have := lexFrom_keyword_na _ (word_in_keywords w hw) rest hna
    have hne : (Token.word w == Token.word Word.rem1) = false := by simp [hw1]
    simpa [hne, rawOf, Token.text] using this
  | operator o =>
    by_cases ho : o.isWord = true
    · have hna : ∀ c ∈ rest.head?, isAlpha c = false := fun c hc => hbc c hc ho
      have := lexFrom_keyword_na _ (operator_in_keywords o ho) rest hna
      have hne : (Token.operator o == Token.word Word.rem1) = false := by simp
      simp only [hne] at this
      cases o <;> first | exact absurd ho (by decide) | exact this
    · exact lexFrom_token _ rest trivial (fun h => absurd h ho) h1 h2
  | ident i =>
    obtain ⟨nm, hw, htk, hu⟩ := ht
    have htx : (Token.ident i).text = nm.text := by
      rw [← htk, nm.token_text hw, Name.base, hu, Name.text, List.append_assoc]
    have hab : nm.sfx = none → AlphaBoundary rest := by
      intro hs
      have : ∃ s, i = .plain s := by
        simp only [Name.token, hs] at htk
        exact ⟨_, (Token.ident.inj htk).symm⟩
      obtain ⟨s, rfl⟩ := this
      intro c hc
      exact hbc c hc
    have := lexFrom_name nm hw rest hab
    rw [htx, this, htk]; rfl
  | lparen => exact lexFrom_token _ rest trivial trivial h1 h2
  | rparen => exact lexFrom_token _ rest trivial trivial h1 h2
  | comma => exact lexFrom_token _ rest trivial trivial h1 h2
  | colon => exact lexFrom_token _ rest trivial trivial h1 h2
  | semicolon => exact lexFrom_token _ rest trivial trivial h1 h2

end Lex
end Basic
