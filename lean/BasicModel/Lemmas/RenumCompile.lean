import BasicModel.Lemmas.RenumLink
/-
  RENUM and the compiler, part 10: `codegenLines`, the linker, `compile`.
-/
namespace Basic
namespace RenumRel
open Link Codegen Program

variable {φ : Nat → Nat} {K : Nat → Prop}

variable (φ K) in
/-- programs under construction -/
structure ProgRel (p p' : Program) : Prop where
  link : ProgLinkRel φ K p.link p'.link
  errors : All₂ ErrRel p.errors p'.errors
  indirectErrors : All₂ ErrRel p.indirectErrors p'.indirectErrors
  directAddress : p'.directAddress = p.directAddress

theorem ProgRel.empty : ProgRel φ K {} {} := ⟨ProgLinkRel.empty, .nil, .nil, rfl⟩

variable (φ K) in
/-- a line of the listing and its renumbered version: the number is renumbered, both parse, to
    statements equal up to columns with renumbered operands -/
def LineRel (line line' : Line) : Prop :=
  ∃ n ast ast', line.number = some n ∧ K n ∧ line'.number = some (φ n) ∧
    Parse.parse line.number line.tokens = .ok ast ∧ Parse.parse line'.number line'.tokens = .ok ast' ∧
    StmtsRel φ ast ast'

theorem all₂_map_inLine {es es' : List Error} (h : All₂ ErrRel es es') (a a' : Option Nat) :
    All₂ ErrRel (es.map (·.inLine a)) (es'.map (·.inLine a')) := by
  induction h with
  | nil => exact .nil
  | cons hab _ ih => exact .cons (hab.inLine a a') ih

theorem codegenLine_rel (hm : LineMap φ K) {line line' : Line} (hl : LineRel φ K line line') {p p' : Program}
    (hp : ProgRel φ K p p') : ProgRel φ K (p.codegenLine line) (p'.codegenLine line') := by
  obtain ⟨n, ast, ast', h1, hk, h2, h3, h4, hs⟩ := hl
  rw [codegenLine_numbered p line n h1, codegenLine_numbered p' line' (φ n) h2]
  rw [h1] at h3
  rw [h2] at h4
  unfold genNumbered
  rw [h3, h4]
  dsimp only
  have hc := codegen_rel hm hs (hp.link.pushSymbol hm hk)
  exact ⟨hc.1, hp.errors.append (all₂_map_inLine hc.2 _ _), hp.indirectErrors, hp.directAddress⟩

theorem codegenLines_rel (hm : LineMap φ K) {ls ls' : List Line} (hl : All₂ (LineRel φ K) ls ls') :
    ∀ {p p' : Program}, ProgRel φ K p p' → ProgRel φ K (p.codegenLines ls) (p'.codegenLines ls') := by
  unfold codegenLines
  induction hl with
  | nil => intro p p' hp; exact hp
  | cons hab _ ih => intro p p' hp; rw [List.foldl_cons, List.foldl_cons]; exact ih (codegenLine_rel hm hab hp)

/-! ### `linkProg`, stage 1: the closing `End` -/

theorem back?_rel {l l' : Link} (h : LinkCore φ l l') : l'.ops.back? = l.ops.back? := by
  rw [back?_eq_getLast?, back?_eq_getLast?]
  exact h.ops.getLast?

theorem any_mapSyms (P : Nat × Nat → Bool) (m : List (Symbol × (Nat × Nat))) :
    (mapSyms φ m).any (fun p => P p.2) = m.any (fun p => P p.2) := by
  unfold mapSyms
  rw [List.any_map]
  rfl

theorem hasLineAtEnd_rel {l l' : Link} (h : ProgLinkRel φ K l l') : l'.hasLineAtEnd = l.hasLineAtEnd := by
  unfold hasLineAtEnd
  rw [h.symbols, h.size]
  exact any_mapSyms (fun v => v.1 == l.ops.size) l.symbols

theorem pushEndP_rel {p p' : Program} (hp : ProgRel φ K p p') : ProgRel φ K (pushEndP p) (pushEndP p') := by
  have h := hp.link.push .end
  unfold pushEndP
  generalize p.link.push .end = r at h
  generalize p'.link.push .end = r' at h
  rcases r with ⟨l, x⟩
  rcases r' with ⟨l', x'⟩
  dsimp only at h ⊢
  obtain ⟨h1, rfl⟩ := h
  cases x' with
  | ok u => exact ⟨h1, hp.errors, hp.indirectErrors, hp.directAddress⟩
  | error e => exact ⟨h1, hp.errors.append (.cons (ErrRel.refl e) .nil), hp.indirectErrors, hp.directAddress⟩

theorem ensureEnd_rel {p p' : Program} (hp : ProgRel φ K p p') : ProgRel φ K (ensureEnd p) (ensureEnd p') := by
  rw [ensureEnd_eq p', ensureEnd_eq p, back?_rel hp.link.toLinkCore, hasLineAtEnd_rel hp.link]
  split
  · exact hp
  · exact pushEndP_rel hp

/-! ### stage 2: the linker -/

/-- an open WHILE on the matching stack -/
def StRel (x x' : Col × Nat × Symbol) : Prop := x'.2.1 = x.2.1 ∧ x'.2.2 = x.2.2 ∧ x.2.2 < 0

theorem linkWhiles_go_rel (l l' : Link) : ∀ {ws ws' : List (Bool × Col × Nat × Symbol)}, All₂ WhRel ws ws' →
    ∀ {st st' : List (Col × Nat × Symbol)}, All₂ StRel st st' →
    ∀ {unl unl' : List (Nat × (Col × Symbol))}, All₂ (UnlRel φ) unl unl' →
    ∀ {errs errs' : List Error}, All₂ ErrRel errs errs' →
    All₂ (UnlRel φ) (linkWhiles.go l ws st unl errs).1 (linkWhiles.go l' ws' st' unl' errs').1 ∧
    All₂ ErrRel (linkWhiles.go l ws st unl errs).2.1 (linkWhiles.go l' ws' st' unl' errs').2.1 ∧
    All₂ StRel (linkWhiles.go l ws st unl errs).2.2 (linkWhiles.go l' ws' st' unl' errs').2.2 := by
  intro ws ws' hws
  induction hws with
  | nil => intro st st' hst unl unl' hu errs errs' he; exact ⟨hu, he, hst⟩
  | @cons w w' rest rest' hw _ ih =>
    intro st st' hst unl unl' hu errs errs' he
    rcases w with ⟨k, c, a, s⟩
    rcases w' with ⟨k', c', a', s'⟩
    obtain ⟨h1, h2, h3, h4⟩ := hw
    dsimp only at h1 h2 h3 h4
    subst h1 h2 h3
    cases k' with
    | true => exact ih (.cons (show StRel (c, a', s') (c', a', s') from ⟨rfl, rfl, h4⟩) hst) hu he
    | false =>
      cases hst with
      | nil => exact ih .nil hu (he.append (.cons ⟨rfl, rfl⟩ .nil))
      | @cons x x' st1 st1' hx hst1 =>
        rcases x with ⟨wc, wa, ws1⟩
        rcases x' with ⟨wc', wa', ws1'⟩
        obtain ⟨g1, g2, g3⟩ := hx
        dsimp only at g1 g2 g3
        subst g1 g2
        refine ih hst1 (unlInsert_rel ?_ (unlInsert_rel ?_ hu)) he
        · exact (symMap_neg φ g3).symm
        · exact (symMap_neg φ h4).symm

theorem linkWhiles_go_mem (l : Link) : ∀ (ws : List (Bool × Col × Nat × Symbol)), (∀ w ∈ ws, w.2.2.2 < 0) →
    ∀ (st : List (Col × Nat × Symbol)), (∀ x ∈ st, x.2.2 < 0) → ∀ (unl : List (Nat × (Col × Symbol))) (errs : List Error),
    ∀ p ∈ (linkWhiles.go l ws st unl errs).1, p ∈ unl ∨ p.2.2 < 0 := by
  intro ws
  induction ws with
  | nil => intro _ st _ unl errs p hp; exact .inl hp
  | cons w rest ih =>
    intro hws st hst unl errs p hp
    have hrest : ∀ w ∈ rest, w.2.2.2 < 0 := fun x hx => hws x (List.mem_cons_of_mem _ hx)
    have hw := hws w List.mem_cons_self
    rcases w with ⟨k, c, a, s⟩
    cases k with
    | true =>
      refine ih hrest ((c, a, s) :: st) ?_ unl errs p hp
      intro x hx
      rcases List.mem_cons.1 hx with rfl | hx
      · exact hw
      · exact hst x hx
    | false =>
      cases st with
      | nil => exact ih hrest [] (fun _ h => nomatch h) unl _ p hp
      | cons x st1 =>
        rcases x with ⟨wc, wa, ws1⟩
        have hx := hst (wc, wa, ws1) List.mem_cons_self
        rcases ih hrest st1 (fun y hy => hst y (List.mem_cons_of_mem _ hy)) _ errs p hp with h1 | h1
        · rcases mem_unlInsert h1 with rfl | h2
          · exact .inr hx
          · rcases mem_unlInsert h2.1 with rfl | h3
            · exact .inr hw
            · exact .inl h3.1
        · exact .inr h1

theorem All₂.forall_left {α β : Type} {R : α → β → Prop} {P : α → Prop} (hr : ∀ a b, R a b → P a) {xs : List α} {ys : List β}
    (h : All₂ R xs ys) : ∀ x ∈ xs, P x := by
  induction h with
  | nil => intro _ hx; cases hx
  | cons hab _ ih =>
    intro x hx
    rcases List.mem_cons.1 hx with rfl | hx
    · exact hr _ _ hab
    · exact ih x hx

theorem linkWhiles_rel {l l' : Link} (h : LinkCore φ l l') :
    LinkCore φ l.linkWhiles.1 l'.linkWhiles.1 ∧ All₂ ErrRel l.linkWhiles.2 l'.linkWhiles.2 ∧
    l.linkWhiles.1.symbols = l.symbols ∧ l'.linkWhiles.1.symbols = l'.symbols ∧
    (∀ p ∈ l.linkWhiles.1.unlinked, p ∈ l.unlinked ∨ p.2.2 < 0) := by
  have hg := linkWhiles_go_rel (φ := φ) l l' h.whiles (st := []) (st' := []) .nil h.unlinked (errs := []) (errs' := []) .nil
  have hmem : ∀ p ∈ (linkWhiles.go l l.whiles [] l.unlinked []).1, p ∈ l.unlinked ∨ p.2.2 < 0 :=
    linkWhiles_go_mem l l.whiles (All₂.forall_left (fun _ _ h => h.2.2.2) h.whiles) [] (fun _ h => nomatch h) _ _
  unfold linkWhiles
  generalize linkWhiles.go l l.whiles [] l.unlinked [] = r at hg hmem
  generalize linkWhiles.go l' l'.whiles [] l'.unlinked [] = r' at hg
  rcases r with ⟨unl, errs, stack⟩
  rcases r' with ⟨unl', errs', stack'⟩
  dsimp only at hg ⊢
  refine ⟨⟨h.cur, h.curNeg, h.ops, h.data, h.dataPos, h.directSet, hg.1, .nil⟩, ?_, rfl, rfl, hmem⟩
  refine hg.2.1.append ?_
  have hs := hg.2.2
  clear hg hmem
  induction hs with
  | nil => exact .nil
  | cons hab _ ih => exact .cons ⟨rfl, rfl⟩ ih

theorem setIfInBounds_rel {l l' : Link} (h : LinkCore φ l l') {a : Nat} {o : Opcode} (hx : l.ops[a]? = some o)
    (hp : IsPatch o) (op : Opcode) :
    LinkCore φ { l with ops := l.ops.setIfInBounds a op } { l' with ops := l'.ops.setIfInBounds a op } := by
  refine ⟨h.cur, h.curNeg, ?_, h.data, h.dataPos, h.directSet, h.unlinked, h.whiles⟩
  show OpsRel φ (l.ops.setIfInBounds a op).toList (l'.ops.setIfInBounds a op).toList
  rw [Array.toList_setIfInBounds, Array.toList_setIfInBounds]
  exact h.ops.set (by rw [Array.getElem?_toList]; exact hx) hp op

/-- one pending reference, resolved on both sides: the same patch, or errors of the same kind -/
theorem linkOneWith_rel {l l' : Link} (h : LinkCore φ l l') (ln ln' : Option Nat) (a : Nat) (c c' : Col)
    {sym sym' : Symbol} (hlook : l'.symbols.lookup sym' = l.symbols.lookup sym) (hsign : sym' ≥ 0 ↔ sym ≥ 0) :
    LinkCore φ (linkOneWith l ln a c sym).1 (linkOneWith l' ln' a c' sym').1 ∧
    (linkOneWith l ln a c sym).1.symbols = l.symbols ∧ (linkOneWith l' ln' a c' sym').1.symbols = l'.symbols ∧
    (match (linkOneWith l ln a c sym).2, (linkOneWith l' ln' a c' sym').2 with
      | none, none => True
      | some e, some e' => ErrRel e e'
      | _, _ => False) := by
  unfold linkOneWith
  dsimp only
  rw [hlook]
  cases l.symbols.lookup sym with
  | none =>
    dsimp only
    by_cases hs : sym ≥ 0
    · rw [if_pos hs, if_pos (hsign.2 hs)]; exact ⟨h, rfl, rfl, ⟨rfl, rfl⟩⟩
    · rw [if_neg hs, if_neg (fun h' => hs (hsign.1 h'))]; exact ⟨h, rfl, rfl, ⟨rfl, rfl⟩⟩
  | some v =>
    rcases v with ⟨od, dd⟩
    dsimp only
    have hl : l'.ops.toList[a]? = l.ops.toList[a]? ∨ _ := h.ops.getElem? a
    rw [Array.getElem?_toList, Array.getElem?_toList] at hl
    rcases hl with hl | ⟨n, n', h1, h2⟩
    · rw [hl]
      split
      · rename_i x hx; exact ⟨setIfInBounds_rel h hx trivial _, rfl, rfl, trivial⟩
      · rename_i x hx; exact ⟨setIfInBounds_rel h hx trivial _, rfl, rfl, trivial⟩
      · rename_i x hx; exact ⟨setIfInBounds_rel h hx trivial _, rfl, rfl, trivial⟩
      · rename_i x hx; exact ⟨setIfInBounds_rel h hx trivial _, rfl, rfl, trivial⟩
      · rename_i x hx; exact ⟨setIfInBounds_rel h hx trivial _, rfl, rfl, trivial⟩
      · exact ⟨h, rfl, rfl, ⟨rfl, rfl⟩⟩
    · rw [h1, h2]
      exact ⟨h, rfl, rfl, ⟨rfl, rfl⟩⟩

variable (φ) in
/-- a reference resolves alike in the old table and in the renumbered one -/
def RefOK (m : List (Symbol × (Nat × Nat))) (s : Symbol) : Prop :=
  (mapSyms φ m).lookup (symMap φ s) = m.lookup s

theorem refOK_of_keyOK (hm : LineMap φ K) {m : List (Symbol × (Nat × Nat))} (hk : ∀ p ∈ m, KeyOK K p.1) {s : Symbol}
    (hs : KeyOK K s) : RefOK φ m s := lookup_mapSyms hm hs hk

theorem symMap_ge_iff (s : Symbol) : symMap φ s ≥ 0 ↔ s ≥ 0 := by
  have := symMap_neg_iff φ s
  simp only [Symbol] at *
  omega

theorem foldl_linkStep_rel {ps ps' : List (Nat × (Col × Symbol))} (hps : All₂ (UnlRel φ) ps ps') :
    ∀ {acc acc' : Link × List Error}, LinkCore φ acc.1 acc'.1 → acc'.1.symbols = mapSyms φ acc.1.symbols →
    (∀ p ∈ ps, RefOK φ acc.1.symbols p.2.2) → All₂ ErrRel acc.2 acc'.2 →
    LinkCore φ (ps.foldl linkStep acc).1 (ps'.foldl linkStep acc').1 ∧
    (ps.foldl linkStep acc).1.symbols = acc.1.symbols ∧ (ps'.foldl linkStep acc').1.symbols = acc'.1.symbols ∧
    All₂ ErrRel (ps.foldl linkStep acc).2 (ps'.foldl linkStep acc').2 := by
  induction hps with
  | nil => intro acc acc' h hs _ he; exact ⟨h, rfl, rfl, he⟩
  | @cons p p' rest rest' hp _ ih =>
    intro acc acc' h hs hr he
    rw [List.foldl_cons, List.foldl_cons]
    have hlook : acc'.1.symbols.lookup p'.2.2 = acc.1.symbols.lookup p.2.2 := by
      rw [hs, hp.2]; exact hr p List.mem_cons_self
    have hsign : p'.2.2 ≥ 0 ↔ p.2.2 ≥ 0 := by rw [hp.2]; exact symMap_ge_iff _
    have h1 := linkOneWith_rel h (acc.1.lineNumberFor p.1) (acc'.1.lineNumberFor p.1) p.1 p.2.1 p'.2.1 hlook hsign
    have e : linkStep acc p = (match linkOneWith acc.1 (acc.1.lineNumberFor p.1) p.1 p.2.1 p.2.2 with
        | (l, some e) => (l, acc.2 ++ [e]) | (l, none) => (l, acc.2)) := rfl
    have e' : linkStep acc' p' = (match linkOneWith acc'.1 (acc'.1.lineNumberFor p'.1) p'.1 p'.2.1 p'.2.2 with
        | (l, some e) => (l, acc'.2 ++ [e]) | (l, none) => (l, acc'.2)) := rfl
    rw [hp.1] at e'
    rw [e, e']
    generalize linkOneWith acc.1 (acc.1.lineNumberFor p.1) p.1 p.2.1 p.2.2 = r at h1 ⊢
    generalize linkOneWith acc'.1 (acc'.1.lineNumberFor p.1) p.1 p'.2.1 p'.2.2 = r' at h1 ⊢
    rcases r with ⟨l1, o⟩
    rcases r' with ⟨l1', o'⟩
    dsimp only at h1
    obtain ⟨g1, g2, g3, g4⟩ := h1
    have hrest : ∀ q ∈ rest, RefOK φ l1.symbols q.2.2 := by
      rw [g2]; exact fun q hq => hr q (List.mem_cons_of_mem _ hq)
    cases o with
    | none =>
      cases o' with
      | none =>
        obtain ⟨i1, i2, i3, i4⟩ := ih (acc := (l1, acc.2)) (acc' := (l1', acc'.2)) g1 (by rw [g3, g2]; exact hs) hrest he
        exact ⟨i1, i2.trans g2, i3.trans g3, i4⟩
      | some e2 => exact g4.elim
    | some e1 =>
      cases o' with
      | none => exact g4.elim
      | some e2 =>
        obtain ⟨i1, i2, i3, i4⟩ := ih (acc := (l1, acc.2 ++ [e1])) (acc' := (l1', acc'.2 ++ [e2])) g1
          (by rw [g3, g2]; exact hs) hrest (he.append (.cons g4 .nil))
        exact ⟨i1, i2.trans g2, i3.trans g3, i4⟩

theorem filter_mapSyms (m : List (Symbol × (Nat × Nat))) :
    (mapSyms φ m).filter (fun p => p.1 ≥ 0) = mapSyms φ (m.filter (fun p => p.1 ≥ 0)) := by
  unfold mapSyms
  rw [List.filter_map]
  congr 1
  apply List.filter_congr
  intro p _
  show decide (symMap φ p.1 ≥ 0) = decide (p.1 ≥ 0)
  rw [decide_eq_decide]
  exact symMap_ge_iff _

/-- the linker on related programs, when every pending reference resolves alike -/
theorem link_rel {l l' : Link} (h : ProgLinkRel φ K l l')
    (hr : ∀ p ∈ l.linkWhiles.1.unlinked, p.2.2 < 0 ∨ RefOK φ l.symbols p.2.2) (hm : LineMap φ K) :
    ProgLinkRel φ K l.link.1 l'.link.1 ∧ All₂ ErrRel l.link.2 l'.link.2 := by
  obtain ⟨w1, w2, w3, w4, w5⟩ := linkWhiles_rel h.toLinkCore
  rw [link_eq_from, link_eq_from]
  unfold linkFrom
  dsimp only
  have hrefs : ∀ p ∈ l.linkWhiles.1.unlinked, RefOK φ l.linkWhiles.1.symbols p.2.2 := by
    intro p hp
    rw [w3]
    rcases hr p hp with h2 | h2
    · exact refOK_of_keyOK hm h.keys (.inl h2)
    · exact h2
  have hf := foldl_linkStep_rel w1.unlinked
    (acc := ({ l.linkWhiles.1 with unlinked := [] }, l.linkWhiles.2))
    (acc' := ({ l'.linkWhiles.1 with unlinked := [] }, l'.linkWhiles.2))
    ⟨w1.cur, w1.curNeg, w1.ops, w1.data, w1.dataPos, w1.directSet, .nil, w1.whiles⟩
    (by show l'.linkWhiles.1.symbols = mapSyms φ l.linkWhiles.1.symbols; rw [w3, w4]; exact h.symbols) hrefs w2
  obtain ⟨f1, f2, f3, f4⟩ := hf
  refine ⟨⟨⟨rfl, Int.le_refl 0, f1.ops, f1.data, f1.dataPos, f1.directSet, f1.unlinked, f1.whiles⟩, ?_, ?_⟩, f4⟩
  · show List.filter _ _ = mapSyms φ (List.filter _ _)
    rw [f3, f2]
    show List.filter _ l'.linkWhiles.1.symbols = mapSyms φ (List.filter _ l.linkWhiles.1.symbols)
    rw [w3, w4, h.symbols, filter_mapSyms]
  · intro p hp
    have hp' : p ∈ List.filter (fun p => decide (p.1 ≥ 0)) (List.foldl linkStep
        ({ l.linkWhiles.1 with unlinked := [] }, l.linkWhiles.2) l.linkWhiles.1.unlinked).1.symbols := hp
    rw [f2] at hp'
    have : p ∈ l.linkWhiles.1.symbols := (List.mem_filter.1 hp').1
    rw [w3] at this
    exact h.keys p this

theorem all₂_isEmpty {es es' : List Error} (h : All₂ ErrRel es es') : es'.isEmpty = es.isEmpty := by
  cases h <;> rfl

theorem resolve_rel (hm : LineMap φ K) {p p' : Program} (hp : ProgRel φ K p p')
    (hr : ∀ q ∈ p.link.linkWhiles.1.unlinked, q.2.2 < 0 ∨ RefOK φ p.link.symbols q.2.2) :
    ProgRel φ K (resolve p) (resolve p') := by
  have hl := link_rel hp.link hr hm
  rw [resolve_eq, resolve_eq, all₂_isEmpty hp.errors]
  split
  · exact ⟨hl.1, hl.2, hp.indirectErrors, hp.directAddress⟩
  · exact ⟨hl.1, hp.errors, hp.indirectErrors, hp.directAddress⟩

theorem setStartOfDirect_rel (hm : LineMap φ K) {l l' : Link} (h : ProgLinkRel φ K l l') (a : Nat) :
    ProgLinkRel φ K (l.setStartOfDirect a) (l'.setStartOfDirect a) := by
  have hcast : (Gen.maxLineNumber : Int) + 1 = ((Gen.maxLineNumber + 1 : Nat) : Int) := by omega
  have hk : KeyOK K ((Gen.maxLineNumber : Int) + 1) := .inr ⟨_, hcast, hm.top⟩
  have hfix : symMap φ ((Gen.maxLineNumber : Int) + 1) = (Gen.maxLineNumber : Int) + 1 := by
    rw [hcast, symMap_nat, hm.topFix]
  refine ⟨⟨h.cur, h.curNeg, h.ops, h.data, h.dataPos, rfl, h.unlinked, h.whiles⟩, ?_, ?_⟩
  · show symInsert ((Gen.maxLineNumber : Int) + 1) (a, l'.data.size) l'.symbols =
      mapSyms φ (symInsert ((Gen.maxLineNumber : Int) + 1) (a, l.data.size) l.symbols)
    rw [h.data, h.symbols, ← symInsert_map hm hk _ h.keys, hfix]
  · exact mem_symInsert_keyOK hk h.keys

theorem markDirect_rel (hm : LineMap φ K) {p p' : Program} (hp : ProgRel φ K p p') :
    ProgRel φ K (markDirect p) (markDirect p') := by
  unfold markDirect
  rw [hp.directAddress, hp.link.size]
  split
  · exact ⟨setStartOfDirect_rel hm hp.link _, .nil, hp.errors, rfl⟩
  · exact hp

theorem linkProg_rel (hm : LineMap φ K) {p p' : Program} (hp : ProgRel φ K p p')
    (hr : ∀ q ∈ p.link.linkWhiles.1.unlinked, q.2.2 < 0 ∨ RefOK φ p.link.symbols q.2.2) :
    ProgRel φ K p.linkProg p'.linkProg := by
  rw [linkProg_eq, linkProg_eq]
  refine markDirect_rel hm (resolve_rel hm (ensureEnd_rel hp) ?_)
  obtain ⟨e1, e2, e3, _⟩ := ensureEnd_symbols p
  intro q hq
  rw [e1]
  refine hr q ?_
  rw [linkWhiles_matches] at hq ⊢
  dsimp only at hq ⊢
  rw [e2, e3] at hq
  exact hq

/-- **the compiled programs correspond** -/
theorem compile_rel (hm : LineMap φ K) {ls ls' : List Line} (hl : All₂ (LineRel φ K) ls ls')
    (hr : ∀ q ∈ (({} : Program).codegenLines ls).link.linkWhiles.1.unlinked,
      q.2.2 < 0 ∨ RefOK φ (({} : Program).codegenLines ls).link.symbols q.2.2) :
    ProgRel φ K (compile ls) (compile ls') :=
  linkProg_rel hm (codegenLines_rel hm hl ProgRel.empty) hr

/-- the line an address belongs to (error reports, TRON) is the renumbered one -/
theorem lineNumberFor_rel (hm : LineMap φ K) {l l' : Link} (h : ProgLinkRel φ K l l') (a : Nat) :
    l'.lineNumberFor a = (l.lineNumberFor a).map φ := by
  unfold lineNumberFor
  dsimp only
  rw [h.symbols, filter_mapSyms]
  unfold mapSyms
  rw [← List.map_reverse, List.find?_map]
  have hmem : ∀ p ∈ (l.symbols.filter (fun p => p.1 ≥ 0)).reverse, 0 ≤ p.1 ∧ KeyOK K p.1 := by
    intro p hp
    rw [List.mem_reverse, List.mem_filter] at hp
    exact ⟨by simpa using hp.2, h.keys p hp.1⟩
  have e : ((fun p : Symbol × (Nat × Nat) => decide (a ≥ p.2.1)) ∘ fun p : Symbol × (Nat × Nat) => (symMap φ p.1, p.2)) =
      (fun p : Symbol × (Nat × Nat) => decide (a ≥ p.2.1)) := rfl
  rw [e]
  cases hf : (l.symbols.filter (fun p => p.1 ≥ 0)).reverse.find? (fun p => decide (a ≥ p.2.1)) with
  | none => rfl
  | some p =>
    rcases p with ⟨k, v⟩
    obtain ⟨h0, hk⟩ := hmem (k, v) (List.mem_of_find?_eq_some hf)
    rcases hk with hk | ⟨n, rfl, hn⟩
    · simp only [Symbol] at *; omega
    · simp only [Option.map_some, symMap_nat]
      have hb := hm.bound n hn
      by_cases hle : n ≤ Gen.maxLineNumber
      · rw [if_pos (by simp only [Symbol]; omega), if_pos (by have := hb.2 hle; simp only [Symbol]; omega)]
        simp
      · rw [if_neg (by simp only [Symbol]; omega), if_neg (by have := fun h => hle (hb.1 h); simp only [Symbol]; omega)]
        rfl

/-- code without LIST / DELETE is identical -/
theorem OpsRel.eq_of_plain {xs ys : List Opcode} (h : OpsRel φ xs ys) (hp : ∀ o ∈ xs, o ≠ .list ∧ o ≠ .delete) :
    ys = xs := by
  induction h with
  | nil => rfl
  | cons op _ ih => rw [ih fun o ho => hp o (List.mem_cons_of_mem _ ho)]
  | range a a' b b' op ha hb ho _ _ =>
    have := hp op (List.mem_cons_of_mem _ (List.mem_cons_of_mem _ List.mem_cons_self))
    rcases ho with rfl | rfl
    · exact absurd rfl this.1
    · exact absurd rfl this.2

/-- the line numbers of a listing, and the mark of the direct segment -/
def LineSet (ls : List Line) (n : Nat) : Prop := (∃ l ∈ ls, l.number = some n) ∨ n = Gen.maxLineNumber + 1

/-- a listing that compiles without errors has no dangling reference: the side condition of
    `compile_rel` holds -/
theorem refs_of_clean {ls : List Line} (hm : LineMap φ (LineSet ls)) (hnum : Numbered ls) (h : (compile ls).indirectErrors = []) :
    ∀ q ∈ (({} : Program).codegenLines ls).link.linkWhiles.1.unlinked,
      q.2.2 < 0 ∨ RefOK φ (({} : Program).codegenLines ls).link.symbols q.2.2 := by
  intro q hq
  by_cases h0 : q.2.2 < 0
  · exact .inl h0
  · refine .inr (refOK_of_keyOK hm ?_ ?_)
    · intro p hp
      by_cases hp0 : p.1 < 0
      · exact .inl hp0
      · have h0' : 0 ≤ p.1 := by simp only [Symbol] at *; omega
        obtain ⟨l, hl, hln⟩ := codegenLines_key ls hnum p hp h0'
        exact .inr ⟨p.1.toNat, (Int.toNat_of_nonneg h0').symm, .inl ⟨l, hl, hln⟩⟩
    · have h0' : 0 ≤ q.2.2 := by simp only [Symbol] at *; omega
      refine .inr ⟨q.2.2.toNat, (Int.toNat_of_nonneg h0').symm, ?_⟩
      apply Classical.byContradiction
      intro hno
      have hn : ∀ l ∈ ls, l.number ≠ some q.2.2.toNat := fun l hl e => hno (.inl ⟨l, hl, e⟩)
      exact noRef_of_clean ls hnum q.2.2.toNat hn h q hq (Int.toNat_of_nonneg h0').symm

/-! ### the direct line: the program the machine runs (`runProg`) -/

variable (φ) in
/-- a direct line and its counterpart: both parse, to related statements (`RUN` ~ `RUN`,
    `GOTO 100` ~ `GOTO 1000`, …) -/
def DirectRel (d d' : Line) : Prop :=
  d.number = none ∧ d'.number = none ∧ ∃ ast ast', Parse.parse none d.tokens = .ok ast ∧
    Parse.parse none d'.tokens = .ok ast' ∧ StmtsRel φ ast ast'

theorem linkProg_directAddress_fresh (p : Program) (h0 : p.directAddress = 0) :
    p.linkProg.directAddress = p.linkProg.link.ops.size := by
  have hd : (resolve (ensureEnd p)).directAddress = 0 := by
    have h1 : (resolve (ensureEnd p)).directAddress = (ensureEnd p).directAddress := by
      rw [resolve_eq]; split <;> rfl
    have h2 : (ensureEnd p).directAddress = p.directAddress := by
      rw [ensureEnd_eq]
      split
      · rfl
      · unfold pushEndP; dsimp only; split <;> rfl
    rw [h1, h2, h0]
  rw [linkProg_eq, markDirect_eq, if_pos hd]
  rfl

/-- what `codegenLine` makes of a linked program `q` and the statements of a direct line -/
def directGen (q : Program) (ast : List Stmt) : Program :=
  let cg := Codegen.codegen { q.link with ops := q.link.ops.extract 0 q.directAddress } ast
  let errs : List Error := [] ++ cg.2.map (·.inLine none)
  match cg.1.push .end with
  | (l, .ok ()) => { q with lineNumber := none, link := l, errors := errs }
  | (l, .error e) => { q with lineNumber := none, link := l, errors := errs ++ [e] }

/-- `codegenLine` for a direct line that parses -/
theorem codegenLine_direct (p : Program) (d : Line) (hn : d.number = none) (ast : List Stmt)
    (hp : Parse.parse none d.tokens = .ok ast) : p.codegenLine d = directGen p.linkProg ast := by
  unfold codegenLine directGen
  simp only [hn, Option.isNone_none, if_true]
  rw [hp]
  dsimp only
  generalize (Codegen.codegen { p.linkProg.link with ops := p.linkProg.link.ops.extract 0 p.linkProg.directAddress } ast) = cg
  rcases cg with ⟨cl, ce⟩
  dsimp only
  generalize cl.push Opcode.end = r
  rcases r with ⟨l, x⟩
  cases x <;> rfl

theorem extract_all {γ : Type} (a : Array γ) : a.extract 0 a.size = a := by
  apply Array.toList_inj.1
  rw [Array.toList_extract, List.extract_eq_take_drop, List.drop_zero, Nat.sub_zero, ← Array.length_toList,
    List.take_length]

/-- compiling a direct line onto related freshly compiled programs -/
theorem codegenLine_direct_rel (hm : LineMap φ K) {d d' : Line} (hd : DirectRel φ d d') {p p' : Program}
    (hp : ProgRel φ K p p') (h0 : p.directAddress = 0)
    (hr : ∀ q ∈ p.link.linkWhiles.1.unlinked, q.2.2 < 0 ∨ RefOK φ p.link.symbols q.2.2) :
    ProgRel φ K (p.codegenLine d) (p'.codegenLine d') := by
  obtain ⟨hn, hn', ast, ast', h1, h2, hs⟩ := hd
  have hl := linkProg_rel hm hp hr
  have h0' : p'.directAddress = 0 := by rw [hp.directAddress, h0]
  rw [codegenLine_direct p d hn ast h1, codegenLine_direct p' d' hn' ast' h2]
  unfold directGen
  rw [linkProg_directAddress_fresh p h0, linkProg_directAddress_fresh p' h0', extract_all, extract_all]
  have hl0 : ProgLinkRel φ K { p.linkProg.link with ops := p.linkProg.link.ops }
      { p'.linkProg.link with ops := p'.linkProg.link.ops } := hl.link
  have hc := codegen_rel hm hs hl0
  generalize Codegen.codegen { p.linkProg.link with ops := p.linkProg.link.ops } ast = cg at hc ⊢
  generalize Codegen.codegen { p'.linkProg.link with ops := p'.linkProg.link.ops } ast' = cg' at hc ⊢
  rcases cg with ⟨cl, ce⟩
  rcases cg' with ⟨cl', ce'⟩
  dsimp only at hc ⊢
  have hpush := hc.1.push .end
  generalize cl.push Opcode.end = r at hpush ⊢
  generalize cl'.push Opcode.end = r' at hpush ⊢
  rcases r with ⟨l, x⟩
  rcases r' with ⟨l', x'⟩
  dsimp only at hpush ⊢
  obtain ⟨g1, rfl⟩ := hpush
  have he : All₂ ErrRel ([] ++ ce.map (·.inLine none)) ([] ++ ce'.map (·.inLine none)) := by
    rw [List.nil_append, List.nil_append]; exact all₂_map_inLine hc.2 _ _
  cases x' with
  | ok u => exact ⟨g1, he, hl.indirectErrors, hl.link.size⟩
  | error e => exact ⟨g1, he.append (.cons (ErrRel.refl e) .nil), hl.indirectErrors, hl.link.size⟩

/-- **the programs the machine holds after a direct line has been entered** over the old and the
    renumbered listing (`runProg`: compile the listing, the direct line, link) correspond -/
theorem runProg_rel (hm : LineMap φ K) {ls ls' : List Line} (hl : All₂ (LineRel φ K) ls ls') {d d' : Line}
    (hd : DirectRel φ d d')
    (hr : ∀ q ∈ (({} : Program).codegenLines ls).link.linkWhiles.1.unlinked,
      q.2.2 < 0 ∨ RefOK φ (({} : Program).codegenLines ls).link.symbols q.2.2)
    (hr2 : ∀ q ∈ ((({} : Program).codegenLines ls).codegenLine d).link.linkWhiles.1.unlinked,
      q.2.2 < 0 ∨ RefOK φ ((({} : Program).codegenLines ls).codegenLine d).link.symbols q.2.2)
    (hnum : Numbered ls) :
    ProgRel φ K (runProg ls d) (runProg ls' d') := by
  unfold runProg
  exact linkProg_rel hm
    (codegenLine_direct_rel hm hd (codegenLines_rel hm hl ProgRel.empty) (fresh_directAddress ls hnum) hr) hr2

end RenumRel
end Basic
