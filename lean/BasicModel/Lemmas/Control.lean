import BasicModel.Lemmas.Runtime
/-
  Exact effect of the control-flow helpers of the VM on a stack of known shape
  (`doOn`, `doReturn`, `doNext`, `doFn`, `doDef`, the `ifNot` step).  Stacks are arrays, top last.
-/
namespace Basic
namespace Runtime

theorem run_ite {α} (c : Prop) [Decidable c] (m1 m2 : RM α) (s : Runtime) :
    ((if c then m1 else m2).run).run s = if c then (m1.run).run s else (m2.run).run s := by
  split <;> rfl

/-! ### ON -/

theorem run_doOn (s : Runtime) (σ : Array Val) (lenV selV : Val) (len sel : Int16)
    (hst : s.stack = (σ.push lenV).push selV) (hsel : selV.toI16 = .ok sel) (hlen : lenV.toI16 = .ok len) :
    (doOn.run).run s =
      if sel.toInt < 0 ∨ len.toInt < 0 then (.error (Error.mk' Code.illegalFunctionCall), { s with stack := σ })
      else if sel.toInt = 0 ∨ sel.toInt > len.toInt then (.ok (), { s with stack := σ, pc := s.pc + len.toInt.toNat })
      else (.ok (), { s with stack := σ, pc := s.pc + (sel.toInt.toNat - 1) }) := by
  unfold doOn
  simp only [run_bind, run_pop, hst, Array.back?_push, Array.pop_push, run_liftE, hsel, hlen, run_ite, run_throw,
    run_modify, Bool.or_eq_true, decide_eq_true_eq]

/-! ### RETURN -/

/-- values a function body / expression leaves on the stack -/
def isValue : Val → Bool
  | .str _ | .sng _ | .dbl _ | .int _ => true
  | _ => false

def isRet : Val → Bool
  | .ret _ => true
  | _ => false

/-- what `doReturn.loop` does once the search is over: drop the return address, re-push the kept value -/
def finishReturn (s : Runtime) (σ : Array Val) (a : Nat) (rv : Option Val) : Except Error Unit × Runtime :=
  match rv with
  | none => (.ok (), { s with stack := σ, pc := a })
  | some v =>
    if σ.size + 1 > Gen.stackMaxLen then (.error stackOverflow, { s with stack := σ.push v })
    else (.ok (), { s with stack := σ.push v, pc := a })

/-- the value RETURN keeps: the top of the stack if it is a number or string (`rj` = what lies above the
    return address, top first) -/
def keptOf (first : Bool) (rv : Option Val) : List Val → Option Val
  | [] => rv
  | t :: _ => if first && isValue t then some t else rv

def keptTop (rj : List Val) : Option Val := keptOf true none rj

/-- the unwinding loop: everything above the innermost return address is discarded, except that a
    value on the very top (the result of a function body) is kept -/
theorem run_doReturn_loop (σ : Array Val) (a : Nat) (rj : List Val) (hrj : ∀ v ∈ rj, isRet v = false) :
    ∀ (s : Runtime) (fuel : Nat) (rv : Option Val) (first : Bool),
      s.stack = σ.push (.ret a) ++ rj.reverse.toArray → rj.length < fuel →
      ((doReturn.loop fuel rv first).run).run s =
        finishReturn s σ a (keptOf first rv rj) := by
  induction rj with
  | nil =>
    intro s fuel rv first hst hf
    cases fuel with
    | zero => cases hf
    | succ n =>
      unfold doReturn.loop
      simp only [List.reverse_nil, Array.append_empty] at hst
      simp only [run_bind, run_get, hst, Array.back?_push, run_pop, Array.pop_push]
      cases rv with
      | none => simp only [run_modify, finishReturn, keptOf]
      | some v =>
        by_cases hc : σ.size + 1 > Gen.stackMaxLen
        · simp only [run_bind, run_push, finishReturn, keptOf, hc, if_true]
        · simp only [run_bind, run_push, run_modify, finishReturn, keptOf, hc, if_false]
  | cons t rest ih =>
    intro s fuel rv first hst hf
    cases fuel with
    | zero => cases hf
    | succ n =>
      have ht : isRet t = false := hrj t List.mem_cons_self
      have hst' : s.stack = (σ.push (.ret a) ++ rest.reverse.toArray).push t := by
        rw [hst, List.reverse_cons]; apply Array.ext'; simp
      unfold doReturn.loop
      simp only [run_bind, run_get, hst', Array.back?_push]
      have hstep : ∀ (keep : Bool) (hk : keep = isValue t),
          ((doReturn.loop n (if (first && keep) = true then some t else rv) false).run).run
              { s with stack := (σ.push (.ret a) ++ rest.reverse.toArray) } =
            finishReturn s σ a (keptOf first rv (t :: rest)) := by
        intro keep hk
        subst hk
        rw [ih (fun v hv => hrj v (List.mem_cons_of_mem _ hv)) _ n _ false rfl (by simpa using hf)]
        cases rest with
        | nil => rfl
        | cons t' rest' => simp only [keptOf, Bool.false_and, Bool.false_eq_true, if_false]; rfl
      cases t with
      | ret x => simp [isRet] at ht
      | str x => simp only [run_bind, run_pop, hst', Array.back?_push, Array.pop_push]; exact hstep true rfl
      | sng x => simp only [run_bind, run_pop, hst', Array.back?_push, Array.pop_push]; exact hstep true rfl
      | dbl x => simp only [run_bind, run_pop, hst', Array.back?_push, Array.pop_push]; exact hstep true rfl
      | int x => simp only [run_bind, run_pop, hst', Array.back?_push, Array.pop_push]; exact hstep true rfl
      | nxt x => simp only [run_bind, run_pop, hst', Array.back?_push, Array.pop_push]; exact hstep false rfl

theorem run_doReturn (s : Runtime) (σ : Array Val) (a : Nat) (rj : List Val) (hrj : ∀ v ∈ rj, isRet v = false)
    (hst : s.stack = σ.push (.ret a) ++ rj.reverse.toArray) :
    (doReturn.run).run s =
      finishReturn s σ a (keptTop rj) := by
  unfold doReturn
  simp only [run_bind, run_get]
  rw [run_doReturn_loop σ a rj hrj s _ none true hst (by rw [hst]; simp; omega)]
  rfl

/-! ### NEXT -/

/-- the frame `FOR` leaves on the stack (bottom first): limit, step, variable name, address of the loop body -/
def forFrame (toV stepV : Val) (vn : Str) (addr : Nat) : Array Val := #[toV, stepV, .str vn, .nxt addr]

theorem run_doNext (s : Runtime) (σ : Array Val) (toV stepV : Val) (vn name : Str) (addr : Nat)
    (cur0 cur : Val) (vars' : Var) (st : Float) (done : Val)
    (hst : s.stack = σ ++ forFrame toV stepV vn addr)
    (hname : name = [] ∨ vn = name)
    (hfetch : s.vars.fetch vn = .ok cur0) (hsum : Ops.sum cur0 stepV = .ok cur)
    (hstore : s.vars.store vn cur = .ok vars') (hstep : stepV.toF64 = .ok st)
    (hdone : (if st < 0 then Ops.less cur toV else Ops.less toV cur) = .ok done)
    (hb : s.stack.size ≤ Gen.stackMaxLen) :
    ((doNext name).run).run s =
      if done ≠ .int (-1) then (.ok (), { s with vars := vars', pc := addr })
      else (.ok (), { s with vars := vars', stack := σ }) := by
  have hst' : s.stack = (((σ.push toV).push stepV).push (.str vn)).push (.nxt addr) := by
    rw [hst]; apply Array.ext'; simp [forFrame]
  have hsz : σ.size + 4 ≤ Gen.stackMaxLen := by
    rw [hst'] at hb; simpa using hb
  have hcond : (!name.isEmpty && decide (vn ≠ name)) = false := by
    rcases hname with h | h
    · subst h; rfl
    · subst h; simp
  unfold doNext
  simp only [run_bind, run_get]
  unfold doNext.loop
  simp only [run_bind, run_get, run_pop, hst', Array.back?_push, Array.pop_push, run_pure, hcond,
    Bool.false_eq_true, if_false, run_liftE, hfetch, hsum, hstore, run_modify, hstep]
  by_cases h0 : st < 0
  · simp only [h0, if_true] at hdone
    simp only [h0, if_true, hdone]
    by_cases hd : done = .int (-1)
    · simp only [hd, ne_eq, not_true_eq_false, if_false]; rfl
    · have h1 : ¬ (σ.size + 1 > Gen.stackMaxLen) := by omega
      have h2 : ¬ (σ.size + 1 + 1 > Gen.stackMaxLen) := by omega
      have h3 : ¬ (σ.size + 1 + 1 + 1 > Gen.stackMaxLen) := by omega
      have h4 : ¬ (σ.size + 1 + 1 + 1 + 1 > Gen.stackMaxLen) := by omega
      simp only [ne_eq, hd, not_false_eq_true, if_true, run_bind, run_push, Array.size_push, h1, h2, h3, h4, if_false,
        run_modify]
  · simp only [h0, if_false] at hdone
    simp only [h0, if_false, hdone]
    by_cases hd : done = .int (-1)
    · simp only [hd, ne_eq, not_true_eq_false, if_false]; rfl
    · have h1 : ¬ (σ.size + 1 > Gen.stackMaxLen) := by omega
      have h2 : ¬ (σ.size + 1 + 1 > Gen.stackMaxLen) := by omega
      have h3 : ¬ (σ.size + 1 + 1 + 1 > Gen.stackMaxLen) := by omega
      have h4 : ¬ (σ.size + 1 + 1 + 1 + 1 > Gen.stackMaxLen) := by omega
      simp only [ne_eq, hd, not_false_eq_true, if_true, run_bind, run_push, Array.size_push, h1, h2, h3, h4, if_false,
        run_modify]

/-! ### FN / DEF -/

theorem run_popN (s : Runtime) (σ : Array Val) (args : List Val) (hst : s.stack = σ ++ args.toArray) :
    ((popN args.length).run).run s = (.ok args, { s with stack := σ }) := by
  unfold popN
  have h1 : ¬ (args.length > (σ ++ args.toArray).size) := by simp
  simp only [run_bind, run_get, hst, h1, if_false, run_set, run_pure]
  simp

theorem run_popVec (s : Runtime) (σ : Array Val) (args : List Val) (k : Int16)
    (hst : s.stack = (σ ++ args.toArray).push (.int k)) (hk : k.toInt = args.length) :
    (popVec.run).run s = (.ok args, { s with stack := σ }) := by
  unfold popVec
  have h1 : ¬ (k.toInt < 0) := by omega
  have h2 : k.toInt.toNat = args.length := by omega
  simp only [run_bind, run_pop, hst, Array.back?_push, Array.pop_push, h1, if_false, h2]
  rw [run_popN _ σ args rfl]

/-- pushing a list of values one by one -/
theorem run_forIn_push (l : List Val) (s : Runtime) (h : s.stack.size + l.length ≤ Gen.stackMaxLen) :
    ((forIn l PUnit.unit (fun a (_ : PUnit) => (do push a; pure (ForInStep.yield PUnit.unit) : RM (ForInStep PUnit)))).run).run s =
      (.ok ⟨⟩, { s with stack := s.stack ++ l.toArray }) := by
  induction l generalizing s with
  | nil =>
    simp only [List.forIn_nil, run_pure]
    have : s.stack ++ ([] : List Val).toArray = s.stack := by simp
    rw [this]
  | cons hd tl ih =>
    rw [List.forIn_cons]
    simp only [List.length_cons] at h
    have h1 : ¬ (s.stack.size + 1 > Gen.stackMaxLen) := by omega
    simp only [run_bind, run_push, h1, if_false, run_pure]
    rw [ih]
    · congr 2
      apply Array.ext'; simp
    · simp only [Array.size_push]; omega

/-- the call sequence: `σ, a₁ … aₖ, k` becomes `σ, ret pc, aₖ … a₁` and control passes to the body -/
theorem run_doFn (s : Runtime) (σ : Array Val) (args : List Val) (k : Int16) (name : Str) (addr : Nat)
    (hst : s.stack = (σ ++ args.toArray).push (.int k)) (hk : k.toInt = args.length)
    (hfn : s.functions.lookup name = some (args.length, addr))
    (hb : σ.size + 1 + args.length ≤ Gen.stackMaxLen) :
    ((doFn name).run).run s =
      (.ok (), { s with stack := σ.push (.ret s.pc) ++ args.reverse.toArray, pc := addr }) := by
  unfold doFn
  have h1 : ¬ (σ.size + 1 > Gen.stackMaxLen) := by omega
  simp only [run_bind, run_popVec s σ args k hst hk, run_get, hfn, if_true, run_push, h1, if_false]
  rw [run_forIn_push]
  · simp only [run_modify]
  · simp only [Array.size_push, List.length_reverse]; omega

theorem run_doFn_wrong_arity (s : Runtime) (σ : Array Val) (args : List Val) (k : Int16) (name : Str)
    (arity addr : Nat)
    (hst : s.stack = (σ ++ args.toArray).push (.int k)) (hk : k.toInt = args.length)
    (hfn : s.functions.lookup name = some (arity, addr)) (hne : arity ≠ args.length) :
    ((doFn name).run).run s =
      (.error ((Error.mk' Code.illegalFunctionCall).withMsg "WRONG NUMBER OF ARGUMENTS"), { s with stack := σ }) := by
  unfold doFn
  simp only [run_bind, run_popVec s σ args k hst hk, run_get, hfn, hne, if_false, run_throw]

theorem run_doFn_undefined (s : Runtime) (σ : Array Val) (args : List Val) (k : Int16) (name : Str)
    (hst : s.stack = (σ ++ args.toArray).push (.int k)) (hk : k.toInt = args.length)
    (hfn : s.functions.lookup name = none) :
    ((doFn name).run).run s = (.error (Error.mk' Code.undefinedUserFunction), { s with stack := σ }) := by
  unfold doFn
  simp only [run_bind, run_popVec s σ args k hst hk, run_get, hfn, run_throw]

theorem run_doDef (s : Runtime) (σ : Array Val) (n : Int16) (name : Str)
    (hst : s.stack = σ.push (.int n)) (hpc : s.pc < s.entryAddress) :
    ((doDef name).run).run s =
      (.ok (), { s with stack := σ,
                        functions := (name, (n.toInt.toNat, s.pc + 1)) :: s.functions.filter (·.1 ≠ name) }) := by
  unfold doDef
  have h1 : ¬ (s.pc ≥ s.entryAddress) := by omega
  simp only [run_bind, run_get, h1, if_false, run_pop, hst, Array.back?_push, Array.pop_push, run_modify]

theorem run_doDef_direct (s : Runtime) (name : Str) (hpc : s.pc ≥ s.entryAddress) :
    ((doDef name).run).run s = (.error (Error.mk' Code.illegalDirect), s) := by
  unfold doDef
  simp only [run_bind, run_get, hpc, if_true, run_throw]

/-! ### single instructions (trace off) -/

/-- the zero test of `ifNot`: numeric values only -/
def zeroTest : Val → Option Bool
  | .int n => some (n == 0)
  | .sng b => some (F.f32 b == 0)
  | .dbl b => some (F.f64 b == 0)
  | _ => none

theorem run_step_ifNot (env : Env) (hie : Bool) (s : Runtime) (a : Nat) (σ : Array Val) (v : Val)
    (htr : s.tron = false) (hop : s.program.link.ops[s.pc]? = some (.ifNot a))
    (hst : s.stack = σ.push v) :
    ((step env hie).run).run s =
      match zeroTest v with
      | some z => (.ok .continue, { s with stack := σ, pc := if z then a else s.pc + 1 })
      | none => (.error (Error.mk' Code.typeMismatch), { s with stack := σ, pc := s.pc + 1 }) := by
  unfold step
  simp only [run_bind, run_get, htr, Bool.false_eq_true, if_false, run_pure, hop, run_set, run_pop, hst,
    Array.back?_push, Array.pop_push]
  cases v with
  | int n =>
    simp only [zeroTest, run_pure]
    by_cases hz : (n == 0) = true
    · simp only [hz, if_true, run_bind, run_modify, run_pure]
    · simp only [hz, if_false, run_pure, Bool.false_eq_true]
  | sng b =>
    simp only [zeroTest, run_pure]
    by_cases hz : (F.f32 b == 0) = true
    · simp only [hz, if_true, run_bind, run_modify, run_pure]
    · simp only [hz, if_false, run_pure, Bool.false_eq_true]
  | dbl b =>
    simp only [zeroTest, run_pure]
    by_cases hz : (F.f64 b == 0) = true
    · simp only [hz, if_true, run_bind, run_modify, run_pure]
    · simp only [hz, if_false, run_pure, Bool.false_eq_true]
  | str x => simp only [zeroTest, run_throw]
  | ret x => simp only [zeroTest, run_throw]
  | nxt x => simp only [zeroTest, run_throw]

/-- lift a helper's outcome to the outcome of the instruction that calls it -/
def asStep (r : Except Error Unit × Runtime) : Except Error Step × Runtime :=
  match r with
  | (.ok _, s') => (.ok .continue, s')
  | (.error e, s') => (.error e, s')

theorem run_step_on (env : Env) (hie : Bool) (s : Runtime)
    (htr : s.tron = false) (hop : s.program.link.ops[s.pc]? = some .on) :
    ((step env hie).run).run s = asStep ((doOn.run).run { s with pc := s.pc + 1 }) := by
  unfold step
  simp only [run_bind, run_get, htr, Bool.false_eq_true, if_false, run_pure, hop, run_set, asStep]
  split <;> simp_all

theorem run_step_return (env : Env) (hie : Bool) (s : Runtime)
    (htr : s.tron = false) (hop : s.program.link.ops[s.pc]? = some .return) :
    ((step env hie).run).run s = asStep ((doReturn.run).run { s with pc := s.pc + 1 }) := by
  unfold step
  simp only [run_bind, run_get, htr, Bool.false_eq_true, if_false, run_pure, hop, run_set, asStep]
  split <;> simp_all

theorem run_step_next (env : Env) (hie : Bool) (s : Runtime) (name : Str)
    (htr : s.tron = false) (hop : s.program.link.ops[s.pc]? = some (.next name)) :
    ((step env hie).run).run s = asStep (((doNext name).run).run { s with pc := s.pc + 1 }) := by
  unfold step
  simp only [run_bind, run_get, htr, Bool.false_eq_true, if_false, run_pure, hop, run_set, asStep]
  split <;> simp_all

theorem run_step_fn (env : Env) (hie : Bool) (s : Runtime) (name : Str)
    (htr : s.tron = false) (hop : s.program.link.ops[s.pc]? = some (.fn name)) :
    ((step env hie).run).run s = asStep (((doFn name).run).run { s with pc := s.pc + 1 }) := by
  unfold step
  simp only [run_bind, run_get, htr, Bool.false_eq_true, if_false, run_pure, hop, run_set, asStep]
  split <;> simp_all

theorem run_step_def (env : Env) (hie : Bool) (s : Runtime) (name : Str)
    (htr : s.tron = false) (hop : s.program.link.ops[s.pc]? = some (.def name)) :
    ((step env hie).run).run s = asStep (((doDef name).run).run { s with pc := s.pc + 1 }) := by
  unfold step
  simp only [run_bind, run_get, htr, Bool.false_eq_true, if_false, run_pure, hop, run_set, asStep]
  split <;> simp_all

theorem run_step_read (env : Env) (hie : Bool) (s : Runtime)
    (htr : s.tron = false) (hop : s.program.link.ops[s.pc]? = some .read) :
    ((step env hie).run).run s = asStep ((doRead.run).run { s with pc := s.pc + 1 }) := by
  unfold step
  simp only [run_bind, run_get, htr, Bool.false_eq_true, if_false, run_pure, hop, run_set, asStep]
  split <;> simp_all

theorem run_step_restore (env : Env) (hie : Bool) (s : Runtime) (a : Nat)
    (htr : s.tron = false) (hop : s.program.link.ops[s.pc]? = some (.restore a)) :
    ((step env hie).run).run s =
      (.ok .continue, { s with pc := s.pc + 1,
                               program := { s.program with link := s.program.link.restoreData a } }) := by
  unfold step
  simp only [run_bind, run_get, htr, Bool.false_eq_true, if_false, run_pure, hop, run_set, run_modify]

/-- `jump a`: control passes to `a` (unless the program has compile errors and the target lies in it) -/
theorem run_step_jump (env : Env) (hie : Bool) (s : Runtime) (a : Nat)
    (htr : s.tron = false) (hop : s.program.link.ops[s.pc]? = some (.jump a))
    (hgate : hie = false ∨ a ≥ s.entryAddress) :
    ((step env hie).run).run s = (.ok .continue, { s with pc := a }) := by
  unfold step
  have hc : ¬ ((hie && decide (a < s.entryAddress)) = true) := by
    rcases hgate with h | h
    · subst h; simp
    · simp; intro _; omega
  simp only [run_bind, run_get, htr, Bool.false_eq_true, if_false, run_pure, hop, run_set, run_modify, hc]

/-- … and with compile errors in the program a jump into it stops with those errors instead (the gate) -/
theorem run_step_jump_gated (env : Env) (s : Runtime) (a : Nat)
    (htr : s.tron = false) (hop : s.program.link.ops[s.pc]? = some (.jump a))
    (hin : a < s.entryAddress) :
    ((step env true).run).run s =
      (.ok (.event (.errors s.listing.indirectErrors)), { s with pc := a, state := .stopped, cont := .stopped }) := by
  unfold step
  have hc : ((true && decide (a < s.entryAddress)) = true) := by simp [hin]
  simp only [run_bind, run_get, htr, Bool.false_eq_true, if_false, run_pure, hop, run_set, run_modify, hc, if_true]

/-- `pop name`: the top of the stack is stored into the variable (with the conversion `Var.store` applies) -/
theorem run_step_pop (env : Env) (hie : Bool) (s : Runtime) (name : Str) (σ : Array Val) (v : Val)
    (htr : s.tron = false) (hop : s.program.link.ops[s.pc]? = some (.pop name))
    (hst : s.stack = σ.push v) :
    ((step env hie).run).run s =
      match s.vars.store name v with
      | .ok vars' => (.ok .continue, { s with pc := s.pc + 1, stack := σ, vars := vars' })
      | .error e => (.error e, { s with pc := s.pc + 1, stack := σ }) := by
  unfold step
  simp only [run_bind, run_get, htr, Bool.false_eq_true, if_false, run_pure, hop, run_set, run_pop, hst,
    Array.back?_push, Array.pop_push, run_liftE]
  cases s.vars.store name v <;> rfl

theorem run_step_literal (env : Env) (hie : Bool) (s : Runtime) (v : Val)
    (htr : s.tron = false) (hop : s.program.link.ops[s.pc]? = some (.literal v)) :
    ((step env hie).run).run s =
      (if s.stack.size + 1 > Gen.stackMaxLen then .error stackOverflow else .ok .continue,
        { s with pc := s.pc + 1, stack := s.stack.push v }) := by
  unfold step
  by_cases hc : s.stack.size + 1 > Gen.stackMaxLen
  · simp only [run_bind, run_get, htr, Bool.false_eq_true, if_false, run_pure, hop, run_set, run_push, hc, if_true]
  · simp only [run_bind, run_get, htr, Bool.false_eq_true, if_false, run_pure, hop, run_set, run_push, hc]

end Runtime
end Basic
