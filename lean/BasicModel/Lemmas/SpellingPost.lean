import BasicModel.Lemmas.LexStable
/-
  C16, post-pass part: the four post-passes of the lexer seen through `sig` (the token list without
  blank runs, which is all the parser looks at).

  * `triRec`: `collapse_triples` (locations first, then spliced from the last to the first) is a
    plain left-to-right rewrite;
  * `G = dblRec ∘ triRec` splits at every seam at which no window of the two collapse passes can
    fire (`G_append`), in particular at every token that is not a blank, a comparison character,
    `GO`, `TO` or `SUB`;
  * `trim_end` only looks at the end of the line; `separate_words` only inserts blanks.
-/
set_option linter.unusedSimpArgs false
set_option linter.unusedVariables false
namespace Basic
namespace Lex

/-! ### significant tokens -/

/-- the significant tokens of a line: everything but the blank runs (`BasicParser::next` skips them) -/
def sig (ts : List Token) : List Token := ts.filter (fun t => !isBlank t)

@[simp] theorem sig_nil : sig [] = [] := rfl

theorem sig_append (a b : List Token) : sig (a ++ b) = sig a ++ sig b := by
  simp [sig]

theorem sig_cons_blank (n : Nat) (ts : List Token) : sig (.whitespace n :: ts) = sig ts := by
  simp [sig, isBlank]

theorem sig_cons_solid (t : Token) (ts : List Token) (h : isBlank t = false) : sig (t :: ts) = t :: sig ts := by
  simp [sig, h]

theorem sig_sepRec (ts : List Token) : sig (sepRec ts) = sig ts := by
  induction ts with
  | nil => rfl
  | cons a ts ih =>
    cases ts with
    | nil => rfl
    | cons b rest =>
      simp only [sepRec]
      split
      · cases ha : isBlank a with
        | true => cases a <;> simp [isBlank] at ha; rw [sig_cons_blank, sig_cons_blank, sig_cons_blank, ih]
        | false => rw [sig_cons_solid a _ ha, sig_cons_blank, ih, sig_cons_solid a _ ha]
      · cases ha : isBlank a with
        | true => cases a <;> simp [isBlank] at ha; rw [sig_cons_blank, sig_cons_blank, ih]
        | false => rw [sig_cons_solid a _ ha, ih, sig_cons_solid a _ ha]

/-! ### `collapse_triples` as a left-to-right rewrite -/

theorem tripleMatch_blank_mid (x y z t : Token) (h : tripleMatch x y z = some t) : isBlank y = true := by
  cases hy : isBlank y with
  | true => rfl
  | false => rw [tripleMatch_none_of_not_blank x y z hy] at h; cases h

theorem tripleMatch_blank_first (x y z : Token) (h : isBlank x = true) : tripleMatch x y z = none := by
  cases x <;> simp [isBlank] at h
  unfold tripleMatch; split <;> simp_all

theorem tripleMatch_blank_third (x y z : Token) (h : isBlank z = true) : tripleMatch x y z = none := by
  cases z <;> simp [isBlank] at h
  unfold tripleMatch; split <;> simp_all

/-- `collapse_triples` without locations: a hit replaces the window; the third token of the window
    has already been looked at as the first of a later window (overlaps are inspected), and is
    swallowed by the splice whether or not that later window fired -/
def triRec : List Token → List Token
  | a :: b :: c :: rest =>
    match tripleMatch a b c with
    | some t => t :: (triRec (c :: rest)).tail
    | none => a :: triRec (b :: c :: rest)
  | ts => ts

theorem triRec_ne_nil (ts : List Token) (h : ts ≠ []) : triRec ts ≠ [] := by
  match ts with
  | [] => contradiction
  | [a] => simp [triRec]
  | [a, b] => simp [triRec]
  | a :: b :: c :: rest =>
    simp only [triRec]; split <;> simp

theorem splice_prefix (n : Nat) (pre ts : List Token) (j : Nat) (t : Token) :
    splice n (pre ++ ts) (pre.length + j, t) = pre ++ splice n ts (j, t) := by
  simp only [splice]
  rw [List.take_append, List.drop_append]
  have h1 : List.take (pre.length + j) pre = pre := List.take_of_length_le (by omega)
  have h2 : List.drop (pre.length + j + n) pre = [] := List.drop_of_length_le (by omega)
  simp [h1, h2, Nat.add_assoc]

theorem tripleLocs_skip_blank (b c : Token) (rest : List Token) (k : Nat) (h : isBlank b = true) :
    tripleLocs (b :: c :: rest) k = tripleLocs (c :: rest) (k + 1) := by
  cases rest with
  | nil => simp [tripleLocs]
  | cons d rest' => simp only [tripleLocs, tripleMatch_blank_first b c d h]

theorem collapseTriples_aux (n : Nat) : ∀ (ts pre : List Token), ts.length ≤ n →
    applyLocs 3 (tripleLocs ts pre.length) (pre ++ ts) = pre ++ triRec ts := by
  induction n with
  | zero =>
    intro ts pre h
    have : ts = [] := by cases ts <;> simp_all
    subst this; simp [tripleLocs, triRec, applyLocs]
  | succ n ih =>
    intro ts pre h
    match ts with
    | [] => simp [tripleLocs, triRec, applyLocs]
    | [a] => simp [tripleLocs, triRec, applyLocs]
    | [a, b] => simp [tripleLocs, triRec, applyLocs]
    | a :: b :: c :: rest =>
      simp only [tripleLocs, triRec]
      cases hm : tripleMatch a b c with
      | none =>
        have := ih (b :: c :: rest) (pre ++ [a]) (by simp at h ⊢; omega)
        simpa using this
      | some t =>
        have hb := tripleMatch_blank_mid a b c t hm
        rw [tripleLocs_skip_blank b c rest _ hb]
        have := ih (c :: rest) (pre ++ [a, b]) (by simp at h ⊢; omega)
        simp only [List.length_append, List.length_cons, List.length_nil, List.append_assoc,
          List.cons_append, List.nil_append] at this
        simp only [applyLocs, List.foldr_cons] at this ⊢
        rw [show pre.length + 1 + 1 = pre.length + (0 + 1 + 1) by omega, this]
        have := splice_prefix 3 pre (a :: b :: triRec (c :: rest)) 0 t
        simp only [Nat.add_zero] at this
        rw [this]
        obtain ⟨x, xs, hx⟩ : ∃ x xs, triRec (c :: rest) = x :: xs := by
          cases hh : triRec (c :: rest) with
          | nil => exact absurd hh (triRec_ne_nil _ (by simp))
          | cons x xs => exact ⟨x, xs, rfl⟩
        simp [splice, hx]

/-- replacing from the last location to the first = one left-to-right pass -/
theorem collapseTriples_eq (ts : List Token) : collapseTriples ts = triRec ts := by
  simpa [collapseTriples] using collapseTriples_aux ts.length ts [] (Nat.le_refl _)

/-! ### seams: where the two collapse passes split -/

theorem triRec_cons_of_none (t : Token) (B : List Token)
    (h : ∀ y z B', B = y :: z :: B' → tripleMatch t y z = none) : triRec (t :: B) = t :: triRec B := by
  match B with
  | [] => rfl
  | [y] => rfl
  | y :: z :: B' => rw [triRec, h y z B' rfl]

theorem getLast?_cons_of_ne_nil {α} (a : α) (l : List α) (h : l ≠ []) : (a :: l).getLast? = l.getLast? := by
  cases l with
  | nil => contradiction
  | cons b l => simp [List.getLast?_cons_cons]

/-- no window of `collapse_triples` or `collapse_doubles` that straddles the seam between `A` and `B` fires -/
def Seam (A B : List Token) : Prop :=
  (∀ P x y z, A = P ++ [x, y] → B.head? = some z → tripleMatch x y z = none) ∧
  (∀ x y z B', A.getLast? = some x → B = y :: z :: B' → tripleMatch x y z = none) ∧
  (∀ a b, A.getLast? = some a → B.head? = some b → doubleMatch a b = none)

theorem Seam.nil_left (B : List Token) : Seam [] B := by
  refine ⟨?_, ?_, ?_⟩
  · intro P x y z h; simp at h
  · intro x y z B' h; simp at h
  · intro a b h; simp at h

theorem Seam.nil_right (A : List Token) : Seam A [] := by
  refine ⟨?_, ?_, ?_⟩
  · intro P x y z _ h; simp at h
  · intro x y z B' _ h; simp at h
  · intro a b _ h; simp at h

theorem Seam.tail {a : Token} {l B : List Token} (h : Seam (a :: l) B) : Seam l B := by
  by_cases hl : l = []
  · subst hl; exact Seam.nil_left B
  · obtain ⟨h1, h2, h3⟩ := h
    refine ⟨?_, ?_, ?_⟩
    · intro P x y z e hz; exact h1 (a :: P) x y z (by simp [e]) hz
    · intro x y z B' e hB; exact h2 x y z B' (by rw [getLast?_cons_of_ne_nil a l hl]; exact e) hB
    · intro x b e hb; exact h3 x b (by rw [getLast?_cons_of_ne_nil a l hl]; exact e) hb

theorem triRec_append (n : Nat) : ∀ (A B : List Token), A.length ≤ n → Seam A B →
    triRec (A ++ B) = triRec A ++ triRec B := by
  induction n with
  | zero =>
    intro A B h _
    have : A = [] := by cases A <;> simp_all
    subst this; simp [triRec]
  | succ n ih =>
    intro A B h hs
    match A with
    | [] => simp [triRec]
    | [a] =>
      have := triRec_cons_of_none a B (fun y z B' e => hs.2.1 a y z B' (by simp) e)
      simpa [triRec] using this
    | [a, b] =>
      cases B with
      | nil => simp [triRec]
      | cons z B'' =>
        have hm : tripleMatch a b z = none := hs.1 [] a b z (by simp) (by simp)
        have := ih [b] (z :: B'') (by simp at h ⊢; omega) hs.tail
        simp only [List.cons_append, List.nil_append] at this ⊢
        rw [triRec, hm]
        simp only [this, triRec]
        simp
    | a :: b :: c :: A' =>
      have ih1 := ih (b :: c :: A') B (by simp at h ⊢; omega) hs.tail
      have ih2 := ih (c :: A') B (by simp at h ⊢; omega) hs.tail.tail
      simp only [List.cons_append] at ih1 ih2 ⊢
      rw [triRec, triRec]
      cases hm : tripleMatch a b c with
      | none => simp only [ih1, List.cons_append]
      | some t =>
        simp only [ih2]
        obtain ⟨x, xs, hx⟩ : ∃ x xs, triRec (c :: A') = x :: xs := by
          cases hh : triRec (c :: A') with
          | nil => exact absurd hh (triRec_ne_nil _ (by simp))
          | cons x xs => exact ⟨x, xs, rfl⟩
        simp [hx]

theorem dblRec_append (n : Nat) : ∀ (X Y : List Token), X.length ≤ n →
    (∀ a b, X.getLast? = some a → Y.head? = some b → doubleMatch a b = none) →
    dblRec (X ++ Y) = dblRec X ++ dblRec Y := by
  induction n with
  | zero =>
    intro X Y h _
    have : X = [] := by cases X <;> simp_all
    subst this; simp [dblRec]
  | succ n ih =>
    intro X Y h hs
    match X with
    | [] => simp [dblRec]
    | [a] =>
      cases Y with
      | nil => simp [dblRec]
      | cons b Y' =>
        have hm := hs a b (by simp) (by simp)
        simp only [List.cons_append, List.nil_append, dblRec, hm]
    | a :: b :: X' =>
      simp only [List.cons_append, dblRec]
      cases hm : doubleMatch a b with
      | some t =>
        have := ih X' Y (by simp at h ⊢; omega) (by
          intro x y e hy
          by_cases hx : X' = []
          · subst hx; simp at e
          · exact hs x y (by rw [getLast?_cons_of_ne_nil a _ (by simp),
              getLast?_cons_of_ne_nil b _ hx]; exact e) hy)
        simp only [this, List.cons_append]
      | none =>
        have := ih (b :: X') Y (by simp at h ⊢; omega) (by
          intro x y e hy
          exact hs x y (by rw [getLast?_cons_of_ne_nil a _ (by simp)]; exact e) hy)
        simp only [List.cons_append] at this
        simp only [this, List.cons_append]

theorem tripleMatch_result_not_raw (x y z t : Token) (h : tripleMatch x y z = some t) :
    isRawCmp t = false := by
  unfold tripleMatch at h
  split at h
  all_goals first
    | (cases h; rfl)
    | (split at h <;> first | (cases h; rfl) | cases h)
    | cases h

theorem doubleMatch_raw (a b t : Token) (h : doubleMatch a b = some t) :
    isRawCmp a = true ∧ isRawCmp b = true := by
  unfold doubleMatch at h
  split at h <;> first | exact ⟨rfl, rfl⟩ | cases h

theorem triRec_getLast (n : Nat) : ∀ (A : List Token) (x : Token), A.length ≤ n →
    (triRec A).getLast? = some x → isRawCmp x = true → A.getLast? = some x := by
  induction n with
  | zero =>
    intro A x h hl _
    have : A = [] := by cases A <;> simp_all
    subst this; simp [triRec] at hl
  | succ n ih =>
    intro A x h hl hx
    match A with
    | [] => simp [triRec] at hl
    | [a] => simpa [triRec] using hl
    | [a, b] => simpa [triRec] using hl
    | a :: b :: c :: rest =>
      rw [triRec] at hl
      rw [getLast?_cons_of_ne_nil a _ (by simp), getLast?_cons_of_ne_nil b _ (by simp)]
      cases hm : tripleMatch a b c with
      | none =>
        rw [hm] at hl
        simp only at hl
        rw [getLast?_cons_of_ne_nil a _ (triRec_ne_nil _ (by simp))] at hl
        have := ih (b :: c :: rest) x (by simp at h ⊢; omega) hl hx
        rwa [getLast?_cons_of_ne_nil b _ (by simp)] at this
      | some t =>
        rw [hm] at hl
        simp only at hl
        obtain ⟨y, ys, hy⟩ : ∃ y ys, triRec (c :: rest) = y :: ys := by
          cases hh : triRec (c :: rest) with
          | nil => exact absurd hh (triRec_ne_nil _ (by simp))
          | cons y ys => exact ⟨y, ys, rfl⟩
        rw [hy] at hl
        simp only [List.tail_cons] at hl
        by_cases hys : ys = []
        · subst hys
          simp at hl; subst hl
          rw [tripleMatch_result_not_raw a b c _ hm] at hx; cases hx
        · rw [getLast?_cons_of_ne_nil t _ hys] at hl
          have hl' : (triRec (c :: rest)).getLast? = some x := by
            rw [hy, getLast?_cons_of_ne_nil y _ hys]; exact hl
          exact ih (c :: rest) x (by simp at h ⊢; omega) hl' hx

theorem triRec_head (B : List Token) (x : Token) (hl : (triRec B).head? = some x)
    (hx : isRawCmp x = true) : B.head? = some x := by
  match B with
  | [] => simp [triRec] at hl
  | [a] => simpa [triRec] using hl
  | [a, b] => simpa [triRec] using hl
  | a :: b :: c :: rest =>
    rw [triRec] at hl
    cases hm : tripleMatch a b c with
    | none => rw [hm] at hl; simpa using hl
    | some t =>
      rw [hm] at hl
      simp at hl; subst hl
      rw [tripleMatch_result_not_raw a b c _ hm] at hx; cases hx

/-- the two collapse passes -/
def G (ts : List Token) : List Token := dblRec (triRec ts)

theorem postPasses_eq (ts : List Token) : postPasses ts = sepRec (G (trimEnd ts)) := by
  simp only [postPasses, collapseTriples_eq, collapseDoubles_eq, separateWords_eq, G]

theorem sig_postPasses (ts : List Token) : sig (postPasses ts) = sig (G (trimEnd ts)) := by
  rw [postPasses_eq, sig_sepRec]

/-- the collapse passes split at a seam -/
theorem G_append (A B : List Token) (h : Seam A B) : G (A ++ B) = G A ++ G B := by
  unfold G
  rw [triRec_append A.length A B (Nat.le_refl _) h]
  apply dblRec_append _ _ _ (Nat.le_refl _)
  intro a b ha hb
  cases hm : doubleMatch a b with
  | none => rfl
  | some t =>
    obtain ⟨r1, r2⟩ := doubleMatch_raw a b t hm
    have e1 := triRec_getLast A.length A a (Nat.le_refl _) ha r1
    have e2 := triRec_head B b hb r2
    rw [h.2.2 a b e1 e2] at hm; cases hm

/-- a token that cannot be the second or third of a firing window, nor the second of a pair -/
theorem Seam.of_right (A : List Token) (t : Token) (B : List Token) (h1 : isBlank t = false)
    (h2 : isRawCmp t = false) (h3 : isGoTail t = false) : Seam A (t :: B) := by
  refine ⟨?_, ?_, ?_⟩
  · intro P x y z _ hz
    simp at hz; subst hz
    exact tripleMatch_none_of_ends x y t (by simp [h2]) (by simp [h3])
  · intro x y z B' _ e
    simp at e; obtain ⟨rfl, -⟩ := e
    exact tripleMatch_none_of_not_blank x t z h1
  · intro a b _ hb
    simp at hb; subst hb
    cases hm : doubleMatch a t with
    | none => rfl
    | some r => have := (doubleMatch_raw a t r hm).2; rw [h2] at this; cases this

/-- a token that cannot be the first or second of a firing window, nor the first of a pair -/
theorem Seam.of_left (A : List Token) (t : Token) (B : List Token) (h1 : isBlank t = false)
    (h2 : isRawCmp t = false) (h3 : isGoHead t = false) : Seam (A ++ [t]) B := by
  refine ⟨?_, ?_, ?_⟩
  · intro P x y z e _
    have : y = t := by
      have := congrArg List.getLast? e
      simp at this; exact this.symm
    subst this
    exact tripleMatch_none_of_not_blank x y z h1
  · intro x y z B' e _
    simp at e; subst e
    exact tripleMatch_none_of_ends t y z (by simp [h2]) (by simp [h3])
  · intro a b e _
    simp at e; subst e
    cases hm : doubleMatch t b with
    | none => rfl
    | some r => have := (doubleMatch_raw t b r hm).1; rw [h2] at this; cases this

theorem G_single (t : Token) : G [t] = [t] := rfl

theorem G_nil : G [] = [] := rfl

/-- a token that takes no part in the collapse passes: they work on both sides independently -/
def isInert (t : Token) : Bool := !isBlank t && !isRawCmp t && !isGoHead t && !isGoTail t

theorem G_split_inert (A : List Token) (t : Token) (B : List Token) (h : isInert t = true) :
    G (A ++ t :: B) = G A ++ t :: G B := by
  simp only [isInert, Bool.and_eq_true, Bool.not_eq_true'] at h
  obtain ⟨⟨⟨h1, h2⟩, h3⟩, h4⟩ := h
  rw [G_append A (t :: B) (Seam.of_right A t B h1 h2 h4)]
  have := G_append [t] B (Seam.of_left [] t B h1 h2 h3)
  simp only [List.nil_append, List.cons_append] at this
  rw [this, G_single]; rfl

theorem G_cons_blank (n : Nat) (X : List Token) : G (.whitespace n :: X) = .whitespace n :: G X := by
  unfold G
  rw [triRec_cons_of_none _ X (fun y z _ _ => tripleMatch_blank_first _ y z rfl)]
  cases triRec X with
  | nil => rfl
  | cons y Y => simp [dblRec, doubleMatch]

/-! ### `trim_end` only looks at the end -/

/-- neither a blank run nor an `Unknown` -/
def isSolid : Token → Bool
  | .whitespace _ | .unknown _ => false
  | _ => true

theorem trimEndRev_solid (t : Token) (M : List Token) (h : isSolid t = true) : trimEndRev (t :: M) = t :: M := by
  cases t <;> first | (simp [isSolid] at h; done) | simp [trimEndRev]

theorem trimEndRev_append_solid (L : List Token) (t : Token) (M : List Token) (h : isSolid t = true) :
    trimEndRev (L ++ t :: M) = trimEndRev L ++ t :: M := by
  induction L with
  | nil => simp [trimEndRev_solid t M h, trimEndRev]
  | cons x L ih =>
    cases x with
    | whitespace n => simpa [trimEndRev] using ih
    | unknown s =>
      simp only [List.cons_append, trimEndRev]
      split
      · exact ih
      · simp
    | _ => simp [trimEndRev]

theorem trimEnd_append_solid (A : List Token) (t : Token) (B : List Token) (h : isSolid t = true) :
    trimEnd (A ++ t :: B) = A ++ t :: trimEnd B := by
  simp only [trimEnd, List.reverse_append, List.reverse_cons, List.append_assoc, List.cons_append,
    List.nil_append]
  rw [trimEndRev_append_solid _ t _ h]
  simp

theorem trimEndRev_snoc (L : List Token) (t : Token) :
    trimEndRev (L ++ [t]) = if trimEndRev L = [] then trimEndRev [t] else trimEndRev L ++ [t] := by
  induction L with
  | nil => simp [trimEndRev]
  | cons x L ih =>
    cases x with
    | whitespace n => simp only [List.cons_append, trimEndRev]; exact ih
    | unknown s =>
      simp only [List.cons_append, trimEndRev]
      split
      · exact ih
      · simp
    | _ => simp [trimEndRev]

theorem trimEnd_cons (t : Token) (X : List Token) :
    trimEnd (t :: X) = if trimEnd X = [] then trimEnd [t] else t :: trimEnd X := by
  simp only [trimEnd, List.reverse_cons, trimEndRev_snoc, List.reverse_eq_nil_iff, List.reverse_nil,
    List.nil_append]
  split <;> simp

/-- a leading blank run does not change the significant tokens of a line -/
theorem sig_G_trimEnd_blank (n : Nat) (X : List Token) :
    sig (G (trimEnd (.whitespace n :: X))) = sig (G (trimEnd X)) := by
  rw [trimEnd_cons]
  split
  · rename_i h; rw [h]; simp [trimEnd, trimEndRev, G, triRec, dblRec]
  · rw [G_cons_blank, sig_cons_blank]

end Lex
end Basic
