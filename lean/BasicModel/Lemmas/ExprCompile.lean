import BasicModel.Spec.Eval
import BasicModel.Lemmas.Link
import BasicModel.Lemmas.Codegen
import BasicModel.Lemmas.CodegenShape
import BasicModel.Lemmas.Runtime
import BasicModel.Lemmas.Control
import BasicModel.Lemmas.VmDispatch
/-
  Compiled expressions compute their tree value.

  * `flat e` — the postfix code of a tree;
  * `acceptExpr_shape` — the visitor of `Model/Codegen.lean` emits exactly `flat e` for a tree of the
    fragment `Spec.Pure` (one new entry on the expression stack, a fragment without data, symbols or
    pending references);
  * `flat_correct` — the VM of `Model/Runtime.lean`, run on `flat e`, pushes `Spec.eval vars e`
    (or stops in the same error), touches nothing else and advances `pc` past the code;
  * `compileExpr_correct` — the two composed; `let_codegen_shape`, `let_run`, `compileLet_correct` — the
    same for `LET v = e`; `print_codegen_shape` — the code of `PRINT e`.
-/
namespace Basic
namespace Lemmas.ExprCompile
open Basic.Spec

/-! ## the postfix code -/

/-- the postfix code of a tree (meaningful inside `Spec.Pure`; a call `F(e)` is the argument's code
    followed by the opcode of `F` in the generated built-in table) -/
def flat : Expr → List Opcode
  | .single _ b => [.literal (.sng b)]
  | .double _ b => [.literal (.dbl b)]
  | .integer _ n => [.literal (.int n)]
  | .string _ s => [.literal (.str s)]
  | .var (.unary _ i) => [.push i.name]
  | .var (.array _ i [e]) =>
    match Gen.opcodeAndArity i.name with
    | some (oc, _, _) => flat e ++ [oc]
    | none => flat e
  | .var (.array _ _ _) => []
  | .neg _ e => flat e ++ [Gen.opcodeOfNegation]
  | .not _ e => flat e ++ [Gen.opcodeOfNot]
  | .bin op _ l r => flat l ++ flat r ++ [Gen.opcodeOfBinOp op]

/-! ## the built-in table against the hand-written one -/

/-- the one-argument function opcodes of `Runtime.step` that are `pop1Push` of a function of the
    argument alone, read off its `match` -/
def vmFunc1 : Opcode → Option (Val → Res Val)
  | .abs => some Func.abs | .asc => some Func.asc | .atn => some Func.atn | .cdbl => some Func.cdbl
  | .chr => some Func.chr | .cint => some Func.cint | .cos => some Func.cos | .csng => some Func.csng
  | .exp => some Func.exp | .fix => some Func.fix | .hex => some Func.hex | .int => some Func.int
  | .len => some Func.len | .log => some Func.log | .oct => some Func.oct | .sgn => some Func.sgn
  | .sin => some Func.sin | .spc => some Func.spc | .sqr => some Func.sqr | .str => some Func.str
  | .tan => some Func.tan | .val => some Func.val
  | _ => none

/-- every name of the hand-written table is, in the table generated from `function.rs`, a built-in of
    arity exactly one whose opcode the VM executes as that function -/
theorem builtin1_spec {name : Str} {f : Val → Res Val} (h : builtin1 name = some f) :
    ∃ oc, Gen.opcodeAndArity name = some (oc, 1, 1) ∧ vmFunc1 oc = some f := by
  unfold builtin1 at h
  obtain ⟨r, hr, hf⟩ := Option.map_eq_some_iff.1 h
  have hm := List.mem_of_find?_eq_some hr
  have hp := List.find?_some hr
  have hn : r.1.toList = name := by simpa using hp
  subst hn
  subst hf
  simp only [builtin1Table, List.mem_cons, List.not_mem_nil, or_false] at hm
  rcases hm with rfl | rfl | rfl | rfl | rfl | rfl | rfl | rfl | rfl | rfl | rfl | rfl | rfl | rfl | rfl | rfl | rfl | rfl | rfl | rfl | rfl | rfl
  all_goals exact ⟨_, rfl, rfl⟩

/-- a name outside `Spec.zeroArgNames` is not a built-in of arity 0..0 in the generated table -/
theorem not_zeroArity {name : Str} (h : isZeroArg name = false) {oc : Opcode} {lo hi : Nat}
    (ho : Gen.opcodeAndArity name = some (oc, lo, hi)) : (lo = 0 && hi = 0) = false := by
  have key : ∀ r ∈ Gen.builtinTable, (r.2.2.1 = 0 && r.2.2.2 = 0) = true → isZeroArg r.1.toList = true := by
    decide
  unfold Gen.opcodeAndArity at ho
  obtain ⟨r, hr, hf⟩ := Option.map_eq_some_iff.1 ho
  have hm := List.mem_of_find?_eq_some hr
  have hp := List.find?_some hr
  have hn : r.1.toList = name := by simpa using hp
  subst hn
  have := key r hm
  rw [hf] at this
  cases hz : (decide (lo = 0) && decide (hi = 0))
  · rfl
  · rw [this hz] at h; cases h

/-! ## (b) the shape of the generated code -/

section codegen
open Basic.Codegen Basic.Link

/-- a fragment that is code only: no data, no symbols, no pending references -/
def plain (ops : Array Opcode) : Link := { ops := ops }

theorem plain_empty : ({} : Link) = plain #[] := rfl

theorem appended_plain (a : Link) (ops : Array Opcode) :
    appended a (plain ops) = { a with ops := a.ops ++ ops } := by
  cases a
  simp [appended, appendSymbols, appendUnlinked, appendWhiles, plain]

theorem appended_plain_plain (xs ys : Array Opcode) : appended (plain xs) (plain ys) = plain (xs ++ ys) := by
  rw [appended_plain]; rfl

/-! run lemmas on an explicit generator state -/

theorem popExpr_mk (v : Array VarItem) (pre : Array (Col × Link)) (x : Col × Link) (st : Array (Col × Link))
    (cur : Link) :
    (popExpr.run).run ⟨v, pre.push x, st, cur⟩ = (.ok x, ⟨v, pre, st, cur⟩) := by
  rw [popExpr_run _ pre x rfl]; rfl

theorem popVar_mk (pv : Array VarItem) (x : VarItem) (ex st : Array (Col × Link)) (cur : Link) :
    (popVar.run).run ⟨pv.push x, ex, st, cur⟩ = (.ok x, ⟨pv, ex, st, cur⟩) := by
  unfold popVar
  simp only [grun_bind, grun_get, Array.back?_push, grun_set, grun_pure, Array.pop_push]

theorem lappend_mk (v : Array VarItem) (ex st : Array (Col × Link)) (xs ys : Array Opcode)
    (h : xs.size + ys.size ≤ Gen.stackMaxLen) :
    ((lappend (plain ys)).run).run ⟨v, ex, st, plain xs⟩ = (.ok (), ⟨v, ex, st, plain (xs ++ ys)⟩) := by
  rw [lappend_run _ _ rfl (by simpa [plain] using h) (by simp [plain])]
  show (_, GState.mk v ex st (appended (plain xs) (plain ys))) = _
  rw [appended_plain_plain]

theorem lpush_mk (v : Array VarItem) (ex st : Array (Col × Link)) (xs : Array Opcode) (op : Opcode)
    (h : xs.size + 1 ≤ Gen.stackMaxLen) :
    ((lpush op).run).run ⟨v, ex, st, plain xs⟩ = (.ok (), ⟨v, ex, st, plain (xs.push op)⟩) := by
  rw [lpush_run _ _ (by simpa [plain] using h)]; rfl

/-- a successful generator function, as seen by the visitor -/
theorem visitExpression_mk (e : Expr) (errs : List Error) (v : Array VarItem) (ex st : Array (Col × Link))
    (cur : Link) (c : Col) (g' : GState)
    (h : ((genExpression e).run).run ⟨v, ex, st, {}⟩ = (.ok c, g')) :
    visitExpression e ⟨⟨v, ex, st, cur⟩, errs⟩ = ⟨⟨g'.var, g'.expr.push (c, g'.cur), g'.stmt, cur⟩, errs⟩ := by
  unfold visitExpression runFresh
  simp only [h]

theorem visitVariable_mk (x : Variable) (errs : List Error) (v : Array VarItem) (ex st : Array (Col × Link))
    (cur : Link) (r : Col × Str × Option Nat) (g' : GState)
    (h : ((genVariable x).run).run ⟨v, ex, st, {}⟩ = (.ok r, g')) :
    visitVariable x ⟨⟨v, ex, st, cur⟩, errs⟩ =
      ⟨⟨g'.var.push ⟨r.1, r.2.1, g'.cur, r.2.2⟩, g'.expr, g'.stmt, cur⟩, errs⟩ := by
  unfold visitVariable runFresh
  obtain ⟨c, n, l⟩ := r
  simp only [h]

theorem visitStatement_mk (x : Stmt) (errs : List Error) (v : Array VarItem) (ex st : Array (Col × Link))
    (cur : Link) (c : Col) (g' : GState)
    (h : ((genStatement x).run).run ⟨v, ex, st, {}⟩ = (.ok c, g')) :
    visitStatement x ⟨⟨v, ex, st, cur⟩, errs⟩ = ⟨⟨g'.var, g'.expr, g'.stmt.push (c, g'.cur), cur⟩, errs⟩ := by
  unfold visitStatement runFresh
  simp only [h]

theorem literal_run (c : Col) (op : Opcode) (v : Array VarItem) (ex st : Array (Col × Link)) :
    ((do lpush op; pure c : GM Col).run).run ⟨v, ex, st, {}⟩ = (.ok c, ⟨v, ex, st, plain [op].toArray⟩) := by
  rw [plain_empty, grun_bind, lpush_mk _ _ _ _ _ (by decide)]
  rfl

theorem unaryExpr_run (op : Opcode) (c c1 : Col) (v : Array VarItem) (pre st : Array (Col × Link))
    (xs : Array Opcode) (h : xs.size + 1 ≤ Gen.stackMaxLen) :
    ((unaryExpr op c).run).run ⟨v, pre.push (c1, plain xs), st, {}⟩ =
      (.ok (c.1, c1.2), ⟨v, pre, st, plain (xs.push op)⟩) := by
  unfold unaryExpr
  rw [grun_bind, popExpr_mk]; dsimp only
  rw [plain_empty, grun_bind, lappend_mk _ _ _ _ _ (by simp; omega)]; dsimp only
  rw [grun_bind, lpush_mk _ _ _ _ _ (by simpa using h)]; dsimp only
  rw [grun_pure, Array.empty_append]

theorem binaryExpr_run (op : Opcode) (cl cr : Col) (v : Array VarItem) (pre st : Array (Col × Link))
    (xs ys : Array Opcode) (h : xs.size + ys.size + 1 ≤ Gen.stackMaxLen) :
    ((binaryExpr op).run).run ⟨v, (pre.push (cl, plain xs)).push (cr, plain ys), st, {}⟩ =
      (.ok (cl.1, cr.2), ⟨v, pre, st, plain ((xs ++ ys).push op)⟩) := by
  unfold binaryExpr
  rw [grun_bind, popExpr_mk]; dsimp only
  rw [grun_bind, popExpr_mk]; dsimp only
  rw [plain_empty, grun_bind, lappend_mk _ _ _ _ _ (by simp; omega)]; dsimp only
  rw [grun_bind, lappend_mk _ _ _ _ _ (by simp; omega)]; dsimp only
  rw [grun_bind, lpush_mk _ _ _ _ _ (by simp; omega)]; dsimp only
  rw [grun_pure, Array.empty_append]

/-- a scalar variable read: `push name` -/
theorem pushAsExpression_scalar_run (c : Col) (name : Str) (hz : isZeroArg name = false)
    (pv : Array VarItem) (ex st : Array (Col × Link)) :
    ((pushAsExpression ⟨c, name, {}, none⟩).run).run ⟨pv, ex, st, {}⟩ =
      (.ok c, ⟨pv, ex, st, plain [Opcode.push name].toArray⟩) := by
  unfold pushAsExpression
  rw [plain_empty, grun_bind, lappend_mk _ _ _ _ _ (by decide)]; dsimp only
  have fin : ((do lpush (Opcode.push name); pure c : GM Col).run).run ⟨pv, ex, st, plain (#[] ++ #[])⟩ =
      (.ok c, ⟨pv, ex, st, plain [Opcode.push name].toArray⟩) := by
    rw [grun_bind, lpush_mk _ _ _ _ _ (by decide)]; rfl
  cases ho : Gen.opcodeAndArity name with
  | none =>
    dsimp only
    rw [grun_bind, grun_pure]; dsimp only
    simp only [Bool.false_eq_true, if_false]
    exact fin
  | some r =>
    obtain ⟨oc, lo, hi⟩ := r
    have := not_zeroArity hz ho
    dsimp only
    simp only [this, Bool.false_and, Bool.false_eq_true, if_false]
    rw [grun_bind, grun_pure]; dsimp only
    simp only [Bool.false_eq_true, if_false]
    exact fin

/-- a call of a one-argument built-in: the argument's code, then the function's opcode -/
theorem pushAsExpression_call_run (c : Col) (name : Str) (oc : Opcode)
    (ho : Gen.opcodeAndArity name = some (oc, 1, 1))
    (pv : Array VarItem) (ex st : Array (Col × Link)) (xs : Array Opcode) (h : xs.size + 1 ≤ Gen.stackMaxLen) :
    ((pushAsExpression ⟨c, name, plain xs, some 1⟩).run).run ⟨pv, ex, st, {}⟩ =
      (.ok c, ⟨pv, ex, st, plain (xs.push oc)⟩) := by
  unfold pushAsExpression
  rw [plain_empty, grun_bind, lappend_mk _ _ _ _ _ (by simp; omega)]; dsimp only
  simp only [ho, Array.empty_append]
  simp only [Nat.succ_ne_self, decide_false, Bool.false_and, Bool.false_eq_true, if_false,
    Nat.le_refl, decide_true, Bool.and_self, if_true, ne_eq, not_true_eq_false]
  rw [grun_bind, grun_bind, lpush_mk _ _ _ _ _ h]; dsimp only
  rw [grun_pure]; dsimp only
  simp only [if_true, grun_pure]

/-- the variable item of `F(e)`: the argument's fragment, one argument -/
theorem genVariable_call_run (c : Col) (i : TIdent) (e : Expr) (c1 : Col) (v : Array VarItem)
    (pre st : Array (Col × Link)) (xs : Array Opcode) (h : xs.size ≤ Gen.stackMaxLen) :
    ((genVariable (.array c i [e])).run).run ⟨v, pre.push (c1, plain xs), st, {}⟩ =
      (.ok (c, i.name, some 1), ⟨v, pre, st, plain xs⟩) := by
  unfold genVariable
  have hp := popNExpr_run ⟨v, pre.push (c1, plain xs), st, {}⟩ pre [(c1, plain xs)] (by simp)
  simp only [List.length_cons, List.length_nil, Nat.zero_add] at hp ⊢
  rw [grun_bind, hp]; dsimp only
  simp only [List.forIn_cons, List.forIn_nil, grun_bind, grun_pure]
  have hl : ((lappend (plain xs)).run).run
      (withExpr (⟨v, pre.push (c1, plain xs), st, {}⟩ : GState) pre) = (.ok (), ⟨v, pre, st, plain xs⟩) := by
    show ((lappend (plain xs)).run).run ⟨v, pre, st, plain #[]⟩ = _
    rw [lappend_mk _ _ _ _ _ (by simpa using h), Array.empty_append]
  rw [hl]
  rfl

/-- **Codegen shape.**  Visiting a tree of the fragment pushes exactly one entry on the expression
    stack: a fragment whose code is `flat e` and that has no data, no symbols, no pending references
    and no WHILE marks (`plain`); no error is reported; the variable and statement stacks and the
    fragment under construction are as before.  Bound: the code fits the code segment. -/
theorem acceptExpr_shape_mk {e : Expr} (hp : Pure e) :
    ∀ (v : Array VarItem) (ex st : Array (Col × Link)) (cur : Link) (errs : List Error),
      (flat e).length ≤ Gen.stackMaxLen →
      ∃ c, acceptExpr e ⟨⟨v, ex, st, cur⟩, errs⟩ = ⟨⟨v, ex.push (c, plain (flat e).toArray), st, cur⟩, errs⟩ := by
  induction hp with
  | single c b =>
    intro v ex st cur errs _
    refine ⟨c, ?_⟩
    simp only [acceptExpr]
    rw [visitExpression_mk (.single c b) errs v ex st cur c _ (literal_run c _ _ _ _)]
    rfl
  | double c b =>
    intro v ex st cur errs _
    refine ⟨c, ?_⟩
    simp only [acceptExpr]
    rw [visitExpression_mk (.double c b) errs v ex st cur c _ (literal_run c _ _ _ _)]
    rfl
  | integer c b =>
    intro v ex st cur errs _
    refine ⟨c, ?_⟩
    simp only [acceptExpr]
    rw [visitExpression_mk (.integer c b) errs v ex st cur c _ (literal_run c _ _ _ _)]
    rfl
  | string c b =>
    intro v ex st cur errs _
    refine ⟨c, ?_⟩
    simp only [acceptExpr]
    rw [visitExpression_mk (.string c b) errs v ex st cur c _ (literal_run c _ _ _ _)]
    rfl
  | scalar c i hz =>
    intro v ex st cur errs _
    refine ⟨c, ?_⟩
    simp only [acceptExpr, acceptVar]
    rw [visitVariable_mk (.unary c i) errs v ex st cur (c, i.name, none) _ (grun_pure _ _)]
    have hg : ((genExpression (.var (.unary c i))).run).run ⟨v.push ⟨c, i.name, {}, none⟩, ex, st, {}⟩ =
        (.ok c, ⟨v, ex, st, plain [Opcode.push i.name].toArray⟩) := by
      show (((popVar >>= fun v => pushAsExpression v : GM Col)).run).run _ = _
      rw [grun_bind, popVar_mk]; dsimp only
      exact pushAsExpression_scalar_run c i.name hz _ _ _
    rw [visitExpression_mk _ errs _ ex st cur c _ hg]
    rfl
  | call c i e hf _ ih =>
    intro v ex st cur errs hlen
    obtain ⟨f, hf⟩ := Option.isSome_iff_exists.1 hf
    obtain ⟨oc, ho, _⟩ := builtin1_spec hf
    have hflat : flat (.var (.array c i [e])) = flat e ++ [oc] := by simp only [flat, ho]
    rw [hflat] at hlen ⊢
    simp only [List.length_append, List.length_cons, List.length_nil] at hlen
    obtain ⟨c1, ih⟩ := ih v ex st cur errs (by omega)
    refine ⟨c, ?_⟩
    simp only [acceptExpr, acceptVar, acceptExprs]
    rw [ih]
    rw [visitVariable_mk (.array c i [e]) errs v _ st cur (c, i.name, some 1) _
      (genVariable_call_run c i e c1 _ _ _ _ (by simp; omega))]
    have hg : ((genExpression (.var (.array c i [e]))).run).run
        ⟨v.push ⟨c, i.name, plain (flat e).toArray, some 1⟩, ex, st, {}⟩ =
        (.ok c, ⟨v, ex, st, plain ((flat e).toArray.push oc)⟩) := by
      show (((popVar >>= fun v => pushAsExpression v : GM Col)).run).run _ = _
      rw [grun_bind, popVar_mk]; dsimp only
      exact pushAsExpression_call_run c i.name oc ho _ _ _ _ (by simp; omega)
    rw [visitExpression_mk _ errs _ ex st cur c _ hg]
    simp only [List.push_toArray]
  | neg c e _ ih =>
    intro v ex st cur errs hlen
    simp only [flat, List.length_append, List.length_cons, List.length_nil] at hlen
    obtain ⟨c1, ih⟩ := ih v ex st cur errs (by omega)
    refine ⟨(c.1, c1.2), ?_⟩
    simp only [acceptExpr]
    rw [ih]
    rw [visitExpression_mk (.neg c e) errs v _ st cur (c.1, c1.2) _
      (unaryExpr_run Gen.opcodeOfNegation c c1 _ _ _ _ (by simp; omega))]
    simp only [flat, List.push_toArray]
  | not c e _ ih =>
    intro v ex st cur errs hlen
    simp only [flat, List.length_append, List.length_cons, List.length_nil] at hlen
    obtain ⟨c1, ih⟩ := ih v ex st cur errs (by omega)
    refine ⟨(c.1, c1.2), ?_⟩
    simp only [acceptExpr]
    rw [ih]
    rw [visitExpression_mk (.not c e) errs v _ st cur (c.1, c1.2) _
      (unaryExpr_run Gen.opcodeOfNot c c1 _ _ _ _ (by simp; omega))]
    simp only [flat, List.push_toArray]
  | bin op c l r _ _ ihl ihr =>
    intro v ex st cur errs hlen
    simp only [flat, List.length_append, List.length_cons, List.length_nil] at hlen
    obtain ⟨cl, ihl⟩ := ihl v ex st cur errs (by omega)
    obtain ⟨cr, ihr⟩ := ihr v (ex.push (cl, plain (flat l).toArray)) st cur errs (by omega)
    refine ⟨(cl.1, cr.2), ?_⟩
    simp only [acceptExpr]
    rw [ihl, ihr]
    rw [visitExpression_mk (.bin op c l r) errs v _ st cur (cl.1, cr.2) _
      (binaryExpr_run (Gen.opcodeOfBinOp op) cl cr _ _ _ _ _ (by simp; omega))]
    simp only [flat, List.push_toArray, List.append_toArray]

theorem acceptExpr_shape {e : Expr} (hp : Pure e) (s : VState) (hlen : (flat e).length ≤ Gen.stackMaxLen) :
    ∃ c, acceptExpr e s = { s with g := { s.g with expr := s.g.expr.push (c, plain (flat e).toArray) } } := by
  obtain ⟨⟨v, ex, st, cur⟩, errs⟩ := s
  exact acceptExpr_shape_mk hp v ex st cur errs hlen

/-! ### LET and PRINT -/

theorem testForBuiltIn_scalar (c : Col) (name : Str) (l : Link) (hz : isZeroArg name = false) :
    testForBuiltIn ⟨c, name, l, none⟩ false = .ok () := by
  unfold testForBuiltIn
  cases ho : Gen.opcodeAndArity name with
  | none => rfl
  | some r =>
    obtain ⟨oc, lo, hi⟩ := r
    have := not_zeroArity hz ho
    simp [this]

theorem pushAsPop_scalar_run (c : Col) (name : Str) (l : Link) (hz : isZeroArg name = false)
    (pv : Array VarItem) (ex st : Array (Col × Link)) (xs : Array Opcode) (h : xs.size + 1 ≤ Gen.stackMaxLen) :
    ((pushAsPop ⟨c, name, l, none⟩).run).run ⟨pv, ex, st, plain xs⟩ =
      (.ok c, ⟨pv, ex, st, plain (xs.push (.pop name))⟩) := by
  unfold pushAsPop
  rw [grun_bind, testForBuiltIn_scalar c name l hz, grun_liftE]; dsimp only
  rw [grun_bind, lpush_mk _ _ _ _ _ h]; dsimp only
  rw [grun_pure]

/-- **`LET v = e`** with a scalar `v` that is not a zero-argument built-in (in particular: any name
    outside the built-in table) and `e` in the fragment: one statement fragment, code
    `flat e ++ [pop v]`, no data, symbols or references; nothing reported -/
theorem let_codegen_shape {e : Expr} (hp : Pure e) (c cv : Col) (i : TIdent) (hz : isZeroArg i.name = false)
    (s : VState) (hlen : (flat e).length + 1 ≤ Gen.stackMaxLen) :
    ∃ col, acceptStmt (.let c (.unary cv i) e) s =
      { s with g := { s.g with stmt := s.g.stmt.push (col, plain (flat e ++ [Opcode.pop i.name]).toArray) } } := by
  obtain ⟨⟨v, ex, st, cur⟩, errs⟩ := s
  simp only [acceptStmt, acceptVar]
  rw [visitVariable_mk (.unary cv i) errs v ex st cur (cv, i.name, none) _ (grun_pure _ _)]
  dsimp only
  obtain ⟨ce, he⟩ := acceptExpr_shape_mk hp (v.push ⟨cv, i.name, {}, none⟩) ex st cur errs (by omega)
  rw [he]
  have hg : ((genStatement (.let c (.unary cv i) e)).run).run
      ⟨v.push ⟨cv, i.name, {}, none⟩, ex.push (ce, plain (flat e).toArray), st, {}⟩ =
      (.ok (c.1, ce.2), ⟨v, ex, st, plain ((flat e).toArray.push (.pop i.name))⟩) := by
    simp only [genStatement]
    rw [grun_bind, popExpr_mk]; dsimp only
    rw [plain_empty, grun_bind, lappend_mk _ _ _ _ _ (by simp; omega)]; dsimp only
    rw [grun_bind, popVar_mk]; dsimp only
    rw [grun_bind, pushAsPop_scalar_run _ _ _ hz _ _ _ _ (by simp; omega)]; dsimp only
    rw [grun_pure, Array.empty_append]
  refine ⟨(c.1, ce.2), ?_⟩
  rw [visitStatement_mk _ errs _ _ st cur _ _ hg]
  simp only [List.push_toArray]

/-- **`PRINT e`** as the parser produces it (the item, then the newline item): code
    `flat e ++ [print, literal "\n", print]` -/
theorem print_codegen_shape {e : Expr} (hp : Pure e) (c cn : Col)
    (s : VState) (hlen : (flat e).length + 3 ≤ Gen.stackMaxLen) :
    ∃ col, acceptStmt (.print c [e, .string cn ['\n']]) s =
      { s with g := { s.g with
          stmt := s.g.stmt.push (col, plain (flat e ++ [Opcode.print, .literal (.str ['\n']), .print]).toArray) } } := by
  obtain ⟨⟨v, ex, st, cur⟩, errs⟩ := s
  simp only [acceptStmt, acceptExprs]
  obtain ⟨ce, he⟩ := acceptExpr_shape_mk hp v ex st cur errs (by omega)
  rw [he]
  obtain ⟨cn', hn⟩ := acceptExpr_shape_mk (.string cn ['\n']) v (ex.push (ce, plain (flat e).toArray)) st cur errs
    (by simp only [flat]; decide)
  rw [hn]
  have hg : ((genStatement (.print c [e, .string cn ['\n']])).run).run
      ⟨v, (ex.push (ce, plain (flat e).toArray)).push (cn', plain (flat (.string cn ['\n'])).toArray), st, {}⟩ =
      (.ok c, ⟨v, ex, st, plain ((((flat e).toArray.push .print) ++ #[Opcode.literal (.str ['\n'])]).push .print)⟩) := by
    simp only [genStatement]
    have hp2 := popNExpr_run
      ⟨v, (ex.push (ce, plain (flat e).toArray)).push (cn', plain (flat (.string cn ['\n'])).toArray), st, {}⟩ ex
      [(ce, plain (flat e).toArray), (cn', plain (flat (.string cn ['\n'])).toArray)] (by apply Array.ext'; simp)
    simp only [List.length_cons, List.length_nil, Nat.zero_add] at hp2 ⊢
    rw [grun_bind, hp2]; dsimp only
    simp only [List.forIn_cons, List.forIn_nil, grun_bind, grun_pure]
    have h1 : ((lappend (plain (flat e).toArray)).run).run
        (withExpr (⟨v, (ex.push (ce, plain (flat e).toArray)).push
          (cn', plain (flat (.string cn ['\n'])).toArray), st, {}⟩ : GState) ex) =
        (.ok (), ⟨v, ex, st, plain (flat e).toArray⟩) := by
      show ((lappend (plain (flat e).toArray)).run).run ⟨v, ex, st, plain #[]⟩ = _
      rw [lappend_mk _ _ _ _ _ (by simp; omega), Array.empty_append]
    rw [h1]; dsimp only
    rw [lpush_mk _ _ _ _ _ (by simp; omega)]; dsimp only
    simp only [grun_bind, flat]
    rw [lappend_mk _ _ _ _ _ (by simp; omega)]; dsimp only
    rw [lpush_mk _ _ _ _ _ (by simp; omega)]; dsimp only
    rfl
  refine ⟨c, ?_⟩
  rw [visitStatement_mk _ errs _ _ st cur _ _ hg]
  dsimp only
  congr 5
  apply Array.ext'
  simp

end codegen

/-! ## (c) running the code -/

section vm
open Basic.Runtime
open Basic.Lemmas.VmDispatch (vmBinary vmUnary step_binary_stack step_unary_stack rr_bind rr_pure rr_set rr_get
  rr_liftE_ok rr_liftE_error)
open Basic.Lemmas.C17 (run_pop_push run_push_room)

/-- the code segment `code` holds `ops` at address `pc` -/
def CodeAt (code : Array Opcode) (pc : Nat) (ops : List Opcode) : Prop :=
  ∀ k (h : k < ops.length), code[pc + k]? = some ops[k]

theorem CodeAt.left {code : Array Opcode} {pc : Nat} {a b : List Opcode} (h : CodeAt code pc (a ++ b)) :
    CodeAt code pc a := by
  intro k hk
  have := h k (by rw [List.length_append]; omega)
  rw [this, List.getElem_append_left hk]

theorem CodeAt.right {code : Array Opcode} {pc : Nat} {a b : List Opcode} (h : CodeAt code pc (a ++ b)) :
    CodeAt code (pc + a.length) b := by
  intro k hk
  have := h (a.length + k) (by rw [List.length_append]; omega)
  rw [Nat.add_assoc, this, List.getElem_append_right (by omega)]
  simp

theorem CodeAt.head {code : Array Opcode} {pc : Nat} {op : Opcode} {b : List Opcode} (h : CodeAt code pc (op :: b)) :
    code[pc]? = some op := by
  have := h 0 (by simp)
  simpa using this

theorem CodeAt.of_toList {code : Array Opcode} {pc : Nat} {ops : List Opcode} (h : CodeAt code pc ops) (n : Nat)
    (hn : n = ops.length) : ∀ k, k < n → code[pc + k]? = ops[k]? := by
  intro k hk
  subst hn
  rw [h k hk, List.getElem?_eq_getElem hk]

instance (code : Array Opcode) (pc : Nat) (ops : List Opcode) : Decidable (CodeAt code pc ops) :=
  decidable_of_iff (∀ k : Fin ops.length, code[pc + k.1]? = some ops[k.1])
    ⟨fun h k hk => h ⟨k, hk⟩, fun h k => h k.1 k.2⟩

/-- code that was placed after `pre` lies at address `pre.size` -/
theorem CodeAt.of_append (pre post : Array Opcode) (ops : List Opcode) :
    CodeAt (pre ++ ops.toArray ++ post) pre.size ops := by
  intro k hk
  rw [Array.getElem?_append_left (by simp; omega), Array.getElem?_append_right (by omega)]
  simp [hk]

/-- sequencing of step results: go on after `continue`, stop at an event or an error -/
def andThen (r : Except Error Step × Runtime) (k : Runtime → Except Error Step × Runtime) :
    Except Error Step × Runtime :=
  match r with
  | (.ok .continue, s') => k s'
  | (.ok (.event ev), s') => (.ok (.event ev), s')
  | (.error err, s') => (.error err, s')

/-- `n` iterations of `Runtime.step` (the body of `executeLoop`), stopping at the first result that is
    not `continue` -/
def runSteps (env : Env) (hie : Bool) : Nat → Runtime → Except Error Step × Runtime
  | 0, s => (.ok .continue, s)
  | n+1, s => andThen (((step env hie).run).run s) (runSteps env hie n)

/-- executing a piece of code: one `step` per opcode -/
def runOps (env : Env) (hie : Bool) (ops : List Opcode) (s : Runtime) : Except Error Step × Runtime :=
  runSteps env hie ops.length s

theorem andThen_assoc (r : Except Error Step × Runtime) (k1 k2 : Runtime → Except Error Step × Runtime) :
    andThen (andThen r k1) k2 = andThen r (fun s => andThen (k1 s) k2) := by
  obtain ⟨r, s⟩ := r
  cases r with
  | error e => rfl
  | ok st => cases st <;> rfl

theorem runSteps_add (env : Env) (hie : Bool) (a b : Nat) (s : Runtime) :
    runSteps env hie (a + b) s = andThen (runSteps env hie a s) (runSteps env hie b) := by
  induction a generalizing s with
  | zero => rw [Nat.zero_add]; rfl
  | succ a ih =>
    rw [Nat.succ_add]
    show andThen _ (runSteps env hie (a + b)) = andThen (andThen _ (runSteps env hie a)) _
    rw [andThen_assoc]
    congr 1
    funext s'
    exact ih s'

theorem runSteps_one (env : Env) (hie : Bool) (s : Runtime) :
    runSteps env hie 1 s = ((step env hie).run).run s := by
  show andThen _ _ = _
  rcases ((step env hie).run).run s with ⟨r, s'⟩
  cases r with
  | error e => rfl
  | ok st => cases st <;> rfl

/-- the error outcome is sticky: more iterations change nothing -/
theorem runSteps_error_mono (env : Env) (hie : Bool) (k n : Nat) (s s' s'' : Runtime) (err : Error)
    (hk : runSteps env hie k s = (.ok .continue, s'))
    (hs : ((step env hie).run).run s' = (.error err, s'')) (hn : k < n) :
    runSteps env hie n s = (.error err, s'') := by
  obtain ⟨m, rfl⟩ : ∃ m, n = k + (1 + m) := ⟨n - k - 1, by omega⟩
  rw [runSteps_add, hk]
  show runSteps env hie (1 + m) s' = _
  rw [runSteps_add, runSteps_one, hs]
  rfl

/-- `push name` (trace off): the variable's value is pushed; a failing read is the instruction's error -/
theorem run_step_push (env : Env) (hie : Bool) (s : Runtime) (name : Str)
    (htr : s.tron = false) (hop : s.program.link.ops[s.pc]? = some (.push name)) :
    ((step env hie).run).run s =
      match s.vars.fetch name with
      | .ok v => (if s.stack.size + 1 > Gen.stackMaxLen then .error stackOverflow else .ok .continue,
                  { s with pc := s.pc + 1, stack := s.stack.push v })
      | .error e => (.error e, { s with pc := s.pc + 1 }) := by
  unfold step
  simp only [run_bind, run_get, htr, Bool.false_eq_true, if_false, run_pure, hop, run_set, run_liftE]
  cases s.vars.fetch name with
  | error e => rfl
  | ok v =>
    by_cases hc : s.stack.size + 1 > Gen.stackMaxLen
    · simp only [run_push, hc, if_true]
    · simp only [run_push, hc, if_false]

set_option maxHeartbeats 2000000 in
/-- `step` on a one-argument function opcode (trace off): advance the pc, pop one, apply, push -/
theorem step_func1 (env : Env) (hie : Bool) (s : Runtime) (oc : Opcode) (f : Val → Res Val)
    (htr : s.tron = false) (hop : s.program.link.ops[s.pc]? = some oc) (hf : vmFunc1 oc = some f) :
    (step env hie).run.run s =
      ((do pop1Push f; pure Step.continue : RM Step).run.run { s with pc := s.pc + 1 }) := by
  cases oc <;> simp only [vmFunc1, reduceCtorEq, Option.some.injEq] at hf <;> subst hf <;>
  · unfold step
    simp only [rr_bind, rr_get, htr, Bool.false_eq_true, if_false, rr_pure, hop, rr_set]

theorem step_func1_stack (env : Env) (hie : Bool) (s : Runtime) (oc : Opcode)
    (f : Val → Res Val) (st : Array Val) (a : Val)
    (htr : s.tron = false) (hop : s.program.link.ops[s.pc]? = some oc) (hf : vmFunc1 oc = some f)
    (hst : s.stack = st.push a) (hroom : st.size + 1 ≤ Gen.stackMaxLen) :
    (step env hie).run.run s =
      match f a with
      | .ok v => (.ok .continue, { s with pc := s.pc + 1, stack := st.push v })
      | .error e => (.error e, { s with pc := s.pc + 1, stack := st }) := by
  rw [step_func1 env hie s oc f htr hop hf]
  simp only [pop1Push, rr_bind, run_pop_push a st { s with pc := s.pc + 1 } hst, rr_pure]
  cases hfa : f a with
  | ok v =>
    simp only [rr_liftE_ok]
    rw [run_push_room v _ hroom]
  | error e => simp only [rr_liftE_error]

/-- the first `n` steps from `s` all answer `continue`, and every state on the way is `s` except for
    `pc` (advanced by the number of steps made) and `stack`: variables, program, flags … untouched -/
def Quiet (env : Env) (hie : Bool) (n : Nat) (s : Runtime) : Prop :=
  ∀ j, j ≤ n → ∃ stk, runSteps env hie j s = (.ok .continue, { s with pc := s.pc + j, stack := stk })

theorem Quiet.zero (env : Env) (hie : Bool) (s : Runtime) : Quiet env hie 0 s := by
  intro j hj
  obtain rfl : j = 0 := by omega
  exact ⟨s.stack, rfl⟩

theorem Quiet.one {env : Env} {hie : Bool} {s : Runtime} {stk : Array Val}
    (h : ((step env hie).run).run s = (.ok .continue, { s with pc := s.pc + 1, stack := stk })) :
    Quiet env hie 1 s := by
  intro j hj
  rcases Nat.le_one_iff_eq_zero_or_eq_one.1 hj with rfl | rfl
  · exact ⟨s.stack, rfl⟩
  · exact ⟨stk, by rw [runSteps_one, h]⟩

theorem Quiet.append {env : Env} {hie : Bool} {a b : Nat} {s : Runtime} {stk : Array Val}
    (ha : Quiet env hie a s)
    (hrun : runSteps env hie a s = (.ok .continue, { s with pc := s.pc + a, stack := stk }))
    (hb : Quiet env hie b { s with pc := s.pc + a, stack := stk }) : Quiet env hie (a + b) s := by
  intro j hj
  by_cases h : j ≤ a
  · exact ha j h
  · obtain ⟨j', rfl⟩ : ∃ j', j = a + j' := ⟨j - a, by omega⟩
    obtain ⟨stk', h'⟩ := hb j' (by omega)
    refine ⟨stk', ?_⟩
    rw [runSteps_add, hrun, ← Nat.add_assoc]
    exact h'

/-- the code `ops`, located at `s.pc`, computes `r` from the state `s`:
    * `r = .ok v`: `ops.length` steps all answer `continue` and end in `s` with `v` pushed and `pc`
      advanced past the code — every other component of the state (variables included) as in `s`,
      at the end and at every step on the way (`Quiet`);
    * `r = .error err`: `k < ops.length` steps answer `continue` (again `Quiet`), the next one fails
      with exactly `err`; before and after the failing step the state differs from `s` in `pc` and
      `stack` only. -/
def Computes (env : Env) (hie : Bool) (ops : List Opcode) (s : Runtime) : Res Val → Prop
  | .ok v => Quiet env hie ops.length s ∧ runSteps env hie ops.length s =
      (.ok .continue, { s with pc := s.pc + ops.length, stack := s.stack.push v })
  | .error err => ∃ (k : Nat) (stk stk' : Array Val), k < ops.length ∧ Quiet env hie k s ∧
      runSteps env hie k s = (.ok .continue, { s with pc := s.pc + k, stack := stk }) ∧
      ((step env hie).run).run { s with pc := s.pc + k, stack := stk } =
        (.error err, { s with pc := s.pc + k + 1, stack := stk' })

/-- what a one-operand instruction does on a stack `st, a` -/
def Unary1 (env : Env) (hie : Bool) (oc : Opcode) (f : Val → Res Val) : Prop :=
  ∀ (s1 : Runtime) (st : Array Val) (a : Val), s1.tron = false → s1.program.link.ops[s1.pc]? = some oc →
    s1.stack = st.push a → st.size + 1 ≤ Gen.stackMaxLen →
    ((step env hie).run).run s1 =
      match f a with
      | .ok v => (.ok .continue, { s1 with pc := s1.pc + 1, stack := st.push v })
      | .error e => (.error e, { s1 with pc := s1.pc + 1, stack := st })

theorem Computes.unary {env : Env} {hie : Bool} {ops : List Opcode} {s : Runtime} {r : Res Val}
    (oc : Opcode) (f : Val → Res Val) (hc : Computes env hie ops s r) (hstep : Unary1 env hie oc f)
    (htr : s.tron = false) (hop : s.program.link.ops[s.pc + ops.length]? = some oc)
    (hroom : s.stack.size + 1 ≤ Gen.stackMaxLen) :
    Computes env hie (ops ++ [oc]) s (r >>= f) := by
  cases r with
  | error err =>
    obtain ⟨k, stk, stk', hk, hq, h1, h2⟩ := hc
    exact ⟨k, stk, stk', by rw [List.length_append]; omega, hq, h1, h2⟩
  | ok a =>
    have hs := hstep { s with pc := s.pc + ops.length, stack := s.stack.push a } s.stack a htr hop rfl hroom
    obtain ⟨hq, hc'⟩ : Quiet env hie ops.length s ∧ runSteps env hie ops.length s =
        (.ok .continue, { s with pc := s.pc + ops.length, stack := s.stack.push a }) := hc
    show Computes env hie (ops ++ [oc]) s (f a)
    cases hf : f a with
    | ok v =>
      rw [hf] at hs
      show Quiet env hie (ops ++ [oc]).length s ∧ runSteps env hie (ops ++ [oc]).length s = _
      rw [List.length_append, List.length_singleton]
      refine ⟨Quiet.append hq hc' (Quiet.one hs), ?_⟩
      rw [runSteps_add, hc']
      show runSteps env hie 1 _ = _
      rw [runSteps_one, hs]
      rfl
    | error e =>
      rw [hf] at hs
      exact ⟨ops.length, s.stack.push a, s.stack, by simp, hq, hc', hs⟩

theorem Computes.binary {env : Env} {hie : Bool} {opsl opsr : List Opcode} {s : Runtime} {ra rb : Res Val}
    (oc : Opcode) (f : Val → Val → Res Val) (hl : Computes env hie opsl s ra)
    (hr : ∀ a, ra = .ok a →
      Computes env hie opsr { s with pc := s.pc + opsl.length, stack := s.stack.push a } rb)
    (hf : vmBinary oc = some f) (htr : s.tron = false)
    (hop : s.program.link.ops[s.pc + opsl.length + opsr.length]? = some oc)
    (hroom : s.stack.size + 1 ≤ Gen.stackMaxLen) :
    Computes env hie (opsl ++ opsr ++ [oc]) s (do let a ← ra; let b ← rb; f a b) := by
  cases ra with
  | error err =>
    obtain ⟨k, stk, stk', hk, hq, h1, h2⟩ := hl
    exact ⟨k, stk, stk', by simp only [List.length_append]; omega, hq, h1, h2⟩
  | ok a =>
    obtain ⟨hql, hl'⟩ : Quiet env hie opsl.length s ∧ runSteps env hie opsl.length s =
        (.ok .continue, { s with pc := s.pc + opsl.length, stack := s.stack.push a }) := hl
    have hr' := hr a rfl
    cases rb with
    | error err =>
      obtain ⟨k, stk, stk', hk, hq, h1, h2⟩ := hr'
      refine ⟨opsl.length + k, stk, stk', by simp only [List.length_append]; omega,
        Quiet.append hql hl' hq, ?_, ?_⟩
      · rw [runSteps_add, hl', ← Nat.add_assoc]
        exact h1
      · rw [← Nat.add_assoc]
        exact h2
    | ok b =>
      obtain ⟨hqr, hr''⟩ : Quiet env hie opsr.length { s with pc := s.pc + opsl.length, stack := s.stack.push a } ∧
          runSteps env hie opsr.length { s with pc := s.pc + opsl.length, stack := s.stack.push a } =
          (.ok .continue, { s with pc := s.pc + opsl.length + opsr.length, stack := (s.stack.push a).push b }) := hr'
      have hs := step_binary_stack env hie
        { s with pc := s.pc + opsl.length + opsr.length, stack := (s.stack.push a).push b } oc f s.stack a b
        htr hop hf rfl hroom
      have hrun : runSteps env hie (opsl.length + opsr.length) s =
          (.ok .continue, { s with pc := s.pc + (opsl.length + opsr.length), stack := (s.stack.push a).push b }) := by
        rw [runSteps_add, hl', ← Nat.add_assoc]
        exact hr''
      have hq : Quiet env hie (opsl.length + opsr.length) s := Quiet.append hql hl' hqr
      rw [← Nat.add_assoc] at hrun
      show Computes env hie (opsl ++ opsr ++ [oc]) s (f a b)
      cases hfab : f a b with
      | ok v =>
        rw [hfab] at hs
        show Quiet env hie (opsl ++ opsr ++ [oc]).length s ∧ runSteps env hie (opsl ++ opsr ++ [oc]).length s = _
        rw [List.length_append, List.length_append, List.length_singleton]
        have hrun' := hrun
        rw [Nat.add_assoc] at hrun'
        refine ⟨Quiet.append hq hrun' (by rw [← Nat.add_assoc]; exact Quiet.one hs), ?_⟩
        rw [runSteps_add, hrun]
        show runSteps env hie 1 _ = _
        rw [runSteps_one, hs]
        simp only [Nat.add_assoc]
      | error e =>
        rw [hfab] at hs
        refine ⟨opsl.length + opsr.length, (s.stack.push a).push b, s.stack,
          by simp only [List.length_append, List.length_singleton]; omega, hq, ?_, ?_⟩
        · rw [hrun, Nat.add_assoc]
        · rw [← Nat.add_assoc]; exact hs

theorem unary1_of_vmUnary (env : Env) (hie : Bool) {oc : Opcode} {f : Val → Res Val} (hf : vmUnary oc = some f) :
    Unary1 env hie oc f :=
  fun s1 st a htr hop hst hroom => step_unary_stack env hie s1 oc f st a htr hop hf hst hroom

theorem unary1_of_vmFunc1 (env : Env) (hie : Bool) {oc : Opcode} {f : Val → Res Val} (hf : vmFunc1 oc = some f) :
    Unary1 env hie oc f :=
  fun s1 st a htr hop hst hroom => step_func1_stack env hie s1 oc f st a htr hop hf hst hroom

theorem vmBinary_opcodeOfBinOp (op : BinOp) : vmBinary (Gen.opcodeOfBinOp op) = some (meaningOf op) := by
  cases op <;> rfl

theorem computes_literal (env : Env) (hie : Bool) (s : Runtime) (v : Val)
    (hcode : CodeAt s.program.link.ops s.pc [.literal v]) (htr : s.tron = false)
    (hroom : s.stack.size + 1 ≤ Gen.stackMaxLen) :
    Computes env hie [.literal v] s (.ok v) := by
  have hs := run_step_literal env hie s v htr hcode.head
  rw [if_neg (by omega)] at hs
  exact ⟨Quiet.one hs, by show runSteps env hie 1 s = _; rw [runSteps_one, hs]; rfl⟩

/-- **the code of a tree computes the tree's value** (both outcomes, see `Computes`) -/
theorem flat_computes (env : Env) (hie : Bool) {e : Expr} (hp : Pure e) :
    ∀ (s : Runtime), CodeAt s.program.link.ops s.pc (flat e) → s.tron = false →
      s.stack.size + (flat e).length ≤ Gen.stackMaxLen →
      Computes env hie (flat e) s (eval s.vars e) := by
  induction hp with
  | single c b => intro s hcode htr hroom; exact computes_literal env hie s _ hcode htr hroom
  | double c b => intro s hcode htr hroom; exact computes_literal env hie s _ hcode htr hroom
  | integer c b => intro s hcode htr hroom; exact computes_literal env hie s _ hcode htr hroom
  | string c b => intro s hcode htr hroom; exact computes_literal env hie s _ hcode htr hroom
  | scalar c i hz =>
    intro s hcode htr hroom
    simp only [flat, List.length_singleton] at hcode hroom ⊢
    have hs := run_step_push env hie s i.name htr hcode.head
    simp only [eval]
    cases hf : s.vars.fetch i.name with
    | ok v =>
      rw [hf, if_neg (by omega)] at hs
      exact ⟨Quiet.one hs, by show runSteps env hie 1 s = _; rw [runSteps_one, hs]; rfl⟩
    | error err =>
      rw [hf] at hs
      exact ⟨0, s.stack, s.stack, by simp, Quiet.zero env hie s, rfl, hs⟩
  | call c i e hf _ ih =>
    intro s hcode htr hroom
    obtain ⟨f, hf⟩ := Option.isSome_iff_exists.1 hf
    obtain ⟨oc, ho, hvm⟩ := builtin1_spec hf
    have hflat : flat (.var (.array c i [e])) = flat e ++ [oc] := by simp only [flat, ho]
    have heval : eval s.vars (.var (.array c i [e])) = (eval s.vars e >>= f) := by simp only [eval, hf]
    rw [hflat] at hcode hroom ⊢
    rw [heval]
    simp only [List.length_append, List.length_singleton] at hroom
    exact Computes.unary oc f (ih s hcode.left htr (by omega)) (unary1_of_vmFunc1 env hie hvm) htr
      hcode.right.head (by omega)
  | neg c e _ ih =>
    intro s hcode htr hroom
    simp only [flat, eval] at hcode hroom ⊢
    simp only [List.length_append, List.length_singleton] at hroom
    exact Computes.unary _ _ (ih s hcode.left htr (by omega)) (unary1_of_vmUnary env hie rfl) htr
      hcode.right.head (by omega)
  | not c e _ ih =>
    intro s hcode htr hroom
    simp only [flat, eval] at hcode hroom ⊢
    simp only [List.length_append, List.length_singleton] at hroom
    exact Computes.unary _ _ (ih s hcode.left htr (by omega)) (unary1_of_vmUnary env hie rfl) htr
      hcode.right.head (by omega)
  | bin op c l r _ _ ihl ihr =>
    intro s hcode htr hroom
    simp only [flat, eval] at hcode hroom ⊢
    simp only [List.length_append, List.length_singleton] at hroom
    refine Computes.binary _ _ (ihl s hcode.left.left htr (by omega)) ?_ (vmBinary_opcodeOfBinOp op) htr ?_ (by omega)
    · intro a _
      exact ihr { s with pc := s.pc + (flat l).length, stack := s.stack.push a } hcode.left.right htr
        (by simp only [Array.size_push]; omega)
    · have := hcode.right.head
      rw [List.length_append, ← Nat.add_assoc] at this
      exact this

/-- the outcome of running the code `ops` (located at `s.pc`) against an expected result `r`, spelled
    out without auxiliary notions:
    * `r = .ok v`: every one of the `ops.length` steps answers `continue`; the final state is `s`
      with `pc` advanced past the code and `v` pushed — all else, in particular `vars`, as in `s`;
      and `vars` is as in `s` after each step on the way;
    * `r = .error err`: some `k < ops.length` steps answer `continue` (with `vars` as in `s` all
      along), the next `step` fails with exactly `err`, `vars` still as in `s`; running all of `ops`
      reports that error. -/
def Evaluates (env : Env) (hie : Bool) (ops : List Opcode) (s : Runtime) (r : Res Val) : Prop :=
  (∀ v, r = .ok v →
    runOps env hie ops s = (.ok .continue, { s with pc := s.pc + ops.length, stack := s.stack.push v }) ∧
    ∀ j, j ≤ ops.length → ∃ sj, runSteps env hie j s = (.ok .continue, sj) ∧ sj.vars = s.vars) ∧
  (∀ err, r = .error err →
    ∃ (k : Nat) (s' s'' : Runtime), k < ops.length ∧
      runSteps env hie k s = (.ok .continue, s') ∧
      ((step env hie).run).run s' = (.error err, s'') ∧
      s''.vars = s.vars ∧
      (∀ j, j ≤ k → ∃ sj, runSteps env hie j s = (.ok .continue, sj) ∧ sj.vars = s.vars) ∧
      runOps env hie ops s = (.error err, s''))

theorem Quiet.vars {env : Env} {hie : Bool} {n : Nat} {s : Runtime} (h : Quiet env hie n s) :
    ∀ j, j ≤ n → ∃ sj, runSteps env hie j s = (.ok .continue, sj) ∧ sj.vars = s.vars := by
  intro j hj
  obtain ⟨stk, h⟩ := h j hj
  exact ⟨_, h, rfl⟩

theorem Computes.evaluates {env : Env} {hie : Bool} {ops : List Opcode} {s : Runtime} {r : Res Val}
    (h : Computes env hie ops s r) : Evaluates env hie ops s r := by
  constructor
  · intro v hv
    subst hv
    exact ⟨h.2, h.1.vars⟩
  · intro err he
    subst he
    obtain ⟨k, stk, stk', hk, hq, h1, h2⟩ := h
    exact ⟨k, _, _, hk, h1, h2, rfl, hq.vars, runSteps_error_mono env hie k _ s _ _ err h1 h2 hk⟩

/-- **VM run.**  The code `flat e` of a tree of the fragment, located at `s.pc` in the code segment,
    trace off, with room on the stack for `(flat e).length` more values (a crude bound: the code never
    holds more than that many values at once), evaluates to `Spec.eval s.vars e`: see `Evaluates`.
    `hie` (the "program has compile errors" flag consulted by `jump`) is arbitrary. -/
theorem flat_correct (env : Env) (hie : Bool) {e : Expr} (hp : Pure e) (s : Runtime)
    (hcode : CodeAt s.program.link.ops s.pc (flat e)) (htr : s.tron = false)
    (hroom : s.stack.size + (flat e).length ≤ 65535) :
    Evaluates env hie (flat e) s (eval s.vars e) :=
  (flat_computes env hie hp s hcode htr hroom).evaluates

/-- **(b) and (c) composed.**  Whatever the visitor state `vs`, compiling a tree of the fragment adds
    exactly one expression fragment and reports nothing; and wherever that fragment's code lies in the
    code segment of a runtime `s` (trace off, room on the stack), running it from there evaluates to
    `Spec.eval s.vars e`. -/
theorem compileExpr_correct (env : Env) (hie : Bool) {e : Expr} (hp : Pure e) (vs : Codegen.VState)
    (hlen : (flat e).length ≤ 65535) :
    ∃ (c : Col) (frag : Link),
      (Codegen.acceptExpr e vs).g.expr = vs.g.expr.push (c, frag) ∧
      (Codegen.acceptExpr e vs).errors = vs.errors ∧
      ∀ (s : Runtime), CodeAt s.program.link.ops s.pc frag.ops.toList → s.tron = false →
        s.stack.size + frag.ops.size ≤ 65535 →
        Evaluates env hie frag.ops.toList s (eval s.vars e) := by
  obtain ⟨c, h⟩ := acceptExpr_shape hp vs hlen
  refine ⟨c, plain (flat e).toArray, by rw [h], by rw [h], ?_⟩
  intro s hcode htr hroom
  have e1 : (plain (flat e).toArray).ops.toList = flat e := by simp [plain]
  have e2 : (plain (flat e).toArray).ops.size = (flat e).length := by simp [plain]
  rw [e1] at hcode ⊢
  rw [e2] at hroom
  exact flat_correct env hie hp s hcode htr hroom

/-- running the code of `LET v = e` (`flat e ++ [pop v]`): the value of `e` is stored into `v` by
    `Var.store`; the stack ends as it began; a failing store is the statement's error -/
theorem let_run (env : Env) (hie : Bool) {e : Expr} (hp : Pure e) (name : Str) (s : Runtime)
    (hcode : CodeAt s.program.link.ops s.pc (flat e ++ [Opcode.pop name])) (htr : s.tron = false)
    (hroom : s.stack.size + (flat e).length ≤ 65535) (v : Val) (hv : eval s.vars e = .ok v) :
    runOps env hie (flat e ++ [Opcode.pop name]) s =
      match s.vars.store name v with
      | .ok vars' => (.ok .continue, { s with pc := s.pc + ((flat e).length + 1), vars := vars' })
      | .error err => (.error err, { s with pc := s.pc + ((flat e).length + 1) }) := by
  have h := flat_computes env hie hp s hcode.left htr hroom
  rw [hv] at h
  have hrun : runSteps env hie (flat e).length s = _ := h.2
  have hs := run_step_pop env hie { s with pc := s.pc + (flat e).length, stack := s.stack.push v } name s.stack v
    htr hcode.right.head rfl
  show runSteps env hie (flat e ++ [Opcode.pop name]).length s = _
  rw [List.length_append, List.length_singleton, runSteps_add, hrun]
  show runSteps env hie 1 _ = _
  rw [runSteps_one, hs]
  cases s.vars.store name v <;> rfl

/-- **`LET v = e`, compiled and run.**  The statement compiles to exactly one statement fragment and
    reports nothing; wherever that fragment's code lies in the code segment of a runtime `s` (trace
    off, room on the stack), if `e` evaluates to `v` and `Var.store` accepts it, running the code ends
    in `s` with the variable stored and `pc` past the code: the stack is as it was found. -/
theorem compileLet_correct (env : Env) (hie : Bool) {e : Expr} (hp : Pure e) (c cv : Col) (i : TIdent)
    (hz : isZeroArg i.name = false) (vs : Codegen.VState) (hlen : (flat e).length + 1 ≤ 65535) :
    ∃ (col : Col) (frag : Link),
      (Codegen.acceptStmt (.let c (.unary cv i) e) vs).g.stmt = vs.g.stmt.push (col, frag) ∧
      (Codegen.acceptStmt (.let c (.unary cv i) e) vs).errors = vs.errors ∧
      frag.ops = (flat e ++ [Opcode.pop i.name]).toArray ∧
      ∀ (s : Runtime), CodeAt s.program.link.ops s.pc frag.ops.toList → s.tron = false →
        s.stack.size + frag.ops.size ≤ 65535 →
        ∀ (v : Val) (vars' : Var), eval s.vars e = .ok v → s.vars.store i.name v = .ok vars' →
          runOps env hie frag.ops.toList s =
            (.ok .continue, { s with pc := s.pc + frag.ops.size, vars := vars' }) := by
  obtain ⟨col, h⟩ := let_codegen_shape hp c cv i hz vs hlen
  refine ⟨col, plain (flat e ++ [Opcode.pop i.name]).toArray, by rw [h], by rw [h], rfl, ?_⟩
  intro s hcode htr hroom v vars' hv hst
  have e1 : (plain (flat e ++ [Opcode.pop i.name]).toArray).ops.toList = flat e ++ [Opcode.pop i.name] := by
    simp [plain]
  have e2 : (plain (flat e ++ [Opcode.pop i.name]).toArray).ops.size = (flat e).length + 1 := by simp [plain]
  rw [e1] at hcode ⊢
  rw [e2] at hroom ⊢
  rw [let_run env hie hp i.name s hcode htr (by omega) v hv, hst]

end vm

end Lemmas.ExprCompile
end Basic
