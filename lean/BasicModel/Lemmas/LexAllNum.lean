import BasicModel.Lemmas.LexStable
import BasicModel.Lemmas.LexTrail
/-
  C05 for ALL strings, part 1: `number()` is idempotent on its own output.

  Whatever `number()` returns for an arbitrary text, the text of that token — followed by anything
  the scanner stops at — is scanned back to the same token (`number_rerun`), and the character the
  scanner stopped at in the original text is such a character (`NumStop`).
-/
set_option linter.unusedSimpArgs false
set_option linter.unusedVariables false
namespace Basic
namespace Lex

/-! ### one step of `number()` as a decision -/

inductive NumDec where
  | cont (ex : Bool) | stop | push
deriving DecidableEq

/-- what `number()` does after consuming `ch` (not a type suffix) and peeking `pk` -/
def numDecide (ch pk : Char) (dec ex : Bool) : NumDec :=
  if ch = 'E' || ch = 'D' then
    if pk = '+' || pk = '-' then .cont true
    else if !isDigit pk then .push else .cont true
  else if isDigit pk then .cont ex
  else if !ex && !dec && pk = '.' then .cont ex
  else if !ex && (pk = 'E' || pk = 'e' || pk = 'D' || pk = 'd') then .cont ex
  else if pk = '!' || pk = '#' || pk = '%' then .cont ex
  else .stop

theorem numberLoop_step (ch0 pk : Char) (tl : List Char) (s : Str) (dg : Nat) (dec ex : Bool)
    (h1 : foldED ch0 ≠ '!') (h2 : foldED ch0 ≠ '#') (h3 : foldED ch0 ≠ '%') :
    numberLoop (ch0 :: pk :: tl) s dg dec ex =
      match numDecide (foldED ch0) pk (dec || foldED ch0 = '.') ex with
      | .cont ex' => numberLoop (pk :: tl) (s ++ [foldED ch0]) (numDigits ex (foldED ch0) dg)
          (dec || foldED ch0 = '.') ex'
      | .stop => (numberFinish (s ++ [foldED ch0]) (numDigits ex (foldED ch0) dg) (dec || foldED ch0 = '.') ex,
          pk :: tl)
      | .push => (numberFinish (s ++ [foldED ch0]).dropLast
          (if foldED ch0 = 'D' then numDigits ex (foldED ch0) dg - 8 else numDigits ex (foldED ch0) dg)
          (dec || foldED ch0 = '.') false, foldED ch0 :: pk :: tl) := by
  rw [numberLoop_cons]
  simp only [h1, h2, h3, if_false, numDecide]
  repeat' split
  all_goals first | rfl | simp_all

theorem numberLoop_last (ch0 : Char) (s : Str) (dg : Nat) (dec ex : Bool)
    (h1 : foldED ch0 ≠ '!') (h2 : foldED ch0 ≠ '#') (h3 : foldED ch0 ≠ '%') :
    numberLoop [ch0] s dg dec ex =
      (numberFinish (s ++ [foldED ch0]) (numDigits ex (foldED ch0) dg) (dec || foldED ch0 = '.') ex, []) := by
  rw [numberLoop_cons]
  simp only [h1, h2, h3, if_false]

theorem numberLoop_sfx (ch0 : Char) (rest : List Char) (s : Str) (dg : Nat) (dec ex : Bool)
    (h : isNumSuffix (foldED ch0) = true) :
    numberLoop (ch0 :: rest) s dg dec ex = (.literal (suffixLiteral (foldED ch0) (s ++ [foldED ch0])), rest) := by
  rw [numberLoop_cons]
  rw [isNumSuffix_iff] at h
  rcases h with h | h | h <;> rw [h] <;> simp [suffixLiteral]

/-! ### the rerun theorem -/

def numTok (t : Token) (s : Str) : Prop :=
  t = .literal (.single s) ∨ t = .literal (.double s) ∨ t = .literal (.integer s)

theorem numberFinish_numTok (s : Str) (dg : Nat) (dec ex : Bool) : numTok (numberFinish s dg dec ex) s := by
  unfold numberFinish numTok
  split
  · exact Or.inr (Or.inl rfl)
  split
  · exact Or.inr (Or.inr rfl)
  · exact Or.inl rfl

theorem suffixLiteral_numTok (c : Char) (s : Str) : numTok (.literal (suffixLiteral c s)) s := by
  unfold suffixLiteral numTok
  split
  · exact Or.inl rfl
  split
  · exact Or.inr (Or.inl rfl)
  · exact Or.inr (Or.inr rfl)

/-- the configuration in which `number()` un-reads an exponent letter -/
def PB (cs : List Char) : Prop :=
  ∃ e x r, cs = e :: x :: r ∧ (foldED e = 'E' ∨ foldED e = 'D') ∧ x ≠ '+' ∧ x ≠ '-' ∧ isDigit x = false

/-- what may follow the text `u` of a numeral for it to be scanned back: nothing; anything after a type
    suffix; otherwise a character `number()` always stops at, and `u` must not end in an exponent letter -/
def NumBnd (u : Str) : Option Char → Prop
  | none => True
  | some c => (∃ l, u.getLast? = some l ∧ isNumSuffix l = true) ∨
      (numCont false false c = false ∧ ∀ l, u.getLast? = some l → l ≠ 'E' ∧ l ≠ 'D')

/-- what `number()` leaves behind -/
def NumStop (u : Str) (cs' : List Char) : Prop :=
  ∀ c ∈ cs'.head?, (∀ l, u.getLast? = some l → l ≠ 'E' ∧ l ≠ 'D') ∧
    ((∃ l, u.getLast? = some l ∧ isNumSuffix l = true) ∨ isAlpha c = true ∨
      (isDigit c = false ∧ isNumSuffix c = false))

theorem numDecide_foldED (ch pk : Char) (dec ex : Bool) :
    numDecide ch (foldED pk) dec ex = numDecide ch pk dec ex := by
  unfold foldED
  split
  · rename_i h; subst h; simp [numDecide, isDigit]
  split
  · rename_i h; subst h; simp [numDecide, isDigit]
  · rfl

theorem numDecide_stop (ch c : Char) (dec ex : Bool) (h1 : ch ≠ 'E') (h2 : ch ≠ 'D')
    (hc : numCont false false c = false) : numDecide ch c dec ex = .stop := by
  simp only [numCont, Bool.or_eq_false_iff, Bool.and_eq_false_iff, Bool.not_false, Bool.true_and,
    decide_eq_false_iff_not] at hc
  obtain ⟨⟨⟨hd, hdot⟩, ⟨⟨⟨he1, he2⟩, he3⟩, he4⟩⟩, ⟨⟨hs1, hs2⟩, hs3⟩⟩ := hc
  simp [numDecide, h1, h2, hd, hdot, he1, he2, he3, he4, hs1, hs2, hs3]

theorem foldED_ne_of_ne (c k : Char) (hk : k ≠ 'E') (hk' : k ≠ 'D') (hke : k ≠ 'e') (hkd : k ≠ 'd') :
    (foldED c = k) = (c = k) := by
  unfold foldED
  split
  · rename_i h; subst h; simp [hk.symm, hke.symm]
  split
  · rename_i h; subst h; simp [hk'.symm, hkd.symm]
  · rfl

theorem numDecide_stop_inv (ch pk : Char) (dec ex : Bool) (h : numDecide ch pk dec ex = .stop) :
    ch ≠ 'E' ∧ ch ≠ 'D' ∧ isDigit pk = false ∧ isNumSuffix pk = false := by
  unfold numDecide at h
  split at h
  · split at h
    · cases h
    · split at h <;> cases h
  · rename_i hED
    split at h
    · cases h
    rename_i hd
    split at h
    · cases h
    split at h
    · cases h
    split at h
    · cases h
    rename_i hs
    simp only [Bool.or_eq_true, decide_eq_true_eq, not_or] at hED hs
    refine ⟨hED.1, hED.2, by simpa using hd, ?_⟩
    simp [isNumSuffix, hs.1.1, hs.1.2, hs.2]

theorem numDecide_push_inv (ch pk : Char) (dec ex : Bool) (h : numDecide ch pk dec ex = .push) :
    (ch = 'E' ∨ ch = 'D') ∧ pk ≠ '+' ∧ pk ≠ '-' ∧ isDigit pk = false := by
  unfold numDecide at h
  split at h
  · rename_i hED
    split at h
    · cases h
    rename_i hsg
    split at h
    · rename_i hd
      simp only [Bool.or_eq_true, decide_eq_true_eq, not_or] at hED hsg
      exact ⟨hED, hsg.1, hsg.2, by simpa using hd⟩
    · cases h
  · split at h
    · cases h
    split at h
    · cases h
    split at h
    · cases h
    split at h <;> cases h

theorem isDigit_foldED (c : Char) : isDigit (foldED c) = isDigit c := by
  unfold foldED
  split
  · rename_i h; subst h; decide
  split
  · rename_i h; subst h; decide
  · rfl

theorem numDecide_cont_ED (ch pk : Char) (dec ex ex' : Bool) (h : numDecide ch pk dec ex = .cont ex')
    (hE : foldED pk = 'E' ∨ foldED pk = 'D') : ch ≠ 'E' ∧ ch ≠ 'D' ∧ ex = false ∧ ex' = false := by
  have hd : isDigit pk = false := by
    rw [← isDigit_foldED]; rcases hE with e | e <;> rw [e] <;> decide
  have hsg : pk ≠ '+' ∧ pk ≠ '-' ∧ pk ≠ '.' ∧ pk ≠ '!' ∧ pk ≠ '#' ∧ pk ≠ '%' := by
    refine ⟨?_, ?_, ?_, ?_, ?_, ?_⟩ <;>
      (intro h; subst h; rcases hE with e | e <;> exact absurd e (by decide))
  unfold numDecide at h
  split at h
  · simp only [hsg.1, hsg.2.1, hd, decide_false, Bool.or_false, Bool.false_eq_true, if_false,
      Bool.not_false, if_true] at h
    cases h
  · rename_i hED
    simp only [Bool.or_eq_true, decide_eq_true_eq, not_or] at hED
    simp only [hd, Bool.false_eq_true, if_false, hsg.2.2.1, decide_false, Bool.and_false,
      hsg.2.2.2.1, hsg.2.2.2.2.1, hsg.2.2.2.2.2, Bool.or_false] at h
    split at h
    · rename_i hc
      cases h
      simp only [Bool.and_eq_true, Bool.not_eq_true'] at hc
      exact ⟨hED.1, hED.2, hc.1, hc.1⟩
    · cases h

theorem getLast?_cons_ne {α} (a : α) (l : List α) (h : l ≠ []) : (a :: l).getLast? = l.getLast? := by
  cases l with
  | nil => contradiction
  | cons b l => simp [List.getLast?_cons_cons]

/-- the decision taken at a stop, replayed on the token's own text -/
theorem numberLoop_rerun_one (ch : Char) (hf : foldED ch = ch) (hns : isNumSuffix ch = false)
    (s : Str) (dg : Nat) (dec ex : Bool) (rest : List Char) (hb : NumBnd [ch] rest.head?) :
    numberLoop (ch :: rest) s dg dec ex =
      (numberFinish (s ++ [ch]) (numDigits ex ch dg) (dec || ch = '.') ex, rest) := by
  have hs : ch ≠ '!' ∧ ch ≠ '#' ∧ ch ≠ '%' := by
    refine ⟨?_, ?_, ?_⟩ <;> (intro e; subst e; exact absurd hns (by decide))
  cases rest with
  | nil =>
    have := numberLoop_last ch s dg dec ex (by rw [hf]; exact hs.1) (by rw [hf]; exact hs.2.1) (by rw [hf]; exact hs.2.2)
    rw [hf] at this; exact this
  | cons c r2 =>
    have hb' : NumBnd [ch] (some c) := hb
    simp only [NumBnd, List.getLast?_singleton, Option.some.injEq, exists_eq_left', forall_eq'] at hb'
    rcases hb' with h | ⟨hc, hE, hD⟩
    · rw [hns] at h; exact absurd h (by simp)
    · have := numberLoop_step ch c r2 s dg dec ex (by rw [hf]; exact hs.1) (by rw [hf]; exact hs.2.1)
        (by rw [hf]; exact hs.2.2)
      rw [hf, numDecide_stop ch c _ _ hE hD hc] at this
      exact this

theorem numberLoop_rerun (cs : List Char) : ∀ (s : Str) (dg : Nat) (dec ex : Bool) (t : Token) (cs' : List Char),
    cs ≠ [] → ¬ PB cs → numberLoop cs s dg dec ex = (t, cs') →
    ∃ u, u ≠ [] ∧ u.head? = cs.head?.map foldED ∧ numTok t (s ++ u) ∧ NumStop u cs' ∧
      ∀ rest, NumBnd u rest.head? → numberLoop (u ++ rest) s dg dec ex = (t, rest) := by
  induction cs with
  | nil => intro s dg dec ex t cs' h; exact absurd rfl h
  | cons ch0 r ih =>
    intro s dg dec ex t cs' _ hpb h
    have hf : foldED (foldED ch0) = foldED ch0 := foldED_foldED ch0
    by_cases hsfx : isNumSuffix (foldED ch0) = true
    · -- a type suffix ends the numeral
      rw [numberLoop_sfx ch0 r s dg dec ex hsfx] at h
      obtain ⟨rfl, rfl⟩ := Prod.mk.inj h
      refine ⟨[foldED ch0], by simp, by simp, suffixLiteral_numTok _ _, ?_, ?_⟩
      · intro c _
        have hne : foldED ch0 ≠ 'E' ∧ foldED ch0 ≠ 'D' := by
          constructor <;> (intro e; rw [e] at hsfx; exact absurd hsfx (by decide))
        exact ⟨by intro l hl; simp at hl; subst hl; exact hne, Or.inl ⟨_, by simp, hsfx⟩⟩
      · intro rest _
        have := numberLoop_sfx (foldED ch0) rest s dg dec ex (by rw [hf]; exact hsfx)
        rw [hf] at this
        simpa using this
    · have hsfx' : isNumSuffix (foldED ch0) = false := by simpa using hsfx
      have hs : foldED ch0 ≠ '!' ∧ foldED ch0 ≠ '#' ∧ foldED ch0 ≠ '%' := by
        refine ⟨?_, ?_, ?_⟩ <;> (intro e; rw [e] at hsfx'; exact absurd hsfx' (by decide))
      -- the common "stop after this character" answer
      have stopCase : ∀ (ex0 : Bool), t = numberFinish (s ++ [foldED ch0]) (numDigits ex (foldED ch0) dg)
            (dec || foldED ch0 = '.') ex0 → ex0 = ex → foldED ch0 ≠ 'E' → foldED ch0 ≠ 'D' →
          (∀ c ∈ cs'.head?, isAlpha c = true ∨ (isDigit c = false ∧ isNumSuffix c = false)) →
          ∃ u, u ≠ [] ∧ u.head? = (ch0 :: r).head?.map foldED ∧ numTok t (s ++ u) ∧ NumStop u cs' ∧
            ∀ rest, NumBnd u rest.head? → numberLoop (u ++ rest) s dg dec ex = (t, rest) := by
        intro ex0 ht hex hE hD hstop
        subst hex
        refine ⟨[foldED ch0], by simp, by simp, by rw [ht]; exact numberFinish_numTok _ _ _ _, ?_, ?_⟩
        · intro c hc
          exact ⟨by intro l hl; simp at hl; subst hl; exact ⟨hE, hD⟩, Or.inr (hstop c hc)⟩
        · intro rest hb
          rw [ht]
          exact numberLoop_rerun_one (foldED ch0) hf hsfx' s dg dec ex0 rest hb
      cases r with
      | nil =>
        rw [numberLoop_last ch0 s dg dec ex hs.1 hs.2.1 hs.2.2] at h
        obtain ⟨rfl, rfl⟩ := Prod.mk.inj h
        refine ⟨[foldED ch0], by simp, by simp, numberFinish_numTok _ _ _ _, by intro c hc; simp at hc, ?_⟩
        intro rest hb
        cases rest with
        | nil =>
          have := numberLoop_last (foldED ch0) s dg dec ex (by rw [hf]; exact hs.1) (by rw [hf]; exact hs.2.1)
            (by rw [hf]; exact hs.2.2)
          rw [hf] at this; simpa using this
        | cons c r2 => exact numberLoop_rerun_one (foldED ch0) hf hsfx' s dg dec ex (c :: r2) hb
      | cons pk tl =>
        rw [numberLoop_step ch0 pk tl s dg dec ex hs.1 hs.2.1 hs.2.2] at h
        cases hdec : numDecide (foldED ch0) pk (dec || foldED ch0 = '.') ex with
        | stop =>
          rw [hdec] at h
          obtain ⟨rfl, rfl⟩ := Prod.mk.inj h
          obtain ⟨hE1, hD1, hdg, hsx⟩ := numDecide_stop_inv _ _ _ _ hdec
          refine stopCase ex rfl rfl hE1 hD1 ?_
          intro c hc
          simp only [List.head?_cons, Option.mem_def, Option.some.injEq] at hc
          subst hc
          exact Or.inr ⟨hdg, hsx⟩
        | push =>
          rw [hdec] at h
          exfalso
          apply hpb
          exact ⟨ch0, pk, tl, rfl, numDecide_push_inv _ _ _ _ hdec⟩
        | cont ex' =>
          rw [hdec] at h
          simp only at h
          by_cases hpb2 : PB (pk :: tl)
          · -- the exponent letter is un-read: the numeral ends here
            obtain ⟨e, x, r', he, hE, hx1, hx2, hx3⟩ := hpb2
            obtain ⟨rfl, rfl⟩ := List.cons.inj he
            have hpk : foldED pk ≠ '!' ∧ foldED pk ≠ '#' ∧ foldED pk ≠ '%' ∧ foldED pk ≠ '.' ∧
                isDigit (foldED pk) = false := by
              rcases hE with e | e <;> rw [e] <;> decide
            have hnotED := numDecide_cont_ED _ _ _ _ _ hdec hE
            obtain ⟨hE0, hD0, hex, hex'⟩ := hnotED
            subst hex; subst hex'
            rw [numberLoop_step pk x r' _ _ _ _ hpk.1 hpk.2.1 hpk.2.2.1] at h
            have hpush : numDecide (foldED pk) x ((dec || decide (foldED ch0 = '.')) || decide (foldED pk = '.'))
                false = .push := by
              rcases hE with e | e <;> simp [numDecide, e, hx1, hx2, hx3]
            rw [hpush] at h
            simp only [List.dropLast_concat] at h
            obtain ⟨ht, rfl⟩ := Prod.mk.inj h
            refine stopCase false ?_ rfl hE0 hD0 ?_
            · rw [← ht]
              have hdot : decide (foldED pk = '.') = false := by simp [hpk.2.2.2.1]
              rw [hdot, Bool.or_false]
              congr 1
              rcases hE with e | e <;> simp [numDigits, e, (by decide : isDigit 'E' = false),
                (by decide : isDigit 'D' = false)]
            · intro c hc
              simp only [List.head?_cons, Option.mem_def, Option.some.injEq] at hc
              subst hc
              left
              rcases hE with e | e <;> rw [e] <;> decide
          · obtain ⟨u', hne, hhd, htok, hstop, hre⟩ := ih _ _ _ _ t cs' (by simp) hpb2 h
            obtain ⟨k, u'', rfl⟩ : ∃ k u'', u' = k :: u'' := by
              cases u' with
              | nil => exact absurd rfl hne
              | cons k u'' => exact ⟨k, u'', rfl⟩
            have hk : k = foldED pk := by simpa using hhd
            refine ⟨foldED ch0 :: k :: u'', by simp, by simp, by simpa using htok, ?_, ?_⟩
            · intro c hc
              have := hstop c hc
              rw [getLast?_cons_ne _ _ (by simp)]
              exact this
            · intro rest hb
              have hb' : NumBnd (k :: u'') rest.head? := by
                cases hr : rest.head? with
                | none => trivial
                | some c =>
                  rw [hr] at hb
                  simp only [NumBnd] at hb ⊢
                  rw [getLast?_cons_ne _ _ (by simp)] at hb
                  exact hb
              have := numberLoop_step (foldED ch0) k (u'' ++ rest) s dg dec ex (by rw [hf]; exact hs.1)
                (by rw [hf]; exact hs.2.1) (by rw [hf]; exact hs.2.2)
              rw [hf, hk, numDecide_foldED, hdec] at this
              simp only [List.cons_append]
              rw [hk, this, ← hk]
              exact hre rest hb'

/-- what `number()` consumes: the token text is the (case-folded) first `k` characters; the remainder is
    the rest, except that an un-read exponent letter comes back upper-cased; and if the rest starts with
    a digit, the consumed text holds a non-digit (a type suffix) -/
theorem numberLoop_consumed (cs : List Char) : ∀ (s : Str) (dg : Nat) (dec ex : Bool),
    cs ≠ [] → ¬ PB cs →
    ∃ k, 0 < k ∧ numTok (numberLoop cs s dg dec ex).1 (s ++ (cs.take k).map foldED) ∧
      ((numberLoop cs s dg dec ex).2 = cs.drop k ∨
        ∃ e r, cs.drop k = e :: r ∧ (numberLoop cs s dg dec ex).2 = foldED e :: r ∧
          (foldED e = 'E' ∨ foldED e = 'D')) ∧
      (∀ c ∈ (cs.drop k).head?, isDigit c = true → ∃ x ∈ cs.take k, isDigit x = false) := by
  induction cs with
  | nil => intro s dg dec ex h; exact absurd rfl h
  | cons ch0 r ih =>
    intro s dg dec ex _ hpb
    by_cases hsfx : isNumSuffix (foldED ch0) = true
    · rw [numberLoop_sfx ch0 r s dg dec ex hsfx]
      refine ⟨1, by decide, by simpa using suffixLiteral_numTok _ _, Or.inl (by simp), ?_⟩
      intro c _ _
      refine ⟨ch0, by simp, ?_⟩
      rw [← isDigit_foldED]
      rw [isNumSuffix_iff] at hsfx
      rcases hsfx with e | e | e <;> rw [e] <;> decide
    · have hsfx' : isNumSuffix (foldED ch0) = false := by simpa using hsfx
      have hs : foldED ch0 ≠ '!' ∧ foldED ch0 ≠ '#' ∧ foldED ch0 ≠ '%' := by
        refine ⟨?_, ?_, ?_⟩ <;> (intro e; rw [e] at hsfx'; exact absurd hsfx' (by decide))
      cases r with
      | nil =>
        rw [numberLoop_last ch0 s dg dec ex hs.1 hs.2.1 hs.2.2]
        exact ⟨1, by decide, by simpa using numberFinish_numTok _ _ _ _, Or.inl (by simp),
          by intro c hc; simp at hc⟩
      | cons pk tl =>
        rw [numberLoop_step ch0 pk tl s dg dec ex hs.1 hs.2.1 hs.2.2]
        cases hdec : numDecide (foldED ch0) pk (dec || foldED ch0 = '.') ex with
        | stop =>
          obtain ⟨-, -, hdg, -⟩ := numDecide_stop_inv _ _ _ _ hdec
          refine ⟨1, by decide, by simpa using numberFinish_numTok _ _ _ _, Or.inl (by simp), ?_⟩
          intro c hc hd
          simp at hc; subst hc; rw [hdg] at hd; cases hd
        | push =>
          exfalso; apply hpb
          exact ⟨ch0, pk, tl, rfl, numDecide_push_inv _ _ _ _ hdec⟩
        | cont ex' =>
          simp only
          by_cases hpb2 : PB (pk :: tl)
          · obtain ⟨e, x, r', he, hE, hx1, hx2, hx3⟩ := hpb2
            obtain ⟨rfl, rfl⟩ := List.cons.inj he
            have hpk : foldED pk ≠ '!' ∧ foldED pk ≠ '#' ∧ foldED pk ≠ '%' := by
              rcases hE with e | e <;> rw [e] <;> decide
            obtain ⟨-, -, hex, hex'⟩ := numDecide_cont_ED _ _ _ _ _ hdec hE
            subst hex; subst hex'
            rw [numberLoop_step pk x r' _ _ _ _ hpk.1 hpk.2.1 hpk.2.2]
            have hpush : numDecide (foldED pk) x ((dec || decide (foldED ch0 = '.')) || decide (foldED pk = '.'))
                false = .push := by
              rcases hE with e | e <;> simp [numDecide, e, hx1, hx2, hx3]
            rw [hpush]
            simp only [List.dropLast_concat]
            refine ⟨1, by decide, by simpa using numberFinish_numTok _ _ _ _,
              Or.inr ⟨pk, x :: r', by simp, rfl, hE⟩, ?_⟩
            intro c hc hd
            simp at hc; subst hc
            rw [← isDigit_foldED] at hd
            rcases hE with e | e <;> rw [e] at hd <;> exact absurd hd (by decide)
          · obtain ⟨k, hk, h1, h2, h3⟩ := ih (s ++ [foldED ch0]) (numDigits ex (foldED ch0) dg)
              (dec || foldED ch0 = '.') ex' (by simp) hpb2
            refine ⟨k + 1, by omega, by simpa using h1, by simpa using h2, ?_⟩
            intro c hc hd
            obtain ⟨x, hx, hxd⟩ := h3 c (by simpa using hc) hd
            exact ⟨x, by simp [hx], hxd⟩

/-- `number()` on its own output: the token text `u`, followed by anything it stops at, gives the same token -/
theorem number_rerun (c : Char) (cs : List Char) (hc : (isDigit c || c = '.') = true) (t : Token)
    (cs' : List Char) (hn : number (c :: cs) = (t, cs')) :
    ∃ u, u ≠ [] ∧ u.head? = some c ∧ numTok t u ∧ NumStop u cs' ∧
      ∀ rest, NumBnd u rest.head? → number (u ++ rest) = (t, rest) := by
  have hf : foldED c = c := by
    simp only [Bool.or_eq_true, decide_eq_true_eq] at hc
    rcases hc with h | h
    · have := plain_of_isDigit c h
      simp [foldED, this.1, this.2.1]
    · subst h; decide
  have hpb : ¬ PB (c :: cs) := by
    rintro ⟨e, x, r, he, hE, -⟩
    obtain ⟨rfl, -⟩ := List.cons.inj he
    rw [hf] at hE
    simp only [Bool.or_eq_true, decide_eq_true_eq] at hc
    rcases hE with e | e <;> subst e <;> revert hc <;> decide
  obtain ⟨u, h1, h2, h3, h4, h5⟩ := numberLoop_rerun (c :: cs) [] 0 false false t cs' (by simp) hpb hn
  exact ⟨u, h1, by simpa [hf] using h2, by simpa using h3, h4, h5⟩

end Lex
end Basic
