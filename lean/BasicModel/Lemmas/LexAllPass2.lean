import BasicModel.Lemmas.LexAllPass
/-
  C05 for ALL strings, part 9: `collapse_doubles` and `separate_words` keep the `Chain` invariant;
  `postPasses` as a whole; no word clash and a good end after the passes.
-/
set_option linter.unusedSimpArgs false
set_option linter.unusedVariables false
namespace Basic
namespace Lex

/-! ### `collapse_doubles` -/

theorem dblRec_cons2 (a b : Token) (rest : List Token) :
    dblRec (a :: b :: rest) =
      match doubleMatch a b with
      | some t => t :: dblRec rest
      | none => a :: dblRec (b :: rest) := rfl

theorem doubleMatch_some (a b T : Token) (h : doubleMatch a b = some T) :
    isRawCmp a = true ∧ isRawCmp b = true ∧ isCmp T = true := by
  unfold doubleMatch at h
  split at h
  all_goals first
    | (cases h; exact ⟨rfl, rfl, rfl⟩)
    | cases h

theorem headSame_dblRec (l : List Token) : HeadSame (dblRec l) l := by
  cases l with
  | nil => exact HeadSame.refl _
  | cons a tl =>
    cases tl with
    | nil => exact HeadSame.refl _
    | cons b rest =>
      rw [dblRec_cons2]
      cases hm : doubleMatch a b with
      | none => exact headSame_cons a a _ _ (SameIn.refl a)
      | some T =>
        obtain ⟨h1, -, h3⟩ := doubleMatch_some a b T hm
        exact headSame_cons T a _ _ (sameIn_cmp T a h3 (isCmp_of_raw a h1))

theorem chain_dblRec (n : Nat) : ∀ l : List Token, l.length ≤ n → Chain l → Chain (dblRec l) := by
  induction n with
  | zero =>
    intro l hl _
    have : l = [] := by cases l <;> simp_all
    subst this; trivial
  | succ n ih =>
    intro l hl h
    cases l with
    | nil => trivial
    | cons a tl =>
      cases tl with
      | nil => exact h
      | cons b rest =>
        simp only [List.length_cons] at hl
        rw [dblRec_cons2]
        rcases h with ⟨hr, hrest, u, hu⟩ | ⟨h1, h2, h3, h4⟩
        · subst hrest
          have hnc : isCmp a = false := by rcases hr with e | e <;> subst e <;> rfl
          rw [doubleMatch_of_not_cmp_left a b hnc]
          exact Or.inl ⟨hr, rfl, u, hu⟩
        · cases hm : doubleMatch a b with
          | none =>
            simp only
            refine chain_link a (b :: rest) _ h1 h2 (by intro x hx; simp at hx; subst hx; exact h3) ?_
              (headSame_dblRec _)
            rcases h4 with e | h4
            · exact Or.inl e
            · exact Or.inr (ih _ (by simp only [List.length_cons]; omega) h4)
          | some T =>
            simp only
            obtain ⟨ha, hb, hT⟩ := doubleMatch_some a b T hm
            obtain ⟨-, -, a1, a2, -, -⟩ := isCmp_facts a (isCmp_of_raw a ha)
            obtain ⟨-, -, b1, b2, -, -⟩ := isCmp_facts b (isCmp_of_raw b hb)
            obtain ⟨-, -, t1, t2, t3, t4⟩ := isCmp_facts T hT
            have hbr : Chain (b :: rest) := by
              rcases h4 with e | h4
              · exact absurd e a1
              · exact h4
            have hr : Chain rest := chain_tail b rest hbr b1 b2
            exact chain_cons T _ t3 t2 (fun y _ => t4 y) (Or.inr (ih _ (by omega) hr))

theorem chain_collapseDoubles (l : List Token) (h : Chain l) : Chain (collapseDoubles l) := by
  rw [collapseDoubles_eq]; exact chain_dblRec l.length l (Nat.le_refl _) h

/-! ### `separate_words` -/

theorem sepRec_cons2 (a b : Token) (rest : List Token) :
    sepRec (a :: b :: rest) =
      if a.isWord && b.isWord then a :: .whitespace 1 :: sepRec (b :: rest) else a :: sepRec (b :: rest) := rfl

theorem sepRec_head (b : Token) (rest : List Token) : ∃ tl, sepRec (b :: rest) = b :: tl := by
  cases rest with
  | nil => exact ⟨[], rfl⟩
  | cons c r => rw [sepRec_cons2]; split <;> exact ⟨_, rfl⟩

theorem headSame_sepRec (l : List Token) : HeadSame (sepRec l) l := by
  cases l with
  | nil => exact HeadSame.refl _
  | cons b rest =>
    obtain ⟨tl, e⟩ := sepRec_head b rest
    rw [e]; exact headSame_cons b b _ _ (SameIn.refl b)

theorem word_fc (w : Word) : (fc (.word w)).map isWs = some false := by cases w <;> decide
theorem operator_fc (o : Operator) : (fc (.operator o)).map isWs = some false := by cases o <;> decide

/-- a word-like token does not start with a blank -/
theorem tok_word_fc (b : Token) (ht : Tok b) (hw : b.isWord = true) : ∀ ch, fc b = some ch → isWs ch = false := by
  intro ch hch
  cases b with
  | literal l =>
    cases l with
    | string s => simp [fc, Token.text, Literal.text] at hch; subst hch; decide
    | hex ds => simp [fc, Token.text, Literal.text] at hch; subst hch; decide
    | octal ds => simp [fc, Token.text, Literal.text] at hch; subst hch; decide
    | single s =>
      obtain ⟨c, cs, rfl, hc, -⟩ := ht
      simp [fc, Token.text, Literal.text] at hch; subst hch
      simp only [Bool.or_eq_true, decide_eq_true_eq] at hc
      rcases hc with h | h
      · exact not_isWs_of_isDigit _ h
      · subst h; decide
    | double s =>
      obtain ⟨c, cs, rfl, hc, -⟩ := ht
      simp [fc, Token.text, Literal.text] at hch; subst hch
      simp only [Bool.or_eq_true, decide_eq_true_eq] at hc
      rcases hc with h | h
      · exact not_isWs_of_isDigit _ h
      · subst h; decide
    | integer s =>
      obtain ⟨c, cs, rfl, hc, -⟩ := ht
      simp [fc, Token.text, Literal.text] at hch; subst hch
      simp only [Bool.or_eq_true, decide_eq_true_eq] at hc
      rcases hc with h | h
      · exact not_isWs_of_isDigit _ h
      · subst h; decide
  | word w => have := word_fc w; rw [hch] at this; simpa using this
  | operator o => have := operator_fc o; rw [hch] at this; simpa using this
  | ident i =>
    obtain ⟨c, r, e, ha, -⟩ := printable_ident_text i ht
    simp only [fc, Token.text, e, List.head?_cons, Option.some.injEq] at hch
    subst hch; exact not_isWs_of_isAlpha _ ha
  | _ => exact absurd hw (by simp [Token.isWord])

theorem chain_sepRec (l : List Token) (h : Chain l) : Chain (sepRec l) := by
  induction l with
  | nil => trivial
  | cons a tl ih =>
    cases tl with
    | nil => exact h
    | cons b rest =>
      rw [sepRec_cons2]
      rcases h with ⟨hr, hrest, u, hu, hu2⟩ | ⟨h1, h2, h3, h4⟩
      · subst hrest; subst hu
        simp only [Token.isWord, Bool.and_false, Bool.false_eq_true, if_false]
        exact Or.inl ⟨hr, rfl, u, rfl, hu2⟩
      · split
        · rename_i hww
          have hww' : a.isWord = true ∧ b.isWord = true := by simpa using hww
          have hblank : Bnd a (some ' ') := by
            unfold Adj at h3; rw [if_pos hww] at h3; exact h3
          refine Or.inr ⟨h1, h2, ?_, ?_⟩
          · unfold Adj
            simp only [Token.isWord, Bool.and_false, Bool.false_eq_true, if_false]
            exact hblank
          · rcases h4 with e | h4
            · exact Or.inl e
            · right
              obtain ⟨tl', e⟩ := sepRec_head b rest
              have hih := ih h4
              refine chain_cons _ _ (by show 0 < 1; decide) (by simp) ?_ (Or.inr hih)
              intro y hy
              rw [e] at hy; simp at hy; subst hy
              unfold Adj
              simp only [Token.isWord, Bool.false_and, Bool.false_eq_true, if_false]
              cases hf : fc b with
              | none => trivial
              | some ch => exact tok_word_fc b (chain_head_tok b rest h4) hww'.2 ch hf
        · refine chain_link a (b :: rest) _ h1 h2 (by intro x hx; simp at hx; subst hx; exact h3) ?_
            (headSame_sepRec _)
          rcases h4 with e | h4
          · exact Or.inl e
          · exact Or.inr (ih h4)

theorem chain_separateWords (l : List Token) (h : Chain l) : Chain (separateWords l) := by
  rw [separateWords_eq]; exact chain_sepRec l h

/-- THE OUTPUT INVARIANT OF THE LEXER: the token list of every line is a `Chain` -/
theorem chain_postPasses (l : List Token) (h : Chain l) : Chain (postPasses l) :=
  chain_separateWords _ (chain_collapseDoubles _ (chain_collapseTriples _ (chain_trimEnd _ h)))

end Lex
end Basic
