import BasicModel.Model.Lex
import BasicModel.Lemmas.LexChar
import BasicModel.Lemmas.LexScan
import BasicModel.Lemmas.NameOk
/-
  Every identifier token the lexer produces has a name that starts with an upper-case ASCII letter
  (`lex_ident_letter1`, `lineNew_ident_letter1`).  This is what keeps the interpreter's
  `types[c - 'A']` table index in bounds.

  Structure of the proof:
  * `scanAlphaLoop` on an all-letters text only cuts off identifiers that start with a letter, leaves
    an all-letters remainder, and (with enough fuel) a remainder without any keyword;
  * `alphaLoop` keeps the invariant "`s` is all upper-case letters and no digit was seen" or
    "`s` starts with a letter and contains no keyword" (digits and type suffixes never create one);
  * `lexLoop` takes identifiers from `alphabetic` only; the four post-passes create none.
-/
set_option linter.unusedSimpArgs false
set_option linter.unusedVariables false
namespace Basic
namespace Lemmas.LexIdent
open Lex

-- `Letter1` (the name starts with an upper-case ASCII letter) is `Basic.Letter1` of `Lemmas/NameOk.lean`

/-- all characters are upper-case ASCII letters -/
def AllUp (s : Str) : Prop := ∀ c ∈ s, isUpperAlpha c = true

/-- every identifier token of the list has a `Letter1` name -/
def IdOk (ts : List Token) : Prop := ∀ i, Token.ident i ∈ ts → Letter1 i.name

/-! ### list bookkeeping -/

theorem idOk_nil : IdOk [] := by intro i h; simp at h

theorem idOk_append {a b : List Token} (ha : IdOk a) (hb : IdOk b) : IdOk (a ++ b) := by
  intro i h
  rcases List.mem_append.mp h with h | h
  · exact ha i h
  · exact hb i h

theorem idOk_cons_ident {i : TIdent} {ts : List Token} (hi : Letter1 i.name) (hts : IdOk ts) :
    IdOk (.ident i :: ts) := by
  intro j h
  rcases List.mem_cons.mp h with h | h
  · cases h; exact hi
  · exact hts j h

theorem idOk_cons_other {t : Token} {ts : List Token} (ht : ∀ i, t ≠ .ident i) (hts : IdOk ts) :
    IdOk (t :: ts) := by
  intro j h
  rcases List.mem_cons.mp h with h | h
  · exact absurd h.symm (ht j)
  · exact hts j h

theorem idOk_snoc {p : List Token} {i : TIdent} (hp : IdOk p) (hi : Letter1 i.name) :
    IdOk (p ++ [.ident i]) :=
  idOk_append hp (idOk_cons_ident hi idOk_nil)

theorem idOk_of_subset {a b : List Token} (h : ∀ i, Token.ident i ∈ a → Token.ident i ∈ b)
    (hb : IdOk b) : IdOk a := fun i hi => hb i (h i hi)

theorem letter1_of_allUp {s : Str} (h : AllUp s) (hne : s ≠ []) : Letter1 s := by
  cases s with
  | nil => contradiction
  | cons c r =>
    have := (isUpperAlpha_iff c).mp (h c (by simp))
    exact ⟨c, r, rfl, this.1, this.2⟩

theorem letter1_append {s : Str} (t : Str) (h : Letter1 s) : Letter1 (s ++ t) := by
  obtain ⟨c, r, rfl, h1, h2⟩ := h
  exact ⟨c, r ++ t, rfl, h1, h2⟩

theorem allUp_drop {s : Str} (n : Nat) (h : AllUp s) : AllUp (s.drop n) :=
  fun c hc => h c (List.mem_of_mem_drop hc)

theorem allUp_take {s : Str} (n : Nat) (h : AllUp s) : AllUp (s.take n) :=
  fun c hc => h c (List.mem_of_mem_take hc)

theorem allUp_snoc {s : Str} {c : Char} (h : AllUp s) (hc : isUpperAlpha c = true) :
    AllUp (s ++ [c]) := by
  intro x hx
  rcases List.mem_append.mp hx with hx | hx
  · exact h x hx
  · simp at hx; rw [hx]; exact hc

theorem letter1_take {s : Str} (h : AllUp s) (hne : s ≠ []) (n : Nat) (hn : 0 < n) :
    Letter1 (s.take n) := by
  apply letter1_of_allUp (allUp_take n h)
  cases s with
  | nil => contradiction
  | cons c r =>
    cases n with
    | zero => omega
    | succ n => simp

/-! ### the keyword table -/

def isIdentTok : Token → Bool
  | .ident _ => true
  | _ => false

theorem not_ident_of_isIdentTok {t : Token} (h : isIdentTok t = false) : ∀ i, t ≠ .ident i := by
  intro i e; rw [e] at h; cases h

theorem keywords_shape : ∀ kw ∈ keywords,
    2 ≤ kw.1.length ∧ kw.1.all isUpperAlpha = true ∧ isIdentTok kw.2 = false := by
  decide +kernel

theorem bestMatch_nil : bestMatch [] keywords none = none := by decide +kernel

/-- a hit of `bestMatch` is the incoming best or has the length of a table entry -/
theorem bestMatch_len (s : Str) (kws : List (Str × Token)) :
    ∀ (best : Option (Nat × Nat × Token)) (r : Nat × Nat × Token),
      bestMatch s kws best = some r → best = some r ∨ ∃ kw ∈ kws, r.2.1 = kw.1.length ∧ r.2.2 = kw.2 := by
  induction kws with
  | nil => intro best r h; left; simpa [bestMatch] using h
  | cons kw kws ih =>
    obtain ⟨ts, tk⟩ := kw
    intro best r h
    unfold bestMatch at h
    split at h
    · rcases ih _ _ h with h | ⟨kw, hkw, e⟩
      · exact Or.inl h
      · exact Or.inr ⟨kw, List.mem_cons_of_mem _ hkw, e⟩
    · split at h
      · rcases ih _ _ h with h | ⟨kw, hkw, e⟩
        · right; refine ⟨(ts, tk), by simp, ?_⟩
          cases h; exact ⟨rfl, rfl⟩
        · exact Or.inr ⟨kw, List.mem_cons_of_mem _ hkw, e⟩
      · split at h
        · rcases ih _ _ h with h | ⟨kw, hkw, e⟩
          · right; refine ⟨(ts, tk), by simp, ?_⟩
            cases h; exact ⟨rfl, rfl⟩
          · exact Or.inr ⟨kw, List.mem_cons_of_mem _ hkw, e⟩
        · rcases ih _ _ h with h | ⟨kw, hkw, e⟩
          · exact Or.inl h
          · exact Or.inr ⟨kw, List.mem_cons_of_mem _ hkw, e⟩

theorem bestMatch_len_pos (s : Str) (r : Nat × Nat × Token)
    (h : bestMatch s keywords none = some r) : 2 ≤ r.2.1 ∧ ∀ i, r.2.2 ≠ .ident i := by
  rcases bestMatch_len s keywords none r h with h | ⟨kw, hkw, e1, e2⟩
  · cases h
  · rw [e1, e2]; exact ⟨(keywords_shape kw hkw).1, not_ident_of_isIdentTok (keywords_shape kw hkw).2.2⟩

/-! ### appending a non-letter creates no keyword -/

theorem isPrefix_snoc (pat : Str) (d : Char) (hd : d ∉ pat) :
    ∀ a : Str, isPrefix pat (a ++ [d]) = true → isPrefix pat a = true := by
  induction pat with
  | nil => intro a _; simp [isPrefix]
  | cons p ps ih =>
    intro a h
    have hpd : p ≠ d := fun e => hd (by simp [e])
    have hps : d ∉ ps := fun e => hd (by simp [e])
    cases a with
    | nil => simp [isPrefix, hpd] at h
    | cons c cs =>
      simp only [List.cons_append, isPrefix, Bool.and_eq_true, decide_eq_true_eq] at h
      simp [isPrefix, h.1, ih hps cs h.2]

theorem findSub_snoc_none (pat : Str) (d : Char) (hd : d ∉ pat) (hne : pat ≠ []) :
    ∀ a : Str, findSub pat a = none → findSub pat (a ++ [d]) = none := by
  intro a
  induction a with
  | nil =>
    intro _
    cases pat with
    | nil => contradiction
    | cons p ps =>
      have hpd : p ≠ d := fun e => hd (by simp [e])
      simp [findSub, isPrefix, hpd]
  | cons c cs ih =>
    intro h
    simp only [findSub] at h
    split at h
    · simp at h
    · rename_i hp
      split at h
      · simp at h
      · rename_i hf
        have hp' : isPrefix pat (c :: (cs ++ [d])) = false := by
          cases hq : isPrefix pat (c :: (cs ++ [d])) with
          | false => rfl
          | true => exact absurd (isPrefix_snoc pat d hd (c :: cs) hq) hp
        simp [findSub, hp', ih hf]

theorem noKeyword_snoc (s : Str) (d : Char) (hd : isUpperAlpha d = false) (h : NoKeyword s) :
    NoKeyword (s ++ [d]) := by
  unfold NoKeyword at *
  rw [bestMatch_none_iff] at *
  intro kw hkw
  have hs := keywords_shape kw hkw
  apply findSub_snoc_none _ _ _ _ _ (h kw hkw)
  · intro hm
    have := List.all_eq_true.mp hs.2.1 d hm
    rw [this] at hd; cases hd
  · intro e; rw [e] at hs; simp at hs

/-! ### `scan_alphabetic` on an all-letters text -/

theorem scanAlphaLoop_allUp (fuel : Nat) : ∀ (v : List Token) (s : Str),
    IdOk v → AllUp s → s.length < fuel →
      IdOk (scanAlphaLoop fuel v s).1 ∧ AllUp (scanAlphaLoop fuel v s).2 ∧
        NoKeyword (scanAlphaLoop fuel v s).2 := by
  induction fuel with
  | zero => intro v s _ _ h; omega
  | succ fuel ih =>
    intro v s hv hs hf
    unfold scanAlphaLoop
    split
    · rename_i hb; exact ⟨hv, hs, hb⟩
    · rename_i idx len token hb
      have hlen : 2 ≤ len := (bestMatch_len_pos s _ hb).1
      have hne : s ≠ [] := by
        intro e; rw [e, bestMatch_nil] at hb; cases hb
      have hpos : 0 < s.length := List.length_pos_iff.mpr hne
      have hkw : ∀ i, token ≠ .ident i := (bestMatch_len_pos s _ hb).2
      split
      · apply ih _ _ _ (allUp_drop _ hs)
        · simp only [List.length_drop]; omega
        · exact idOk_append hv (idOk_cons_other hkw idOk_nil)
      · rename_i hidx
        apply ih _ _ _ (allUp_drop _ hs)
        · simp only [List.length_drop]; omega
        · exact idOk_append hv
            (idOk_cons_ident (letter1_take hs hne idx (by omega)) (idOk_cons_other hkw idOk_nil))

/-- the result of `scan_alphabetic` is usable: identifiers fine, a non-empty remainder starts with a
    letter and holds no keyword -/
def Good (p : List Token) (s : Str) : Prop :=
  IdOk (scanAlphabetic p s).1 ∧ ((scanAlphabetic p s).2 ≠ [] → Letter1 (scanAlphabetic p s).2) ∧
    NoKeyword (scanAlphabetic p s).2

theorem good_of_allUp {p : List Token} {s : Str} (hp : IdOk p) (hs : AllUp s) : Good p s := by
  obtain ⟨h1, h2, h3⟩ := scanAlphaLoop_allUp (s.length + 1) p s hp hs (Nat.lt_succ_self _)
  exact ⟨h1, fun hne => letter1_of_allUp h2 hne, h3⟩

theorem good_of_noKeyword {p : List Token} {s : Str} (hp : IdOk p) (hl : Letter1 s)
    (hs : NoKeyword s) : Good p s := by
  unfold Good
  rw [scanAlphabetic_noKeyword p s hs]
  exact ⟨hp, fun _ => hl, hs⟩

theorem alphaFinish_idOk {p : List Token} {s : Str} (rest : List Char) (hg : Good p s) :
    IdOk (alphaFinish p s rest).1 := by
  unfold alphaFinish
  split
  · exact hg.1
  · rename_i hne
    refine idOk_snoc hg.1 (hg.2.1 ?_)
    intro e; rw [e] at hne; simp at hne

/-! ### `alphabetic()` -/

theorem isUpperAlpha_upper_of_isAlpha (c : Char) (h : isAlpha c = true) :
    isUpperAlpha (upper c) = true := by
  rw [isAlpha_iff] at h
  rw [isUpperAlpha_iff, upper_toNat]
  split <;> omega

theorem not_isUpperAlpha_of_isDigit (c : Char) (h : isDigit c = true) : isUpperAlpha c = false := by
  rw [isDigit_iff] at h
  rw [Bool.eq_false_iff, Ne, isUpperAlpha_iff]; omega

theorem not_isAlpha_of_isSuffixChar (c : Char) (h : isSuffixChar c = true) : isAlpha c = false := by
  rw [isSuffixChar_iff] at h
  rcases h with h | h | h | h <;> subst h <;> decide

/-- the invariant of the loop of `alphabetic()` -/
def AlphaInv (cs : List Char) (s : Str) (digit : Bool) : Prop :=
  ((∀ c ∈ cs.head?, isAlpha c = true) ∧ digit = false ∧ AllUp s) ∨
    ((∀ c ∈ cs.head?, (isDigit c || isSuffixChar c) = true) ∧ Letter1 s ∧ NoKeyword s)

theorem alphaLoop_idOk (cs : List Char) : ∀ (s : Str) (digit : Bool) (pending : List Token),
    IdOk pending → AlphaInv cs s digit → IdOk (alphaLoop cs s digit pending).1 := by
  induction cs with
  | nil => intro s d p hp _; simpa [alphaLoop] using hp
  | cons ch0 rest ih =>
    intro s d p hp hinv
    -- facts that hold in both states
    have hcommon : Letter1 (s ++ [upper ch0]) ∧ Good p (s ++ [upper ch0]) ∧
        ((isAlpha ch0 = true ∧ AllUp (s ++ [upper ch0]) ∧ (d || isDigit (upper ch0)) = false) ∨
          (isSuffixChar ch0 = true) ∨ (d || isDigit (upper ch0)) = true) := by
      rcases hinv with ⟨ha, hd, hs⟩ | ⟨hc, hl, hk⟩
      · have ha : isAlpha ch0 = true := ha ch0 (by simp)
        have hu := isUpperAlpha_upper_of_isAlpha ch0 ha
        have hs' := allUp_snoc hs hu
        refine ⟨letter1_of_allUp hs' (by simp), good_of_allUp hp hs', Or.inl ⟨ha, hs', ?_⟩⟩
        rw [hd, isDigit_upper, not_isDigit_of_isAlpha ch0 ha]; rfl
      · have hc : (isDigit ch0 || isSuffixChar ch0) = true := hc ch0 (by simp)
        have hl' : Letter1 (s ++ [upper ch0]) := letter1_append _ hl
        rw [Bool.or_eq_true] at hc
        rcases hc with hc | hc
        · have hu : upper ch0 = ch0 := upper_of_isDigit ch0 hc
          refine ⟨hl', good_of_noKeyword hp hl' ?_, Or.inr (Or.inr ?_)⟩
          · rw [hu]; exact noKeyword_snoc s ch0 (not_isUpperAlpha_of_isDigit ch0 hc) hk
          · rw [hu, hc]; simp
        · have hu : upper ch0 = ch0 := upper_suffix ch0 hc
          refine ⟨hl', good_of_noKeyword hp hl' ?_, Or.inr (Or.inl hc)⟩
          rw [hu]
          apply noKeyword_snoc s ch0 _ hk
          rw [isSuffixChar_iff] at hc
          rcases hc with h | h | h | h <;> subst h <;> decide
    obtain ⟨hl', hg, hstate⟩ := hcommon
    rw [alphaLoop_cons]
    split
    · exact idOk_snoc hp hl'
    rename_i n1
    split
    · exact idOk_snoc hp hl'
    rename_i n2
    split
    · exact idOk_snoc hp hl'
    rename_i n3
    split
    · exact idOk_snoc hp hl'
    rename_i n4
    -- the current character is no type suffix
    have hstate' : (isAlpha ch0 = true ∧ AllUp (s ++ [upper ch0]) ∧ (d || isDigit (upper ch0)) = false) ∨
        (d || isDigit (upper ch0)) = true := by
      rcases hstate with h | h | h
      · exact Or.inl h
      · exfalso
        have hu : upper ch0 = ch0 := upper_suffix ch0 h
        rw [hu] at n1 n2 n3 n4
        rw [isSuffixChar_iff] at h
        rcases h with h | h | h | h
        · exact n1 h
        · exact n2 h
        · exact n3 h
        · exact n4 h
      · exact Or.inr h
    split
    · exact alphaFinish_idOk _ hg
    · rename_i pk tl
      split
      · rename_i hpk
        split
        · exact idOk_snoc hp hl'
        · rename_i hdig
          rcases hstate' with ⟨_, hs', hd'⟩ | h
          · apply ih _ _ _ hp
            left
            exact ⟨by intro c hc; simp at hc; rw [← hc]; exact hpk, hd', hs'⟩
          · exact absurd h hdig
      · split
        · rename_i hpk
          split
          · exact hg.1
          · rename_i hne
            apply ih _ _ _ hg.1
            right
            refine ⟨?_, hg.2.1 ?_, hg.2.2⟩
            · intro c hc; simp at hc; rw [← hc]
              simpa [isSuffixChar, Bool.or_assoc] using hpk
            · intro e; rw [e] at hne; simp at hne
        · exact alphaFinish_idOk _ hg

theorem alphabetic_idOk (pk : Char) (cs : List Char) (h : isAlpha pk = true) :
    IdOk (alphabetic (pk :: cs)).1 := by
  apply alphaLoop_idOk _ _ _ _ idOk_nil
  left
  exact ⟨by intro c hc; simp at hc; rw [← hc]; exact h, rfl, by intro c hc; simp at hc⟩

/-! ### the other scanners create no identifier -/

theorem numberFinish_not_ident (s : Str) (dg : Nat) (dec ex : Bool) :
    ∀ i, numberFinish s dg dec ex ≠ .ident i := by
  intro i
  unfold numberFinish
  repeat' split
  all_goals simp

theorem numberLoop_not_ident (cs : List Char) : ∀ s dg dec ex i,
    (numberLoop cs s dg dec ex).1 ≠ .ident i := by
  induction cs with
  | nil => intro s dg dec ex i; unfold numberLoop; exact numberFinish_not_ident _ _ _ _ i
  | cons ch0 rest ih =>
    intro s dg dec ex i
    unfold numberLoop
    extract_lets ch s' dg1 dec' dg2
    repeat' split
    all_goals first
      | exact numberFinish_not_ident _ _ _ _ i
      | exact ih _ _ _ _ i
      | simp

theorem matchMinutia_not_ident (s : Str) (t : Token) (h : matchMinutia s = some t) :
    ∀ i, t ≠ .ident i := by
  intro i e
  subst e
  unfold matchMinutia at h
  split at h <;> simp at h

theorem minutiaLoop_not_ident (cs : List Char) : ∀ s i, (minutiaLoop cs s).1 ≠ .ident i := by
  induction cs with
  | nil => intro s i; simp [minutiaLoop]
  | cons ch rest ih =>
    intro s i
    unfold minutiaLoop
    extract_lets s'
    split
    · rename_i t ht
      exact matchMinutia_not_ident _ _ ht i
    · repeat' split
      all_goals first
        | exact ih _ i
        | simp

theorem radix_not_ident (cs : List Char) (i : TIdent) : (radix cs).1 ≠ .ident i := by
  unfold radix
  split <;> simp

/-! ### the token iterator -/

theorem lexLoop_idOk (fuel : Nat) : ∀ (cs : List Char) (remark : Bool), IdOk (lexLoop fuel cs remark) := by
  induction fuel with
  | zero => intro cs r; unfold lexLoop; exact idOk_nil
  | succ f ih =>
    intro cs r
    cases cs with
    | nil => unfold lexLoop; exact idOk_nil
    | cons pk cs =>
      unfold lexLoop
      dsimp only
      split
      · exact idOk_cons_other (by simp) idOk_nil
      split
      · refine idOk_cons_other ?_ (ih _ _)
        intro i; simp [whitespace]
      split
      · exact idOk_cons_other (numberLoop_not_ident _ _ _ _ _) (ih _ _)
      split
      · rename_i ha
        have hq := alphabetic_idOk pk cs ha
        split
        · exact idOk_nil
        · rename_i t ts heq
          rw [heq] at hq
          exact idOk_append (a := t :: ts) hq (ih _ _)
      split
      · refine idOk_cons_other ?_ (ih _ _)
        intro i; simp [string]
      split
      · exact idOk_cons_other (radix_not_ident _) (ih _ _)
      · exact idOk_cons_other (minutiaLoop_not_ident _ _) (ih _ _)

theorem rawTokens_idOk (cs : List Char) : IdOk (rawTokens cs) := lexLoop_idOk _ _ _

/-! ### the post-passes create no identifier -/

theorem trimEndRev_mem (l : List Token) (i : TIdent) (h : Token.ident i ∈ trimEndRev l) :
    Token.ident i ∈ l := by
  induction l with
  | nil => simp [trimEndRev] at h
  | cons t r ih =>
    unfold trimEndRev at h
    split at h
    · rename_i heq; cases heq
      exact List.mem_cons_of_mem _ (ih h)
    · rename_i heq; cases heq
      split at h
      · exact List.mem_cons_of_mem _ (ih h)
      · rcases List.mem_cons.mp h with h | h
        · cases h
        · exact List.mem_cons_of_mem _ h
    · exact h

theorem trimEnd_mem (ts : List Token) (i : TIdent) (h : Token.ident i ∈ trimEnd ts) :
    Token.ident i ∈ ts := by
  unfold trimEnd at h
  rw [List.mem_reverse] at h
  have := trimEndRev_mem _ i h
  rwa [List.mem_reverse] at this

theorem splice_mem (n : Nat) (ts : List Token) (loc : Nat × Token) (t : Token)
    (h : t ∈ splice n ts loc) : t ∈ ts ∨ t = loc.2 := by
  unfold splice at h
  rcases List.mem_append.mp h with h | h
  · exact Or.inl (List.mem_of_mem_take h)
  · rcases List.mem_cons.mp h with h | h
    · exact Or.inr h
    · exact Or.inl (List.mem_of_mem_drop h)

theorem applyLocs_mem (n : Nat) (locs : List (Nat × Token)) (ts : List Token) (t : Token)
    (h : t ∈ applyLocs n locs ts) : t ∈ ts ∨ ∃ loc ∈ locs, t = loc.2 := by
  induction locs with
  | nil => left; simpa [applyLocs] using h
  | cons loc locs ih =>
    have h' : t ∈ splice n (applyLocs n locs ts) loc := by simpa [applyLocs] using h
    rcases splice_mem _ _ _ _ h' with h' | h'
    · rcases ih h' with h' | ⟨l, hl, e⟩
      · exact Or.inl h'
      · exact Or.inr ⟨l, List.mem_cons_of_mem _ hl, e⟩
    · exact Or.inr ⟨loc, by simp, h'⟩

theorem tripleMatch_not_ident (a b c t : Token) (h : tripleMatch a b c = some t) :
    isIdentTok t = false := by
  unfold tripleMatch at h
  split at h
  all_goals first
    | (cases h; rfl)
    | (split at h <;> first | (cases h; rfl) | cases h)
    | cases h

theorem doubleMatch_not_ident (a b t : Token) (h : doubleMatch a b = some t) :
    isIdentTok t = false := by
  unfold doubleMatch at h
  split at h
  all_goals first
    | (cases h; rfl)
    | cases h

theorem tripleLocs_not_ident (ts : List Token) : ∀ (k : Nat), ∀ loc ∈ tripleLocs ts k,
    isIdentTok loc.2 = false := by
  induction ts with
  | nil => intro k loc h; simp [tripleLocs] at h
  | cons a r ih =>
    intro k loc h
    unfold tripleLocs at h
    split at h
    · rename_i a' b c rest k' heq
      cases heq
      split at h
      · rename_i t ht
        rcases List.mem_cons.mp h with h | h
        · rw [h]; exact tripleMatch_not_ident _ _ _ _ ht
        · exact ih _ _ h
      · exact ih _ _ h
    · simp at h

theorem doubleLocs_not_ident (n : Nat) : ∀ (ts : List Token), ts.length ≤ n → ∀ (k : Nat),
    ∀ loc ∈ doubleLocs ts k, isIdentTok loc.2 = false := by
  induction n with
  | zero =>
    intro ts hn k loc h
    cases ts with
    | nil => simp [doubleLocs] at h
    | cons a r => simp at hn
  | succ n ih =>
    intro ts hn k loc h
    unfold doubleLocs at h
    split at h
    · rename_i a b rest
      simp only [List.length_cons] at hn
      split at h
      · rename_i t ht
        rcases List.mem_cons.mp h with h | h
        · rw [h]; exact doubleMatch_not_ident _ _ _ ht
        · exact ih rest (by omega) _ _ h
      · exact ih (b :: rest) (by simp only [List.length_cons]; omega) _ _ h
    · simp at h

theorem collapseTriples_mem (ts : List Token) (i : TIdent) (h : Token.ident i ∈ collapseTriples ts) :
    Token.ident i ∈ ts := by
  rcases applyLocs_mem _ _ _ _ h with h | ⟨loc, hl, e⟩
  · exact h
  · have := tripleLocs_not_ident ts 0 loc hl
    rw [← e] at this; cases this

theorem collapseDoubles_mem (ts : List Token) (i : TIdent) (h : Token.ident i ∈ collapseDoubles ts) :
    Token.ident i ∈ ts := by
  rcases applyLocs_mem _ _ _ _ h with h | ⟨loc, hl, e⟩
  · exact h
  · have := doubleLocs_not_ident ts.length ts (Nat.le_refl _) 0 loc hl
    rw [← e] at this; cases this

theorem insertBlank_mem (ts : List Token) (k : Nat) (t : Token) (h : t ∈ insertBlank ts k) :
    t ∈ ts ∨ t = .whitespace 1 := by
  unfold insertBlank at h
  rcases List.mem_append.mp h with h | h
  · exact Or.inl (List.mem_of_mem_take h)
  · rcases List.mem_cons.mp h with h | h
    · exact Or.inr h
    · exact Or.inl (List.mem_of_mem_drop h)

theorem separateWords_mem (ts : List Token) (i : TIdent) (h : Token.ident i ∈ separateWords ts) :
    Token.ident i ∈ ts := by
  unfold separateWords at h
  generalize wordLocs ts 0 = locs at h
  induction locs with
  | nil => simpa using h
  | cons k locs ih =>
    simp only [List.foldr_cons] at h
    rcases insertBlank_mem _ _ _ h with h | h
    · exact ih h
    · cases h

theorem postPasses_mem (ts : List Token) (i : TIdent) (h : Token.ident i ∈ postPasses ts) :
    Token.ident i ∈ ts :=
  trimEnd_mem _ i (collapseTriples_mem _ i (collapseDoubles_mem _ i (separateWords_mem _ i h)))

/-! ### the theorems -/

/-- every identifier token of a lexed line has a name that starts with `A`..`Z` -/
theorem lex_ident_letter1 (src : Str) (i : TIdent) (h : Token.ident i ∈ (Lex.lex src).2) :
    Letter1 i.name :=
  rawTokens_idOk _ i (postPasses_mem _ i h)

theorem lineNew_ident_letter1 (src : Str) (i : TIdent)
    (h : Token.ident i ∈ (Lex.lineNew src).tokens) : Letter1 i.name :=
  lex_ident_letter1 src i h

/-- the index `c - 'A'` into a 26-entry table is in bounds for the first character of every
    identifier the lexer produces -/
theorem lex_ident_index (src : Str) (i : TIdent) (h : Token.ident i ∈ (Lex.lex src).2) :
    ∃ c r, i.name = c :: r ∧ c.toNat - 65 < 26 ∧ 65 ≤ c.toNat := by
  obtain ⟨c, r, e, h1, h2⟩ := lex_ident_letter1 src i h
  exact ⟨c, r, e, by omega, h1⟩

/-! ### non-vacuity -/

example : Token.ident (.plain "X1".toList) ∈ (Lex.lex "10 forx1=a$".toList).2 := by decide +kernel
example : Token.ident (.string "A$".toList) ∈ (Lex.lex "10 forx1=a$".toList).2 := by decide +kernel
example : Token.ident (.plain "SUB100".toList) ∈ (Lex.lex "printgo sub100".toList).2 := by
  decide +kernel
example : Token.ident (.plain "AB2".toList) ∈ (Lex.lineNew "go to 5: nextab2c!".toList).tokens := by
  decide +kernel
example : Letter1 "X1".toList := ⟨'X', ['1'], rfl, by decide, by decide⟩
example : ¬ Letter1 "1X".toList := by
  rintro ⟨c, r, e, h1, h2⟩
  cases e
  revert h1; decide

end Lemmas.LexIdent
end Basic
