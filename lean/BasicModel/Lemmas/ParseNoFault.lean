import BasicModel.Model.Parse
/-
  The parser never runs out of fuel: `Parse.parseTokens` / `Parse.parse` never return the `fault`
  error.  Method: a weakest-precondition calculus `NF m s Q` over `PM` ("`m` run from `s` either
  succeeds in a state satisfying `Q` or fails with a non-fault error"), and the measure
  `rem s = number of unread tokens (+1 for the look-ahead)`; fuel is a depth bound and every
  recursion level consumes a token at least every other call.
-/
namespace Basic
namespace Lemmas.ParseNoFault
open Parse

/-- number of tokens not yet consumed, counting the look-ahead -/
def rem (s : PState) : Nat := s.toks.length + (if s.peeked.isSome then 1 else 0)

/-- 1 for `some`, 0 for `none` -/
def osz {α} : Option α → Nat
  | some _ => 1
  | none => 0

@[simp] theorem osz_some {α} (a : α) : osz (some a) = 1 := rfl
@[simp] theorem osz_none {α} : osz (none : Option α) = 0 := rfl

/-- `m` run from `s` succeeds with a result/state satisfying `Q`, or fails with a non-fault error -/
def NF {α} (m : PM α) (s : PState) (Q : α → PState → Prop) : Prop :=
  match m s with
  | .ok (a, s') => Q a s'
  | .error e => e.isFault = false

theorem NF.pure {α} {a : α} {s : PState} {Q : α → PState → Prop} (h : Q a s) :
    NF (Pure.pure a) s Q := h

theorem NF.bind {α β} {x : PM α} {k : α → PM β} {s : PState} {Q : β → PState → Prop}
    (h : NF x s (fun a s' => NF (k a) s' Q)) : NF (x >>= k) s Q := by
  unfold NF at h ⊢
  show match (x s >>= fun p => k p.1 p.2) with | .ok (a, s') => Q a s' | .error e => e.isFault = false
  cases hx : x s with
  | error e => rw [hx] at h; exact h
  | ok p => rw [hx] at h; exact h

theorem NF.mono {α} {m : PM α} {s : PState} {Q Q' : α → PState → Prop}
    (h : NF m s Q) (hq : ∀ a s', Q a s' → Q' a s') : NF m s Q' := by
  unfold NF at h ⊢
  split
  · next a s' heq => rw [heq] at h; exact hq _ _ h
  · next e heq => rw [heq] at h; exact h

theorem NF.throw {α} {e : Error} {s : PState} {Q : α → PState → Prop} (h : e.isFault = false) :
    NF (throw e : PM α) s Q := h

theorem NF.fail {α} {code : Nat} {c : Col} {msg : String} {s : PState} {Q : α → PState → Prop}
    (h : (code == Code.fault) = false) : NF (fail code c msg : PM α) s Q := h

theorem nf_col (s : PState) : NF col s (fun _ s' => s' = s) := rfl

theorem NF.failHere {α} {code : Nat} {msg : String} {s : PState} {Q : α → PState → Prop}
    (h : (code == Code.fault) = false) : NF (failHere code msg : PM α) s Q := h

theorem nextLoop_spec (ts : List Token) (r : Bool) (cs ce : Nat) :
    (nextLoop ts r cs ce).2.1.length + osz (nextLoop ts r cs ce).1 ≤ ts.length ∧
    (nextLoop ts r cs ce).2.1.length ≤ ts.length - 1 := by
  induction ts generalizing r cs ce with
  | nil => simp [nextLoop]
  | cons t ts ih =>
    unfold nextLoop
    simp only []
    split
    · have := ih (r || isRem t) ce ce
      simp only [List.length_cons]; omega
    · split
      · have := ih (r || isRem (Token.whitespace ‹_›)) ce (ce + (Token.whitespace ‹_›).text.length)
        simp only [List.length_cons]; omega
      · simp

theorem nf_next (s : PState) :
    NF next s (fun t s' => rem s' + osz t ≤ rem s ∧ rem s' ≤ rem s - 1) := by
  unfold NF next
  rcases s with ⟨toks, _ | p, r, cs, ce⟩
  · have := nextLoop_spec toks r cs ce
    simp [rem, bind, StateT.bind, get, getThe, MonadStateOf.get, StateT.get, set, StateT.set, Pure.pure, StateT.pure, Except.pure, Except.bind] 
    omega
  · simp [rem, bind, StateT.bind, get, getThe, MonadStateOf.get, StateT.get, set, StateT.set, Pure.pure, StateT.pure, Except.pure, Except.bind] 

theorem nf_peek (s : PState) :
    NF peek s (fun t s' => rem s' ≤ rem s ∧ osz t ≤ rem s') := by
  rcases s with ⟨toks, _ | p, r, cs, ce⟩
  · have h := nf_next ⟨toks, none, r, cs, ce⟩
    unfold NF at h ⊢
    unfold peek
    simp only [bind, StateT.bind, get, getThe, MonadStateOf.get, StateT.get, Pure.pure, StateT.pure,
      Except.pure, Except.bind, modify, modifyGet, MonadStateOf.modifyGet, StateT.modifyGet]
    cases hn : next ⟨toks, none, r, cs, ce⟩ with
    | error e => rw [hn] at h; exact h
    | ok q =>
      rw [hn] at h
      rcases q with ⟨t, s'⟩
      simp only [rem] at h ⊢
      cases t <;> simp at h ⊢ <;> omega
  · simp [NF, peek, rem, bind, StateT.bind, get, getThe, MonadStateOf.get, StateT.get, Pure.pure,
      StateT.pure, Except.pure, Except.bind]

/-- `next` right after a successful `peek`-style guarantee, result ignored -/
theorem nf_maybe (tok : Token) (s : PState) :
    NF (maybe tok) s (fun _ s' => rem s' ≤ rem s) := by
  unfold maybe
  refine NF.bind (NF.mono (nf_peek s) ?_)
  intro t s1 h1
  split
  · split
    · refine NF.bind (NF.mono (nf_next s1) ?_)
      intro _ s2 h2
      exact NF.pure (by omega)
    · exact NF.pure h1.1
  · exact NF.pure h1.1

theorem nf_expect (tok : Token) (s : PState) :
    NF (expect tok) s (fun _ s' => rem s' + 1 ≤ rem s) := by
  unfold expect
  refine NF.bind (NF.mono (nf_next s) ?_)
  intro t s1 h1
  split
  · split
    · exact NF.pure (by simp only [osz_some] at h1; omega)
    · exact NF.failHere (by decide)
  · exact NF.failHere (by decide)

theorem nf_literal (c : Col) (l : Literal) (s : PState) :
    NF (literal c l) s (fun _ s' => s' = s) := by
  unfold literal
  cases l <;> simp only [] <;> split <;> first | exact NF.pure rfl | exact NF.fail (by decide)

/-! ### proof automation -/

syntax "nf_arith" : tactic
macro_rules | `(tactic| nf_arith) => `(tactic| ((try simp only [osz_some, osz_none] at *); omega))

/-- apply the specification of a known parser function to a goal `NF (f ..) s Q` -/
syntax "nf_call" : tactic
macro_rules | `(tactic| nf_call) => `(tactic| ((with_reducible refine NF.mono (nf_next _) ?_); intro _ _ _))
macro_rules | `(tactic| nf_call) => `(tactic| ((with_reducible refine NF.mono (nf_peek _) ?_); intro _ _ _))
macro_rules | `(tactic| nf_call) => `(tactic| ((with_reducible refine NF.mono (nf_maybe _ _) ?_); intro _ _ _))
macro_rules | `(tactic| nf_call) => `(tactic| ((with_reducible refine NF.mono (nf_expect _ _) ?_); intro _ _ _))
macro_rules | `(tactic| nf_call) => `(tactic| ((with_reducible refine NF.mono (nf_col _) ?_); intro _ _ h; subst h))
macro_rules | `(tactic| nf_call) => `(tactic| ((with_reducible refine NF.mono (nf_literal _ _ _) ?_); intro _ _ h; subst h))

syntax "nf_step" : tactic
macro_rules | `(tactic| nf_step) => `(tactic| first
  | with_reducible refine NF.bind ?_
  | with_reducible refine NF.pure ?_
  | with_reducible exact NF.fail (by decide)
  | with_reducible exact NF.failHere (by decide)
  | with_reducible exact NF.throw (by decide)
  | nf_call
  | exact NF.throw rfl
  | dsimp only
  | split
  | nf_arith)

syntax "nf_auto" : tactic
macro_rules | `(tactic| nf_auto) => `(tactic| repeat (any_goals nf_step))

/-! ### the expression parser -/

set_option hygiene false in
macro_rules | `(tactic| nf_call) => `(tactic| ((with_reducible refine NF.mono (hd _ _ _ ?_) ?_); nf_arith; intro _ _ _))
set_option hygiene false in
macro_rules | `(tactic| nf_call) => `(tactic| ((with_reducible refine NF.mono (hb _ _ _ _ ?_) ?_); nf_arith; intro _ _ _))
set_option hygiene false in
macro_rules | `(tactic| nf_call) => `(tactic| ((with_reducible refine NF.mono (he _ _ ?_) ?_); nf_arith; intro _ _ _))

abbrev DescendOk (f : Nat) : Prop :=
  ∀ vm p s, 2 * rem s + 2 ≤ f → NF (descend f vm p) s (fun _ s' => rem s' + 1 ≤ rem s)
abbrev BinLoopOk (f : Nat) : Prop :=
  ∀ vm p l s, 2 * rem s + 1 ≤ f → NF (binLoop f vm p l) s (fun _ s' => rem s' ≤ rem s)
abbrev ExprListOk (f : Nat) : Prop :=
  ∀ vm s, 2 * rem s + 3 ≤ f → NF (exprList f vm) s (fun _ s' => rem s' + 1 ≤ rem s)

theorem descend_step (f : Nat) (hd : DescendOk f) (hb : BinLoopOk f) (he : ExprListOk f) :
    DescendOk (f+1) := by
  intro vm p s hf
  simp only [descend]
  nf_auto

theorem binLoop_step (f : Nat) (hd : DescendOk f) (hb : BinLoopOk f) : BinLoopOk (f+1) := by
  intro vm p l s hf
  simp only [binLoop]
  nf_auto

theorem exprList_step (f : Nat) (hd : DescendOk f) (he : ExprListOk f) : ExprListOk (f+1) := by
  intro vm s hf
  simp only [exprList]
  nf_auto

theorem expr_ok (f : Nat) : DescendOk f ∧ BinLoopOk f ∧ ExprListOk f := by
  induction f with
  | zero =>
    refine ⟨fun vm p s h => ?_, fun vm p l s h => ?_, fun vm s h => ?_⟩ <;> omega
  | succ f ih =>
    exact ⟨descend_step f ih.1 ih.2.1 ih.2.2, binLoop_step f ih.1 ih.2.1, exprList_step f ih.1 ih.2.2⟩

/-- use a specification lemma / hypothesis whose conclusion is `NF (f ..) s Q`; its arithmetic
side conditions are discharged by `nf_arith` -/
syntax "nf_use " term : tactic
macro_rules | `(tactic| nf_use $t) => `(tactic| ((refine NF.mono (by (with_reducible apply $t) <;> nf_arith) ?_); intro _ _ _))

set_option hygiene false in
macro_rules | `(tactic| nf_call) => `(tactic| nf_use ih)

theorem nf_descend (f : Nat) (vm : VarMap) (p : Nat) (s : PState) (h : 2 * rem s + 2 ≤ f) :
    NF (descend f vm p) s (fun _ s' => rem s' + 1 ≤ rem s) := (expr_ok f).1 vm p s h

theorem nf_expression (f : Nat) (s : PState) (h : 2 * rem s + 2 ≤ f) :
    NF (expression f) s (fun _ s' => rem s' + 1 ≤ rem s) := (expr_ok f).1 [] 0 s h

theorem nf_exprList (f : Nat) (vm : VarMap) (s : PState) (h : 2 * rem s + 3 ≤ f) :
    NF (exprList f vm) s (fun _ s' => rem s' + 1 ≤ rem s) := (expr_ok f).2.2 vm s h

macro_rules | `(tactic| nf_call) => `(tactic| nf_use nf_descend)
macro_rules | `(tactic| nf_call) => `(tactic| nf_use nf_expression)
macro_rules | `(tactic| nf_call) => `(tactic| nf_use nf_exprList)

/-! ### list parsers -/

theorem nf_printList (fuel n : Nat) : ∀ lf acc s, rem s + 1 ≤ n → 2 * rem s + 2 ≤ fuel →
    NF (printList fuel n lf acc) s (fun _ s' => rem s' ≤ rem s) := by
  induction n with
  | zero => intros; omega
  | succ n ih =>
    intro lf acc s h1 h2
    simp only [printList]
    nf_auto

macro_rules | `(tactic| nf_call) => `(tactic| nf_use nf_printList)

theorem nf_expectIdent (s : PState) : NF expectIdent s (fun _ s' => rem s' + 1 ≤ rem s) := by
  unfold expectIdent
  nf_auto

macro_rules | `(tactic| nf_call) => `(tactic| nf_use nf_expectIdent)

theorem nf_identList (n : Nat) : ∀ ex acc s, rem s + 1 ≤ n →
    NF (identList n ex acc) s (fun _ s' => rem s' ≤ rem s) := by
  induction n with
  | zero => intros; omega
  | succ n ih =>
    intro ex acc s h1
    simp only [identList]
    nf_auto

macro_rules | `(tactic| nf_call) => `(tactic| nf_use nf_identList)

theorem nf_expectVar (fuel : Nat) (s : PState) (h : 2 * rem s + 2 ≤ fuel) :
    NF (expectVar fuel) s (fun _ s' => rem s' + 1 ≤ rem s) := by
  unfold expectVar
  nf_auto

macro_rules | `(tactic| nf_call) => `(tactic| nf_use nf_expectVar)

theorem nf_varList (fuel n : Nat) : ∀ s, rem s + 1 ≤ n → 2 * rem s + 2 ≤ fuel →
    NF (varList fuel n) s (fun _ s' => rem s' + 1 ≤ rem s) := by
  induction n with
  | zero => intros; omega
  | succ n ih =>
    intro s h1 h2
    simp only [varList]
    nf_auto

macro_rules | `(tactic| nf_call) => `(tactic| nf_use nf_varList)

theorem nf_maybeLineNumber (s : PState) :
    NF maybeLineNumber s (fun r s' => rem s' + osz r ≤ rem s) := by
  unfold maybeLineNumber
  nf_step
  nf_step
  split <;> nf_auto


macro_rules | `(tactic| nf_call) => `(tactic| nf_use nf_maybeLineNumber)

theorem nf_expectLineNumber (s : PState) :
    NF expectLineNumber s (fun _ s' => rem s' + 1 ≤ rem s) := by
  unfold expectLineNumber
  nf_auto

macro_rules | `(tactic| nf_call) => `(tactic| nf_use nf_expectLineNumber)

theorem nf_lineNumberList (n : Nat) : ∀ ex acc s, rem s + 1 ≤ n →
    NF (lineNumberList n ex acc) s (fun _ s' => rem s' ≤ rem s) := by
  induction n with
  | zero => intros; omega
  | succ n ih =>
    intro ex acc s h1
    simp only [lineNumberList]
    nf_auto

macro_rules | `(tactic| nf_call) => `(tactic| nf_use nf_lineNumberList)

theorem nf_lineNumberRange (s : PState) :
    NF lineNumberRange s (fun _ s' => rem s' ≤ rem s) := by
  unfold lineNumberRange
  nf_auto

macro_rules | `(tactic| nf_call) => `(tactic| nf_use nf_lineNumberRange)

theorem nf_varRange (s : PState) : NF varRange s (fun _ s' => rem s' ≤ rem s) := by
  unfold varRange
  nf_auto

macro_rules | `(tactic| nf_call) => `(tactic| nf_use nf_varRange)

theorem nf_skipToEnd (n : Nat) : ∀ s, rem s + 1 ≤ n →
    NF (skipToEnd n) s (fun _ s' => rem s' ≤ rem s) := by
  induction n with
  | zero => intros; omega
  | succ n ih =>
    intro s h1
    simp only [skipToEnd]
    refine NF.bind (NF.mono (nf_peek s) ?_)
    intro t s1 h
    cases t with
    | none => exact NF.pure (by omega)
    | some t => nf_auto

macro_rules | `(tactic| nf_call) => `(tactic| nf_use nf_skipToEnd)

/-! ### statements -/

theorem nf_letStmt (fuel : Nat) (b : Bool) (s : PState) (h : 2 * rem s + 2 ≤ fuel) :
    NF (letStmt fuel b) s (fun _ s' => rem s' + 1 ≤ rem s) := by
  unfold letStmt
  nf_auto

theorem nf_defStmt (fuel : Nat) (s : PState) (h : 2 * rem s + 2 ≤ fuel) :
    NF (defStmt fuel) s (fun _ s' => rem s' ≤ rem s) := by
  unfold defStmt
  nf_auto

theorem nf_inputStmt (fuel : Nat) (s : PState) (h : 2 * rem s + 2 ≤ fuel) :
    NF (inputStmt fuel) s (fun _ s' => rem s' ≤ rem s) := by
  unfold inputStmt
  nf_auto

theorem nf_renumStmt (s : PState) : NF renumStmt s (fun _ s' => rem s' ≤ rem s) := by
  unfold renumStmt
  nf_auto

macro_rules | `(tactic| nf_call) => `(tactic| nf_use nf_letStmt)
macro_rules | `(tactic| nf_call) => `(tactic| nf_use nf_defStmt)
macro_rules | `(tactic| nf_call) => `(tactic| nf_use nf_inputStmt)
macro_rules | `(tactic| nf_call) => `(tactic| nf_use nf_renumStmt)

abbrev StatementsOk (f : Nat) : Prop :=
  ∀ ec acc s, 2 * rem s + 5 ≤ f → NF (statements f ec acc) s (fun _ s' => rem s' ≤ rem s)
abbrev StatementOk (f : Nat) : Prop :=
  ∀ s, 2 * rem s + 4 ≤ f → NF (statement f) s (fun _ s' => rem s' + 1 ≤ rem s)

set_option hygiene false in
macro_rules | `(tactic| nf_call) => `(tactic| nf_use hss)
set_option hygiene false in
macro_rules | `(tactic| nf_call) => `(tactic| nf_use hs)

theorem nf_ifStmt (f : Nat) (hss : StatementsOk f) (s : PState) (h : 2 * rem s + 5 ≤ f) :
    NF (ifStmt f) s (fun _ s' => rem s' ≤ rem s) := by
  unfold ifStmt
  nf_auto

set_option hygiene false in
macro_rules | `(tactic| nf_call) => `(tactic| nf_use (nf_ifStmt _ hss))

theorem statements_step (f : Nat) (hss : StatementsOk f) (hs : StatementOk f) :
    StatementsOk (f+1) := by
  intro ec acc s h
  simp only [statements]
  nf_auto

theorem statement_step (f : Nat) (hss : StatementsOk f) : StatementOk (f+1) := by
  intro s h
  simp only [statement]
  nf_auto

theorem stmt_ok (f : Nat) : StatementsOk f ∧ StatementOk f := by
  induction f with
  | zero => refine ⟨fun ec acc s h => ?_, fun s h => ?_⟩ <;> omega
  | succ f ih => exact ⟨statements_step f ih.1 ih.2, statement_step f ih.1⟩

theorem nf_statements (f : Nat) (ec : Bool) (acc : List Stmt) (s : PState) (h : 2 * rem s + 5 ≤ f) :
    NF (statements f ec acc) s (fun _ s' => rem s' ≤ rem s) := (stmt_ok f).1 ec acc s h

theorem nf_statement (f : Nat) (s : PState) (h : 2 * rem s + 4 ≤ f) :
    NF (statement f) s (fun _ s' => rem s' + 1 ≤ rem s) := (stmt_ok f).2 s h

macro_rules | `(tactic| nf_call) => `(tactic| nf_use nf_statements)

/-! ### the top level -/

theorem NF.run_error {α β} {m : PM α} {s : PState} {Q : α → PState → Prop} (h : NF m s Q)
    {g : α × PState → β} {e : Error} (he : (m.run s).map g = .error e) : e.isFault = false := by
  unfold NF at h
  simp only [StateT.run] at he
  cases hm : m s with
  | ok p => rw [hm] at he; cases he
  | error e' => rw [hm] at h he; cases he; exact h

/-- The parser never runs out of fuel (never reports the `fault` that stands for a Rust panic):
every error of `parseTokens` is an ordinary BASIC error. -/
theorem parseTokens_never_faults (ts : List Token) (e : Error)
    (h : Parse.parseTokens ts = .error e) : e.isFault = false := by
  unfold parseTokens at h
  refine NF.run_error (Q := fun _ _ => True) ?_ h
  have h0 : rem { toks := ts } = ts.length := by simp [rem]
  have hf : fuelFor ts = 6 * ts.length + 20 := rfl
  nf_auto

theorem parse_never_faults (ln : Option Nat) (ts : List Token) (e : Error)
    (h : Parse.parse ln ts = .error e) : e.isFault = false := by
  unfold parse at h
  split at h
  · cases h
  · next e' heq =>
    cases h
    exact parseTokens_never_faults ts e' heq

/-! ### non-vacuity -/

/-- `(code, isFault)` of a failed parse -/
def errInfo {α} : Except Error α → Option (Nat × Bool)
  | .error e => some (e.code, e.isFault)
  | .ok _ => none

/-- `PRINT ((` fails, with an ordinary syntax error -/
example : errInfo (parseTokens [.word .print, .lparen, .lparen]) = some (Code.syntaxError, false) := by
  unfold parseTokens
  simp only [fuelFor, List.length_cons, List.length_nil]
  simp only [fun a b => statements.eq_2 a b 37, statement.eq_2 36]
  decide

/-- `PRINT ((((((((((((` (nesting depth 12) fails with a syntax error, not with a fault
(the statement parsers are defined by well-founded recursion, so they are unfolded with their
equation lemmas; the rest is evaluated by the kernel) -/
example : errInfo (parseTokens (.word .print :: List.replicate 12 .lparen)) =
    some (Code.syntaxError, false) := by
  unfold parseTokens
  simp only [fuelFor, List.length_cons, List.length_replicate]
  simp only [fun a b => statements.eq_2 a b 97, statement.eq_2 96]
  decide +kernel

/-- the fault is reachable in the model when the fuel is too small for the input: the theorem
is a statement about `fuelFor`, not a by-product of the modelling -/
example : errInfo ((descend 3 [] 0).run { toks := List.replicate 12 .lparen }) =
    some (Code.fault, true) := rfl

/-- `IF 1 THEN PRINT` (statement recursion through `ifStmt`) parses -/
example : (parseTokens [.word .if, .literal (.integer ['1']), .word .then, .word .print]).toBool
    = true := by
  unfold parseTokens
  simp only [fuelFor, List.length_cons, List.length_nil]
  simp only [fun a b => statements.eq_2 a b 43, statement.eq_2 42, ifStmt.eq_1 42,
    fun a b => statements.eq_2 a b 41, statement.eq_2 40, fun a b => statements.eq_2 a b 40,
    fun a b => statements.eq_2 a b 42]
  decide

end Lemmas.ParseNoFault
end Basic
