import BasicModel.Thm.C06
import BasicModel.Thm.C08
import BasicModel.Lemmas.ExprCompile
/-
  Assignment conversion (C02): `LET v = e` converts the value of `e` to the type of `v`.

  * `Spec.assignConv` — the documented conversion, written by hand: Integer ← ⌊float⌋ or OVERFLOW,
    Single ← Double rounded (IEEE: a Double beyond the Single range becomes an infinity, no error),
    Double ← Single widened, string ← string of at most 255 characters, string ↔ number TYPE MISMATCH;
  * `store_eq` — `Var.store` is: pool test, type of the name (suffix, else DEFtype letter), that
    conversion, `updateVal`;
  * `let_assign_*` — the compiled statement run on the VM (`Lemmas/ExprCompile.let_run`): the variable
    afterwards reads as the converted value, which has the TARGET's type; every other variable is
    untouched; on any error the variables are unchanged.
-/
set_option linter.unusedSimpArgs false
namespace Basic
namespace Spec
open F

/-- **the documented conversion on assignment**, by the type of the target -/
def assignConv : VarTy → Val → Res Val
  | .integer, .int n => .ok (.int n)
  | .integer, .sng b => match (Val.sng b).floorZ with
    | some z => if -32768 ≤ z ∧ z ≤ 32767 then .ok (.int (Int16.ofInt z)) else err Code.overflow
    | none => err Code.overflow
  | .integer, .dbl b => match (Val.dbl b).floorZ with
    | some z => if -32768 ≤ z ∧ z ≤ 32767 then .ok (.int (Int16.ofInt z)) else err Code.overflow
    | none => err Code.overflow
  | .single, .int n => .ok (.sng (b32 (i2s n)))
  | .single, .sng b => .ok (.sng b)
  | .single, .dbl b => .ok (.sng (b32 (d2s (f64 b))))
  | .double, .int n => .ok (.dbl (b64 (i2d n)))
  | .double, .sng b => .ok (.dbl (b64 (s2d (f32 b))))
  | .double, .dbl b => .ok (.dbl b)
  | .string, .str s =>
    if s.length > 255 then errMsg Code.stringTooLong "MAXIMUM STRING LENGTH IS 255" else .ok (.str s)
  | _, _ => err Code.typeMismatch

end Spec

namespace Lemmas.Assign
open Spec Var F Thm.C06 Thm.C08

/-! ### the conversion -/

/-- a converted value has the target's type -/
theorem assignConv_ty {t : VarTy} {x y : Val} (h : assignConv t x = .ok y) : y.ty = t.toTy := by
  cases t <;> cases x <;> simp only [assignConv, err, errMsg, Except.ok.injEq, reduceCtorEq] at h
  all_goals first
    | (subst h; rfl)
    | (split at h
       · split at h
         · cases h; rfl
         · cases h
       · cases h)
    | (split at h
       · cases h
       · cases h; rfl)

/-- a value of the target's type is stored unchanged (a string: when it has at most 255 characters) -/
theorem assignConv_same {t : VarTy} {x : Val} (hx : x.ty = t.toTy)
    (hs : ∀ s, x = .str s → s.length ≤ 255) : assignConv t x = .ok x := by
  cases t <;> cases x <;> simp [Val.ty, VarTy.toTy] at hx <;> simp only [assignConv]
  rename_i s
  have := hs s rfl
  rw [if_neg (by omega)]

/-- Integer target ← float: the floor, or OVERFLOW (the conversion of `Thm.C08.float_to_int`) -/
theorem assignConv_integer_float (x : Val) (hx : x.ty = .sng ∨ x.ty = .dbl) :
    assignConv .integer x = match x.toI16 with
      | .ok n => .ok (.int n)
      | .error e => .error e := by
  cases x <;> simp [Val.ty] at hx
  · rename_i b
    simp only [assignConv, Val.toI16]
    cases (Val.sng b).floorZ with
    | none => rfl
    | some z => by_cases hz : -32768 ≤ z ∧ z ≤ 32767 <;> simp only [hz, if_true, if_false] <;> rfl
  · rename_i b
    simp only [assignConv, Val.toI16]
    cases (Val.dbl b).floorZ with
    | none => rfl
    | some z => by_cases hz : -32768 ≤ z ∧ z ≤ 32767 <;> simp only [hz, if_true, if_false] <;> rfl

/-- … and the Integer stored is exactly ⌊x⌋ -/
theorem assignConv_integer_floor (x : Val) (hx : x.ty = .sng ∨ x.ty = .dbl) (y : Val)
    (h : assignConv .integer x = .ok y) : ∃ n, y = .int n ∧ x.floorZ = some n.toInt := by
  rw [assignConv_integer_float x hx] at h
  cases ht : x.toI16 with
  | error e => simp [ht] at h
  | ok n =>
    simp only [ht, Except.ok.injEq] at h
    exact ⟨n, h.symm, float_to_int_exact x n ht hx⟩

/-- … OVERFLOW exactly when ⌊x⌋ is outside −32768..32767, or `x` is a NaN or an infinity -/
theorem assignConv_integer_overflow (x : Val) (hx : x.ty = .sng ∨ x.ty = .dbl)
    (hz : ∀ z, x.floorZ = some z → ¬ InRange z) : assignConv .integer x = err Code.overflow := by
  rw [assignConv_integer_float x hx, float_to_int x hx]
  cases hf : x.floorZ with
  | none => rfl
  | some z => simp only []; rw [if_neg (hz z hf)]; rfl

/-- Single target: an Integer is converted exactly (`i16 as f32`), a Double is ROUNDED to Single
    (`f64 as f32`: nearest, ties to even; beyond the Single range the result is an infinity — there is
    no OVERFLOW for floats), a Single is stored as it is -/
theorem assignConv_single (x : Val) (hx : x.isNumeric = true) :
    assignConv .single x = .ok (match x with
      | .int n => .sng (b32 (i2s n))
      | .dbl b => .sng (b32 (d2s (f64 b)))
      | v => v) := by
  cases x <;> simp [Val.isNumeric] at hx <;> rfl

/-- Double target: an Integer and a Single are WIDENED (`i16 as f64`, `f32 as f64`, exact), a Double
    is stored as it is -/
theorem assignConv_double (x : Val) (hx : x.isNumeric = true) :
    assignConv .double x = .ok (match x with
      | .int n => .dbl (b64 (i2d n))
      | .sng b => .dbl (b64 (s2d (f32 b)))
      | v => v) := by
  cases x <;> simp [Val.isNumeric] at hx <;> rfl

/-- a number into a string variable, a string into a numeric variable: TYPE MISMATCH -/
theorem assignConv_mismatch (t : VarTy) (x : Val) :
    (t = .string → x.isNumeric = true → assignConv t x = err Code.typeMismatch) ∧
    (t ≠ .string → ∀ s, x = .str s → assignConv t x = err Code.typeMismatch) := by
  constructor
  · rintro rfl hx; cases x <;> simp [Val.isNumeric] at hx <;> rfl
  · rintro ht s rfl; cases t <;> first | rfl | exact absurd rfl ht

/-- a string of more than 255 characters: STRING TOO LONG -/
theorem assignConv_string_too_long (s : Str) (h : 255 < s.length) :
    assignConv .string (.str s) = errMsg Code.stringTooLong "MAXIMUM STRING LENGTH IS 255" := by
  simp only [assignConv]; rw [if_pos h]

theorem assignConv_string_ok (s : Str) (h : s.length ≤ 255) : assignConv .string (.str s) = .ok (.str s) := by
  simp only [assignConv]; rw [if_neg (by omega)]

/-- the only errors of the conversion are OVERFLOW, TYPE MISMATCH and STRING TOO LONG -/
theorem assignConv_errors {t : VarTy} {x : Val} {e : Error} (h : assignConv t x = .error e) :
    e.code = Code.overflow ∨ e.code = Code.typeMismatch ∨ e.code = Code.stringTooLong := by
  cases t <;> cases x <;> simp only [assignConv, err, errMsg, reduceCtorEq] at h
  all_goals first
    | (cases h; exact .inr (.inl rfl))
    | (split at h
       · split at h
         · cases h
         · cases h; exact .inl rfl
       · cases h; exact .inl rfl)
    | (split at h
       · cases h; exact .inr (.inr rfl)
       · cases h)

/-! ### `Var.store` is that conversion -/

theorem insertInteger_float (v : Var) (n : Str) (x : Val) (hx : x.ty = .sng ∨ x.ty = .dbl) :
    v.insertInteger n x = match assignConv .integer x with
      | .ok y => .ok (v.updateVal n y)
      | .error e => .error e := by
  cases x <;> simp [Val.ty] at hx
  · rename_i b
    simp only [insertInteger, assignConv, Val.toI16, bind, Except.bind]
    cases (Val.sng b).floorZ with
    | none => rfl
    | some z => by_cases hz : -32768 ≤ z ∧ z ≤ 32767 <;> simp only [hz, if_true, if_false] <;> rfl
  · rename_i b
    simp only [insertInteger, assignConv, Val.toI16, bind, Except.bind]
    cases (Val.dbl b).floorZ with
    | none => rfl
    | some z => by_cases hz : -32768 ≤ z ∧ z ≤ 32767 <;> simp only [hz, if_true, if_false] <;> rfl

theorem insertTy_eq (v : Var) (t : VarTy) (n : Str) (x : Val) :
    v.insertTy t n x = match assignConv t x with
      | .ok y => .ok (v.updateVal n y)
      | .error e => .error e := by
  cases t <;> cases x
  case integer.sng b => exact insertInteger_float v n (.sng b) (.inl rfl)
  case integer.dbl b => exact insertInteger_float v n (.dbl b) (.inr rfl)
  all_goals
    simp only [insertTy, insertInteger, insertSingle, insertDouble, insertString, assignConv, Val.toI16,
      Val.toF32, Val.toF64, bind, Except.bind, err, errMsg]
  all_goals first
    | rfl
    | (split <;> rfl)

/-- **`Var.store`**: OUT OF MEMORY for a full pool and a name it does not hold yet (D23: a name the
    pool holds is never refused); otherwise the type `t` of the name decides the conversion, and the
    converted value is written by `updateVal` -/
theorem store_eq (v : Var) (n : Str) (x : Val) (t : VarTy) (ht : v.tyOf n = .ok (some t)) :
    v.store n x =
      if v.vars.length > 65535 ∧ AL.contains n v.vars = false then err Code.outOfMemory
      else match assignConv t x with
        | .ok y => .ok (v.updateVal n y)
        | .error e => .error e := by
  unfold store
  by_cases hc : v.vars.length > 65535 ∧ AL.contains n v.vars = false
  · rw [if_pos hc, if_pos ⟨hc.1, by rw [hc.2]; exact Bool.false_ne_true⟩]
  · rw [if_neg hc, if_neg (fun h => hc ⟨h.1, by simpa using h.2⟩)]
    simp only [ht, bind, Except.bind]
    exact insertTy_eq v t n x

/-! ### the type of the target: suffix, else DEFtype letter -/

theorem getLast?_concat' (b : Str) (c : Char) : (b ++ [c]).getLast? = some c := List.getLast?_concat

/-- a name ending in `%`, `!`, `#`, `$` has that type whatever DEFtype says -/
theorem tyOf_suffix (v : Var) (base : Str) :
    v.tyOf (base ++ ['%']) = .ok (some .integer) ∧ v.tyOf (base ++ ['!']) = .ok (some .single) ∧
    v.tyOf (base ++ ['#']) = .ok (some .double) ∧ v.tyOf (base ++ ['$']) = .ok (some .string) := by
  refine ⟨?_, ?_, ?_, ?_⟩ <;> simp [tyOf, suffixTy, List.getLast?_concat]

/-- a name without a suffix has the type DEFtype gave its first letter (Single initially) -/
theorem tyOf_letter (v : Var) (c : Char) (cs : Str) (hc : 65 ≤ c.toNat ∧ c.toNat ≤ 90)
    (hs : suffixTy (c :: cs) = none) : v.tyOf (c :: cs) = .ok (some (v.types (c.toNat - 65))) := by
  have hl : letterIndex c = c.toNat - 65 := by simp [letterIndex, hc.1]
  have : letterIndex c < 26 := by rw [hl]; omega
  have h26 : c.toNat - 65 < 26 := by omega
  simp only [tyOf, hs, hl, h26, if_true]

theorem types_new (i : Nat) : Var.new.types i = .single := rfl

/-! ### what the variable reads as afterwards -/

/-- after `updateVal n y` with `y` of the type of `n`, the variable `n` reads as `y` (as the default
    of its type when `y` is that default, `-0.0` included) — a value of the target's type -/
theorem fetch_updateVal (v : Var) (n : Str) (t : VarTy) (y : Val) (ht : v.tyOf n = .ok (some t)) :
    (v.updateVal n y).fetch n = .ok (if isDefault y then t.default else y) := by
  have ht' : (v.updateVal n y).tyOf n = .ok (some t) := by
    rw [tyOf_congr (updateVal_types v n y)]; exact ht
  by_cases hd : isDefault y = true
  · rw [if_pos hd]
    exact fetch_default _ n t (by rw [updateVal_get_self, if_pos hd]) ht'
  · rw [if_neg hd]
    exact fetch_present _ n y (by rw [updateVal_get_self, if_neg hd])

theorem default_ty (t : VarTy) : t.default.ty = t.toTy := by cases t <;> rfl

theorem fetch_updateVal_ty (v : Var) (n : Str) (t : VarTy) (y : Val) (ht : v.tyOf n = .ok (some t))
    (hy : y.ty = t.toTy) : ∃ z, (v.updateVal n y).fetch n = .ok z ∧ z.ty = t.toTy := by
  refine ⟨_, fetch_updateVal v n t y ht, ?_⟩
  split
  · exact default_ty t
  · exact hy

theorem fetch_updateVal_ne (v : Var) {n k : Str} (h : k ≠ n) (y : Val) :
    (v.updateVal n y).fetch k = v.fetch k := by
  unfold fetch
  rw [updateVal_get_ne v h, tyOf_congr (updateVal_types v n y)]

/-! ### the compiled statement on the VM -/

open Lemmas.ExprCompile

section vm
variable (env : Env) (hie : Bool)

/-- the code of `LET name = e` -/
abbrev letCode (e : Expr) (name : Str) : List Opcode := flat e ++ [Opcode.pop name]

/-- **`LET v = e`, the value converts.**  From any machine state `s` (code in place, trace off, room on
    the stack, the pool not full) in which `e` evaluates to `x` and `x` converts to `y` for the type
    `t` of `v`: the run ends with `y` written under `v` by `updateVal`, nothing else changed; `y` has
    the TARGET's type; `v` then reads as `y` (as its default when `y` is one), a value of the target's
    type; every other variable reads as before -/
theorem let_assign_ok {e : Expr} (hp : Pure e) (name : Str) (s : Runtime)
    (hcode : CodeAt s.program.link.ops s.pc (letCode e name)) (htr : s.tron = false)
    (hroom : s.stack.size + (flat e).length ≤ 65535)
    (t : VarTy) (ht : s.vars.tyOf name = .ok (some t)) (hpool : s.vars.vars.length ≤ 65535)
    (x y : Val) (hx : eval s.vars e = .ok x) (hy : assignConv t x = .ok y) :
    runOps env hie (letCode e name) s =
        (.ok .continue, { s with pc := s.pc + ((flat e).length + 1), vars := s.vars.updateVal name y }) ∧
      y.ty = t.toTy ∧
      (s.vars.updateVal name y).fetch name = .ok (if isDefault y then t.default else y) ∧
      (∃ z, (s.vars.updateVal name y).fetch name = .ok z ∧ z.ty = t.toTy) ∧
      (∀ k, k ≠ name → (s.vars.updateVal name y).fetch k = s.vars.fetch k) := by
  have hst : s.vars.store name x = .ok (s.vars.updateVal name y) := by
    rw [store_eq _ _ _ t ht, if_neg (fun h => by omega), hy]
  have hty := assignConv_ty hy
  refine ⟨?_, hty, fetch_updateVal _ _ t y ht, fetch_updateVal_ty _ _ t y ht hty,
    fun k hk => fetch_updateVal_ne _ hk y⟩
  rw [let_run env hie hp name s hcode htr hroom x hx, hst]

/-- **`LET v = e`, the value does not convert** (OVERFLOW, TYPE MISMATCH, STRING TOO LONG): the run
    stops in that error with the variables — and everything but `pc` — as they were -/
theorem let_assign_conv_error {e : Expr} (hp : Pure e) (name : Str) (s : Runtime)
    (hcode : CodeAt s.program.link.ops s.pc (letCode e name)) (htr : s.tron = false)
    (hroom : s.stack.size + (flat e).length ≤ 65535)
    (t : VarTy) (ht : s.vars.tyOf name = .ok (some t)) (hpool : s.vars.vars.length ≤ 65535)
    (x : Val) (err : Error) (hx : eval s.vars e = .ok x) (hy : assignConv t x = .error err) :
    runOps env hie (letCode e name) s = (.error err, { s with pc := s.pc + ((flat e).length + 1) }) := by
  have hst : s.vars.store name x = .error err := by
    rw [store_eq _ _ _ t ht, if_neg (fun h => by omega), hy]
  rw [let_run env hie hp name s hcode htr hroom x hx, hst]

/-- a full pool and a variable it does not hold yet: OUT OF MEMORY, nothing stored -/
theorem let_assign_full {e : Expr} (hp : Pure e) (name : Str) (s : Runtime)
    (hcode : CodeAt s.program.link.ops s.pc (letCode e name)) (htr : s.tron = false)
    (hroom : s.stack.size + (flat e).length ≤ 65535) (hpool : 65535 < s.vars.vars.length)
    (hnew : AL.contains name s.vars.vars = false)
    (x : Val) (hx : eval s.vars e = .ok x) :
    runOps env hie (letCode e name) s =
      (.error (Error.mk' Code.outOfMemory), { s with pc := s.pc + ((flat e).length + 1) }) := by
  rw [let_run env hie hp name s hcode htr hroom x hx, store_full _ _ _ hpool hnew]
  rfl

/-- **`LET v = e`, the expression fails**: the run stops in the expression's error before the store is
    reached; the variables are as they were -/
theorem let_assign_eval_error {e : Expr} (hp : Pure e) (name : Str) (s : Runtime)
    (hcode : CodeAt s.program.link.ops s.pc (letCode e name)) (htr : s.tron = false)
    (hroom : s.stack.size + (flat e).length ≤ 65535)
    (err : Error) (hx : eval s.vars e = .error err) :
    ∃ s', runOps env hie (letCode e name) s = (.error err, s') ∧ s'.vars = s.vars := by
  have h := (flat_correct env hie hp s hcode.left htr hroom).2 err hx
  obtain ⟨k, s1, s2, hk, h1, h2, hv, -, -⟩ := h
  refine ⟨s2, ?_, hv⟩
  exact runSteps_error_mono env hie k _ s s1 s2 err h1 h2 (by simp; omega)

end vm

end Lemmas.Assign
end Basic
