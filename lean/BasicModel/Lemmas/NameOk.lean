import BasicModel.Model.Runtime
/-
  C03, "the modelled panic sites are unreachable": the vocabulary.

  `Letter1 s`  — `s` starts with an upper-case ASCII letter (what `types[c - 'A']` of var.rs needs);
  `NameOk s`   — `s` is empty or `Letter1` (the empty name is the dummy of a bare `NEXT` and of a
                 variable whose code generation failed; `tyOf []` is `ok none`, not a fault);
  `VarOk / ExprOk / StmtOk` — every identifier in an AST node is `NameOk`, every *array* name `Letter1`
                 (an array element is stored under the key `name,i,…,name`; with an empty name the
                 key would start with a comma);
  `OpOk`       — the same for the name operands of an opcode.
-/
namespace Basic

/-- the name starts with an upper-case ASCII letter -/
def Letter1 (s : Str) : Prop := ∃ c r, s = c :: r ∧ 65 ≤ c.toNat ∧ c.toNat ≤ 90

/-- empty, or starts with an upper-case ASCII letter -/
def NameOk (s : Str) : Prop := s = [] ∨ Letter1 s

theorem Letter1.nameOk {s : Str} (h : Letter1 s) : NameOk s := .inr h
theorem NameOk.nil : NameOk [] := .inl rfl

theorem Letter1.append {s : Str} (h : Letter1 s) (t : Str) : Letter1 (s ++ t) := by
  obtain ⟨c, r, rfl, h1, h2⟩ := h
  exact ⟨c, r ++ t, rfl, h1, h2⟩

theorem Letter1.ne_nil {s : Str} (h : Letter1 s) : s ≠ [] := by
  obtain ⟨c, r, rfl, _⟩ := h; exact List.cons_ne_nil _ _

theorem NameOk.letter1 {s : Str} (h : NameOk s) (hne : s ≠ []) : Letter1 s := by
  rcases h with h | h
  · exact absurd h hne
  · exact h

instance (s : Str) : Decidable (Letter1 s) :=
  match s with
  | [] => isFalse (fun ⟨_, _, h, _⟩ => by cases h)
  | c :: r =>
    if h : 65 ≤ c.toNat ∧ c.toNat ≤ 90 then isTrue ⟨c, r, rfl, h.1, h.2⟩
    else isFalse (fun ⟨c', r', he, h1, h2⟩ => by cases he; exact h ⟨h1, h2⟩)

instance (s : Str) : Decidable (NameOk s) := by unfold NameOk; exact inferInstance

/-! ### AST -/

mutual
def VarOk : Variable → Prop
  | .unary _ i => NameOk i.name
  | .array _ i es => Letter1 i.name ∧ ExprsOk es
def ExprOk : Expr → Prop
  | .var v => VarOk v
  | .neg _ e => ExprOk e
  | .not _ e => ExprOk e
  | .bin _ _ l r => ExprOk l ∧ ExprOk r
  | .single _ _ => True
  | .double _ _ => True
  | .integer _ _ => True
  | .string _ _ => True
def ExprsOk : List Expr → Prop
  | [] => True
  | e :: es => ExprOk e ∧ ExprsOk es
end

theorem exprsOk_iff (es : List Expr) : ExprsOk es ↔ ∀ e ∈ es, ExprOk e := by
  induction es with
  | nil => simp [ExprsOk]
  | cons e es ih => simp [ExprsOk, ih]

def VarsOk (vs : List Variable) : Prop := ∀ v ∈ vs, VarOk v

mutual
def StmtOk : Stmt → Prop
  | .data _ es => ExprsOk es
  | .print _ es => ExprsOk es
  | .def _ v ps e => VarOk v ∧ VarsOk ps ∧ ExprOk e
  | .defdbl _ a b => VarOk a ∧ VarOk b
  | .defint _ a b => VarOk a ∧ VarOk b
  | .defsng _ a b => VarOk a ∧ VarOk b
  | .defstr _ a b => VarOk a ∧ VarOk b
  | .swap _ a b => VarOk a ∧ VarOk b
  | .mid _ v e1 e2 e3 => VarOk v ∧ ExprOk e1 ∧ ExprOk e2 ∧ ExprOk e3
  | .for _ v e1 e2 e3 => VarOk v ∧ ExprOk e1 ∧ ExprOk e2 ∧ ExprOk e3
  | .gosub _ e => ExprOk e
  | .goto _ e => ExprOk e
  | .load _ e => ExprOk e
  | .restore _ e => ExprOk e
  | .run _ e => ExprOk e
  | .save _ e => ExprOk e
  | .while _ e => ExprOk e
  | .if _ p th el => ExprOk p ∧ StmtsOk th ∧ StmtsOk el
  | .let _ v e => VarOk v ∧ ExprOk e
  | .delete _ a b => ExprOk a ∧ ExprOk b
  | .list _ a b => ExprOk a ∧ ExprOk b
  | .input _ e1 e2 vs => ExprOk e1 ∧ ExprOk e2 ∧ VarsOk vs
  | .onGoto _ e ls => ExprOk e ∧ ExprsOk ls
  | .onGosub _ e ls => ExprOk e ∧ ExprsOk ls
  | .renum _ a b st => ExprOk a ∧ ExprOk b ∧ ExprOk st
  | .dim _ vs => VarsOk vs
  | .erase _ vs => VarsOk vs
  | .next _ vs => VarsOk vs
  | .read _ vs => VarsOk vs
  | .clear _ => True
  | .cls _ => True
  | .cont _ => True
  | .end _ => True
  | .new _ => True
  | .return _ => True
  | .stop _ => True
  | .troff _ => True
  | .tron _ => True
  | .wend _ => True
def StmtsOk : List Stmt → Prop
  | [] => True
  | s :: ss => StmtOk s ∧ StmtsOk ss
end

theorem stmtsOk_iff (ss : List Stmt) : StmtsOk ss ↔ ∀ s ∈ ss, StmtOk s := by
  induction ss with
  | nil => simp [StmtsOk]
  | cons s ss ih => simp [StmtsOk, ih]

/-! ### opcodes -/

/-- the name operands of an opcode: array names `Letter1`, the others `NameOk` -/
def OpOk : Opcode → Prop
  | .push n | .pop n | .eraseArr n | .next n | .def n | .fn n | .input n => NameOk n
  | .pushArr n | .popArr n | .dimArr n => Letter1 n
  | _ => True

def OpsOk (ops : Array Opcode) : Prop := ∀ op ∈ ops.toList, OpOk op

end Basic
