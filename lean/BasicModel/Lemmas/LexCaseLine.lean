import BasicModel.Lemmas.LexCase
import BasicModel.Lemmas.LexPost
/-
  Case folding for whole lines: the post-passes and the line-number prefix commute with
  upper-casing, hence `lex (s.map upper)` and `lex s` agree up to the case of the payloads.
-/
set_option linter.unusedSimpArgs false
namespace Basic
namespace Lex

/-! ### the post-passes commute with case folding of the payloads -/

def isPayload : Token → Bool
  | .unknown _ | .literal (.string _) => true
  | _ => false

theorem foldTok_of_not_payload (t : Token) (h : isPayload t = false) : foldTok t = t := by
  unfold foldTok; split <;> simp_all [isPayload]

theorem isPayload_foldTok (t : Token) : isPayload (foldTok t) = isPayload t := by
  unfold foldTok; split <;> simp_all [isPayload]

theorem isWord_foldTok (t : Token) : (foldTok t).isWord = t.isWord := by
  unfold foldTok; split <;> rfl

theorem tripleMatch_payload1 (a b c : Token) (h : isPayload a = true) : tripleMatch a b c = none := by
  unfold tripleMatch; split <;> simp_all [isPayload]
theorem tripleMatch_payload2 (a b c : Token) (h : isPayload b = true) : tripleMatch a b c = none := by
  unfold tripleMatch; split <;> simp_all [isPayload]
theorem tripleMatch_payload3 (a b c : Token) (h : isPayload c = true) : tripleMatch a b c = none := by
  unfold tripleMatch; split <;> simp_all [isPayload]

theorem tripleMatch_foldTok (a b c : Token) :
    tripleMatch (foldTok a) (foldTok b) (foldTok c) = tripleMatch a b c := by
  cases ha : isPayload a with
  | true => rw [tripleMatch_payload1 a b c ha, tripleMatch_payload1 _ _ _ (by rw [isPayload_foldTok, ha])]
  | false =>
    cases hb : isPayload b with
    | true => rw [tripleMatch_payload2 a b c hb, tripleMatch_payload2 _ _ _ (by rw [isPayload_foldTok, hb])]
    | false =>
      cases hc : isPayload c with
      | true => rw [tripleMatch_payload3 a b c hc, tripleMatch_payload3 _ _ _ (by rw [isPayload_foldTok, hc])]
      | false => rw [foldTok_of_not_payload a ha, foldTok_of_not_payload b hb, foldTok_of_not_payload c hc]

theorem tripleMatch_fixed (a b c t : Token) (h : tripleMatch a b c = some t) : foldTok t = t := by
  unfold tripleMatch at h
  split at h <;> first
    | (rw [← Option.some.inj h]; rfl)
    | (split at h <;> first | (rw [← Option.some.inj h]; rfl) | exact absurd h (by simp))
    | exact absurd h (by simp)

theorem doubleMatch_payload1 (a b : Token) (h : isPayload a = true) : doubleMatch a b = none := by
  unfold doubleMatch; split <;> simp_all [isPayload]
theorem doubleMatch_payload2 (a b : Token) (h : isPayload b = true) : doubleMatch a b = none := by
  unfold doubleMatch; split <;> simp_all [isPayload]

theorem doubleMatch_foldTok (a b : Token) : doubleMatch (foldTok a) (foldTok b) = doubleMatch a b := by
  cases ha : isPayload a with
  | true => rw [doubleMatch_payload1 a b ha, doubleMatch_payload1 _ _ (by rw [isPayload_foldTok, ha])]
  | false =>
    cases hb : isPayload b with
    | true => rw [doubleMatch_payload2 a b hb, doubleMatch_payload2 _ _ (by rw [isPayload_foldTok, hb])]
    | false => rw [foldTok_of_not_payload a ha, foldTok_of_not_payload b hb]

theorem doubleMatch_fixed (a b t : Token) (h : doubleMatch a b = some t) : foldTok t = t := by
  unfold doubleMatch at h
  split at h <;> first | (rw [← Option.some.inj h]; rfl) | exact absurd h (by simp)

theorem tripleLocs_foldTok (ts : List Token) (i : Nat) :
    tripleLocs (ts.map foldTok) i = tripleLocs ts i := by
  induction ts generalizing i with
  | nil => rfl
  | cons a ts ih =>
    cases ts with
    | nil => rfl
    | cons b ts =>
      cases ts with
      | nil => rfl
      | cons c rest =>
        have := ih (i + 1)
        simp only [List.map_cons] at this ⊢
        simp only [tripleLocs, tripleMatch_foldTok, this]

theorem tripleLocs_fixed (ts : List Token) (i : Nat) : ∀ loc ∈ tripleLocs ts i, foldTok loc.2 = loc.2 := by
  induction ts generalizing i with
  | nil => intro loc h; simp [tripleLocs] at h
  | cons a ts ih =>
    cases ts with
    | nil => intro loc h; simp [tripleLocs] at h
    | cons b ts =>
      cases ts with
      | nil => intro loc h; simp [tripleLocs] at h
      | cons c rest =>
        intro loc h
        simp only [tripleLocs] at h
        split at h
        · rename_i t ht
          simp only [List.mem_cons] at h
          rcases h with h | h
          · subst h; exact tripleMatch_fixed a b c t ht
          · exact ih (i + 1) loc h
        · exact ih (i + 1) loc h

theorem applyLocs_foldTok (n : Nat) (locs : List (Nat × Token)) (ts : List Token)
    (h : ∀ loc ∈ locs, foldTok loc.2 = loc.2) :
    applyLocs n locs (ts.map foldTok) = (applyLocs n locs ts).map foldTok := by
  induction locs with
  | nil => rfl
  | cons loc locs ih =>
    simp only [applyLocs, List.foldr_cons] at ih ⊢
    rw [ih (fun l hl => h l (by simp [hl]))]
    simp [splice, List.map_take, List.map_drop, h loc (by simp)]

theorem collapseTriples_foldTok (ts : List Token) :
    collapseTriples (ts.map foldTok) = (collapseTriples ts).map foldTok := by
  simp only [collapseTriples, tripleLocs_foldTok]
  exact applyLocs_foldTok 3 _ ts (tripleLocs_fixed ts 0)

theorem dblRec_foldTok (n : Nat) : ∀ ts : List Token, ts.length ≤ n →
    dblRec (ts.map foldTok) = (dblRec ts).map foldTok := by
  induction n with
  | zero => intro ts h; have : ts = [] := by cases ts <;> simp_all
            subst this; rfl
  | succ n ih =>
    intro ts h
    cases ts with
    | nil => rfl
    | cons a ts =>
      cases ts with
      | nil => rfl
      | cons b rest =>
        simp only [List.map_cons, dblRec, doubleMatch_foldTok]
        cases hm : doubleMatch a b with
        | none =>
          have := ih (b :: rest) (by simp at h ⊢; omega)
          simp only [List.map_cons] at this
          simp [this]
        | some t =>
          have := ih rest (by simp at h ⊢; omega)
          simp [this, doubleMatch_fixed a b t hm]

theorem collapseDoubles_foldTok (ts : List Token) :
    collapseDoubles (ts.map foldTok) = (collapseDoubles ts).map foldTok := by
  rw [collapseDoubles_eq, collapseDoubles_eq]; exact dblRec_foldTok _ ts (Nat.le_refl _)

theorem sepRec_foldTok (ts : List Token) : sepRec (ts.map foldTok) = (sepRec ts).map foldTok := by
  induction ts with
  | nil => rfl
  | cons a ts ih =>
    cases ts with
    | nil => rfl
    | cons b rest =>
      simp only [List.map_cons] at ih ⊢
      simp only [sepRec, isWord_foldTok]
      split
      · rw [ih]; rfl
      · rw [ih]; rfl

theorem separateWords_foldTok (ts : List Token) :
    separateWords (ts.map foldTok) = (separateWords ts).map foldTok := by
  rw [separateWords_eq, separateWords_eq]; exact sepRec_foldTok ts

theorem isUniWhite_upper (c : Char) : isUniWhite (upper c) = isUniWhite c := by
  by_cases h : 97 ≤ c.toNat ∧ c.toNat ≤ 122
  · have hu : (upper c).toNat = c.toNat - 32 := by rw [upper_toNat, if_pos h]
    have h1 : isUniWhite (upper c) = false := by
      simp only [isUniWhite, hu]; simp; omega
    have h2 : isUniWhite c = false := by
      simp only [isUniWhite]; simp; omega
    rw [h1, h2]
  · rw [upper_of_not_lower c h]

theorem trimEndStr_upper (s : Str) : trimEndStr (s.map upper) = (trimEndStr s).map upper := by
  have : (isUniWhite ∘ upper) = isUniWhite := by funext c; exact isUniWhite_upper c
  simp [trimEndStr, ← List.map_reverse, List.dropWhile_map, this]


theorem getLast?_map_foldTok (ts : List Token) : (ts.map foldTok).getLast? = ts.getLast?.map foldTok := by
  simp [List.getLast?_map]

theorem trimEndRev_foldTok (l : List Token) : trimEndRev (l.map foldTok) = (trimEndRev l).map foldTok := by
  induction l with
  | nil => rfl
  | cons t r ih =>
    cases t with
    | whitespace n => simpa [trimEndRev, foldTok] using ih
    | unknown s =>
      simp only [List.map_cons, foldTok, trimEndRev, trimEndStr_upper, List.isEmpty_map]
      split
      · exact ih
      · simp [foldTok, map_upper_upper]
    | literal x => cases x <;> simp [foldTok, trimEndRev]
    | _ => simp [foldTok, trimEndRev]

theorem trimEnd_foldTok (ts : List Token) : trimEnd (ts.map foldTok) = (trimEnd ts).map foldTok := by
  simp only [trimEnd, ← List.map_reverse, trimEndRev_foldTok]

theorem postPasses_foldTok (ts : List Token) : postPasses (ts.map foldTok) = (postPasses ts).map foldTok := by
  simp only [postPasses, trimEnd_foldTok, collapseTriples_foldTok, collapseDoubles_foldTok,
    separateWords_foldTok]

/-! ### the line-number prefix under case folding -/

theorem prefixLen_upper (cs : List Char) (b : Bool) : prefixLen (cs.map upper) b = prefixLen cs b := by
  induction cs generalizing b with
  | nil => rfl
  | cons c cs ih => simp only [List.map_cons, prefixLen, isWs_upper, isDigit_upper, ih]

theorem prefix_chars (cs : List Char) (b : Bool) :
    ∀ c ∈ cs.take (prefixLen cs b), isDigit c = true ∨ isWs c = true := by
  induction cs generalizing b with
  | nil => intro c h; simp [prefixLen] at h
  | cons d cs ih =>
    intro c h
    simp only [prefixLen] at h
    split at h
    · simp at h
    split at h
    · rename_i hd
      rw [Nat.add_comm, List.take_succ_cons] at h
      simp only [List.mem_cons] at h
      rcases h with h | h
      · subst h; exact Or.inl hd
      · exact ih true c h
    split at h
    · simp at h
    · rename_i hw
      rw [Nat.add_comm, List.take_succ_cons] at h
      simp only [List.mem_cons] at h
      rcases h with h | h
      · subst h; exact Or.inr (by simpa using hw)
      · exact ih b c h

theorem map_upper_of_prefix (l : List Char) (h : ∀ c ∈ l, isDigit c = true ∨ isWs c = true) :
    l.map upper = l := by
  induction l with
  | nil => rfl
  | cons c l ih =>
    have hc : upper c = c := by
      rcases h c (by simp) with h' | h'
      · exact upper_of_isDigit c h'
      · apply upper_of_not_lower; rw [isWs_iff] at h'; omega
    simp [hc, ih (fun x hx => h x (by simp [hx]))]

theorem splitLineNumber_upper (cs : List Char) :
    splitLineNumber (cs.map upper) = ((splitLineNumber cs).1, (splitLineNumber cs).2.map upper) := by
  have hp : (cs.map upper).take (prefixLen cs false) = cs.take (prefixLen cs false) := by
    rw [← List.map_take]; exact map_upper_of_prefix _ (prefix_chars cs false)
  unfold splitLineNumber
  simp only [prefixLen_upper, hp, ← List.map_drop]
  split
  · split
    · cases hd : cs.drop (prefixLen cs false) with
      | nil => rfl
      | cons x r =>
        have e : (upper x = ' ') = (x = ' ') := upper_eq_of_nonletter x ' ' (by decide) (by decide)
        by_cases hx : x = ' '
        · subst hx; rfl
        · have hx' : upper x ≠ ' ' := by intro hh; exact hx (e ▸ hh)
          simp only [List.map_cons]
          split
          · rename_i heq; exact absurd (List.cons.inj heq).1 hx'
          · split
            · rename_i heq; exact absurd (List.cons.inj heq).1 hx
            · rfl
    · rfl
  · rfl

/-- C16 for whole lines: the case of ASCII letters matters only inside remark text and string
    literals -/
theorem lex_upper (s : Str) :
    (lex (s.map upper)).1 = (lex s).1 ∧
    (lex (s.map upper)).2.map foldTok = (lex s).2.map foldTok := by
  simp only [lex, splitLineNumber_upper, rawTokens_eq, true_and]
  rw [← postPasses_foldTok, ← postPasses_foldTok, lexFrom_upper _ _ _ (Nat.le_refl _)]

end Lex
end Basic
