import BasicModel.Lemmas.Inv
/-
  The direct line `RUN` / `RUN n` compiles to code that starts with `Clear`, at `directAddress`.

  The parser itself is recursion on fuel and does not reduce in the kernel, so its result is a
  hypothesis: `Parse.parse none line.tokens = .ok [.run c (.single c2 bits)]` (what it returns
  for `RUN` — `bits` = -1.0 — and, via `lineExpr`, for `RUN n`).  Everything after the parser is
  proved: the generator's fragment starts with `Clear` and carries no DATA, `Link.append` puts it
  at the old end of the code, and neither `push End` nor `link` changes a `Clear`.
-/
namespace Basic
namespace Codegen
open Link
variable {α β : Type}

/-- the fragment under construction starts with `Clear` and has no DATA (and no statement
    fragment has been stacked) -/
def StartsClear (g : GState) : Prop := g.cur.ops[0]? = some .clear ∧ g.cur.data = #[] ∧ g.stmt = #[]

structure GK (m : GM α) : Prop where
  run : ∀ g, StartsClear g → StartsClear (m.run.run g).2

theorem GK.ret (a : α) : GK (pure a : GM α) := ⟨fun _ h => h⟩
theorem GK.lift (r : Except Error α) : GK (liftE r : GM α) := ⟨fun g h => by rw [g_liftE]; exact h⟩
theorem GK.seq {m : GM α} {f : α → GM β} (hm : GK m) (hf : ∀ a, GK (f a)) : GK (m >>= f) := by
  constructor
  intro g hg
  have h1 := hm.run g hg
  rw [g_bind]
  rcases h : m.run.run g with ⟨r, g'⟩
  rw [h] at h1
  cases r with
  | ok a => exact (hf a).run g' h1
  | error e => exact h1

theorem gk_lpush (op : Opcode) : GK (lpush op) := by
  constructor
  intro g hg
  simp only [lpush, g_bind, g_get, g_set, g_liftE]
  refine ⟨?_, hg.2.1, hg.2.2⟩
  show (g.cur.ops.push op)[0]? = some .clear
  have h0 : 0 < g.cur.ops.size := by
    apply Classical.byContradiction
    intro hn
    have := hg.1
    rw [Array.getElem?_eq_none (by omega)] at this
    cases this
  rw [Array.getElem?_push, if_neg (by omega)]
  exact hg.1

theorem gk_laddUnlinked (c : Col) (sym : Symbol) : GK (laddUnlinked c sym) := ⟨fun _ h => h⟩

/-- `pushRun` on an empty fragment: `Clear` first -/
theorem pushRun_startsClear (sub : Col) (ln : Option Nat) (g : GState) (h : g.cur.ops = #[])
    (hd : g.cur.data = #[]) (hst : g.stmt = #[]) : StartsClear ((pushRun sub ln).run.run g).2 := by
  have hfirst : StartsClear ((lpush Opcode.clear).run.run g).2 := by
    simp only [lpush, g_bind, g_get, g_set, g_liftE]
    refine ⟨?_, hd, hst⟩
    show (g.cur.ops.push Opcode.clear)[0]? = some .clear
    rw [h]; rfl
  unfold pushRun
  rw [g_bind]
  rcases hl : (lpush Opcode.clear).run.run g with ⟨r, g'⟩
  rw [hl] at hfirst
  cases r with
  | ok a =>
    refine GK.run ?_ g' hfirst
    dsimp only
    split
    · exact GK.seq (GK.lift _) fun _ => GK.seq (gk_laddUnlinked _ _) fun _ => gk_lpush _
    · exact gk_lpush _
  | error e => exact hfirst

/-- the one fragment generated for `RUN` / `RUN n` -/
theorem run_fragment (c c2 : Col) (bits : UInt32) :
    ∃ (col : Col) (frag : Link) (errs : List Error),
      (acceptStmts [.run c (.single c2 bits)] {}).g.stmt.toList = [(col, frag)] ∧
      (acceptStmts [.run c (.single c2 bits)] {}).errors = errs ∧
      frag.ops[0]? = some .clear ∧ frag.data = #[] := by
  have e1 : acceptStmts [.run c (.single c2 bits)] {} =
      visitStatement (.run c (.single c2 bits))
        { g := { expr := #[(c2, { ops := #[.literal (.sng bits)] })] }, errors := [] } := rfl
  rw [e1]
  -- the generator function, run on the empty fragment
  have key : StartsClear ((genStatement (.run c (.single c2 bits))).run.run
      { expr := #[(c2, ({ ops := #[.literal (.sng bits)] } : Link))], cur := {} }).2 := by
    simp only [genStatement]
    rw [g_bind]
    have hp : popExpr.run.run { expr := #[(c2, ({ ops := #[.literal (.sng bits)] } : Link))], cur := {} } =
        (.ok (c2, ({ ops := #[.literal (.sng bits)] } : Link)), { expr := #[], cur := {} }) := rfl
    rw [hp]
    dsimp only
    have hs : stringOfLink ({ ops := #[.literal (.sng bits)] } : Link) = none := rfl
    rw [hs]
    dsimp only
    cases lineNumberOfLink ({ ops := #[.literal (.sng bits)] } : Link) with
    | ok ln =>
      dsimp only
      rw [g_bind]
      have := pushRun_startsClear c2 ln { expr := #[], cur := {} } rfl rfl rfl
      rcases hr : (pushRun c2 ln).run.run { expr := #[], cur := {} } with ⟨r, g'⟩
      rw [hr] at this
      cases r <;> exact this
    | error e =>
      dsimp only
      rw [g_bind]
      have := pushRun_startsClear c2 none { expr := #[], cur := {} } rfl rfl rfl
      rcases hr : (pushRun c2 none).run.run { expr := #[], cur := {} } with ⟨r, g'⟩
      rw [hr] at this
      cases r <;> exact this
  unfold visitStatement runFresh
  dsimp only
  generalize (genStatement (.run c (.single c2 bits))).run.run
    { expr := #[(c2, ({ ops := #[.literal (.sng bits)] } : Link))], cur := {} } = x at key ⊢
  rcases x with ⟨r, g'⟩
  cases r with
  | ok col =>
    refine ⟨col, g'.cur, _, ?_, rfl, key.1, key.2.1⟩
    show (g'.stmt.push (col, g'.cur)).toList = _
    rw [key.2.2]; rfl
  | error e =>
    refine ⟨(0, 0), g'.cur, _, ?_, rfl, key.1, key.2.1⟩
    show (g'.stmt.push ((0, 0), g'.cur)).toList = _
    rw [key.2.2]; rfl

end Codegen

namespace Link

theorem push_keeps {l : Link} {i : Nat} {o : Opcode} (h : l.ops[i]? = some o) (op : Opcode) :
    (l.push op).1.ops[i]? = some o := by
  show (l.ops.push op)[i]? = some o
  have hi : i < l.ops.size := by
    apply Classical.byContradiction
    intro hn
    rw [Array.getElem?_eq_none (by omega)] at h
    cases h
  rw [Array.getElem?_push, if_neg (by omega)]
  exact h

/-- `linkOne` patches jumps, IFNOTs, return/next literals and RESTOREs — never a `Clear` -/
theorem linkOne_keeps_clear (l : Link) (a : Nat) (c : Col) (sym : Symbol) (i : Nat)
    (h : l.ops[i]? = some .clear) : (l.linkOne a c sym).1.ops[i]? = some .clear := by
  by_cases hia : i = a
  · subst hia
    unfold linkOne
    cases l.symbols.lookup sym with
    | none => dsimp only; split <;> exact h
    | some v =>
      rcases v with ⟨od, dd⟩
      dsimp only
      split <;> first
        | exact h
        | (rename_i heq; rw [h] at heq; cases heq)
  · exact ((linkOne_frame l a c sym).2.1 i hia).trans h

theorem link_keeps_clear (l : Link) (i : Nat) (h : l.ops[i]? = some .clear) :
    l.link.1.ops[i]? = some .clear := by
  have h1 : l.linkWhiles.1.ops[i]? = some .clear := h
  unfold Link.link
  generalize l.linkWhiles = lw at h1
  rcases lw with ⟨l1, errs1⟩
  dsimp only at h1 ⊢
  have key : ∀ (pending : List (Nat × (Col × Symbol))) (le : Link × List Error),
      le.1.ops[i]? = some .clear →
      (pending.foldl (fun (x : Link × List Error) (y : Nat × (Col × Symbol)) =>
        match x, y with
        | (l, errs), (a, (c, s)) =>
          match Link.linkOne l a c s with
          | (l, some e) => (l, errs ++ [e])
          | (l, none) => (l, errs)) le).1.ops[i]? = some .clear := by
    intro pending
    induction pending with
    | nil => intro le h; exact h
    | cons y rest ih =>
      intro le h
      rcases le with ⟨l, errs⟩
      rcases y with ⟨a, c, s⟩
      simp only [List.foldl_cons]
      have hf := linkOne_keeps_clear l a c s i h
      generalize Link.linkOne l a c s = lo at hf
      rcases lo with ⟨l', o⟩
      cases o with
      | none => exact ih (l', errs) hf
      | some e => exact ih (l', errs ++ [e]) hf
  exact key l1.unlinked ({ l1 with unlinked := [] }, errs1) h1

/-- in direct mode a DATA-less fragment is appended at the old end of the code -/
theorem append_at_end (l f : Link) (hf : f.data = #[]) :
    (l.append f).1.ops[l.ops.size]? = f.ops[0]? := by
  unfold Link.append
  rw [hf]
  simp only [Array.isEmpty_empty, Bool.not_true, Bool.and_false, Bool.false_eq_true, if_false]
  have : (l.ops ++ f.ops)[l.ops.size]? = f.ops[0]? := by
    rw [Array.getElem?_append_right (Nat.le_refl _), Nat.sub_self]
  split <;> exact this

end Link

namespace Program
open Link

theorem linkProg_keeps_clear (p : Program) (i : Nat) (h : p.link.ops[i]? = some .clear) :
    p.linkProg.link.ops[i]? = some .clear := by
  rw [linkProg_eq]
  have h1 : (ensureEnd p).link.ops[i]? = some .clear := by
    have hp : (pushEndP p).link.ops[i]? = some .clear := by
      unfold pushEndP
      have := push_keeps h Opcode.end
      dsimp only
      split <;> exact this
    unfold ensureEnd
    split
    · split
      · exact hp
      · exact h
    · exact hp
  have h2 : (resolve (ensureEnd p)).link.ops[i]? = some .clear := by
    unfold resolve
    have := link_keeps_clear (ensureEnd p).link i h1
    generalize (ensureEnd p).link.link = ll at this
    rcases ll with ⟨l, es⟩
    dsimp only at this ⊢
    split <;> exact this
  unfold markDirect
  split
  · exact h2
  · exact h2

/-- the direct code of `RUN` / `RUN n` starts with `Clear` -/
theorem directGen_run_clear (b : Program) (line : Line) (c c2 : Col) (bits : UInt32)
    (hparse : Parse.parse none line.tokens = .ok [.run c (.single c2 bits)]) :
    (directGen b line).link.ops[b.link.ops.size]? = some .clear := by
  obtain ⟨col, frag, errs, h1, h2, h3, h4⟩ := Codegen.run_fragment c c2 bits
  have hcg : (Codegen.codegen b.link [.run c (.single c2 bits)]).1.ops[b.link.ops.size]? = some .clear := by
    unfold Codegen.codegen
    dsimp only
    rw [h1]
    unfold Codegen.codegen.appendAll
    have := (append_at_end b.link frag h4).trans h3
    generalize b.link.append frag = x at this
    rcases x with ⟨l', r⟩
    cases r with
    | error e => exact this
    | ok u => unfold Codegen.codegen.appendAll; exact this
  unfold directGen
  rw [hparse]
  dsimp only
  generalize Codegen.codegen b.link [.run c (.single c2 bits)] = cg at hcg
  rcases cg with ⟨l, es⟩
  have := push_keeps hcg Opcode.end
  dsimp only at this ⊢
  split <;> exact this

end Program

namespace Runtime

/-- in every state satisfying the invariant, the direct line `RUN` / `RUN n` (given what the
    parser returns for it) starts executing at a `Clear` -/
theorem enterDirect_run_starts_with_clear (s : Runtime) (line : Line) (hn : line.number = none)
    (hi : Inv s) (c c2 : Col) (bits : UInt32)
    (hparse : Parse.parse none line.tokens = .ok [.run c (.single c2 bits)]) :
    (enterDirect s line).program.link.ops[(enterDirect s line).pc]? = some .clear := by
  rw [(enterDirect_fields s line).2.1]
  obtain ⟨d, hp⟩ := enterDirect_program_inv s line hn hi
  rw [hp, Program.withDP_ops, Program.withDP_directAddress]
  unfold freshProg
  rw [Program.codegenLine_direct _ line hn]
  have hB := freshBase_based s.listing
  have hda := (Program.linkProg_indirectErrors_of_over hB line).2
  unfold freshBase at hB hda
  rw [hda, hB.addr]
  exact Program.linkProg_keeps_clear _ _ (Program.directGen_run_clear _ line c c2 bits hparse)

end Runtime
end Basic
