import BasicModel.Lemmas.RangeNoFault
import BasicModel.Lemmas.Codegen
/-
  The code generated for a LIST / DELETE statement whose operands are the parser's line literals
  (`Parse.lineNumberRange_ordered`): `literal m, literal n, list|delete` — under
  `LineLiteralRoundTrip` (the generator converts the literal to a line number and back) — and what
  these three instructions do at run time: the range handed to `listLine` / `removeRange` is
  `(some m, some n)`, not inverted.
-/
namespace Basic
namespace Codegen

def lineLit (n : Nat) : Opcode := .literal (.sng (F.b32 (Float32.ofNat n)))
def lineLink (n : Nat) : Link := { ops := #[lineLit n] }

theorem lineNumberOfLink_lineLink (hrt : LineLiteralRoundTrip) (n : Nat) (hn : n ≤ maxLineNumber) :
    lineNumberOfLink (lineLink n) = .ok (some n) := by
  simp [lineNumberOfLink, lineLink, lineLit, hrt n hn]

theorem exprPopLineNumber_run (hrt : LineLiteralRoundTrip) (c : Col) (n : Nat) (hn : n ≤ maxLineNumber)
    (g : GState) (pre : Array (Col × Link)) (h : g.expr = pre.push (c, lineLink n)) :
    exprPopLineNumber.run.run g = (.ok (c, some n), { g with expr := pre }) := by
  unfold exprPopLineNumber popExpr
  simp only [grun_bind, grun_get, h, Array.back?_push, grun_set, Array.pop_push, grun_pure,
    lineNumberOfLink_lineLink hrt n hn]

theorem rangeStmt_run (hrt : LineLiteralRoundTrip) (op : Opcode) (c ca cb : Col) (m n : Nat)
    (hm : m ≤ maxLineNumber) (hn : n ≤ maxLineNumber) (g : GState) (pre : Array (Col × Link))
    (h : g.expr = (pre.push (ca, lineLink m)).push (cb, lineLink n)) (hc : g.cur = {}) :
    (rangeStmt op c).run.run g =
      (.ok (c.1, cb.2), { g with expr := pre, cur := { ops := #[lineLit m, lineLit n, op] } }) := by
  unfold rangeStmt
  rw [grun_bind, exprPopLineNumber_run hrt cb n hn g _ h]
  dsimp only
  rw [grun_bind, exprPopLineNumber_run hrt ca m hm _ pre rfl]
  dsimp only
  simp only [grun_bind, grun_liftE, Val.ofLineNumber, grun_lpush, hc, Link.push]
  rfl

theorem accept_lineExpr (c : Col) (n : Nat) (s : VState) :
    acceptExpr (Parse.lineExpr c n) s = { s with g := { s.g with expr := s.g.expr.push (c, lineLink n) } } := by
  unfold Parse.lineExpr
  rw [acceptExpr] <;> first | rfl | nofun

theorem visit_rangeStmt (hrt : LineLiteralRoundTrip) (st : Stmt) (op : Opcode) (c ca cb : Col) (m n : Nat)
    (hm : m ≤ maxLineNumber) (hn : n ≤ maxLineNumber) (s : VState) (pre : Array (Col × Link))
    (hgen : genStatement st = rangeStmt op c)
    (h : s.g.expr = (pre.push (ca, lineLink m)).push (cb, lineLink n)) :
    visitStatement st s =
      { s with g := { var := s.g.var, expr := pre, cur := s.g.cur,
                      stmt := s.g.stmt.push ((c.1, cb.2), { ops := #[lineLit m, lineLit n, op] }) } } := by
  unfold visitStatement runFresh
  rw [hgen, rangeStmt_run hrt op c ca cb m n hm hn { s.g with cur := {} } pre h rfl]

/-- the fragment generated for `LIST a-b` / `DELETE a-b` whose operands are the parser's literals -/
theorem range_fragment (hrt : LineLiteralRoundTrip) (isList : Bool) (c ca cb : Col) (m n : Nat)
    (hm : m ≤ maxLineNumber) (hn : n ≤ maxLineNumber) (s : VState) :
    (acceptStmt (if isList then .list c (Parse.lineExpr ca m) (Parse.lineExpr cb n)
                 else .delete c (Parse.lineExpr ca m) (Parse.lineExpr cb n)) s) =
      { s with g := { s.g with stmt := s.g.stmt.push ((c.1, cb.2),
          { ops := #[lineLit m, lineLit n, if isList then .list else .delete] }) } } := by
  cases isList
  · simp only [Bool.false_eq_true, if_false]
    rw [acceptStmt, accept_lineExpr, accept_lineExpr,
      visit_rangeStmt hrt _ .delete c ca cb m n hm hn _ s.g.expr (by simp only [genStatement]) rfl]
  · simp only [if_true]
    rw [acceptStmt, accept_lineExpr, accept_lineExpr,
      visit_rangeStmt hrt _ .list c ca cb m n hm hn _ s.g.expr (by simp only [genStatement]) rfl]

end Codegen

namespace Runtime
open Codegen

/-- the three instructions of a compiled `LIST m-n`, executed in sequence: the listing state
    entered is `(some m, some n)`, which is not inverted when `m ≤ n` -/
theorem list_code_range (hrt : LineLiteralRoundTrip) (m n : Nat) (hmn : m ≤ n) (hn : n ≤ maxLineNumber)
    (s : Runtime) (hsz : s.stack.size + 2 ≤ Gen.stackMaxLen) :
    (do push (.sng (F.b32 (Float32.ofNat m))); push (.sng (F.b32 (Float32.ofNat n))); doList : RM Unit).run.run s =
      (.ok (), { s with state := .listing (some m) (some n) }) ∧
    Listing.inverted (some m) (some n) = false := by
  obtain ⟨h1, h2, h3⟩ := range_literals_not_inverted hrt m n hmn hn
  refine ⟨?_, h3⟩
  have e1 : ¬ (s.stack.size + 1 > Gen.stackMaxLen) := by omega
  have e2 : ¬ ((s.stack.push (.sng (F.b32 (Float32.ofNat m)))).size + 1 > Gen.stackMaxLen) := by
    rw [Array.size_push]; omega
  rw [run_bind, run_push, if_neg e1]
  dsimp only
  rw [run_bind, run_push, if_neg e2]
  dsimp only
  rw [doList_range _ s.stack _ _ (some m) (some n) rfl h1 h2]

/-- … and of a compiled `DELETE m-n`: the range removed is `(some m, some n)` -/
theorem delete_code_range (hrt : LineLiteralRoundTrip) (m n : Nat) (hmn : m ≤ n) (hn : n ≤ maxLineNumber)
    (s : Runtime) (hsz : s.stack.size + 2 ≤ Gen.stackMaxLen) :
    ((do push (.sng (F.b32 (Float32.ofNat m))); push (.sng (F.b32 (Float32.ofNat n))); doDelete : RM Event).run.run s).2.listing =
      (s.listing.removeRange (some m) (some n)).1 ∧
    Listing.inverted (some m) (some n) = false := by
  obtain ⟨h1, h2, h3⟩ := range_literals_not_inverted hrt m n hmn hn
  refine ⟨?_, h3⟩
  have e1 : ¬ (s.stack.size + 1 > Gen.stackMaxLen) := by omega
  have e2 : ¬ ((s.stack.push (.sng (F.b32 (Float32.ofNat m)))).size + 1 > Gen.stackMaxLen) := by
    rw [Array.size_push]; omega
  rw [run_bind, run_push, if_neg e1]
  dsimp only
  rw [run_bind, run_push, if_neg e2]
  dsimp only
  rw [doDelete_range _ s.stack _ _ (some m) (some n) rfl h1 h2]

end Runtime
end Basic
