import BasicModel.Lemmas.DataCursor
import BasicModel.Lemmas.WhileMarks
import BasicModel.Lemmas.RunClear
/-
  READ / DATA / RESTORE at the level of whole programs (C09; chain 2): the compile state of
  `Lemmas/Layout.lean` meets the data sequence of `Lemmas/DataOrder.lean`.
-/
namespace Basic
namespace Program
open Link DataOrder

/-- the two `Numbered` (this chain's and the chain-neutral one) are the same predicate -/
theorem numbered_iff (ls : List Line) : Numbered ls ↔ DataOrder.Numbered ls := Iff.rfl

/-! ### the symbol of a line records how many constants precede it -/

theorem listingOk_prefix : ∀ (pre post : List Line) (p : Program), ListingOk p (pre ++ post) → ListingOk p pre
  | [], _, _, _ => trivial
  | l :: pre, post, p, h => ⟨h.1, listingOk_prefix pre post _ h.2⟩

/-- the compile state after the lines `pre`: as many constants as `dataOf pre` has -/
theorem endOf_data (pre : List Line) (hnum : Numbered pre) (hok : ListingOk {} pre) :
    (endOf pre).2 = (dataOf pre).length := by
  have := codegenLines_data pre {} hnum hok
  have h2 := congrArg List.length this
  simp only [Array.length_toList] at h2
  show (({} : Program).codegenLines pre).link.data.size = _
  rw [h2]
  simp

/-- **the symbol of line `m`** in the compiled and linked program: its data address is the number of
    constants on the lines before it — the index of the first constant at or after line `m` -/
theorem compile_line_symbol (pre tl : List Line) (hd : Line) (m : Nat) (hl : Listed (pre ++ hd :: tl))
    (hm : hd.number = some m) (hok : ListingOk {} (pre ++ hd :: tl)) :
    (compile (pre ++ hd :: tl)).link.symbols.lookup (m : Int) = some ((endOf pre).1, (dataOf pre).length) := by
  obtain ⟨hpre, hpost, hmle, -, hgt, hasc⟩ := hl.split hm
  have hnum : Numbered (pre ++ hd :: tl) := by
    intro l hl'
    obtain ⟨n, hn, -⟩ := hl.numbered l hl'
    exact ⟨n, hn⟩
  have hne : ∀ l ∈ tl, l.number ≠ some m := by
    intro l hl' e
    have := (hgt l hl' m e).1
    omega
  rw [compile_lookup_line _ hnum m hmle, codegenLines_entry_lookup pre tl hd m hm hpre hpost hne,
    ← endOf_data pre hpre (listingOk_prefix pre _ _ hok)]

/-! ### `RESTORE n` after linking -/

theorem compile_ops_eq (ls : List Line) :
    (compile ls).link.ops = (ensureEnd (({} : Program).codegenLines ls)).link.link.1.ops := by
  unfold compile
  rw [linkProg_eq, markDirect_eq]
  split <;> (rw [resolve_eq]; split <;> rfl)

theorem ensureEnd_ops_cases (p : Program) :
    (ensureEnd p).link.ops = p.link.ops ∨ (ensureEnd p).link.ops = p.link.ops.push .end := by
  rw [ensureEnd_eq]
  split
  · exact .inl rfl
  · right
    unfold pushEndP
    dsimp only
    split <;> rfl

/-- **a pending `restore` of the compile state is patched with the data address of its line**:
    whatever its position in the code -/
theorem restore_linked (ls : List Line) (hnum : Numbered ls) (a y : Nat) (c : Col) (n o d : Nat)
    (hp : PendingAt (({} : Program).codegenLines ls).link a (.restore y) (some (c, (n : Int))))
    (hsym : (({} : Program).codegenLines ls).link.symbols.lookup (n : Int) = some (o, d)) :
    (compile ls).link.ops[a]? = some (.restore d) := by
  obtain ⟨hw, hk⟩ := codegenLines_whilesOps ls {} hnum WhilesOps.empty List.Pairwise.nil
  obtain ⟨e1, e2, e3, -⟩ := ensureEnd_symbols (({} : Program).codegenLines ls)
  have hw' : WhilesOps (ensureEnd (({} : Program).codegenLines ls)).link := by
    intro w hwm
    rw [e3] at hwm
    obtain ⟨op, h1, h2⟩ := hw w hwm
    rcases ensureEnd_ops_cases (({} : Program).codegenLines ls) with e | e
    · exact ⟨op, by rw [e]; exact h1, h2⟩
    · exact ⟨op, by rw [e]; exact getElem?_push_of_some h1, h2⟩
  have hp' : PendingAt (ensureEnd (({} : Program).codegenLines ls)).link a (.restore y) (some (c, (n : Int))) := by
    refine ⟨?_, by rw [e2]; exact hp.2⟩
    rcases ensureEnd_ops_cases (({} : Program).codegenLines ls) with e | e
    · rw [e]; exact hp.1
    · rw [e]; exact getElem?_push_of_some hp.1
  rw [compile_ops_eq]
  exact link_restore_resolves _ (by rw [e2]; exact hk) hw' a y c (n : Int) o d hp' (by rw [e1]; exact hsym)

theorem listingOk_at : ∀ (pre post : List Line) (hd : Line) (p : Program), ListingOk p (pre ++ hd :: post) →
    LineOk (p.codegenLines pre) hd
  | [], _, _, _, h => h.1
  | _ :: pre, post, hd, p, h => listingOk_at pre post hd _ h.2

/-- **`RESTORE n` at the head of a line, compiled and linked**: in a listing that compiles without a
    report, the instruction is the first of its line and reads `restore k`, `k` the number of
    constants on the lines before line `n` — the index of the first constant at or after line `n`
    (`k = |data|` when there is none: the next READ is then OUT OF DATA) -/
theorem restore_line_linked (pre tl : List Line) (hd : Line) (m : Nat) (hl : Listed (pre ++ hd :: tl))
    (hm : hd.number = some m) (hok : ListingOk {} (pre ++ hd :: tl))
    (c c2 : Col) (bits : UInt32) (rest : List Stmt)
    (hparse : Parse.parse hd.number hd.tokens = .ok (.restore c (.single c2 bits) :: rest))
    (n : Nat) (ht : restoreTarget bits = some n)
    (pre' tl' : List Line) (hd' : Line) (hsplit : pre ++ hd :: tl = pre' ++ hd' :: tl') (hn : hd'.number = some n) :
    (compile (pre ++ hd :: tl)).link.ops[(endOf pre).1]? = some (.restore (dataOf pre').length) := by
  obtain ⟨hpre, hpost, -, -, -, -⟩ := hl.split hm
  have hnum : Numbered (pre ++ hd :: tl) := by
    intro l hl'
    obtain ⟨k, hk, -⟩ := hl.numbered l hl'
    exact ⟨k, hk⟩
  -- the pending reference
  obtain ⟨hlit, hclean⟩ := listingOk_at pre tl hd {} hok m _ hm hparse
  have hlit' : stmtsLit rest = true := by
    rw [stmtsLit, Bool.and_eq_true] at hlit
    exact hlit.2
  have h1 := codegen_restore_first ((({} : Program).codegenLines pre).link.pushSymbol m) c c2 bits rest
    (fun e => by rw [ht] at e; cases e) hlit' hclean
  rw [ht] at h1
  have h2 : PendingAt ((({} : Program).codegenLines pre).codegenLine hd).link (endOf pre).1 (.restore 0)
      (some (c2, (n : Int))) := by
    rw [codegenLine_numbered _ hd m hm]
    unfold genNumbered
    rw [← hm, hparse]
    exact h1
  have h3 : PendingAt (({} : Program).codegenLines (pre ++ hd :: tl)).link (endOf pre).1 (.restore 0)
      (some (c2, (n : Int))) := by
    rw [codegenLines_append, codegenLines_cons]
    exact PendingAt.codegenLines tl _ hpost h2
  -- the symbol of line n
  rw [hsplit] at hl hnum hok h3 ⊢
  obtain ⟨hpre', hpost', -, -, hgt', -⟩ := hl.split hn
  have hne : ∀ l ∈ tl', l.number ≠ some n := by
    intro l hl' e
    have := (hgt' l hl' n e).1
    omega
  have hsym := codegenLines_entry_lookup pre' tl' hd' n hn hpre' hpost' hne
  have := restore_linked (pre' ++ hd' :: tl') hnum (endOf pre).1 0 c2 n (endOf pre').1 (endOf pre').2 h3 hsym
  rw [this, endOf_data pre' hpre' (listingOk_prefix pre' _ _ hok)]

/-- an instruction of the compile state on which nothing is pending is not touched by the linker -/
theorem unreferenced_linked (ls : List Line) (hnum : Numbered ls) (a : Nat) (op : Opcode) (hm : ¬ MarkOp op)
    (hp : PendingAt (({} : Program).codegenLines ls).link a op none) :
    (compile ls).link.ops[a]? = some op := by
  obtain ⟨hw, -⟩ := codegenLines_whilesOps ls {} hnum WhilesOps.empty List.Pairwise.nil
  obtain ⟨-, e2, e3, -⟩ := ensureEnd_symbols (({} : Program).codegenLines ls)
  have hw' : WhilesOps (ensureEnd (({} : Program).codegenLines ls)).link := by
    intro w hwm
    rw [e3] at hwm
    obtain ⟨o, h1, h2⟩ := hw w hwm
    rcases ensureEnd_ops_cases (({} : Program).codegenLines ls) with e | e
    · exact ⟨o, by rw [e]; exact h1, h2⟩
    · exact ⟨o, by rw [e]; exact getElem?_push_of_some h1, h2⟩
  rw [compile_ops_eq]
  refine link_keeps_unreferenced _ hw' a op ?_ hm (by rw [e2]; exact hp.2)
  rcases ensureEnd_ops_cases (({} : Program).codegenLines ls) with e | e
  · rw [e]; exact hp.1
  · rw [e]; exact getElem?_push_of_some hp.1

/-- **plain `RESTORE` at the head of a line, compiled and linked**: the instruction is `restore 0` —
    RESTORE without an operand rewinds to the first constant.  (Nothing is pending on it, and no
    stale reference can sit at its address: `codegenLines_refBounded`.) -/
theorem restore_plain_line_linked (pre tl : List Line) (hd : Line) (m : Nat) (hl : Listed (pre ++ hd :: tl))
    (hm : hd.number = some m) (hok : ListingOk {} (pre ++ hd :: tl))
    (c c2 : Col) (bits : UInt32) (rest : List Stmt)
    (hparse : Parse.parse hd.number hd.tokens = .ok (.restore c (.single c2 bits) :: rest))
    (ht : restoreTarget bits = none) :
    (compile (pre ++ hd :: tl)).link.ops[(endOf pre).1]? = some (.restore 0) := by
  obtain ⟨hpre, hpost, -, -, -, -⟩ := hl.split hm
  have hfree : (({} : Program).codegenLines pre).link.unlinked.lookup (endOf pre).1 = none :=
    (codegenLines_refBounded pre {} hpre RefBounded.empty).lookup_end
  have hnum : Numbered (pre ++ hd :: tl) := by
    intro l hl'
    obtain ⟨k, hk, -⟩ := hl.numbered l hl'
    exact ⟨k, hk⟩
  obtain ⟨hlit, hclean⟩ := listingOk_at pre tl hd {} hok m _ hm hparse
  have hlit' : stmtsLit rest = true := by
    rw [stmtsLit, Bool.and_eq_true] at hlit
    exact hlit.2
  have h1 := codegen_restore_first ((({} : Program).codegenLines pre).link.pushSymbol m) c c2 bits rest
    (fun _ => hfree) hlit' hclean
  rw [ht] at h1
  have h2 : PendingAt ((({} : Program).codegenLines pre).codegenLine hd).link (endOf pre).1 (.restore 0) none := by
    rw [codegenLine_numbered _ hd m hm]
    unfold genNumbered
    rw [← hm, hparse]
    exact h1
  have h3 : PendingAt (({} : Program).codegenLines (pre ++ hd :: tl)).link (endOf pre).1 (.restore 0) none := by
    rw [codegenLines_append, codegenLines_cons]
    exact PendingAt.codegenLines tl _ hpost h2
  exact unreferenced_linked _ hnum _ _ (by rintro (h | h) <;> cases h) h3

end Program
end Basic

namespace Basic
namespace Runtime
open Link Program
open DataOrder (dataOf ListingOk compile_data)

/-- the program a direct line runs over the listing `ls` has the data segment of `compile ls` -/
theorem runProg_data (ls : List Line) (d : Line) (hd : d.number = none) :
    (runProg ls d).link.data = (compile ls).link.data :=
  ((progSim_base_compile ls).trans (progSim_runProg ls d hd)).data

/-- **RUN rewinds**: in every state satisfying the interpreter invariant (every reachable state), the
    direct line `RUN` / `RUN n` (given what the parser returns for it), entered over a listing that
    compiles without a report, starts at a `clear`; the data segment it runs on is `dataOf` of the
    listing; and once that `clear` has been executed the DATA cursor is 0 -/
theorem run_rewinds (env : Env) (hie : Bool) (s : Runtime) (line : Line) (hn : line.number = none) (hi : Runtime.Inv s)
    (c c2 : Col) (bits : UInt32) (hparse : Parse.parse none line.tokens = .ok [.run c (.single c2 bits)])
    (hnum : Program.Numbered s.listing.lines) (hok : ListingOk {} s.listing.lines) (htr : s.tron = false) :
    (enterDirect s line).program.link.ops[(enterDirect s line).pc]? = some .clear ∧
    (enterDirect s line).program.link.data.toList = dataOf s.listing.lines ∧
    ((step env hie).run.run (enterDirect s line)).1 = .ok .continue ∧
    ((step env hie).run.run (enterDirect s line)).2.program.link.dataPos = 0 ∧
    ((step env hie).run.run (enterDirect s line)).2.program.link.data.toList = dataOf s.listing.lines := by
  have hclr := enterDirect_run_starts_with_clear s line hn hi c c2 bits hparse
  obtain ⟨d, hp⟩ := enterDirect_program_inv s line hn hi
  have hdata : (enterDirect s line).program.link.data.toList = dataOf s.listing.lines := by
    rw [hp]
    show (freshProg s.listing line).link.data.toList = _
    have : freshProg s.listing line = runProg s.listing.lines line := rfl
    rw [this, runProg_data _ _ hn, compile_data _ hnum hok]
  have htr' : (enterDirect s line).tron = false := by rw [(enterDirect_fields s line).2.2.2.2]; exact htr
  obtain ⟨h1, h2⟩ := step_at_clear env hie (enterDirect s line) hclr htr'
  refine ⟨hclr, hdata, by rw [h1], by rw [h1, h2]; rfl, ?_⟩
  rw [h1, h2]
  exact hdata

/-- **the first READs after RUN read `dataOf` from index 0**: in any execution that follows the
    `clear` of RUN and contains no RESTORE / CLEAR / NEW, the `i`-th value a `read` delivers is the
    `i`-th constant of the listing -/
theorem reads_after_run (env : Env) (hie : Bool) (s : Runtime) (line : Line) (hn : line.number = none) (hi : Runtime.Inv s)
    (c c2 : Col) (bits : UInt32) (hparse : Parse.parse none line.tokens = .ok [.run c (.single c2 bits)])
    (hnum : Program.Numbered s.listing.lines) (hok : ListingOk {} s.listing.lines) (htr : s.tron = false)
    (vs : List Val) (u : Runtime)
    (hr : Reads env hie ((step env hie).run.run (enterDirect s line)).2 vs u) :
    vs = (dataOf s.listing.lines).take vs.length ∧ u.program.link.dataPos = vs.length := by
  obtain ⟨-, -, -, h4, h5⟩ := run_rewinds env hie s line hn hi c c2 bits hparse hnum hok htr
  obtain ⟨i1, i2⟩ := reads_in_order hr
  rw [h4, h5, List.drop_zero] at i1
  refine ⟨i1, ?_⟩
  rw [i2, h4, Nat.zero_add]
  rfl

end Runtime
end Basic
