import BasicModel.Lemmas.DirectFrame
import BasicModel.Lemmas.Enter
/-
  The invariant behind "what runs is always the program that LIST shows" (DESIGN.md, Appendix E,
  clause 4), on the model runtime, and its preservation by every call of the session protocol.

  `Inv s`: when `dirty = false`, the image onto which the next direct line is compiled
  (`Program.base s.program`: the program linked, its code cut back to `directAddress`) is — up to
  the DATA cursor — the image a fresh interpreter builds from the current listing, and the
  diagnostics shown by LIST are those of that compile.  (The direct segment above `directAddress`,
  the direct-mode errors and the DATA cursor are free.)

  * `Keep`: what *every* instruction leaves alone — the compiled program up to the DATA cursor,
    and the listing unless `dirty` is set (`step_keep`, `execute_keep`).
  * `inv_init`, `inv_enter`, `inv_interrupt`, `inv_setListing`, `inv_execute`.
  * `enterDirect_program_inv`: under `Inv`, edited or not, the direct line runs the program a
    fresh interpreter compiles from the current listing (up to the DATA cursor);
    `run_state_eq_freshLike`: hence the state after RUN's CLEAR is the fresh interpreter's.
  * `doCont_refused`, `doReturn_refused`, `doNext_refused`, `doFn_refused`: with nothing to resume
    the four resuming statements fail with their own errors.
-/
namespace Basic

theorem Program.withDP_directAddress (p : Program) (d : Nat) : (p.withDP d).directAddress = p.directAddress := rfl
theorem Program.withDP_errors (p : Program) (d : Nat) : (p.withDP d).errors = p.errors := rfl
theorem Program.withDP_indirectErrors (p : Program) (d : Nat) : (p.withDP d).indirectErrors = p.indirectErrors := rfl
theorem Program.withDP_ops (p : Program) (d : Nat) : (p.withDP d).link.ops = p.link.ops := rfl

namespace Runtime
variable {α β : Type}

/-! ### `Keep`: the program up to the DATA cursor; the listing unless `dirty` is set -/

structure Keep (s t : Runtime) : Prop where
  prog : ∃ d, t.program = s.program.withDP d
  edit : (t.listing = s.listing ∧ t.dirty = s.dirty) ∨ t.dirty = true

instance : FrameRel Keep where
  refl s := ⟨⟨s.program.link.dataPos, rfl⟩, .inl ⟨rfl, rfl⟩⟩
  trans {a b c} h1 h2 := by
    obtain ⟨d1, e1⟩ := h1.prog
    obtain ⟨d2, e2⟩ := h2.prog
    refine ⟨⟨d2, by rw [e2, e1]; rfl⟩, ?_⟩
    rcases h2.edit with ⟨l2, k2⟩ | k2
    · rcases h1.edit with ⟨l1, k1⟩ | k1
      · exact .inl ⟨l2.trans l1, k2.trans k1⟩
      · exact .inr (k2.trans k1)
    · exact .inr k2

/-- closes `Keep s t` when `t` is `s` with fields other than `program` replaced, or with
    `dirty := true` -/
macro "keep" : tactic =>
  `(tactic| (refine ⟨⟨_, rfl⟩, ?_⟩; first | exact Or.inl ⟨rfl, rfl⟩ | exact Or.inr rfl))

theorem keep_doClear (env : Env) (s : Runtime) : Keep s (doClear env s) := ⟨⟨0, rfl⟩, .inl ⟨rfl, rfl⟩⟩

theorem keep_doEnd (s : Runtime) : Keep s (doEnd s) := by
  unfold doEnd; dsimp only
  split <;> split <;> keep

theorem keep_doNew (env : Env) (s : Runtime) : Keep s (doNew env s) := ⟨⟨0, rfl⟩, .inr rfl⟩

theorem keep_restore (s : Runtime) (a : Nat) :
    Keep s { s with program := { s.program with link := s.program.link.restoreData a } } :=
  ⟨⟨a, rfl⟩, .inl ⟨rfl, rfl⟩⟩

theorem keep_readData (s : Runtime) :
    Keep s { s with program := { s.program with link := s.program.link.readData.1 } } := by
  refine ⟨?_, .inl ⟨rfl, rfl⟩⟩
  unfold Link.readData
  split
  · exact ⟨s.program.link.dataPos + 1, rfl⟩
  · exact ⟨s.program.link.dataPos, rfl⟩

macro_rules | `(tactic| frame_rel) => `(tactic| keep)
macro_rules | `(tactic| frame_rel) => `(tactic| exact keep_doClear _ _)
macro_rules | `(tactic| frame_rel) => `(tactic| exact keep_doEnd _)
macro_rules | `(tactic| frame_rel) => `(tactic| exact keep_doNew _ _)
macro_rules | `(tactic| frame_rel) => `(tactic| exact keep_restore _ _)

theorem keep_push (v : Val) : Frame Keep (push v) := by
  constructor; intro s; rw [run_push]; keep
macro_rules | `(tactic| frame_known) => `(tactic| with_reducible exact FrameFrom.of_frame (keep_push _))

theorem keep_pop : Frame Keep pop := by
  constructor; intro s; rw [run_pop]; split
  · keep
  · exact FrameRel.refl s
macro_rules | `(tactic| frame_known) => `(tactic| with_reducible exact FrameFrom.of_frame keep_pop)

theorem keep_pop2 : Frame Keep pop2 := by unfold pop2; frame
macro_rules | `(tactic| frame_known) => `(tactic| with_reducible exact FrameFrom.of_frame keep_pop2)

theorem keep_popN (n : Nat) : Frame Keep (popN n) := by unfold popN; frame
macro_rules | `(tactic| frame_known) => `(tactic| with_reducible exact FrameFrom.of_frame (keep_popN _))

theorem keep_popVec : Frame Keep popVec := by unfold popVec; frame
macro_rules | `(tactic| frame_known) => `(tactic| with_reducible exact FrameFrom.of_frame keep_popVec)

theorem keep_pop1Push (f : Val → Res Val) : Frame Keep (pop1Push f) := by unfold pop1Push; frame
macro_rules | `(tactic| frame_known) => `(tactic| with_reducible exact FrameFrom.of_frame (keep_pop1Push _))

theorem keep_pop2Push (f : Val → Val → Res Val) : Frame Keep (pop2Push f) := by unfold pop2Push; frame
macro_rules | `(tactic| frame_known) => `(tactic| with_reducible exact FrameFrom.of_frame (keep_pop2Push _))

theorem keep_doDef (name : Str) : Frame Keep (doDef name) := by unfold doDef; frame
macro_rules | `(tactic| frame_known) => `(tactic| with_reducible exact FrameFrom.of_frame (keep_doDef _))

theorem keep_doDefType (f : Var → Val → Val → Res Var) : Frame Keep (doDefType f) := by
  unfold doDefType; frame
macro_rules | `(tactic| frame_known) => `(tactic| with_reducible exact FrameFrom.of_frame (keep_doDefType _))

theorem keep_doFn (name : Str) : Frame Keep (doFn name) := by unfold doFn; frame
macro_rules | `(tactic| frame_known) => `(tactic| with_reducible exact FrameFrom.of_frame (keep_doFn _))

theorem keep_doLetMid : Frame Keep doLetMid := by unfold doLetMid; frame
macro_rules | `(tactic| frame_known) => `(tactic| with_reducible exact FrameFrom.of_frame keep_doLetMid)

theorem keep_doOn : Frame Keep doOn := by unfold doOn; frame
macro_rules | `(tactic| frame_known) => `(tactic| with_reducible exact FrameFrom.of_frame keep_doOn)

theorem keep_doRead : Frame Keep doRead := by
  unfold doRead
  try dsimp only
  apply Frame.of_from; intro _
  apply FrameFrom.rd_seq; intro s
  apply FrameFrom.seq
  · exact FrameFrom.wr (keep_readData s)
  · repeat' frame_step
macro_rules | `(tactic| frame_known) => `(tactic| with_reducible exact FrameFrom.of_frame keep_doRead)

theorem keep_doSwap : Frame Keep doSwap := by unfold doSwap; frame
macro_rules | `(tactic| frame_known) => `(tactic| with_reducible exact FrameFrom.of_frame keep_doSwap)

theorem keep_doNext_loop (name : Str) : ∀ fuel, Frame Keep (doNext.loop name fuel) := by
  intro fuel
  induction fuel with
  | zero => unfold doNext.loop; frame
  | succ k ih =>
    have ih' : ∀ s₀, FrameFrom Keep s₀ (doNext.loop name k) := fun _ => FrameFrom.of_frame ih
    unfold doNext.loop; frame
    all_goals exact ih' _

theorem keep_doNext (name : Str) : Frame Keep (doNext name) := by
  have := keep_doNext_loop name
  unfold doNext
  try dsimp only
  apply Frame.of_from; intro _
  apply FrameFrom.rd_seq; intro s
  exact FrameFrom.of_frame (this _)
macro_rules | `(tactic| frame_known) => `(tactic| with_reducible exact FrameFrom.of_frame (keep_doNext _))

theorem keep_doReturn_loop : ∀ fuel rv first, Frame Keep (doReturn.loop fuel rv first) := by
  intro fuel
  induction fuel with
  | zero => intro rv first; unfold doReturn.loop; frame
  | succ k ih =>
    intro rv first
    have ih' : ∀ rv first s₀, FrameFrom Keep s₀ (doReturn.loop k rv first) :=
      fun _ _ _ => FrameFrom.of_frame (ih _ _)
    unfold doReturn.loop; frame
    all_goals exact ih' _ _ _

theorem keep_doReturn : Frame Keep doReturn := by
  have := keep_doReturn_loop
  unfold doReturn
  try dsimp only
  apply Frame.of_from; intro _
  apply FrameFrom.rd_seq; intro s
  exact FrameFrom.of_frame (this _ _ _)
macro_rules | `(tactic| frame_known) => `(tactic| with_reducible exact FrameFrom.of_frame keep_doReturn)

theorem keep_doCont : Frame Keep doCont := by unfold doCont; frame
theorem keep_doInput (n : Str) : Frame Keep (doInput n) := by unfold doInput; frame
theorem keep_doList : Frame Keep doList := by unfold doList; frame
theorem keep_doPrint : Frame Keep doPrint := by unfold doPrint; frame
theorem keep_fileOp (mk : Str → Event) (b : Bool) : Frame Keep (fileOp mk b) := by unfold fileOp; frame
/-- DELETE sets `dirty` exactly when it removes something; otherwise the listing is untouched -/
theorem keep_doDelete : Frame Keep doDelete := by unfold doDelete; frame
/-- RENUM sets `dirty` whenever it replaces the listing -/
theorem keep_doRenum (env : Env) : Frame Keep (doRenum env) := by unfold doRenum; frame

macro_rules | `(tactic| frame_known) => `(tactic| with_reducible exact FrameFrom.of_frame keep_doCont)
macro_rules | `(tactic| frame_known) => `(tactic| with_reducible exact FrameFrom.of_frame (keep_doInput _))
macro_rules | `(tactic| frame_known) => `(tactic| with_reducible exact FrameFrom.of_frame keep_doList)
macro_rules | `(tactic| frame_known) => `(tactic| with_reducible exact FrameFrom.of_frame keep_doPrint)
macro_rules | `(tactic| frame_known) => `(tactic| with_reducible exact FrameFrom.of_frame (keep_fileOp _ _))
macro_rules | `(tactic| frame_known) => `(tactic| with_reducible exact FrameFrom.of_frame keep_doDelete)
macro_rules | `(tactic| frame_known) => `(tactic| with_reducible exact FrameFrom.of_frame (keep_doRenum _))

set_option maxHeartbeats 2000000 in
/-- no instruction changes the compiled program except for the DATA cursor (READ, RESTORE,
    CLEAR), and none changes the listing without setting `dirty` (DELETE, RENUM, NEW) -/
theorem execOp_keep (env : Env) (h : Bool) (op : Opcode) : Frame Keep (execOp env h op) := by
  cases op <;> (simp only [execOp]; frame)

/-- `step`: the trace part touches only `tr` and the print column -/
theorem step_keep (env : Env) (h : Bool) (s : Runtime) : Keep s ((step env h).run.run s).2 := by
  rcases step_cases env h s with ⟨text, tr, col, he⟩ | ⟨tr, he⟩
  · rw [he]; keep
  · rw [he, run_fetchExec]
    show Keep s (match s.program.link.ops[s.pc]? with
      | none => _
      | some op => (execOp env h op).run.run { s with tr := tr, pc := s.pc + 1 }).2
    cases s.program.link.ops[s.pc]? with
    | none => keep
    | some op =>
      exact FrameRel.trans (show Keep s { s with tr := tr, pc := s.pc + 1 } by keep)
        ((execOp_keep env h op).run _)

/-- the frame lemma asked for: one `step` changes neither the code, nor the DATA segment, nor
    the symbols, nor `directAddress`, nor the compile errors — only the DATA cursor -/
theorem step_program_code_frame (env : Env) (h : Bool) (s : Runtime) :
    ∃ d, ((step env h).run.run s).2.program = s.program.withDP d :=
  (step_keep env h s).prog

theorem sliceRun_keep (env : Env) (h : Bool) (n : Nat) (s : Runtime) : Keep s (sliceRun env h n s).2.1 := by
  induction n generalizing s with
  | zero => exact FrameRel.refl s
  | succ k ih =>
    have hw := step_keep env h s
    rw [sliceRun_succ]
    rcases hs : (step env h).run.run s with ⟨r, s'⟩
    rw [hs] at hw
    rcases r with e | st
    · exact hw
    · cases st with
      | «continue» => exact FrameRel.trans hw (ih s')
      | event e => exact hw

theorem executeLoop_keep (env : Env) (n : Nat) (s : Runtime) :
    Keep s ((executeLoop env n).run.run s).2 := by
  rw [executeLoop_run]; exact sliceRun_keep env _ n s

theorem keep_executeInput : Frame Keep executeInput := by unfold executeInput; frame

theorem readyPrompt_keep (s : Runtime) : Keep s (readyPrompt s).1 := by
  unfold readyPrompt; split
  · keep
  · exact FrameRel.refl s

theorem executePre_keep (s : Runtime) : Keep s (executePre s).1 := by
  unfold executePre
  split
  · keep
  · have := readyPrompt_keep s
    split <;> rename_i heq <;> rw [heq] at this <;> exact this
  · keep
  · split <;> keep
  · have hq := keep_executeInput.run s
    generalize executeInput.run.run s = x at hq ⊢
    rcases x with ⟨r, s'⟩
    cases r with
    | ok e => exact hq
    | error e => exact FrameRel.trans hq (by keep)
  · keep
  · split
    · keep
    · exact FrameRel.refl s
  · split
    · keep
    · exact FrameRel.refl s
  · exact FrameRel.refl s
  · exact FrameRel.refl s

theorem finishLoop_keep (r : Except Error Event) (s : Runtime) : Keep s (finishLoop r s).1 := by
  unfold finishLoop
  split
  · split
    · have := readyPrompt_keep s
      split <;> rename_i heq <;> rw [heq] at this <;> exact this
    · exact FrameRel.refl s
  · split
    · keep
    · dsimp only; split <;> keep

theorem executeRest_keep (env : Env) (s : Runtime) (n : Nat) : Keep s (executeRest env s n).1 := by
  unfold executeRest
  split
  · split <;> keep
  · exact FrameRel.trans (executeLoop_keep env n s) (finishLoop_keep _ _)

/-- the API call `execute`, whatever it does: the compiled program is untouched up to the DATA
    cursor, and the listing is untouched unless `dirty` has been set -/
theorem execute_keep (env : Env) (s : Runtime) (n : Nat) : Keep s (execute env s n).1 := by
  rw [execute_eq]
  have hp := executePre_keep s
  generalize executePre s = x at hp ⊢
  rcases x with ⟨s', o⟩
  cases o with
  | some e => exact hp
  | none => exact FrameRel.trans hp (executeRest_keep env s' n)

/-! ### `enter` on a reply to INPUT / INKEY$, `interrupt` -/

theorem keep_swap (m : RM Unit) (s : Runtime) (hf : Frame Keep m) :
    Keep s (match m.run.run s with | (r, s') => (s', r)).1 := by
  have := hf.run s
  generalize m.run.run s = x at this ⊢
  rcases x with ⟨r, s'⟩
  exact this

theorem keep_replyPush (fs : List Str) : Frame Keep (replyPush fs) := by unfold replyPush; frame

theorem doInputReply_keep (s : Runtime) (str : Str) : Keep s (doInputReply s str).1 := by
  unfold doInputReply
  split
  · dsimp only
    split
    · keep
    · rename_i fs _
      exact keep_swap (replyPush fs) s (keep_replyPush fs)
  · exact FrameRel.refl s

theorem interrupt_keep (s : Runtime) : Keep s (interrupt s) := by
  unfold interrupt
  dsimp only
  split <;> keep

/-! ### the invariant -/

/-- the image onto which a fresh interpreter holding `l` compiles its direct lines: the lines
    compiled from scratch and linked (`Program.compile`), code cut at `directAddress`, no errors -/
def freshBase (l : Listing) : Program := Program.base (({} : Program).codegenLines l.lines)

/-- Appendix E, clause 4.  `base s.program` carries exactly the compiled indirect part: the code
    below `directAddress`, the DATA segment, the line symbols, `indirectErrors`, `directAddress`
    (and the constant fields of a linked image); the DATA cursor is free, and so is everything
    `base` cuts off: the direct segment and the direct-mode errors. -/
structure Inv (s : Runtime) : Prop where
  /-- no WHILE is pending in the program in memory (it has been linked, or is empty) -/
  whiles : s.program.link.whiles = []
  /-- when nothing has been edited since the last compile: the compiled indirect program is the
      one compiling the current listing from scratch gives, and LIST shows its diagnostics -/
  compiled : s.dirty = false →
    (∃ dp, Program.base s.program = (freshBase s.listing).withDP dp) ∧
    s.listing.indirectErrors = (Program.compile s.listing.lines).indirectErrors

theorem freshBase_based (l : Listing) : Program.Based (freshBase l) := Program.based_compile l.lines

theorem freshBase_indirectErrors (l : Listing) :
    (freshBase l).indirectErrors = (Program.compile l.lines).indirectErrors := rfl

/-- `Runtime::default()` -/
theorem inv_init : Inv ({} : Runtime) where
  whiles := rfl
  compiled := fun _ => ⟨⟨(freshBase {}).link.dataPos, rfl⟩, by decide⟩

/-- whatever keeps the program (up to the cursor) and edits the listing only with `dirty` set
    keeps the invariant -/
theorem inv_of_keep {s t : Runtime} (hi : Inv s) (hk : Keep s t) : Inv t := by
  obtain ⟨d, hd⟩ := hk.prog
  refine ⟨by rw [hd]; exact hi.whiles, ?_⟩
  intro ht
  rcases hk.edit with ⟨hl, hdd⟩ | hdt
  · obtain ⟨⟨dp, hb⟩, he⟩ := hi.compiled (hdd ▸ ht)
    rw [hl, hd, Program.base_withDP, hb]
    exact ⟨⟨d, rfl⟩, he⟩
  · rw [hdt] at ht; cases ht

theorem inv_execute (env : Env) (s : Runtime) (n : Nat) (hi : Inv s) : Inv (execute env s n).1 :=
  inv_of_keep hi (execute_keep env s n)

theorem inv_interrupt (s : Runtime) (hi : Inv s) : Inv (interrupt s) :=
  inv_of_keep hi (interrupt_keep s)

/-- the compile of one direct line onto a program whose `base` is the fresh image (up to the
    cursor): the `base` stays, `indirectErrors` are those of the fresh compile -/
theorem compile_direct_onto (L : Listing) (p : Program) (line : Line) (hn : line.number = none) (d : Nat)
    (hb : Program.base p = (freshBase L).withDP d) :
    Program.base ((p.codegenLine line).linkProg) = (freshBase L).withDP d ∧
    ((p.codegenLine line).linkProg).indirectErrors = (Program.compile L.lines).indirectErrors ∧
    ((p.codegenLine line).linkProg).link.whiles = [] := by
  have hB : Program.Based ((freshBase L).withDP d) := (freshBase_based L).withDP d
  rw [Program.codegenLine_direct p line hn, hb]
  exact ⟨Program.base_directGen hB line, (Program.linkProg_indirectErrors_of_over hB line).1,
    Program.linkProg_whiles _⟩

/-- what `enterDirect` does, with the stale-program test resolved -/
theorem enterDirect_dirty (s : Runtime) (line : Line) (hd : s.dirty = true) :
    enterDirect s line =
      { s with program := (((s.program.clear).codegenLines s.listing.lines).codegenLine line).linkProg,
               dirty := false,
               pc := ((((s.program.clear).codegenLines s.listing.lines).codegenLine line).linkProg).directAddress,
               tr := none,
               entryAddress := ((((s.program.clear).codegenLines s.listing.lines).codegenLine line).linkProg).directAddress,
               listing := { s.listing with
                 indirectErrors := ((((s.program.clear).codegenLines s.listing.lines).codegenLine line).linkProg).indirectErrors,
                 directErrors := ((((s.program.clear).codegenLines s.listing.lines).codegenLine line).linkProg).errors },
               state := .running } := by
  unfold enterDirect; simp only [hd, if_true]

theorem enterDirect_clean (s : Runtime) (line : Line) (hd : s.dirty = false) :
    enterDirect s line =
      { s with program := (s.program.codegenLine line).linkProg,
               pc := ((s.program.codegenLine line).linkProg).directAddress,
               tr := none,
               entryAddress := ((s.program.codegenLine line).linkProg).directAddress,
               listing := { s.listing with
                 indirectErrors := ((s.program.codegenLine line).linkProg).indirectErrors,
                 directErrors := ((s.program.codegenLine line).linkProg).errors },
               state := .running } := by
  unfold enterDirect; simp only [hd, Bool.false_eq_true, if_false]

theorem inv_enterDirect (s : Runtime) (line : Line) (hn : line.number = none) (hi : Inv s) :
    Inv (enterDirect s line) := by
  cases hd : s.dirty with
  | true =>
    have hb : Program.base ((s.program.clear).codegenLines s.listing.lines) =
        (freshBase s.listing).withDP s.program.link.dataPos := by
      rw [Program.clear_codegenLines s.program hi.whiles, Program.base_withDP]; rfl
    have h := compile_direct_onto s.listing _ line hn _ hb
    rw [enterDirect_dirty s line hd]
    exact ⟨h.2.2, fun _ => ⟨⟨_, h.1⟩, h.2.1⟩⟩
  | false =>
    obtain ⟨⟨d, hb⟩, _⟩ := hi.compiled hd
    have h := compile_direct_onto s.listing _ line hn d hb
    rw [enterDirect_clean s line hd]
    exact ⟨h.2.2, fun _ => ⟨⟨d, h.1⟩, h.2.1⟩⟩

theorem inv_enterIndirect (s : Runtime) (line : Line) (hi : Inv s) : Inv (enterIndirect s line) := by
  unfold enterIndirect
  dsimp only
  split
  · split
    · exact ⟨hi.whiles, fun h => by cases h⟩
    · exact ⟨hi.whiles, hi.compiled⟩
  · exact ⟨hi.whiles, fun h => by cases h⟩

theorem inv_enter (env : Env) (s : Runtime) (str : Str) (hi : Inv s) : Inv (enter env s str) := by
  unfold enter
  split
  · -- a reply to INPUT
    dsimp only
    split
    · exact inv_of_keep hi (by keep)
    · have hk := doInputReply_keep s str
      generalize doInputReply s str = x at hk ⊢
      rcases x with ⟨s', r⟩
      cases r with
      | ok u => exact inv_of_keep hi (FrameRel.trans hk (by keep))
      | error e =>
        exact inv_of_keep hi (FrameRel.trans hk (FrameRel.trans (keep_doClear env s') (by keep)))
  · -- a reply to INKEY$
    dsimp only
    have hq := (keep_push (Val.str (if RStd.utf8Len str > Gen.maxLineLen then [] else str))).run s
    generalize (push (Val.str (if RStd.utf8Len str > Gen.maxLineLen then [] else str))).run.run s = x at hq ⊢
    rcases x with ⟨r, s'⟩
    cases r with
    | ok u => exact inv_of_keep hi (FrameRel.trans hq (by keep))
    | error e =>
      exact inv_of_keep hi (FrameRel.trans hq (FrameRel.trans (keep_doClear env s') (by keep)))
  · split
    · exact inv_of_keep hi (by keep)
    · dsimp only
      split
      · rename_i hnone
        split
        · exact hi
        · exact inv_enterDirect s _ (Option.isNone_iff_eq_none.1 hnone) hi
      · split
        · exact inv_of_keep hi (by keep)
        · exact inv_enterIndirect s _ hi

theorem inv_setListing (env : Env) (s : Runtime) (l : Listing) (run : Bool) (hi : Inv s) :
    Inv (setListing env s l run) := by
  unfold setListing
  dsimp only
  have h0 : Inv { doNew env s with listing := l } := ⟨hi.whiles, fun h => by cases h⟩
  split
  · exact inv_enter env _ _ h0
  · exact h0

/-! ### under the invariant a direct line is compiled as in a fresh interpreter -/

/-- the program a fresh interpreter holding `listing` runs for the direct line `line` -/
def freshProg (listing : Listing) (line : Line) : Program :=
  ((({} : Program).codegenLines listing.lines).codegenLine line).linkProg

/-- whether or not anything has been edited: the direct line runs the program a fresh interpreter
    would compile from the current listing, up to the DATA cursor -/
theorem enterDirect_program_inv (s : Runtime) (line : Line) (hn : line.number = none) (hi : Inv s) :
    ∃ d, (enterDirect s line).program = (freshProg s.listing line).withDP d := by
  cases hd : s.dirty with
  | true =>
    refine ⟨s.program.link.dataPos, ?_⟩
    rw [enterDirect_dirty s line hd]
    show (((s.program.clear).codegenLines s.listing.lines).codegenLine line).linkProg = _
    rw [Program.clear_codegenLines s.program hi.whiles, Program.codegenLine_withDP, Program.linkProg_withDP]
    rfl
  | false =>
    obtain ⟨⟨d, hb⟩, _⟩ := hi.compiled hd
    refine ⟨d, ?_⟩
    rw [enterDirect_clean s line hd]
    show (s.program.codegenLine line).linkProg = _
    have e : Program.base s.program = Program.base ((({} : Program).codegenLines s.listing.lines).withDP d) := by
      rw [Program.base_withDP]; exact hb
    rw [Program.codegenLine_congr line hn e, Program.codegenLine_withDP, Program.linkProg_withDP]
    rfl

/-- `enterDirect`, with the program it compiles as a parameter -/
theorem enterDirect_shape (s : Runtime) (line : Line) :
    enterDirect s line =
      { s with program := (enterDirect s line).program, dirty := false,
               pc := (enterDirect s line).program.directAddress, tr := none,
               entryAddress := (enterDirect s line).program.directAddress,
               listing := { s.listing with indirectErrors := (enterDirect s line).program.indirectErrors,
                                           directErrors := (enterDirect s line).program.errors },
               state := .running } := by
  cases hd : s.dirty with
  | true => rw [enterDirect_dirty s line hd]
  | false =>
    rw [enterDirect_clean s line hd]
    cases s
    dsimp only at hd
    subst hd
    rfl

/-- what `enterDirect` sets besides the program -/
theorem enterDirect_fields (s : Runtime) (line : Line) :
    (enterDirect s line).state = .running ∧
    (enterDirect s line).pc = (enterDirect s line).program.directAddress ∧
    (enterDirect s line).listing.indirectErrors = (enterDirect s line).program.indirectErrors ∧
    (enterDirect s line).listing.directErrors = (enterDirect s line).program.errors ∧
    (enterDirect s line).tron = s.tron := by
  unfold enterDirect
  dsimp only
  split <;> exact ⟨rfl, rfl, rfl, rfl, rfl⟩

/-- a fresh interpreter (`Runtime::default()`) given the same listing (`set_listing` marks it
    dirty), with the four fields that do not belong to the program's state carried over: the
    prompt text set by the host, TRON, the print column, and `contPc` (dead while `cont = stopped`) -/
def freshLike (s : Runtime) : Runtime :=
  { listing := s.listing, dirty := true, prompt := s.prompt, tron := s.tron, printCol := s.printCol,
    contPc := s.contPc }

theorem freshLike_program (s : Runtime) (line : Line) :
    (enterDirect (freshLike s) line).program = freshProg s.listing line := by
  rw [enterDirect_dirty (freshLike s) line rfl]
  rfl

/-- **RUN from any state of any history = RUN in a fresh interpreter.**  For a state satisfying
    the invariant (every reachable state) and a direct line (`RUN`, `RUN n`, or any other): after
    the line has been compiled and CLEAR executed, the *whole state* is the one a fresh
    interpreter holding the same listing reaches — no hypothesis on `dirty` -/
theorem run_state_eq_freshLike (env : Env) (s : Runtime) (line : Line) (hn : line.number = none)
    (hi : Inv s) :
    doClear env (enterDirect s line) = doClear env (enterDirect (freshLike s) line) := by
  obtain ⟨d, hp⟩ := enterDirect_program_inv s line hn hi
  have hq := freshLike_program s line
  rw [enterDirect_shape s line, enterDirect_shape (freshLike s) line, hp, hq]
  unfold doClear Link.restoreData Program.withDP Link.withDP freshLike
  rfl

/-! ### with nothing to resume, CONT / RETURN / NEXT / FN are refused -/

theorem doCont_refused (s : Runtime) (h : s.cont = .stopped) :
    doCont.run.run s = (.error (Error.mk' Code.cantContinue), s) := by
  rw [run_doCont, if_pos h]

theorem doReturn_refused (s : Runtime) (h : s.stack = #[]) :
    doReturn.run.run s = (.error (Error.mk' Code.returnWithoutGosub), s) := by
  unfold doReturn
  rw [run_bind_ok (run_get s), h]
  show (doReturn.loop 1 none true).run.run s = _
  unfold doReturn.loop
  rw [run_bind_ok (run_get s), h]
  rfl

theorem doNext_refused (name : Str) (s : Runtime) (h : s.stack = #[]) :
    (doNext name).run.run s = (.error (Error.mk' Code.nextWithoutFor), s) := by
  unfold doNext
  rw [run_bind_ok (run_get s), h]
  show (doNext.loop name 2).run.run s = _
  unfold doNext.loop
  rw [run_bind_ok (run_get s), h]
  rfl

theorem popVec_functions {s t : Runtime} {args : List Val} (h : popVec.run.run s = (.ok args, t)) :
    t.functions = s.functions := by
  unfold popVec at h
  rw [run_bind, run_pop] at h
  cases hb : s.stack.back? with
  | none => rw [hb] at h; cases h
  | some v =>
    rw [hb] at h
    dsimp only at h
    cases v with
    | int n =>
      dsimp only at h
      by_cases hn : n.toInt < 0
      · rw [if_pos hn] at h; cases h
      · rw [if_neg hn, run_popN] at h
        split at h
        · cases h
        · cases h; rfl
    | _ => cases h

/-- with an empty DEF FN table a call — whatever its arguments — is UNDEFINED USER FUNCTION -/
theorem doFn_refused (name : Str) (s t : Runtime) (args : List Val) (h : s.functions = [])
    (hv : popVec.run.run s = (.ok args, t)) :
    (doFn name).run.run s = (.error (Error.mk' Code.undefinedUserFunction), t) := by
  have ht : t.functions = [] := (popVec_functions hv).trans h
  unfold doFn
  rw [run_bind_ok hv, run_bind_ok (run_get t), ht]
  rfl

end Runtime
end Basic
