import BasicModel.Lemmas.LexAllPost
/-
  C05 for ALL strings, part 8: `collapse_triples`, `collapse_doubles` and `separate_words` keep the
  `Chain` invariant.
-/
set_option linter.unusedSimpArgs false
set_option linter.unusedVariables false
namespace Basic
namespace Lex

/-! ### `collapse_triples` as a recursive function -/

/-- `collapse_triples` without locations: all windows are looked at on the ORIGINAL list, the
    replacements are made from the right (a replacement swallows two tokens of what is already built) -/
def tplRec : List Token → List Token
  | a :: b :: c :: rest =>
    match tripleMatch a b c with
    | some t => t :: (tplRec (b :: c :: rest)).drop 2
    | none => a :: tplRec (b :: c :: rest)
  | ts => ts

theorem collapseTriples_aux_la (ts : List Token) : ∀ (pre : List Token),
    applyLocs 3 (tripleLocs ts pre.length) (pre ++ ts) = pre ++ tplRec ts := by
  induction ts with
  | nil => intro pre; simp [tripleLocs, tplRec, applyLocs]
  | cons a tl ih =>
    intro pre
    cases tl with
    | nil => simp [tripleLocs, tplRec, applyLocs]
    | cons b tl2 =>
      cases tl2 with
      | nil => simp [tripleLocs, tplRec, applyLocs]
      | cons c rest =>
        have := ih (pre ++ [a])
        simp only [List.length_append, List.length_cons, List.length_nil, List.append_assoc,
          List.cons_append, List.nil_append, Nat.zero_add] at this
        simp only [tripleLocs, tplRec]
        cases hm : tripleMatch a b c with
        | none => simpa using this
        | some t =>
          simp only [applyLocs, List.foldr_cons] at this ⊢
          rw [this, splice]
          simp only
          rw [List.take_left' rfl]
          congr 2
          rw [show pre ++ a :: tplRec (b :: c :: rest) = (pre ++ [a]) ++ tplRec (b :: c :: rest) by simp]
          rw [show pre.length + 3 = (pre ++ [a]).length + 2 by simp]
          rw [List.drop_append]
          have h1 : List.drop ((pre ++ [a]).length + 2) (pre ++ [a]) = [] := by
            apply List.drop_eq_nil_of_le; omega
          rw [h1, List.nil_append]
          congr 1
          omega

theorem collapseTriples_eq_la (ts : List Token) : collapseTriples ts = tplRec ts := by
  simpa [collapseTriples] using collapseTriples_aux_la ts []

/-! ### tokens with the same interface to their left neighbour -/

def cmpChar (c : Char) : Prop := c = '<' ∨ c = '=' ∨ c = '>'

theorem bndC_cmp (x : Token) (c c' : Char) (hc : cmpChar c) (hc' : cmpChar c') (h : BndC x c) : BndC x c' := by
  have key : ∀ d, cmpChar d → (BndC x d ↔ BndC x '<') := by
    intro d hd
    cases x with
    | unknown u => rcases hd with e | e | e <;> subst e <;> simp [BndC] <;> decide
    | whitespace n => rcases hd with e | e | e <;> subst e <;> simp [BndC] <;> decide
    | literal l =>
      cases l with
      | string s => simp [BndC]
      | hex ds => rcases hd with e | e | e <;> subst e <;> simp [BndC] <;> decide
      | octal ds => rcases hd with e | e | e <;> subst e <;> simp [BndC] <;> decide
      | single s =>
        rcases hd with e | e | e <;> subst e <;>
          simp [BndC, NumBnd, (by decide : numCont false false '<' = false),
            (by decide : numCont false false '=' = false), (by decide : numCont false false '>' = false)]
      | double s =>
        rcases hd with e | e | e <;> subst e <;>
          simp [BndC, NumBnd, (by decide : numCont false false '<' = false),
            (by decide : numCont false false '=' = false), (by decide : numCont false false '>' = false)]
      | integer s =>
        rcases hd with e | e | e <;> subst e <;>
          simp [BndC, NumBnd, (by decide : numCont false false '<' = false),
            (by decide : numCont false false '=' = false), (by decide : numCont false false '>' = false)]
    | word w => rcases hd with e | e | e <;> subst e <;> cases w <;> simp [BndC] <;> decide
    | operator o =>
      rcases hd with e | e | e <;> subst e <;>
        simp [BndC, (by decide : isAlpha '<' = false), (by decide : isAlpha '=' = false),
          (by decide : isAlpha '>' = false)]
    | ident i => rcases hd with e | e | e <;> subst e <;> cases i <;> simp [BndC] <;> decide
    | _ => simp [BndC]
  exact (key c' hc').2 ((key c hc).1 h)

/-- `a'` looks to its left neighbour like `a`: same word-likeness, same first character up to the
    choice among `<`, `=`, `>` -/
def SameIn (a' a : Token) : Prop :=
  a'.isWord = a.isWord ∧
    (fc a' = fc a ∨ ((∃ c, fc a = some c ∧ cmpChar c) ∧ ∃ c', fc a' = some c' ∧ cmpChar c'))

theorem SameIn.refl (a : Token) : SameIn a a := ⟨rfl, Or.inl rfl⟩

theorem adj_sameIn (x a a' : Token) (h : Adj x a) (hs : SameIn a' a) : Adj x a' := by
  unfold Adj at h ⊢
  rw [hs.1]
  split
  · rename_i hw; rw [if_pos hw] at h; exact h
  · rename_i hw
    rw [if_neg hw] at h
    rcases hs.2 with e | ⟨⟨c, e1, h1⟩, c', e2, h2⟩
    · rw [e]; exact h
    · rw [e1] at h; rw [e2]; exact bndC_cmp x c c' h1 h2 h

def HeadSame (l' l : List Token) : Prop :=
  (l = [] → l' = []) ∧ ∀ a, l.head? = some a → ∃ a', l'.head? = some a' ∧ SameIn a' a

theorem HeadSame.refl (l : List Token) : HeadSame l l :=
  ⟨id, fun a h => ⟨a, h, SameIn.refl a⟩⟩

theorem headSame_cons (a' a : Token) (l' l : List Token) (h : SameIn a' a) : HeadSame (a' :: l') (a :: l) :=
  ⟨(by intro e; cases e), (by intro x hx; simp at hx; subst hx; exact ⟨a', rfl, h⟩)⟩

/-- a link of the chain, rebuilt over a tail with the same head interface -/
theorem chain_link (a : Token) (l l' : List Token) (h1 : a ≠ .word .rem2) (h2 : Tok a)
    (h3 : ∀ b ∈ l.head?, Adj a b) (h4 : a = .word .rem1 ∨ Chain l') (hs : HeadSame l' l) : Chain (a :: l') := by
  refine chain_cons a l' h2 h1 ?_ h4
  intro b' hb'
  cases l with
  | nil => rw [hs.1 rfl] at hb'; simp at hb'
  | cons b rest =>
    obtain ⟨a'', e, hsame⟩ := hs.2 b rfl
    rw [e] at hb'; simp at hb'; subst hb'
    exact adj_sameIn a b a'' (h3 b (by simp)) hsame

/-! ### comparison operators -/

theorem isCmp_facts (t : Token) (h : isCmp t = true) :
    t.isWord = false ∧ (∃ c, fc t = some c ∧ cmpChar c) ∧ t ≠ .word .rem1 ∧ t ≠ .word .rem2 ∧ Tok t ∧
      ∀ y, Adj t y := by
  cases t with
  | operator o =>
    have hw : o.isWord = false := by cases o <;> first | rfl | exact absurd h (by decide)
    refine ⟨hw, ?_, by simp, by simp, trivial, ?_⟩
    · cases o <;> first
        | exact absurd h (by decide)
        | exact ⟨'<', rfl, Or.inl rfl⟩
        | exact ⟨'=', rfl, Or.inr (Or.inl rfl)⟩
        | exact ⟨'>', rfl, Or.inr (Or.inr rfl)⟩
    · intro y
      unfold Adj
      simp only [Token.isWord, hw, Bool.false_and, Bool.false_eq_true, if_false]
      cases fc y with
      | none => trivial
      | some c => intro hh; rw [hw] at hh; cases hh
  | _ => exact absurd h (by simp [isCmp])

theorem isCmp_of_raw (t : Token) (h : isRawCmp t = true) : isCmp t = true := by
  cases t with
  | operator o => cases o <;> first | rfl | exact absurd h (by decide)
  | _ => exact absurd h (by simp [isRawCmp])

theorem sameIn_cmp (a' a : Token) (h' : isCmp a' = true) (h : isCmp a = true) : SameIn a' a := by
  obtain ⟨w1, f1, -⟩ := isCmp_facts a h
  obtain ⟨w2, f2, -⟩ := isCmp_facts a' h'
  exact ⟨by rw [w1, w2], Or.inr ⟨f1, f2⟩⟩

def goTok : Token := .ident (.plain "GO".toList)
def subTok : Token := .ident (.plain "SUB".toList)

theorem tripleMatch_some (a b c T : Token) (h : tripleMatch a b c = some T) :
    (∃ n, b = .whitespace n) ∧
      ((isRawCmp a = true ∧ isRawCmp c = true ∧ isCmp T = true) ∨
        (a = goTok ∧ ((c = .word .to ∧ T = .word .goto) ∨ (c = subTok ∧ T = .word .gosub)))) := by
  unfold tripleMatch at h
  split at h
  all_goals first
    | (cases h; exact ⟨⟨_, rfl⟩, Or.inl ⟨rfl, rfl, rfl⟩⟩)
    | (split at h
       · rename_i hgo
         cases h
         first
           | (simp only [Bool.and_eq_true, decide_eq_true_eq] at hgo
              obtain ⟨e1, e2⟩ := hgo
              subst e1; subst e2
              exact ⟨⟨_, rfl⟩, Or.inr ⟨rfl, Or.inr ⟨rfl, rfl⟩⟩⟩)
           | (subst hgo
              exact ⟨⟨_, rfl⟩, Or.inr ⟨rfl, Or.inl ⟨rfl, rfl⟩⟩⟩)
       · cases h)
    | cases h

theorem tripleMatch_ws_la (n : Nat) (y z : Token) : tripleMatch (.whitespace n) y z = none := by
  unfold tripleMatch; split <;> simp_all

theorem tripleMatch_to (y z : Token) : tripleMatch (.word .to) y z = none := by
  unfold tripleMatch; split <;> simp_all

theorem tripleMatch_sub (y z : Token) : tripleMatch subTok y z = none := by
  unfold tripleMatch subTok
  split <;> first | rfl | simp_all
  all_goals (rename_i heq; cases heq; simp (decide := true))

/-! ### `collapse_triples` keeps the chain -/

theorem tplRec_short1 (a : Token) : tplRec [a] = [a] := rfl
theorem tplRec_short2 (a b : Token) : tplRec [a, b] = [a, b] := rfl

theorem tplRec_cons3 (a b c : Token) (rest : List Token) :
    tplRec (a :: b :: c :: rest) =
      match tripleMatch a b c with
      | some t => t :: (tplRec (b :: c :: rest)).drop 2
      | none => a :: tplRec (b :: c :: rest) := rfl

theorem tplRec_nohit (c : Token) (r : List Token) (h : ∀ y z, tripleMatch c y z = none) :
    tplRec (c :: r) = c :: tplRec r := by
  cases r with
  | nil => rfl
  | cons y r' =>
    cases r' with
    | nil => rfl
    | cons z r'' => rw [tplRec_cons3, h y z]

theorem headSame_tplRec (l : List Token) : HeadSame (tplRec l) l := by
  cases l with
  | nil => exact HeadSame.refl _
  | cons a tl =>
    cases tl with
    | nil => exact HeadSame.refl _
    | cons b tl2 =>
      cases tl2 with
      | nil => exact HeadSame.refl _
      | cons c rest =>
        rw [tplRec_cons3]
        cases hm : tripleMatch a b c with
        | none => exact headSame_cons a a _ _ (SameIn.refl a)
        | some T =>
          refine headSame_cons T a _ _ ?_
          obtain ⟨-, hcase⟩ := tripleMatch_some a b c T hm
          rcases hcase with ⟨h1, -, h3⟩ | ⟨e, (⟨-, e2⟩ | ⟨-, e2⟩)⟩
          · exact sameIn_cmp T a h3 (isCmp_of_raw a h1)
          · subst e; subst e2; exact ⟨rfl, Or.inl rfl⟩
          · subst e; subst e2; exact ⟨rfl, Or.inl rfl⟩

theorem chain_tplRec (n : Nat) : ∀ l : List Token, l.length ≤ n → Chain l → Chain (tplRec l) := by
  induction n with
  | zero =>
    intro l hl _
    have : l = [] := by cases l <;> simp_all
    subst this; trivial
  | succ n ih =>
    intro l hl h
    cases l with
    | nil => trivial
    | cons a tl =>
      cases tl with
      | nil => exact h
      | cons b tl2 =>
        cases tl2 with
        | nil => exact h
        | cons c rest =>
          simp only [List.length_cons] at hl
          rcases h with ⟨-, hr, -⟩ | ⟨h1, h2, h3, h4⟩
          · cases hr
          rw [tplRec_cons3]
          cases hm : tripleMatch a b c with
          | none =>
            simp only
            refine chain_link a (b :: c :: rest) _ h1 h2 (by intro x hx; simp at hx; subst hx; exact h3) ?_
              (headSame_tplRec _)
            rcases h4 with e | h4
            · exact Or.inl e
            · exact Or.inr (ih _ (by simp only [List.length_cons]; omega) h4)
          | some T =>
            simp only
            obtain ⟨⟨k, hb⟩, hcase⟩ := tripleMatch_some a b c T hm
            subst hb
            have ha1 : a ≠ .word .rem1 := by
              rcases hcase with ⟨h, -, -⟩ | ⟨e, -⟩
              · exact (isCmp_facts a (isCmp_of_raw a h)).2.2.1
              · subst e; simp [goTok]
            have hbc : Chain (Token.whitespace k :: c :: rest) := by
              rcases h4 with e | h4
              · exact absurd e ha1
              · exact h4
            have hc : Chain (c :: rest) := chain_tail _ _ hbc (by simp) (by simp)
            have hX : Chain (tplRec (c :: rest)) := ih _ (by simp only [List.length_cons]; omega) hc
            have hsplit : tplRec (Token.whitespace k :: c :: rest) = Token.whitespace k :: tplRec (c :: rest) :=
              tplRec_nohit _ _ (tripleMatch_ws_la k)
            rw [hsplit]
            simp only [List.drop_succ_cons]
            -- the head of what is built over `c :: rest`
            rcases hcase with ⟨hac, hcc, hT⟩ | ⟨-, hgo⟩
            · obtain ⟨-, -, t1, t2, t3, t4⟩ := isCmp_facts T hT
              -- `c` or what replaced it is no remark marker
              have hx : ∀ x D, tplRec (c :: rest) = x :: D → Chain D := by
                intro x D e
                rw [e] at hX
                have hxc : isCmp x = true := by
                  have hs := headSame_tplRec (c :: rest)
                  cases rest with
                  | nil => simp [tplRec] at e; rw [← e.1]; exact isCmp_of_raw c hcc
                  | cons y r' =>
                    cases r' with
                    | nil => simp [tplRec] at e; rw [← e.1]; exact isCmp_of_raw c hcc
                    | cons z r'' =>
                      rw [tplRec_cons3] at e
                      cases hm2 : tripleMatch c y z with
                      | none =>
                        rw [hm2] at e; simp only at e
                        rw [← (List.cons.inj e).1]; exact isCmp_of_raw c hcc
                      | some T' =>
                        rw [hm2] at e; simp only at e
                        rw [← (List.cons.inj e).1]
                        obtain ⟨-, hcase2⟩ := tripleMatch_some c y z T' hm2
                        rcases hcase2 with ⟨-, -, h⟩ | ⟨e', -⟩
                        · exact h
                        · subst e'; exact absurd hcc (by decide)
                obtain ⟨-, -, x1, x2, -, -⟩ := isCmp_facts x hxc
                exact chain_tail x D hX x1 x2
              cases hd : tplRec (c :: rest) with
              | nil => exact t3
              | cons x D =>
                simp only [List.drop_succ_cons, List.drop_zero]
                exact chain_cons T D t3 t2 (fun y _ => t4 y) (Or.inr (hx x D hd))
            · -- `GO <blank> TO|SUB`
              have hcn : ∀ y z, tripleMatch c y z = none := by
                rcases hgo with ⟨e, -⟩ | ⟨e, -⟩ <;> subst e
                · exact tripleMatch_to
                · exact tripleMatch_sub
              rw [tplRec_nohit c rest hcn] at hX ⊢
              simp only [List.drop_succ_cons, List.drop_zero]
              have hTw : T = .word .goto ∨ T = .word .gosub := by
                rcases hgo with ⟨-, e⟩ | ⟨-, e⟩
                · exact Or.inl e
                · exact Or.inr e
              have hT2 : T ≠ .word .rem2 ∧ T ≠ .word .rem1 := by
                rcases hTw with e | e <;> subst e <;> simp
              have hc1 : c ≠ .word .rem1 ∧ c ≠ .word .rem2 := by
                rcases hgo with ⟨e, -⟩ | ⟨e, -⟩ <;> subst e <;> simp [subTok]
              refine chain_cons T _ (by rcases hTw with e | e <;> subst e <;> trivial) hT2.1 ?_
                (Or.inr (chain_tail c _ hX hc1.1 hc1.2))
              intro y hy
              cases hD : tplRec rest with
              | nil => rw [hD] at hy; simp at hy
              | cons y' D =>
                rw [hD] at hy hX; simp at hy; subst hy
                rcases hX with ⟨hr, -⟩ | ⟨-, -, hadj, -⟩
                · rcases hr with e | e
                  · exact absurd e hc1.1
                  · exact absurd e hc1.2
                · -- `T` stops wherever `c` stops
                  have hw : T.isWord = true ∧ c.isWord = true := by
                    rcases hTw with e | e <;> subst e <;> rcases hgo with ⟨e, -⟩ | ⟨e, -⟩ <;> subst e <;>
                      exact ⟨rfl, rfl⟩
                  unfold Adj at hadj ⊢
                  rw [hw.1]; rw [hw.2] at hadj
                  split
                  · rcases hTw with e | e <;> subst e <;> (show isAlpha ' ' = false; decide)
                  · rename_i hyw
                    rw [if_neg hyw] at hadj
                    cases hf : fc y' with
                    | none => trivial
                    | some ch =>
                      rw [hf] at hadj
                      have hna : isAlpha ch = false := by
                        rcases hgo with ⟨e, -⟩ | ⟨e, -⟩ <;> subst e
                        · exact hadj
                        · exact hadj.1
                      rcases hTw with e | e <;> subst e <;> exact hna

theorem chain_collapseTriples (l : List Token) (h : Chain l) : Chain (collapseTriples l) := by
  rw [collapseTriples_eq_la]; exact chain_tplRec l.length l (Nat.le_refl _) h

end Lex
end Basic
