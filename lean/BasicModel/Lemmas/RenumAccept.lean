import BasicModel.Lemmas.RenumRange
/-
  RENUM and the compiler, part 7: the visitor on related syntax trees.
-/
namespace Basic
namespace RenumRel
open Link Codegen

variable {φ : Nat → Nat} {α α' β β' : Type}

variable (φ) in
/-- visitor states: related generator states, errors of the same kinds -/
structure VRel (s s' : VState) : Prop where
  g : GRel φ s.g s'.g
  errors : All₂ ErrRel s.errors s'.errors

theorem VRel.empty : VRel φ {} {} := ⟨GRel.empty, .nil⟩

/-- a generator function run on a fresh fragment -/
theorem runFresh_rel {m : GM α} {m' : GM α'} {P : GState → GState → Prop} {R : α → α' → Prop}
    (h : GR φ P m m' (S φ R)) {g g' : GState} (hP : P { g with cur := {} } { g' with cur := {} })
    (hc : FragRel φ g.cur g'.cur) :
    (match (runFresh m g).1, (runFresh m' g').1 with
      | .ok a, .ok a' => R a a'
      | .error e, .error e' => ErrRel e e'
      | _, _ => False) ∧
    FragRel φ (runFresh m g).2.1 (runFresh m' g').2.1 ∧ GRel φ (runFresh m g).2.2 (runFresh m' g').2.2 := by
  have h1 := h.run _ _ hP
  unfold Out at h1
  unfold runFresh
  rcases hm : m.run.run { g with cur := {} } with ⟨r, g1⟩
  rcases hm' : m'.run.run { g' with cur := {} } with ⟨r', g1'⟩
  rw [hm, hm'] at h1
  cases r with
  | ok a =>
    cases r' with
    | ok a' => exact ⟨h1.1, h1.2.cur, h1.2.var, h1.2.expr, h1.2.stmt, hc⟩
    | error e' => exact h1.elim
  | error e =>
    cases r' with
    | ok a' => exact h1.elim
    | error e' => exact ⟨h1.1, h1.2.cur, h1.2.var, h1.2.expr, h1.2.stmt, hc⟩

theorem visitStatement_rel {st st' : Stmt} {P : GState → GState → Prop}
    (h : GR φ P (genStatement st) (genStatement st') (S φ TT)) {s s' : VState}
    (hP : P { s.g with cur := {} } { s'.g with cur := {} }) (hc : FragRel φ s.g.cur s'.g.cur)
    (he : All₂ ErrRel s.errors s'.errors) : VRel φ (visitStatement st s) (visitStatement st' s') := by
  have hr := runFresh_rel h hP hc
  unfold visitStatement
  generalize runFresh (genStatement st) s.g = x at hr ⊢
  generalize runFresh (genStatement st') s'.g = x' at hr ⊢
  rcases x with ⟨r, link, g⟩
  rcases x' with ⟨r', link', g'⟩
  dsimp only at hr ⊢
  cases r with
  | ok a =>
    cases r' with
    | ok a' => exact ⟨⟨hr.2.2.var, hr.2.2.expr, hr.2.2.stmt.push hr.2.1, hr.2.2.cur⟩, he⟩
    | error e' => exact hr.1.elim
  | error e =>
    cases r' with
    | ok a' => exact hr.1.elim
    | error e' =>
      exact ⟨⟨hr.2.2.var, hr.2.2.expr, hr.2.2.stmt.push hr.2.1, hr.2.2.cur⟩, he.append (.cons hr.1 .nil)⟩

theorem visitStatement_rel' {st st' : Stmt} (h : GRs φ (genStatement st) (genStatement st') TT) {s s' : VState}
    (hs : VRel φ s s') : VRel φ (visitStatement st s) (visitStatement st' s') :=
  visitStatement_rel h (hs.g.setCur FragRel.empty) hs.g.cur hs.errors

theorem visitExpression_rel {e e' : Expr} (h : GRs φ (genExpression e) (genExpression e') TT) {s s' : VState}
    (hs : VRel φ s s') : VRel φ (visitExpression e s) (visitExpression e' s') := by
  have hr := runFresh_rel h (hs.g.setCur FragRel.empty) hs.g.cur
  unfold visitExpression
  generalize runFresh (genExpression e) s.g = x at hr ⊢
  generalize runFresh (genExpression e') s'.g = x' at hr ⊢
  rcases x with ⟨r, link, g⟩
  rcases x' with ⟨r', link', g'⟩
  dsimp only at hr ⊢
  cases r with
  | ok a =>
    cases r' with
    | ok a' => exact ⟨⟨hr.2.2.var, hr.2.2.expr.push hr.2.1, hr.2.2.stmt, hr.2.2.cur⟩, hs.errors⟩
    | error e' => exact hr.1.elim
  | error e =>
    cases r' with
    | ok a' => exact hr.1.elim
    | error e' =>
      exact ⟨⟨hr.2.2.var, hr.2.2.expr.push hr.2.1, hr.2.2.stmt, hr.2.2.cur⟩, hs.errors.append (.cons hr.1 .nil)⟩

theorem visitVariable_rel {v v' : Variable} (h : GRs φ (genVariable v) (genVariable v') (fun r r' => r'.2 = r.2))
    {s s' : VState} (hs : VRel φ s s') : VRel φ (visitVariable v s) (visitVariable v' s') := by
  have hr := runFresh_rel h (hs.g.setCur FragRel.empty) hs.g.cur
  unfold visitVariable
  generalize runFresh (genVariable v) s.g = x at hr ⊢
  generalize runFresh (genVariable v') s'.g = x' at hr ⊢
  rcases x with ⟨r, link, g⟩
  rcases x' with ⟨r', link', g'⟩
  dsimp only at hr ⊢
  cases r with
  | ok a =>
    cases r' with
    | ok a' =>
      rcases a with ⟨c, name, len⟩
      rcases a' with ⟨c', name', len'⟩
      have h1 := hr.1
      dsimp only at h1
      cases h1
      exact ⟨⟨hr.2.2.var.push ⟨rfl, rfl, hr.2.1⟩, hr.2.2.expr, hr.2.2.stmt, hr.2.2.cur⟩, hs.errors⟩
    | error e' => exact hr.1.elim
  | error e =>
    cases r' with
    | ok a' => exact hr.1.elim
    | error e' =>
      exact ⟨⟨hr.2.2.var.push ⟨rfl, rfl, hr.2.1⟩, hr.2.2.expr, hr.2.2.stmt, hr.2.2.cur⟩,
        hs.errors.append (.cons hr.1 .nil)⟩

/-! ### expressions and variables -/

mutual
theorem acceptVar_rel : ∀ (v v' : Variable), VarRel v v' → ∀ (s s' : VState), VRel φ s s' →
    VRel φ (acceptVar v s) (acceptVar v' s')
  | .unary c i, _, h, s, s', hs => by
    cases h with
    | unary _ c' _ => rw [acceptVar, acceptVar]; exact visitVariable_rel (gr_genVariable (.unary c c' i)) hs
  | .array c i es, _, h, s, s', hs => by
    cases h with
    | array _ c' _ hes =>
      rw [acceptVar, acceptVar]
      exact visitVariable_rel (gr_genVariable (.array c c' i hes)) (acceptExprs_rel es _ hes s s' hs)
theorem acceptExpr_rel : ∀ (e e' : Expr), ExprRel e e' → ∀ (s s' : VState), VRel φ s s' →
    VRel φ (acceptExpr e s) (acceptExpr e' s')
  | .var v, _, h, s, s', hs => by
    cases h with
    | var hv =>
      rw [acceptExpr, acceptExpr]
      exact visitExpression_rel (gr_genExpression (.var hv)) (acceptVar_rel v _ hv s s' hs)
  | .neg c e, _, h, s, s', hs => by
    cases h with
    | neg _ c' he =>
      rw [acceptExpr, acceptExpr]
      exact visitExpression_rel (gr_genExpression (.neg c c' he)) (acceptExpr_rel e _ he s s' hs)
  | .not c e, _, h, s, s', hs => by
    cases h with
    | not _ c' he =>
      rw [acceptExpr, acceptExpr]
      exact visitExpression_rel (gr_genExpression (.not c c' he)) (acceptExpr_rel e _ he s s' hs)
  | .bin op c l r, _, h, s, s', hs => by
    cases h with
    | bin _ _ c' hl hr =>
      rw [acceptExpr, acceptExpr]
      exact visitExpression_rel (gr_genExpression (.bin op c c' hl hr))
        (acceptExpr_rel r _ hr _ _ (acceptExpr_rel l _ hl s s' hs))
  | .single c b, _, h, s, s', hs => by
    cases h with
    | single _ c' _ =>
      rw [acceptExpr, acceptExpr] <;> first | exact visitExpression_rel (gr_genExpression (.single c c' b)) hs | nofun
  | .double c b, _, h, s, s', hs => by
    cases h with
    | double _ c' _ =>
      rw [acceptExpr, acceptExpr] <;> first | exact visitExpression_rel (gr_genExpression (.double c c' b)) hs | nofun
  | .integer c b, _, h, s, s', hs => by
    cases h with
    | integer _ c' _ =>
      rw [acceptExpr, acceptExpr] <;> first | exact visitExpression_rel (gr_genExpression (.integer c c' b)) hs | nofun
  | .string c b, _, h, s, s', hs => by
    cases h with
    | string _ c' _ =>
      rw [acceptExpr, acceptExpr] <;> first | exact visitExpression_rel (gr_genExpression (.string c c' b)) hs | nofun
theorem acceptExprs_rel : ∀ (es es' : List Expr), ExprsRel es es' → ∀ (s s' : VState), VRel φ s s' →
    VRel φ (acceptExprs es s) (acceptExprs es' s')
  | [], _, h, s, s', hs => by
    cases h with
    | nil => rw [acceptExprs, acceptExprs]; exact hs
  | e :: es, _, h, s, s', hs => by
    cases h with
    | cons he hes =>
      rw [acceptExprs, acceptExprs]
      exact acceptExprs_rel es _ hes _ _ (acceptExpr_rel e _ he s s' hs)
end

theorem acceptVars_rel {vs vs' : List Variable} (h : All₂ VarRel vs vs') : ∀ {s s' : VState}, VRel φ s s' →
    VRel φ (acceptVars vs s) (acceptVars vs' s') := by
  unfold acceptVars
  induction h with
  | nil => intro s s' hs; exact hs
  | cons hab _ ih => intro s s' hs; rw [List.foldl_cons, List.foldl_cons]; exact ih (acceptVar_rel _ _ hab s s' hs)

/-! ### literal leaves: the operands -/

/-- push a fragment on the expression stack -/
def pushExpr (s : VState) (x : Col × Link) : VState := { s with g := { s.g with expr := s.g.expr.push x } }

theorem acceptExpr_leaf {e : Expr} {v : Val} (h : litVal e = some v) (s : VState) :
    acceptExpr e s = pushExpr s (leafCol e, litFrag v) := by
  cases e with
  | var x => cases h
  | neg c e => cases h
  | not c e => cases h
  | bin op c l r => cases h
  | single c b => cases h; rfl
  | double c b => cases h; rfl
  | integer c b => cases h; rfl
  | string c b => cases h; rfl

theorem OperandRel.frag {e e' : Expr} (h : OperandRel φ e e') :
    ∃ x x', OpFrag φ x x' ∧ (∀ s, acceptExpr e s = pushExpr s x) ∧ (∀ s, acceptExpr e' s = pushExpr s x') := by
  cases h with
  | line h1 h2 h3 h4 => exact ⟨_, _, .line _ _ h3 h4, acceptExpr_leaf h1, acceptExpr_leaf h2⟩
  | other h1 h2 h3 => exact ⟨_, _, .other _ _ h3, acceptExpr_leaf h1, acceptExpr_leaf h2⟩

theorem top_push (k : Nat) (hk : k ≤ Gen.stackMaxLen) {s s' : VState} (hs : VRel φ s s') (xs xs' : List (Col × Link))
    (g g' : GState) (hg : g.expr.toList = s.g.expr.toList ++ xs) (hg' : g'.expr.toList = s'.g.expr.toList ++ xs')
    (hv : g.var = s.g.var) (hv' : g'.var = s'.g.var) (ht : g.stmt = s.g.stmt) (ht' : g'.stmt = s'.g.stmt) :
    Top φ k xs xs' { g with cur := {} } { g' with cur := {} } := by
  refine ⟨s.g.expr.toList, s'.g.expr.toList, hg, hg', hs.g.expr, ?_, ?_, FragRel.empty, ?_⟩
  · show All₂ _ g.var.toList g'.var.toList
    rw [hv, hv']; exact hs.g.var
  · show All₂ _ g.stmt.toList g'.stmt.toList
    rw [ht, ht']; exact hs.g.stmt
  · show (#[] : Array Opcode).size + k ≤ Gen.stackMaxLen
    simpa using hk

theorem top_push1 (k : Nat) (hk : k ≤ Gen.stackMaxLen) {s s' : VState} (hs : VRel φ s s') (x x' : Col × Link) :
    Top φ k [x] [x'] { (pushExpr s x).g with cur := {} } { (pushExpr s' x').g with cur := {} } :=
  top_push k hk hs [x] [x'] _ _ (Array.toList_push ..) (Array.toList_push ..) rfl rfl rfl rfl

theorem top_push2 (k : Nat) (hk : k ≤ Gen.stackMaxLen) {s s' : VState} (hs : VRel φ s s') (x x' y y' : Col × Link) :
    Top φ k [x, y] [x', y'] { (pushExpr (pushExpr s x) y).g with cur := {} }
      { (pushExpr (pushExpr s' x') y').g with cur := {} } :=
  top_push k hk hs [x, y] [x', y'] _ _
    (by show ((s.g.expr.push x).push y).toList = _; simp only [Array.toList_push, List.append_assoc, List.cons_append, List.nil_append])
    (by show ((s'.g.expr.push x').push y').toList = _; simp only [Array.toList_push, List.append_assoc, List.cons_append, List.nil_append])
    rfl rfl rfl rfl

theorem pushExpr_cur (s : VState) (x : Col × Link) : (pushExpr s x).g.cur = s.g.cur := rfl
theorem pushExpr_errors (s : VState) (x : Col × Link) : (pushExpr s x).errors = s.errors := rfl

/-- a statement with one line-number operand -/
theorem accept_operand1 {st st' : Stmt} {e e' : Expr} (he : OperandRel φ e e')
    (hgen : ∀ x x', OpFrag φ x x' → GR φ (Top φ 0 [x] [x']) (genStatement st) (genStatement st') (S φ TT))
    {s s' : VState} (hs : VRel φ s s') :
    VRel φ (visitStatement st (acceptExpr e s)) (visitStatement st' (acceptExpr e' s')) := by
  obtain ⟨x, x', hx, h1, h2⟩ := he.frag
  rw [h1, h2]
  exact visitStatement_rel (hgen x x' hx) (top_push1 0 (Nat.zero_le _) hs x x') hs.g.cur hs.errors

theorem RangeOperandRel.frag {e e' : Expr} (h : RangeOperandRel φ e e') :
    ∃ x x', RangeFrag φ x x' ∧ (∀ s, acceptExpr e s = pushExpr s x) ∧ (∀ s, acceptExpr e' s = pushExpr s x') := by
  cases h with
  | line h1 h2 h3 h4 => exact ⟨_, _, .mk _ _ h3 h4 (.inl rfl), acceptExpr_leaf h1, acceptExpr_leaf h2⟩
  | kept h1 h2 h3 => exact ⟨_, _, .mk _ _ h3 h3 (.inr rfl), acceptExpr_leaf h1, acceptExpr_leaf h2⟩

/-- LIST / DELETE -/
theorem accept_range {st st' : Stmt} {a a' b b' : Expr} (ha : RangeOperandRel φ a a') (hb : RangeOperandRel φ b b')
    (hgen : ∀ xa xa' xb xb', RangeFrag φ xa xa' → RangeFrag φ xb xb' →
      GR φ (Top φ 3 [xa, xb] [xa', xb']) (genStatement st) (genStatement st') (S φ TT))
    {s s' : VState} (hs : VRel φ s s') :
    VRel φ (visitStatement st (acceptExpr b (acceptExpr a s))) (visitStatement st' (acceptExpr b' (acceptExpr a' s'))) := by
  obtain ⟨xa, xa', hxa, h1, h2⟩ := ha.frag
  obtain ⟨xb, xb', hxb, h3, h4⟩ := hb.frag
  rw [h1, h2, h3, h4]
  exact visitStatement_rel (hgen xa xa' xb xb' hxa hxb) (top_push2 3 (by decide) hs xa xa' xb xb') hs.g.cur hs.errors

/-- the operands of ON … GOTO / GOSUB -/
theorem acceptExprs_operands {ls ls' : List Expr} (h : All₂ (OperandRel φ) ls ls') :
    ∃ xs xs', All₂ (OpFrag φ) xs xs' ∧ xs.length = ls.length ∧
      (∀ s, (acceptExprs ls s).g.expr.toList = s.g.expr.toList ++ xs ∧ (acceptExprs ls s).g.var = s.g.var ∧
        (acceptExprs ls s).g.stmt = s.g.stmt ∧ (acceptExprs ls s).g.cur = s.g.cur ∧ (acceptExprs ls s).errors = s.errors) ∧
      (∀ s, (acceptExprs ls' s).g.expr.toList = s.g.expr.toList ++ xs' ∧ (acceptExprs ls' s).g.var = s.g.var ∧
        (acceptExprs ls' s).g.stmt = s.g.stmt ∧ (acceptExprs ls' s).g.cur = s.g.cur ∧ (acceptExprs ls' s).errors = s.errors) := by
  induction h with
  | nil =>
    refine ⟨[], [], .nil, rfl, ?_, ?_⟩ <;>
    · intro s; rw [acceptExprs]; exact ⟨(List.append_nil _).symm, rfl, rfl, rfl, rfl⟩
  | cons hab _ ih =>
    obtain ⟨xs, xs', hxs, hl, i1, i2⟩ := ih
    obtain ⟨x, x', hx, h1, h2⟩ := hab.frag
    refine ⟨x :: xs, x' :: xs', .cons hx hxs, by simp only [List.length_cons, hl], ?_, ?_⟩
    · intro s
      rw [acceptExprs, h1]
      obtain ⟨j1, j2, j3, j4, j5⟩ := i1 (pushExpr s x)
      refine ⟨?_, j2, j3, j4, j5⟩
      rw [j1]
      show (s.g.expr.push x).toList ++ xs = _
      rw [Array.toList_push, List.append_assoc]; rfl
    · intro s
      rw [acceptExprs, h2]
      obtain ⟨j1, j2, j3, j4, j5⟩ := i2 (pushExpr s x')
      refine ⟨?_, j2, j3, j4, j5⟩
      rw [j1]
      show (s.g.expr.push x').toList ++ xs' = _
      rw [Array.toList_push, List.append_assoc]; rfl

theorem accept_on {st st' : Stmt} {ls ls' : List Expr} (h : All₂ (OperandRel φ) ls ls')
    (hgen : ∀ xs xs', All₂ (OpFrag φ) xs xs' → xs.length = ls.length →
      GR φ (Top φ 0 xs xs') (genStatement st) (genStatement st') (S φ TT))
    {s s' : VState} (hs : VRel φ s s') :
    VRel φ (visitStatement st (acceptExprs ls s)) (visitStatement st' (acceptExprs ls' s')) := by
  obtain ⟨xs, xs', hxs, hl, i1, i2⟩ := acceptExprs_operands h
  obtain ⟨j1, j2, j3, j4, j5⟩ := i1 s
  obtain ⟨k1, k2, k3, k4, k5⟩ := i2 s'
  refine visitStatement_rel (hgen xs xs' hxs hl) (top_push 0 (Nat.zero_le _) hs xs xs' _ _ j1 k1 j2 k2 j3 k3) ?_ ?_
  · rw [j4, k4]; exact hs.g.cur
  · rw [j5, k5]; exact hs.errors

end RenumRel
end Basic
