import BasicModel.Lemmas.LexPost
/-
  A syntactic sufficient condition for "the four post-passes rebuild the printed token list".
-/
set_option linter.unusedSimpArgs false
namespace Basic
namespace Lex

/-! ### syntactic conditions under which the four post-passes leave a printed list alone -/

/-- comparison operators: the tokens the collapse passes build or consume -/
def isCmp : Token → Bool
  | .operator .less | .operator .equal | .operator .greater
  | .operator .lessEqual | .operator .greaterEqual | .operator .notEqual => true
  | _ => false

def isBlank : Token → Bool
  | .whitespace _ => true
  | _ => false

def isGoHead (t : Token) : Bool := t == .ident (.plain "GO".toList)
def isGoTail (t : Token) : Bool := t == .word .to || t == .ident (.plain "SUB".toList)

/-- `x <blank> y` with both comparison operators, or `GO <blank> TO|SUB` -/
def tripleClash : List Token → Bool
  | a :: b :: c :: rest =>
    (isBlank b && ((isCmp a && isCmp c) || (isGoHead a && isGoTail c))) || tripleClash (b :: c :: rest)
  | _ => false

/-- two adjacent comparison operators -/
def doubleClash : List Token → Bool
  | a :: b :: rest => (isCmp a && isCmp b) || doubleClash (b :: rest)
  | _ => false

/-- two adjacent word-like tokens -/
def wordClash : List Token → Bool
  | a :: b :: rest => (a.isWord && b.isWord) || wordClash (b :: rest)
  | _ => false

/-- the line does not end in a blank run or in remark text with trailing white space -/
def endOk (ts : List Token) : Bool :=
  match ts.getLast? with
  | some (.whitespace _) => false
  | some (.unknown s) => trimEndStr s == s && !s.isEmpty
  | _ => true

theorem sepRec_stable (ts : List Token) (h : wordClash ts = false) : sepRec ts = ts := by
  induction ts with
  | nil => rfl
  | cons a ts ih =>
    cases ts with
    | nil => rfl
    | cons b rest =>
      simp only [wordClash, Bool.or_eq_false_iff] at h
      simp only [sepRec, h.1, Bool.false_eq_true, if_false, ih h.2]

theorem doubleMatch_of_not_cmp_left (a b : Token) (h : isCmp a = false) : doubleMatch a b = none := by
  unfold doubleMatch; split <;> simp_all [isCmp]

theorem doubleMatch_of_not_cmp_right (a b : Token) (h : isCmp b = false) : doubleMatch a b = none := by
  unfold doubleMatch; split <;> simp_all [isCmp]

theorem rawOf_of_not_cmp (t : Token) (h : isCmp t = false) : rawOf t = [t] := by
  unfold rawOf; split <;> simp_all [isCmp]

theorem dblRec_raw (ts : List Token) (h : doubleClash ts = false) : dblRec (ts.flatMap rawOf) = ts := by
  induction ts with
  | nil => rfl
  | cons a ts ih =>
    have hrest : doubleClash ts = false := by
      cases ts with
      | nil => rfl
      | cons b rest => simp only [doubleClash, Bool.or_eq_false_iff] at h; exact h.2
    have ih' := ih hrest
    rw [List.flatMap_cons]
    by_cases ha : isCmp a = true
    · -- the next token, if any, is not a comparison operator
      have hnext : ∀ b rest, ts = b :: rest → isCmp b = false := by
        intro b rest e; subst e
        simp only [doubleClash, Bool.or_eq_false_iff, Bool.and_eq_false_iff] at h
        rcases h.1 with h' | h'
        · rw [ha] at h'; exact absurd h' (by simp)
        · exact h'
      have tail : ∀ x, isCmp x = true → x = a → dblRec (x :: ts.flatMap rawOf) = x :: ts := by
        intro x _ _
        cases ts with
        | nil => rfl
        | cons b rest =>
          have hb := hnext b rest rfl
          rw [List.flatMap_cons, rawOf_of_not_cmp b hb] at ih' ⊢
          simp only [List.cons_append, List.nil_append] at ih' ⊢
          simp only [dblRec, doubleMatch_of_not_cmp_right x b hb, ih']
      cases a with
      | operator o =>
        cases o <;> first
          | exact absurd ha (by decide)
          | exact tail _ ha rfl
          | (simp only [rawOf, List.cons_append, List.nil_append, dblRec, doubleMatch, ih'])
      | _ => exact absurd ha (by simp [isCmp])
    · have ha' : isCmp a = false := by simpa using ha
      rw [rawOf_of_not_cmp a ha']
      simp only [List.cons_append, List.nil_append]
      cases hr : ts.flatMap rawOf with
      | nil => rw [hr] at ih'; simp only [dblRec] at ih' ⊢; rw [← ih']
      | cons x r =>
        rw [hr] at ih'
        simp only [dblRec, doubleMatch_of_not_cmp_left a x ha', ih']

/-! #### `collapse_triples` -/

def isRawCmp : Token → Bool
  | .operator .less | .operator .equal | .operator .greater => true
  | _ => false

theorem tripleMatch_none_of_not_blank (x y z : Token) (h : isBlank y = false) : tripleMatch x y z = none := by
  unfold tripleMatch; split <;> simp_all [isBlank]

theorem tripleMatch_none_of_ends (x y z : Token) (h1 : (isRawCmp x && isRawCmp z) = false)
    (h2 : (isGoHead x && isGoTail z) = false) : tripleMatch x y z = none := by
  unfold tripleMatch
  split
  all_goals first
    | rfl
    | (simp [isRawCmp] at h1; done)
    | skip
  · rename_i go n
    have : go ≠ "GO".toList := by
      intro e; subst e; simp [isGoHead, isGoTail] at h2
    simp only [this, if_false]
  · rename_i go n sub
    have : ¬ (go = "GO".toList ∧ sub = "SUB".toList) := by
      rintro ⟨e1, e2⟩; subst e1; subst e2; simp [isGoHead, isGoTail] at h2
    simp only [Bool.and_eq_true, decide_eq_true_eq, this, if_false]

def tripleFree : List Token → Prop
  | a :: b :: c :: rest => tripleMatch a b c = none ∧ tripleFree (b :: c :: rest)
  | _ => True

theorem tripleLocs_of_free (l : List Token) (i : Nat) (h : tripleFree l) : tripleLocs l i = [] := by
  induction l generalizing i with
  | nil => rfl
  | cons a l ih =>
    cases l with
    | nil => rfl
    | cons b l =>
      cases l with
      | nil => rfl
      | cons c rest =>
        simp only [tripleFree] at h
        simp only [tripleLocs, h.1, ih (i + 1) h.2]


/-- shape of the raw tokens of one printed token -/
theorem rawOf_shape (a : Token) :
    (rawOf a = [a]) ∨
    (∃ x1 x2, rawOf a = [x1, x2] ∧ isBlank x2 = false ∧ isCmp a = true ∧ isGoHead x2 = false ∧
      isBlank x1 = false) := by
  cases a with
  | operator o => cases o <;> first | (left; rfl) | (right; exact ⟨_, _, rfl, rfl, rfl, rfl, rfl⟩)
  | _ => left; rfl

/-- the first raw token of a printed token -/
theorem rawOf_head (c : Token) : ∃ z tl, rawOf c = z :: tl ∧ (isRawCmp z = true → isCmp c = true) ∧
    (isGoTail z = true → isGoTail c = true) ∧ (isBlank z = true → c = z ∧ tl = []) := by
  cases c with
  | operator o =>
    cases o <;> exact ⟨_, _, rfl, by decide, by decide, by decide⟩
  | _ => exact ⟨_, _, rfl, by simp [isRawCmp, isCmp], id, fun _ => ⟨rfl, rfl⟩⟩

theorem tripleClash_tail (a : Token) (ts : List Token) (h : tripleClash (a :: ts) = false) :
    tripleClash ts = false := by
  cases ts with
  | nil => rfl
  | cons b ts =>
    cases ts with
    | nil => rfl
    | cons c rest => simp only [tripleClash, Bool.or_eq_false_iff] at h; exact h.2

theorem tripleFree_raw (ts : List Token) (h : tripleClash ts = false) :
    tripleFree (ts.flatMap rawOf) := by
  induction ts with
  | nil => trivial
  | cons a ts ih =>
    have ih' := ih (tripleClash_tail a ts h)
    -- the window that starts at the last raw token `x` of `a`
    have win : ∀ x, (isRawCmp x = true → isCmp a = true) → (isGoHead x = true → isGoHead a = true) →
        ∀ y z R', ts.flatMap rawOf = y :: z :: R' → tripleMatch x y z = none := by
      intro x hx1 hx2 y z R' hR
      by_cases hy : isBlank y = true
      · cases ts with
        | nil => simp at hR
        | cons b ts' =>
          obtain ⟨y', tl, e, -, -, hb⟩ := rawOf_head b
          rw [List.flatMap_cons, e, List.cons_append] at hR
          have hy' : y' = y := (List.cons.inj hR).1
          subst hy'
          obtain ⟨hb1, hb2⟩ := hb hy
          subst hb2
          have hR' : ts'.flatMap rawOf = z :: R' := by simpa using (List.cons.inj hR).2
          cases ts' with
          | nil => simp at hR'
          | cons c ts'' =>
            obtain ⟨z', tl', e', hc1, hc2, -⟩ := rawOf_head c
            rw [List.flatMap_cons, e', List.cons_append] at hR'
            have hz : z' = z := (List.cons.inj hR').1
            subst hz
            simp only [tripleClash, Bool.or_eq_false_iff, Bool.and_eq_false_iff] at h
            have hcl := h.1
            rw [hb1] at hcl
            rcases hcl with hcl | hcl
            · rw [hy] at hcl; exact absurd hcl (by simp)
            · apply tripleMatch_none_of_ends
              · cases h1 : isRawCmp x with
                | false => rfl
                | true =>
                  cases h3 : isRawCmp z' with
                  | false => rfl
                  | true =>
                    have := hcl.1
                    rw [hx1 h1, hc1 h3] at this; exact absurd this (by simp)
              · cases h1 : isGoHead x with
                | false => rfl
                | true =>
                  cases h3 : isGoTail z' with
                  | false => rfl
                  | true =>
                    have := hcl.2
                    rw [hx2 h1, hc2 h3] at this; exact absurd this (by simp)
      · exact tripleMatch_none_of_not_blank x y z (by simpa using hy)
    rw [List.flatMap_cons]
    rcases rawOf_shape a with e | ⟨x1, x2, e, hb2, hcmp, hgo, hb1⟩
    · rw [e]
      simp only [List.cons_append, List.nil_append]
      cases hR : ts.flatMap rawOf with
      | nil => trivial
      | cons y R =>
        cases R with
        | nil => trivial
        | cons z R' =>
          rw [hR] at ih'
          refine ⟨win a ?_ id y z R' hR, ih'⟩
          intro hr; cases a with
          | operator o => cases o <;> first | rfl | exact absurd hr (by decide)
          | _ => exact absurd hr (by simp [isRawCmp])
    · rw [e]
      simp only [List.cons_append, List.nil_append]
      cases hR : ts.flatMap rawOf with
      | nil => trivial
      | cons y R =>
        refine ⟨tripleMatch_none_of_not_blank x1 x2 y hb2, ?_⟩
        cases R with
        | nil => trivial
        | cons z R' =>
          rw [hR] at ih'
          exact ⟨win x2 (fun _ => hcmp) (fun hh => by rw [hgo] at hh; exact absurd hh (by simp)) y z R' hR, ih'⟩

/-! #### `trim_end` -/

theorem getLast?_raw (ts : List Token) (t : Token) (init : List Token) (e : ts = init ++ [t]) :
    (ts.flatMap rawOf).getLast? = (rawOf t).getLast? ∧
    ts.flatMap rawOf = init.flatMap rawOf ++ rawOf t := by
  subst e
  simp only [List.flatMap_append, List.flatMap_cons, List.flatMap_nil, List.append_nil, and_true]
  rcases rawOf_shape t with e | ⟨_, _, e, _⟩ <;> rw [e] <;> simp [List.getLast?_append]

/-- `trim_end` leaves a line alone that ends in a token other than a blank run, or in remark
    text without trailing white space -/
theorem trimEnd_keeps (l : List Token) (x : Token) (hl : l.getLast? = some x)
    (hx : ((∀ n, x ≠ .whitespace n) ∧ ∀ s, x ≠ .unknown s) ∨
      ∃ s, x = .unknown s ∧ trimEndStr s = s ∧ s ≠ []) : trimEnd l = l := by
  obtain ⟨ys, hys⟩ := List.getLast?_eq_some_iff.1 hl
  subst hys
  rcases hx with ⟨hw, hu⟩ | ⟨s, rfl, hs, hne⟩
  · cases x with
    | whitespace n => exact absurd rfl (hw n)
    | unknown s => exact absurd rfl (hu s)
    | _ => simp [trimEnd, trimEndRev]
  · have : (trimEndStr s).isEmpty = false := by rw [hs]; simpa using hne
    have h2 : (s = []) = False := by simpa using hne
    simp [trimEnd, trimEndRev, hs, h2]

theorem trimEnd_raw (ts : List Token) (h : endOk ts = true) : trimEnd (ts.flatMap rawOf) = ts.flatMap rawOf := by
  rcases List.eq_nil_or_concat ts with e | ⟨init, t, e⟩
  · subst e; rfl
  · have e' : ts = init ++ [t] := by simpa using e
    obtain ⟨hl, _⟩ := getLast?_raw ts t init e'
    have ht : ts.getLast? = some t := by rw [e']; simp
    simp only [endOk, ht] at h
    have hlast : (ts.flatMap rawOf).getLast? = some t ∨
        (∃ x, (ts.flatMap rawOf).getLast? = some x ∧ isBlank x = false ∧ ∀ s, x ≠ .unknown s) := by
      rcases rawOf_shape t with e1 | ⟨x1, x2, e1, hb, -, -, -⟩
      · left; rw [hl, e1]; rfl
      · right
        refine ⟨x2, by rw [hl, e1]; rfl, hb, ?_⟩
        intro s es
        cases t with
        | operator o => cases o <;> simp [rawOf] at e1 <;> (rw [← e1.2] at es; exact absurd es (by simp))
        | _ => simp [rawOf] at e1
    rcases hlast with hl' | ⟨x, hl', hb, hu⟩
    · cases t with
      | whitespace n => simp at h
      | unknown s =>
        have hs : trimEndStr s = s ∧ s ≠ [] := by simpa using h
        exact trimEnd_keeps _ _ hl' (Or.inr ⟨s, rfl, hs.1, hs.2⟩)
      | _ => exact trimEnd_keeps _ _ hl' (Or.inl ⟨by intro n; simp, by intro s; simp⟩)
    · exact trimEnd_keeps _ _ hl' (Or.inl ⟨by
        intro n e; subst e; simp [isBlank] at hb, hu⟩)

/-- the syntactic sufficient condition: no comparison operators next to (or one blank away from)
    each other, no `GO <blank> TO|SUB`, no two word-like tokens adjacent, no trailing blank run, no
    trailing white space in (and no empty) remark text ⟹ the four post-passes rebuild exactly `ts` -/
theorem postPasses_stable (ts : List Token) (h1 : tripleClash ts = false) (h2 : doubleClash ts = false)
    (h3 : wordClash ts = false) (h4 : endOk ts = true) : postPasses (ts.flatMap rawOf) = ts := by
  unfold postPasses
  rw [trimEnd_raw ts h4]
  have : collapseTriples (ts.flatMap rawOf) = ts.flatMap rawOf := by
    simp [collapseTriples, tripleLocs_of_free _ 0 (tripleFree_raw ts h1), applyLocs]
  rw [this, collapseDoubles_eq, dblRec_raw ts h2, separateWords_eq, sepRec_stable ts h3]

end Lex
end Basic
