import BasicModel.Model.Listing
/-
  Lemmas about association lists sorted strictly ascending by a `Nat` key (the model of the
  `BTreeMap` of the program store): lookup after ordered insertion / key filters, preservation of
  sortedness, and extensionality (two strictly sorted lists with the same members are equal).
-/
namespace Basic
namespace SortedList

variable {α : Type}

/-- strictly ascending by key -/
def Sorted (s : List (Nat × α)) : Prop := s.Pairwise (fun a b => a.1 < b.1)

/-- lookup by key (first hit) -/
def look (k : Nat) (s : List (Nat × α)) : Option α := (s.find? (fun p => p.1 == k)).map (·.2)

theorem look_nil (k : Nat) : look k ([] : List (Nat × α)) = none := rfl

theorem look_cons (k : Nat) (a : Nat × α) (s : List (Nat × α)) :
    look k (a :: s) = if a.1 = k then some a.2 else look k s := by
  unfold look
  rw [List.find?_cons]
  by_cases h : a.1 = k
  · simp [h]
  · have : (a.1 == k) = false := by simpa using h
    simp [h, this]

theorem sorted_nil : Sorted ([] : List (Nat × α)) := List.Pairwise.nil

theorem sorted_cons {a : Nat × α} {s : List (Nat × α)} :
    Sorted (a :: s) ↔ (∀ b ∈ s, a.1 < b.1) ∧ Sorted s := List.pairwise_cons

theorem sorted_filter {s : List (Nat × α)} (p : Nat × α → Bool) (h : Sorted s) : Sorted (s.filter p) :=
  List.Pairwise.sublist List.filter_sublist h

theorem look_none_of_lt {s : List (Nat × α)} {k : Nat} (h : ∀ b ∈ s, k < b.1) : look k s = none := by
  induction s with
  | nil => rfl
  | cons a r ih =>
    rw [look_cons, if_neg, ih (fun b hb => h b (List.mem_cons_of_mem _ hb))]
    have := h a List.mem_cons_self
    omega

/-- in a sorted list membership is lookup -/
theorem mem_iff_look {s : List (Nat × α)} (hs : Sorted s) (k : Nat) (x : α) :
    (k, x) ∈ s ↔ look k s = some x := by
  induction s with
  | nil => simp [look]
  | cons a r ih =>
    obtain ⟨h1, h2⟩ := sorted_cons.1 hs
    rw [look_cons, List.mem_cons]
    by_cases hk : a.1 = k
    · rw [if_pos hk]
      constructor
      · rintro (h | h)
        · rw [← h]
        · have := h1 _ h
          simp only at this
          omega
      · intro h
        left
        cases h
        rw [← hk]
    · rw [if_neg hk, ← ih h2]
      constructor
      · rintro (h | h)
        · exact absurd (by rw [← h]) hk
        · exact h
      · intro h; exact Or.inr h

/-- two strictly sorted lists with the same members are equal -/
theorem sorted_ext : ∀ {s t : List (Nat × α)}, Sorted s → Sorted t → (∀ p, p ∈ s ↔ p ∈ t) → s = t
  | [], [], _, _, _ => rfl
  | [], b :: t, _, _, h => absurd ((h b).2 List.mem_cons_self) (by simp)
  | a :: s, [], _, _, h => absurd ((h a).1 List.mem_cons_self) (by simp)
  | a :: s, b :: t, hs, ht, h => by
    obtain ⟨hs1, hs2⟩ := sorted_cons.1 hs
    obtain ⟨ht1, ht2⟩ := sorted_cons.1 ht
    have hab : a = b := by
      rcases List.mem_cons.1 ((h a).1 List.mem_cons_self) with e | ha
      · exact e
      · rcases List.mem_cons.1 ((h b).2 List.mem_cons_self) with e | hb
        · exact e.symm
        · have h1 := ht1 a ha
          have h2 := hs1 b hb
          omega
    subst hab
    congr 1
    apply sorted_ext hs2 ht2
    intro p
    constructor
    · intro hp
      rcases List.mem_cons.1 ((h p).1 (List.mem_cons_of_mem _ hp)) with e | hp'
      · have := hs1 p hp
        rw [e] at this
        omega
      · exact hp'
    · intro hp
      rcases List.mem_cons.1 ((h p).2 (List.mem_cons_of_mem _ hp)) with e | hp'
      · have := ht1 p hp
        rw [e] at this
        omega
      · exact hp'

/-- lookup after filtering by a predicate on keys -/
theorem look_filter_key (q : Nat → Bool) (k : Nat) (s : List (Nat × α)) :
    look k (s.filter (fun p => q p.1)) = if q k then look k s else none := by
  induction s with
  | nil => simp [look]
  | cons a r ih =>
    rw [List.filter_cons]
    by_cases hq : q a.1 = true
    · rw [if_pos hq, look_cons, look_cons, ih]
      by_cases hk : a.1 = k
      · rw [if_pos hk, if_pos hk, ← hk, if_pos hq]
      · rw [if_neg hk, if_neg hk]
    · rw [if_neg hq, ih, look_cons]
      by_cases hk : a.1 = k
      · rw [← hk]
        have : q a.1 = false := by simpa using hq
        simp [this]
      · rw [if_neg hk]

theorem any_key_iff (q : Nat → Bool) (s : List (Nat × α)) :
    s.any (fun p => q p.1) = true ↔ ∃ k, q k = true ∧ (look k s).isSome = true := by
  induction s with
  | nil => simp [look]
  | cons a r ih =>
    rw [List.any_cons, Bool.or_eq_true, ih]
    constructor
    · rintro (h | ⟨k, hk, hl⟩)
      · exact ⟨a.1, h, by rw [look_cons, if_pos rfl]; rfl⟩
      · refine ⟨k, hk, ?_⟩
        rw [look_cons]
        split
        · rfl
        · exact hl
    · rintro ⟨k, hk, hl⟩
      rw [look_cons] at hl
      by_cases hak : a.1 = k
      · left; rw [hak]; exact hk
      · rw [if_neg hak] at hl
        exact Or.inr ⟨k, hk, hl⟩

end SortedList

/-! ### ordered insertion -/
namespace Listing
open SortedList

theorem mem_insertSorted {n : Nat} {x : Line} {p : Nat × Line} :
    ∀ {s : List (Nat × Line)}, p ∈ insertSorted n x s → p = (n, x) ∨ p ∈ s
  | [], h => by
    simp only [insertSorted, List.mem_singleton] at h
    exact Or.inl h
  | (k, y) :: r, h => by
    unfold insertSorted at h
    split at h
    · rcases List.mem_cons.1 h with h | h
      · exact Or.inl h
      · exact Or.inr h
    · split at h
      · rcases List.mem_cons.1 h with h | h
        · exact Or.inl h
        · exact Or.inr (List.mem_cons_of_mem _ h)
      · rcases List.mem_cons.1 h with h | h
        · exact Or.inr (h ▸ List.mem_cons_self)
        · rcases mem_insertSorted h with h | h
          · exact Or.inl h
          · exact Or.inr (List.mem_cons_of_mem _ h)

theorem sorted_insertSorted (n : Nat) (x : Line) :
    ∀ {s : List (Nat × Line)}, Sorted s → Sorted (insertSorted n x s)
  | [], _ => by
    simp [insertSorted, Sorted]
  | (k, y) :: r, hs => by
    obtain ⟨h1, h2⟩ := sorted_cons.1 hs
    unfold insertSorted
    split
    · rename_i hlt
      refine sorted_cons.2 ⟨?_, hs⟩
      intro b hb
      rcases List.mem_cons.1 hb with rfl | hb
      · exact hlt
      · have := h1 b hb
        simp only at this ⊢
        omega
    · split
      · rename_i _ heq
        refine sorted_cons.2 ⟨?_, h2⟩
        intro b hb
        have := h1 b hb
        simp only at this ⊢
        omega
      · rename_i hnlt hne
        refine sorted_cons.2 ⟨?_, sorted_insertSorted n x h2⟩
        intro b hb
        rcases mem_insertSorted hb with rfl | hb
        · simp only
          omega
        · exact h1 b hb

theorem look_insertSorted (n : Nat) (x : Line) (k : Nat) :
    ∀ (s : List (Nat × Line)), look k (insertSorted n x s) = if k = n then some x else look k s
  | [] => by
    simp only [insertSorted, look_cons, look_nil]
    by_cases h : n = k
    · simp [h]
    · have : ¬ k = n := fun e => h e.symm
      simp [h, this]
  | (a, y) :: r => by
    unfold insertSorted
    by_cases hkn : k = n
    · subst hkn
      rw [if_pos rfl]
      split
      · rw [look_cons, if_pos rfl]
      · split
        · rw [look_cons, if_pos rfl]
        · rename_i h1 h2
          rw [look_cons, if_neg (fun e : a = k => h2 e.symm), look_insertSorted k x k r, if_pos rfl]
    · rw [if_neg hkn]
      have hnk : ¬ n = k := fun e => hkn e.symm
      split
      · rw [look_cons, if_neg hnk]
      · split
        · rename_i _ heq
          rw [look_cons, if_neg hnk, look_cons, if_neg]
          simp only
          omega
        · rw [look_cons, look_cons, look_insertSorted n x k r, if_neg hkn]

end Listing
end Basic
