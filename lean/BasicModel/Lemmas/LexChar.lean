import BasicModel.Model.Lex
/-
  Character-class facts used by the lexer theorems (C05, C16): everything is reduced to
  arithmetic on `Char.toNat` and closed by `omega`.
-/
namespace Basic
namespace Lex

theorem char_eq_iff (c d : Char) : c = d ↔ c.toNat = d.toNat := by
  constructor
  · intro h; rw [h]
  · intro h; exact Char.ext (UInt32.toNat_inj.mp h)

theorem upper_toNat (c : Char) : (upper c).toNat =
    if 97 ≤ c.toNat ∧ c.toNat ≤ 122 then c.toNat - 32 else c.toNat := by
  unfold upper Char.toUpper
  split
  · rename_i h
    have h1 : 97 ≤ c.toNat := by simpa [UInt32.le_iff_toNat_le] using h.1
    have h2 : c.toNat ≤ 122 := by simpa [UInt32.le_iff_toNat_le] using h.2
    simp only [h1, h2, and_self, if_true]
    simp [UInt32.toNat_add]
    omega
  · rename_i h
    have : ¬ (97 ≤ c.toNat ∧ c.toNat ≤ 122) := by
      simpa [UInt32.le_iff_toNat_le] using h
    simp only [this, if_false]

theorem isDigit_iff (c : Char) : isDigit c = true ↔ 48 ≤ c.toNat ∧ c.toNat ≤ 57 := by
  simp [isDigit, Char.isDigit, UInt32.le_iff_toNat_le]

theorem isAlpha_iff (c : Char) :
    isAlpha c = true ↔ (65 ≤ c.toNat ∧ c.toNat ≤ 90) ∨ (97 ≤ c.toNat ∧ c.toNat ≤ 122) := by
  simp [isAlpha, Char.isAlpha, Char.isUpper, Char.isLower, UInt32.le_iff_toNat_le]

theorem isWs_iff (c : Char) : isWs c = true ↔ c.toNat = 32 ∨ c.toNat = 9 := by
  simp [isWs, char_eq_iff]

/-- upper-case ASCII letter -/
def isUpperAlpha (c : Char) : Bool := 'A' ≤ c && c ≤ 'Z'

theorem isUpperAlpha_iff (c : Char) : isUpperAlpha c = true ↔ 65 ≤ c.toNat ∧ c.toNat ≤ 90 := by
  simp [isUpperAlpha, Char.le_def, UInt32.le_iff_toNat_le]

theorem isDigit_upper (c : Char) : isDigit (upper c) = isDigit c := by
  rw [Bool.eq_iff_iff, isDigit_iff, isDigit_iff, upper_toNat]; split <;> omega

theorem isAlpha_upper (c : Char) : isAlpha (upper c) = isAlpha c := by
  rw [Bool.eq_iff_iff, isAlpha_iff, isAlpha_iff, upper_toNat]; split <;> omega

theorem isWs_upper (c : Char) : isWs (upper c) = isWs c := by
  rw [Bool.eq_iff_iff, isWs_iff, isWs_iff, upper_toNat]; split <;> omega

theorem upper_upper (c : Char) : upper (upper c) = upper c := by
  rw [char_eq_iff, upper_toNat (upper c), upper_toNat]
  split
  · split <;> omega
  · rfl

/-- `upper` fixes every character that is not a lower-case ASCII letter -/
theorem upper_of_not_lower (c : Char) (h : ¬ (97 ≤ c.toNat ∧ c.toNat ≤ 122)) : upper c = c := by
  rw [char_eq_iff, upper_toNat, if_neg h]

theorem upper_of_isUpperAlpha (c : Char) (h : isUpperAlpha c = true) : upper c = c := by
  rw [isUpperAlpha_iff] at h; exact upper_of_not_lower c (by omega)

theorem upper_of_isDigit (c : Char) (h : isDigit c = true) : upper c = c := by
  rw [isDigit_iff] at h; exact upper_of_not_lower c (by omega)

/-- `upper c = k` iff `c = k`, for a target `k` that is neither an upper- nor a lower-case letter -/
theorem upper_eq_nonletter (c k : Char) (hk : ¬ (65 ≤ k.toNat ∧ k.toNat ≤ 90))
    (hk' : ¬ (97 ≤ k.toNat ∧ k.toNat ≤ 122)) : upper c = k ↔ c = k := by
  rw [char_eq_iff, char_eq_iff, upper_toNat]; split <;> omega

theorem isAlpha_of_isUpperAlpha (c : Char) (h : isUpperAlpha c = true) : isAlpha c = true := by
  rw [isUpperAlpha_iff] at h; rw [isAlpha_iff]; omega

theorem not_isDigit_of_isAlpha (c : Char) (h : isAlpha c = true) : isDigit c = false := by
  rw [isAlpha_iff] at h; rw [Bool.eq_false_iff, Ne, isDigit_iff]; omega

theorem not_isWs_of_isAlpha (c : Char) (h : isAlpha c = true) : isWs c = false := by
  rw [isAlpha_iff] at h; rw [Bool.eq_false_iff, Ne, isWs_iff]; omega

theorem not_isWs_of_isDigit (c : Char) (h : isDigit c = true) : isWs c = false := by
  rw [isDigit_iff] at h; rw [Bool.eq_false_iff, Ne, isWs_iff]; omega

theorem not_isAlpha_of_isDigit (c : Char) (h : isDigit c = true) : isAlpha c = false := by
  rw [isDigit_iff] at h; rw [Bool.eq_false_iff, Ne, isAlpha_iff]; omega

theorem ne_of_isDigit (c k : Char) (h : isDigit c = true) (hk : ¬ (48 ≤ k.toNat ∧ k.toNat ≤ 57)) :
    c ≠ k := by
  rw [isDigit_iff] at h; rw [Ne, char_eq_iff]; omega

theorem ne_of_isAlpha (c k : Char) (h : isAlpha c = true)
    (hk : ¬ ((65 ≤ k.toNat ∧ k.toNat ≤ 90) ∨ (97 ≤ k.toNat ∧ k.toNat ≤ 122))) : c ≠ k := by
  rw [isAlpha_iff] at h; rw [Ne, char_eq_iff]; omega

end Lex
end Basic
