import BasicModel.Spec.PrecSpec
/-
  Helper lemmas on the result constructors of `Ops.*` (used by `Thm/C02.lean`).
-/
namespace Basic
namespace Lemmas.OpsTypes
open Spec

theorem arith_ty {fi fs fd} {a b v : Val}
    (hfi : ∀ l r w, fi l r = .ok w → w.ty = .int)
    (h : Ops.arith fi fs fd a b = .ok v) (ha : a.isNumeric) (hb : b.isNumeric) :
    v.ty = promote a.ty b.ty := by
  cases a <;> cases b <;> simp [Val.isNumeric] at ha hb <;>
    simp only [Ops.arith, Except.ok.injEq] at h <;> first
    | (subst h; rfl)
    | exact hfi _ _ _ h

theorem ofChecked_ty {o : Option Int16} {w : Val} (h : Ops.ofChecked o = .ok w) : w.ty = .int := by
  cases o <;> simp [Ops.ofChecked, err] at h
  subst h; rfl

theorem logic2_int {f a b v} (h : Ops.logic2 f a b = .ok v) : ∃ n, v = .int n := by
  unfold Ops.logic2 at h
  cases ha : a.toI16 <;> cases hb : b.toI16 <;> simp [ha, hb, bind, Except.bind, pure, Except.pure] at h
  exact ⟨_, h.symm⟩

theorem truth_cases (b : Bool) : Ops.truth b = .int 0 ∨ Ops.truth b = .int (-1) := by
  cases b <;> simp [Ops.truth]

theorem rel_cases {x : Res Bool} {g : Bool → Bool} {v : Val}
    (h : (do return Ops.truth (g (← x)) : Res Val) = .ok v) : v = .int 0 ∨ v = .int (-1) := by
  cases x <;> simp [bind, Except.bind, pure, Except.pure] at h
  subst h; exact truth_cases _

theorem divint_int {a b v} (h : Ops.divint a b = .ok v) : ∃ n, v = .int n := by
  unfold Ops.divint at h
  cases ha : a.toI16 <;> cases hb : b.toI16 <;> simp [ha, hb, bind, Except.bind, err] at h
  rename_i l r
  by_cases hr : r = 0
  · simp [hr] at h
  · simp only [hr, if_false] at h
    cases hc : RStd.checkedDiv l r <;> simp [hc] at h
    exact ⟨_, h.symm⟩

theorem remainder_int {a b v} (h : Ops.remainder a b = .ok v) : ∃ n, v = .int n := by
  unfold Ops.remainder at h
  cases ha : a.toI16 <;> cases hb : b.toI16 <;> simp [ha, hb, bind, Except.bind, err] at h
  rename_i l r
  by_cases hr : r = 0
  · simp [hr] at h
  · simp only [hr, if_false] at h
    cases hc : RStd.checkedRem l r <;> simp [hc] at h <;> exact ⟨_, h.symm⟩

theorem not_int {a v} (h : Ops.not a = .ok v) : ∃ n, v = .int n := by
  unfold Ops.not at h
  cases ha : a.toI16 <;> simp [ha, bind, Except.bind, pure, Except.pure] at h
  exact ⟨_, h.symm⟩


end Lemmas.OpsTypes
end Basic
