import BasicModel.Lemmas.LexAll
/-
  C05 for ALL strings, part 15: payloads.  Every string-literal token of a lexed line carries exactly
  the characters of a stretch of the source between two quotes (or a quote and the end of the line);
  the remark text after `'` is the rest of the source line, trailing white space aside.
-/
set_option linter.unusedSimpArgs false
set_option linter.unusedVariables false
namespace Basic
namespace Lex

/-! ### what a scanner leaves is a suffix of its input, up to the case of one pushed-back letter -/

def SrcRem (cs cs' : List Char) : Prop :=
  ∃ w, cs = w ++ cs' ∨ ∃ x r, isAlpha x = true ∧ cs' = upper x :: r ∧ cs = w ++ x :: r

theorem SrcRem.suffix {cs cs' : List Char} (w : List Char) (h : cs = w ++ cs') : SrcRem cs cs' := ⟨w, Or.inl h⟩

/-- a stretch that starts with a non-letter is found in the source where it is found in the remainder -/
theorem srcRem_split (m : Char) (hm : isAlpha m = false) (cs cs' a' tl : List Char) (h : SrcRem cs cs')
    (e : cs' = a' ++ m :: tl) : ∃ a, cs = a ++ m :: tl := by
  obtain ⟨w, h | ⟨x, r, hx, h1, h2⟩⟩ := h
  · exact ⟨w ++ a', by rw [h, e]; simp⟩
  · cases a' with
    | nil =>
      rw [e] at h1
      simp only [List.nil_append, List.cons.injEq] at h1
      have : isAlpha m = true := by rw [h1.1, isAlpha_upper]; exact hx
      rw [hm] at this; cases this
    | cons y a'' =>
      rw [e] at h1
      simp only [List.cons_append, List.cons.injEq] at h1
      exact ⟨w ++ x :: a'', by rw [h2, ← h1.2]; simp⟩

theorem foldED_exp (e : Char) (h : foldED e = 'E' ∨ foldED e = 'D') : isAlpha e = true ∧ foldED e = upper e := by
  unfold foldED at h ⊢
  split
  · rename_i h1; subst h1; decide
  split
  · rename_i h2; subst h2; decide
  · rename_i h1 h2
    simp only [h1, h2, if_false] at h
    rcases h with h | h <;> subst h <;> decide

theorem srcRem_number (c : Char) (cs : List Char) (hc : (isDigit c || c = '.') = true) :
    SrcRem (c :: cs) (number (c :: cs)).2 := by
  have hpb : ¬ PB (c :: cs) := by
    rintro ⟨e, x, r', he, hE, -⟩
    obtain ⟨rfl, -⟩ := List.cons.inj he
    have hf : foldED c = c := by
      simp only [Bool.or_eq_true, decide_eq_true_eq] at hc
      rcases hc with h | h
      · have := plain_of_isDigit c h
        simp [foldED, this.1, this.2.1]
      · subst h; decide
    rw [hf] at hE
    rcases hE with e' | e' <;> rw [e'] at hc <;> revert hc <;> decide
  obtain ⟨k, -, -, h2, -⟩ := numberLoop_consumed (c :: cs) [] 0 false false (by simp) hpb
  refine ⟨(c :: cs).take k, ?_⟩
  rcases h2 with h | ⟨e, r, h1, h2, h3⟩
  · left; show c :: cs = _ ++ (numberLoop (c :: cs) [] 0 false false).2
    rw [h, List.take_append_drop]
  · right
    obtain ⟨ha, hu⟩ := foldED_exp e h3
    refine ⟨e, r, ha, ?_, ?_⟩
    · show (numberLoop (c :: cs) [] 0 false false).2 = _
      rw [h2, hu]
    · rw [← h1, List.take_append_drop]

theorem stringBody_split (cs : List Char) :
    (cs = (stringBody cs).1 ∧ (stringBody cs).2 = []) ∨ cs = (stringBody cs).1 ++ '"' :: (stringBody cs).2 := by
  induction cs with
  | nil => left; simp [stringBody]
  | cons c cs ih =>
    unfold stringBody
    split
    · rename_i h; subst h; right; simp
    · rcases ih with ⟨h1, h2⟩ | h
      · left; exact ⟨by simp only; rw [← h1], h2⟩
      · right; simp only [List.cons_append]; rw [← h]

theorem srcRem_radixDigits (h : Bool) (cs : List Char) : SrcRem cs (radixDigits h cs).2 := by
  induction cs with
  | nil => exact ⟨[], Or.inl (by simp [radixDigits])⟩
  | cons c cs ih =>
    rw [radixDigits_cons]
    split
    · obtain ⟨w, hw | ⟨x, r, hx, h1, h2⟩⟩ := ih
      · exact ⟨c :: w, Or.inl (by simp only [List.cons_append]; rw [← hw])⟩
      · exact ⟨c :: w, Or.inr ⟨x, r, hx, h1, by simp only [List.cons_append]; rw [← h2]⟩⟩
    · by_cases ha : isAlpha c = true
      · exact ⟨[], Or.inr ⟨c, cs, ha, rfl, rfl⟩⟩
      · have : upper c = c := upper_of_not_isAlpha c (by simpa using ha)
        exact ⟨[], Or.inl (by simp [this])⟩

theorem srcRem_cons (c : Char) (cs cs' : List Char) (h : SrcRem cs cs') : SrcRem (c :: cs) cs' := by
  obtain ⟨w, hw | ⟨x, r, hx, h1, h2⟩⟩ := h
  · exact ⟨c :: w, Or.inl (by simp only [List.cons_append]; rw [← hw])⟩
  · exact ⟨c :: w, Or.inr ⟨x, r, hx, h1, by simp only [List.cons_append]; rw [← h2]⟩⟩

theorem srcRem_radix (cs0 : List Char) : SrcRem ('&' :: cs0) (radix ('&' :: cs0)).2 := by
  unfold radix
  simp only [List.tail_cons]
  split
  · exact srcRem_cons _ _ _ (srcRem_cons _ _ _ (srcRem_radixDigits true _))
  · exact srcRem_cons _ _ _ (srcRem_cons _ _ _ (srcRem_radixDigits true _))
  · exact srcRem_cons _ _ _ (srcRem_radixDigits false _)

/-! ### where string literals and the apostrophe remark come from -/

/-- `p` is a quote-free stretch of `cs` that follows a quote and runs to the next quote or to the end -/
def StrAt (cs : List Char) (p : Str) : Prop :=
  ∃ a b, cs = a ++ '"' :: p ++ b ∧ '"' ∉ p ∧ (b = [] ∨ b.head? = some '"')

/-- the remark text after an apostrophe: one final `Unknown` token, absent when nothing follows -/
def remText (u0 : List Char) : List Token := if u0 = [] then [] else [.unknown u0]

/-- the raw token list ends with `'` and the rest of the text after the apostrophe -/
def RemAt (cs : List Char) : Prop :=
  ∃ pre a u0, cs = a ++ '\'' :: u0 ∧ lexFrom cs false = pre ++ .word .rem2 :: remText u0 ∧ .word .rem2 ∉ pre

def PayOK (cs : List Char) : Prop :=
  (∀ p, .literal (.string p) ∈ lexFrom cs false → StrAt cs p) ∧ (.word .rem2 ∈ lexFrom cs false → RemAt cs)

theorem payStr_step (cs cs' : List Char) (q : List Token) (hlex : lexFrom cs false = q ++ lexFrom cs' false)
    (hrem : SrcRem cs cs') (hq1 : ∀ p, .literal (.string p) ∉ q)
    (ih : ∀ p, .literal (.string p) ∈ lexFrom cs' false → StrAt cs' p) :
    ∀ p, .literal (.string p) ∈ lexFrom cs false → StrAt cs p := by
  intro p hp
  rw [hlex, List.mem_append] at hp
  rcases hp with hp | hp
  · exact absurd hp (hq1 p)
  · obtain ⟨a', b, e, h1, h2⟩ := ih p hp
    obtain ⟨a, ha⟩ := srcRem_split '"' (by decide) cs cs' a' (p ++ b) hrem (by rw [e]; simp)
    exact ⟨a, b, by rw [ha]; simp, h1, h2⟩

theorem payRem_step (cs cs' : List Char) (q : List Token) (hlex : lexFrom cs false = q ++ lexFrom cs' false)
    (hrem : SrcRem cs cs') (hq2 : .word .rem2 ∉ q) (ih : .word .rem2 ∈ lexFrom cs' false → RemAt cs') :
    .word .rem2 ∈ lexFrom cs false → RemAt cs := by
  intro hp
  rw [hlex, List.mem_append] at hp
  rcases hp with hp | hp
  · exact absurd hp hq2
  · obtain ⟨pre, a', u0, e, h1, h2⟩ := ih hp
    obtain ⟨a, ha⟩ := srcRem_split '\'' (by decide) cs cs' a' u0 hrem e
    refine ⟨q ++ pre, a, u0, ha, by rw [hlex, h1]; simp, ?_⟩
    intro hm
    rcases List.mem_append.mp hm with hm | hm
    · exact hq2 hm
    · exact h2 hm

theorem payOK_step (cs cs' : List Char) (q : List Token) (hlex : lexFrom cs false = q ++ lexFrom cs' false)
    (hrem : SrcRem cs cs') (hq1 : ∀ p, .literal (.string p) ∉ q) (hq2 : .word .rem2 ∉ q) (ih : PayOK cs') :
    PayOK cs :=
  ⟨payStr_step cs cs' q hlex hrem hq1 ih.1, payRem_step cs cs' q hlex hrem hq2 ih.2⟩

theorem numTok_not (t : Token) (u : Str) (h : numTok t u) : (∀ p, t ≠ .literal (.string p)) ∧ t ≠ .word .rem2 := by
  rcases h with h | h | h <;> subst h <;> exact ⟨by intro p; simp, by simp⟩

theorem alphaTok_not (t : Token) (h : AlphaTok t) : (∀ p, t ≠ .literal (.string p)) ∧ t ≠ .word .rem2 := by
  rcases h with h | ⟨i, rfl, -⟩
  · refine ⟨?_, (kwTok_facts t h).2.1⟩
    intro p e; subst e; simp [isKwTok] at h
  · exact ⟨by intro p; simp, by simp⟩

theorem payOK_all (n : Nat) : ∀ cs : List Char, cs.length ≤ n → PayOK cs := by
  induction n with
  | zero =>
    intro cs h
    have : cs = [] := by cases cs <;> simp_all
    subst this
    exact ⟨by intro p hp; simp at hp, by intro hp; simp at hp⟩
  | succ n ih =>
    intro cs hlen
    cases cs with
    | nil => exact ⟨by intro p hp; simp at hp, by intro hp; simp at hp⟩
    | cons pk cs0 =>
      simp only [List.length_cons] at hlen
      by_cases hws : isWs pk = true
      · have hsh := whitespace_shortens pk cs0
        simp only [List.length_cons] at hsh
        refine payOK_step _ _ [_] (lexFrom_ws pk cs0 hws) ?_ (by simp [whitespace]) (by simp [whitespace])
          (ih _ (by omega))
        refine SrcRem.suffix (pk :: cs0.takeWhile isWs) ?_
        simp [whitespace, List.takeWhile_append_dropWhile]
      have hws' : isWs pk = false := by simpa using hws
      by_cases hnum : (isDigit pk || pk = '.') = true
      · have hsh := number_shortens pk cs0 hnum
        simp only [List.length_cons] at hsh
        obtain ⟨u, -, -, hu3, -, -⟩ := number_rerun pk cs0 hnum (number (pk :: cs0)).1 (number (pk :: cs0)).2 rfl
        obtain ⟨f1, f2⟩ := numTok_not _ u hu3
        exact payOK_step _ _ [_] (lexFrom_number pk cs0 hnum) (srcRem_number pk cs0 hnum)
          (by intro p hp; simp at hp; exact f1 p hp.symm) (by intro hp; simp at hp; exact f2 hp.symm) (ih _ (by omega))
      have hnum' : isDigit pk = false ∧ pk ≠ '.' := by
        simp only [Bool.or_eq_true, decide_eq_true_eq, not_or] at hnum
        exact ⟨by simpa using hnum.1, hnum.2⟩
      by_cases hal : isAlpha pk = true
      · have hsh := alphabetic_shortens pk cs0
        simp only [List.length_cons] at hsh
        obtain ⟨hres, w, hw1, hw2⟩ := alphabetic_spec pk cs0 hal
        obtain ⟨t, ts, hq⟩ : ∃ t ts, (alphabetic (pk :: cs0)).1 = t :: ts := by
          cases hh : (alphabetic (pk :: cs0)).1 with
          | nil => exact absurd hh hres.ne
          | cons t ts => exact ⟨t, ts, rfl⟩
        have hlex := lexFrom_alpha pk cs0 hal t ts (alphabetic (pk :: cs0)).2 (by rw [← hq])
        have htoks := hres.toks
        rw [hq] at htoks
        have hn1 : ∀ p, .literal (.string p) ∉ t :: ts := by
          intro p hp; exact (alphaTok_not _ (htoks _ hp)).1 p rfl
        have hn2 : .word .rem2 ∉ t :: ts := by
          intro hp; exact (alphaTok_not _ (htoks _ hp)).2 rfl
        by_cases hrem : t = .word .rem1
        · -- remark mode: the rest of the line is one token
          have hf : (t == Token.word Word.rem1) = true := by simp [hrem]
          rw [hf, lexFrom_true] at hlex
          constructor
          · intro p hp
            rw [hlex, List.mem_append] at hp
            rcases hp with hp | hp
            · exact absurd hp (hn1 p)
            · split at hp <;> simp at hp
          · intro hp
            rw [hlex, List.mem_append] at hp
            rcases hp with hp | hp
            · exact absurd hp hn2
            · split at hp <;> simp at hp
        · have hf : (t == Token.word Word.rem1) = false := by simp [hrem]
          rw [hf] at hlex
          exact payOK_step _ _ (t :: ts) (by simpa using hlex) (SrcRem.suffix w hw2) hn1 hn2 (ih _ (by omega))
      have hal' : isAlpha pk = false := by simpa using hal
      by_cases hstr : pk = '"'
      · subst hstr
        have hsh := string_shortens '"' cs0
        simp only [List.length_cons] at hsh
        have hlex := lexFrom_string cs0
        have hihr := ih (string ('"' :: cs0)).2 (by omega)
        have hsplit := stringBody_split cs0
        have hsuf : SrcRem ('"' :: cs0) (string ('"' :: cs0)).2 := by
          simp only [string, List.tail_cons]
          rcases hsplit with ⟨h1, h2⟩ | h
          · rw [h2]; exact SrcRem.suffix ('"' :: cs0) (by simp)
          · exact SrcRem.suffix ('"' :: (stringBody cs0).1 ++ ['"']) (by
              simp only [List.cons_append, List.append_assoc, List.nil_append]
              rw [← h])
        constructor
        · intro p hp
          rw [hlex] at hp
          rcases List.mem_cons.mp hp with hp | hp
          · -- this very literal
            simp only [string, List.tail_cons, Token.literal.injEq, Literal.string.injEq] at hp
            subst hp
            refine ⟨[], (if (stringBody cs0).2 = [] ∧ cs0 = (stringBody cs0).1 then [] else '"' :: (stringBody cs0).2),
              ?_, stringBody_noquote cs0, ?_⟩
            · rcases hsplit with ⟨h1, h2⟩ | h
              · simp only [List.nil_append, List.cons.injEq, true_and]
                rw [if_pos ⟨h2, h1⟩, List.append_nil]; exact congrArg ('"' :: ·) h1
              · simp only [List.nil_append, List.cons.injEq, true_and]
                by_cases hc : (stringBody cs0).2 = [] ∧ cs0 = (stringBody cs0).1
                · exfalso
                  have := congrArg List.length h
                  rw [← hc.2] at this
                  simp at this
                · rw [if_neg hc]; exact congrArg ('"' :: ·) h
            · split
              · exact Or.inl rfl
              · exact Or.inr rfl
          · obtain ⟨a', b, e, h1, h2⟩ := hihr.1 p hp
            obtain ⟨a, ha⟩ := srcRem_split '"' (by decide) _ _ a' (p ++ b) hsuf (by rw [e]; simp)
            exact ⟨a, b, by rw [ha]; simp, h1, h2⟩
        · exact payRem_step _ _ [_] hlex hsuf (by simp [string]) hihr.2
      by_cases hamp : pk = '&'
      · subst hamp
        have hsh := radix_shortens '&' cs0
        simp only [List.length_cons] at hsh
        refine payOK_step _ _ [_] (lexFrom_radix cs0) (srcRem_radix cs0) ?_ ?_ (ih _ (by omega))
        · intro p hp; simp at hp; unfold radix at hp; split at hp <;> simp at hp
        · intro hp; simp at hp; unfold radix at hp; split at hp <;> simp at hp
      have hstart : isMinStart pk = true := by
        simp [isMinStart, hws', hnum'.1, hnum'.2, hal', hstr, hamp]
      have hsh := minutia_shortens pk cs0
      simp only [List.length_cons] at hsh
      have hlex0 : lexFrom (pk :: cs0) false = (minutia (pk :: cs0)).1 ::
          lexFrom (minutia (pk :: cs0)).2 ((minutia (pk :: cs0)).1 == .word .rem2) := by
        rw [lexFrom_cons]
        simp [hws', hnum'.1, hnum'.2, hal', hstr, hamp]
      rcases minutia_spec pk cs0 hstart with ⟨t, hm, hmin⟩ | ⟨hm, u, cs', hmin, hu, hcat, huh, hstop⟩
      · rw [hmin] at hlex0 hsh
        simp only at hlex0 hsh
        have hnl : ∀ p, t ≠ .literal (.string p) := by
          intro p e; subst e; unfold matchMinutia at hm; split at hm <;> simp at hm
        by_cases hrem : t = .word .rem2
        · subst hrem
          have hpk : pk = '\'' := by
            unfold matchMinutia at hm
            split at hm
            all_goals first
              | (rename_i heq; exact (List.cons.inj heq).1)
              | simp at hm
          simp only [beq_self_eq_true] at hlex0
          rw [lexFrom_true] at hlex0
          constructor
          · intro p hp
            rw [hlex0] at hp
            rcases List.mem_cons.mp hp with hp | hp
            · cases hp
            · split at hp <;> simp at hp
          · intro _
            refine ⟨[], [], cs0, by rw [hpk]; rfl, ?_, by simp⟩
            rw [hlex0]; rfl
        · have hf : (t == Token.word Word.rem2) = false := by simp [hrem]
          rw [hf] at hlex0
          exact payOK_step _ _ [t] hlex0 (SrcRem.suffix [pk] rfl) (by intro p hp; simp at hp; exact hnl p hp.symm)
            (by intro hp; simp at hp; exact hrem hp.symm) (ih _ (by omega))
      · rw [hmin] at hlex0 hsh
        simp only at hlex0 hsh
        have hf : (Token.unknown u == Token.word Word.rem2) = false := by simp
        rw [hf] at hlex0
        exact payOK_step _ _ [_] hlex0 (SrcRem.suffix u hcat) (by intro p hp; simp at hp) (by simp)
          (ih _ (by omega))

/-! ### membership through the post-passes -/

theorem mem_tplRec (n : Nat) : ∀ (l : List Token), l.length ≤ n → ∀ t, t ∈ tplRec l → t ∈ l ∨ Made t := by
  induction n with
  | zero =>
    intro l hl t h
    have : l = [] := by cases l <;> simp_all
    subst this; simp [tplRec] at h
  | succ n ih =>
    intro l hl t h
    cases l with
    | nil => simp [tplRec] at h
    | cons a tl =>
      cases tl with
      | nil => exact Or.inl h
      | cons b tl2 =>
        cases tl2 with
        | nil => exact Or.inl h
        | cons c rest =>
          simp only [List.length_cons] at hl
          rw [tplRec_cons3] at h
          cases hm : tripleMatch a b c with
          | none =>
            rw [hm] at h; simp only at h
            rcases List.mem_cons.mp h with h | h
            · exact Or.inl (by rw [h]; simp)
            · rcases ih _ (by simp only [List.length_cons]; omega) t h with h | h
              · exact Or.inl (List.mem_cons_of_mem _ h)
              · exact Or.inr h
          | some T =>
            rw [hm] at h; simp only at h
            rcases List.mem_cons.mp h with h | h
            · right
              rw [h]
              obtain ⟨-, hcase⟩ := tripleMatch_some a b c T hm
              rcases hcase with ⟨-, -, hT⟩ | ⟨-, (⟨-, e⟩ | ⟨-, e⟩)⟩
              · exact Or.inl hT
              · exact Or.inr (Or.inl e)
              · exact Or.inr (Or.inr e)
            · rcases ih _ (by simp only [List.length_cons]; omega) t (List.mem_of_mem_drop h) with h | h
              · exact Or.inl (List.mem_cons_of_mem _ h)
              · exact Or.inr h

theorem mem_dblRec (n : Nat) : ∀ (l : List Token), l.length ≤ n → ∀ t, t ∈ dblRec l → t ∈ l ∨ Made t := by
  induction n with
  | zero =>
    intro l hl t h
    have : l = [] := by cases l <;> simp_all
    subst this; simp [dblRec] at h
  | succ n ih =>
    intro l hl t h
    cases l with
    | nil => simp [dblRec] at h
    | cons a tl =>
      cases tl with
      | nil => exact Or.inl h
      | cons b rest =>
        simp only [List.length_cons] at hl
        rw [dblRec_cons2] at h
        cases hm : doubleMatch a b with
        | none =>
          rw [hm] at h; simp only at h
          rcases List.mem_cons.mp h with h | h
          · exact Or.inl (by rw [h]; simp)
          · rcases ih _ (by simp only [List.length_cons]; omega) t h with h | h
            · exact Or.inl (List.mem_cons_of_mem _ h)
            · exact Or.inr h
        | some T =>
          rw [hm] at h; simp only at h
          rcases List.mem_cons.mp h with h | h
          · right; rw [h]; exact Or.inl (doubleMatch_some a b T hm).2.2
          · rcases ih _ (by omega) t h with h | h
            · exact Or.inl (List.mem_cons_of_mem _ (List.mem_cons_of_mem _ h))
            · exact Or.inr h

theorem mem_sepRec (l : List Token) : ∀ t, t ∈ sepRec l → t ∈ l ∨ t = .whitespace 1 := by
  induction l with
  | nil => intro t h; simp [sepRec] at h
  | cons a tl ih =>
    intro t h
    cases tl with
    | nil => exact Or.inl h
    | cons b rest =>
      rw [sepRec_cons2] at h
      split at h
      · rcases List.mem_cons.mp h with h | h
        · exact Or.inl (by rw [h]; simp)
        · rcases List.mem_cons.mp h with h | h
          · exact Or.inr h
          · rcases ih t h with h | h
            · exact Or.inl (List.mem_cons_of_mem _ h)
            · exact Or.inr h
      · rcases List.mem_cons.mp h with h | h
        · exact Or.inl (by rw [h]; simp)
        · rcases ih t h with h | h
          · exact Or.inl (List.mem_cons_of_mem _ h)
          · exact Or.inr h

theorem mem_trimEnd (l : List Token) : ∀ t, t ∈ trimEnd l →
    t ∈ l ∨ ∃ u, t = .unknown (trimEndStr u) ∧ .unknown u ∈ l := by
  refine snoc_induction (P := fun l => ∀ t, t ∈ trimEnd l → t ∈ l ∨ ∃ u, t = .unknown (trimEndStr u) ∧ .unknown u ∈ l)
    (by intro t h; simp [trimEnd, trimEndRev] at h) ?_ l
  intro l x ih t h
  have lift : (t ∈ l ∨ ∃ u, t = .unknown (trimEndStr u) ∧ .unknown u ∈ l) →
      (t ∈ l ++ [x] ∨ ∃ u, t = .unknown (trimEndStr u) ∧ .unknown u ∈ l ++ [x]) := by
    rintro (h | ⟨u, h1, h2⟩)
    · exact Or.inl (by simp [h])
    · exact Or.inr ⟨u, h1, by simp [h2]⟩
  rw [trimEnd_snoc] at h
  cases x with
  | whitespace n => exact lift (ih t h)
  | unknown s =>
    simp only at h
    split at h
    · exact lift (ih t h)
    · rcases List.mem_append.mp h with h | h
      · exact Or.inl (by simp [h])
      · simp at h; exact Or.inr ⟨s, h, by simp⟩
  | _ => exact Or.inl h

/-- tokens of a lexed line that the passes neither build nor trim come from the iterator -/
theorem mem_postPasses (l : List Token) (t : Token) (h : t ∈ postPasses l) (h1 : ¬ Made t)
    (h2 : t ≠ .whitespace 1) (h3 : ∀ u, t ≠ .unknown u) : t ∈ l := by
  unfold postPasses at h
  rw [separateWords_eq] at h
  rcases mem_sepRec _ t h with h | h
  · rw [collapseDoubles_eq] at h
    rcases mem_dblRec _ _ (Nat.le_refl _) t h with h | h
    · rw [collapseTriples_eq_la] at h
      rcases mem_tplRec _ _ (Nat.le_refl _) t h with h | h
      · rcases mem_trimEnd l t h with h | ⟨u, e, -⟩
        · exact h
        · exact absurd e (h3 _)
      · exact absurd h h1
    · exact absurd h h1
  · exact absurd h h2

/-! ### the theorems on `lex` -/

/-- PAYLOAD PRESERVATION, string literals, for every source string and every context: the text of every
    string-literal token of the lexed line stands in the source (after the line number) between a quote
    and the next quote or the end of the line, character for character -/
theorem string_payload_all (s : Str) (p : Str) (h : .literal (.string p) ∈ (lex s).2) :
    StrAt (splitLineNumber s).2 p := by
  have hm : .literal (.string p) ∈ rawTokens (splitLineNumber s).2 :=
    mem_postPasses _ _ h (by rintro (h | h | h) <;> simp [isCmp] at h) (by simp) (by intro u; simp)
  exact (payOK_all _ _ (Nat.le_refl _)).1 p hm

/-- in a chain without `REM` clash an apostrophe is the last token or the last but one, followed by its text -/
theorem chain_rem2_pos (l : List Token) (hc : Chain l) (hr : remClash l = false) (h : .word .rem2 ∈ l) :
    l.getLast? = some (.word .rem2) ∨ ∃ u, l.getLast? = some (.unknown u) := by
  induction l with
  | nil => simp at h
  | cons a tl ih =>
    cases tl with
    | nil => simp at h; subst h; exact Or.inl rfl
    | cons b rest =>
      rcases hc with ⟨-, hrest, u, hu, -⟩ | ⟨h1, -, -, h4⟩
      · subst hrest; subst hu; exact Or.inr ⟨u, rfl⟩
      · have hmem : .word .rem2 ∈ b :: rest := by
          rcases List.mem_cons.mp h with e | e
          · exact absurd e.symm h1
          · exact e
        have hrt : remClash (b :: rest) = false := by
          simp only [remClash, Bool.or_eq_false_iff] at hr
          simpa [remClash] using hr.2
        simp only [remClash, Bool.or_eq_false_iff, Bool.and_eq_false_iff] at hr
        rcases h4 with e | h4
        · -- after `REM`: only the remark text
          subst e
          have hok : remTailOk (b :: rest) = true := by
            rcases hr.1 with h' | h'
            · simp at h'
            · simpa using h'
          exfalso
          cases rest with
          | nil => cases b <;> simp [remTailOk] at hok <;> simp at hmem
          | cons c r => simp [remTailOk] at hok
        · rw [List.getLast?_cons_cons]
          exact ih h4 hrt hmem

/-- PAYLOAD PRESERVATION, the remark after an apostrophe, for every source string: if the lexed line holds
    the token `'`, the source (after the line number) is `a ++ ' ++ u0`, and the line ends with the token
    `Unknown (u0 without trailing white space)` — or with `'` itself when nothing but white space follows.
    PARTIAL: stated for lines without `REM` clash (the `Chain` says nothing behind a clashing `REM`). -/
theorem remark_apostrophe_all_partial (s : Str) (h : .word .rem2 ∈ (lex s).2) (hr : remClash (lex s).2 = false) :
    ∃ a u0, (splitLineNumber s).2 = a ++ '\'' :: u0 ∧
      (lex s).2.getLast? = some (if (trimEndStr u0).isEmpty then .word .rem2 else .unknown (trimEndStr u0)) := by
  have hm : .word .rem2 ∈ rawTokens (splitLineNumber s).2 :=
    mem_postPasses _ _ h (by rintro (h | h | h) <;> simp [isCmp] at h) (by simp) (by intro u; simp)
  obtain ⟨pre, a, u0, e1, e2, -⟩ := (payOK_all _ _ (Nat.le_refl _)).2 hm
  refine ⟨a, u0, e1, ?_⟩
  -- the last token after `trim_end`
  have htrim : (trimEnd (rawTokens (splitLineNumber s).2)).getLast? =
      some (if (trimEndStr u0).isEmpty then .word .rem2 else .unknown (trimEndStr u0)) := by
    rw [rawTokens_eq, e2]
    unfold remText
    by_cases hu : u0 = []
    · subst hu
      simp only [if_true]
      rw [show pre ++ [Token.word Word.rem2] = pre ++ [Token.word Word.rem2] from rfl, trimEnd_snoc]
      simp [trimEndStr]
    · rw [if_neg hu, show pre ++ [Token.word Word.rem2, Token.unknown u0] =
        (pre ++ [Token.word Word.rem2]) ++ [Token.unknown u0] by simp, trimEnd_snoc]
      simp only
      split
      · rw [trimEnd_snoc]; simp
      · simp
  -- the last token of the line
  obtain ⟨t, ht⟩ : ∃ t, (lex s).2.getLast? = some t := by
    cases hl : (lex s).2 with
    | nil => rw [hl] at h; simp at h
    | cons x r => exact ⟨_, List.getLast?_eq_some_getLast (by simp)⟩
  rw [ht]
  have hpos := chain_rem2_pos _ (lex_chain s) hr h
  rcases postPasses_last _ t ht with hl | hmade
  · rw [← hl]; exact htrim
  · exfalso
    rw [ht] at hpos
    rcases hpos with e | ⟨u, e⟩
    · cases e; rcases hmade with h' | h' | h' <;> simp [isCmp] at h'
    · cases e; rcases hmade with h' | h' | h' <;> simp [isCmp] at h'

end Lex
end Basic
