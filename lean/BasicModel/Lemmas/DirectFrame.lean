import BasicModel.Lemmas.GenNeg
import BasicModel.Lemmas.Program
/-
  Compiling a direct line leaves the compiled *indirect* program alone.

  `Program.base p` is what `Program.codegenLine` starts from when it is given a direct line: `p`
  linked, the code cut back to `directAddress`, no errors.  For a linked image `b`
  (`Program.Based b`) and any direct line, `base ((directGen b line).linkProg) = b`
  (`Program.base_directGen`): the code below `directAddress`, the DATA segment, the line symbols,
  `indirectErrors` and `directAddress` are exactly what they were.  The argument is an invariant
  `Link.Over b l` ("`l` is `b` plus direct-mode code") kept by every operation of the compile.
-/
namespace Basic
namespace Link

/-- a linked image: nothing pending, line symbols only, direct mode on -/
structure Clean (b : Link) : Prop where
  unlinked : b.unlinked = []
  whiles : b.whiles = []
  cur : b.currentSymbol = 0
  symbols : ∀ p ∈ b.symbols, 0 ≤ p.1
  directSet : b.directSet = true

/-- `l` is the linked image `b` plus direct-mode code at and above `b.ops.size` -/
structure Over (b l : Link) : Prop where
  size : b.ops.size ≤ l.ops.size
  ops : ∀ i, i < b.ops.size → l.ops[i]? = b.ops[i]?
  data : l.data = b.data
  dataPos : l.dataPos = b.dataPos
  directSet : l.directSet = true
  symbols : l.symbols.filter (fun p => p.1 ≥ 0) = b.symbols
  unlinked : ∀ p ∈ l.unlinked, b.ops.size ≤ p.1
  whiles : ∀ w ∈ l.whiles, b.ops.size ≤ w.2.2.1
  cur : l.currentSymbol ≤ 0

theorem Over.refl {b : Link} (hb : Clean b) : Over b b where
  size := Nat.le_refl _
  ops := fun _ _ => rfl
  data := rfl
  dataPos := rfl
  directSet := hb.directSet
  symbols := List.filter_eq_self.2 fun p hp => by simpa using hb.symbols p hp
  unlinked := by rw [hb.unlinked]; exact fun _ h => nomatch h
  whiles := by rw [hb.whiles]; exact fun _ h => nomatch h
  cur := by rw [hb.cur]; exact Int.le_refl 0

theorem Over.push {b l : Link} (h : Over b l) (op : Opcode) : Over b (l.push op).1 where
  size := by
    show b.ops.size ≤ (l.ops.push op).size
    rw [Array.size_push]; exact Nat.le_succ_of_le h.size
  ops := fun i hi => by
    show (l.ops.push op)[i]? = _
    rw [Array.getElem?_push, if_neg (by have := h.size; omega)]
    exact h.ops i hi
  data := h.data
  dataPos := h.dataPos
  directSet := h.directSet
  symbols := h.symbols
  unlinked := h.unlinked
  whiles := h.whiles
  cur := h.cur

theorem filter_symInsert_neg {k : Symbol} (hk : k < 0) (v : Nat × Nat) (m : List (Symbol × (Nat × Nat))) :
    (symInsert k v m).filter (fun p => p.1 ≥ 0) = m.filter (fun p => p.1 ≥ 0) := by
  have hk' : decide ((k, v).1 ≥ 0) = false := by
    show decide (k ≥ 0) = false
    simp only [Symbol] at *
    simp; omega
  induction m with
  | nil => simp only [symInsert, List.filter_cons, hk', List.filter_nil]; rfl
  | cons hd tl ih =>
    rcases hd with ⟨k', v'⟩
    unfold symInsert
    split
    · rw [List.filter_cons, hk']; rfl
    · split
      · rename_i _ he
        have hk2 : decide ((k', v').1 ≥ 0) = false := by rw [← he]; exact hk'
        rw [List.filter_cons, hk', List.filter_cons, hk2]; rfl
      · rw [List.filter_cons, List.filter_cons, ih]

theorem mem_unlInsert_iff {k : Nat} {v : Col × Symbol} {m : List (Nat × (Col × Symbol))}
    {p : Nat × (Col × Symbol)} (h : p ∈ unlInsert k v m) : p = (k, v) ∨ p ∈ m := by
  unfold unlInsert at h
  rcases List.mem_cons.1 h with h | h
  · exact .inl h
  · exact .inr (List.mem_filter.1 h).1

theorem Over.append {b l : Link} (h : Over b l) {f : Link} (hf : NegSyms f) : Over b (l.append f).1 := by
  have hcl : l.currentSymbol ≤ 0 := h.cur
  have hcf : f.currentSymbol ≤ 0 := hf.1
  have hcs : l.currentSymbol + f.currentSymbol ≤ 0 := by simp only [Symbol] at *; omega
  -- the symbol table: only negative keys are added
  have hsym : (f.symbols.foldl (fun m (x : Symbol × (Nat × Nat)) =>
      match x with
      | (s, (oa, da)) => symInsert (if s < 0 then s + l.currentSymbol else s) (oa + l.ops.size, da + l.data.size) m)
      l.symbols).filter (fun p => p.1 ≥ 0) = b.symbols := by
    have key : ∀ (xs : List (Symbol × (Nat × Nat))), (∀ x ∈ xs, x.1 < 0) → ∀ m : List (Symbol × (Nat × Nat)),
        (xs.foldl (fun m (x : Symbol × (Nat × Nat)) =>
          match x with
          | (s, (oa, da)) => symInsert (if s < 0 then s + l.currentSymbol else s) (oa + l.ops.size, da + l.data.size) m)
          m).filter (fun p => p.1 ≥ 0) = m.filter (fun p => p.1 ≥ 0) := by
      intro xs
      induction xs with
      | nil => intro _ m; rfl
      | cons x rest ih =>
        intro hx m
        rw [List.foldl_cons, ih (fun y hy => hx y (List.mem_cons_of_mem _ hy))]
        rcases x with ⟨s, oa, da⟩
        have hs : s < 0 := hx _ List.mem_cons_self
        dsimp only
        rw [if_pos hs]
        exact filter_symInsert_neg (by simp only [Symbol] at *; omega) _ _
    rw [key f.symbols hf.2]
    exact h.symbols
  -- pending references: only keys at or above the old end of the code are added
  have hunl : ∀ p ∈ f.unlinked.foldr (fun (x : Nat × (Col × Symbol)) m =>
      match x with
      | (a, (c, s)) => unlInsert (a + l.ops.size) (c, if s < 0 then s + l.currentSymbol else s) m) l.unlinked,
      b.ops.size ≤ p.1 := by
    generalize f.unlinked = xs
    induction xs with
    | nil => exact h.unlinked
    | cons x rest ih =>
      rcases x with ⟨a, c, s⟩
      rw [List.foldr_cons]
      intro p hp
      rcases mem_unlInsert_iff hp with e | hp
      · rw [e]; show b.ops.size ≤ a + l.ops.size; have := h.size; omega
      · exact ih p hp
  have hwh : ∀ w ∈ l.whiles ++ f.whiles.map (fun (x : Bool × Col × Nat × Symbol) =>
      match x with
      | (k, c, a, s) => (k, c, a + l.ops.size, s + l.currentSymbol)), b.ops.size ≤ w.2.2.1 := by
    intro w hw
    rcases List.mem_append.1 hw with hw | hw
    · exact h.whiles w hw
    · obtain ⟨x, _, e⟩ := List.mem_map.1 hw
      rcases x with ⟨k, c, a, s⟩
      rw [← e]; show b.ops.size ≤ a + l.ops.size; have := h.size; omega
  have hsz : b.ops.size ≤ (l.ops ++ f.ops).size := by rw [Array.size_append]; have := h.size; omega
  have hops : ∀ i, i < b.ops.size → (l.ops ++ f.ops)[i]? = b.ops[i]? := by
    intro i hi
    rw [Array.getElem?_append_left (by have := h.size; omega)]
    exact h.ops i hi
  unfold Link.append
  split
  · exact h
  · rename_i hrej
    have hfd : f.data = #[] := by
      rw [h.directSet] at hrej
      have : f.data.isEmpty = true := by simpa using hrej
      exact Array.isEmpty_iff.1 this
    dsimp only
    split
    · exact ⟨hsz, hops, h.data, h.dataPos, h.directSet, hsym, hunl, hwh, hcs⟩
    · refine ⟨hsz, hops, ?_, h.dataPos, h.directSet, hsym, hunl, hwh, hcs⟩
      show l.data ++ f.data = b.data
      rw [hfd, Array.append_empty]; exact h.data

/-! ### `link` -/

theorem linkWhiles_go_keys (l : Link) (N : Nat) :
    ∀ (ws : List (Bool × Col × Nat × Symbol)) (stack : List (Col × Nat × Symbol))
      (unl : List (Nat × (Col × Symbol))) (errs : List Error),
      (∀ w ∈ ws, N ≤ w.2.2.1) → (∀ w ∈ stack, N ≤ w.2.1) → (∀ p ∈ unl, N ≤ p.1) →
      ∀ p ∈ (linkWhiles.go l ws stack unl errs).1, N ≤ p.1 := by
  intro ws
  induction ws with
  | nil => intro stack unl errs _ _ hu; exact hu
  | cons w rest ih =>
    intro stack unl errs hw hs hu
    rcases w with ⟨k, c, a, s⟩
    have ha : N ≤ a := hw _ List.mem_cons_self
    have hrest : ∀ w ∈ rest, N ≤ w.2.2.1 := fun w h => hw w (List.mem_cons_of_mem _ h)
    cases k with
    | true =>
      unfold linkWhiles.go
      refine ih _ _ _ hrest ?_ hu
      intro x hx
      rcases List.mem_cons.1 hx with e | hx
      · rw [e]; exact ha
      · exact hs x hx
    | false =>
      cases stack with
      | nil =>
        unfold linkWhiles.go
        exact ih _ _ _ hrest (fun _ h => nomatch h) hu
      | cons top st =>
        rcases top with ⟨wc, wa, ws'⟩
        unfold linkWhiles.go
        have hwa : N ≤ wa := hs _ List.mem_cons_self
        refine ih _ _ _ hrest (fun x hx => hs x (List.mem_cons_of_mem _ hx)) ?_
        intro p hp
        rcases mem_unlInsert_iff hp with e | hp
        · rw [e]; exact ha
        · rcases mem_unlInsert_iff hp with e | hp
          · rw [e]; exact hwa
          · exact hu p hp

theorem Over.linkWhiles {b l : Link} (h : Over b l) : Over b l.linkWhiles.1 where
  size := h.size
  ops := h.ops
  data := h.data
  dataPos := h.dataPos
  directSet := h.directSet
  symbols := h.symbols
  unlinked := linkWhiles_go_keys l b.ops.size l.whiles [] l.unlinked [] h.whiles (fun _ hx => nomatch hx) h.unlinked
  whiles := fun _ hx => nomatch hx
  cur := h.cur

/-- the fields `linkOne` cannot change, and the ones it changes only at the patched address -/
theorem linkOne_frame (l : Link) (a : Nat) (c : Col) (sym : Symbol) :
    (l.linkOne a c sym).1.ops.size = l.ops.size ∧
    (∀ i, i ≠ a → (l.linkOne a c sym).1.ops[i]? = l.ops[i]?) ∧
    (l.linkOne a c sym).1.data = l.data ∧ (l.linkOne a c sym).1.dataPos = l.dataPos ∧
    (l.linkOne a c sym).1.directSet = l.directSet ∧ (l.linkOne a c sym).1.symbols = l.symbols ∧
    (l.linkOne a c sym).1.unlinked = l.unlinked ∧ (l.linkOne a c sym).1.whiles = l.whiles ∧
    (l.linkOne a c sym).1.currentSymbol = l.currentSymbol := by
  have hset : ∀ op, (l.ops.setIfInBounds a op).size = l.ops.size ∧
      ∀ i, i ≠ a → (l.ops.setIfInBounds a op)[i]? = l.ops[i]? :=
    fun op => ⟨Array.size_setIfInBounds, fun i hi => Array.getElem?_setIfInBounds_ne (fun e => hi e.symm)⟩
  unfold linkOne
  cases l.symbols.lookup sym with
  | none =>
    dsimp only
    split <;> exact ⟨rfl, fun _ _ => rfl, rfl, rfl, rfl, rfl, rfl, rfl, rfl⟩
  | some v =>
    rcases v with ⟨od, dd⟩
    dsimp only
    split <;> first
      | exact ⟨rfl, fun _ _ => rfl, rfl, rfl, rfl, rfl, rfl, rfl, rfl⟩
      | exact ⟨(hset _).1, (hset _).2, rfl, rfl, rfl, rfl, rfl, rfl, rfl⟩

theorem Over.linkOne {b l : Link} (h : Over b l) {a : Nat} (ha : b.ops.size ≤ a) (c : Col) (sym : Symbol) :
    Over b (l.linkOne a c sym).1 := by
  obtain ⟨h1, h2, h3, h4, h5, h6, h7, h8, h9⟩ := linkOne_frame l a c sym
  exact ⟨h1 ▸ h.size, fun i hi => (h2 i (by omega)).trans (h.ops i hi), h3 ▸ h.data, h4 ▸ h.dataPos,
    h5 ▸ h.directSet, h6 ▸ h.symbols, h7 ▸ h.unlinked, h8 ▸ h.whiles, h9 ▸ h.cur⟩

/-- the loop of `link` over the pending references -/
theorem Over.linkFold {b : Link} (pending : List (Nat × (Col × Symbol))) (hp : ∀ p ∈ pending, b.ops.size ≤ p.1) :
    ∀ (le : Link × List Error), Over b le.1 → le.1.unlinked = [] → le.1.whiles = [] →
      let r := pending.foldl (fun (x : Link × List Error) (y : Nat × (Col × Symbol)) =>
        match x, y with
        | (l, errs), (a, (c, s)) =>
          match Link.linkOne l a c s with
          | (l, some e) => (l, errs ++ [e])
          | (l, none) => (l, errs)) le
      Over b r.1 ∧ r.1.unlinked = [] ∧ r.1.whiles = [] := by
  induction pending with
  | nil => intro le h hu hw; exact ⟨h, hu, hw⟩
  | cons y rest ih =>
    intro le h hu hw
    rcases le with ⟨l, errs⟩
    rcases y with ⟨a, c, s⟩
    simp only [List.foldl_cons]
    have ha : b.ops.size ≤ a := hp _ List.mem_cons_self
    have ho := Over.linkOne h ha c s
    have hf := linkOne_frame l a c s
    have hu' : (Link.linkOne l a c s).1.unlinked = [] := hf.2.2.2.2.2.2.1.trans hu
    have hw' : (Link.linkOne l a c s).1.whiles = [] := hf.2.2.2.2.2.2.2.1.trans hw
    generalize Link.linkOne l a c s = lo at ho hu' hw'
    rcases lo with ⟨l', o⟩
    cases o with
    | none => exact ih (fun p hp' => hp p (List.mem_cons_of_mem _ hp')) (l', errs) ho hu' hw'
    | some e => exact ih (fun p hp' => hp p (List.mem_cons_of_mem _ hp')) (l', errs ++ [e]) ho hu' hw'

/-- what `link` leaves: nothing pending, line symbols only -/
structure Linked (l : Link) : Prop where
  unlinked : l.unlinked = []
  whiles : l.whiles = []
  cur : l.currentSymbol = 0
  symbols : ∀ p ∈ l.symbols, 0 ≤ p.1

theorem Over.link {b l : Link} (h : Over b l) : Over b l.link.1 ∧ Linked l.link.1 := by
  have h1 := h.linkWhiles
  have hw1 : l.linkWhiles.1.whiles = [] := rfl
  unfold Link.link
  generalize l.linkWhiles = lw at h1 hw1
  rcases lw with ⟨l1, errs1⟩
  dsimp only at h1 hw1 ⊢
  have h2 : Over b ({ l1 with unlinked := [] } : Link) :=
    ⟨h1.size, h1.ops, h1.data, h1.dataPos, h1.directSet, h1.symbols, fun _ hx => (nomatch hx), h1.whiles, h1.cur⟩
  have := Over.linkFold l1.unlinked h1.unlinked ({ l1 with unlinked := [] }, errs1) h2 rfl hw1
  dsimp only at this
  generalize List.foldl _ (({ l1 with unlinked := [] } : Link), errs1) l1.unlinked = r at this ⊢
  rcases r with ⟨l3, errs3⟩
  obtain ⟨h3, hu3, hw3⟩ := this
  dsimp only at h3 hu3 hw3 ⊢
  refine ⟨⟨h3.size, h3.ops, h3.data, h3.dataPos, h3.directSet, ?_, ?_, h3.whiles, Int.le_refl 0⟩,
    ⟨hu3, hw3, rfl, ?_⟩⟩
  · show (l3.symbols.filter (fun p => p.1 ≥ 0)).filter (fun p => p.1 ≥ 0) = b.symbols
    rw [List.filter_filter]
    simp only [Bool.and_self]
    exact h3.symbols
  · exact h3.unlinked
  · intro p hp
    have := (List.mem_filter.1 hp).2
    simpa using this

/-- cutting the direct code off a linked extension of `b` gives `b` back -/
theorem Over.cut {b l : Link} (hb : Clean b) (h : Over b l) (hl : Linked l) :
    ({ l with ops := l.ops.extract 0 b.ops.size } : Link) = b := by
  have hops : l.ops.extract 0 b.ops.size = b.ops := by
    apply Array.ext_getElem?
    intro i
    rw [Array.getElem?_extract]
    have := h.size
    by_cases hi : i < b.ops.size
    · rw [if_pos (by omega), Nat.zero_add]; exact h.ops i hi
    · rw [if_neg (by omega)]
      exact (Array.getElem?_eq_none (by omega)).symm
  have hsym : l.symbols = b.symbols := by
    rw [← h.symbols]
    exact (List.filter_eq_self.2 fun p hp => by simpa using hl.symbols p hp).symm
  have e1 := h.data
  have e2 := h.dataPos
  have e3 := h.directSet
  obtain ⟨b1, b2, b3, b4, b5⟩ := hb
  obtain ⟨l1, l2, l3, l4⟩ := hl
  rcases b with ⟨bc, bo, bd, bdp, bds, bs, bu, bw⟩
  rcases l with ⟨lc, lo, ld, ldp, lds, ls, lu, lw⟩
  dsimp only at *
  subst b1 b2 b3 b5 l1 l2 l3 e1 e2 e3 hsym
  rw [hops]

end Link

namespace Codegen
open Link

theorem appendAll_over {b : Link} (frags : List (Col × Link)) (hf : ∀ x ∈ frags, x.2.NegSyms) :
    ∀ (l : Link) (errs : List Error), Over b l → Over b (codegen.appendAll frags l errs).1 := by
  induction frags with
  | nil => intro l errs h; exact h
  | cons f rest ih =>
    intro l errs h
    rcases f with ⟨c, f⟩
    have h1 := h.append (hf (c, f) List.mem_cons_self)
    unfold codegen.appendAll
    generalize l.append f = x at h1
    rcases x with ⟨l', r⟩
    cases r with
    | error e => exact h1
    | ok u => exact ih (fun x hx => hf x (List.mem_cons_of_mem _ hx)) l' errs h1

/-- compiling statements onto a linked image in direct mode adds direct-mode code only -/
theorem codegen_over {b l : Link} (h : Over b l) (ast : List Stmt) : Over b (codegen l ast).1 := by
  unfold codegen
  exact appendAll_over _ (fragments_negSyms ast) l _ h

end Codegen

namespace Program
open Link

/-- what `codegenLine` starts from when the line is a direct one: the program linked, its code
    cut back to `directAddress`, no errors -/
def base (p : Program) : Program :=
  { p.linkProg with
    lineNumber := none,
    link := { p.linkProg.link with ops := p.linkProg.link.ops.extract 0 p.linkProg.directAddress },
    errors := [] }

/-- the rest of `codegenLine` for a direct line -/
def directGen (b : Program) (line : Line) : Program :=
  match Parse.parse none line.tokens with
  | .error e => { b with errors := b.errors ++ [e] }
  | .ok ast =>
    let (link, errs) := Codegen.codegen b.link ast
    let p := { b with link := link, errors := b.errors ++ errs.map (fun e => Error.inLine e b.lineNumber) }
    let (l, r) := p.link.push .end
    match r with
    | .ok () => { p with link := l }
    | .error e => { p with link := l, errors := p.errors ++ [e] }

theorem codegenLine_direct (p : Program) (line : Line) (h : line.number = none) :
    p.codegenLine line = directGen (base p) line := by
  unfold codegenLine directGen base
  simp only [h, Option.isNone_none, if_true]
  rfl

/-- the compile of a direct line depends on the program only through its `base` -/
theorem codegenLine_congr {p q : Program} (line : Line) (h : line.number = none) (e : base p = base q) :
    p.codegenLine line = q.codegenLine line := by
  rw [codegenLine_direct p line h, codegenLine_direct q line h, e]

/-- a linked image of the indirect program -/
structure Based (b : Program) : Prop where
  clean : Clean b.link
  addr : b.directAddress = b.link.ops.size
  pos : b.directAddress ≠ 0
  errors : b.errors = []
  lineNumber : b.lineNumber = none

/-- `q` is `b` with direct-mode code (and direct-mode errors) added -/
structure POver (b q : Program) : Prop where
  indirectErrors : q.indirectErrors = b.indirectErrors
  directAddress : q.directAddress = b.directAddress
  link : Over b.link q.link

theorem POver.directGen {b : Program} (hb : Based b) (line : Line) : POver b (directGen b line) := by
  unfold Program.directGen
  cases Parse.parse none line.tokens with
  | error e => exact ⟨rfl, rfl, Over.refl hb.clean⟩
  | ok ast =>
    dsimp only
    have h1 := Codegen.codegen_over (Over.refl hb.clean) ast
    generalize Codegen.codegen b.link ast = cg at h1
    rcases cg with ⟨l, errs⟩
    dsimp only at h1 ⊢
    have h2 := h1.push .end
    split <;> exact ⟨rfl, rfl, h2⟩

theorem POver.pushEndP {b q : Program} (h : POver b q) : POver b (pushEndP q) := by
  unfold Program.pushEndP
  have h2 := h.link.push .end
  dsimp only
  split <;> exact ⟨h.indirectErrors, h.directAddress, h2⟩

theorem POver.ensureEnd {b q : Program} (h : POver b q) : POver b (ensureEnd q) := by
  unfold Program.ensureEnd
  split
  · split
    · exact h.pushEndP
    · exact h
  · exact h.pushEndP

theorem POver.resolve {b q : Program} (h : POver b q) : POver b (resolve q) ∧ Linked (resolve q).link := by
  unfold Program.resolve
  have h2 := h.link.link
  generalize q.link.link = ll at h2
  rcases ll with ⟨l, es⟩
  dsimp only at h2 ⊢
  split <;> exact ⟨⟨h.indirectErrors, h.directAddress, h2.1⟩, h2.2⟩

theorem POver.linkProg {b q : Program} (hb : Based b) (h : POver b q) :
    POver b q.linkProg ∧ Linked q.linkProg.link := by
  rw [linkProg_eq]
  have h2 := h.ensureEnd.resolve
  have hd : (Program.resolve (Program.ensureEnd q)).directAddress ≠ 0 := by
    rw [h2.1.directAddress]; exact hb.pos
  unfold markDirect
  rw [if_neg hd]
  exact h2

/-- cutting a linked extension of `b` back gives `b` -/
theorem base_of_over {b q : Program} (hb : Based b) (h : POver b q) : base q = b := by
  obtain ⟨h1, h2⟩ := h.linkProg hb
  have hcut := h1.link.cut hb.clean h2
  unfold base
  generalize q.linkProg = r at h1 h2 hcut
  rw [h1.directAddress, hb.addr, hcut]
  have e1 := h1.indirectErrors
  have e2 := h1.directAddress
  have e3 := hb.errors
  have e4 := hb.lineNumber
  rcases b with ⟨be, bi, bd, bl, bk⟩
  rcases r with ⟨re, ri, rd, rl, rk⟩
  dsimp only at *
  subst e1 e2 e3 e4
  rfl

/-- **stability**: compiling and linking a further direct line onto the linked image `b` and
    cutting the code back to `directAddress` gives `b` again — nothing below `directAddress`,
    no DATA, no line symbol, neither `indirectErrors` nor `directAddress` has changed -/
theorem base_directGen {b : Program} (hb : Based b) (line : Line) :
    base ((directGen b line).linkProg) = b := by
  have h := (POver.directGen hb line).linkProg hb
  exact base_of_over hb h.1

/-- in terms of `codegenLine`: the `base` is stable under compiling a direct line -/
theorem base_codegenLine_direct (p : Program) (line : Line) (h : line.number = none) (hb : Based (base p)) :
    base ((p.codegenLine line).linkProg) = base p := by
  rw [codegenLine_direct p line h]; exact base_directGen hb line

theorem linkProg_indirectErrors_of_over {b : Program} (hb : Based b) (line : Line) :
    ((directGen b line).linkProg).indirectErrors = b.indirectErrors ∧
    ((directGen b line).linkProg).directAddress = b.directAddress :=
  ⟨((POver.directGen hb line).linkProg hb).1.indirectErrors, ((POver.directGen hb line).linkProg hb).1.directAddress⟩

/-! ### `base` and the data cursor -/

theorem base_withDP (p : Program) (d : Nat) : base (p.withDP d) = (base p).withDP d := by
  unfold base
  rw [linkProg_withDP]
  rfl

theorem Based.withDP {b : Program} (hb : Based b) (d : Nat) : Based (b.withDP d) :=
  ⟨⟨hb.clean.unlinked, hb.clean.whiles, hb.clean.cur, hb.clean.symbols, hb.clean.directSet⟩,
   hb.addr, hb.pos, hb.errors, hb.lineNumber⟩

/-! ### what `link`, `ensureEnd` and `resolve` do to any program -/

theorem link_linked (l : Link) : Linked l.link.1 ∧ l.link.1.ops.size = l.ops.size := by
  have hw1 : l.linkWhiles.1.whiles = [] := rfl
  have hs1 : l.linkWhiles.1.ops.size = l.ops.size := rfl
  unfold Link.link
  generalize l.linkWhiles = lw at hw1 hs1
  rcases lw with ⟨l1, errs1⟩
  dsimp only at hw1 hs1 ⊢
  have key : ∀ (pending : List (Nat × (Col × Symbol))) (le : Link × List Error),
      let r := pending.foldl (fun (x : Link × List Error) (y : Nat × (Col × Symbol)) =>
        match x, y with
        | (l, errs), (a, (c, s)) =>
          match Link.linkOne l a c s with
          | (l, some e) => (l, errs ++ [e])
          | (l, none) => (l, errs)) le
      r.1.unlinked = le.1.unlinked ∧ r.1.whiles = le.1.whiles ∧ r.1.ops.size = le.1.ops.size := by
    intro pending
    induction pending with
    | nil => intro le; exact ⟨rfl, rfl, rfl⟩
    | cons y rest ih =>
      intro le
      rcases le with ⟨l, errs⟩
      rcases y with ⟨a, c, s⟩
      simp only [List.foldl_cons]
      have hf := linkOne_frame l a c s
      generalize Link.linkOne l a c s = lo at hf
      rcases lo with ⟨l', o⟩
      cases o with
      | none =>
        have := ih (l', errs)
        exact ⟨this.1.trans hf.2.2.2.2.2.2.1, this.2.1.trans hf.2.2.2.2.2.2.2.1, this.2.2.trans hf.1⟩
      | some e =>
        have := ih (l', errs ++ [e])
        exact ⟨this.1.trans hf.2.2.2.2.2.2.1, this.2.1.trans hf.2.2.2.2.2.2.2.1, this.2.2.trans hf.1⟩
  have := key l1.unlinked ({ l1 with unlinked := [] }, errs1)
  dsimp only at this
  generalize List.foldl _ (({ l1 with unlinked := [] } : Link), errs1) l1.unlinked = r at this ⊢
  rcases r with ⟨l3, errs3⟩
  obtain ⟨hu3, hw3, hs3⟩ := this
  dsimp only at hu3 hw3 hs3 ⊢
  refine ⟨⟨hu3, hw3.trans hw1, rfl, ?_⟩, hs3.trans hs1⟩
  intro p hp
  have := (List.mem_filter.1 hp).2
  simpa using this

theorem pushEndP_frame (p : Program) :
    (pushEndP p).directAddress = p.directAddress ∧ (pushEndP p).link.ops.size = p.link.ops.size + 1 := by
  unfold pushEndP
  dsimp only
  split <;> exact ⟨rfl, Array.size_push _⟩

theorem ensureEnd_frame (p : Program) :
    (ensureEnd p).directAddress = p.directAddress ∧ (ensureEnd p).link.ops.size ≠ 0 := by
  unfold ensureEnd
  split
  · rename_i hb
    split
    · exact ⟨(pushEndP_frame p).1, by rw [(pushEndP_frame p).2]; omega⟩
    · refine ⟨rfl, ?_⟩
      intro h0
      rw [Array.back?_eq_getElem?, h0] at hb
      rw [Array.getElem?_eq_none (by omega)] at hb
      cases hb
  · exact ⟨(pushEndP_frame p).1, by rw [(pushEndP_frame p).2]; omega⟩

theorem resolve_frame (p : Program) :
    (resolve p).directAddress = p.directAddress ∧ (resolve p).link.ops.size = p.link.ops.size ∧
    Linked (resolve p).link := by
  unfold resolve
  have h := link_linked p.link
  generalize p.link.link = ll at h
  rcases ll with ⟨l, es⟩
  dsimp only at h ⊢
  split <;> exact ⟨rfl, h.2, h.1⟩

/-! ### every compile from scratch has a linked image as its `base`

  (also for a list of lines that contains unnumbered ones, which the listing never holds) -/

theorem append_mono (a b : Link) :
    a.ops.size ≤ (a.append b).1.ops.size ∧ (a.append b).1.directSet = a.directSet := by
  unfold Link.append
  split
  · exact ⟨Nat.le_refl _, rfl⟩
  · dsimp only
    split <;> exact ⟨by rw [Array.size_append]; omega, rfl⟩

theorem appendAll_mono (frags : List (Col × Link)) :
    ∀ (l : Link) (errs : List Error),
      l.ops.size ≤ (Codegen.codegen.appendAll frags l errs).1.ops.size ∧
      (Codegen.codegen.appendAll frags l errs).1.directSet = l.directSet := by
  induction frags with
  | nil => intro l errs; exact ⟨Nat.le_refl _, rfl⟩
  | cons f rest ih =>
    intro l errs
    rcases f with ⟨c, f⟩
    have h1 := append_mono l f
    unfold Codegen.codegen.appendAll
    generalize l.append f = x at h1
    rcases x with ⟨l', r⟩
    cases r with
    | error e => exact h1
    | ok u =>
      have h2 := ih l' errs
      exact ⟨Nat.le_trans h1.1 h2.1, h2.2.trans h1.2⟩

theorem codegen_mono (l : Link) (ast : List Stmt) :
    l.ops.size ≤ (Codegen.codegen l ast).1.ops.size ∧ (Codegen.codegen l ast).1.directSet = l.directSet := by
  unfold Codegen.codegen
  exact appendAll_mono _ l _

theorem link_directSet (l : Link) : l.link.1.directSet = l.directSet := by
  have hs1 : l.linkWhiles.1.directSet = l.directSet := rfl
  unfold Link.link
  generalize l.linkWhiles = lw at hs1
  rcases lw with ⟨l1, errs1⟩
  dsimp only at hs1 ⊢
  have key : ∀ (pending : List (Nat × (Col × Symbol))) (le : Link × List Error),
      (pending.foldl (fun (x : Link × List Error) (y : Nat × (Col × Symbol)) =>
        match x, y with
        | (l, errs), (a, (c, s)) =>
          match Link.linkOne l a c s with
          | (l, some e) => (l, errs ++ [e])
          | (l, none) => (l, errs)) le).1.directSet = le.1.directSet := by
    intro pending
    induction pending with
    | nil => intro le; rfl
    | cons y rest ih =>
      intro le
      rcases le with ⟨l, errs⟩
      rcases y with ⟨a, c, s⟩
      simp only [List.foldl_cons]
      have hf := (linkOne_frame l a c s).2.2.2.2.1
      generalize Link.linkOne l a c s = lo at hf
      rcases lo with ⟨l', o⟩
      cases o with
      | none => exact (ih (l', errs)).trans hf
      | some e => exact (ih (l', errs ++ [e])).trans hf
  exact (key l1.unlinked ({ l1 with unlinked := [] }, errs1)).trans hs1

/-- once the direct segment has been started: direct mode is on and `directAddress` lies within
    the code -/
def ProgOK (p : Program) : Prop :=
  p.directAddress ≠ 0 → p.link.directSet = true ∧ p.directAddress ≤ p.link.ops.size

theorem pushEndP_directSet (p : Program) : (pushEndP p).link.directSet = p.link.directSet := by
  unfold pushEndP; dsimp only; split <;> rfl

theorem ensureEnd_mono (p : Program) :
    p.link.ops.size ≤ (ensureEnd p).link.ops.size ∧ (ensureEnd p).link.directSet = p.link.directSet := by
  unfold ensureEnd
  split
  · split
    · exact ⟨by rw [(pushEndP_frame p).2]; omega, pushEndP_directSet p⟩
    · exact ⟨Nat.le_refl _, rfl⟩
  · exact ⟨by rw [(pushEndP_frame p).2]; omega, pushEndP_directSet p⟩

theorem resolve_directSet (p : Program) : (resolve p).link.directSet = p.link.directSet := by
  unfold resolve
  have h := link_directSet p.link
  generalize p.link.link = ll at h
  rcases ll with ⟨l, es⟩
  dsimp only at h ⊢
  split <;> exact h

/-- after `linkProg` the direct segment has been started -/
theorem linkProg_ok (p : Program) (hp : ProgOK p) :
    p.linkProg.directAddress ≠ 0 ∧ p.linkProg.link.directSet = true ∧
    p.linkProg.directAddress ≤ p.linkProg.link.ops.size ∧ Linked p.linkProg.link := by
  have he := ensureEnd_frame p
  have hm := ensureEnd_mono p
  have hr := resolve_frame (ensureEnd p)
  have hds := resolve_directSet (ensureEnd p)
  rw [linkProg_eq]
  unfold markDirect
  generalize hrr : resolve (ensureEnd p) = r at hr hds
  by_cases hd : r.directAddress = 0
  · rw [if_pos hd]
    have hsz : r.link.ops.size ≠ 0 := by rw [hr.2.1]; exact he.2
    refine ⟨hsz, rfl, Nat.le_refl _, ⟨hr.2.2.unlinked, hr.2.2.whiles, hr.2.2.cur, ?_⟩⟩
    intro q hq
    rcases mem_symInsert_iff hq with e | hq
    · rw [e]; show (0 : Int) ≤ (Gen.maxLineNumber : Int) + 1; decide
    · exact hr.2.2.symbols q hq
  · rw [if_neg hd]
    have hpd : p.directAddress ≠ 0 := by rw [← he.1, ← hr.1]; exact hd
    obtain ⟨h1, h2⟩ := hp hpd
    refine ⟨hd, by rw [hds, hm.2]; exact h1, ?_, hr.2.2⟩
    rw [hr.1, he.1, hr.2.1]
    exact Nat.le_trans h2 hm.1

theorem codegenLine_ok (p : Program) (line : Line) (hp : ProgOK p) : ProgOK (p.codegenLine line) := by
  cases hn : line.number with
  | some n =>
    unfold codegenLine
    simp only [hn, Option.isNone_some, Bool.false_eq_true, if_false]
    split
    · exact hp
    · rename_i ast _
      have hm := codegen_mono (p.link.pushSymbol n) ast
      generalize Codegen.codegen (p.link.pushSymbol n) ast = cg at hm
      rcases cg with ⟨l, errs⟩
      intro hd
      obtain ⟨h1, h2⟩ := hp hd
      exact ⟨hm.2.trans h1, Nat.le_trans h2 hm.1⟩
  | none =>
    rw [codegenLine_direct p line hn]
    obtain ⟨h1, h2, h3, _⟩ := linkProg_ok p hp
    have hb1 : (base p).directAddress = p.linkProg.directAddress := rfl
    have hb2 : (base p).link.directSet = p.linkProg.link.directSet := rfl
    have hb3 : (base p).link.ops.size = p.linkProg.directAddress := by
      show (p.linkProg.link.ops.extract 0 p.linkProg.directAddress).size = _
      rw [Array.size_extract]; omega
    generalize base p = b at hb1 hb2 hb3
    unfold directGen
    split
    · intro _
      exact ⟨hb2.trans h2, by rw [hb1, hb3]; exact Nat.le_refl _⟩
    · rename_i ast _
      have hm := codegen_mono b.link ast
      generalize Codegen.codegen b.link ast = cg at hm
      rcases cg with ⟨l, errs⟩
      dsimp only at hm ⊢
      have : b.directAddress ≤ (l.ops.push Opcode.end).size := by
        rw [Array.size_push, hb1, ← hb3]; omega
      split <;> (intro _; exact ⟨(hm.2.trans hb2).trans h2, this⟩)

theorem codegenLines_ok (lines : List Line) (p : Program) (hp : ProgOK p) : ProgOK (p.codegenLines lines) := by
  unfold codegenLines
  induction lines generalizing p with
  | nil => exact hp
  | cons l ls ih => rw [List.foldl_cons]; exact ih _ (codegenLine_ok p l hp)

theorem based_of_ok (p : Program) (hp : ProgOK p) : Based (base p) := by
  obtain ⟨h1, h2, h3, h4⟩ := linkProg_ok p hp
  unfold base
  refine ⟨⟨h4.unlinked, h4.whiles, h4.cur, h4.symbols, h2⟩, ?_, h1, rfl, rfl⟩
  show p.linkProg.directAddress = (p.linkProg.link.ops.extract 0 p.linkProg.directAddress).size
  rw [Array.size_extract]; omega

/-- the image a fresh interpreter compiles its direct lines onto — for any list of lines -/
theorem based_compile (lines : List Line) : Based (base (({} : Program).codegenLines lines)) :=
  based_of_ok _ (codegenLines_ok lines {} (fun h => absurd rfl h))

end Program
end Basic
